/-
C31 — Configuration sources layer predictably without side effects.

`SerfModel.Gen.MergeConfig.table` is regenerated from `type Config` and the body of
`MergeConfig` (cmd/serf/command/agent/config.go) on every run: one row per field
with its kind and the ONE merge statement found for it.  `SerfModel.Config.merge`
interprets the table.  The theorems below are about `merge Gen.table`; their side
conditions on the table are discharged by `decide`, so a changed `MergeConfig`
that no longer layers a field as documented no longer builds.

`WT t c` is the representation invariant of a Go `Config` (each field holds a value
of its declared type, maps have no duplicate keys); it restricts nothing.
-/
import SerfProofs.Lemmas.Config
import SerfModel.Gen.MergeConfig
namespace SerfProofs.C31
open SerfModel SerfModel.Config SerfProofs.Config
open SerfModel.Gen.MergeConfig (table)

/-- The documented layering of one setting, given the earlier value `a`, the later value
`b` and the merged value `r`. -/
def Layered : Doc → FieldVal → FieldVal → FieldVal → Prop
  | .laterIfSet, a, b, r => r = if isSet b then b else a              -- later wins when it sets it
  | .laterIfPositive, a, b, r => r = if isPositive b then b else a    -- Protocol: "sets it" = is positive (TestMergeConfig)
  | .switch, a, b, r => ∃ x y, a = .bool x ∧ b = .bool y ∧ r = .bool (x || y)   -- on if either turns it on
  | .laterAlways, _, b, r => r = b                                    -- compression: from the later source
  | .concat, a, b, r => ∃ x y, a = .list x ∧ b = .list y ∧ r = .list (x ++ y)   -- concatenated in order
  | .combine, a, b, r => ∃ x y z, a = .tags x ∧ b = .tags y ∧ r = .tags z ∧      -- combined, later wins per key
      ∀ k, alookup (z.getD []) k = combinedLookup x y k

/-- Rule `r` on a field of kind `k` realises the documented layering `d` for ALL values. -/
def implementsDoc : Rule → Doc → Kind → Bool
  | .overrideIfNonEmpty, .laterIfSet, .str => true
  | .overrideIfNonZero, .laterIfSet, .int => true
  | .overrideIfNonZero, .laterIfSet, .dur => true
  | .overrideIfPositive, .laterIfPositive, .int => true
  | .orSwitch, .switch, .bool => true
  | .always, .laterAlways, _ => true
  | .concat, .concat, .list => true
  | .tagsFresh, .combine, .tags => true
  | .tagsInPlace, .combine, .tags => true      -- same VALUES (it fails C31_pure, not this)
  | .appendInPlace, .concat, .list => true     -- same VALUES (it fails C31_pure, not this)
  | _, _, _ => false

theorem over_eq_combined (x y : Option Tags) (k : String) :
    over (alookup (y.getD []) k) (alookup (x.getD []) k) = combinedLookup x y k := by
  unfold over combinedLookup
  cases alookup (y.getD []) k <;> rfl

/-- the general interpreter lemma behind `C31_fieldwise` -/
theorem mergeVal_layered (r : Rule) (d : Doc) (k : Kind) (a b : FieldVal)
    (himp : implementsDoc r d k = true)
    (ha : hasKind k a = true) (hb : hasKind k b = true) :
    Layered d a b (mergeVal r a b) := by
  cases k with
  | str =>
    obtain ⟨x, rfl⟩ := hasKind_str ha; obtain ⟨y, rfl⟩ := hasKind_str hb
    cases r <;> cases d <;> simp [implementsDoc] at himp <;> simp [Layered, mergeVal, isSet]
  | int =>
    obtain ⟨x, rfl⟩ := hasKind_int ha; obtain ⟨y, rfl⟩ := hasKind_int hb
    cases r <;> cases d <;> simp [implementsDoc] at himp <;> simp [Layered, mergeVal, isSet, isPositive]
  | dur =>
    obtain ⟨x, rfl⟩ := hasKind_dur ha; obtain ⟨y, rfl⟩ := hasKind_dur hb
    cases r <;> cases d <;> simp [implementsDoc] at himp <;> simp [Layered, mergeVal, isSet]
  | bool =>
    obtain ⟨x, rfl⟩ := hasKind_bool ha; obtain ⟨y, rfl⟩ := hasKind_bool hb
    cases r <;> cases d <;> simp [implementsDoc] at himp <;>
      cases x <;> cases y <;> simp [Layered, mergeVal]
  | list =>
    obtain ⟨x, rfl⟩ := hasKind_list ha; obtain ⟨y, rfl⟩ := hasKind_list hb
    cases r <;> cases d <;> simp [implementsDoc] at himp <;> simp [Layered, mergeVal]
  | tags =>
    obtain ⟨x, rfl, hx⟩ := hasKind_tags ha; obtain ⟨y, rfl, hy⟩ := hasKind_tags hb
    cases r <;> cases d <;> simp [implementsDoc] at himp <;> simp only [Layered, mergeVal]
    · exact ⟨x, y, _, rfl, rfl, rfl, fun k => by rw [alookup_mergeTags x y hx hy, over_eq_combined]⟩
    · exact ⟨x, y, _, rfl, rfl, rfl, fun k => by rw [alookup_mergeTagsInPlace x y hy, over_eq_combined]⟩

/-! ## Obligations on the regenerated table (all `by decide`) -/

/-- field names are distinct (the record is well formed) -/
theorem C31_table_names_nodup : (names table).Nodup := by decide

/-- every statement of `MergeConfig` is applied to a field of a matching type -/
theorem C31_table_compat : ∀ fs ∈ table, compat fs.rule fs.kind = true := by decide

/-- **No setting is dropped**: every field with a user-facing meaning (everything but the
`*Raw` twins) has a merge statement.  (Dropping `ValidateNodeNames` /
`MsgpackUseNewTimeFormat`, repaired in 8994bad, is rule `none` here.) -/
theorem C31_no_setting_dropped : ∀ fs ∈ table, (docOf fs).isSome = true → fs.rule ≠ .none := by decide

/-- every setting's statement realises its documented layering for ALL values (`Protocol`:
`if b.Protocol > 0`, the documented "later wins when positive") -/
theorem C31_table_layering : ∀ fs ∈ table, ∀ d, docOf fs = some d → implementsDoc fs.rule d fs.kind = true := by
  decide

/-- no statement writes through a map or a slice of an input (the pre-repair tag merge is
`tagsInPlace`; `result.X = append(a.X, b.X...)` is `appendInPlace`) -/
theorem C31_table_no_inplace : ∀ fs ∈ table, writesInput fs.rule = false := by decide

/-! ## Field-wise layering -/

/-- **Every setting** (every field but the `*Raw` twins) of the merged configuration follows its
documented layering rule, for all configurations: later source wins when it sets it (`Protocol`:
when positive — by design, see `docOf`), switches or-ed, compression from the later source, tags
combined with the later source winning, lists concatenated in order. -/
theorem C31_fieldwise (a b : Config) (ha : WT table a) (hb : WT table b) :
    ∀ fs ∈ table, ∀ d, docOf fs = some d →
      Layered d (get a fs.name) (get b fs.name) (get (merge table a b) fs.name) := by
  intro fs hfs d hd
  rw [get_merge table C31_table_names_nodup a b fs hfs]
  exact mergeVal_layered fs.rule d fs.kind _ _ (C31_table_layering fs hfs d hd) (ha fs hfs) (hb fs hfs)

def exA : Config := (zero table).map fun p => if p.1 == "Protocol" then (p.1, .int 5) else p
def exB : Config := (zero table).map fun p => if p.1 == "Protocol" then (p.1, .int (-1)) else p

/-- the by-design behaviour TestMergeConfig pins down: a later `Protocol = -1` does not
override an earlier `Protocol = 5` (and the well-typedness hypotheses are satisfiable) -/
example : WT table exA ∧ WT table exB ∧ get (merge table exA exB) "Protocol" = .int 5 ∧
    get (merge table exB exA) "Protocol" = .int 5 := by decide

/-! ## Associativity -/

/-- `MergeConfig(MergeConfig(a,b),c)` and `MergeConfig(a,MergeConfig(b,c))` agree on every
field (maps compared as maps). -/
theorem C31_assoc (a b c : Config) (ha : WT table a) (hb : WT table b) (hc : WT table c) :
    ∀ fs ∈ table, valEq (get (merge table (merge table a b) c) fs.name)
                        (get (merge table a (merge table b c)) fs.name) := by
  intro fs hfs
  have nd := C31_table_names_nodup
  rw [get_merge table nd _ c fs hfs, get_merge table nd a b fs hfs,
    get_merge table nd a _ fs hfs, get_merge table nd b c fs hfs]
  exact mergeVal_assoc fs.rule fs.kind (C31_table_compat fs hfs) _ _ _ (ha fs hfs) (hb fs hfs) (hc fs hfs)

/-- merging well-typed configurations gives a well-typed configuration (so merges chain) -/
theorem C31_merge_wt (a b : Config) (ha : WT table a) (hb : WT table b) : WT table (merge table a b) := by
  intro fs hfs
  rw [get_merge table C31_table_names_nodup a b fs hfs]
  exact hasKind_mergeVal fs.rule fs.kind (C31_table_compat fs hfs) _ _ (ha fs hfs) (hb fs hfs)

example : WT table exA ∧ WT table exB ∧ WT table (zero table) := by decide

/-! ## Reading paths = folding the merge -/

/-- The body of `ReadConfigPaths`, statement by statement, is: `result := new(Config)`; for each
path: open, stat (each failure returns no configuration); a plain file is decoded and merged
`MergeConfig(result, config)`; a directory is listed, SORTED, and each entry that is not a
directory and ends in `.json` is opened, decoded and merged `MergeConfig(result, config)` into
the SAME running result; finally `result` is returned.  Its variation points are the canonical
ones (`canonicalRead`), and `dirEnts.Less` orders names ascending. -/
theorem C31_read_shape :
    Gen.MergeConfig.readTokens =
      ["init", "paths[", "open", "fail", "stat", "fail",
         "file[", "decode", "close", "fail", "merge:result,config", "continue", "]",
         "readdir", "close", "fail", "sort",
         "each[", "skipdir", "suffix:.json", "join", "open", "fail", "decode", "close", "fail", "merge:result,config", "]",
       "]", "return"] ∧
    Gen.MergeConfig.readShape = canonicalRead := by decide

/-- **the translated reader is the model** -/
theorem C31_reader_is_model (ps : List PathArg) :
    readPathsS Gen.MergeConfig.readShape table ps = readPaths table ps := by
  rw [C31_read_shape.2]; exact readPathsS_canonical table ps

/-- **Reading files in order equals merging them one by one.**  Reading a list of paths (files,
directories, unreadable paths; entries that do not decode) equals merging the selected sources
— each file path as given, a directory's non-directory `*.json` entries in lexical order — one
by one, left to right, starting from the zero configuration; it fails iff one of them fails. -/
theorem C31_fold (ps : List PathArg) :
    readPathsS Gen.MergeConfig.readShape table ps =
      (allOk (sources ps)).map (fun cs => cs.foldl (merge table) (zero table)) := by
  rw [C31_reader_is_model]; exact readLoop_eq table ps (zero table)

def exComp : Config := (zero table).map fun p => if p.1 == "EnableCompression" then (p.1, .bool true) else p

/-- Regression witness (seeded mutation C31-a): merging a directory's files into an own empty
configuration first and that into the result is NOT the same reader — a directory that
contributes no `.json` file then acts as an extra empty source and resets the compression
switch (which always comes from the later source). -/
theorem C31_separate_dir_counterexample :
    get ((readPathsS { canonicalRead with dirMode := .separate } table [.file (some exComp), .dir []]).getD [])
        "EnableCompression" = .bool false ∧
    get ((readPathsS canonicalRead table [.file (some exComp), .dir []]).getD []) "EnableCompression" = .bool true := by
  decide

/-- `sources` keeps every occurrence: a file reached twice (a repeated path; a file named
explicitly that also sits in a given directory) is merged twice, at both positions — that is what
"reading files in order equals merging them one by one" says (`C31_fold` quantifies over path
lists with repetitions).  Regression witness (seeded C31-e), on a two-field table: a reader that
drops a file it has already seen is a different reader — the later occurrence no longer wins
over the file in between, and its lists are not appended a second time. -/
theorem C31_repeated_source_counterexample :
    let t : List FieldSpec := [⟨"NodeName", .str, .overrideIfNonEmpty⟩, ⟨"StartJoin", .list, .concat⟩]
    let s1 : Config := [("NodeName", .str "x"), ("StartJoin", .list ["s"])]
    let s2 : Config := [("NodeName", .str "y"), ("StartJoin", .list [])]
    let ps : List PathArg := [.file (some s1), .file (some s2), .file (some s1)]
    readPathsS canonicalRead t ps = some [("NodeName", .str "x"), ("StartJoin", .list ["s", "s"])] ∧
    ((allOk (sources ps).eraseDups).map fun cs => cs.foldl (merge t) (zero t))
      = some [("NodeName", .str "y"), ("StartJoin", .list ["s"])] := by
  decide

/-- a concrete reading: a directory listed out of order with a non-`.json` file and a
sub-directory, and a failing read -/
example :
    readPaths table [.dir [⟨"b.json", false, some exB⟩, ⟨"a.json", false, some exA⟩, ⟨"c.txt", false, none⟩, ⟨"d.json", true, none⟩]]
      = some (merge table (merge table (zero table) exA) exB) ∧
    readPaths table [.file (some exA), .dir [⟨"x.json", false, none⟩]] = none := by decide

/-! ## DecodeConfig's post-processing (what a source file contributes) -/

/-- `DecodeConfig` is: JSON-decode, `mapstructure`-decode into a fresh `Config` rejecting unknown
keys (`ErrorUnused: true`), then one block per duration setting, in this order, each of the shape
`if result.XRaw != "" { dur, err := time.ParseDuration(result.XRaw); if err != nil { return nil, err }; result.X = dur }`,
then `return &result, nil`. -/
theorem C31_decode_shape :
    Gen.MergeConfig.decodeTokens =
      ["decl", "json-decoder", "json-decode-or-fail", "decl", "decl",
       "mapstructure{Metadata: &md, Result: &result, ErrorUnused: true}", "fail", "mapstructure-decode-or-fail",
       "duration", "duration", "duration", "duration", "duration", "return"] ∧
    Gen.MergeConfig.durationPairs =
      [("ReconnectIntervalRaw", "ReconnectInterval"), ("ReconnectTimeoutRaw", "ReconnectTimeout"),
       ("TombstoneTimeoutRaw", "TombstoneTimeout"), ("RetryIntervalRaw", "RetryInterval"),
       ("BroadcastTimeoutRaw", "BroadcastTimeout")] := by decide

/-- every `*Raw` string of `Config` has its block, raw strings and durations do not overlap, no
duration is written twice, and the fields have the expected types -/
theorem C31_decode_pairs_ok :
    (∀ pr ∈ Gen.MergeConfig.durationPairs, ∀ pr' ∈ Gen.MergeConfig.durationPairs, pr.1 ≠ pr'.2) ∧
    (Gen.MergeConfig.durationPairs.map (·.2)).Nodup ∧
    (∀ pr ∈ Gen.MergeConfig.durationPairs,
      table.any (fun fs => fs.name == pr.1 && fs.kind == .str) = true ∧
      table.any (fun fs => fs.name == pr.2 && fs.kind == .dur) = true) ∧
    (∀ fs ∈ table, endsWithRaw fs.name = true → (Gen.MergeConfig.durationPairs.map (·.1)).contains fs.name = true) := by
  decide

/-- **What a file contributes after `DecodeConfig`'s post-processing**, for every decoded field
assignment `c` (the result of the JSON / mapstructure step) and every behaviour `parseDur` of
`time.ParseDuration`: decoding fails exactly when some non-empty `XRaw` does not parse;
otherwise every duration `X` whose `XRaw` is non-empty is the parsed value and EVERY other
field — also a duration whose raw string is empty — is what the file's JSON gave. -/
theorem C31_decode (parseDur : String → Option Int) (c : Config) (hc : WT table c) :
    match decodePost parseDur Gen.MergeConfig.durationPairs c with
    | none => ∃ pr ∈ Gen.MergeConfig.durationPairs, ∃ s, get c pr.1 = .str s ∧ s ≠ "" ∧ parseDur s = none
    | some c' => (∀ f, f ∉ Gen.MergeConfig.durationPairs.map (·.2) → get c' f = get c f) ∧
        ∀ pr ∈ Gen.MergeConfig.durationPairs, ∃ s, get c pr.1 = .str s ∧
          (s = "" → get c' pr.2 = get c pr.2) ∧ (s ≠ "" → ∃ n, parseDur s = some n ∧ get c' pr.2 = .int n) := by
  obtain ⟨h1, h2, h3, _⟩ := C31_decode_pairs_ok
  apply decodePost_spec parseDur _ c h1 h2
  · intro pr hpr
    obtain ⟨fs, hfs, hk⟩ := List.any_eq_true.mp (h3 pr hpr).2
    simp only [Bool.and_eq_true, beq_iff_eq] at hk
    have := hc fs hfs
    rw [hk.2, hk.1] at this
    obtain ⟨i, hi⟩ := hasKind_dur this
    cases ha : alookup c pr.2 with
    | some x => rfl
    | none => simp [SerfModel.Config.get, ha] at hi
  · intro pr hpr
    obtain ⟨fs, hfs, hk⟩ := List.any_eq_true.mp (h3 pr hpr).1
    simp only [Bool.and_eq_true, beq_iff_eq] at hk
    have := hc fs hfs
    rw [hk.2, hk.1] at this
    exact hasKind_str this

def exRaw : Config := (zero table).map fun p =>
  if p.1 == "RetryIntervalRaw" then (p.1, .str "5s") else if p.1 == "BroadcastTimeoutRaw" then (p.1, .str "soon") else p

/-- non-vacuity: a well-typed decoded file; with a parser that knows "5s" only, decoding fails on
"soon"; with one that also reads "soon", `RetryInterval` becomes 5 s and `BroadcastTimeout` 1 -/
example : WT table exRaw ∧
    decodePost (fun s => if s = "5s" then some 5000000000 else none) Gen.MergeConfig.durationPairs exRaw = none ∧
    ((decodePost (fun s => if s = "5s" then some 5000000000 else some 1) Gen.MergeConfig.durationPairs exRaw).map
      fun c => (get c "RetryInterval", get c "BroadcastTimeout", get c "ReconnectInterval"))
      = some (.int 5000000000, .int 1, .int 0) := by decide

/-! ## No side effects (heap view) -/

/-- `MergeConfig` on a heap: every object that existed before the call — in particular
every map and slice reachable from `a` or `b` — is unchanged afterwards; the call only
allocates.  Holds for every heap and all reference-level configurations. -/
theorem C31_pure (h : Heap) (a b : RConfig) :
    ∀ i, i < h.length → (mergeH table h a b).1[i]? = h[i]? :=
  (mergeHLoop_keeps table C31_table_no_inplace h a b []).2

/-- **The heap view and the value view agree**: over any heap on which the inputs are
well-formed (every map/slice field is nil or the address of an object of the right sort, every
other field a scalar), what the heap-level `MergeConfig` returns denotes exactly
`merge table` of what the inputs denote.  So `C31_pure` is about the same call whose result
`C31_fieldwise` / `C31_assoc` / `C31_fold` describe. -/
theorem C31_heap_value_agree (h : Heap) (a b : RConfig)
    (hin : ∀ fs ∈ table, RefOK h fs.kind (rget a fs.name) ∧ RefOK h fs.kind (rget b fs.name)) :
    deref table (mergeH table h a b).1 (mergeH table h a b).2 =
      merge table (deref table h a) (deref table h b) :=
  mergeH_deref table C31_table_names_nodup h a b
    (fun fs hfs => ⟨C31_table_compat fs hfs, C31_table_no_inplace fs hfs, (hin fs hfs).1, (hin fs hfs).2⟩)

/-- the all-zero reference-level configuration (nil maps and slices) -/
def rzero : RConfig := table.map fun fs =>
  (fs.name, match fs.kind with
    | .tags => .ref none
    | .list => .slice none
    | k => .scalar (zeroVal k))

/-- non-vacuity: well-formed inputs exist over any heap -/
example (h : Heap) : ∀ fs ∈ table, RefOK h fs.kind (rget rzero fs.name) ∧ RefOK h fs.kind (rget rzero fs.name) := by
  intro fs hfs
  have : rget rzero fs.name = match fs.kind with
      | .tags => .ref none
      | .list => .slice none
      | k => .scalar (zeroVal k) := by
    unfold rget rzero
    rw [alookup_map_rspec _ table C31_table_names_nodup fs hfs]; rfl
  rw [this]
  cases fs.kind <;> simp [RefOK]

/-- **Inputs read the same after the call** (what `C31_pure` means for a caller): a
well-formed input denotes the same configuration in the heap the call returns. -/
theorem C31_inputs_unchanged (h : Heap) (a b x : RConfig)
    (hx : ∀ fs ∈ table, RefOK h fs.kind (rget x fs.name)) :
    deref table (mergeH table h a b).1 x = deref table h x :=
  deref_keeps table (mergeHLoop_keeps table C31_table_no_inplace h a b []) x hx

/-- **Results do not change afterwards**: a configuration returned by `MergeConfig` denotes
the same value after ANY later `MergeConfig` call — in particular another merge of the same
first argument (`merge(base,b)` then `merge(base,c)`), whatever that later call's arguments. -/
theorem C31_results_stable (h : Heap) (a b c d : RConfig)
    (hin : ∀ fs ∈ table, RefOK h fs.kind (rget a fs.name) ∧ RefOK h fs.kind (rget b fs.name)) :
    deref table (mergeH table (mergeH table h a b).1 c d).1 (mergeH table h a b).2 =
      deref table (mergeH table h a b).1 (mergeH table h a b).2 :=
  deref_keeps table (mergeHLoop_keeps table C31_table_no_inplace _ c d []) _
    (mergeH_result_refok table C31_table_names_nodup h a b
      (fun fs hfs => ⟨C31_table_compat fs hfs, C31_table_no_inplace fs hfs, (hin fs hfs).1, (hin fs hfs).2⟩))

/-- well-formed over `h`: every field a scalar / nil / a valid map reference / a valid slice header -/
def WF (h : Heap) (c : RConfig) : Prop := ∀ fs ∈ table, RefOK h fs.kind (rget c fs.name)

theorem WF_keeps {h h' : Heap} (hk : Keeps h h') {c : RConfig} (hc : WF h c) : WF h' c :=
  fun fs hfs => RefOK_keeps hk _ _ (hc fs hfs)

theorem WF_result (h : Heap) (a b : RConfig) (ha : WF h a) (hb : WF h b) : WF (mergeH table h a b).1 (mergeH table h a b).2 :=
  mergeH_result_refok table C31_table_names_nodup h a b
    (fun fs hfs => ⟨C31_table_compat fs hfs, C31_table_no_inplace fs hfs, ha fs hfs, hb fs hfs⟩)

theorem keeps_mergeH (h : Heap) (a b : RConfig) : Keeps h (mergeH table h a b).1 :=
  mergeHLoop_keeps table C31_table_no_inplace h a b []

/-- **Associativity on the heap**, for inputs whose slices may have any spare capacity and may
share storage: both association orders, executed on the heap (the inner result living in the
heap the inner call returned), denote field-wise equal configurations. -/
theorem C31_assoc_heap (h : Heap) (a b c : RConfig) (ha : WF h a) (hb : WF h b) (hc : WF h c)
    (hwa : WT table (deref table h a)) (hwb : WT table (deref table h b)) (hwc : WT table (deref table h c)) :
    let m1 := mergeH table h a b
    let l := mergeH table m1.1 m1.2 c
    let m2 := mergeH table h b c
    let r := mergeH table m2.1 a m2.2
    ∀ fs ∈ table, valEq (get (deref table l.1 l.2) fs.name) (get (deref table r.1 r.2) fs.name) := by
  intro m1 l m2 r fs hfs
  have k1 : Keeps h m1.1 := keeps_mergeH h a b
  have k2 : Keeps h m2.1 := keeps_mergeH h b c
  have e1 : deref table l.1 l.2 = merge table (merge table (deref table h a) (deref table h b)) (deref table h c) := by
    show deref table (mergeH table m1.1 m1.2 c).1 (mergeH table m1.1 m1.2 c).2 = _
    rw [C31_heap_value_agree m1.1 m1.2 c (fun fs hfs => ⟨WF_result h a b ha hb fs hfs, WF_keeps k1 hc fs hfs⟩),
      C31_heap_value_agree h a b (fun fs hfs => ⟨ha fs hfs, hb fs hfs⟩), deref_keeps table k1 c hc]
  have e2 : deref table r.1 r.2 = merge table (deref table h a) (merge table (deref table h b) (deref table h c)) := by
    show deref table (mergeH table m2.1 a m2.2).1 (mergeH table m2.1 a m2.2).2 = _
    rw [C31_heap_value_agree m2.1 a m2.2 (fun fs hfs => ⟨WF_keeps k2 ha fs hfs, WF_result h b c hb hc fs hfs⟩),
      C31_heap_value_agree h b c (fun fs hfs => ⟨hb fs hfs, hc fs hfs⟩), deref_keeps table k2 a ha]
  rw [e1, e2]
  exact C31_assoc _ _ _ hwa hwb hwc fs hfs

/-- **The fold on the heap**: a chain of merges executed on the heap — each step's accumulator
is the previous step's result, in the heap that step returned; the sources may have spare
capacity and share storage — denotes the value-level left fold of `merge` over what the sources
denote.  (With `C31_fold` and `C31_decode`: what `ReadConfigPaths` returns.) -/
theorem C31_fold_heap (cs : List RConfig) : ∀ (h : Heap) (acc : RConfig), WF h acc → (∀ c ∈ cs, WF h c) →
    deref table (foldH table h acc cs).1 (foldH table h acc cs).2 =
      (cs.map (deref table h)).foldl (merge table) (deref table h acc) := by
  induction cs with
  | nil => intro h acc _ _; rfl
  | cons c cs ih =>
    intro h acc hacc hcs
    have hc : WF h c := hcs c (by simp)
    have k : Keeps h (mergeH table h acc c).1 := keeps_mergeH h acc c
    simp only [foldH, List.map_cons, List.foldl_cons]
    rw [ih _ _ (WF_result h acc c hacc hc) (fun x hx => WF_keeps k (hcs x (by simp [hx]))),
      C31_heap_value_agree h acc c (fun fs hfs => ⟨hacc fs hfs, hc fs hfs⟩)]
    congr 1
    apply List.map_congr_left
    intro x hx
    exact deref_keeps table k x (hcs x (by simp [hx]))

/-- non-vacuity: the zero configuration is well-formed over any heap and denotes a well-typed value -/
example (h : Heap) : WF h rzero := by
  intro fs hfs
  have : rget rzero fs.name = match fs.kind with
      | .tags => .ref none
      | .list => .slice none
      | k => .scalar (zeroVal k) := by
    unfold rget rzero
    rw [alookup_map_rspec _ table C31_table_names_nodup fs hfs]; rfl
  rw [this]
  cases fs.kind <;> simp [RefOK]

example : WT table (deref table [] rzero) := by decide

/-- Regression witness: with the pre-repair statement shape (`tagsInPlace`) the call writes
`b`'s tags into `a`'s map. -/
theorem C31_pure_inplace_counterexample :
    (mergeH [⟨"Tags", .tags, .tagsInPlace⟩] [.tags [("a", "1")], .tags [("b", "2")]]
        [("Tags", .ref (some 0))] [("Tags", .ref (some 1))]).1[0]? = some (.tags [("a", "1"), ("b", "2")]) := by
  decide

/-- Witness for `result.X = append(a.X, b.X...)` (`appendInPlace`, seeded mutation C31-b), with
Go's exact `append`: the base's list has length 1 and capacity 3.  `merge(base,b)` writes `b`'s
entry into the base's backing array (input storage written) and shares it; `merge(base,c)` then
overwrites that cell, so the FIRST result now ends in `c`'s entry.  With capacity = length the
same calls are harmless (append reallocates) — which is why linear chains and literal slices
never show the defect. -/
theorem C31_append_inplace_counterexample :
    let t : List FieldSpec := [⟨"StartJoin", .list, .appendInPlace⟩]
    let base : RConfig := [("StartJoin", .slice (some (0, 1)))]
    let h : Heap := [.strs ["s", "", ""], .strs ["b"], .strs ["c"]]
    let m1 := mergeH t h base [("StartJoin", .slice (some (1, 1)))]
    let m2 := mergeH t m1.1 base [("StartJoin", .slice (some (2, 1)))]
    deref t m1.1 m1.2 = [("StartJoin", .list ["s", "b"])] ∧
    deref t m2.1 m1.2 = [("StartJoin", .list ["s", "c"])] ∧
    m1.1[0]? = some (.strs ["s", "b", ""]) ∧
    -- no spare capacity: both results stay intact
    (let h' : Heap := [.strs ["s"], .strs ["b"], .strs ["c"]]
     let n1 := mergeH t h' base [("StartJoin", .slice (some (1, 1)))]
     let n2 := mergeH t n1.1 base [("StartJoin", .slice (some (2, 1)))]
     deref t n2.1 n1.2 = [("StartJoin", .list ["s", "b"])] ∧ n2.1[0]? = h'[0]?) := by
  decide

end SerfProofs.C31
