/-
C05 — Each user event reaches the application at most once per node.

Model: `SerfModel.EventBuf` (`handleUserEvent` of serf/serf.go and the event
replay of `MergeRemoteState` in serf/delegate.go), with the event clock advanced
by the `Witness` program regenerated from serf/lamport.go.

An event is identified by (Lamport time, item) where the item is (name, payload);
the theorems are generic in the item type (only equality is used, as in
`userEvent.Equals`).  Histories are arbitrary lists of gossip deliveries and
push/pull replays of arbitrary buffer images with or without the join-ignore
raise of the cut-off; the buffer size is any `0 < N < 2^64` (`len` of a Go slice);
the node may start from any clock and cut-off (fresh start or snapshot restart).

Hypotheses that stay, and why:
* `0 < N`: with `EventBuffer = 0` the real code divides by zero in
  `LTime % LamportTime(len(buf))` and panics on the first event — a configuration,
  not an input (C09 is about inputs); the model is meaningless there.
* `N < 2^64`: `len` of a Go slice is an `int`; needed so that `LamportTime(len(buf))`
  is `N` itself.
* `NoWrap` (at-most-once only): necessary, see `C05_at_most_once_counterexample`
  (replayed on a real node on every run: recorded finding `redelivery-after-wrap`).

FULL STATEMENT (not provable — the code violates it, see the counterexample):

    theorem C05_at_most_once (N) (hN : 0 < N) (hN2 : N < 2^64) (c m : W) (ins : List (In α)) :
        (deliveries (Buf.start N c m) ins).Nodup

`Witness(2^64−1)` wraps the event clock to 0 (C19's recorded finding), which
disables the too-old guard; with a slot collision an evicted event is delivered
again.  Proved instead: the statement under `NoWrap ins` (no input carries the
time 2^64−1) and the negation witness at 2^64−1.
-/
import SerfProofs.Lemmas.EventBuf
import SerfModel.Gen.BufLocks
import SerfModel.Gen.BufHandler
import SerfModel.Gen.PushPullReplay
import SerfProofs.Lemmas.BufHandlerIR
namespace SerfProofs.C05
open SerfModel.Atomic SerfModel.EventBuf SerfProofs.EventBuf

variable {α : Type} [DecidableEq α]

/-- **At most once.** For every buffer size, every start state and every history
without the time 2^64−1, no (time, name, payload) is handed to the application twice. -/
theorem C05_at_most_once_partial (N : Nat) (hN : 0 < N) (hN2 : N < 2 ^ 64) (c m : W)
    (ins : List (In α)) (hnw : NoWrap ins) :
    (deliveries (Buf.start N c m) ins).Nodup := by
  have h := run_inv ins (Buf.start (α := α) N c m) [] (by simpa [Buf.start] using hN)
    (by simpa [Buf.start] using hN2) hnw (Inv.start N c m)
  simpa [deliveries] using h.1.nodup

/-- The same for the state right after `Create` without a snapshot. -/
theorem C05_at_most_once_fresh_node_partial (N : Nat) (hN : 0 < N) (hN2 : N < 2 ^ 64)
    (ins : List (In α)) (hnw : NoWrap ins) :
    (deliveries (Buf.init N) ins).Nodup :=
  C05_at_most_once_partial N hN hN2 1#64 0#64 ins hnw

-- non-vacuity: a history with a duplicate, a slot collision, a too-old event and a
-- push/pull replay satisfies `NoWrap`, and delivers what one expects.
example : NoWrap (α := Nat) [.gossip 1#64 7, .gossip 1#64 7, .gossip 3#64 8,
    .pushPull 9#64 false [some (1#64, [7, 9]), none, some (8#64, [7])], .gossip 1#64 9] := by
  intro i hi t ht
  simp only [List.mem_cons, List.not_mem_nil, or_false] at hi
  rcases hi with rfl | rfl | rfl | rfl | rfl <;> simp [In.times, flatten] at ht <;>
    (try rcases ht with rfl | rfl | rfl) <;> (try subst ht) <;> decide
example : deliveries (α := Nat) (Buf.init 2) [.gossip 1#64 7, .gossip 1#64 7, .gossip 3#64 8,
    .pushPull 9#64 false [some (1#64, [7, 9]), none, some (8#64, [7])], .gossip 1#64 9]
    = [(1#64, 7), (3#64, 8), (8#64, 7)] := by decide

/-- **Exactly when delivered** (one step): an event is handed to the application
iff it is not below the cut-off, not too old under the clock after witnessing it,
and not already recorded in its slot for the same time. -/
theorem C05_delivered_iff (b : Buf α) (lt : W) (x : α) :
    (handle b lt x).2 = .delivered ↔
      (¬ lt < b.minTime ∧ tooOld b.slots.length (witness b.clock lt) lt = false
        ∧ x ∉ seenAt b.slots (slotIdx b.slots.length lt) lt) := by
  unfold handle
  simp only
  by_cases h1 : lt < b.minTime
  · simp [h1]
  by_cases h2 : tooOld b.slots.length (witness b.clock lt) lt = true
  · simp [h1, h2]
  by_cases h3 : x ∈ seenAt b.slots (slotIdx b.slots.length lt) lt
  · simp [h1, h2, h3]
  · simp [h1, h2, h3]

/-- Everything recorded in a slot was delivered (no `NoWrap` needed). -/
def SlotsIn (b : Buf α) (D : List (W × α)) : Prop :=
  ∀ (i : Nat) (t : W) (xs : List α), b.slots[i]? = some (some (t, xs)) → ∀ x ∈ xs, (t, x) ∈ D

omit [DecidableEq α] in
theorem slotsIn_start (N : Nat) (c m : W) : SlotsIn (Buf.start (α := α) N c m) [] := (Inv.start N c m).slotsIn

theorem handle_slotsIn (b : Buf α) (D : List (W × α)) (lt : W) (x : α) (h : SlotsIn b D) :
    SlotsIn (handle b lt x).1 (if (handle b lt x).2 = .delivered then D ++ [(lt, x)] else D) := by
  unfold handle
  simp only
  by_cases h1 : lt < b.minTime
  · simp only [h1, ↓reduceIte]; exact fun i t xs hs => h i t xs hs
  by_cases h2 : tooOld b.slots.length (witness b.clock lt) lt = true
  · simp only [h1, h2, ↓reduceIte]; exact fun i t xs hs => h i t xs hs
  by_cases h3 : x ∈ seenAt b.slots (slotIdx b.slots.length lt) lt
  · simp only [h1, h2, h3, ↓reduceIte, Bool.false_eq_true]; exact fun i t xs hs => h i t xs hs
  simp only [h1, h2, h3, ↓reduceIte, Bool.false_eq_true]
  intro i t xs hs y hy
  simp only [List.getElem?_set] at hs
  by_cases hi : slotIdx b.slots.length lt = i
  · simp only [hi, ↓reduceIte] at hs
    split at hs
    · simp only [Option.some.injEq, Prod.mk.injEq] at hs
      obtain ⟨rfl, rfl⟩ := hs
      simp only [List.mem_append, List.mem_singleton] at hy ⊢
      rcases hy with hy | hy
      · left
        rw [← hi] at hy
        exact h _ _ _ (slot_of_mem_seenAt _ _ _ _ hy) y hy
      · right; rw [hy]
    · cases hs
  · simp only [hi, ↓reduceIte] at hs
    exact List.mem_append_left _ (h i t xs hs y hy)

theorem handleAll_slotsIn (l : List (W × α)) : ∀ (b : Buf α) (D : List (W × α)), SlotsIn b D →
    SlotsIn (handleAll b l).1 (D ++ (handleAll b l).2) := by
  induction l with
  | nil => intro b D h; simpa [handleAll] using h
  | cons p rest ih =>
    intro b D h
    obtain ⟨t, x⟩ := p
    have h1 := handle_slotsIn b D t x h
    have h2 := ih (handle b t x).1 _ h1
    simp only [handleAll]
    by_cases hr : (handle b t x).2 = .delivered
    · simp only [hr, ↓reduceIte] at h2 ⊢
      simpa [List.append_assoc] using h2
    · simp only [hr, ↓reduceIte] at h2 ⊢
      exact h2

omit [DecidableEq α] in
theorem prelude_slotsIn (b : Buf α) (D : List (W × α)) (e : W) (raise : Bool) (h : SlotsIn b D) :
    SlotsIn (raiseMin (witnessRemote b e) raise e) D := by
  unfold raiseMin witnessRemote SlotsIn
  split <;> split <;> exact h

theorem run_slotsIn (ins : List (In α)) : ∀ (b : Buf α) (D : List (W × α)), SlotsIn b D →
    SlotsIn (SerfModel.EventBuf.run b ins).1 (D ++ (SerfModel.EventBuf.run b ins).2) := by
  induction ins with
  | nil => intro b D h; simpa [SerfModel.EventBuf.run] using h
  | cons i rest ih =>
    intro b D h
    have h1 : SlotsIn (stepIn b i).1 (D ++ (stepIn b i).2) := by
      cases i with
      | gossip lt x => exact handleAll_slotsIn _ b D h
      | pushPull e raise image => exact handleAll_slotsIn _ _ D (prelude_slotsIn b D e raise h)
    have h2 := ih (stepIn b i).1 _ h1
    simp only [SerfModel.EventBuf.run]
    simpa [List.append_assoc] using h2

/-- The buffer length never changes. -/
theorem handleAll_length (l : List (W × α)) : ∀ (b : Buf α), (handleAll b l).1.slots.length = b.slots.length := by
  induction l with
  | nil => intro b; rfl
  | cons p rest ih =>
    intro b
    obtain ⟨t, y⟩ := p
    simp only [handleAll]
    rw [ih]
    unfold handle
    simp only
    split
    · rfl
    · split
      · rfl
      · split
        · rfl
        · simp

omit [DecidableEq α] in
theorem prelude_length (b : Buf α) (e : W) (raise : Bool) :
    (raiseMin (witnessRemote b e) raise e).slots.length = b.slots.length := by
  unfold raiseMin witnessRemote
  split <;> split <;> rfl

theorem run_length (ins : List (In α)) : ∀ (b : Buf α),
    (SerfModel.EventBuf.run b ins).1.slots.length = b.slots.length := by
  induction ins with
  | nil => intro b; rfl
  | cons i rest ih =>
    intro b
    simp only [SerfModel.EventBuf.run]
    rw [ih]
    cases i with
    | gossip lt x => exact handleAll_length _ _
    | pushPull e raise image =>
      simp only [stepIn]
      rw [handleAll_length, prelude_length]

/-- **A first-time event inside the window is delivered** — state form.  In any
state whose slots only hold delivered events (`SlotsIn`, an invariant of every
reachable and every intermediate state, with no hypothesis on the times), an event
that was not delivered before, whose time is not below the cut-off and lies within
the window `lt + N ≥ clock` (clock taken after witnessing the event) is delivered. -/
theorem C05_fresh_delivered_state (b : Buf α) (D : List (W × α)) (hs : SlotsIn b D)
    (hN2 : b.slots.length < 2 ^ 64) (lt : W) (x : α)
    (hfirst : (lt, x) ∉ D) (hmin : ¬ lt < b.minTime)
    (hwin : ¬ lt.toNat + b.slots.length < (witness b.clock lt).toNat) :
    (handle b lt x).2 = .delivered := by
  rw [C05_delivered_iff]
  refine ⟨hmin, ?_, ?_⟩
  · cases hto : tooOld b.slots.length (witness b.clock lt) lt with
    | false => rfl
    | true => exact absurd ((tooOld_iff hN2 _ _).1 hto) hwin
  · intro hmem
    exact hfirst (hs _ _ _ (slot_of_mem_seenAt _ _ _ _ hmem) x hmem)

/-- **A first-time event inside the window is delivered** — after *any* history
(gossip and push/pull, any times), for an event arriving by gossip: not delivered
before (in particular: received for the first time), not below the join/restart
cut-off, inside the recent-event window. -/
theorem C05_fresh_delivered (N : Nat) (hN2 : N < 2 ^ 64) (c m : W) (ins : List (In α))
    (lt : W) (x : α)
    (hfirst : (lt, x) ∉ deliveries (Buf.start N c m) ins)
    (hmin : ¬ lt < (SerfModel.EventBuf.run (Buf.start N c m) ins).1.minTime)
    (hwin : ¬ lt.toNat + N < (witness (SerfModel.EventBuf.run (Buf.start N c m) ins).1.clock lt).toNat) :
    (handle (SerfModel.EventBuf.run (Buf.start N c m) ins).1 lt x).2 = .delivered := by
  have hs := run_slotsIn ins (Buf.start (α := α) N c m) [] (slotsIn_start N c m)
  have hlen : (SerfModel.EventBuf.run (Buf.start (α := α) N c m) ins).1.slots.length = N := by
    rw [run_length]; simp [Buf.start]
  apply C05_fresh_delivered_state _ _ hs (by omega) lt x
  · simpa [deliveries] using hfirst
  · exact hmin
  · rw [hlen]; exact hwin

/-- The same for an event arriving inside a push/pull replay: after any history,
the prelude of `MergeRemoteState` (remote clock witnessed, cut-off possibly raised)
and the part `pre` of the image replayed before it. -/
theorem C05_fresh_delivered_in_replay (N : Nat) (hN2 : N < 2 ^ 64) (c m : W) (ins : List (In α))
    (e : W) (raise : Bool) (pre : List (W × α)) (lt : W) (x : α) :
    let b0 := (SerfModel.EventBuf.run (Buf.start N c m) ins).1
    let b1 := handleAll (raiseMin (witnessRemote b0 e) raise e) pre
    (lt, x) ∉ deliveries (Buf.start N c m) ins ++ b1.2 →
    ¬ lt < b1.1.minTime →
    ¬ lt.toNat + N < (witness b1.1.clock lt).toNat →
    (handle b1.1 lt x).2 = .delivered := by
  intro b0 b1 hfirst hmin hwin
  have hs0 := run_slotsIn ins (Buf.start (α := α) N c m) [] (slotsIn_start N c m)
  have hs1 := handleAll_slotsIn pre _ _ (prelude_slotsIn _ _ e raise hs0)
  have hlen : b1.1.slots.length = N := by
    show (handleAll _ pre).1.slots.length = N
    rw [handleAll_length, prelude_length, run_length]; simp [Buf.start]
  apply C05_fresh_delivered_state b1.1 _ hs1 (by omega) lt x
  · simpa [deliveries] using hfirst
  · exact hmin
  · rw [hlen]; exact hwin

-- non-vacuity of C05_fresh_delivered: after a history, a new payload at a time still
-- inside the window is delivered.
example : (handle (SerfModel.EventBuf.run (α := Nat) (Buf.start 2 1#64 0#64)
    [.gossip 1#64 7, .gossip 3#64 8]).1 2#64 5).2 = .delivered := by decide

section slotTimes
attribute [local irreducible] SerfModel.EventBuf.witness

omit [DecidableEq α] in
theorem prelude_clock (b : Buf α) (e : W) (raise : Bool) :
    b.clock.toNat ≤ (raiseMin (witnessRemote b e) raise e).clock.toNat
    ∧ (raiseMin (witnessRemote b e) raise e).slots = b.slots := by
  have h1 : b.clock.toNat ≤ (witnessRemote b e).clock.toNat ∧ (witnessRemote b e).slots = b.slots := by
    unfold witnessRemote
    by_cases he : 0#64 < e
    · simp only [he, ↓reduceIte]
      have hne : e - 1#64 ≠ maxW := by
        intro hEq
        have : (e - 1#64).toNat = 2 ^ 64 - 1 := by rw [hEq]; simp [maxW]
        bv_omega
      exact ⟨(witness_nat b.clock _ hne).1, trivial⟩
    · simp only [he, ↓reduceIte]; exact ⟨Nat.le_refl _, trivial⟩
  unfold raiseMin
  by_cases hr : (raise = true ∧ (witnessRemote b e).minTime < e)
  · simp only [hr, and_self, ↓reduceIte]; exact h1
  · simp only [hr, ↓reduceIte]; exact h1

/-- Every slot's time is congruent to its index and below the clock. -/
def SlotTimes (b : Buf α) : Prop :=
  ∀ (i : Nat) (t : W) (xs : List α), b.slots[i]? = some (some (t, xs)) →
    t.toNat % b.slots.length = i ∧ t.toNat < b.clock.toNat

theorem handle_slotTimes (b : Buf α) (lt : W) (x : α) (hN : 0 < b.slots.length) (hN2 : b.slots.length < 2 ^ 64)
    (hlt : lt ≠ maxW) (h : SlotTimes b) : SlotTimes (handle b lt x).1 := by
  obtain ⟨hw1, hw2⟩ := witness_nat b.clock lt hlt
  have hkeep : ∀ (c : W), b.clock.toNat ≤ c.toNat → SlotTimes { b with clock := c } := by
    intro c hc i t xs hs
    have := h i t xs hs
    exact ⟨this.1, by simp only; omega⟩
  unfold handle
  simp only
  by_cases h1 : lt < b.minTime
  · simp only [h1, ↓reduceIte]; exact hkeep _ hw1
  by_cases h2 : tooOld b.slots.length (witness b.clock lt) lt = true
  · simp only [h1, h2, ↓reduceIte]; exact hkeep _ hw1
  by_cases h3 : x ∈ seenAt b.slots (slotIdx b.slots.length lt) lt
  · simp only [h1, h2, h3, ↓reduceIte, Bool.false_eq_true]; exact hkeep _ hw1
  simp only [h1, h2, h3, ↓reduceIte, Bool.false_eq_true]
  rw [slotIdx_eq hN2]
  intro i t xs hs
  simp only [List.getElem?_set, List.length_set] at hs ⊢
  by_cases hi : lt.toNat % b.slots.length = i
  · simp only [hi, ↓reduceIte] at hs
    split at hs
    · simp only [Option.some.injEq, Prod.mk.injEq] at hs
      obtain ⟨rfl, _⟩ := hs
      exact ⟨hi, hw2⟩
    · cases hs
  · simp only [hi, ↓reduceIte] at hs
    have := h i t xs hs
    exact ⟨this.1, by omega⟩

theorem handleAll_slotTimes (l : List (W × α)) : ∀ (b : Buf α), 0 < b.slots.length → b.slots.length < 2 ^ 64 →
    (∀ p ∈ l, p.1 ≠ maxW) → SlotTimes b → SlotTimes (handleAll b l).1 := by
  induction l with
  | nil => intro b _ _ _ h; exact h
  | cons p rest ih =>
    intro b hN hN2 hl h
    obtain ⟨t, x⟩ := p
    have h1 := handle_slotTimes b t x hN hN2 (hl (t, x) (List.mem_cons_self ..)) h
    have hlen : (handle b t x).1.slots.length = b.slots.length := handleAll_length [(t, x)] b
    simp only [handleAll]
    exact ih _ (by omega) (by omega) (fun p hp => hl p (List.mem_cons_of_mem _ hp)) h1

/-- **Slot discipline.** After every history without the time 2^64−1, every
occupied slot `i` holds a time `t` with `t ≡ i (mod N)` and `t < clock`. -/
theorem C05_slot_times (N : Nat) (hN : 0 < N) (hN2 : N < 2 ^ 64) (c m : W) (ins : List (In α))
    (hnw : NoWrap ins) : SlotTimes (SerfModel.EventBuf.run (Buf.start N c m) ins).1 := by
  have key : ∀ (ins : List (In α)) (b : Buf α), 0 < b.slots.length → b.slots.length < 2 ^ 64 →
      NoWrap ins → SlotTimes b → SlotTimes (SerfModel.EventBuf.run b ins).1 := by
    intro ins
    induction ins with
    | nil => intro b _ _ _ h; exact h
    | cons i rest ih =>
      intro b hN hN2 hnw h
      have hi := hnw i (List.mem_cons_self ..)
      have hrest : NoWrap rest := fun j hj => hnw j (List.mem_cons_of_mem _ hj)
      simp only [SerfModel.EventBuf.run]
      cases i with
      | gossip lt x =>
        have h1 := handleAll_slotTimes [(lt, x)] b hN hN2
          (by intro p hp; simp at hp; subst hp; exact hi lt (by simp [In.times])) h
        have hl := handleAll_length [(lt, x)] b
        exact ih _ (by simp only [stepIn]; omega) (by simp only [stepIn]; omega) hrest h1
      | pushPull e raise image =>
        have hp : SlotTimes (raiseMin (witnessRemote b e) raise e) := by
          have hc := prelude_clock b e raise
          intro i t xs hs
          rw [hc.2] at hs ⊢
          have := h i t xs hs
          exact ⟨this.1, by omega⟩
        have hpl := prelude_length b e raise
        have h1 := handleAll_slotTimes (flatten image) _ (by omega) (by omega)
          (by intro p hp'; exact hi p.1 (by simp only [In.times, List.mem_map]; exact ⟨p, hp', rfl⟩)) hp
        have hl := handleAll_length (flatten image) (raiseMin (witnessRemote b e) raise e)
        exact ih _ (by simp only [stepIn]; omega) (by simp only [stepIn]; omega) hrest h1
  apply key ins _ (by simpa [Buf.start] using hN) (by simpa [Buf.start] using hN2) hnw
  intro i t xs hs
  simp only [Buf.start, List.getElem?_replicate] at hs
  split at hs <;> simp at hs

end slotTimes

-- non-vacuity of C05_slot_times: its hypotheses are satisfiable
example : SlotTimes (SerfModel.EventBuf.run (α := Nat) (Buf.start 2 1#64 0#64) [.gossip 1#64 7, .gossip 3#64 8]).1 :=
  C05_slot_times 2 (by decide) (by decide) 1#64 0#64 _ (by
    intro i hi t ht
    simp only [List.mem_cons, List.not_mem_nil, or_false] at hi
    rcases hi with rfl | rfl <;> simp [In.times] at ht <;> subst ht <;> decide)

-- non-vacuity of C05_fresh_delivered_in_replay: a join push/pull with the cut-off raised to 9
-- replays (9, 7); a new event at time 10 arriving next in the same replay is delivered.
example : (handle (handleAll (raiseMin (witnessRemote (SerfModel.EventBuf.run (α := Nat) (Buf.start 2 1#64 0#64)
    [.gossip 1#64 7]).1 9#64) true 9#64) [(9#64, 7)]).1 10#64 5).2 = .delivered := by decide

/-- **Negation witness (buffer of 2, three messages).**  Event `a` at time 1 is
delivered; an event at time 2^64−1 (same slot) wraps the event clock to 0 and
evicts it; the duplicate of `a` is then neither too old nor found in its slot and
is delivered a second time. -/
theorem C05_at_most_once_counterexample :
    ¬ (deliveries (α := Nat) (Buf.init 2)
        [.gossip 1#64 0, .gossip (BitVec.allOnes 64) 1, .gossip 1#64 0]).Nodup := by decide

theorem C05_counterexample_deliveries :
    deliveries (α := Nat) (Buf.init 2) [.gossip 1#64 0, .gossip (BitVec.allOnes 64) 1, .gossip 1#64 0]
      = [(1#64, 0), (BitVec.allOnes 64, 1), (1#64, 0)] := by decide


/-- Source-tied obligation: `handleUserEvent` runs its whole check-and-record section under the exclusive
`eventLock` (first lock call is `Lock`, the unlock is deferred, the mutex is not touched again and the buffer is
not read before it).  This is what makes `handle` ONE atomic action, so that concurrent deliveries of the same
event (gossip and push/pull at the same moment) are covered by the sequential theorems above. -/
theorem C05_handler_holds_lock : SerfModel.Gen.BufLocks.handleUserEvent.wholeBodyExclusive = true := by decide

/-! ### Delivered-iff at full strength, and "exactly once"

Where 2^64−1 enters: only through `SerfProofs.EventBuf.witness_nat` (witnessing a
time ≠ 2^64−1 never moves the clock back and moves it past the time).  It is used
for the two invariant clauses "delivered events are below the clock" and "a
delivered event that is not yet too old sits in its slot".  Everything that needs
only "what sits in a slot was delivered" (`SlotsIn`) — in particular "a fresh event
inside the window IS delivered" — holds for all 64-bit times. -/

/-- **Delivered ⇔ (not below the cut-off ∧ inside the window ∧ not delivered
before)** — state form.  `Inv b D` holds in every state reached by a history
without the time 2^64−1 (gossip and push/pull replays mixed, also in the middle of a
replay); the arriving time `lt` itself is arbitrary (2^64−1 included). -/
theorem C05_delivered_iff_inv (b : Buf α) (D : List (W × α)) (h : Inv b D)
    (hN2 : b.slots.length < 2 ^ 64) (lt : W) (x : α) :
    (handle b lt x).2 = .delivered ↔
      (¬ lt < b.minTime ∧ ¬ lt.toNat + b.slots.length < (witness b.clock lt).toNat ∧ (lt, x) ∉ D) := by
  constructor
  · intro hd
    obtain ⟨h1, h2, h3⟩ := (C05_delivered_iff b lt x).1 hd
    have hwin : ¬ lt.toNat + b.slots.length < (witness b.clock lt).toNat := by
      intro hlt
      have := (tooOld_iff hN2 (witness b.clock lt) lt).2 hlt
      rw [this] at h2; cases h2
    refine ⟨h1, hwin, ?_⟩
    intro hmem
    apply h3
    rw [slotIdx_eq hN2]
    apply h.inSlot (lt, x) hmem
    simp only
    by_cases hmax : lt = maxW
    · have h64 : lt.toNat = 2 ^ 64 - 1 := by rw [hmax]; simp [maxW]
      have := b.clock.isLt
      omega
    · have := (witness_nat b.clock lt hmax).1
      omega
  · intro ⟨h1, h2, h3⟩
    exact C05_fresh_delivered_state b D h.slotsIn hN2 lt x h3 h1 h2

/-- **Delivered ⇔ …** for an event arriving by gossip after any history (gossip and
push/pull replays mixed) without the time 2^64−1. -/
theorem C05_delivered_iff_history_partial (N : Nat) (hN : 0 < N) (hN2 : N < 2 ^ 64) (c m : W)
    (ins : List (In α)) (hnw : NoWrap ins) (lt : W) (x : α) :
    (handle (SerfModel.EventBuf.run (Buf.start N c m) ins).1 lt x).2 = .delivered ↔
      (¬ lt < (SerfModel.EventBuf.run (Buf.start N c m) ins).1.minTime
       ∧ ¬ lt.toNat + N < (witness (SerfModel.EventBuf.run (Buf.start N c m) ins).1.clock lt).toNat
       ∧ (lt, x) ∉ deliveries (Buf.start N c m) ins) := by
  have h := run_inv ins (Buf.start (α := α) N c m) [] (by simpa [Buf.start] using hN)
    (by simpa [Buf.start] using hN2) hnw (Inv.start N c m)
  have hlen : (SerfModel.EventBuf.run (Buf.start (α := α) N c m) ins).1.slots.length = N := by
    rw [h.2]; simp [Buf.start]
  have := C05_delivered_iff_inv _ _ h.1 (by omega) lt x
  rw [hlen] at this
  simpa [deliveries] using this

/-- **Delivered ⇔ …** for an event in the middle of a push/pull replay: after any
history, the prelude of `MergeRemoteState` and the part `pre` of the image already
replayed (all without the time 2^64−1). -/
theorem C05_delivered_iff_in_replay_partial (N : Nat) (hN : 0 < N) (hN2 : N < 2 ^ 64) (c m : W)
    (ins : List (In α)) (hnw : NoWrap ins) (e : W) (raise : Bool) (pre : List (W × α))
    (hpre : ∀ p ∈ pre, p.1 ≠ maxW) (lt : W) (x : α) :
    let b0 := (SerfModel.EventBuf.run (Buf.start N c m) ins).1
    let b1 := handleAll (raiseMin (witnessRemote b0 e) raise e) pre
    (handle b1.1 lt x).2 = .delivered ↔
      (¬ lt < b1.1.minTime ∧ ¬ lt.toNat + N < (witness b1.1.clock lt).toNat
       ∧ (lt, x) ∉ deliveries (Buf.start N c m) ins ++ b1.2) := by
  intro b0 b1
  have h := run_inv ins (Buf.start (α := α) N c m) [] (by simpa [Buf.start] using hN)
    (by simpa [Buf.start] using hN2) hnw (Inv.start N c m)
  have hlen0 : b0.slots.length = N := by
    show (SerfModel.EventBuf.run _ ins).1.slots.length = N
    rw [h.2]; simp [Buf.start]
  have hp := prelude_inv b0 _ e raise h.1
  have h1 := handleAll_inv pre _ _ (by omega) (by omega) hpre hp.1
  have hlen : b1.1.slots.length = N := by
    show (handleAll _ pre).1.slots.length = N
    omega
  have := C05_delivered_iff_inv b1.1 _ h1.1 (by omega) lt x
  rw [hlen] at this
  simpa [deliveries] using this

-- non-vacuity: the three theorems apply to a concrete history (their hypotheses are satisfiable)
example : (handle (SerfModel.EventBuf.run (α := Nat) (Buf.start 2 1#64 0#64) [.gossip 1#64 7, .gossip 3#64 8]).1 3#64 8).2
    ≠ .delivered := by decide
example : (3#64, 8) ∈ deliveries (α := Nat) (Buf.start 2 1#64 0#64) [.gossip 1#64 7, .gossip 3#64 8] := by decide

theorem run_append (a c : List (In α)) : ∀ (b : Buf α),
    SerfModel.EventBuf.run b (a ++ c) =
      ((SerfModel.EventBuf.run (SerfModel.EventBuf.run b a).1 c).1,
       (SerfModel.EventBuf.run b a).2 ++ (SerfModel.EventBuf.run (SerfModel.EventBuf.run b a).1 c).2) := by
  induction a with
  | nil => intro b; simp [SerfModel.EventBuf.run]
  | cons i rest ih => intro b; simp [SerfModel.EventBuf.run, ih, List.append_assoc]

/-- **A fresh event inside the window is delivered exactly once.**  Whatever the
history before (`pre`) and after (`post`) — gossip and push/pull mixed — without the
time 2^64−1: an event that arrives by gossip, was not delivered before, is not
below the cut-off and lies inside the window occurs exactly once in everything the
application ever receives.  (Its delivery at arrival needs no hypothesis on the
times: `C05_fresh_delivered`; "never again" is where `NoWrap` is needed, and
`C05_at_most_once_counterexample` shows it cannot be dropped.) -/
theorem C05_fresh_exactly_once_partial (N : Nat) (hN : 0 < N) (hN2 : N < 2 ^ 64) (c m : W)
    (pre post : List (In α)) (lt : W) (x : α)
    (hnw : NoWrap (pre ++ [.gossip lt x] ++ post))
    (hfirst : (lt, x) ∉ deliveries (Buf.start N c m) pre)
    (hmin : ¬ lt < (SerfModel.EventBuf.run (Buf.start N c m) pre).1.minTime)
    (hwin : ¬ lt.toNat + N < (witness (SerfModel.EventBuf.run (Buf.start N c m) pre).1.clock lt).toNat) :
    (deliveries (Buf.start N c m) (pre ++ [.gossip lt x] ++ post)).count (lt, x) = 1 := by
  have hnd := C05_at_most_once_partial N hN hN2 c m _ hnw
  rw [List.Nodup.count hnd]
  have hdel := C05_fresh_delivered N hN2 c m pre lt x hfirst hmin hwin
  have hmem : (lt, x) ∈ deliveries (Buf.start N c m) (pre ++ [.gossip lt x] ++ post) := by
    simp only [deliveries, List.append_assoc, run_append, List.mem_append]
    right; left
    simp [SerfModel.EventBuf.run, stepIn, handleAll, hdel]
  rw [if_pos hmem]

example : (deliveries (α := Nat) (Buf.start 2 1#64 0#64)
    ([.gossip 1#64 7] ++ [.gossip 3#64 8] ++ [.gossip 3#64 8, .pushPull 0#64 false [some (3#64, [8])]])).count (3#64, 8) = 1 := by
  decide

/-- **Source tie (regenerated on every run): the body of `handleUserEvent`.**
`Gen/BufHandler.lean` is the statement-by-statement translation of the function
body in serf/serf.go (witness → cut-off guard → `curTime := eventClock.Time()` →
too-old guard `curTime > LamportTime(len(buf)) && LTime < curTime-LamportTime(len(buf))`
→ `idx := LTime % LamportTime(len(buf))` → slot load → same-time test / `Equals`
loop / fresh record stored into the slot → append → delivery → `return true`).
It is, literally, the body the proofs are about. -/
theorem C05_gen_handler_body :
    SerfModel.Gen.BufHandler.handleUserEvent = SerfProofs.BufHandlerIR.ueBody := by decide

/-- **The translated body IS the model.** For every buffer, message time and item,
interpreting the regenerated body of `handleUserEvent` yields exactly
`EventBuf.handle`: the same buffer afterwards, and it returns `true` (re-broadcast)
and sends on the event channel exactly when the model's outcome is `delivered`.
An edit of a guard expression, of `curTime`, of the slot index, of the order of
the statements, of the duplicate test or a dropped update changes the generated
body and breaks this obligation (or makes the translator fail). -/
theorem C05_handler_body_is_model (ctx : SerfModel.BufHandlerIR.Ctx) (b : Buf α) (lt : W) (x : α) :
    (SerfModel.BufHandlerIR.run SerfModel.Gen.BufHandler.handleUserEvent ctx b lt x).1.buf = (handle b lt x).1
    ∧ (SerfModel.BufHandlerIR.run SerfModel.Gen.BufHandler.handleUserEvent ctx b lt x).2
        = decide ((handle b lt x).2 = .delivered)
    ∧ (SerfModel.BufHandlerIR.run SerfModel.Gen.BufHandler.handleUserEvent ctx b lt x).1.delivered
        = decide ((handle b lt x).2 = .delivered) := by
  rw [C05_gen_handler_body]
  exact SerfProofs.BufHandlerIR.ueBody_is_handle ctx b lt x

/-- **Source tie (regenerated on every run): the user-event part of
`MergeRemoteState`.**  The guard and argument of the remote-clock witness, the
join-ignore raise of the cut-off (outer guard `isJoin && eventJoinIgnore`, test
`pp.EventLTime > eventMinTime`, assignment, under `eventLock`), the replay loop (every
event of every non-nil slot through `handleUserEvent`, time from the slot, name and
payload from the event) and the order witness → raise → replay are the ones
`EventBuf.witnessRemote` / `raiseMin` / `flatten` / `stepIn` model. -/
theorem C05_gen_replay_shape : SerfModel.Gen.PushPullReplay.shape = modelledReplayShape := by decide

end SerfProofs.C05
