/-
C08 — Queries reach exactly the nodes their filters select.

Model: `SerfModel.QueryHandle` (`handleQuery`, `shouldProcessQuery`,
`serfQueries.stream`) on top of the de-dup buffer of `SerfModel.EventBuf`
(items = query ids).  Regular-expression matching is an oracle parameter `re`
(`none` = does not compile); every theorem holds for every oracle.

FULL STATEMENT of the at-most-once clause (not provable — same wrap of the query
clock at 2^64−1 as C05, see `C08_once_counterexample`):

    theorem C08_once (qs : List QueryMsg) :
        (runQ re cfg (Buf.start N c m) qs).2.1.Nodup

Hypotheses that stay, and why:
* `NoWrap` (at-most-once and the "only if" of the history-level iff theorems):
  necessary — `C08_once_counterexample`, replayed on a real node on every run.
* `0 < N < 2^64`: `QueryBuffer = 0` makes the real code divide by zero; `len` is an `int`.
* the regex engine and the msgpack decoder are parameters (`re`, the `Filter` type);
  every theorem is for every oracle, the differential uses Go's own engine and decoder.
Everything else (deliver / ack / re-broadcast iff, routing for every name, a fresh
query is first-in-window) carries no hypothesis.

Regenerated ties: `Gen/BufHandler` (the body of `handleQuery`, translated and proved
equal to the model), `Gen/BufLocks` (lock region), `Gen/InternalQueries` (stream and
switch shape), `Gen/FilterLoop` (listing of `shouldProcessQuery`), `Gen/Lamport`.
-/
import SerfProofs.Lemmas.EventBuf
import SerfProofs.Props.C05
import SerfModel.Model.QueryHandle
import SerfModel.Gen.BufLocks
import SerfModel.Gen.BufHandler
import SerfModel.Gen.InternalQueries
import SerfModel.Gen.FilterLoop
import SerfProofs.Lemmas.BufHandlerIR
namespace SerfProofs.C08
open SerfModel SerfModel.Atomic SerfModel.EventBuf SerfModel.QueryHandle SerfProofs.EventBuf

variable (re : Oracle) (cfg : NodeCfg)

/-- The loop of `shouldProcessQuery` computes "every filter passes". -/
theorem shouldProcess_eq_all (fs : List Filter) : shouldProcess re cfg fs = fs.all (passes re cfg) := by
  induction fs with
  | nil => rfl
  | cons f rest ih =>
    cases f with
    | empty => simp [shouldProcess, passes]
    | node names =>
      by_cases h : names.contains cfg.name = true
      · simp only [shouldProcess, h, ↓reduceIte, ih, List.all_cons, passes, Bool.true_and]
      · simp only [shouldProcess, h, List.all_cons, passes]; simp
    | tag t e =>
      simp only [shouldProcess, List.all_cons, passes]
      cases hre : re e (tagValue cfg t) with
      | none => simp
      | some m => cases m <;> simp [ih]
    | undecodable => simp [shouldProcess, passes]
    | unknownType => simp [shouldProcess, passes]

/-- "First seen, inside the window, not below the cut-off": the front half records
the query (this is `C05_delivered_iff` for the query buffer). -/
def firstInWindow (b : Buf Nat) (q : QueryMsg) : Prop := (handle b q.lt q.id).2 = .delivered

theorem firstInWindow_iff (b : Buf Nat) (q : QueryMsg) :
    firstInWindow b q ↔
      (¬ q.lt < b.minTime ∧ tooOld b.slots.length (witness b.clock q.lt) q.lt = false
        ∧ q.id ∉ seenAt b.slots (slotIdx b.slots.length q.lt) q.lt) := by
  unfold firstInWindow handle
  simp only
  by_cases h1 : q.lt < b.minTime
  · simp [h1]
  by_cases h2 : tooOld b.slots.length (witness b.clock q.lt) q.lt = true
  · simp [h1, h2]
  by_cases h3 : q.id ∈ seenAt b.slots (slotIdx b.slots.length q.lt) q.lt
  · simp [h1, h2, h3]
  · simp [h1, h2, h3]

/-- **Deliver ⇔ selected.**  A query seen for the first time inside the window is
handed to the event channel exactly when every filter passes: the node's name is
in every node list and every tag pattern compiles and matches the tag's value
(missing tag = empty string); an empty, undecodable or unknown-type filter
excludes the node. -/
theorem C08_deliver_iff (b : Buf Nat) (q : QueryMsg) (hfirst : firstInWindow b q) :
    (handleQuery re cfg b q).2.delivered = true ↔ ∀ f ∈ q.filters, passes re cfg f = true := by
  unfold firstInWindow at hfirst
  unfold handleQuery
  simp only [hfirst, ne_eq, not_true_eq_false, ↓reduceIte, shouldProcess_eq_all]
  by_cases h : q.filters.all (passes re cfg) = true
  · simp only [h, Bool.not_true, Bool.false_eq_true, ↓reduceIte, true_iff]
    simpa [List.all_eq_true] using h
  · simp only [h, Bool.not_false, ↓reduceIte, Bool.false_eq_true, false_iff]
    simpa [List.all_eq_true] using h

/-- A query that is a duplicate, too old or below the cut-off is never delivered,
acknowledged or re-broadcast. -/
theorem C08_not_first_nothing (b : Buf Nat) (q : QueryMsg) (h : ¬ firstInWindow b q) :
    (handleQuery re cfg b q).2.delivered = false ∧ (handleQuery re cfg b q).2.acked = false
      ∧ (handleQuery re cfg b q).2.rebroadcast = false := by
  unfold firstInWindow at h
  unfold handleQuery
  simp [h]

/-- **Ack ⇔ delivered ∧ asked to.** -/
theorem C08_ack_iff (b : Buf Nat) (q : QueryMsg) :
    (handleQuery re cfg b q).2.acked = true ↔ ((handleQuery re cfg b q).2.delivered = true ∧ q.ack = true) := by
  unfold handleQuery
  simp only
  by_cases h : (handle b q.lt q.id).2 = .delivered
  · by_cases h2 : shouldProcess re cfg q.filters = true <;> simp [h, h2]
  · simp [h]

/-- **Re-broadcast ⇔ first seen in the window ∧ re-broadcast not disabled** —
whatever the filters, the tags and the regex engine say. -/
theorem C08_rebroadcast_iff (b : Buf Nat) (q : QueryMsg) :
    (handleQuery re cfg b q).2.rebroadcast = true ↔ (firstInWindow b q ∧ q.noBroadcast = false) := by
  unfold handleQuery firstInWindow
  simp only
  by_cases h : (handle b q.lt q.id).2 = .delivered
  · by_cases h2 : shouldProcess re cfg q.filters = true <;> simp [h, h2]
  · simp [h]

-- non-vacuity: a fresh query with a node filter naming the node and a matching tag
-- filter is delivered, acknowledged and re-broadcast; one with a pattern that does not
-- compile and the no-broadcast flag is recorded but goes nowhere.
def exRe : Oracle := fun e v => if e = "^w" ∧ v = "web" then some true else none
def exCfg : NodeCfg := { name := "n1", tags := [("role", "web")] }
def exQ1 : QueryMsg := { lt := 5#64, id := 9, flags := 1, name := "x", filters := [.node ["n0", "n1"], .tag "role" "^w"] }
def exQ2 : QueryMsg := { lt := 5#64, id := 9, flags := 3, name := "x", filters := [.tag "role" "("] }
example : firstInWindow (Buf.init 4) exQ1 := by unfold firstInWindow; decide
example : (handleQuery exRe exCfg (Buf.init 4) exQ1).2 =
    { res := .delivered, delivered := true, acked := true, rebroadcast := true } := by decide
example : (handleQuery exRe exCfg (Buf.init 4) exQ2).2 =
    { res := .delivered, delivered := false, acked := false, rebroadcast := false } := by decide

/-- The query history as inputs of the de-dup buffer. -/
def asIns (qs : List QueryMsg) : List (In Nat) := qs.map fun q => .gossip q.lt q.id

theorem runQ_sublist (qs : List QueryMsg) : ∀ (b : Buf Nat),
    (runQ re cfg b qs).1 = (SerfModel.EventBuf.run b (asIns qs)).1
    ∧ (runQ re cfg b qs).2.1.Sublist (deliveries b (asIns qs))
    ∧ (runQ re cfg b qs).2.2.Sublist (deliveries b (asIns qs)) := by
  induction qs with
  | nil => intro b; simp [runQ, asIns, SerfModel.EventBuf.run, deliveries]
  | cons q rest ih =>
    intro b
    have hstep : stepIn b (.gossip q.lt q.id) =
        ((handle b q.lt q.id).1, if (handle b q.lt q.id).2 = .delivered then [(q.lt, q.id)] else []) := by
      simp [stepIn, handleAll]
    have hb : (handleQuery re cfg b q).1 = (handle b q.lt q.id).1 := by
      unfold handleQuery; simp only; split <;> (try split) <;> rfl
    obtain ⟨i1, i2, i3⟩ := ih (handle b q.lt q.id).1
    simp only [runQ, asIns, List.map_cons, SerfModel.EventBuf.run, deliveries, hstep, hb]
    simp only [asIns, deliveries] at i1 i2 i3
    refine ⟨i1, ?_, ?_⟩
    · by_cases hd : (handleQuery re cfg b q).2.delivered = true
      · have hf : (handle b q.lt q.id).2 = .delivered := by
          by_cases hf : firstInWindow b q
          · exact hf
          · have := (C08_not_first_nothing re cfg b q hf).1; rw [this] at hd; cases hd
        simp only [hd, ↓reduceIte, hf, List.cons_append, List.nil_append]
        exact List.Sublist.cons_cons _ i2
      · simp only [hd, Bool.false_eq_true, ↓reduceIte]
        exact List.Sublist.trans i2 (List.sublist_append_right _ _)
    · by_cases hd : (handleQuery re cfg b q).2.rebroadcast = true
      · have hf : (handle b q.lt q.id).2 = .delivered := ((C08_rebroadcast_iff re cfg b q).1 hd).1
        simp only [hd, ↓reduceIte, hf, List.cons_append, List.nil_append]
        exact List.Sublist.cons_cons _ i3
      · simp only [hd, Bool.false_eq_true, ↓reduceIte]
        exact List.Sublist.trans i3 (List.sublist_append_right _ _)

/-- **At most once.**  For every buffer size, start state, node, oracle and every
history of query messages without the time 2^64−1, no query (time, id) is delivered
twice and none is re-broadcast twice. -/
theorem C08_once_partial (N : Nat) (hN : 0 < N) (hN2 : N < 2 ^ 64) (c m : W) (qs : List QueryMsg)
    (hnw : NoWrap (asIns qs)) :
    (runQ re cfg (Buf.start N c m) qs).2.1.Nodup ∧ (runQ re cfg (Buf.start N c m) qs).2.2.Nodup := by
  have h := run_inv (asIns qs) (Buf.start (α := Nat) N c m) [] (by simpa [Buf.start] using hN)
    (by simpa [Buf.start] using hN2) hnw (Inv.start N c m)
  have hnd : (deliveries (Buf.start (α := Nat) N c m) (asIns qs)).Nodup := by
    simpa [deliveries] using h.1.nodup
  obtain ⟨_, s1, s2⟩ := runQ_sublist re cfg qs (Buf.start N c m)
  exact ⟨List.Nodup.sublist s1 hnd, List.Nodup.sublist s2 hnd⟩

-- non-vacuity of `NoWrap (asIns qs)`
example : NoWrap (asIns [{ lt := 5#64, id := 9, flags := 1, name := "x", filters := [] },
                         { lt := 5#64, id := 9, flags := 1, name := "x", filters := [] }]) := by
  intro i hi t ht
  simp only [asIns, List.map_cons, List.map_nil, List.mem_cons, List.not_mem_nil, or_false] at hi
  rcases hi with rfl | rfl <;> simp [In.times] at ht <;> subst ht <;> decide

/-- **Negation witness** (query buffer of 2, three messages, no filters): the same
wrap as C05 — query (1, id 7) is delivered, (2^64−1, id 8) wraps the query clock to 0
and evicts it, the duplicate of (1, id 7) is delivered again. -/
theorem C08_once_counterexample :
    ¬ (runQ (fun _ _ => none) { name := "n", tags := [] } (Buf.init 2)
        [{ lt := 1#64, id := 7, flags := 0, name := "q", filters := [] },
         { lt := BitVec.allOnes 64, id := 8, flags := 0, name := "q", filters := [] },
         { lt := 1#64, id := 7, flags := 0, name := "q", filters := [] }]).2.1.Nodup := by decide

/-- **Internal queries never reach the application**: nothing `serfQueries.stream`
forwards is a query whose name has the internal prefix, and everything else is
forwarded unchanged and in order. -/
theorem C08_internal_hidden (evs : List AppEv) :
    (∀ e ∈ forwardedToApp evs, e.isInternalQuery = false)
    ∧ (∀ e ∈ evs, e.isInternalQuery = false → e ∈ forwardedToApp evs)
    ∧ (forwardedToApp evs).Sublist evs := by
  refine ⟨?_, ?_, List.filter_sublist⟩
  · intro e he; simpa [forwardedToApp] using (List.mem_filter.1 he).2
  · intro e he hi; exact List.mem_filter.2 ⟨he, by simp [hi]⟩


/-- Source-tied obligation: `handleQuery` runs its whole check-and-record section under the exclusive
`queryLock`, which makes the sequential model's step one atomic action under concurrent deliveries. -/
theorem C08_handler_holds_lock : SerfModel.Gen.BufLocks.handleQuery.wholeBodyExclusive = true := by decide

/-- **Deliver ⇔ first seen in the window ∧ selected** — no hypothesis. -/
theorem C08_delivered_iff (b : Buf Nat) (q : QueryMsg) :
    (handleQuery re cfg b q).2.delivered = true ↔
      (firstInWindow b q ∧ ∀ f ∈ q.filters, passes re cfg f = true) := by
  by_cases hf : firstInWindow b q
  · rw [C08_deliver_iff re cfg b q hf]; simp [hf]
  · have := (C08_not_first_nothing re cfg b q hf).1
    simp [this, hf]

theorem runQ_buf (qs : List QueryMsg) (b : Buf Nat) :
    (runQ re cfg b qs).1 = (SerfModel.EventBuf.run b (asIns qs)).1 := (runQ_sublist re cfg qs b).1

/-- **After any history of queries (no time 2^64−1): delivered ⇔ the query is not
below the cut-off, inside the window, its (time, id) was not recorded before, and
every filter selects the node.**  "Recorded before" is `deliveries … (asIns qs)`:
the (time, id) pairs the node accepted as first-seen, whatever their filters said. -/
theorem C08_delivered_iff_history_partial (N : Nat) (hN : 0 < N) (hN2 : N < 2 ^ 64) (c m : W)
    (qs : List QueryMsg) (hnw : NoWrap (asIns qs)) (q : QueryMsg) :
    (handleQuery re cfg (runQ re cfg (Buf.start N c m) qs).1 q).2.delivered = true ↔
      (¬ q.lt < (runQ re cfg (Buf.start N c m) qs).1.minTime
       ∧ ¬ q.lt.toNat + N < (witness (runQ re cfg (Buf.start N c m) qs).1.clock q.lt).toNat
       ∧ (q.lt, q.id) ∉ deliveries (Buf.start N c m) (asIns qs)
       ∧ ∀ f ∈ q.filters, passes re cfg f = true) := by
  rw [C08_delivered_iff, runQ_buf]
  unfold firstInWindow
  rw [SerfProofs.C05.C05_delivered_iff_history_partial N hN hN2 c m (asIns qs) hnw q.lt q.id]
  simp only [and_assoc]

/-- **After any history: re-broadcast ⇔ not below the cut-off ∧ inside the window ∧
not recorded before ∧ re-broadcast not disabled** — the filters do not occur. -/
theorem C08_rebroadcast_iff_history_partial (N : Nat) (hN : 0 < N) (hN2 : N < 2 ^ 64) (c m : W)
    (qs : List QueryMsg) (hnw : NoWrap (asIns qs)) (q : QueryMsg) :
    (handleQuery re cfg (runQ re cfg (Buf.start N c m) qs).1 q).2.rebroadcast = true ↔
      (¬ q.lt < (runQ re cfg (Buf.start N c m) qs).1.minTime
       ∧ ¬ q.lt.toNat + N < (witness (runQ re cfg (Buf.start N c m) qs).1.clock q.lt).toNat
       ∧ (q.lt, q.id) ∉ deliveries (Buf.start N c m) (asIns qs)
       ∧ q.noBroadcast = false) := by
  rw [C08_rebroadcast_iff, runQ_buf]
  unfold firstInWindow
  rw [SerfProofs.C05.C05_delivered_iff_history_partial N hN hN2 c m (asIns qs) hnw q.lt q.id]
  simp only [and_assoc]

/-- A first-time query inside the window is recorded, whatever the history (all
64-bit times): if its (time, id) was not recorded before it is first-in-window —
so it is delivered iff selected and re-broadcast iff not disabled. -/
theorem C08_fresh_first (N : Nat) (hN2 : N < 2 ^ 64) (c m : W) (qs : List QueryMsg) (q : QueryMsg)
    (hfirst : (q.lt, q.id) ∉ deliveries (Buf.start N c m) (asIns qs))
    (hmin : ¬ q.lt < (runQ re cfg (Buf.start N c m) qs).1.minTime)
    (hwin : ¬ q.lt.toNat + N < (witness (runQ re cfg (Buf.start N c m) qs).1.clock q.lt).toNat) :
    firstInWindow (runQ re cfg (Buf.start N c m) qs).1 q := by
  unfold firstInWindow
  rw [runQ_buf] at hmin hwin ⊢
  exact SerfProofs.C05.C05_fresh_delivered N hN2 c m (asIns qs) q.lt q.id hfirst hmin hwin

-- non-vacuity: after the query (5, id 9) a second, different query at the same time is
-- first-in-window; the repeat is not.
example : firstInWindow (runQ exRe exCfg (Buf.start 4 1#64 0#64) [exQ1]).1 { exQ1 with id := 10 } := by
  unfold firstInWindow; decide
example : ¬ firstInWindow (runQ exRe exCfg (Buf.start 4 1#64 0#64) [exQ1]).1 exQ1 := by
  unfold firstInWindow; decide

/-- **Source tie (regenerated on every run): the body of `handleQuery`.** The
translation of the function body in serf/serf.go: the same front half as
`handleUserEvent` with `slices.Contains(seen.QueryIDs, query.ID)` as duplicate
test, then `rebroadcast := !query.NoBroadcast()`, the filter test returning
`rebroadcast`, the ack under `query.Ack()`, the delivery, `return rebroadcast` —
in this order. -/
theorem C08_gen_handler_body :
    SerfModel.Gen.BufHandler.handleQuery = SerfProofs.BufHandlerIR.queryBody := by decide

/-- **The translated body IS the model**: interpreting the regenerated body of
`handleQuery` (with the filter verdict and the two flags of the message as
context) yields exactly `QueryHandle.handleQuery` — buffer, return value
(re-broadcast), delivery and ack.  Moving the ack in front of the filter test,
returning `false` for unselected queries, dropping the `!` of the no-broadcast
flag or editing a guard changes the generated body and breaks this obligation. -/
theorem C08_handler_body_is_model (b : Buf Nat) (q : QueryMsg) :
    let ctx : SerfModel.BufHandlerIR.Ctx :=
      { selected := shouldProcess re cfg q.filters, ackFlag := q.ack, noBroadcast := q.noBroadcast }
    let r := SerfModel.BufHandlerIR.run SerfModel.Gen.BufHandler.handleQuery ctx b q.lt q.id
    let m := handleQuery re cfg b q
    r.1.buf = m.1 ∧ r.2 = m.2.rebroadcast ∧ r.1.delivered = m.2.delivered ∧ r.1.acked = m.2.acked := by
  rw [C08_gen_handler_body]
  exact SerfProofs.BufHandlerIR.queryBody_is_handleQuery re cfg b q

/-! ### Internal-query routing, over every name, on the regenerated shape of
`serfQueries.stream` and of the switch of `serfQueries.handleQuery`. -/
section routing
open SerfModel.Gen

/-- **Source tie (regenerated on every run).** The `inCh` arm of `stream` tests
`e.(*Query)` and `strings.HasPrefix(q.Name, InternalQueryPrefix)`, its internal branch
is exactly `go s.handleQuery(q)` (nothing is sent on `outCh`), its other branch forwards;
`handleQuery` switches on the name without the prefix and its default branch only logs;
the prefix constant is the model's `internalPrefix`. -/
theorem C08_gen_routing_shape :
    shapesUnderstood InternalQueries.stream InternalQueries.switch = true
    ∧ InternalQueries.stream.prefixConst = internalPrefix := by decide

/-- The model's routing table: the six internal queries and the handler each one
reaches (`""` = the empty `ping` arm). -/
def routingTable : List (String × String) :=
  [("ping", ""), ("conflict", "handleConflict"), ("install-key", "handleInstallKey"),
   ("use-key", "handleUseKey"), ("remove-key", "handleRemoveKey"), ("list-keys", "handleListKeys")]

/-- **The regenerated dispatch table is the model's, as a TABLE**: the extractor reads
the (constant → handler) pairs out of a `switch`, a tagless `switch` or an
if / else-if chain, with cases in any order and case lists merged or split, and
emits them sorted with every key once; here: same keys, and every name looks up
the same handler in both. -/
theorem C08_gen_routing_cases :
    (∀ p ∈ InternalQueries.switch.cases, p ∈ routingTable)
    ∧ (∀ p ∈ routingTable, p ∈ InternalQueries.switch.cases)
    ∧ (InternalQueries.switch.cases.map (·.1)).Nodup := by decide

/-- Looking a name up in the regenerated table is looking it up in the model's table. -/
theorem C08_gen_routing_lookup (name : String) :
    alookup InternalQueries.switch.cases name = alookup routingTable name := by
  have h : ∀ n ∈ (InternalQueries.switch.cases ++ routingTable).map (·.1),
      alookup InternalQueries.switch.cases n = alookup routingTable n := by decide
  by_cases hm : name ∈ (InternalQueries.switch.cases ++ routingTable).map (·.1)
  · exact h name hm
  · have h1 : ∀ (l : List (String × String)), name ∉ l.map (·.1) → alookup l name = none := by
      intro l hl
      unfold alookup
      cases hf : l.find? (fun p => p.1 == name) with
      | none => rfl
      | some p =>
        exfalso; apply hl
        have hp := List.find?_some hf
        have : p.1 = name := by simpa using hp
        exact List.mem_map.2 ⟨p, List.mem_of_find?_eq_some hf, this⟩
    rw [List.map_append, List.mem_append] at hm
    rw [h1 _ (fun x => hm (Or.inl x)), h1 _ (fun x => hm (Or.inr x))]

/-- **Every name: forwarded to the application ⇔ not (a query whose name has the
internal prefix).**  In particular an UNKNOWN name with the prefix is never
forwarded, and no name without the prefix is ever swallowed. -/
theorem C08_route_app_iff (isQuery : Bool) (name : String) :
    route InternalQueries.stream InternalQueries.switch isQuery name = .app
      ↔ ¬ (isQuery = true ∧ hasPrefix internalPrefix name = true) := by
  have hs := C08_gen_routing_shape
  unfold route
  rw [hs.1, hs.2]
  by_cases h : (isQuery && hasPrefix internalPrefix name) = true
  · simp only [Bool.not_true, Bool.false_eq_true, ↓reduceIte, h]
    have h' : isQuery = true ∧ hasPrefix internalPrefix name = true := by simpa using h
    constructor
    · intro hr; split at hr <;> cases hr
    · intro hn; exact absurd h' hn
  · simp only [Bool.not_true, Bool.false_eq_true, ↓reduceIte, h, true_iff]
    intro h'
    exact h (by simp [h'.1, h'.2])

/-- **A query with the internal prefix is consumed**: it reaches one of the six
handlers when the rest of its name is one of the six constants, and is dropped
(logged as unhandled) otherwise — for every name. -/
theorem C08_internal_consumed (name : String) (h : hasPrefix internalPrefix name = true) :
    (∃ hd, route InternalQueries.stream InternalQueries.switch true name = .handler hd
        ∧ (String.ofList (name.toList.drop internalPrefix.length), hd) ∈ InternalQueries.switch.cases)
    ∨ (route InternalQueries.stream InternalQueries.switch true name = .dropped
        ∧ ∀ p ∈ InternalQueries.switch.cases, p.1 ≠ String.ofList (name.toList.drop internalPrefix.length)) := by
  have hs := C08_gen_routing_shape
  unfold route
  rw [hs.1, hs.2]
  simp only [Bool.not_true, Bool.false_eq_true, ↓reduceIte, h, Bool.true_and]
  cases hl : alookup InternalQueries.switch.cases (String.ofList (name.toList.drop internalPrefix.length)) with
  | some hd =>
    left
    refine ⟨hd, rfl, ?_⟩
    unfold alookup at hl
    cases hf : List.find? (fun p => p.1 == String.ofList (name.toList.drop internalPrefix.length)) InternalQueries.switch.cases with
    | none => simp [hf] at hl
    | some p =>
      simp only [hf, Option.map_some, Option.some.injEq] at hl
      have hm := List.mem_of_find?_eq_some hf
      have hp := List.find?_some hf
      have : p.1 = String.ofList (name.toList.drop internalPrefix.length) := by simpa using hp
      rw [← this, ← hl]
      exact hm
  | none =>
    right
    refine ⟨rfl, ?_⟩
    intro p hp heq
    unfold alookup at hl
    have : List.find? (fun p => p.1 == String.ofList (name.toList.drop internalPrefix.length)) InternalQueries.switch.cases = none := by
      cases hf : List.find? (fun p => p.1 == String.ofList (name.toList.drop internalPrefix.length)) InternalQueries.switch.cases with
      | none => rfl
      | some q => simp [hf] at hl
    have := List.find?_eq_none.1 this p hp
    simp [heq] at this

-- non-vacuity / examples: a known internal query, an unknown one, the bare prefix, near misses
example : route InternalQueries.stream InternalQueries.switch true "_serf_conflict" = .handler "handleConflict" := by decide
example : route InternalQueries.stream InternalQueries.switch true "_serf_ping" = .handler "" := by decide
example : route InternalQueries.stream InternalQueries.switch true "_serf_zz" = .dropped := by decide
example : route InternalQueries.stream InternalQueries.switch true "_serf_" = .dropped := by decide
example : route InternalQueries.stream InternalQueries.switch true "_serf" = .app := by decide
example : route InternalQueries.stream InternalQueries.switch true "x_serf_ping" = .app := by decide
example : route InternalQueries.stream InternalQueries.switch false "_serf_ping" = .app := by decide

/-- What the application sees of the node's event channel is exactly what the
regenerated routing forwards (`forwardedToApp` is `route … = .app`, event by event). -/
theorem C08_forwarded_is_route (evs : List AppEv) :
    forwardedToApp evs = evs.filter (fun e => match e with
      | .query _ name => route InternalQueries.stream InternalQueries.switch true name == .app
      | .other _ => route InternalQueries.stream InternalQueries.switch false "" == .app) := by
  unfold forwardedToApp
  apply List.filter_congr
  intro e _
  cases e with
  | query lt name =>
    by_cases h : hasPrefix internalPrefix name = true
    · have : route InternalQueries.stream InternalQueries.switch true name ≠ .app := by
        rw [Ne, C08_route_app_iff]; simp [h]
      simp [AppEv.isInternalQuery, h, this]
    · have : route InternalQueries.stream InternalQueries.switch true name = .app := by
        rw [C08_route_app_iff]; simp [h]
      simp [AppEv.isInternalQuery, h, this]
  | other t =>
    have : route InternalQueries.stream InternalQueries.switch false "" = .app := by
      rw [C08_route_app_iff]; simp
    simp [AppEv.isInternalQuery, this]

/-- The query reaches the APPLICATION: `handleQuery` sends it on the node's event
channel and `serfQueries.stream` (regenerated shape) forwards it. -/
def appReceives (b : Buf Nat) (q : QueryMsg) : Bool :=
  (handleQuery re cfg b q).2.delivered
    && (route InternalQueries.stream InternalQueries.switch true q.name == .app)

/-- **The application receives a query ⇔ it is first seen in the window, every filter
selects the node, and its name does not carry the internal prefix** — for every
name, known internal query or not. -/
theorem C08_app_receives_iff (b : Buf Nat) (q : QueryMsg) :
    appReceives re cfg b q = true ↔
      (firstInWindow b q ∧ (∀ f ∈ q.filters, passes re cfg f = true) ∧ hasPrefix internalPrefix q.name = false) := by
  unfold appReceives
  rw [Bool.and_eq_true, C08_delivered_iff, beq_iff_eq, C08_route_app_iff]
  simp [and_assoc]

example : appReceives exRe exCfg (Buf.init 4) exQ1 = true := by decide
example : appReceives exRe exCfg (Buf.init 4) { exQ1 with name := "_serf_anything" } = false := by decide

end routing

/-- **Source tie (regenerated on every run): `shouldProcessQuery`.**  The canonical
listing of the function (log lines stripped): an empty entry returns false; the
switch is on the first byte; a node filter decodes `filter[1:]` and requires
`slices.Contains(nodes, s.config.NodeName)`; a tag filter decodes `filter[1:]`, reads
`tags[filt.Tag]` with the ONE-value map form (missing tag = empty string), returns
false when the pattern does not compile or does not match; any other type returns
false; after the loop `return true`.  This is the loop `QueryHandle.shouldProcess`
models (`shouldProcess_eq_all`: = every filter `passes`). -/
theorem C08_gen_filter_loop :
    -- names are canonical (the extractor renames receiver → recv, locals → l0, l1, … in order
    -- of declaration): l0 = the filter entry, l1 = the node list, l3 = found, l4 = the tag
    -- filter, l6 = the node's tags, l7 = matched, l2/l5/l8 = errors
    SerfModel.Gen.FilterLoop.loopVar = "l0"
    ∧ SerfModel.Gen.FilterLoop.beforeSwitch = ["if len(l0) == 0 { return false }"]
    ∧ SerfModel.Gen.FilterLoop.switchTag = "filterType(l0[0])"
    ∧ SerfModel.Gen.FilterLoop.cases =
      [("filterNodeType", ["var l1 filterNode",
          "if l2 := decodeMessage(l0[1:], &l1); l2 != nil { return false }",
          "l3 := slices.Contains(l1, recv.config.NodeName)",
          "if !l3 { return false }"]),
       ("filterTagType", ["var l4 filterTag",
          "if l5 := decodeMessage(l0[1:], &l4); l5 != nil { return false }",
          "l6 := recv.config.Tags",
          "l7, l8 := regexp.MatchString(l4.Expr, l6[l4.Tag])",
          "if l8 != nil { return false }",
          "if !l7 { return false }"])]
    ∧ SerfModel.Gen.FilterLoop.defaultCase = ["return false"]
    ∧ SerfModel.Gen.FilterLoop.afterLoop = "return true" := by decide

/-! ### Tag changes on a running node: every filter is judged against the tags in effect
when the query arrives. -/

theorem runQT_cfg (h : List QIn) : ∀ (cfg : NodeCfg) (b : Buf Nat),
    (runQT re cfg b h).1 = { cfg with tags := tagsAfter cfg.tags h } := by
  induction h with
  | nil => intro cfg b; rfl
  | cons i rest ih =>
    intro cfg b
    cases i with
    | query q => simp only [runQT, tagsAfter]; exact ih cfg _
    | setTags t => simp only [runQT, tagsAfter]; rw [ih]

theorem runQT_append (h1 h2 : List QIn) : ∀ (cfg : NodeCfg) (b : Buf Nat),
    runQT re cfg b (h1 ++ h2) =
      ((runQT re (runQT re cfg b h1).1 (runQT re cfg b h1).2.1 h2).1,
       (runQT re (runQT re cfg b h1).1 (runQT re cfg b h1).2.1 h2).2.1,
       (runQT re cfg b h1).2.2 ++ (runQT re (runQT re cfg b h1).1 (runQT re cfg b h1).2.1 h2).2.2) := by
  induction h1 with
  | nil => intro cfg b; simp [runQT]
  | cons i rest ih =>
    intro cfg b
    cases i with
    | query q => simp [runQT, ih]
    | setTags t => simp [runQT, ih]

/-- **Delivered ⇔ first seen in the window ∧ selected under the tags IN EFFECT.**  After
any history of queries and `SetTags` calls on the same node, a query is delivered
exactly when it is first-in-window and every filter passes for the node's name and
the tags of the LAST `SetTags` (the initial ones if there was none) — whatever the
same filter bytes evaluated to earlier under other tags. -/
theorem C08_delivered_iff_tags_in_effect (cfg : NodeCfg) (b : Buf Nat) (h : List QIn) (q : QueryMsg) :
    let st := runQT re cfg b h
    (runQT re cfg b (h ++ [.query q])).2.2 = st.2.2 ++ [(handleQuery re { cfg with tags := tagsAfter cfg.tags h } st.2.1 q).2]
    ∧ ((handleQuery re { cfg with tags := tagsAfter cfg.tags h } st.2.1 q).2.delivered = true ↔
        (firstInWindow st.2.1 q ∧ ∀ f ∈ q.filters, passes re { cfg with tags := tagsAfter cfg.tags h } f = true)) := by
  intro st
  refine ⟨?_, C08_delivered_iff re _ _ q⟩
  rw [runQT_append]
  simp only [runQT, runQT_cfg]
  rfl

-- non-vacuity / the seeded shape: the same tag filter `role ~ ^w` is sent before and after
-- `SetTags role=db`; the first query is delivered, the second is not.
example : ((runQT exRe exCfg (Buf.init 4)
    [.query exQ1, .setTags [("role", "db")], .query { exQ1 with lt := 6#64 }]).2.2.map (·.delivered)) = [true, false] := by
  decide

/-- A node that REMEMBERS tag-filter verdicts by filter (the broken shape: a memo table keyed
by the encoded filter, never invalidated). -/
def evalMemo (cfg : NodeCfg) (memo : List (Filter × Bool)) (f : Filter) : Bool × List (Filter × Bool) :=
  match f with
  | .tag _ _ =>
    match alookup memo f with
    | some v => (v, memo)
    | none => (passes re cfg f, memo ++ [(f, passes re cfg f)])
  | _ => (passes re cfg f, memo)

/-- **Negation witness for the memoised shape**: evaluate `role ~ ^w` under `role=web`
(remembered: selected), change the tags to `role=db`, evaluate the same filter again —
the remembered verdict says "selected", the property (`passes` under the tags in effect)
says "not selected". -/
theorem C08_memo_counterexample :
    (evalMemo exRe { exCfg with tags := [("role", "db")] }
        (evalMemo exRe exCfg [] (.tag "role" "^w")).2 (.tag "role" "^w")).1
      ≠ passes exRe { exCfg with tags := [("role", "db")] } (.tag "role" "^w") := by decide

end SerfProofs.C08
