/-
C27 — Event handler scripts are invoked per the documented contract (pure parts).

Model: `SerfModel.EventScript` (ParseEventScript / ParseEventFilter / EventFilter.Invoke /
HandleEvent loop, tag-name sanitising, eventClean, member lines, payload newline rule, the
8 KiB circular output buffer, the response size gate).  All statements are for every
filter, event, name, tag map, payload and output.  Process creation, the shell, pipes and
exit codes are exercised by the harness, not modelled.
-/
import SerfProofs.Lemmas.EventScript
import SerfModel.Model.SourceShape
import SerfModel.Gen.EventScriptSrc
namespace SerfProofs.C27
open SerfModel.EventScript SerfProofs.EventScript

/-! ## a handler runs exactly when its filter matches

`Matches` is the documented meaning of a filter entry: `*` matches everything; otherwise
the event type must be the entry's, and a `user:NAME` / `query:NAME` entry also needs that
name.  `C27_runs_iff_matches`: `EventFilter.Invoke` returns true exactly then. -/

def Matches (f : Filter) (e : Event) : Prop :=
  f.event = starB ∨
  (f.event = e.kind.str ∧
    (f.name = [] ∨ (f.event ≠ userB ∧ f.event ≠ queryB) ∨ e.name? = some f.name))

theorem kind_str_user (k : Kind) (h : k.str = userB) : k = .user := by
  cases k <;> first | rfl | (exact absurd h (by decide))
theorem kind_str_query (k : Kind) (h : k.str = queryB) : k = .query := by
  cases k <;> first | rfl | (exact absurd h (by decide))
theorem uq : userB ≠ queryB := by decide

/-- **`EventFilter.Invoke` is true exactly when the filter entry matches the event.** -/
theorem C27_runs_iff_matches (f : Filter) (e : Event) : invoke f e = true ↔ Matches f e := by
  obtain ⟨fe, fn⟩ := f
  unfold invoke Matches
  simp only
  by_cases hs : fe = starB
  · simp [hs]
  by_cases hk : e.kind.str = fe
  · subst hk
    by_cases hn : fn = []
    · simp [hs, hn]
    · by_cases hu : e.kind.str = userB
      · have hq : e.kind.str ≠ queryB := fun h => uq (hu.symm.trans h)
        cases e with
        | member k ms => simp [hs, hn, hu, hq, Event.name?]
        | user n lt p => simp [hs, hn, hu, hq, Event.name?, uq]
        | query n lt p => simp [Event.kind, Kind.str] at hu; exact absurd hu (by decide)
      · by_cases hq : e.kind.str = queryB
        · cases e with
          | member k ms => simp [hs, hn, hu, hq, Event.name?]
          | user n lt p => simp [Event.kind, Kind.str] at hq; exact absurd hq (by decide)
          | query n lt p => simp [hs, hn, hu, hq, Event.name?, Ne.symm uq]
        · simp [hs, hn, hu, hq]
  · simp [hs, hk]
    intro h; exact absurd h.symm hk

example : Matches ⟨userB, [100]⟩ (.user [100] 3 []) := by
  right; exact ⟨rfl, Or.inr (Or.inr rfl)⟩

/-- **HandleEvent runs a script once per matching entry, in order**: a script is run for an
event iff one of its entries matches, and as often as entries match. -/
theorem C27_handle_runs (scripts : List (Filter × Bytes)) (e : Event) (s : Bytes) :
    s ∈ runsOf scripts e ↔ ∃ f, (f, s) ∈ scripts ∧ Matches f e := by
  unfold runsOf
  simp only [List.mem_map, List.mem_filter]
  constructor
  · rintro ⟨⟨f, s'⟩, ⟨hm, hi⟩, rfl⟩
    exact ⟨f, hm, (C27_runs_iff_matches f e).mp hi⟩
  · rintro ⟨f, hm, hM⟩
    exact ⟨(f, s), ⟨hm, (C27_runs_iff_matches f e).mpr hM⟩, rfl⟩

/-
FULL statement including process start (not provable: os/exec refuses an environment entry
with a NUL byte, e.g. a user event or query whose NAME contains NUL, and then no handler runs):

  theorem C27_started (scripts) (env) (e) (s) : s ∈ startedOf scripts env e ↔ ∃ f, (f, s) ∈ scripts ∧ Matches f e
-/

/-- PARTIAL: when no environment entry contains a NUL byte, exactly the matching scripts start. -/
theorem C27_started_partial (scripts : List (Filter × Bytes)) (env : List (Bytes × Bytes)) (e : Event) (s : Bytes)
    (h : hasNul env = false) : s ∈ startedOf scripts env e ↔ ∃ f, (f, s) ∈ scripts ∧ Matches f e := by
  unfold startedOf
  simp only [h, Bool.false_eq_true, ↓reduceIte]
  exact C27_handle_runs scripts e s

example : hasNul [([83], [97, 98])] = false := by decide

/-- COUNTEREXAMPLE: a user event named `a\0b`, a handler for every event: the filter matches,
`SERF_USER_EVENT=a\0b` contains a NUL byte, nothing is started (recorded finding `nul-in-env`). -/
theorem C27_started_counterexample :
    invoke ⟨starB, []⟩ (.user [97, 0, 98] 7 []) = true ∧
    startedOf [(⟨starB, []⟩, [115])] [([85], [97, 0, 98])] (.user [97, 0, 98] 7 []) = [] := by decide

theorem C27_handle_run_count (scripts : List (Filter × Bytes)) (e : Event) :
    (runsOf scripts e).length = (scripts.filter (fun p => invoke p.1 e)).length := by
  simp [runsOf]

/-! ## parsing the handler specification -/

/-- no filter = every event -/
theorem C27_parse_empty : parseEventFilter [] = [⟨starB, []⟩] := by decide

/-- one filter entry per comma-separated item -/
theorem C27_parse_entries (v : Bytes) (h : v ≠ []) :
    parseEventFilter v = (splitOn COMMA v).map parseEntry := by
  unfold parseEventFilter
  cases v with
  | nil => exact absurd rfl h
  | cons _ _ => rfl

theorem isPrefixOf_append (p s : Bytes) : p.isPrefixOf (p ++ s) = true := by
  induction p with
  | nil => simp
  | cons c rest ih => simp [List.isPrefixOf, ih]

/-- `user:NAME` selects user events named NAME -/
theorem C27_parse_user (n : Bytes) : parseEntry (userPfx ++ n) = ⟨userB, n⟩ := by
  unfold parseEntry hasPrefix
  rw [isPrefixOf_append]
  simp [userPfx]

/-- `query:NAME` selects queries named NAME -/
theorem C27_parse_query (n : Bytes) : parseEntry (queryPfx ++ n) = ⟨queryB, n⟩ := by
  unfold parseEntry hasPrefix
  have h1 : userPfx.isPrefixOf (queryPfx ++ n) = false := by simp [userPfx, queryPfx, List.isPrefixOf]
  rw [h1, isPrefixOf_append]
  simp [queryPfx]

theorem splitOn_of_not_mem (sep : UInt8) (l : Bytes) (h : sep ∉ l) : splitOn sep l = [l] := by
  induction l with
  | nil => rfl
  | cons c rest ih =>
    simp only [List.mem_cons, not_or] at h
    have hc : (c == sep) = false := by
      have : c ≠ sep := fun e => h.1 e.symm
      simpa using this
    simp [splitOn, hc, ih h.2]

/-- **A filter `user:NAME` parses to exactly the name NAME, for every NAME without a comma** —
colons, `=`, spaces and anything else after the first colon belong to the name. -/
theorem C27_parse_user_filter (n : Bytes) (h : COMMA ∉ n) : parseEventFilter (userPfx ++ n) = [⟨userB, n⟩] := by
  have hc : COMMA ∉ userPfx ++ n := by
    intro hm
    rcases List.mem_append.mp hm with hm | hm
    · exact absurd hm (by decide)
    · exact h hm
  unfold parseEventFilter
  have hne : (userPfx ++ n).isEmpty = false := by simp [userPfx]
  simp only [hne, Bool.false_eq_true, ↓reduceIte, splitOn_of_not_mem COMMA _ hc, List.map_cons, List.map_nil,
    C27_parse_user]

/-- the same for `query:NAME` -/
theorem C27_parse_query_filter (n : Bytes) (h : COMMA ∉ n) : parseEventFilter (queryPfx ++ n) = [⟨queryB, n⟩] := by
  have hc : COMMA ∉ queryPfx ++ n := by
    intro hm
    rcases List.mem_append.mp hm with hm | hm
    · exact absurd hm (by decide)
    · exact h hm
  unfold parseEventFilter
  have hne : (queryPfx ++ n).isEmpty = false := by simp [queryPfx]
  simp only [hne, Bool.false_eq_true, ↓reduceIte, splitOn_of_not_mem COMMA _ hc, List.map_cons, List.map_nil,
    C27_parse_query]

/-- **Filter-matching exactness for a named filter**: a handler configured with `user:NAME`
(NAME non-empty, without a comma) runs for an event exactly when it is a user event whose
name is NAME — not a prefix of it, not NAME cut at a colon. -/
theorem C27_user_filter_exact (n : Bytes) (hn : n ≠ []) (hc : COMMA ∉ n) (e : Event) :
    (parseEventFilter (userPfx ++ n)).any (fun f => invoke f e) = true ↔ ∃ lt p, e = .user n lt p := by
  rw [C27_parse_user_filter n hc]
  simp only [List.any_cons, List.any_nil, Bool.or_false, C27_runs_iff_matches, Matches]
  have hs : userB ≠ starB := by decide
  constructor
  · rintro (h | ⟨hk, h⟩)
    · exact absurd h hs
    · have hkind := kind_str_user e.kind hk.symm
      rcases h with h | h | h
      · exact absurd h hn
      · exact absurd rfl h.1
      · cases e with
        | member k ms => simp [Event.name?] at h
        | user n' lt p => simp only [Event.name?, Option.some.injEq] at h; subst h; exact ⟨lt, p, rfl⟩
        | query n' lt p => simp [Event.kind] at hkind
  · rintro ⟨lt, p, rfl⟩
    exact Or.inr ⟨rfl, Or.inr (Or.inr rfl)⟩

/-- … and for `query:NAME`. -/
theorem C27_query_filter_exact (n : Bytes) (hn : n ≠ []) (hc : COMMA ∉ n) (e : Event) :
    (parseEventFilter (queryPfx ++ n)).any (fun f => invoke f e) = true ↔ ∃ lt p, e = .query n lt p := by
  rw [C27_parse_query_filter n hc]
  simp only [List.any_cons, List.any_nil, Bool.or_false, C27_runs_iff_matches, Matches]
  have hs : queryB ≠ starB := by decide
  constructor
  · rintro (h | ⟨hk, h⟩)
    · exact absurd h hs
    · have hkind := kind_str_query e.kind hk.symm
      rcases h with h | h | h
      · exact absurd h hn
      · exact absurd rfl h.2
      · cases e with
        | member k ms => simp [Event.name?] at h
        | user n' lt p => simp [Event.kind] at hkind
        | query n' lt p => simp only [Event.name?, Option.some.injEq] at h; subst h; exact ⟨lt, p, rfl⟩
  · rintro ⟨lt, p, rfl⟩
    exact Or.inr ⟨rfl, Or.inr (Or.inr rfl)⟩

example : COMMA ∉ ([100, 58, 112] : Bytes) ∧ ([100, 58, 112] : Bytes) ≠ [] := by decide

/-- `type=script`: everything before the first `=` is the filter, the rest the script -/
theorem C27_parse_script_split (f s : Bytes) (h : EQ ∉ f) : cutEq (f ++ EQ :: s) = some (f, s) := by
  induction f with
  | nil => simp [cutEq]
  | cons c rest ih =>
    simp only [List.mem_cons, not_or] at h
    have hc : (c == EQ) = false := by
      have : c ≠ EQ := fun e => h.1 e.symm
      simpa using this
    simp [cutEq, hc, ih h.2]

/-! ## environment: sanitised tag names -/

/-- **every character of a sanitised tag name is in `[A-Z0-9_]`**, for every name -/
theorem C27_sanitize_alphabet (name : List Char) : ∀ c ∈ sanitizeChars name, okRune c = true := by
  intro c hc
  unfold sanitizeChars at hc
  simp only [List.mem_map] at hc
  obtain ⟨a, _, rfl⟩ := hc
  split
  · assumption
  · decide

theorem C27_sanitize_length (name : List Char) : (sanitizeChars name).length = name.length := by
  simp [sanitizeChars]

/-! ## standard input -/

/-- **`eventClean` output contains no tab and no newline** -/
theorem C27_eventClean_clean (v : Bytes) : TAB ∉ eventClean v ∧ NL ∉ eventClean v :=
  not_mem_eventClean v

theorem count_append3 (x : UInt8) (a b c d : Bytes) :
    (a ++ TAB :: b ++ TAB :: c ++ TAB :: d ++ [NL]).count x =
      a.count x + b.count x + c.count x + d.count x + ([TAB, TAB, TAB, NL] : Bytes).count x := by
  simp only [List.count_append, List.count_cons, List.count_nil]
  omega

/-- **Each member line has exactly four tab-separated fields and exactly one newline, at its
end** — whatever the member's name, role and tags contain (the address is rendered by
`net.IP.String()`, which never contains a tab or newline: hypothesis `haddr`). -/
theorem C27_member_line (m : Member) (haddr : TAB ∉ m.addr ∧ NL ∉ m.addr) :
    (splitOn TAB (memberLine m)).length = 4 ∧
    (memberLine m).count NL = 1 ∧
    (memberLine m).getLast? = some NL := by
  have ht : m.addr.count TAB = 0 := List.count_eq_zero.mpr haddr.1
  have hn : m.addr.count NL = 0 := List.count_eq_zero.mpr haddr.2
  refine ⟨?_, ?_, ?_⟩
  · rw [length_splitOn]
    unfold memberLine
    rw [count_append3, count_eventClean_tab, count_eventClean_tab, count_eventClean_tab, ht]
    decide
  · unfold memberLine
    rw [count_append3, count_eventClean_nl, count_eventClean_nl, count_eventClean_nl, hn]
    decide
  · have : memberLine m = (eventClean m.name ++ TAB :: m.addr ++ TAB :: eventClean (lookupB m.tags roleB)
        ++ TAB :: eventClean (tagPairs m.tags)) ++ [NL] := by simp [memberLine]
    rw [this, List.getLast?_concat]

example : TAB ∉ ([49, 46, 50] : Bytes) ∧ NL ∉ ([49, 46, 50] : Bytes) := by decide

/-- one line per member -/
theorem C27_member_stdin_lines (ms : List Member) (haddr : ∀ m ∈ ms, TAB ∉ m.addr ∧ NL ∉ m.addr) :
    (memberStdin ms).count NL = ms.length := by
  induction ms with
  | nil => rfl
  | cons m rest ih =>
    unfold memberStdin at ih ⊢
    simp only [List.flatMap_cons, List.count_append, List.length_cons]
    rw [(C27_member_line m (haddr m (by simp))).2.1, ih (fun x hx => haddr x (List.mem_cons_of_mem _ hx))]
    omega

/-- **Payload newline rule**: an empty payload gives empty input; otherwise the input is the
payload, with one newline appended exactly when the payload does not end in one; so a
non-empty payload always reaches the script ending in a newline. -/
theorem C27_payload_rule (p : Bytes) :
    (p = [] → payloadStdin p = []) ∧
    (p ≠ [] → (payloadStdin p).getLast? = some NL) ∧
    (p.getLast? = some NL → payloadStdin p = p) ∧
    (p ≠ [] → p.getLast? ≠ some NL → payloadStdin p = p ++ [NL]) := by
  unfold payloadStdin
  refine ⟨?_, ?_, ?_, ?_⟩
  · intro h; subst h; rfl
  · intro h
    cases hl : p.getLast? with
    | none => exact absurd (List.getLast?_eq_none_iff.mp hl) h
    | some c =>
      simp only
      by_cases hc : c == NL
      · simp only [hc, ↓reduceIte, hl]
        rw [eq_of_beq hc]
      · simp [hc]
  · intro h; simp [h]
  · intro h hne
    cases hl : p.getLast? with
    | none => exact absurd (List.getLast?_eq_none_iff.mp hl) h
    | some c =>
      have : (c == NL) = false := by
        have : c ≠ NL := fun e => hne (by rw [hl, e])
        simpa using this
      simp [this]

/-! ## output: the last 8 KiB -/

/-- **The collected output is the last 8192 bytes of everything the script wrote, however
the writes were chunked** (for any buffer size). -/
theorem C27_output_last (size : Nat) (chunks : List Bytes) :
    chunks.foldl (circWrite size) [] = takeLast size chunks.flatten := by
  have gen : ∀ (acc : Bytes), chunks.foldl (circWrite size) (takeLast size acc) = takeLast size (acc ++ chunks.flatten) := by
    induction chunks with
    | nil => intro acc; simp
    | cons c rest ih =>
      intro acc
      simp only [List.foldl_cons, List.flatten_cons]
      rw [show circWrite size (takeLast size acc) c = takeLast size (takeLast size acc ++ c) from rfl,
        takeLast_append_takeLast, ih (acc ++ c), List.append_assoc]
  have := gen []
  simpa [takeLast] using this

theorem C27_last8k (out : Bytes) :
    (last8k out).length = min out.length 8192 ∧ last8k out <:+ out ∧ (out.length ≤ 8192 → last8k out = out) :=
  ⟨takeLast_length _ _, takeLast_suffix _ _, takeLast_of_le _ _⟩

/-- **Query response**: a response is attempted exactly for a query whose script exited
successfully with output; it carries the last 8 KiB of the output and is sent exactly when
the encoded response fits the response size limit. -/
theorem C27_respond (limit : Nat) (isQuery exitOk : Bool) (out : Bytes) (ltime id fromLen : Nat) :
    (respond limit isQuery exitOk out ltime id fromLen = .none ↔ ¬(isQuery = true ∧ exitOk = true ∧ out ≠ [])) ∧
    (∀ p, respond limit isQuery exitOk out ltime id fromLen = .sent p →
        p = last8k out ∧ respSize ltime id fromLen p.length ≤ limit) ∧
    (respond limit isQuery exitOk out ltime id fromLen = .tooLarge →
        respSize ltime id fromLen (last8k out).length > limit) := by
  unfold respond
  by_cases h : (isQuery && exitOk && decide (out.length > 0)) = true
  · have h3 : isQuery = true ∧ exitOk = true ∧ out ≠ [] := by
      simp only [Bool.and_eq_true, decide_eq_true_eq] at h
      refine ⟨h.1.1, h.1.2, ?_⟩
      intro e; subst e; simp at h
    simp only [h, ↓reduceIte]
    by_cases hsz : respSize ltime id fromLen (last8k out).length > limit
    · simp [hsz, h3]
    · simp only [hsz, ↓reduceIte]
      refine ⟨by simp [h3], ?_, by simp⟩
      intro p hp
      injection hp with hp
      subst hp
      exact ⟨rfl, by omega⟩
  · simp only [h, Bool.false_eq_true, ↓reduceIte]
    refine ⟨?_, by simp, by simp⟩
    simp only [true_iff]
    intro h3
    apply h
    have : out.length > 0 := by
      cases out with
      | nil => exact absurd rfl h3.2.2
      | cons _ _ => simp
    simp [h3.1, h3.2.1, this]

/-! ## the remaining hypotheses are necessary -/

/-- the comma-free hypothesis of `C27_parse_user_filter` cannot be dropped: a comma ends the entry -/
theorem C27_parse_user_filter_comma_needed :
    parseEventFilter (userPfx ++ [97, 44, 98]) = [⟨userB, [97]⟩, ⟨[98], []⟩] := by decide

/-- … nor the non-empty name of `C27_user_filter_exact`: `user:` with an empty name selects
every user event. -/
theorem C27_user_filter_empty_name (e : Event) :
    (parseEventFilter userPfx).any (fun f => invoke f e) = true ↔ e.kind = .user := by
  have hp : parseEventFilter userPfx = [⟨userB, []⟩] := by decide
  rw [hp]
  simp only [List.any_cons, List.any_nil, Bool.or_false, C27_runs_iff_matches, Matches]
  constructor
  · rintro (h | ⟨hk, _⟩)
    · exact absurd h (by decide)
    · exact kind_str_user e.kind hk.symm
  · intro hk
    right
    refine ⟨by rw [hk]; rfl, ?_⟩
    simp

/-! ## environment -/

/-- **What the script sees**: exactly `SERF_EVENT` (the event type), `SERF_SELF_NAME`,
`SERF_SELF_ROLE` (the `role` tag, empty when absent), one `SERF_TAG_<sanitised name>` per tag
with the tag's value unchanged, and for a user event / query its name and Lamport time —
nothing else is added, for every node name, tag map and event. -/
theorem C27_env_contents (selfName : Bytes) (selfTags : Tags) (san : Bytes → Bytes) (e : Event) :
    envOf selfName selfTags san e =
      [(b "SERF_EVENT", e.kind.str), (b "SERF_SELF_NAME", selfName), (b "SERF_SELF_ROLE", lookupB selfTags roleB)]
      ++ selfTags.map (fun p => (b "SERF_TAG_" ++ san p.1, p.2))
      ++ (match e with
          | .member .. => []
          | .user n lt _ => [(b "SERF_USER_EVENT", n), (b "SERF_USER_LTIME", decB lt)]
          | .query n lt _ => [(b "SERF_QUERY_NAME", n), (b "SERF_QUERY_LTIME", decB lt)]) := rfl

theorem C27_env_size (selfName : Bytes) (selfTags : Tags) (san : Bytes → Bytes) (e : Event) :
    (envOf selfName selfTags san e).length = 3 + selfTags.length + (if e.name?.isSome then 2 else 0) := by
  cases e <;> simp [envOf, Event.name?] <;> omega

/-- every tag of the node is visible, with its value unchanged, under its sanitised name -/
theorem C27_env_tag (selfName : Bytes) (selfTags : Tags) (san : Bytes → Bytes) (e : Event) (k v : Bytes)
    (h : (k, v) ∈ selfTags) : (b "SERF_TAG_" ++ san k, v) ∈ envOf selfName selfTags san e := by
  unfold envOf
  apply List.mem_append_left
  apply List.mem_append_right
  exact List.mem_map.mpr ⟨(k, v), h, rfl⟩

example : ((([114], [119]) : Bytes × Bytes)) ∈ ([([114], [119])] : Tags) := by decide

/-! ## the member line, field by field -/

theorem splitOn_append_sep (sep : UInt8) (a rest : Bytes) (h : sep ∉ a) :
    splitOn sep (a ++ sep :: rest) = a :: splitOn sep rest := by
  induction a with
  | nil => simp [splitOn]
  | cons c tl ih =>
    simp only [List.mem_cons, not_or] at h
    have hc : (c == sep) = false := by
      have : c ≠ sep := fun e => h.1 e.symm
      simpa using this
    simp only [List.cons_append, splitOn, hc, Bool.false_eq_true, ↓reduceIte, ih h.2]

/-- **The four fields of a member line are exactly** the escaped name, the address, the escaped
role and the escaped `name=value,…` list (followed by the newline). -/
theorem C27_member_line_fields (m : Member) (haddr : TAB ∉ m.addr ∧ NL ∉ m.addr) :
    splitOn TAB (memberLine m) =
      [eventClean m.name, m.addr, eventClean (lookupB m.tags roleB), eventClean (tagPairs m.tags) ++ [NL]] := by
  unfold memberLine
  have h4 : TAB ∉ eventClean (tagPairs m.tags) ++ [NL] := by
    intro hm
    rcases List.mem_append.mp hm with hm | hm
    · exact (not_mem_eventClean _).1 hm
    · simp [TAB, NL] at hm
  simp only [List.append_assoc, List.cons_append]
  rw [splitOn_append_sep TAB _ _ (not_mem_eventClean _).1, splitOn_append_sep TAB _ _ haddr.1,
    splitOn_append_sep TAB _ _ (not_mem_eventClean _).1, splitOn_of_not_mem TAB _ h4]

/-- the escaping is not reversible: a tab and the two characters `\t` give the same field
(the documentation promises escaping, not a decodable encoding) -/
theorem C27_eventClean_not_injective : eventClean [9] = eventClean [92, 116] := by decide

/-! ## the scripts see the node's CURRENT name, role and tags -/

/-- **Every event is handled with `SelfFunc`'s answer of that moment** — for every history of
tag/name changes and events, in particular user events and queries right after a change with no
member event in between — when the handler does not cache the member. -/
theorem C27_self_current (sh : SelfShape) (h : sh.cachesSelf = false) (cache : Option Self)
    (hist : List (Self × Event)) : selfHistory sh cache hist = hist.map (·.1) := by
  induction hist generalizing cache with
  | nil => rfl
  | cons p rest ih =>
    obtain ⟨now, e⟩ := p
    simp only [selfHistory, selfFor, h, Bool.false_eq_true, ↓reduceIte, List.map_cons, ih]

/-- hence the environment of the i-th run is `envOf` of the i-th answer of `SelfFunc` -/
theorem C27_env_current_self (sh : SelfShape) (h : sh.cachesSelf = false) (san : Bytes → Bytes)
    (hist : List (Self × Event)) :
    (List.zip (selfHistory sh none hist) (hist.map (·.2))).map (fun p => envOf p.1.name p.1.tags san p.2) =
      hist.map (fun p => envOf p.1.name p.1.tags san p.2) := by
  rw [C27_self_current sh h]
  induction hist with
  | nil => rfl
  | cons p rest ih => simp only [List.map_cons, List.zip_cons_cons, ih]

example : (⟨false⟩ : SelfShape).cachesSelf = false := rfl

/-- COUNTEREXAMPLE for a handler that caches the member and refreshes it on member events only
(seeded C27-e): the role changes from `a` to `b`, the next user event still runs with `a`. -/
theorem C27_self_cached_counterexample :
    selfHistory ⟨true⟩ none
      [(⟨[110], [([114, 111, 108, 101], [97])]⟩, .user [120] 1 []), (⟨[110], [([114, 111, 108, 101], [98])]⟩, .user [120] 2 [])]
    = [⟨[110], [([114, 111, 108, 101], [97])]⟩, ⟨[110], [([114, 111, 108, 101], [97])]⟩] := by decide

/-! ## reloading the handler list -/

/-- what the next event will be dispatched with -/
def inEffect (h : HandlerState) : List (Filter × Bytes) := h.pending.getD h.scripts

theorem inEffect_applyOp (h : HandlerState) (o : HOp) :
    inEffect (applyOp h o) = match o with
      | .update l => l
      | .event .. => inEffect h := by
  cases o with
  | update l => rfl
  | event env e =>
    simp only [applyOp, handleEvent, swapIn, inEffect]
    cases hp : h.pending <;> simp [hp]

theorem inEffect_applyOps (ops : List HOp) (h : HandlerState) :
    inEffect (applyOps h ops) = lastConfig (inEffect h) ops := by
  induction ops generalizing h with
  | nil => rfl
  | cons o rest ih =>
    simp only [applyOps]
    rw [ih, inEffect_applyOp]
    cases o <;> rfl

/-- **Only the handlers configured last run**: after any history of reloads and events, the
scripts started for the next event are exactly the matching entries of the configuration given
LAST (the initial one if there was no reload) — also when that configuration is empty; a handler
that is no longer configured never runs. -/
theorem C27_reload_exact (init : List (Filter × Bytes)) (ops : List HOp) (env : List (Bytes × Bytes)) (e : Event) :
    (handleEvent (applyOps ⟨init, none⟩ ops) env e).2 = startedOf (lastConfig init ops) env e := by
  have h := inEffect_applyOps ops ⟨init, none⟩
  simp only [inEffect, Option.getD_none] at h
  simp only [handleEvent, swapIn]
  cases hp : (applyOps ⟨init, none⟩ ops).pending with
  | none => simp only [hp, Option.getD_none] at h; rw [h]
  | some l => simp only [hp, Option.getD_some] at h; rw [h]

/-- a reload to NO handlers silences every handler (seeded C27-d kept the old ones running) -/
theorem C27_reload_to_empty (init : List (Filter × Bytes)) (env : List (Bytes × Bytes)) (e : Event) :
    (handleEvent (applyOps ⟨init, none⟩ [.update []]) env e).2 = [] := by
  rw [C27_reload_exact]
  simp [lastConfig, startedOf, runsOf]

example : (handleEvent (applyOps ⟨[(⟨starB, []⟩, [115])], none⟩ [.update [], .update [(⟨starB, []⟩, [116])]]) [] (.user [97] 1 [])).2 = [[116]] := by
  decide

/-! ## member addresses: the hypothesis of `C27_member_line` discharged for IPv4 and nil -/

theorem digit_clean (n : Nat) : digit n ≠ TAB ∧ digit n ≠ NL := by
  have h : ∀ k : Fin 10, UInt8.ofNat (48 + k.val) ≠ TAB ∧ UInt8.ofNat (48 + k.val) ≠ NL := by decide
  exact h ⟨n % 10, Nat.mod_lt _ (by decide)⟩

theorem octet_clean (n : Nat) : TAB ∉ octet n ∧ NL ∉ octet n := by
  unfold octet
  have d := digit_clean
  split
  · simp only [List.mem_singleton]; exact ⟨fun e => (d n).1 e.symm, fun e => (d n).2 e.symm⟩
  · split
    · simp only [List.mem_cons, List.not_mem_nil, or_false, not_or]
      exact ⟨⟨fun e => (d _).1 e.symm, fun e => (d _).1 e.symm⟩, ⟨fun e => (d _).2 e.symm, fun e => (d _).2 e.symm⟩⟩
    · simp only [List.mem_cons, List.not_mem_nil, or_false, not_or]
      exact ⟨⟨fun e => (d _).1 e.symm, fun e => (d _).1 e.symm, fun e => (d _).1 e.symm⟩,
        ⟨fun e => (d _).2 e.symm, fun e => (d _).2 e.symm, fun e => (d _).2 e.symm⟩⟩

/-- the dotted-decimal text of an IPv4 address and the text of the nil address contain neither
a tab nor a newline -/
theorem C27_addr_clean (a c d e : Nat) :
    (TAB ∉ ipv4 a c d e ∧ NL ∉ ipv4 a c d e) ∧ (TAB ∉ nilAddr ∧ NL ∉ nilAddr) := by
  refine ⟨?_, by decide⟩
  unfold ipv4
  have o := octet_clean
  have hd : DOT ≠ TAB ∧ DOT ≠ NL := by decide
  simp only [List.mem_append, List.mem_cons, not_or]
  exact ⟨⟨⟨⟨(o a).1, fun h => hd.1 h.symm, (o c).1⟩, fun h => hd.1 h.symm, (o d).1⟩, fun h => hd.1 h.symm, (o e).1⟩,
    ⟨⟨⟨(o a).2, fun h => hd.2 h.symm, (o c).2⟩, fun h => hd.2 h.symm, (o d).2⟩, fun h => hd.2 h.symm, (o e).2⟩⟩

/-- **`C27_member_line` without a hypothesis**, for every member with an IPv4 or nil address:
four tab-separated fields, one newline, at the end — whatever name, role and tags contain. -/
theorem C27_member_line_ipv4 (name : Bytes) (tags : Tags) (a c d e : Nat) :
    (splitOn TAB (memberLine ⟨name, ipv4 a c d e, tags⟩)).length = 4 ∧
    (memberLine ⟨name, ipv4 a c d e, tags⟩).count NL = 1 ∧
    (memberLine ⟨name, ipv4 a c d e, tags⟩).getLast? = some NL ∧
    (splitOn TAB (memberLine ⟨name, nilAddr, tags⟩)).length = 4 ∧
    (memberLine ⟨name, nilAddr, tags⟩).count NL = 1 :=
  have h1 := C27_member_line ⟨name, ipv4 a c d e, tags⟩ (C27_addr_clean a c d e).1
  have h2 := C27_member_line ⟨name, nilAddr, tags⟩ (C27_addr_clean a c d e).2
  ⟨h1.1, h1.2.1, h1.2.2, h2.1, h2.2.1⟩

example : ipv4 10 0 200 7 = [49, 48, 46, 48, 46, 50, 48, 48, 46, 55] := by decide

/-! ## the decisive shapes and constants of the source (regenerated on every run)

`SerfModel.Gen.EventScriptSrc`: statement skeletons of the event-handler functions and, byte
for byte, the constants and literals in them.  Each obligation names the model definition it
justifies. -/

open SerfModel.SourceShape
section Src
open SerfModel.Gen

set_option maxRecDepth 8000 in
/-- `maxBufSize`, the buffer is created with it and collects both stdout and stderr (`last8k`) -/
theorem C27_src_output_buffer :
    EventScriptSrc.maxBufSize = SerfModel.EventScript.maxBufSize ∧
    once "v4, _ := circbuf.NewBuffer(8192)" EventScriptSrc.invokeEventScript = true ∧
    once "v7.Stderr = v4" EventScriptSrc.invokeEventScript = true ∧ once "v7.Stdout = v4" EventScriptSrc.invokeEventScript = true := by decide

set_option maxRecDepth 8000 in
/-- the response gate (`respond`): after `cmd.Wait()` an error returns before the response; a
response is attempted only for a query with output, with the buffer's content; and the
default limit is `responseLimit` -/
theorem C27_src_response_gate :
    hasBlock ["v13 = v7.Wait()", "v15.Stop()", "if v13 != nil {", "return v13", "}", "if v17, v18 := v3.(*serf.Query); v18 && v4.TotalWritten() > 0 {", "if v19 := v17.Respond(v4.Bytes()); v19 != nil {", "}", "}", "return nil"] EventScriptSrc.invokeEventScript = true ∧
    EventScriptSrc.defaultResponseLimit = responseLimit := by decide

set_option maxRecDepth 8000 in
/-- the environment (`envOf`): the eight SERF_* entries as templates (`{}` = an operand; fmt.Sprintf with only %s and `+` are the same template), in order, the tag loop with upper-casing and
the replacement regexp (`sanitizeChars`), name and Lamport time per event kind -/
theorem C27_src_environment :
    EventScriptSrc.envTemplates = ["SERF_EVENT={}", "SERF_SELF_NAME={}", "SERF_SELF_ROLE={}", "SERF_TAG_{}={}", "SERF_USER_EVENT={}",
      "SERF_USER_LTIME={d}", "SERF_QUERY_NAME={}", "SERF_QUERY_LTIME={d}"] ∧
    EventScriptSrc.sanitizeRegexp = "[^A-Z0-9_]" ∧
    once "v7.Env = append(os.Environ(), \"SERF_EVENT=\"+v3.EventType().String(), \"SERF_SELF_NAME=\"+v2.Name, \"SERF_SELF_ROLE=\"+v2.Tags[\"role\"], )" EventScriptSrc.invokeEventScript = true ∧
    hasBlock ["for v8, v9 := range v2.Tags {", "v10 := sanitizeTagRegexp.ReplaceAllString(strings.ToUpper(v8), \"_\")", "v11 := \"SERF_TAG_\" + v10 + \"=\" + v9", "v7.Env = append(v7.Env, v11)", "}"] EventScriptSrc.invokeEventScript = true ∧
    hasBlock ["switch v14 := v3.(type) {", "case serf.MemberEvent:", "go memberEventStdin(v0, v12, &v14)", "case serf.UserEvent:", "v7.Env = append(v7.Env, \"SERF_USER_EVENT=\"+v14.Name)", "v7.Env = append(v7.Env, fmt.Sprintf(\"SERF_USER_LTIME=%d\", v14.LTime))", "go streamPayload(v0, v12, v14.Payload)", "case *serf.Query:", "v7.Env = append(v7.Env, \"SERF_QUERY_NAME=\"+v14.Name)", "v7.Env = append(v7.Env, fmt.Sprintf(\"SERF_QUERY_LTIME=%d\", v14.LTime))", "go streamPayload(v0, v12, v14.Payload)", "default:"] EventScriptSrc.invokeEventScript = true := by decide

set_option maxRecDepth 8000 in
/-- standard input of a member event (`EventScriptSrc.eventClean`, `tagPairs`, `memberLine`): the replacement
pairs, the formats, and the one statement that writes a line — name, role and the JOINED tag
list go through `EventScriptSrc.eventClean` (seeded C27-a moved the escaping to the tag values) -/
theorem C27_src_member_stdin :
    EventScriptSrc.cleanPairs = [([TAB], [BSL, 116]), ([NL], [BSL, 110])] ∧
    EventScriptSrc.eventClean = ["v0 = strings.ReplaceAll(v0, \"\\t\", \"\\\\t\")", "v0 = strings.ReplaceAll(v0, \"\\n\", \"\\\\n\")", "return v0"] ∧
    EventScriptSrc.memberFormats = [[123, 125, EQ, 123, 125], [37, 115, TAB, 37, 115, TAB, 37, 115, TAB, 37, 115, NL], [COMMA]] ∧
    EventScriptSrc.memberEventStdin = ["defer v0.Close()", "for _, v2 := range v1.Members {", "var v3 []string", "for v4, v5 := range v2.Tags {", "v3 = append(v3, v4+\"=\"+v5)", "}", "v6 := strings.Join(v3, \",\")", "_, v7 := v0.Write(fmt.Appendf(nil, \"%s\\t%s\\t%s\\t%s\\n\", eventClean(v2.Name), v2.Addr.String(), eventClean(v2.Tags[\"role\"]), eventClean(v6)))", "if v7 != nil {", "return", "}", "}"] := by decide

set_option maxRecDepth 8000 in
/-- standard input of a user event / query (`payloadStdin`) -/
theorem C27_src_payload_stdin :
    EventScriptSrc.payloadChars = [[NL], [NL]] ∧
    EventScriptSrc.streamPayload = ["defer v1.Close()", "v3 := v2", "if len(v3) > 0 && v3[len(v3)-1] != '\\n' {", "v3 = append(v3, '\\n')", "}", "if _, v4 := v1.Write(v3); v4 != nil {", "return", "}"] := by decide

set_option maxRecDepth 8000 in
/-- parsing (`EventScriptSrc.parseEventScript`, `EventScriptSrc.parseEventFilter`, `parseEntry`): split at the first `=`, the
empty filter is `*`, entries separated by commas, the name is the rest after the PREFIX
(seeded C27-b cut it at the next colon) -/
theorem C27_src_parsing :
    EventScriptSrc.filterPrefixes = [userPfx, queryPfx] ∧ EventScriptSrc.separators = [[COMMA], [EQ, 35, 50]] ∧
    once "v3 := strings.SplitN(v0, \"=\", 2)" EventScriptSrc.parseEventScript = true ∧
    once "v4 := ParseEventFilter(v1)" EventScriptSrc.parseEventScript = true ∧
    EventScriptSrc.parseEventFilter = ["if v0 == \"\" {", "v0 = \"*\"", "}", "v1 := strings.Split(v0, \",\")", "v2 := make([]EventFilter, 0, len(v1))", "for _, v3 := range v1 {", "var v4 EventFilter", "var v5 string", "if strings.HasPrefix(v3, \"user:\") {", "v5 = v3[len(\"user:\"):]", "v3 = \"user\"", "} else if strings.HasPrefix(v3, \"query:\") {", "v5 = v3[len(\"query:\"):]", "v3 = \"query\"", "}", "v4.Event = v3", "v4.Name = v5", "v2 = append(v2, v4)", "}", "return v2"] := by decide

set_option maxRecDepth 8000 in
/-- matching and dispatch (`EventScriptSrc.invoke`, `runsOf`) -/
theorem C27_src_matching :
    EventScriptSrc.invoke = ["if v0.Event == \"*\" {", "return true", "}", "if v1.EventType().String() != v0.Event {", "return false", "}", "if v0.Event == \"user\" && v0.Name != \"\" {", "v2, v3 := v1.(serf.UserEvent)", "if !v3 {", "return false", "}", "if v2.Name != v0.Name {", "return false", "}", "}", "if v0.Event == \"query\" && v0.Name != \"\" {", "v4, v5 := v1.(*serf.Query)", "if !v5 {", "return false", "}", "if v4.Name != v0.Name {", "return false", "}", "}", "return true"] ∧
    hasBlock ["for _, v3 := range v0.Scripts {", "if !v3.Invoke(v1) {", "continue", "}", "v4 := invokeEventScript(v0.Logger, v3.Script, v2, v1)"] EventScriptSrc.handleEvent = true := by decide

set_option maxRecDepth 8000 in
/-- reload (`updateScripts`, `swapIn`): UpdateScripts stores the list, HandleEvent swaps it in
when it is non-nil — NOT "non-empty" (seeded C27-d) — before dispatching, and the agent builds the
list as a non-nil slice even without handlers -/
theorem C27_src_reload :
    EventScriptSrc.updateScripts = ["v0.scriptLock.Lock()", "defer v0.scriptLock.Unlock()", "v0.newScripts = v1"] ∧
    hasBlock ["v0.scriptLock.Lock()", "if v0.newScripts != nil {", "v0.Scripts = v0.newScripts", "v0.newScripts = nil", "}", "v0.scriptLock.Unlock()"] EventScriptSrc.handleEvent = true ∧
    before "v0.scriptLock.Unlock()" "for _, v3 := range v0.Scripts {" EventScriptSrc.handleEvent = true ∧
    EventScriptSrc.configEventScripts = ["v1 := make([]EventScript, 0, len(v0.EventHandlers))", "for _, v2 := range v0.EventHandlers {", "v3 := ParseEventScript(v2)", "v1 = append(v1, v3...)", "}", "return v1"] := by decide

/-- the local member (`selfFor` with `cachesSelf = false`): HandleEvent binds it to `SelfFunc()`
right before the dispatch loop, for every event, and the handler has no field that could hold a
copy (seeded C27-e cached it in a field refreshed by member events only) -/
theorem C27_src_self_per_event :
    EventScriptSrc.selfSource = ["recv.SelfFunc()"] ∧
    EventScriptSrc.handlerFields = ["SelfFunc func() serf.Member", "Scripts []EventScript", "Logger *log.Logger",
      "scriptLock sync.Mutex", "newScripts []EventScript"] ∧
    hasBlock ["v2 := v0.SelfFunc()", "for _, v3 := range v0.Scripts {", "if !v3.Invoke(v1) {", "continue", "}",
      "v4 := invokeEventScript(v0.Logger, v3.Script, v2, v1)"] EventScriptSrc.handleEvent = true := by decide

end Src

end SerfProofs.C27
