/-
C36 — Name conflicts are settled by a strict majority of valid replies.

Model: `SerfModel.Conflict` (serf/serf.go `resolveNodeConflict`).  `rs` is the list
of reply payloads in the order the response channel delivered them; `decode` is
the msgpack decoder (any function).  A reply is VALID when its first byte is the
conflict-response type and the rest decodes as a member (a nil member is valid).
-/
import SerfProofs.Lemmas.Conflict
namespace SerfProofs.C36
open SerfModel SerfModel.Conflict SerfProofs.Conflict

/-- **The vote.** The node shuts down exactly when the valid replies naming its own
address and port are NOT a strict majority of the valid replies — for every list of
replies, every decoder, every local address. -/
theorem C36_vote (decode : Decoder) (rs : List Bytes) (addr : Bytes) (port : Nat) :
    resolve decode addr port rs = true ↔
      ¬ (2 * (validReplies decode rs).countP (mine addr port) > (validReplies decode rs).length) := by
  obtain ⟨h1, h2⟩ := tally_eq decode addr port rs
  simp only [resolve, shutsDown, Bool.not_eq_true', decide_eq_false_iff_not, h1, h2]
  rw [majority_iff]

/-- **Malformed replies are ignored**: the outcome is the outcome on the valid replies alone. -/
theorem C36_malformed_ignored (decode : Decoder) (rs : List Bytes) (addr : Bytes) (port : Nat) :
    resolve decode addr port rs =
      resolve decode addr port (rs.filter (fun r => (valid? decode r).isSome)) := by
  have hv : validReplies decode (rs.filter (fun r => (valid? decode r).isSome)) = validReplies decode rs := by
    unfold validReplies
    induction rs with
    | nil => rfl
    | cons r rs ih =>
      cases hr : valid? decode r with
      | none => simp [List.filter_cons, List.filterMap_cons, hr, ih]
      | some m => simp [List.filter_cons, List.filterMap_cons, hr, ih]
  have e1 := C36_vote decode rs addr port
  have e2 := C36_vote decode (rs.filter (fun r => (valid? decode r).isSome)) addr port
  rw [hv] at e2
  cases h : resolve decode addr port rs <;>
    cases h' : resolve decode addr port (rs.filter (fun r => (valid? decode r).isSome)) <;> simp_all

/-- **Multisets**: the arrival order of the replies does not matter. -/
theorem C36_order_irrelevant (decode : Decoder) (rs rs' : List Bytes) (addr : Bytes) (port : Nat)
    (hp : rs.Perm rs') : resolve decode addr port rs = resolve decode addr port rs' := by
  have hv : (validReplies decode rs).Perm (validReplies decode rs') := hp.filterMap _
  have e1 := C36_vote decode rs addr port
  have e2 := C36_vote decode rs' addr port
  rw [hv.countP_eq, hv.length_eq] at e1
  cases h : resolve decode addr port rs <;> cases h' : resolve decode addr port rs' <;> simp_all

/-- No valid reply at all (in particular: no reply): no majority, the node shuts down. -/
theorem C36_no_valid_reply (decode : Decoder) (rs : List Bytes) (addr : Bytes) (port : Nat)
    (h : validReplies decode rs = []) : resolve decode addr port rs = true := by
  rw [C36_vote, h]; simp

/-- A reply with the wrong type byte or an empty payload is never valid. -/
theorem C36_wrong_type_invalid (decode : Decoder) (payload : Bytes)
    (h : payload.head? ≠ some conflictResponseType) : valid? decode payload = none := by
  cases payload with
  | nil => rfl
  | cons t rest =>
    simp only [List.head?_cons, ne_eq, Option.some.injEq] at h
    simp [valid?, h]

/-- A nil member ("unknown to me") is a valid vote that is not for this node. -/
theorem C36_nil_member_not_mine (addr : Bytes) (port : Nat) (h : addr ≠ [] ∨ port ≠ 0) :
    mine addr port none = false := by
  rcases h with h | h
  · cases addr with
    | nil => exact absurd rfl h
    | cons a as => simp [mine, ipEqual]
  · simp [mine, h]

-- Non-vacuity: decoder = "first byte 1 ↦ error, 2 ↦ nil member, else the bytes as an address on port 7946".
private def dec : Decoder := fun b =>
  match b with
  | 1 :: _ => none
  | 2 :: _ => some none
  | bs => some (some ⟨bs, 7946⟩)

-- 2 of 3 valid replies are mine (one 4-byte, one 16-byte form of 127.0.0.1), malformed ones ignored: stays up
example : resolve dec [127, 0, 0, 1] 7946
    [[6, 127, 0, 0, 1], [5, 127, 0, 0, 1], [6, 1], [], [6, 2],
     [6, 0, 0, 0, 0, 0, 0, 0, 0, 0, 0, 0xff, 0xff, 127, 0, 0, 1]] = false := by decide
-- 1 of 2: a tie is not a strict majority: shuts down
example : resolve dec [127, 0, 0, 1] 7946 [[6, 127, 0, 0, 1], [6, 2], [9, 9]] = true := by decide
example : resolve dec [127, 0, 0, 1] 7946 [] = true := by decide

end SerfProofs.C36
