/-
C36 — Name conflicts are settled by a strict majority of valid replies.

Model: `SerfModel.Conflict` (serf/serf.go `resolveNodeConflict`).  `rs` is the list
of reply payloads in the order the response channel delivered them; `decode` is
the msgpack decoder (any function).  A reply is VALID when its first byte is the
conflict-response type and the rest decodes as a member (a nil member is valid).
-/
import SerfProofs.Lemmas.Conflict
import SerfModel.Gen.ConflictVote
namespace SerfProofs.C36
open SerfModel SerfModel.Conflict SerfProofs.Conflict

/-- **The vote.** The node shuts down exactly when the valid replies naming its own
address and port are NOT a strict majority of the valid replies — for every list of
replies, every decoder, every local address. -/
theorem C36_vote (decode : Decoder) (rs : List Bytes) (addr : Bytes) (port : Nat) :
    resolve decode addr port rs = true ↔
      ¬ (2 * (validReplies decode rs).countP (mine addr port) > (validReplies decode rs).length) := by
  obtain ⟨h1, h2⟩ := tally_eq decode addr port rs
  simp only [resolve, shutsDown, Bool.not_eq_true', decide_eq_false_iff_not, h1, h2]
  rw [majority_iff]

/-- **Malformed replies are ignored**: the outcome is the outcome on the valid replies alone. -/
theorem C36_malformed_ignored (decode : Decoder) (rs : List Bytes) (addr : Bytes) (port : Nat) :
    resolve decode addr port rs =
      resolve decode addr port (rs.filter (fun r => (valid? decode r).isSome)) := by
  have hv : validReplies decode (rs.filter (fun r => (valid? decode r).isSome)) = validReplies decode rs := by
    unfold validReplies
    induction rs with
    | nil => rfl
    | cons r rs ih =>
      cases hr : valid? decode r with
      | none => simp [List.filter_cons, List.filterMap_cons, hr, ih]
      | some m => simp [List.filter_cons, List.filterMap_cons, hr, ih]
  have e1 := C36_vote decode rs addr port
  have e2 := C36_vote decode (rs.filter (fun r => (valid? decode r).isSome)) addr port
  rw [hv] at e2
  cases h : resolve decode addr port rs <;>
    cases h' : resolve decode addr port (rs.filter (fun r => (valid? decode r).isSome)) <;> simp_all

/-- **Multisets**: the arrival order of the replies does not matter. -/
theorem C36_order_irrelevant (decode : Decoder) (rs rs' : List Bytes) (addr : Bytes) (port : Nat)
    (hp : rs.Perm rs') : resolve decode addr port rs = resolve decode addr port rs' := by
  have hv : (validReplies decode rs).Perm (validReplies decode rs') := hp.filterMap _
  have e1 := C36_vote decode rs addr port
  have e2 := C36_vote decode rs' addr port
  rw [hv.countP_eq, hv.length_eq] at e1
  cases h : resolve decode addr port rs <;> cases h' : resolve decode addr port rs' <;> simp_all

/-- No valid reply at all (in particular: no reply): no majority, the node shuts down. -/
theorem C36_no_valid_reply (decode : Decoder) (rs : List Bytes) (addr : Bytes) (port : Nat)
    (h : validReplies decode rs = []) : resolve decode addr port rs = true := by
  rw [C36_vote, h]; simp

/-- **A tie is not a majority**: when exactly half of the valid replies name this node it shuts down. -/
theorem C36_tie_shuts_down (decode : Decoder) (rs : List Bytes) (addr : Bytes) (port : Nat)
    (h : 2 * (validReplies decode rs).countP (mine addr port) = (validReplies decode rs).length) :
    resolve decode addr port rs = true := by
  rw [C36_vote]; omega

/-- **Support is monotone**: one more valid reply that names this node never turns "stay up" into "shut down";
one more valid reply naming someone else never turns "shut down" into "stay up". -/
theorem C36_support_monotone (decode : Decoder) (rs : List Bytes) (r : Bytes) (m : Option MAddr) (addr : Bytes) (port : Nat)
    (hr : valid? decode r = some m) :
    (mine addr port m = true → resolve decode addr port rs = false → resolve decode addr port (rs ++ [r]) = false) ∧
    (mine addr port m = false → resolve decode addr port rs = true → resolve decode addr port (rs ++ [r]) = true) := by
  have hv : validReplies decode (rs ++ [r]) = validReplies decode rs ++ [m] := by
    simp [validReplies, List.filterMap_append, hr]
  have e1 := C36_vote decode rs addr port
  have e2 := C36_vote decode (rs ++ [r]) addr port
  rw [hv, List.countP_append, List.length_append] at e2
  constructor
  · intro hm h0
    have hc : List.countP (mine addr port) [m] = 1 := by simp [List.countP_cons, hm]
    rw [hc] at e2
    cases h' : resolve decode addr port (rs ++ [r]) with
    | false => rfl
    | true =>
      have a := e2.mp h'
      have b : ¬ resolve decode addr port rs = true := by simp [h0]
      rw [e1] at b
      simp only [List.length_singleton] at a
      omega
  · intro hm h0
    have hc : List.countP (mine addr port) [m] = 0 := by simp [List.countP_cons, hm]
    rw [hc] at e2
    rw [e2]
    have a := e1.mp h0
    simp only [List.length_singleton]
    omega

/-- A reply with the wrong type byte or an empty payload is never valid. -/
theorem C36_wrong_type_invalid (decode : Decoder) (payload : Bytes)
    (h : payload.head? ≠ some conflictResponseType) : valid? decode payload = none := by
  cases payload with
  | nil => rfl
  | cons t rest =>
    simp only [List.head?_cons, ne_eq, Option.some.injEq] at h
    simp [valid?, h]

/-- A nil member ("unknown to me") is a valid vote that is not for this node. -/
theorem C36_nil_member_not_mine (addr : Bytes) (port : Nat) (h : addr ≠ [] ∨ port ≠ 0) :
    mine addr port none = false := by
  rcases h with h | h
  · cases addr with
    | nil => exact absurd rfl h
    | cons a as => simp [mine, ipEqual]
  · simp [mine, h]

/-- The hypothesis of `C36_nil_member_not_mine` is needed: a node whose own address is nil and port 0 (not
reachable: memberlist always advertises an address) would count a nil member as a vote for itself. -/
theorem C36_nil_member_degenerate : mine [] 0 none = true := by decide

/-! ### Tie to the source (regenerated on every run) -/

/-- **The vote as it is in the source**: type check, then a FRESH `var member Member`, then the decode,
and only then `responses++` and the matching test on address and port; survive on `matching >= majority`,
shut down otherwise; `majority` is `responses/2 + 1` as written; the type byte is the model's. -/
theorem C36_vote_shape_gen :
    Gen.ConflictVote.shape.asModelled = true ∧
    (∀ t, shutsDownG Gen.ConflictVote.majority t = shutsDown t) ∧
    Gen.ConflictVote.responseType = conflictResponseType.toNat :=
  ⟨by decide, fun _ => rfl, by decide⟩

theorem countInto_fresh (dec : DecoderInto) (addr : Bytes) (port : Nat) (rs : List Bytes) :
    ∀ (t : Tally) (v : MemberVar),
      (rs.foldl (countInto true dec addr port) (t, v)).1 = rs.foldl (count dec.fromZero addr port) t := by
  induction rs with
  | nil => intro t v; rfl
  | cons r rs ih =>
    intro t v
    simp only [List.foldl_cons]
    cases r with
    | nil => simpa [countInto, count, valid?] using ih t v
    | cons b rest =>
      by_cases hb : (b == conflictResponseType) = true
      · cases hd : dec {} rest with
        | none =>
          have e1 : countInto true dec addr port (t, v) (b :: rest) = (t, {}) := by simp [countInto, hb, hd]
          have e2 : count dec.fromZero addr port t (b :: rest) = t := by
            simp [count, valid?, hb, DecoderInto.fromZero, hd]
          rw [e1, e2]; exact ih t {}
        | some m =>
          have e1 : countInto true dec addr port (t, v) (b :: rest) =
              ({ responses := t.responses + 1,
                 matching := if ipEqual m.addr addr && m.port == port then t.matching + 1 else t.matching }, m) := by
            simp [countInto, hb, hd]
          have e2 : count dec.fromZero addr port t (b :: rest) =
              { responses := t.responses + 1,
                matching := if ipEqual m.addr addr && m.port == port then t.matching + 1 else t.matching } := by
            simp [count, valid?, hb, DecoderInto.fromZero, hd, mine]
          rw [e1, e2]; exact ih _ m
      · have e1 : countInto true dec addr port (t, v) (b :: rest) = (t, v) := by simp [countInto, hb]
        have e2 : count dec.fromZero addr port t (b :: rest) = t := by simp [count, valid?, hb]
        rw [e1, e2]; exact ih t v

/-- **Each reply is judged on its own**: with the decode target declared inside the loop (as the source
has it), the loop over a stateful decoder is the loop of `C36_vote` over the decoder "from a zero Member":
a reply that omits its address fields never inherits them from an earlier reply. -/
theorem C36_fresh_member (dec : DecoderInto) (addr : Bytes) (port : Nat) (rs : List Bytes) :
    tallyInto true dec addr port rs = tally dec.fromZero addr port rs := by
  unfold tallyInto tally
  exact countInto_fresh dec addr port rs {} {}

/-- A msgpack-like stateful decoder: first byte 1 = error, 2 = a map WITHOUT address fields (the target
keeps what it held), otherwise the bytes are the address, port 7946. -/
def keepDec : DecoderInto := fun prev b =>
  match b with
  | 1 :: _ => none
  | 2 :: _ => some prev
  | bs => some ⟨bs, 7946⟩

example : tallyInto true keepDec [127, 0, 0, 1] 7946 [[6, 127, 0, 0, 1], [6, 2], [6, 2]] = ⟨3, 1⟩ := by decide

/-- Regression witness (the hoisted `var member Member`): a reply naming the node followed by two replies
without address fields counts 3 of 3 instead of 1 of 3 — the node stays up although it lost the vote. -/
theorem C36_reused_member_counterexample :
    tallyInto false keepDec [127, 0, 0, 1] 7946 [[6, 127, 0, 0, 1], [6, 2], [6, 2]] = ⟨3, 3⟩ ∧
    shutsDown (tallyInto false keepDec [127, 0, 0, 1] 7946 [[6, 127, 0, 0, 1], [6, 2], [6, 2]]) = false ∧
    shutsDown (tallyInto true keepDec [127, 0, 0, 1] 7946 [[6, 127, 0, 0, 1], [6, 2], [6, 2]]) = true := by
  decide

-- Non-vacuity: decoder = "first byte 1 ↦ error, 2 ↦ nil member, else the bytes as an address on port 7946".
private def dec : Decoder := fun b =>
  match b with
  | 1 :: _ => none
  | 2 :: _ => some none
  | bs => some (some ⟨bs, 7946⟩)

-- 2 of 3 valid replies are mine (one 4-byte, one 16-byte form of 127.0.0.1), malformed ones ignored: stays up
example : resolve dec [127, 0, 0, 1] 7946
    [[6, 127, 0, 0, 1], [5, 127, 0, 0, 1], [6, 1], [], [6, 2],
     [6, 0, 0, 0, 0, 0, 0, 0, 0, 0, 0, 0xff, 0xff, 127, 0, 0, 1]] = false := by decide
-- 1 of 2: a tie is not a strict majority: shuts down
example : resolve dec [127, 0, 0, 1] 7946 [[6, 127, 0, 0, 1], [6, 2], [9, 9]] = true := by decide
example : resolve dec [127, 0, 0, 1] 7946 [] = true := by decide

end SerfProofs.C36
