/-
C17 — Member event coalescing reports only the latest new state of each member.

Model: `SerfModel.MemberCoalesce` (serf/coalesce_member.go).  A *quantum* `q` is
the list of member events received since the previous flush; `c` is the coalescer
state at the start of the quantum (`c.latest = []`: true initially and, by
`C17_flush_resets`, after every flush).
-/
import SerfProofs.Lemmas.MemberCoalesce
import SerfModel.Gen.Coalescers
namespace SerfProofs.C17
open SerfModel SerfModel.MemberCoalesce SerfProofs.MemberCoalesce

/-- Every flush empties the pending set: nothing is reported twice. -/
theorem C17_flush_resets (c : MC) (q : List MEv) : (runQuantum c q).1.latest = [] := by
  simp [runQuantum, flush]

/-- What a flush emits, exactly: the latest event of every member that had one in
this quantum, unless it is suppressed, in first-arrival order of the members. -/
theorem C17_flush_out (c : MC) (q : List MEv) (hc : c.latest = []) :
    (runQuantum c q).2 =
      ((q.foldl coalesce c).latest.map (·.2)).filter (fun e => !suppressed c.lastEvents e) := by
  have h0 : LatestOK c.latest := by rw [hc]; exact LatestOK.nil
  obtain ⟨h1, h2, _⟩ := fold_coalesce_latest q c h0
  simp only [runQuantum, flush]
  rw [flushLoop_out _ _ _ h1, h2]
  simp

/-- **Each member at most once per flush.** -/
theorem C17_flush_nodup (c : MC) (q : List MEv) (hc : c.latest = []) :
    ((runQuantum c q).2.map (·.name)).Nodup := by
  have h0 : LatestOK c.latest := by rw [hc]; exact LatestOK.nil
  obtain ⟨h1, _, _⟩ := fold_coalesce_latest q c h0
  rw [C17_flush_out c q hc]
  have hkeys : ((q.foldl coalesce c).latest.map (·.2)).map (·.name) = akeys (q.foldl coalesce c).latest := by
    simp only [akeys, List.map_map]
    apply List.map_congr_left
    intro p hp
    exact (h1.2 p hp).symm
  have hsub : (((q.foldl coalesce c).latest.map (·.2)).filter (fun e => !suppressed c.lastEvents e)).map (·.name)
      |>.Sublist (((q.foldl coalesce c).latest.map (·.2)).map (·.name)) := List.Sublist.map _ List.filter_sublist
  rw [hkeys] at hsub
  exact hsub.nodup h1.1

/-- **With the latest event received for it since the previous flush** — and hence
nothing for members without a new event. -/
theorem C17_flush_latest (c : MC) (q : List MEv) (hc : c.latest = []) (o : MEv)
    (ho : o ∈ (runQuantum c q).2) : lastFor q o.name = some o := by
  have h0 : LatestOK c.latest := by rw [hc]; exact LatestOK.nil
  obtain ⟨h1, _, h3⟩ := fold_coalesce_latest q c h0
  rw [C17_flush_out c q hc] at ho
  obtain ⟨hm, _⟩ := List.mem_filter.mp ho
  obtain ⟨p, hp, rfl⟩ := List.mem_map.mp hm
  have hl := alookup_of_mem_nodup h1.1 (k := p.1) (v := p.2) (by simpa using hp)
  rw [h3, hc] at hl
  simp only [alookup_nil] at hl
  rw [← h1.2 p hp]
  cases hf : lastFor q p.1 with
  | none => simp [hf] at hl
  | some e => simp [hf] at hl; rw [hl]

theorem C17_flush_only_new (c : MC) (q : List MEv) (hc : c.latest = []) (n : String)
    (hn : n ∉ q.map (·.name)) : n ∉ (runQuantum c q).2.map (·.name) := by
  intro h
  obtain ⟨o, ho, rfl⟩ := List.mem_map.mp h
  have := C17_flush_latest c q hc o ho
  exact hn (List.mem_map_of_mem (f := (·.name)) (lastFor_mem this))

/-- **Suppression rule.** The latest event `e` of a member is emitted iff it is not
of the same kind as the last one reported for that member, or is an update. -/
theorem C17_flush_iff (c : MC) (q : List MEv) (hc : c.latest = []) (n : String) (e : MEv)
    (he : lastFor q n = some e) :
    e ∈ (runQuantum c q).2 ↔ ¬ (alookup c.lastEvents n = some e.kind ∧ e.kind ≠ .update) := by
  have h0 : LatestOK c.latest := by rw [hc]; exact LatestOK.nil
  obtain ⟨h1, _, h3⟩ := fold_coalesce_latest q c h0
  have hname := lastFor_name he
  rw [C17_flush_out c q hc, List.mem_filter]
  have hmem : e ∈ (q.foldl coalesce c).latest.map (·.2) := by
    have hl : alookup (q.foldl coalesce c).latest n = some e := by rw [h3, he]; rfl
    exact List.mem_map.mpr ⟨(n, e), mem_of_alookup hl, rfl⟩
  simp only [hmem, true_and, suppressed, hname]
  constructor
  · intro h ⟨h1', h2'⟩
    simp [h1', h2'] at h
  · intro h
    by_cases h1' : alookup c.lastEvents n = some e.kind
    · have : e.kind = .update := by
        by_cases hk : e.kind = .update
        · exact hk
        · exact absurd ⟨h1', hk⟩ h
      simp [this]
    · simp [h1']

/-- What the application last saw for member `n` after one quantum. -/
theorem lastEvents_after_quantum (c : MC) (q : List MEv) (hc : c.latest = []) (n : String) :
    alookup (runQuantum c q).1.lastEvents n = ((lastFor q n).map (·.kind) <|> alookup c.lastEvents n) := by
  have h0 : LatestOK c.latest := by rw [hc]; exact LatestOK.nil
  obtain ⟨h1, h2, h3⟩ := fold_coalesce_latest q c h0
  simp only [runQuantum, flush]
  rw [flushLoop_last _ _ _ h1 n, h3, hc, h2]
  simp only [alookup_nil]
  cases hf : lastFor q n with
  | none => simp
  | some e =>
    have hname := lastFor_name hf
    by_cases hs : suppressed c.lastEvents e
    · have hs' := hs
      simp only [suppressed, Bool.and_eq_true, beq_iff_eq, hname] at hs'
      simp [hs, hs'.1]
    · simp [hs]

/-- **The kind the application last saw for each member equals the kind of the
latest event**, after any number of quanta split at any points. -/
theorem C17_app_sees_latest (quanta : List (List MEv)) : ∀ (c : MC), c.latest = [] → ∀ n,
    alookup (runQuanta c quanta).1.lastEvents n =
      ((lastFor quanta.flatten n).map (·.kind) <|> alookup c.lastEvents n) := by
  induction quanta with
  | nil => intro c _ n; simp [runQuanta, lastFor_nil]
  | cons q qs ih =>
    intro c hc n
    simp only [runQuanta, List.flatten_cons]
    rw [ih (runQuantum c q).1 (C17_flush_resets c q) n, lastEvents_after_quantum c q hc n, lastFor_append]
    cases lastFor qs.flatten n <;> cases lastFor q n <;> simp

/-- Starting from a new coalescer: the last-seen kind is exactly the kind of the
latest event of the whole history (and nothing for members never seen). -/
theorem C17_app_sees_latest_init (quanta : List (List MEv)) (n : String) :
    alookup (runQuanta {} quanta).1.lastEvents n = (lastFor quanta.flatten n).map (·.kind) := by
  rw [C17_app_sees_latest quanta {} rfl n]
  cases lastFor quanta.flatten n <;> simp

/-- The pending set is empty at the start of every quantum of a history. -/
theorem runQuanta_latest_nil (quanta : List (List MEv)) : ∀ (c : MC), c.latest = [] → (runQuanta c quanta).1.latest = [] := by
  induction quanta with
  | nil => intro c hc; simpa [runQuanta] using hc
  | cons q qs ih =>
    intro c _
    simp only [runQuanta]
    exact ih _ (C17_flush_resets c q)

/-- **Closed form over the whole history** (no hypothesis on the coalescer: it starts fresh).
After any earlier quanta `pre`, the latest event `e` of member `n` in the next quantum `q` is
reported at its flush iff its kind differs from the kind of the member's latest event in all of
`pre`, or it is an update.  Nothing else is ever reported for `n` at that flush
(`C17_flush_latest`, `C17_flush_nodup`). -/
theorem C17_history_report_iff (pre : List (List MEv)) (q : List MEv) (n : String) (e : MEv)
    (he : lastFor q n = some e) :
    e ∈ (runQuantum (runQuanta {} pre).1 q).2 ↔
      ¬ ((lastFor pre.flatten n).map (·.kind) = some e.kind ∧ e.kind ≠ .update) := by
  rw [C17_flush_iff _ q (runQuanta_latest_nil pre {} rfl) n e he, C17_app_sees_latest_init]

/-- … and every flush of every history reports each member at most once, with the latest event of
its quantum. -/
theorem C17_history_flush_sound (pre : List (List MEv)) (q : List MEv) :
    ((runQuantum (runQuanta {} pre).1 q).2.map (·.name)).Nodup ∧
    ∀ o ∈ (runQuantum (runQuanta {} pre).1 q).2, lastFor q o.name = some o :=
  ⟨C17_flush_nodup _ q (runQuanta_latest_nil pre {} rfl),
   fun o ho => C17_flush_latest _ q (runQuanta_latest_nil pre {} rfl) o ho⟩

-- C17_history_report_iff: a join after a join (in an earlier quantum) is not reported, an update is
example : (runQuantum (runQuanta {} [[⟨.join, "a", 1⟩], []]).1 [⟨.failed, "a", 2⟩, ⟨.join, "a", 3⟩, ⟨.update, "b", 4⟩]).2
    = [⟨.update, "b", 4⟩] := by decide

/-! ### Ties to serf/coalesce_member.go (regenerated on every run: extract/coalescers.go) -/

section SourceTies
open SerfModel.CoalesceShapes SerfModel.Gen.Coalescers

/-- **The loop body of `Flush`, interpreted.**  For one pending event the source's loop body —
guard translated and evaluated, actions `recordLast` (`lastEvents[name] = kind`) and `addToEvent`
— does exactly what the model's `flushLoop` does: nothing when `suppressed`, otherwise record the
kind and report the event.  Proved for every `lastEvents` and event, so a flipped guard with
swapped branches, `if !(…) { … }` instead of `continue`, a renamed variable or a reordering of the
two actions leaves it intact, and any change of the condition or of what is recorded breaks it. -/
theorem C17_flush_body_is_source_program (last : List (String × Kind)) (out : List MEv) (e : MEv) :
    runM memberFlushBody last out e =
      some (if suppressed last e then (last, out) else (ainsert last e.name e.kind, out ++ [e])) := by
  cases h : alookup last e.name with
  | none => simp [memberFlushBody, runM, Cond.eval, memberEnvB, memberEnvV, suppressed, h]
  | some k =>
    cases k <;> cases hk : e.kind <;>
      simp [memberFlushBody, runM, Cond.eval, memberEnvB, memberEnvV, kindOps, kindOfGo, suppressed, h, hk] <;>
      first | rfl | decide

/-- The guard alone, as a function of (`ok`, previous kind, pending kind). -/
theorem C17_suppress_cond_tie (previous cur : Kind) :
    runM memberFlushBody [("m", previous)] [] ⟨cur, "m", 0⟩ =
      some (if previous == cur && cur != .update then ([("m", previous)], [])
            else ([("m", cur)], [⟨cur, "m", 0⟩])) := by
  cases previous <;> cases cur <;> decide

/-- `Coalesce` ranges over the members of the event and stores each unconditionally under the
member's name, with the event's type and (a pointer to a copy of) the member: no early out, no look
at `lastEvents`, no merging with what is pending (`coalesce c e = ainsert … e.name e`). -/
theorem C17_coalesce_stores_unconditionally :
    memberCoalesceRange = "range p0.(MemberEvent).Members" ∧ memberCoalesceBody = .act "store" .done := by decide

/-- `Flush` as a whole: a fresh grouping map, ONE pass over `latestEvents`, every grouped event is
sent, and `latestEvents` is replaced by an empty map (`flush`'s `latest := []`). -/
theorem C17_flush_shape :
    memberFlushStmts =
      ["v0 := make(map[EventType]*MemberEvent)", "range r.latestEvents { BODY }", "range v0 { p0 <- *v0[*] }",
       "r.latestEvents = make(map[string]coalesceEvent)"] := by decide

/-- **`Handle`, interpreted**: true exactly for the five member event kinds, false for user events
and everything else (whatever the shape: separate cases, one case list, an if-chain). -/
theorem C17_handle_is_source_program :
    (∀ k : Kind, memberHandleProg.evalBool natOps (handleEnvB none) (handleEnvV (kindCode k)) = some true) ∧
    memberHandleProg.evalBool natOps (handleEnvB (some true)) (handleEnvV 5) = some false ∧
    memberHandleProg.evalBool natOps (handleEnvB none) (handleEnvV 6) = some false := by
  refine ⟨fun k => by cases k <;> rfl, rfl, rfl⟩

end SourceTies

-- Non-vacuity / regression witness: an update is re-reported only when a new one arrived.
example : (runQuanta {} [[⟨.join, "a", 1⟩, ⟨.update, "a", 2⟩, ⟨.join, "b", 1⟩], [], [⟨.update, "a", 3⟩, ⟨.join, "b", 4⟩]]).2
    = [[⟨.update, "a", 2⟩, ⟨.join, "b", 1⟩], [], [⟨.update, "a", 3⟩]] := by decide

end SerfProofs.C17
