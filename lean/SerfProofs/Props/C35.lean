/-
C35 — Query reply relays go to distinct eligible peers.

Model: `SerfModel.Relay` (serf/query.go `kRandomMembers`, `relayResponse`).  The
random source is an oracle list `picks`; every theorem is for ALL oracle lists,
all member lists (duplicates, every status, every protocol version, self
included) and all relay factors.
-/
import SerfProofs.Lemmas.Relay
import SerfModel.Gen.RelayGuard
import SerfModel.Gen.RelayFilter
namespace SerfProofs.C35
open SerfModel SerfModel.Relay SerfProofs.Relay

/-- The selection never returns more than `k` members, never two with the same
name, and only listed members that the filter does not reject — for every filter. -/
theorem C35_select_filter (k : Nat) (ms : List Member) (filt : Member → Bool) (picks : List Nat) :
    let r := kRandomMembers k ms filt picks
    r.length ≤ k ∧ (r.map (·.name)).Nodup ∧ ∀ m ∈ r, m ∈ ms ∧ filt m = false :=
  selectLoop_inv k ms filt (3 * ms.length) picks [] (inv_nil k ms filt)

/-- **Selection with the relay filter**: at most `k`, distinct names, each a listed
member that is alive, speaks protocol ≥ 5 and is not the node itself. -/
theorem C35_select (k : Nat) (ms : List Member) (picks : List Nat) (self : String) :
    let r := kRandomMembers k ms (ineligible self) picks
    r.length ≤ k ∧ (r.map (·.name)).Nodup ∧
      ∀ m ∈ r, m ∈ ms ∧ m.status = statusAlive ∧ 5 ≤ m.protoMax ∧ m.name ≠ self := by
  intro r
  obtain ⟨h1, h2, h3⟩ := C35_select_filter k ms (ineligible self) picks
  refine ⟨h1, h2, ?_⟩
  intro m hm
  obtain ⟨hin, hf⟩ := h3 m hm
  simp only [ineligible, Bool.or_eq_false_iff, bne_eq_false_iff_eq, decide_eq_false_iff_not,
    beq_eq_false_iff_ne, ne_eq] at hf
  exact ⟨hin, hf.1.1, by omega, hf.2⟩

/-- **Gate**: nothing is relayed when fewer than `k+1` members are known. -/
theorem C35_gate (k : Nat) (ms : List Member) (self : String) (picks : List Nat)
    (h : ms.length < k + 1) : relayTargets k ms self picks = [] := by
  simp [relayTargets, h]

/-- Relay factor 0 relays nothing. -/
theorem C35_zero (ms : List Member) (self : String) (picks : List Nat) :
    relayTargets 0 ms self picks = [] := by
  simp [relayTargets]

/-- **What `relayResponse` relays through**, for every member list, relay factor and
random choices. -/
theorem C35_relay (k : Nat) (ms : List Member) (picks : List Nat) (self : String) :
    (relayTargets k ms self picks).length ≤ k ∧
    ((relayTargets k ms self picks).map (·.name)).Nodup ∧
    (∀ m ∈ relayTargets k ms self picks,
        m ∈ ms ∧ m.status = statusAlive ∧ 5 ≤ m.protoMax ∧ m.name ≠ self) ∧
    (relayTargets k ms self picks ≠ [] → k + 1 ≤ ms.length) := by
  unfold relayTargets
  by_cases hk : k = 0
  · simp [hk]
  · by_cases hl : ms.length < k + 1
    · simp [hk, hl]
    · simp only [hk, hl, if_false]
      obtain ⟨h1, h2, h3⟩ := C35_select k ms picks self
      exact ⟨h1, h2, h3, fun _ => by omega⟩

/-- **The reply's destinations**: the origin exactly once, first, then at most `k`
relays (distinct, eligible, never the node itself — `C35_relay`). -/
theorem C35_sends (k : Nat) (ms : List Member) (picks : List Nat) (self : String) :
    (replySends k ms self picks).head? = some Dest.origin ∧
    (replySends k ms self picks).count Dest.origin = 1 ∧
    (replySends k ms self picks).length ≤ k + 1 := by
  obtain ⟨h1, _, _, _⟩ := C35_relay k ms picks self
  refine ⟨rfl, ?_, by simpa [replySends] using h1⟩
  simp only [replySends, List.count_cons_self]
  have : List.count Dest.origin ((relayTargets k ms self picks).map Dest.relay) = 0 := by
    rw [List.count_eq_zero]
    intro h
    obtain ⟨m, _, hm⟩ := List.mem_map.mp h
    exact Dest.noConfusion hm
  omega

/-- **The guard as it is in the source** (regenerated from serf/query.go on every run, Go integer typing
applied): relaying needs `k + 1` known members for EVERY relay factor a uint8 can hold — the addition
is carried out after the conversion to int and does not wrap at 255. -/
theorem C35_guard_gen : (∀ k, Gen.RelayGuard.minMembers k = k + 1) ∧ Gen.RelayGuard.zeroFactorReturns = true :=
  ⟨fun _ => rfl, rfl⟩

/-- … hence the gate/filter model the theorems above are about is the code's. -/
theorem C35_relay_gen (k : Nat) (ms : List Member) (self : String) (picks : List Nat) :
    relayTargetsG Gen.RelayGuard.minMembers Gen.RelayGuard.zeroFactorReturns k ms self picks =
      relayTargets k ms self picks := by
  unfold relayTargetsG relayTargets
  rw [C35_guard_gen.2]
  simp [C35_guard_gen.1]

/-- **The candidate filter as it is in the source** (regenerated table of atoms): a member is rejected
exactly when it is not alive, or its ProtocolMax is below 5, or it is the node itself — for every member
and every node name; and `StatusAlive` is the constant 1 the model uses. -/
theorem C35_filter_gen (self : String) (m : Member) :
    rejectedBy Gen.RelayFilter.rejectAtoms self m = ineligible self m := by
  simp [rejectedBy, Gen.RelayFilter.rejectAtoms, FilterAtom.holds, ineligible, statusAlive, Bool.or_assoc]

theorem C35_status_consts :
    Gen.RelayFilter.statusConsts =
      [("StatusNone", 0), ("StatusAlive", statusAlive), ("StatusLeaving", 2), ("StatusLeft", 3), ("StatusFailed", 4)] := by
  decide

/-- **The probe loop as it is in the source**: `3·n` probes, stops at `k` selected, filter before the
duplicate test, duplicates recognised by `Name` — the loop `selectLoop` transcribes; and the model's
`kRandomMembers` is the generated budget's. -/
theorem C35_select_shape_gen :
    Gen.RelayFilter.selectShape.asModelled = true ∧
    (∀ k ms filt picks, kRandomMembersG Gen.RelayFilter.selectShape.probeFactor k ms filt picks = kRandomMembers k ms filt picks) :=
  ⟨by decide, fun _ _ _ _ => rfl⟩

/-- The selection clauses do not depend on the probe budget: they hold for every factor. -/
theorem C35_select_any_budget (factor k : Nat) (ms : List Member) (filt : Member → Bool) (picks : List Nat) :
    (kRandomMembersG factor k ms filt picks).length ≤ k ∧
    ((kRandomMembersG factor k ms filt picks).map (·.name)).Nodup ∧
    ∀ m ∈ kRandomMembersG factor k ms filt picks, m ∈ ms ∧ filt m = false :=
  selectLoop_inv k ms filt (factor * ms.length) picks [] (inv_nil k ms filt)

/-- Regression witness: a filter that only rejects failed and left members (the table
`[.statusEq 4, .statusEq 3, .protoMaxLt 5, .nameIsSelf]`) lets a LEAVING member be chosen as relay. -/
theorem C35_filter_gone_only_counterexample :
    (kRandomMembers 1 [⟨"self", 1, 5, 0⟩, ⟨"a", 2, 5, 1⟩]
      (rejectedBy [.statusEq 4, .statusEq 3, .protoMaxLt 5, .nameIsSelf] "self") [1]).map (·.status) = [2] := by
  decide

/-- Regression witness: with the addition carried out in uint8 the gate is open at relay factor 255
(two members known, one relay chosen). -/
theorem C35_guard_uint8_wraps :
    (relayTargetsG (fun k => (k + 1) % 256) true 255 [⟨"self", 1, 5, 0⟩, ⟨"a", 1, 5, 1⟩] "self" [1]).map (·.tag) = [1] := by
  decide

-- Non-vacuity: a list with a duplicate name, a failed member, an old-protocol member
-- and the node itself; the oracle picks every index several times.
example :
    (relayTargets 2
      [⟨"self", 1, 5, 0⟩, ⟨"a", 1, 5, 1⟩, ⟨"a", 1, 5, 2⟩, ⟨"f", 4, 5, 3⟩, ⟨"old", 1, 4, 4⟩, ⟨"b", 1, 5, 5⟩]
      "self" [0, 3, 4, 2, 1, 2, 5, 1]).map (·.tag) = [2, 5] := by decide

-- the gate: two members known, relay factor 2 → nothing
example : relayTargets 2 [⟨"self", 1, 5, 0⟩, ⟨"a", 1, 5, 1⟩] "self" [1, 1, 1] = [] := by decide
-- … three known → relays
example : (relayTargets 2 [⟨"self", 1, 5, 0⟩, ⟨"a", 1, 5, 1⟩, ⟨"b", 1, 5, 2⟩] "self" [1, 0, 2]).map (·.tag) = [1, 2] := by decide

end SerfProofs.C35
