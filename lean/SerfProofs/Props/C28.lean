/-
C28 — The RPC client never panics and closes subscriber channels once.

Interleaving model `SerfModel.RpcClient` of the reader goroutine against `Stop` /
`Close`, with the atomicity of `Handle` / `Cleanup` given by the handler shapes
regenerated from client/rpc_client.go (`SerfModel.Gen.RpcClient`).
-/
import SerfModel.Model.RpcClient
import SerfModel.Gen.RpcClient
namespace SerfProofs.C28
open SerfModel.RpcClient

/-- Source-tied obligation: in the current tree all three stream handlers run
`Handle` and `Cleanup` under their own mutex, guard the send by `!closed`, and test
`closed` before closing. -/
theorem C28_skeleton_good : SerfModel.Gen.RpcClient.skeleton.good = true := by decide

/-- Per-subscriber invariant. -/
structure HInv (x : H) : Prop where
  noSendOnClosed : x.sendsOnClosed = 0
  chan : x.chanClosed = x.closed
  closes : x.closes = if x.closed then 1 else 0
  cleaned : x.cleaned = true → x.closed = true

theorem HInv.init : HInv {} := ⟨rfl, rfl, rfl, by simp⟩

theorem HInv.handle {x : H} (h : HInv x) : HInv (handleH x) := by
  unfold handleH
  split
  · exact ⟨h.1, h.2, h.3, h.4⟩
  · split
    · exact h
    · exact ⟨h.1, h.2, h.3, h.4⟩

theorem HInv.cleanup {x : H} (h : HInv x) : HInv (cleanupH x) := by
  unfold cleanupH
  split
  · rename_i hc
    exact ⟨h.1, h.2, h.3, fun _ => hc⟩
  · rename_i hc
    refine ⟨h.1, rfl, ?_, fun _ => rfl⟩
    have := h.3
    simp [hc] at this
    simp [this]

theorem HInv.undispatch {x : H} (h : HInv x) : HInv { x with inDispatch := false } := ⟨h.1, h.2, h.3, h.4⟩

def GoodMicro : Micro → Prop
  | .lookup _ | .handleAtomic _ | .dereg _ | .deregAll | .cleanupAtomic _ => True
  | _ => False

structure Inv (s : Sys) : Prop where
  hs : ∀ x ∈ s.hs, HInv x
  thr : ∀ th ∈ s.threads, ∀ m ∈ th.pend, GoodMicro m

theorem Inv.init (nH : Nat) (progs : List (List Op)) : Inv (Sys.init nH progs) := by
  constructor
  · intro x hx
    simp [Sys.init] at hx
    rw [hx.2]; exact HInv.init
  · intro th hth
    simp [Sys.init] at hth
    obtain ⟨p, _, rfl⟩ := hth
    simp

theorem mem_updH {hs : List H} {h : Nat} {f : H → H} {x : H} (hx : x ∈ updH hs h f) :
    x ∈ hs ∨ ∃ y ∈ hs, x = f y := by
  unfold updH at hx
  cases hg : hs[h]? with
  | none => simp [hg] at hx; exact Or.inl hx
  | some y =>
    simp [hg] at hx
    rcases List.mem_or_eq_of_mem_set hx with hm | rfl
    · exact Or.inl hm
    · exact Or.inr ⟨y, List.mem_of_getElem? hg, rfl⟩

theorem hs_updH {hs : List H} (hinv : ∀ x ∈ hs, HInv x) (h : Nat) (f : H → H) (hf : ∀ y, HInv y → HInv (f y)) :
    ∀ x ∈ updH hs h f, HInv x := by
  intro x hx
  rcases mem_updH hx with hm | ⟨y, hy, rfl⟩
  · exact hinv x hm
  · exact hf y (hinv y hy)

theorem good_steps_handle (h : Nat) : ∀ m ∈ handleSteps true h, GoodMicro m := by simp [handleSteps, GoodMicro]
theorem good_steps_cleanup (h : Nat) : ∀ m ∈ cleanupSteps true h, GoodMicro m := by simp [cleanupSteps, GoodMicro]

theorem step_inv (s : Sys) (t : Nat) (hinv : Inv s) : Inv (step true s t) := by
  unfold step
  cases hth : s.threads[t]? with
  | none => exact hinv
  | some th =>
    have hmem := List.mem_of_getElem? hth
    have hgood := hinv.thr th hmem
    -- generic re-assembly: new handler list satisfying HInv, new pend list of good micros
    have build : ∀ (p : List Micro) (hs' : List H), (∀ x ∈ hs', HInv x) → (∀ m ∈ p, GoodMicro m) →
        Inv { hs := hs', threads := s.threads.set t { th with pend := p } } := by
      intro p hs' h1 h2
      refine ⟨h1, ?_⟩
      intro th' hth' m hm
      rcases List.mem_or_eq_of_mem_set hth' with hm' | rfl
      · exact hinv.thr th' hm' m hm
      · exact h2 m hm
    simp only
    cases hp : th.pend with
    | nil =>
      cases htodo : th.todo with
      | nil => exact hinv
      | cons op rest =>
        have mk : ∀ (p : List Micro), (∀ m ∈ p, GoodMicro m) →
            Inv { s with threads := s.threads.set t { pend := p, todo := rest } } := by
          intro p h2
          refine ⟨hinv.hs, ?_⟩
          intro th' hth' m hm
          rcases List.mem_or_eq_of_mem_set hth' with hm' | rfl
          · exact hinv.thr th' hm' m hm
          · exact h2 m hm
        cases op with
        | record h => exact mk _ (by simp [GoodMicro])
        | stop h => exact mk _ (by simp [GoodMicro])
        | close => exact mk _ (by simp [GoodMicro])
    | cons m more =>
      have hmore : ∀ m' ∈ more, GoodMicro m' := fun m' hm' => hgood m' (by rw [hp]; exact List.mem_cons_of_mem _ hm')
      have hm0 : GoodMicro m := hgood m (by rw [hp]; exact List.mem_cons_self)
      cases m with
      | lookup h =>
        simp only
        cases hx : s.hs[h]? with
        | none => exact build _ _ hinv.hs hmore
        | some x =>
          simp only
          split
          · exact build _ _ hinv.hs (by
              intro m' hm'
              rcases List.mem_append.mp hm' with h1 | h1
              · exact good_steps_handle h m' h1
              · exact hmore m' h1)
          · exact build _ _ hinv.hs hmore
      | handleAtomic h => exact build _ _ (hs_updH hinv.hs h handleH fun y hy => hy.handle) hmore
      | handleRead h => exact absurd hm0 (by simp [GoodMicro])
      | handleSend h b => exact absurd hm0 (by simp [GoodMicro])
      | dereg h =>
        simp only
        cases hx : s.hs[h]? with
        | none => exact build _ _ hinv.hs hmore
        | some x =>
          simp only
          split
          · exact build _ _ (hs_updH hinv.hs h _ fun y hy => hy.undispatch) (by
              intro m' hm'
              rcases List.mem_append.mp hm' with h1 | h1
              · exact good_steps_cleanup h m' h1
              · exact hmore m' h1)
          · exact build _ _ hinv.hs hmore
      | deregAll =>
        refine build _ _ ?_ ?_
        · intro x hx
          obtain ⟨y, hy, rfl⟩ := List.mem_map.mp hx
          exact (hinv.hs y hy).undispatch
        · intro m' hm'
          rcases List.mem_append.mp hm' with h1 | h1
          · obtain ⟨i, _, hi⟩ := List.mem_flatMap.mp h1
            exact good_steps_cleanup i m' hi
          · exact hmore m' h1
      | cleanupAtomic h => exact build _ _ (hs_updH hinv.hs h cleanupH fun y hy => hy.cleanup) hmore
      | cleanupRead h => exact absurd hm0 (by simp [GoodMicro])
      | cleanupClose h => exact absurd hm0 (by simp [GoodMicro])
      | cleanupSet h => exact absurd hm0 (by simp [GoodMicro])

theorem run_inv (sched : List Nat) : ∀ s, Inv s → Inv (run true s sched) := by
  induction sched with
  | nil => intro s h; exact h
  | cons t rest ih => intro s h; exact ih _ (step_inv s t h)

/-- **No send on a closed subscriber channel, each channel closed at most once, and
exactly once when its handler was deregistered and cleaned up** — for any number of
subscribers, any reader/Stop/Close programs and every schedule, provided the
handlers have the extracted shape. -/
theorem C28_safe (sk : Skeleton) (hg : sk.good = true) (nH : Nat) (progs : List (List Op)) (sched : List Nat) :
    ∀ x ∈ (run sk.good (Sys.init nH progs) sched).hs,
      x.sendsOnClosed = 0 ∧ x.closes ≤ 1 ∧ (x.cleaned = true → x.closes = 1) := by
  rw [hg]
  intro x hx
  have h := (run_inv sched _ (Inv.init nH progs)).hs x hx
  refine ⟨h.1, ?_, ?_⟩
  · rw [h.3]; split <;> omega
  · intro hc; rw [h.3, h.4 hc]; rfl

/-- … instantiated at the regenerated skeleton of the current tree. -/
theorem C28_safe_current_tree (nH : Nat) (progs : List (List Op)) (sched : List Nat) :
    ∀ x ∈ (run SerfModel.Gen.RpcClient.skeleton.good (Sys.init nH progs) sched).hs,
      x.sendsOnClosed = 0 ∧ x.closes ≤ 1 ∧ (x.cleaned = true → x.closes = 1) :=
  C28_safe _ C28_skeleton_good nH progs sched

/-- Regression witness: with unsynchronised `Handle`/`Cleanup` (the shape before the
repair) a `Stop` between the reader's lookup and its send makes the reader send on a
closed channel — a process panic. -/
theorem C28_unlocked_sends_on_closed :
    let s := run false (Sys.init 1 [[.record 0, .record 0], [.stop 0]])
      [0, 0, 0, 0, 0, 0, 0, 1, 1, 1, 1, 0]
    s.hs.map (·.sendsOnClosed) = [1] := by decide

-- Non-vacuity: the same schedule under the good skeleton is safe and closes once.
example : (run true (Sys.init 1 [[.record 0, .record 0], [.stop 0]]) [0, 0, 0, 0, 0, 1, 1, 1, 0, 0]).hs.map
    (fun x => (x.sendsOnClosed, x.closes, x.cleaned)) = [(0, 1, true)] := by decide

/-- The regenerated shapes of `RPCClient.Close` and `deregisterAll`: one `shutdownLock` section containing the test
of `shutdown`, its assignment and the only `close(shutdownCh)`; the dispatch table is replaced by a fresh map under
`dispatchLock`. -/
theorem C28_close_shape :
    SerfModel.Gen.RpcClient.close.good = true ∧ SerfModel.Gen.RpcClient.deregisterAll.good = true := by decide

theorem closeRun_atomic_inv (sched : List Nat) : ∀ s : CS, s.closes = (if s.shutdown then 1 else 0) →
    (closeRun true s sched).closes = (if (closeRun true s sched).shutdown then 1 else 0) := by
  induction sched with
  | nil => intro s h; exact h
  | cons t rest ih =>
    intro s h
    have : closeRun true s (t :: rest) = closeRun true (closeStep true s t) rest := rfl
    rw [this]
    apply ih
    unfold closeStep
    by_cases hs : s.shutdown
    · simp [hs] at h ⊢; exact h
    · simp [hs] at h ⊢; omega

/-- **Any number of concurrent `Close` calls close `shutdownCh` at most once** (and exactly once as soon as one of
them ran), for every schedule — under the extracted shape. -/
theorem C28_close_once (sched : List Nat) :
    (closeRun SerfModel.Gen.RpcClient.close.good {} sched).closes ≤ 1 ∧
    (sched ≠ [] → (closeRun SerfModel.Gen.RpcClient.close.good {} sched).closes = 1) := by
  rw [C28_close_shape.1]
  have h := closeRun_atomic_inv sched {} rfl
  constructor
  · rw [h]; split <;> omega
  · intro hne
    cases sched with
    | nil => exact absurd rfl hne
    | cons t rest =>
      have h1 : closeRun true {} (t :: rest) = closeRun true (closeStep true {} t) rest := rfl
      have h2 : closeStep true {} t = { shutdown := true, closes := 1 } := by simp [closeStep]
      have h3 := closeRun_atomic_inv rest { shutdown := true, closes := 1 } rfl
      -- the flag never goes back to false
      have mono : ∀ (l : List Nat) (s : CS), s.shutdown = true → (closeRun true s l).shutdown = true := by
        intro l
        induction l with
        | nil => intro s hs; exact hs
        | cons a l ih =>
          intro s hs
          have : closeRun true s (a :: l) = closeRun true (closeStep true s a) l := rfl
          rw [this]; apply ih; simp [closeStep, hs]
      rw [h1, h2, h3, mono rest _ rfl]; rfl

/-- Regression witness: when the test and the update are not one critical section (check under a read lock, act
later), two racing `Close` calls both close the channel — a process panic. -/
theorem C28_split_close_closes_twice :
    (closeRun false { pending := [false, false] } [0, 1, 0, 1]).closes = 2 := by decide

end SerfProofs.C28
