/-
C24 — RPC commands take effect only after handshake and authentication.

Model: `SerfModel.IpcGate` (cmd/serf/command/agent/ipc.go: handleClient,
handleRequest, handleHandshake, handleAuth and the request decoding of every other
handler).  The input of a connection is the sequence of msgpack OBJECTS the client
writes; the msgpack decoder is a parameter `cd : Codec Obj`, so every theorem holds
for every decoder behaviour (absent fields keeping their previous value in the
reused header variable, arrays decoded positionally, nil zeroing the struct, …),
every agent key and every object sequence — including bodies that are decoded as
headers after an auth rejection, truncated input and bodies valid for another command.
-/
import SerfProofs.Lemmas.IpcGate
import SerfModel.Gen.IpcGate
namespace SerfProofs.C24
open SerfModel SerfModel.IpcGate SerfProofs.IpcGate

/-- The scan form of the property holds for every object sequence. -/
theorem C24_scan {Obj : Type} (cd : Codec Obj) (key : String) (objs : List Obj) :
    gateOK (key != "") false false (run cd key objs) = true :=
  runFrom_gate cd key objs {} false false (inv_init key)

theorem isHandshakeOk_eq (x : Out) (h : x.isHandshakeOk = true) : x = .handshakeOk := by
  cases x <;> simp [Out.isHandshakeOk] at h ⊢

/-- Only the configured key is ever accepted. -/
theorem C24_auth_only_with_key {Obj : Type} (cd : Codec Obj) (key : String) (objs : List Obj) (s : St)
    (p : String) (h : Out.auth p true ∈ (runFrom cd key s objs).2) : p = key := by
  induction objs generalizing s with
  | nil => simp [runFrom] at h
  | cons o rest ih =>
    simp only [runFrom, List.mem_append] at h
    rcases h with h | h
    · unfold step at h
      split at h
      · simp at h
      · split at h
        · split at h
          · simp at h
          · unfold onHeader at h
            simp only [] at h
            repeat' split at h
            all_goals simp at h
        · unfold onBody at h
          simp only [] at h
          repeat' split at h
          all_goals simp at h
          · rename_i hk
            obtain ⟨rfl⟩ := h
            simpa using hk
    · exact ih _ h

/-- **C24, gate.**  For every decoder, key and object sequence: whatever takes effect
or returns data (anything except an error/plain reply and the handshake itself) is
preceded by a successful handshake; and when a key is configured, every command
effect and every reply carrying data is preceded by an authentication that
presented exactly the configured key. -/
theorem C24_gate {Obj : Type} (cd : Codec Obj) (key : String) (objs : List Obj)
    (pre post : List Out) (o : Out) (h : run cd key objs = pre ++ o :: post) :
    (o.isEffect = true → Out.handshakeOk ∈ pre) ∧
    (key ≠ "" → o.isGuarded = true → Out.auth key true ∈ pre) := by
  have hscan := C24_scan cd key objs
  rw [h] at hscan
  obtain ⟨h1, h2⟩ := gateOK_split _ pre post o false false hscan
  constructor
  · intro ho
    rcases h1 ho with h1 | ⟨x, hx, hxe⟩
    · cases h1
    · rw [← isHandshakeOk_eq x hxe]; exact hx
  · intro hk ho
    rcases h2 ho (by simpa using hk) with h2 | ⟨x, hx, hxe⟩
    · cases h2
    · cases x with
      | auth p ok =>
        simp [Out.isAuthOk] at hxe
        subst hxe
        have hmem : Out.auth p true ∈ (runFrom cd key {} objs).2 := by
          show Out.auth p true ∈ run cd key objs
          rw [h]; simp [hx]
        rw [C24_auth_only_with_key cd key objs {} p hmem] at hx
        exact hx
      | _ => simp [Out.isAuthOk] at hxe

theorem runFrom_append {Obj : Type} (cd : Codec Obj) (key : String) (a b : List Obj) (s : St) :
    runFrom cd key s (a ++ b) =
      ((runFrom cd key (runFrom cd key s a).1 b).1, (runFrom cd key s a).2 ++ (runFrom cd key (runFrom cd key s a).1 b).2) := by
  induction a generalizing s with
  | nil => simp [runFrom]
  | cons o a ih => simp [runFrom, ih, List.append_assoc]

/-- **C24, rejected commands get an error reply.**  Whenever an object is decoded as
a request header `h` while the gate rejects it (no handshake yet, or key configured
and not yet authenticated), the connection's only reaction to that object is the
error reply carrying `h.seq` — nothing takes effect, no data — and the reply is part
of the connection's output. -/
theorem C24_rejected_reply {Obj : Type} (cd : Codec Obj) (key : String) (pre post : List Obj) (o : Obj)
    (h : Hdr) (e : Err)
    (hopen : (stateAfter cd key pre).closed = false) (hmode : (stateAfter cd key pre).mode = .header)
    (hdec : cd.hdr (stateAfter cd key pre).hdr o = some h)
    (hrej : rejects key (stateAfter cd key pre) h = some e) :
    (step cd key (stateAfter cd key pre) o).2 = [.reply h.seq e false] ∧ e ≠ .ok ∧
    Out.reply h.seq e false ∈ run cd key (pre ++ o :: post) := by
  have hstep : (step cd key (stateAfter cd key pre) o).2 = [.reply h.seq e false] ∧ e ≠ .ok := by
    unfold step
    simp only [hopen, hmode, hdec]
    unfold rejects at hrej
    unfold onHeader
    simp only []
    split at hrej
    · rename_i hc
      simp only [hc, if_true]
      injection hrej with hrej
      subst hrej
      simp
    · rename_i hc
      split at hrej
      · rename_i hc2
        simp only [hc, hc2, if_true]
        injection hrej with hrej
        subst hrej
        simp
      · cases hrej
  refine ⟨hstep.1, hstep.2, ?_⟩
  unfold run
  rw [runFrom_append]
  simp only [runFrom, List.mem_append]
  right; left
  have : (step cd key (runFrom cd key {} pre).1 o).2 = [.reply h.seq e false] := hstep.1
  rw [this]; simp

/-- After the handshake gate (or any decode error) closed the connection nothing more happens. -/
theorem C24_closed_silent {Obj : Type} (cd : Codec Obj) (key : String) (objs : List Obj) (s : St)
    (hc : s.closed = true) : runFrom cd key s objs = (s, []) := by
  induction objs with
  | nil => simp [runFrom]
  | cons o rest ih => simp [runFrom, step, hc, ih]

/-- **C24, plain reading.**  A non-error reply — and any reply carrying data — is preceded by a
successful handshake; when a key is configured, the non-error reply of any command other than
handshake/auth (and any data) is preceded by an authentication with exactly that key.  So before the
handshake (and the key) a client sees error replies only. -/
theorem C24_replies_before_gates_are_errors {Obj : Type} (cd : Codec Obj) (key : String) (objs : List Obj)
    (pre post : List Out) (seq : Nat) (e : Err) (d : Bool) (h : run cd key objs = pre ++ Out.reply seq e d :: post) :
    ((e = .ok ∨ e = .handler ∨ d = true) → Out.handshakeOk ∈ pre) ∧
    (key ≠ "" → (e = .handler ∨ d = true) → Out.auth key true ∈ pre) := by
  obtain ⟨h1, h2⟩ := C24_gate cd key objs pre post _ h
  constructor
  · intro hc
    apply h1
    rcases hc with rfl | rfl | rfl <;> simp [Out.isEffect]
  · intro hk hc
    apply h2 hk
    rcases hc with rfl | rfl <;> simp [Out.isGuarded]

/-! ### Tie to the source: regenerated shapes of ipc.go (`Gen/IpcGate.lean`)

Each obligation connects a fact extracted from the current source with the corresponding
parameter of the hand model; an edit of the gate conditions, of what a gate replies or whether it
closes the connection, of the order of checks in `handleHandshake` (seeded C24-a), of the key
comparison in `handleAuth` (seeded C24-b), of the version constants or of the dispatch table
breaks one of them. -/

/-- the two gates of `handleRequest`: condition text, error replied, and that the handshake gate
closes the connection (`onHeader`: `closed := true`) while the auth gate does not; unknown
commands are answered and the connection closed -/
theorem C24_src_gates :
    Gen.IpcGate.handshakeGate = canonicalHandshakeGate ∧ Gen.IpcGate.authGate = canonicalAuthGate ∧
    Gen.IpcGate.unknownCommand = ("Unsupported command", true) ∧
    Gen.IpcGate.handshakeCommand = "handshake" ∧ Gen.IpcGate.authCommand = "auth" := by decide

/-- MinIPCVersion / MaxIPCVersion are the model's constants -/
theorem C24_src_versions :
    Gen.IpcGate.minIPCVersion = IpcGate.minIPCVersion ∧ Gen.IpcGate.maxIPCVersion = IpcGate.maxIPCVersion := by decide

/-- `handleHandshake` checks the version range, then the duplicate, and assigns `client.version`
only in the final else; `handleAuth` compares the whole key with `==`: the extracted chains denote
the `good` shape -/
theorem C24_src_shape : shapeOf Gen.IpcGate.handshakeChain Gen.IpcGate.authChain = good := by decide

/-- `client.version` and `client.didAuth` are written exactly once in ipc.go (in those two branches) -/
theorem C24_src_state_writes : Gen.IpcGate.versionWrites = 1 ∧ Gen.IpcGate.didAuthWrites = 1 := by decide

/-- the dispatch switch agrees with the model's `cmdInfo` (which handler reads a body, which sends one) -/
theorem C24_src_dispatch :
    dispatchAgrees Gen.IpcGate.dispatch = true ∧ Gen.IpcGate.membersBodyGuard = "$command == \"members-filtered\"" := by decide

theorem onBodyV_good {Obj : Type} (cd : Codec Obj) (key : String) (s : St) (o : Obj) :
    onBodyV good cd key s o = onBody cd key s o := by
  simp [onBodyV, onBody, good, keyMatches]

theorem runFromV_good {Obj : Type} (cd : Codec Obj) (key : String) (objs : List Obj) (s : St) :
    runFromV good cd key s objs = runFrom cd key s objs := by
  induction objs generalizing s with
  | nil => simp [runFromV, runFrom]
  | cons o r ih =>
    have hstep : stepV good cd key s o = step cd key s o := by simp [stepV, step, onBodyV_good]
    simp [runFromV, runFrom, hstep, ih]

/-- **C24 for the shape the source has**: the gate property for the variant model instantiated
with the shapes extracted from the current ipc.go. -/
theorem C24_gate_for_source_shape {Obj : Type} (cd : Codec Obj) (key : String) (objs : List Obj) :
    gateOK (key != "") false false
      (runV (shapeOf Gen.IpcGate.handshakeChain Gen.IpcGate.authChain) cd key objs) = true := by
  rw [C24_src_shape]
  simp only [runV, runFromV_good]
  exact C24_scan cd key objs

/-! ### Non-vacuity: a tiny decoder where an object is a (string, number) pair -/

def toy : Codec (String × Nat) where
  hdr := fun prev o => some { cmd := if o.1 == "" then prev.cmd else o.1, seq := o.2 }
  version := fun o => some o.2
  authKey := fun o => some o.1
  body := fun _ o => some o.1

/-- handshake, a rejected `event` whose body `("leave", 9)` is then decoded as a header and
rejected too, a wrong key, the right key, then `leave` takes effect. -/
example : run toy "k" [("handshake", 1), ("x", 1), ("event", 2), ("leave", 9), ("auth", 3), ("bad", 0),
      ("auth", 4), ("k", 0), ("leave", 5)] =
    [.handshakeOk, .reply 1 .ok false, .reply 2 .authRequired false, .reply 9 .authRequired false,
     .auth "bad" false, .reply 3 .invalidToken false, .auth "k" true, .reply 4 .ok false,
     .effect "leave" "", .reply 5 .handler false] := by decide

/-- before the handshake: one error reply, connection closed -/
example : run toy "" [("event", 7), ("n", 0), ("handshake", 1), ("x", 1)] = [.reply 7 .handshakeRequired false] := by
  decide

/-- the hypotheses of `C24_rejected_reply` are satisfiable -/
example : (stateAfter toy "k" [("handshake", 1), ("x", 1)]).closed = false ∧
    (stateAfter toy "k" [("handshake", 1), ("x", 1)]).mode = .header ∧
    rejects "k" (stateAfter toy "k" [("handshake", 1), ("x", 1)]) ⟨"event", 2⟩ = some .authRequired := by decide

/-- the premise of `C24_gate` is met with a guarded element -/
example : ∃ pre post, run toy "k" [("handshake", 1), ("x", 1), ("auth", 4), ("k", 0), ("stats", 5)] =
    pre ++ Out.effect "stats" "" :: post ∧ (Out.effect "stats" "").isGuarded = true :=
  ⟨[.handshakeOk, .reply 1 .ok false, .auth "k" true, .reply 4 .ok false], [.reply 5 .handler true], by decide, rfl⟩

/-- `C24_replies_before_gates_are_errors` has instances with a non-error reply -/
example : ∃ pre post, run toy "k" [("handshake", 1), ("x", 1), ("auth", 4), ("k", 0), ("stats", 5)] =
    pre ++ Out.reply 5 .handler true :: post :=
  ⟨[.handshakeOk, .reply 1 .ok false, .auth "k" true, .reply 4 .ok false, .effect "stats" ""], [], by decide⟩

/-- **Regression witness (seeded C24-a)**: if `client.version` is assigned before the range check,
a handshake rejected for version 2 opens the gate — `stats` is executed and answered with data
without any successful handshake. -/
theorem C24_assign_before_check_counterexample :
    runV { hsAssignBeforeRangeCheck := true } toy "" [("handshake", 1), ("x", 2), ("stats", 5)] =
      [.reply 1 .unsupportedVersion false, .effect "stats" "", .reply 5 .handler true] ∧
    gateOK false false false
      (runV { hsAssignBeforeRangeCheck := true } toy "" [("handshake", 1), ("x", 2), ("stats", 5)]) = false := by decide

/-- **Regression witness (seeded C24-b)**: if the presented key is compared over its own length
only, the proper prefix "sek" of the key "sekret" authenticates. -/
theorem C24_prefix_key_counterexample :
    Out.auth "sek" true ∈ runV { authPrefixMatch := true } toy "sekret"
      [("handshake", 1), ("x", 1), ("auth", 3), ("sek", 0), ("stats", 5)] ∧
    Out.effect "stats" "" ∈ runV { authPrefixMatch := true } toy "sekret"
      [("handshake", 1), ("x", 1), ("auth", 3), ("sek", 0), ("stats", 5)] := by decide

/-- on the same inputs the source's shape rejects -/
example : runV good toy "" [("handshake", 1), ("x", 2), ("stats", 5)] =
    [.reply 1 .unsupportedVersion false, .reply 5 .handshakeRequired false] := by decide

example : runV good toy "sekret" [("handshake", 1), ("x", 1), ("auth", 3), ("sek", 0), ("stats", 5)] =
    [.handshakeOk, .reply 1 .ok false, .auth "sek" false, .reply 3 .invalidToken false, .reply 5 .authRequired false] := by decide

end SerfProofs.C24
