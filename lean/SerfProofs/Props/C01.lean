/-
C01 — Membership views converge after faults heal.   (claimed PARTIALLY)

What is claimed: Serf adds no divergence on top of a truthful memberlist and completed
anti-entropy; memberlist's own convergence (after the network heals every running node's
memberlist reports exactly the running nodes as alive and has reported each stopped node down,
and push/pull keeps running) is ASSUMED and sampled on real clusters by harness/c01.go.

Model: `SerfModel.Node` (serf/serf.go, serf/delegate.go): one node's membership state machine.
The theorems are OBSERVER-LOCAL: one observer node, one subject `x` other than the observer, and
EVERY history of inputs at the observer (`run n ops`: memberlist notifications, gossip intents,
push/pull merges, local Leave / force-leave, the reaper, …).  A history is summarised, about
`x`, by (`SerfProofs.NodeObserver`)
  `leaveTimes ops x`   the Lamport times of the leave claims about `x` it delivers (gossip
                       leaves, and the artificial leave a merge creates for a member the remote
                       side lists as left, at `StatusLTimes[x] + 1`),
  `joinTimes ops x`    the times of the join intents about `x` it delivers (gossip joins, merge
                       entries for a member not listed as left),
  `lastUp x ops false` the last memberlist notification about `x` was NotifyJoin,
  `KeptAlong n ops x`  no input erases `x` or drops / lowers its buffered intent (no accepted
                       prune about `x`, the reaper does not reap `x` nor its buffered intent),
  `NoForceLeave ops x` the observer's operator does not force-leave `x`.

Proved here (thin wrappers over `SerfProofs.NodeObserver`):
  (i)   `C01_running_alive_partial`   a member that memberlist reports up, that is not erased,
        and about which every leave claim delivered is strictly older than some join intent
        delivered, is listed as alive — for every history at a new observer;
  (ii)  `C01_left_stays_left`, `C01_left_after_leave_and_down`   a member that left gracefully
        (newer leave claim, then memberlist's down notification) is listed as left, and left is
        absorbing until memberlist announces the member anew;
  (iii) `C01_crashed_failed`, `C01_forceleft_left`, `C01_newer_leave_left`   a member that
        memberlist reports down without a leave claim is listed as failed and stays failed; a
        force-leave (or any newer leave claim) turns failed into left.
So two observers that satisfy the same hypotheses list `x` with the same status.

The hypothesis of (i) "every leave claim is strictly older than some join intent" excludes
exactly two recorded defects:
  * the tie `rejoined-stuck-leaving`: a restarted member's join intent carries the same Lamport
    time as the artificial leave a merge creates from a stale LeftMembers entry, so the join is
    not newer and the member stays leaving (`C01_running_alive_counterexample` below;
    counterexample `C02_rejoined_stuck_leaving_counterexample` in Props/C02.lean);
  * the silently adopted claim (`C02_agreement_partial_merge_adopts_silently` in Props/C02.lean):
    a claim about the running local node adopted through a merge is never refuted, so no newer
    join intent is ever produced.
Core Lean only.
-/
import SerfProofs.Lemmas.NodeObserver
import SerfProofs.Props.C15
import SerfProofs.Lemmas.ClusterSync
namespace SerfProofs.C01
open SerfModel SerfModel.Node SerfProofs.NodeGossip SerfProofs.NodeObserver

/-! ### (i) a running member is listed as alive -/

/-- For EVERY history at a new observer: if the last memberlist notification about `x` is a
join, `x` is not erased, the observer's operator does not force-leave `x`, and every leave claim
about `x` delivered to the observer (by gossip, or created by a merge from a LeftMembers entry) is
strictly older than some join intent about `x` delivered to it, the observer lists `x` as alive. -/
theorem C01_running_alive_partial (name : Name) (cfg : Config) (ops : List Op) (x : Name) (hx : x ≠ name)
    (hk : KeptAlong (Node.init name cfg) ops x) (hf : NoForceLeave ops x)
    (hup : lastUp x ops false = true)
    (hnewer : ∀ l ∈ leaveTimes ops x, ∃ j ∈ joinTimes ops x, l < j) :
    statusOf (run (Node.init name cfg) ops) x = some .alive :=
  observer_alive name cfg ops x hx hk hf hup hnewer

/-- the same from any observer state that holds nothing about `x` yet (no record, no buffered intent) -/
theorem C01_running_alive_partial_from (n : Node) (ops : List Op) (x : Name) (hx : x ≠ n.name)
    (hk0 : known n x = false) (hi0 : intentOf n x = none)
    (hk : KeptAlong n ops x) (hf : NoForceLeave ops x)
    (hup : lastUp x ops false = true)
    (hnewer : ∀ l ∈ leaveTimes ops x, ∃ j ∈ joinTimes ops x, l < j) :
    statusOf (run n ops) x = some .alive :=
  observer_alive_from n ops x hx hk0 hi0 hk hf hup hnewer

/-- A history about "x": a leave claim (3) and a join intent (4) arrive before memberlist
announces "x"; it leaves at 5, goes down, restarts and is announced again; a merge with a peer
that still lists it as left creates a leave claim at 6; its new join intent carries 7. -/
def aliveHistory : List Op :=
  [.leaveMsg "x" 3 false 0, .joinMsg "x" 4 0, .nodeJoin "x", .leaveMsg "x" 5 false 0, .nodeLeave "x" 1,
   .reap 2 (fun _ t => t), .nodeJoin "x", .merge 9 [("x", 5), ("y", 2)] ["x"] 0, .joinMsg "x" 7 0,
   .merge 9 [("x", 7)] [] 0]

-- Witness: the hypotheses hold for that history (leave claims 3, 5, 6; join intents 4, 7, 7).
example : "x" ≠ "a" ∧ KeptAlong (Node.init "a" {}) aliveHistory "x" ∧ NoForceLeave aliveHistory "x" ∧
    lastUp "x" aliveHistory false = true ∧
    leaveTimes aliveHistory "x" = [3, 5, 6] ∧ joinTimes aliveHistory "x" = [4, 7, 7] ∧
    (∀ l ∈ leaveTimes aliveHistory "x", ∃ j ∈ joinTimes aliveHistory "x", l < j) :=
  ⟨by decide, keptAlong_of_B _ _ _ (by decide), by simp [NoForceLeave, aliveHistory], by decide, by decide,
    by decide, by decide⟩

/-! ### (ii) a member that left is listed as left -/

/-- left is absorbing: whatever arrives (gossip, merges, force-leave, down notifications, reaper
ticks that do not reap it), a left member stays left until memberlist announces it anew -/
theorem C01_left_stays_left (n : Node) (ops : List Op) (x : Name) (h : statusOf n x = some .left)
    (hj : ∀ op ∈ ops, op ≠ .nodeJoin x) (hk : KeptAlong n ops x) : statusOf (run n ops) x = some .left :=
  left_stays_left n ops x h hj hk

/-- A run used by the witnesses: "x" joins, announces its leave at Lamport time 5, goes down. -/
def leftDemo : Node :=
  run (Node.init "a" {}) [.nodeJoin "x", .leaveMsg "x" 5 false 0, .nodeLeave "x" 1]

-- Witness: stale and newer joins, a newer leave, a merge, a force-leave, a reaper tick that is too early.
example : statusOf leftDemo "x" = some .left ∧
    (∀ op ∈ [Op.joinMsg "x" 9 0, .leaveMsg "x" 11 false 0, .merge 20 [("x", 14)] [] 0, .forceLeave "x" false 0,
        .reap 3 (fun _ t => t), .nodeLeave "x" 2], op ≠ .nodeJoin "x") ∧
    KeptAlong leftDemo [.joinMsg "x" 9 0, .leaveMsg "x" 11 false 0, .merge 20 [("x", 14)] [] 0, .forceLeave "x" false 0,
        .reap 3 (fun _ t => t), .nodeLeave "x" 2] "x" :=
  ⟨by decide, by simp, keptAlong_of_B _ _ _ (by decide)⟩

/-- graceful leave: a newer leave claim about an up member, then anything except a memberlist
notification about `x` or a join intent newer than the claim, then memberlist's down
notification: the member is listed as left -/
theorem C01_left_after_leave_and_down (n : Node) (x : Name) (L t w at_ : Nat) (mid : List Op) (hx : x ≠ n.name)
    (hs : statusOf n x = some .alive ∨ statusOf n x = some .leaving) (ht : ltimeOf n x = some t) (hL : t < L)
    (hmid1 : ∀ op ∈ mid, op ≠ .nodeJoin x ∧ ∀ a, op ≠ .nodeLeave x a)
    (hmid2 : ∀ j ∈ joinTimes mid x, j ≤ L)
    (hk : KeptAlong (step n (.leaveMsg x L false w)).1 mid x) :
    statusOf (run n ([.leaveMsg x L false w] ++ mid ++ [.nodeLeave x at_])) x = some .left :=
  leave_then_down_left n x L t w at_ mid hx hs ht hL hmid1 hmid2 hk

/-- The observer after memberlist announced "x". -/
def upDemo : Node := run (Node.init "a" {}) [.nodeJoin "x"]

-- Witness: between the claim at 5 and the down notification: a stale join, a merge that repeats
-- the claim, another member joining, a reaper tick.
example : "x" ≠ upDemo.name ∧ statusOf upDemo "x" = some .alive ∧ ltimeOf upDemo "x" = some 0 ∧ (0 : Nat) < 5 ∧
    (∀ op ∈ [Op.joinMsg "x" 4 0, .merge 9 [("x", 4)] ["x"] 0, .nodeJoin "y", .reap 1 (fun _ t => t)],
      op ≠ .nodeJoin "x" ∧ ∀ a, op ≠ .nodeLeave "x" a) ∧
    (∀ j ∈ joinTimes [Op.joinMsg "x" 4 0, .merge 9 [("x", 4)] ["x"] 0, .nodeJoin "y", .reap 1 (fun _ t => t)] "x", j ≤ 5) ∧
    KeptAlong (step upDemo (.leaveMsg "x" 5 false 0)).1
      [.joinMsg "x" 4 0, .merge 9 [("x", 4)] ["x"] 0, .nodeJoin "y", .reap 1 (fun _ t => t)] "x" :=
  ⟨by decide, by decide, by decide, by decide, by simp, by decide, keptAlong_of_B _ _ _ (by decide)⟩

/-! ### (iii) a member that crashed is listed as failed; force-leave makes it left -/

/-- memberlist reports an alive member down: it is listed as failed, and stays failed while
memberlist does not announce it anew and no leave / force-leave claim about it arrives -/
theorem C01_crashed_failed (n : Node) (ops : List Op) (x : Name) (at_ : Nat) (hx : x ≠ n.name)
    (h : statusOf n x = some .alive)
    (hj : ∀ op ∈ ops, op ≠ .nodeJoin x) (hl : ∀ op ∈ ops, isLeaveClaimAbout x op = false)
    (hk : KeptAlong (step n (.nodeLeave x at_)).1 ops x) :
    statusOf (run n ([.nodeLeave x at_] ++ ops)) x = some .failed := by
  show statusOf (run (step n (.nodeLeave x at_)).1 ops) x = some .failed
  apply failed_stays_failed _ ops x _ ((down_step n x at_).1 h) hj hl hk
  rw [step_name]; exact hx

-- Witness: after the crash: joins (stale and newer), a merge that does not list "x" as left, a
-- repeated down notification, a leave claim about somebody else, a reaper tick that is too early.
example : "x" ≠ upDemo.name ∧ statusOf upDemo "x" = some .alive ∧
    (∀ op ∈ [Op.joinMsg "x" 3 0, .merge 9 [("x", 4)] ["y"] 0, .nodeLeave "x" 2, .leaveMsg "y" 7 false 0,
        .reap 5 (fun _ t => t)], op ≠ .nodeJoin "x") ∧
    (∀ op ∈ [Op.joinMsg "x" 3 0, .merge 9 [("x", 4)] ["y"] 0, .nodeLeave "x" 2, .leaveMsg "y" 7 false 0,
        .reap 5 (fun _ t => t)], isLeaveClaimAbout "x" op = false) ∧
    KeptAlong (step upDemo (.nodeLeave "x" 1)).1 [.joinMsg "x" 3 0, .merge 9 [("x", 4)] ["y"] 0, .nodeLeave "x" 2,
        .leaveMsg "y" 7 false 0, .reap 5 (fun _ t => t)] "x" :=
  ⟨by decide, by decide, by simp, by decide, keptAlong_of_B _ _ _ (by decide)⟩

/-- a failed member that the operator force-leaves (RemoveFailedNode: the claim carries the
local Lamport clock) is listed as left -/
theorem C01_forceleft_left (n : Node) (x : Name) (t w : Nat) (h : statusOf n x = some .failed)
    (hx : x ≠ n.name) (ht : ltimeOf n x = some t) (hlt : t < n.clock) :
    statusOf (step n (.forceLeave x false w)).1 x = some .left :=
  failed_forceleft_left n x t w h hx ht hlt

/-- and so is a failed member about which a newer leave claim arrives by gossip (the force-leave
of another node) -/
theorem C01_newer_leave_left (n : Node) (x : Name) (t lt w : Nat) (h : statusOf n x = some .failed)
    (hx : x ≠ n.name) (ht : ltimeOf n x = some t) (hlt : t < lt) :
    statusOf (step n (.leaveMsg x lt false w)).1 x = some .left :=
  failed_newer_leave_left n x t lt w h hx ht hlt

/-- The observer after "x" joined and crashed. -/
def failedDemo : Node := run (Node.init "a" {}) [.nodeJoin "x", .nodeLeave "x" 1]

example : statusOf failedDemo "x" = some .failed ∧ "x" ≠ failedDemo.name ∧ ltimeOf failedDemo "x" = some 0 ∧
    0 < failedDemo.clock ∧ (0 : Nat) < 3 := by decide

/-! ### the hypothesis of (i) is needed -/

/-- the tie `rejoined-stuck-leaving`: "x" left at Lamport time 5 and restarted; memberlist
announces it; a merge with a peer that still lists "x" as left (status time 5) creates a leave
claim at 6; the restarted member's own join intent also carries 6, is not newer, and changes
nothing: the observer lists a running member as leaving -/
theorem C01_running_alive_counterexample :
    statusOf (run (Node.init "a" {}) [.nodeJoin "x", .leaveMsg "x" 5 false 0, .nodeLeave "x" 0, .nodeJoin "x",
      .merge 6 [("x", 5)] ["x"] 0, .joinMsg "x" 6 0]) "x" = some .leaving := by decide

/-! ### the reaper lists never cost a running member its entry

A member that memberlist reports up is listed alive or leaving, hence (bookkeeping invariant, C15)
on neither reaper list, hence never erased by the reaper — after EVERY history, in particular after
failed → left (force-leave) → rejoin, where `handleNodeJoin` must scrub BOTH lists (seeded change
C01-a scrubs only one and the rejoined member is reaped while alive). -/

theorem C01_alive_never_reaped (name : Name) (cfg : Config) (ops : List Op) (x : Name) (now : Nat)
    (ov : Name → Nat → Nat)
    (hs : statusOf (run (Node.init name cfg) ops) x = some .alive ∨ statusOf (run (Node.init name cfg) ops) x = some .leaving) :
    statusOf (step (run (Node.init name cfg) ops) (.reap now ov)).1 x = statusOf (run (Node.init name cfg) ops) x := by
  have h := SerfProofs.C15.C15_reaper_spares_unlisted _ now ov
    (SerfProofs.C15.C15_inv_run _ ops (SerfProofs.C15.C15_inv_init name cfg)) x hs
  simp only [step, statusOf, h]

/-- the C01-a history: x fails, is force-left (failed → left), comes back, and survives every later reaper tick -/
example : statusOf (run (Node.init "a" {}) [.nodeJoin "x", .nodeLeave "x" 0, .leaveMsg "x" 4 false 0,
    .nodeJoin "x", .reap 100000 (fun _ t => t), .reap 200000 (fun _ _ => 0)]) "x" = some .alive := by decide
example : (run (Node.init "a" {}) [.nodeJoin "x", .nodeLeave "x" 0, .leaveMsg "x" 4 false 0, .nodeJoin "x"]).failed = [] ∧
    (run (Node.init "a" {}) [.nodeJoin "x", .nodeLeave "x" 0, .leaveMsg "x" 4 false 0, .nodeJoin "x"]).left = [] := by decide

/-! ### Serf adds no divergence on top of a truthful memberlist and a completed anti-entropy round

Cluster form of the claim, over `SerfModel.Cluster`: take ANY reachable cluster state (any scenario of
joins, leaves, crashes, restarts-as-rejoins, force-leaves, partitions = lost / delayed / duplicated
gossip and push/pulls) in which memberlist is truthful about x for the running nodes `R` (`UpView` /
`DownView`: ASSUMED — memberlist's own convergence), and let one complete anti-entropy round run
(`syncRound`).  Then the Serf views agree and match the truth, except in the explicitly excluded,
decidable classes, each shown necessary by a counterexample (see Props/C02.lean, "the agreement clause
at the property's full statement"): `NoTie` (recorded finding rejoined-stuck-leaving and the
unrefuted claim), a leave older than a join known elsewhere (`stale_left_counterexample`), the
clock wrap. -/

section Converged
open SerfModel.Cluster SerfProofs.Cluster SerfProofs.ClusterSync

/-- every running member is listed alive by every running member that lists it, after healing -/
theorem C01_converged_running_partial (names : List Name) (cfg : Config) (steps : List CStep) (R : List Nat)
    (x : Name) (w : Nat) (hu : UpView (crun (Cluster.init names cfg) steps) R x)
    (ht : NoTie (crun (Cluster.init names cfg) steps) R x) :
    ∀ i ∈ R, ∀ n', (syncRound (crun (Cluster.init names cfg) steps) R w).nodes[i]? = some n' →
      ∀ s, statusOf n' x = some s → s = .alive :=
  fun i hi n' hn' s hs => (agreement_running _ R x w (allBook_crun names cfg steps) hu ht i hi n' hn' s hs).1

/-- a member that left gracefully (somebody holds its leave, newer than every join known) is listed left by all -/
theorem C01_converged_left_partial (names : List Name) (cfg : Config) (steps : List CStep) (R : List Nat)
    (x : Name) (w : Nat) (hd : DownView (crun (Cluster.init names cfg) steps) R x)
    (hl : SomeLeftAtMax (crun (Cluster.init names cfg) steps) R x)
    (hw : maxLtime (crun (Cluster.init names cfg) steps) R x < two64 - 1) :
    ∀ i ∈ R, ∀ n', (syncRound (crun (Cluster.init names cfg) steps) R w).nodes[i]? = some n' →
      ∀ s, statusOf n' x = some s → s = .left :=
  agreement_left _ R x w (allBook_crun names cfg steps) hd hl hw

/-- a crashed member (nobody holds a leave for it) is listed failed by all -/
theorem C01_converged_failed (names : List Name) (cfg : Config) (steps : List CStep) (R : List Nat)
    (x : Name) (w : Nat) (hd : DownView (crun (Cluster.init names cfg) steps) R x)
    (hn : NobodyLeft (crun (Cluster.init names cfg) steps) R x) :
    ∀ i ∈ R, ∀ n', (syncRound (crun (Cluster.init names cfg) steps) R w).nodes[i]? = some n' →
      ∀ s, statusOf n' x = some s → s = .failed :=
  fun i hi n' hn' s hs => (agreement_failed _ R x w (allBook_crun names cfg steps) hd hn i hi n' hn' s hs).1

example : UpView healC [0, 1, 2] "x" ∧ NoTie healC [0, 1, 2] "x" := ⟨running_example.2.1, running_example.2.2.1⟩
example : DownView leftC [0, 1] "x" ∧ SomeLeftAtMax leftC [0, 1] "x" := ⟨left_example.2.1, left_example.2.2.1⟩
example : DownView failC [0, 1] "x" ∧ NobodyLeft failC [0, 1] "x" := ⟨failed_example.2.1, failed_example.2.2.1⟩

end Converged

/-! ### a graceful leaver that goes down is left — however memberlist words the death

`handleNodeLeave` switches on the member's Serf status only; whether memberlist reports the node gone as
StateLeft (its own leave notice arrived) or StateDead (the notice was lost and the failure detector
declared it dead) is not an input of the transition — the model's `nodeLeave` op carries no such
parameter, and the harness delivers both wordings (`nl … d|l`).  Seeded change C01-e (leaving + StateDead
⇒ failed) is the broken shape. -/

theorem C01_leaving_down_left (n : Node) (x : Name) (at_ : Nat) (h : statusOf n x = some .leaving) :
    statusOf (step n (.nodeLeave x at_)).1 x = some .left :=
  (SerfProofs.NodeObserver.down_step n x at_).2 h

/-- the broken shape on the model: treating the death of a `leaving` member as a failure puts a graceful
leaver on the failed list -/
theorem C01_leaving_down_failed_counterexample :
    let n := run (Node.init "a" {}) [.nodeJoin "x", .leaveMsg "x" 3 false 0]
    statusOf n "x" = some .leaving ∧ statusOf (step n (.nodeLeave "x" 1)).1 "x" = some .left ∧
    -- what C01-e computes instead: the alive branch
    statusOf (step { n with members := ainsert n.members "x" { status := .alive, ltime := 3 } } (.nodeLeave "x" 1)).1 "x"
      = some .failed := by decide

end SerfProofs.C01
