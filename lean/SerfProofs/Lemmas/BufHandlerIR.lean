/-
Helper lemmas for the regenerated tie of `handleUserEvent` / `handleQuery`:
interpreting the IR body shared by both handlers (`front`) is the hand model
`EventBuf.handle`, for every state and message.
-/
import SerfModel.Model.BufHandlerIR
import SerfModel.Model.QueryHandle
import SerfProofs.Lemmas.EventBuf
namespace SerfProofs.BufHandlerIR
open SerfModel.EventBuf SerfModel.BufHandlerIR
open SerfModel.Atomic (W)

variable {α : Type} [DecidableEq α]

theorem exec_none {ctx : Ctx} {lt : W} {x : α} {s : Stmt} {rest : Body} {env env' : Env α}
    (h : stepStmt ctx lt x env s = (env', none)) : exec ctx lt x (s :: rest) env = exec ctx lt x rest env' := by
  simp [exec, h]

theorem exec_some {ctx : Ctx} {lt : W} {x : α} {s : Stmt} {rest : Body} {env env' : Env α} {v : Bool}
    (h : stepStmt ctx lt x env s = (env', some v)) : exec ctx lt x (s :: rest) env = (env', v) := by
  simp [exec, h]

/-- The part of both handlers up to and including the append. -/
def front (dup : Dup) : Body := [
  .witness .ltime,
  .setCur .clockTime,
  .setIdx (.mod .ltime .lenN),
  .retFalseIf (.lt .ltime .minTime),
  .retFalseIf (.and (.lt .lenN .cur) (.lt .ltime (.sub .cur .lenN))),
  .loadSeen,
  .lookup (.and .seenNotNil (.eq .ltime .seenLTime)) dup (some .ltime) true,
  .append]

/-- Flags untouched by the front half. -/
def Clean (env : Env α) : Prop := env.delivered = false ∧ env.acked = false ∧ env.rebroadcast = false

/-- The environment after `seen := buf[idx]` and later statements. -/
def E (b : Buf α) (w : W) (sl : List (Option (W × List α))) (idx : Nat) (seen : Option (W × List α)) : Env α :=
  { buf := { clock := w, minTime := b.minTime, slots := sl }, cur := w, idx := idx, seen := seen, aliased := true }

/-- The environment after the witness and the two pure definitions. -/
def E0 (b : Buf α) (w : W) (idx : Nat) : Env α :=
  { buf := { clock := w, minTime := b.minTime, slots := b.slots }, cur := w, idx := idx }

theorem tooOld_bool (N : Nat) (w lt : W) :
    tooOld N w lt = ((nW N).ult w && lt.ult (w - nW N)) := by
  simp [tooOld, Bool.decide_and, BitVec.lt_def, BitVec.ult]

theorem front_spec (dup : Dup) (tail : Body) (ctx : Ctx) (b : Buf α) (lt : W) (x : α) :
    ∃ env' : Env α, env'.buf = (handle b lt x).1 ∧ Clean env' ∧
      exec ctx lt x (front dup ++ tail) { buf := b } =
        if (handle b lt x).2 = .delivered then exec ctx lt x tail env' else (env', false) := by
  simp only [front, List.cons_append, List.nil_append]
  rw [exec_none (env' := { buf := { b with clock := witness b.clock lt } }) (by simp [stepStmt, evalE])]
  rw [exec_none (env' := { buf := { b with clock := witness b.clock lt }, cur := witness b.clock lt }) (by simp [stepStmt, evalE])]
  rw [exec_none (env' := E0 b (witness b.clock lt) (slotIdx b.slots.length lt)) (by simp [stepStmt, evalE, slotIdx, E0])]
  unfold handle
  simp only
  generalize witness b.clock lt = w
  generalize slotIdx b.slots.length lt = idx
  by_cases h1 : lt < b.minTime
  · simp only [h1, ↓reduceIte]
    refine ⟨E0 b w idx, rfl, ⟨rfl, rfl, rfl⟩, ?_⟩
    rw [exec_some (v := false) (env' := E0 b w idx)
      (by simp [stepStmt, evalC, evalE, E0, BitVec.ult_iff_lt.2 h1])]
    simp
  simp only [h1, ↓reduceIte]
  have hb1 : BitVec.ult lt b.minTime = false := by simpa [BitVec.ult, BitVec.lt_def] using h1
  rw [exec_none (env' := E0 b w idx) (by simp [stepStmt, evalC, evalE, E0, hb1])]
  by_cases h2 : tooOld b.slots.length w lt = true
  · simp only [h2, ↓reduceIte]
    refine ⟨E0 b w idx, rfl, ⟨rfl, rfl, rfl⟩, ?_⟩
    rw [exec_some (v := false) (env' := E0 b w idx)
      (by rw [tooOld_bool] at h2; simp [stepStmt, evalC, evalE, E0]; simpa using h2)]
    simp
  simp only [h2, Bool.false_eq_true, ↓reduceIte]
  rw [exec_none (env' := E0 b w idx)
    (by rw [tooOld_bool] at h2; simp [stepStmt, evalC, evalE, E0]; simpa using h2)]
  -- the slot is empty / holds another time: fresh record, stored, appended
  have fresh : ∀ (o : Option (W × List α)), (b.slots[idx]?).join = o →
      (∀ t xs, o = some (t, xs) → t ≠ lt) →
      ∃ env' : Env α, env'.buf = ({ b with clock := w, slots := b.slots.set idx (some (lt, [] ++ [x])) } : Buf α) ∧ Clean env' ∧
        exec ctx lt x (Stmt.loadSeen :: Stmt.lookup (.and .seenNotNil (.eq .ltime .seenLTime)) dup (some .ltime) true ::
            Stmt.append :: tail) (E0 b w idx) = exec ctx lt x tail env' := by
    intro o ho hne
    refine ⟨E b w (b.slots.set idx (some (lt, [x]))) idx (some (lt, [x])), by simp [E], ⟨rfl, rfl, rfl⟩, ?_⟩
    rw [exec_none (env' := E b w b.slots idx o) (by simpa [stepStmt, E, E0] using ho)]
    rw [exec_none (env' := E b w (b.slots.set idx (some (lt, []))) idx (some (lt, [])))
      (by
        rcases o with _ | ⟨t, xs⟩
        · simp [stepStmt, evalC, evalE, E]
        · have := hne t xs rfl
          simp [stepStmt, evalC, evalE, E, Ne.symm this])]
    rw [exec_none (env' := E b w (b.slots.set idx (some (lt, [x]))) idx (some (lt, [x])))
      (by simp [stepStmt, List.set_set, E])]
  obtain ⟨o, hs⟩ : ∃ o, b.slots[idx]? = o := ⟨_, rfl⟩
  rcases o with _ | _ | ⟨t, xs⟩
  · have hsa : seenAt b.slots idx lt = [] := by simp [seenAt, hs]
    obtain ⟨env', h1', h2', h3'⟩ := fresh none (by simp [hs]) (by intro t xs h; cases h)
    exact ⟨env', by simp [hsa, h1'], h2', by simp [hsa, h3']⟩
  · have hsa : seenAt b.slots idx lt = [] := by simp [seenAt, hs]
    obtain ⟨env', h1', h2', h3'⟩ := fresh none (by simp [hs]) (by intro t xs h; cases h)
    exact ⟨env', by simp [hsa, h1'], h2', by simp [hsa, h3']⟩
  · by_cases ht : t = lt
    · subst ht
      have hsa : seenAt b.slots idx t = xs := by simp [seenAt, hs]
      by_cases hx : x ∈ xs
      · refine ⟨E b w b.slots idx (some (t, xs)), by simp [hsa, hx, E], ⟨rfl, rfl, rfl⟩, ?_⟩
        rw [exec_none (env' := E b w b.slots idx (some (t, xs))) (by simp [stepStmt, hs, E, E0])]
        rw [exec_some (v := false) (env' := E b w b.slots idx (some (t, xs))) (by simp [stepStmt, evalC, evalE, hx, E])]
        simp [hsa, hx]
      · refine ⟨E b w (b.slots.set idx (some (t, xs ++ [x]))) idx (some (t, xs ++ [x])), by simp [hsa, hx, E],
          ⟨rfl, rfl, rfl⟩, ?_⟩
        rw [exec_none (env' := E b w b.slots idx (some (t, xs))) (by simp [stepStmt, hs, E, E0])]
        rw [exec_none (env' := E b w b.slots idx (some (t, xs))) (by simp [stepStmt, evalC, evalE, hx, E])]
        rw [exec_none (env' := E b w (b.slots.set idx (some (t, xs ++ [x]))) idx (some (t, xs ++ [x])))
          (by simp [stepStmt, E])]
        simp [hsa, hx]
    · have hsa : seenAt b.slots idx lt = [] := by simp [seenAt, hs, ht]
      obtain ⟨env', h1', h2', h3'⟩ := fresh (some (t, xs)) (by simp [hs])
        (by intro t' xs' h; cases h; exact ht)
      exact ⟨env', by simp [hsa, h1'], h2', by simp [hsa, h3']⟩

/-- The user-event handler: the shared front, then deliver and `return true`. -/
def ueBody : Body := front .equalsLoop ++ [.deliver, .ret true]

/-- The query handler: the shared front, then the re-broadcast flag, the filter
test, the ack and the delivery. -/
def queryBody : Body :=
  front .containsItem ++ [.setRebroadcast true, .retRebroadcastIfNotSelected, .ackIf, .deliver, .retRebroadcast]

/-- Interpreting `ueBody` is `EventBuf.handle`: same buffer afterwards, the return
value and the delivery are "the outcome is `delivered`". -/
theorem ueBody_is_handle (ctx : Ctx) (b : Buf α) (lt : W) (x : α) :
    (SerfModel.BufHandlerIR.run ueBody ctx b lt x).1.buf = (handle b lt x).1
    ∧ (SerfModel.BufHandlerIR.run ueBody ctx b lt x).2 = decide ((handle b lt x).2 = .delivered)
    ∧ (SerfModel.BufHandlerIR.run ueBody ctx b lt x).1.delivered = decide ((handle b lt x).2 = .delivered) := by
  obtain ⟨env', hb, ⟨hd, _, _⟩, he⟩ := front_spec .equalsLoop [.deliver, .ret true] ctx b lt x
  unfold SerfModel.BufHandlerIR.run ueBody
  rw [he]
  by_cases hr : (handle b lt x).2 = .delivered
  · simp [hr, exec, stepStmt, hb]
  · simp [hr, hb, hd]

open SerfModel.QueryHandle in
/-- Interpreting `queryBody` is `QueryHandle.handleQuery`, with the filter verdict,
the ack flag and the no-broadcast flag of the message as context. -/
theorem queryBody_is_handleQuery (re : Oracle) (cfg : NodeCfg) (b : Buf Nat) (q : QueryMsg) :
    let ctx : Ctx := { selected := shouldProcess re cfg q.filters, ackFlag := q.ack, noBroadcast := q.noBroadcast }
    let r := SerfModel.BufHandlerIR.run queryBody ctx b q.lt q.id
    let m := handleQuery re cfg b q
    r.1.buf = m.1 ∧ r.2 = m.2.rebroadcast ∧ r.1.delivered = m.2.delivered ∧ r.1.acked = m.2.acked := by
  intro ctx r m
  obtain ⟨env', hb, ⟨hd, ha, hrb⟩, he⟩ := front_spec .containsItem
    [.setRebroadcast true, .retRebroadcastIfNotSelected, .ackIf, .deliver, .retRebroadcast] ctx b q.lt q.id
  have hr : r = if (handle b q.lt q.id).2 = .delivered then
      exec ctx q.lt q.id [.setRebroadcast true, .retRebroadcastIfNotSelected, .ackIf, .deliver, .retRebroadcast] env'
      else (env', false) := he
  have hm : m = handleQuery re cfg b q := rfl
  unfold handleQuery at hm
  simp only at hm
  by_cases hf : (handle b q.lt q.id).2 = .delivered
  · by_cases hs : shouldProcess re cfg q.filters = true
    · simp only [hf, ↓reduceIte] at hr
      simp [hr, hm, hf, hs, exec, stepStmt, ctx, hb, hd, ha]
    · simp only [hf, ↓reduceIte] at hr
      simp [hr, hm, hf, hs, exec, stepStmt, ctx, hb, hd, ha]
  · simp [hr, hm, hf, hb, hd, ha]

end SerfProofs.BufHandlerIR
