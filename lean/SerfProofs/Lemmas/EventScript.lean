/-
Helper lemmas for the event-handler model (C27): splitting and counting separators,
`eventClean`, suffixes (`takeLast`).
-/
import SerfModel.Model.AgentEventScript
namespace SerfProofs.EventScript
open SerfModel.EventScript

theorem splitOn_ne_nil (sep : UInt8) (l : Bytes) : splitOn sep l ≠ [] := by
  induction l with
  | nil => simp [splitOn]
  | cons c rest ih =>
    unfold splitOn
    split
    · simp
    · split <;> simp

/-- the number of pieces is the number of separators plus one -/
theorem length_splitOn (sep : UInt8) (l : Bytes) : (splitOn sep l).length = l.count sep + 1 := by
  induction l with
  | nil => simp [splitOn]
  | cons c rest ih =>
    unfold splitOn
    by_cases h : c == sep
    · simp only [h, ↓reduceIte, List.length_cons, ih]
      have : c = sep := eq_of_beq h
      subst this
      simp
    · simp only [h, Bool.false_eq_true, ↓reduceIte]
      have hne : c ≠ sep := fun e => h (by simp [e])
      cases hs : splitOn sep rest with
      | nil => exact absurd hs (splitOn_ne_nil sep rest)
      | cons x xs =>
        rw [hs] at ih
        simp only [List.length_cons] at ih ⊢
        rw [List.count_cons_of_ne hne]
        exact ih

theorem not_mem_eventClean (v : Bytes) : TAB ∉ eventClean v ∧ NL ∉ eventClean v := by
  induction v with
  | nil => simp [eventClean]
  | cons c rest ih =>
    unfold eventClean
    by_cases h1 : c == TAB
    · simp only [h1, ↓reduceIte, List.mem_cons, not_or]
      exact ⟨⟨by decide, by decide, ih.1⟩, ⟨by decide, by decide, ih.2⟩⟩
    · by_cases h2 : c == NL
      · simp only [h1, h2, Bool.false_eq_true, ↓reduceIte, List.mem_cons, not_or]
        exact ⟨⟨by decide, by decide, ih.1⟩, ⟨by decide, by decide, ih.2⟩⟩
      · simp only [h1, h2, Bool.false_eq_true, ↓reduceIte, List.mem_cons, not_or]
        have n1 : c ≠ TAB := fun e => h1 (by simp [e])
        have n2 : c ≠ NL := fun e => h2 (by simp [e])
        exact ⟨⟨Ne.symm n1, ih.1⟩, ⟨Ne.symm n2, ih.2⟩⟩

theorem count_eventClean_tab (v : Bytes) : (eventClean v).count TAB = 0 :=
  List.count_eq_zero.mpr (not_mem_eventClean v).1

theorem count_eventClean_nl (v : Bytes) : (eventClean v).count NL = 0 :=
  List.count_eq_zero.mpr (not_mem_eventClean v).2

theorem takeLast_length (n : Nat) (l : Bytes) : (takeLast n l).length = min l.length n := by
  unfold takeLast
  simp only [List.length_drop]
  omega

theorem takeLast_suffix (n : Nat) (l : Bytes) : takeLast n l <:+ l := List.drop_suffix _ _

theorem takeLast_of_le (n : Nat) (l : Bytes) (h : l.length ≤ n) : takeLast n l = l := by
  unfold takeLast
  have : l.length - n = 0 := by omega
  simp [this]

/-- what was dropped earlier stays dropped: the ring may forget it -/
theorem takeLast_append_takeLast (n : Nat) (a c : Bytes) :
    takeLast n (takeLast n a ++ c) = takeLast n (a ++ c) := by
  by_cases h : a.length ≤ n
  · rw [takeLast_of_le n a h]
  · have hk : a.length - n ≤ a.length := Nat.sub_le _ _
    unfold takeLast
    simp only [List.length_append, List.length_drop]
    have e1 : a.length - (a.length - n) + c.length - n = c.length := by omega
    have e2 : a.length + c.length - n = (a.length - n) + c.length := by omega
    rw [e1, e2, ← List.drop_drop, List.drop_append_of_le_length hk]

end SerfProofs.EventScript
