/-
Lemmas about the snapshot line format (SerfModel.Snapshot): decimal print/parse,
prefixes, the last-space split, line splitting, replay of appended lines.
-/
import SerfModel.Model.Snapshot
import SerfProofs.Lemmas.Assoc
namespace SerfProofs.Snapshot
open SerfModel SerfModel.Snapshot

/-! ### decimal -/

theorem digitChar_spec : ∀ d, d < 10 →
    ('0' ≤ digitChar d ∧ digitChar d ≤ '9') ∧ (digitChar d).toNat - 48 = d ∧
    digitChar d ≠ '\n' ∧ digitChar d ≠ ' ' := by decide

theorem parseDecAux_append (l1 l2 : Bytes) : ∀ acc,
    parseDecAux acc (l1 ++ l2) = (parseDecAux acc l1).bind (fun a => parseDecAux a l2) := by
  induction l1 with
  | nil => intro acc; simp [parseDecAux]
  | cons c cs ih =>
    intro acc
    simp only [List.cons_append, parseDecAux]
    by_cases h : '0' ≤ c ∧ c ≤ '9'
    · simp only [h, and_self, ↓reduceIte]; exact ih _
    · simp [h]

theorem parseDecAux_decDigits : ∀ fuel n, n < fuel → parseDecAux 0 (decDigits fuel n) = some n := by
  intro fuel
  induction fuel with
  | zero => intro n h; omega
  | succ f ih =>
    intro n h
    unfold decDigits
    by_cases h10 : n < 10
    · have := digitChar_spec n h10
      simp [h10, parseDecAux, this.1, this.2.1]
    · simp only [h10, ↓reduceIte]
      rw [parseDecAux_append, ih (n / 10) (by omega)]
      have := digitChar_spec (n % 10) (by omega)
      simp only [Option.bind_some, parseDecAux, this.1, and_self, ↓reduceIte, this.2.1]
      congr 1; omega

theorem decDigits_ne_nil : ∀ fuel n, 0 < fuel → decDigits fuel n ≠ [] := by
  intro fuel n h
  cases fuel with
  | zero => omega
  | succ f =>
    unfold decDigits
    by_cases h10 : n < 10 <;> simp [h10]

theorem decDigits_chars : ∀ fuel n c, c ∈ decDigits fuel n → c ≠ '\n' ∧ c ≠ ' ' := by
  intro fuel
  induction fuel with
  | zero => intro n c h; simp [decDigits] at h
  | succ f ih =>
    intro n c h
    unfold decDigits at h
    by_cases h10 : n < 10
    · simp only [h10, ↓reduceIte, List.mem_singleton] at h
      subst h; exact (digitChar_spec n h10).2.2
    · simp only [h10, ↓reduceIte, List.mem_append, List.mem_singleton] at h
      rcases h with h | h
      · exact ih _ _ h
      · subst h; exact (digitChar_spec (n % 10) (by omega)).2.2

/-- 2^64 (a constant, so that no tactic ever looks inside the number) -/
def U64 : Nat := 18446744073709551616

theorem parseUint64_printDec (n : Nat) (h : n < U64) : parseUint64 (printDec n) = some n := by
  unfold U64 at h
  unfold parseUint64 printDec
  simp [decDigits_ne_nil (n + 1) n (by omega), parseDecAux_decDigits (n + 1) n (by omega), h]

theorem printDec_noNL (n : Nat) : '\n' ∉ printDec n := fun h => (decDigits_chars _ _ _ h).1 rfl

/-! ### prefixes and the last space -/

theorem stripPrefix_append (p s : Bytes) : stripPrefix p (p ++ s) = some s := by
  induction p with
  | nil => cases s <;> rfl
  | cons c cs ih => simp [stripPrefix, ih]

theorem splitLastSpace_none (a : Bytes) (h : ' ' ∉ a) : splitLastSpace a = none := by
  induction a with
  | nil => rfl
  | cons c cs ih =>
    simp only [List.mem_cons, not_or] at h
    simp only [splitLastSpace, ih h.2]
    have : ¬ c = ' ' := fun e => h.1 e.symm
    simp [this]

theorem splitLastSpace_spec (n a : Bytes) (h : ' ' ∉ a) : splitLastSpace (n ++ ' ' :: a) = some (n, a) := by
  induction n with
  | nil => simp [splitLastSpace, splitLastSpace_none a h]
  | cons c cs ih => simp [splitLastSpace, ih]

/-! ### well-formed lines and the round trip -/

def WFName (n : Name) : Prop := '\n' ∉ n
def WFAddr (a : Addr) : Prop := ' ' ∉ a ∧ '\n' ∉ a

instance (n : Name) : Decidable (WFName n) := by unfold WFName; infer_instance
instance (a : Addr) : Decidable (WFAddr a) := by unfold WFAddr; infer_instance

/-- names without newline, addresses without space and newline, times in the uint64 range -/
def WFLine : Line → Prop
  | .alive n a => WFName n ∧ WFAddr a
  | .notAlive n => WFName n
  | .clock t => t < U64
  | .eventClock t => t < U64
  | .queryClock t => t < U64
  | .leave => True

instance (l : Line) : Decidable (WFLine l) := by
  cases l <;> unfold WFLine <;> infer_instance

theorem parseLine_printBody (l : Line) (h : WFLine l) : parseLine (printBody l) = some l := by
  cases l with
  | alive n a =>
    simp only [printBody, parseLine, stripPrefix_append, splitLastSpace_spec n a h.2.1, Option.map_some]
  | notAlive n =>
    have h1 : stripPrefix pAlive (pNotAlive ++ n) = none := by simp [pAlive, pNotAlive, stripPrefix]
    simp only [printBody, parseLine, h1, stripPrefix_append]
  | clock t =>
    have h1 : stripPrefix pAlive (pClock ++ printDec t) = none := by simp [pAlive, pClock, stripPrefix]
    have h2 : stripPrefix pNotAlive (pClock ++ printDec t) = none := by simp [pNotAlive, pClock, stripPrefix]
    simp only [printBody, parseLine, h1, h2, stripPrefix_append, parseUint64_printDec t h, Option.map_some]
  | eventClock t =>
    have h1 : stripPrefix pAlive (pEventClock ++ printDec t) = none := by simp [pAlive, pEventClock, stripPrefix]
    have h2 : stripPrefix pNotAlive (pEventClock ++ printDec t) = none := by simp [pNotAlive, pEventClock, stripPrefix]
    have h3 : stripPrefix pClock (pEventClock ++ printDec t) = none := by simp [pClock, pEventClock, stripPrefix]
    simp only [printBody, parseLine, h1, h2, h3, stripPrefix_append, parseUint64_printDec t h, Option.map_some]
  | queryClock t =>
    have h1 : stripPrefix pAlive (pQueryClock ++ printDec t) = none := by simp [pAlive, pQueryClock, stripPrefix]
    have h2 : stripPrefix pNotAlive (pQueryClock ++ printDec t) = none := by simp [pNotAlive, pQueryClock, stripPrefix]
    have h3 : stripPrefix pClock (pQueryClock ++ printDec t) = none := by simp [pClock, pQueryClock, stripPrefix]
    have h4 : stripPrefix pEventClock (pQueryClock ++ printDec t) = none := by simp [pEventClock, pQueryClock, stripPrefix]
    simp only [printBody, parseLine, h1, h2, h3, h4, stripPrefix_append, parseUint64_printDec t h, Option.map_some]
  | leave => decide

theorem printBody_noNL (l : Line) (h : WFLine l) : '\n' ∉ printBody l := by
  cases l with
  | alive n a =>
    simp only [printBody, pAlive, List.mem_append, List.mem_cons, not_or]
    refine ⟨by decide, h.1, by decide, h.2.2⟩
  | notAlive n =>
    simp only [printBody, pNotAlive, List.mem_append, not_or]
    exact ⟨by decide, h⟩
  | clock t => simp only [printBody, pClock, List.mem_append, not_or]; exact ⟨by decide, printDec_noNL t⟩
  | eventClock t => simp only [printBody, pEventClock, List.mem_append, not_or]; exact ⟨by decide, printDec_noNL t⟩
  | queryClock t => simp only [printBody, pQueryClock, List.mem_append, not_or]; exact ⟨by decide, printDec_noNL t⟩
  | leave => decide

/-! ### splitting into lines -/

/-- the bytes are empty or end with a newline -/
def endsNL : Bytes → Bool
  | [] => true
  | c :: cs => if cs = [] then c = '\n' else endsNL cs

theorem endsNL_snoc (x : Bytes) : endsNL (x ++ ['\n']) = true := by
  induction x with
  | nil => simp [endsNL]
  | cons c cs ih =>
    simp only [List.cons_append, endsNL]
    simp [ih]

theorem endsNL_append (x y : Bytes) (hx : endsNL x = true) (hy : endsNL y = true) : endsNL (x ++ y) = true := by
  induction x with
  | nil => simpa using hy
  | cons c cs ih =>
    by_cases hcs : cs = []
    · subst hcs
      cases y with
      | nil => simpa using hx
      | cons d ds => simp only [List.cons_append, List.nil_append, endsNL]; simpa [endsNL] using hy
    · simp only [endsNL, hcs, ↓reduceIte] at hx
      have : cs ++ y ≠ [] := by simp [hcs]
      simp only [List.cons_append, endsNL, this, ↓reduceIte]
      exact ih hx

theorem splitLines_cons (c : Char) (cs : Bytes) :
    splitLines (c :: cs) = if c = '\n' then [] :: splitLines cs
      else match splitLines cs with
        | [] => []
        | l :: ls => (c :: l) :: ls := by
  conv => lhs; unfold splitLines
  by_cases h : c = '\n'
  · simp [h]
  · simp only [h, ↓reduceIte]; cases splitLines cs <;> rfl

theorem splitLines_ne_nil (x : Bytes) (h : '\n' ∈ x) : splitLines x ≠ [] := by
  induction x with
  | nil => simp at h
  | cons c cs ih =>
    unfold splitLines
    by_cases hc : c = '\n'
    · simp [hc]
    · have : '\n' ∈ cs := by
        rcases List.mem_cons.mp h with h | h
        · exact absurd h.symm hc
        · exact h
      have := ih this
      simp only [hc, ↓reduceIte]
      cases hs : splitLines cs with
      | nil => exact absurd hs this
      | cons l ls => simp

theorem mem_of_endsNL (x : Bytes) (hne : x ≠ []) (h : endsNL x = true) : '\n' ∈ x := by
  induction x with
  | nil => exact absurd rfl hne
  | cons c cs ih =>
    by_cases hcs : cs = []
    · simp only [endsNL, hcs, ↓reduceIte, decide_eq_true_eq] at h
      simp [h]
    · simp only [endsNL, hcs, ↓reduceIte] at h
      exact List.mem_cons_of_mem _ (ih hcs h)

theorem splitLines_append (x y : Bytes) (hx : endsNL x = true) :
    splitLines (x ++ y) = splitLines x ++ splitLines y := by
  induction x with
  | nil => simp [splitLines]
  | cons c cs ih =>
    by_cases hcs : cs = []
    · subst hcs
      simp only [endsNL, ↓reduceIte, decide_eq_true_eq] at hx
      subst hx
      simp [splitLines]
    · simp only [endsNL, hcs, ↓reduceIte] at hx
      have ih' := ih hx
      simp only [List.cons_append]
      rw [splitLines_cons, splitLines_cons c cs]
      by_cases hc : c = '\n'
      · simp [hc, ih']
      · simp only [hc, ↓reduceIte, ih']
        have hne := splitLines_ne_nil cs (mem_of_endsNL cs hcs hx)
        cases hs : splitLines cs with
        | nil => exact absurd hs hne
        | cons l ls => simp

theorem splitLines_body (b : Bytes) (h : '\n' ∉ b) : splitLines (b ++ ['\n']) = [b] := by
  induction b with
  | nil => simp [splitLines]
  | cons c cs ih =>
    simp only [List.mem_cons, not_or] at h
    have hc : ¬ c = '\n' := fun e => h.1 e.symm
    simp only [List.cons_append]
    unfold splitLines
    simp [hc, ih h.2]

/-! ### replay -/

theorem replay_append (rj : Bool) (x y : Bytes) (hx : endsNL x = true) :
    replay rj (x ++ y) = (splitLines y).foldl (applyRaw rj) (replay rj x) := by
  simp [replay, splitLines_append x y hx, List.foldl_append]

theorem replay_append_line (rj : Bool) (x : Bytes) (l : Line) (hx : endsNL x = true) (hl : WFLine l) :
    replay rj (x ++ printLine l) = applyLine rj (replay rj x) l := by
  rw [replay_append rj x _ hx, printLine, splitLines_body _ (printBody_noNL l hl)]
  simp [applyRaw, parseLine_printBody l hl]

theorem endsNL_printLine (l : Line) : endsNL (printLine l) = true := endsNL_snoc _

end SerfProofs.Snapshot
