/-
The snapshot invariant: replaying (file on disk ++ bytes still buffered) yields the
in-memory state.  Preserved by every step of the snapshotter model — append,
periodic flush, compaction at any threshold, leave — for every order oracle that
permutes the alive map.
-/
import SerfProofs.Lemmas.SnapshotLines
namespace SerfProofs.Snapshot
open SerfModel SerfModel.Snapshot

/-! ### association lists -/

def MapEq (m1 m2 : AMap) : Prop := ∀ k, alookup m1 k = alookup m2 k

theorem MapEq.refl (m : AMap) : MapEq m m := fun _ => rfl

theorem MapEq.ainsert {m1 m2 : AMap} (h : MapEq m1 m2) (k : Name) (v : Addr) :
    MapEq (ainsert m1 k v) (ainsert m2 k v) := by
  intro x; rw [alookup_ainsert, alookup_ainsert, h x]

theorem alookup_aerase (m : AMap) (k x : Name) :
    alookup (aerase m k) x = if x == k then none else alookup m x := by
  by_cases h : x = k
  · subst h; simp [alookup_aerase_self]
  · have : ¬ (x == k) := by intro e; exact h (eq_of_beq e)
    simp [this, alookup_aerase_ne m k x h]

theorem MapEq.aerase {m1 m2 : AMap} (h : MapEq m1 m2) (k : Name) : MapEq (aerase m1 k) (aerase m2 k) := by
  intro x; rw [alookup_aerase, alookup_aerase, h x]

theorem eq_nil_of_alookup_none (m : AMap) (h : ∀ k, alookup m k = none) : m = [] := by
  cases m with
  | nil => rfl
  | cons p t => have := h p.1; simp [alookup_cons] at this

theorem mem_ainsert {m : AMap} {k : Name} {v : Addr} {p : Name × Addr} (h : p ∈ ainsert m k v) :
    p = (k, v) ∨ p ∈ m := by
  unfold ainsert at h
  split at h
  · obtain ⟨q, hq, rfl⟩ := List.mem_map.mp h
    by_cases e : q.1 == k
    · simp [e]
    · simp only [e, Bool.false_eq_true, ↓reduceIte]; exact Or.inr hq
  · rcases List.mem_append.mp h with h | h
    · exact Or.inr h
    · simp at h; exact Or.inl h

theorem mem_aerase {m : AMap} {k : Name} {p : Name × Addr} (h : p ∈ aerase m k) : p ∈ m :=
  (List.mem_filter.mp h).1

theorem alookup_foldl_ainsert (l : AMap) (hnd : (akeys l).Nodup) : ∀ (acc : AMap) (k : Name),
    alookup (l.foldl (fun m p => ainsert m p.1 p.2) acc) k = (alookup l k).or (alookup acc k) := by
  induction l with
  | nil => intro acc k; simp
  | cons p t ih =>
    intro acc k
    simp only [akeys, List.map_cons, List.nodup_cons] at hnd
    simp only [List.foldl_cons]
    rw [ih hnd.2, alookup_ainsert, alookup_cons]
    by_cases e : k = p.1
    · subst e
      have : alookup t p.1 = none := (alookup_eq_none_iff t p.1).mpr hnd.1
      simp [this]
    · have e1 : ¬ (k == p.1) := by intro h; exact e (eq_of_beq h)
      have e2 : ¬ (p.1 == k) := by intro h; exact e (eq_of_beq h).symm
      simp [e1, e2]

theorem akeys_perm {l1 l2 : AMap} (h : l1.Perm l2) : (akeys l1).Perm (akeys l2) := h.map _

theorem alookup_perm {l1 l2 : AMap} (h : l1.Perm l2) (hnd : (akeys l2).Nodup) (k : Name) :
    alookup l1 k = alookup l2 k := by
  have hnd1 : (akeys l1).Nodup := (akeys_perm h).nodup_iff.mpr hnd
  cases h1 : alookup l1 k with
  | some v =>
    have := mem_of_alookup h1
    exact (alookup_of_mem_nodup hnd (h.mem_iff.mp this)).symm
  | none =>
    have hk : k ∉ akeys l1 := (alookup_eq_none_iff l1 k).mp h1
    have : k ∉ akeys l2 := fun hm => hk ((akeys_perm h).mem_iff.mpr hm)
    exact ((alookup_eq_none_iff l2 k).mpr this).symm

/-! ### bufio -/

theorem bufWrite_concat (buf s : Bytes) : (bufWrite buf s).2.flatten ++ (bufWrite buf s).1 = buf ++ s := by
  unfold bufWrite
  simp only
  split
  · simp
  · split
    · rename_i h; simp [List.eq_nil_of_length_eq_zero h]
    · split <;> simp [List.append_assoc]

theorem bufWriteAll_concat (lines : List Bytes) : ∀ buf,
    (bufWriteAll buf lines).2.flatten ++ (bufWriteAll buf lines).1 = buf ++ lines.flatten := by
  induction lines with
  | nil => intro buf; simp [bufWriteAll]
  | cons l ls ih =>
    intro buf
    simp only [bufWriteAll, List.flatten_append, List.append_assoc, ih, List.flatten_cons]
    rw [← List.append_assoc, bufWrite_concat, List.append_assoc]

/-! ### the model file system -/

theorem applyAll_append (fs : FS) (a b : List FsOp) : fs.applyAll (a ++ b) = (fs.applyAll a).applyAll b := by
  simp [FS.applyAll, List.foldl_append]

theorem applyAll_cons (fs : FS) (a : FsOp) (b : List FsOp) : fs.applyAll (a :: b) = (fs.apply a).applyAll b := rfl
theorem applyAll_nil (fs : FS) : fs.applyAll [] = fs := rfl

theorem applyAll_writes_main (ws : List Bytes) : ∀ (fs : FS) (d : Bytes), fs.main = some d →
    fs.applyAll (ws.map (.write .main)) = { fs with main := some (d ++ ws.flatten) } := by
  induction ws with
  | nil => intro fs d h; cases fs; simp_all [FS.applyAll]
  | cons w ws ih =>
    intro fs d h
    simp only [List.map_cons, applyAll_cons]
    have : fs.apply (.write .main w) = { fs with main := some (d ++ w) } := by simp [FS.apply, FS.get, FS.set, h]
    rw [this, ih _ (d ++ w) rfl]
    simp [List.append_assoc]

theorem applyAll_writes_tmp (ws : List Bytes) : ∀ (fs : FS) (d : Bytes), fs.tmp = some d →
    fs.applyAll (ws.map (.write .tmp)) = { fs with tmp := some (d ++ ws.flatten) } := by
  induction ws with
  | nil => intro fs d h; cases fs; simp_all [FS.applyAll]
  | cons w ws ih =>
    intro fs d h
    simp only [List.map_cons, applyAll_cons]
    have : fs.apply (.write .tmp w) = { fs with tmp := some (d ++ w) } := by simp [FS.apply, FS.get, FS.set, h]
    rw [this, ih _ (d ++ w) rfl]
    simp [List.append_assoc]

theorem applyAll_flush_main (fs : FS) (d b : Bytes) (h : fs.main = some d) :
    fs.applyAll (flushOps .main b) = { fs with main := some (d ++ b) } := by
  unfold flushOps
  by_cases hb : b = []
  · subst hb; cases fs; simp_all [FS.applyAll, FS.apply]
  · simp [hb, FS.applyAll, FS.apply, FS.get, FS.set, h]

theorem applyAll_flush_tmp (fs : FS) (d b : Bytes) (h : fs.tmp = some d) :
    fs.applyAll (flushOps .tmp b) = { fs with tmp := some (d ++ b) } := by
  unfold flushOps
  by_cases hb : b = []
  · subst hb; cases fs; simp_all [FS.applyAll, FS.apply]
  · simp [hb, FS.applyAll, FS.apply, FS.get, FS.set, h]

/-! ### the invariant -/

def WFRec (m : RecState) : Prop :=
  (akeys m.alive).Nodup ∧ (∀ p ∈ m.alive, WFName p.1 ∧ WFAddr p.2) ∧
  m.clock < U64 ∧ m.eventClock < U64 ∧ m.queryClock < U64

def ClocksEq (r m : RecState) : Prop :=
  r.clock = m.clock ∧ r.eventClock = m.eventClock ∧ r.queryClock = m.queryClock

/-- replaying `file` with flag `rj` gives the state `m` (clocks only when `judged`) -/
def InvCore (rj : Bool) (judged : Prop) (m : RecState) (file : Bytes) : Prop :=
  endsNL file = true ∧ WFRec m ∧ MapEq (replay rj file).alive m.alive ∧ (judged → ClocksEq (replay rj file) m)

/-- the clocks are part of the invariant until a leave that replay will honour -/
def Judged (s : Snap) : Prop := s.leaving = false ∨ s.rejoin = true

def Inv (s : Snap) (fs : FS) : Prop :=
  ∃ d, fs.main = some d ∧ InvCore s.rejoin (Judged s) s.mem (d ++ s.buf)

def SameMem (s s' : Snap) : Prop := s'.mem = s.mem ∧ s'.rejoin = s.rejoin ∧ s'.leaving = s.leaving

theorem SameMem.trans {a b c : Snap} (h1 : SameMem a b) (h2 : SameMem b c) : SameMem a c :=
  ⟨h2.1.trans h1.1, h2.2.1.trans h1.2.1, h2.2.2.trans h1.2.2⟩

def PermOrder (ord : Order) : Prop := ∀ i m, (ord i m).Perm m

theorem appendBytes_spec (s : Snap) (l : Bytes) (fs : FS) (d : Bytes) (hd : fs.main = some d) :
    ∃ d', (fs.applyAll (appendBytes s l).2).main = some d' ∧
      d' ++ (appendBytes s l).1.buf = d ++ s.buf ++ l ∧ SameMem s (appendBytes s l).1 := by
  unfold appendBytes
  simp only
  have hc := bufWrite_concat s.buf l
  split
  · refine ⟨d ++ (bufWrite s.buf l).2.flatten ++ (bufWrite s.buf l).1, ?_, ?_, rfl, rfl, rfl⟩
    · rw [applyAll_append, applyAll_writes_main _ fs d hd, applyAll_flush_main _ (d ++ (bufWrite s.buf l).2.flatten) _ rfl]
    · simp only [List.append_nil, List.append_assoc, hc]
  · refine ⟨d ++ (bufWrite s.buf l).2.flatten, ?_, ?_, rfl, rfl, rfl⟩
    · rw [applyAll_writes_main _ fs d hd]
    · simp only [List.append_assoc, hc]

/-! ### compaction -/

theorem foldl_alive_lines (rj : Bool) (m : AMap) : ∀ st : RecState,
    (m.map fun p => Line.alive p.1 p.2).foldl (applyLine rj) st =
      { st with alive := m.foldl (fun a p => ainsert a p.1 p.2) st.alive } := by
  induction m with
  | nil => intro st; rfl
  | cons p t ih => intro st; simp only [List.map_cons, List.foldl_cons, ih, applyLine]

theorem replay_fold_from (rj : Bool) (ls : List Line) (hls : ∀ l ∈ ls, WFLine l) :
    ∀ x : Bytes, endsNL x = true →
      replay rj (x ++ ls.flatMap printLine) = ls.foldl (applyLine rj) (replay rj x) := by
  induction ls with
  | nil => intro x _; simp
  | cons l ls ih =>
    intro x hx
    have hl := hls l (List.mem_cons_self)
    have hx' : endsNL (x ++ printLine l) = true := endsNL_append _ _ hx (endsNL_printLine l)
    simp only [List.flatMap_cons, List.foldl_cons]
    rw [← List.append_assoc, ih (fun m hm => hls m (List.mem_cons_of_mem _ hm)) _ hx', replay_append_line rj x l hx hl]

theorem endsNL_flatMap_printLine (ls : List Line) : endsNL (ls.flatMap printLine) = true := by
  induction ls with
  | nil => rfl
  | cons l ls ih => simp only [List.flatMap_cons]; exact endsNL_append _ _ (endsNL_printLine l) ih

def compactLineList (ord : Order) (s : Snap) : List Line :=
  (ord s.ncompact s.alive).map (fun p => Line.alive p.1 p.2) ++
    [.clock s.lastClock, .eventClock s.lastEventClock, .queryClock s.lastQueryClock]

theorem compactLines_flatten (ord : Order) (s : Snap) :
    (compactLines ord s).flatten = (compactLineList ord s).flatMap printLine := by
  simp [compactLines, compactLineList, List.flatMap, List.map_append, List.map_map, Function.comp_def]

theorem compact_main (ord : Order) (s : Snap) (fs : FS) (d : Bytes) (hd : fs.main = some d) :
    (fs.applyAll (compact ord s).2).main = some (compactLines ord s).flatten := by
  have hc := bufWriteAll_concat (compactLines ord s) []
  simp only [compact]
  rw [applyAll_append, applyAll_append, applyAll_append, applyAll_append, applyAll_append]
  have h1 : fs.applyAll [.openTrunc .tmp] = { fs with tmp := some [] } := by simp [FS.applyAll, FS.apply, FS.set]
  rw [h1, applyAll_writes_tmp _ _ [] rfl, applyAll_flush_tmp _ ([] ++ (bufWriteAll [] (compactLines ord s)).2.flatten) _ rfl]
  simp only [List.nil_append] at hc ⊢
  rw [hc]
  have h2 : ∀ g : FS, g.applyAll [.sync .tmp, .close .tmp] = g := fun g => rfl
  rw [h2, applyAll_flush_main _ d s.buf (by simpa using hd)]
  simp [FS.applyAll, FS.apply, FS.get, FS.set]

theorem compact_inv (ord : Order) (hord : PermOrder ord) (s : Snap) (fs : FS) (d : Bytes)
    (hd : fs.main = some d) (hwf : WFRec s.mem) :
    Inv (compact ord s).1 (fs.applyAll (compact ord s).2) ∧ SameMem s (compact ord s).1 := by
  refine ⟨⟨(compactLines ord s).flatten, compact_main ord s fs d hd, ?_⟩, rfl, rfl, rfl⟩
  have hperm := hord s.ncompact s.alive
  have hwfl : ∀ l ∈ compactLineList ord s, WFLine l := by
    intro l hl
    simp only [compactLineList, List.mem_append, List.mem_map, List.mem_cons, List.not_mem_nil, or_false] at hl
    rcases hl with ⟨p, hp, rfl⟩ | rfl | rfl | rfl
    · exact hwf.2.1 p (hperm.mem_iff.mp hp)
    · exact hwf.2.2.1
    · exact hwf.2.2.2.1
    · exact hwf.2.2.2.2
  have hrep : replay s.rejoin (compactLines ord s).flatten =
      { alive := (ord s.ncompact s.alive).foldl (fun a p => ainsert a p.1 p.2) [],
        clock := s.lastClock, eventClock := s.lastEventClock, queryClock := s.lastQueryClock } := by
    have := replay_fold_from s.rejoin (compactLineList ord s) hwfl [] rfl
    simp only [List.nil_append] at this
    rw [compactLines_flatten, this]
    simp only [compactLineList, List.foldl_append, foldl_alive_lines, List.foldl_cons, List.foldl_nil, applyLine]
    rfl
  have hnd : (akeys (ord s.ncompact s.alive)).Nodup := (akeys_perm hperm).nodup_iff.mpr hwf.1
  show InvCore s.rejoin _ s.mem ((compactLines ord s).flatten ++ [])
  rw [List.append_nil]
  refine ⟨?_, hwf, ?_, ?_⟩
  · rw [compactLines_flatten]; exact endsNL_flatMap_printLine _
  · intro k
    rw [hrep]
    simp only [alookup_foldl_ainsert _ hnd, alookup_nil, Option.or_none]
    exact alookup_perm hperm hwf.1 k
  · intro _; rw [hrep]; exact ⟨rfl, rfl, rfl⟩

/-! ### appending a line -/

theorem appendLine_inv (ord : Order) (hord : PermOrder ord) (s : Snap) (fs : FS) (d : Bytes) (ln : Line)
    (hd : fs.main = some d) (hnl : endsNL (d ++ s.buf) = true) (hwf : WFRec s.mem) (hln : WFLine ln)
    (hA : MapEq (applyLine s.rejoin (replay s.rejoin (d ++ s.buf)) ln).alive s.mem.alive)
    (hC : Judged s → ClocksEq (applyLine s.rejoin (replay s.rejoin (d ++ s.buf)) ln) s.mem) :
    Inv (appendLine ord s (printLine ln)).1 (fs.applyAll (appendLine ord s (printLine ln)).2) ∧
      SameMem s (appendLine ord s (printLine ln)).1 := by
  obtain ⟨d', hd', hcat, hsame⟩ := appendBytes_spec s (printLine ln) fs d hd
  unfold appendLine
  simp only
  split
  · rw [applyAll_append]
    have := compact_inv ord hord (appendBytes s (printLine ln)).1 _ d' hd' (by rw [hsame.1]; exact hwf)
    exact ⟨this.1, hsame.trans this.2⟩
  · refine ⟨⟨d', hd', ?_⟩, hsame⟩
    unfold Judged
    rw [hcat, hsame.1, hsame.2.1, hsame.2.2]
    unfold InvCore
    rw [replay_append_line _ _ _ hnl hln]
    exact ⟨endsNL_append _ _ hnl (endsNL_printLine ln), hwf, hA, hC⟩

theorem flush_inv (s : Snap) (fs : FS) (h : Inv s fs) (tail : List FsOp)
    (htail : ∀ g : FS, g.applyAll tail = g) :
    Inv { s with buf := [] } (fs.applyAll (flushOps .main s.buf ++ tail)) := by
  obtain ⟨d, hd, hc⟩ := h
  refine ⟨d ++ s.buf, ?_, ?_⟩
  · rw [applyAll_append, htail, applyAll_flush_main fs d s.buf hd]
  · show InvCore s.rejoin (Judged s) s.mem (d ++ s.buf ++ [])
    rw [List.append_nil]; exact hc

end SerfProofs.Snapshot
