/-
Whole-history crash safety of the snapshotter model: at EVERY crash point (every prefix
of the emitted operation list, every byte cut of the write in progress) a restart
recovers — up to the order of the alive map — one of the in-memory states the node went
through since the last point at which nothing was buffered, up to the state it is
recording at that moment.

The history is cut into *pieces* (the writes of one append; a compaction; a flush), each
with its *window* of acceptable states; `PiecesSafe` says every crash point of every
piece recovers a state of the piece's window.
-/
import SerfProofs.Lemmas.SnapshotCrash
namespace SerfProofs.Snapshot
open SerfModel SerfModel.Snapshot

attribute [local irreducible] lastSeenOf

/-! ### recovered state vs in-memory state -/

/-- same rejoin map (as a map) and same three clocks -/
def RecEq (r m : RecState) : Prop := MapEq r.alive m.alive ∧ ClocksEq r m

/-- replaying `file` gives one of the states of `win` -/
def Rec (rj : Bool) (win : List RecState) (file : Bytes) : Prop := ∃ m ∈ win, RecEq (replay rj file) m

theorem Rec.mono {rj : Bool} {w w' : List RecState} {f : Bytes} (h : Rec rj w f) (hs : ∀ m ∈ w, m ∈ w') : Rec rj w' f := by
  obtain ⟨m, hm, he⟩ := h; exact ⟨m, hs m hm, he⟩

/-- `Rec` does not see an unterminated tail -/
theorem replay_torn_tail' (rj : Bool) (x p : Bytes) (hx : endsNL x = true) (hp : '\n' ∉ p) {w : List RecState} :
    Rec rj w (x ++ p) = Rec rj w x := by
  unfold Rec; rw [replay_torn_tail rj x p hx hp]

/-! ### crash points of operations that only append to the snapshot file -/

theorem crashAt_nil (fs : FS) (k cut : Nat) : FS.crashAt fs [] k cut = fs := by
  simp [FS.crashAt, FS.applyAll]

theorem crashAt_cons_succ (fs : FS) (o : FsOp) (t : List FsOp) (k cut : Nat) :
    FS.crashAt fs (o :: t) (k + 1) cut = FS.crashAt (fs.apply o) t k cut := by
  simp [FS.crashAt, FS.applyAll]

/-- writes to the snapshot file and calls without file-system effect -/
def mainAppendOnly : FsOp → Bool
  | .write .main _ => true
  | .flush _ => true
  | .sync _ => true
  | .close _ => true
  | _ => false

def payload : FsOp → Bytes
  | .write .main w => w
  | _ => []

theorem apply_mainAppendOnly (fs : FS) (o : FsOp) (h : mainAppendOnly o = true) (d : Bytes) (hd : fs.main = some d) :
    (fs.apply o).main = some (d ++ payload o) ∧ (fs.apply o).tmp = fs.tmp := by
  cases o with
  | write p w => cases p <;> simp_all [mainAppendOnly, payload, FS.apply, FS.get, FS.set]
  | flush p => simp [payload, FS.apply, hd]
  | sync p => simp [payload, FS.apply, hd]
  | close p => simp [payload, FS.apply, hd]
  | openAppend p => simp [mainAppendOnly] at h
  | openTrunc p => simp [mainAppendOnly] at h
  | remove p => simp [mainAppendOnly] at h
  | rename a b => simp [mainAppendOnly] at h
  | truncate p n => simp [mainAppendOnly] at h

theorem applyAll_mainAppendOnly (ops : List FsOp) (h : ∀ o ∈ ops, mainAppendOnly o = true) : ∀ (fs : FS) (d : Bytes),
    fs.main = some d → (fs.applyAll ops).main = some (d ++ ops.flatMap payload) ∧ (fs.applyAll ops).tmp = fs.tmp := by
  induction ops with
  | nil => intro fs d hd; simp [FS.applyAll, hd]
  | cons o t ih =>
    intro fs d hd
    obtain ⟨h1, h2⟩ := apply_mainAppendOnly fs o (h o List.mem_cons_self) d hd
    obtain ⟨h3, h4⟩ := ih (fun x hx => h x (List.mem_cons_of_mem _ hx)) (fs.apply o) _ h1
    rw [applyAll_cons]
    exact ⟨by rw [h3]; simp [List.append_assoc], h4.trans h2⟩

/-- at every crash point of such operations the snapshot file holds what it held before plus
a byte prefix of what the operations write -/
theorem crashAt_mainAppendOnly (ops : List FsOp) (h : ∀ o ∈ ops, mainAppendOnly o = true) :
    ∀ (fs : FS) (d : Bytes) (k cut : Nat), fs.main = some d →
      ∃ x, (FS.crashAt fs ops k cut).main = some (d ++ (ops.flatMap payload).take x) := by
  induction ops with
  | nil => intro fs d k cut hd; exact ⟨0, by rw [crashAt_nil]; simp [hd]⟩
  | cons o t ih =>
    intro fs d k cut hd
    cases k with
    | zero =>
      cases o with
      | write p w =>
        cases p with
        | main =>
          by_cases hc : cut = 0
          · exact ⟨0, by simp [FS.crashAt, FS.applyAll, hc, hd]⟩
          · refine ⟨min cut w.length, ?_⟩
            simp only [FS.crashAt, List.take_zero, FS.applyAll, List.foldl_nil, List.getElem?_cons_zero, hc, ↓reduceIte,
              FS.apply, FS.get, hd, FS.set, List.flatMap_cons, payload]
            congr 2
            rw [List.take_append_of_le_length (Nat.min_le_right _ _)]
            by_cases hcw : cut ≤ w.length
            · rw [Nat.min_eq_left hcw]
            · rw [Nat.min_eq_right (by omega), List.take_of_length_le (by omega), List.take_of_length_le (Nat.le_refl _)]
        | tmp => simp [mainAppendOnly] at h
      | flush p => exact ⟨0, by simp [FS.crashAt, FS.applyAll, hd]⟩
      | sync p => exact ⟨0, by simp [FS.crashAt, FS.applyAll, hd]⟩
      | close p => exact ⟨0, by simp [FS.crashAt, FS.applyAll, hd]⟩
      | openAppend p => simp [mainAppendOnly] at h
      | openTrunc p => simp [mainAppendOnly] at h
      | remove p => simp [mainAppendOnly] at h
      | rename a b => simp [mainAppendOnly] at h
      | truncate p n => simp [mainAppendOnly] at h
    | succ k =>
      rw [crashAt_cons_succ]
      obtain ⟨h1, _⟩ := apply_mainAppendOnly fs o (h o List.mem_cons_self) d hd
      obtain ⟨x, hx⟩ := ih (fun y hy => h y (List.mem_cons_of_mem _ hy)) (fs.apply o) _ k cut h1
      refine ⟨(payload o).length + x, ?_⟩
      have ht : (payload o ++ t.flatMap payload).take ((payload o).length + x) = payload o ++ (t.flatMap payload).take x := by
        rw [List.take_append, List.take_of_length_le (by omega)]
        congr 2
        omega
      rw [hx, List.flatMap_cons, ht, List.append_assoc]

/-! ### list facts -/

theorem prefix_eq_take {X Y Z : Bytes} (h : X ++ Y = Z) : X = Z.take X.length := by
  rw [← h]; simp

theorem take_take_length (y : Nat) (Z : Bytes) : Z.take (Z.take y).length = Z.take y := by
  rw [List.length_take]
  by_cases h : y ≤ Z.length
  · rw [Nat.min_eq_left h]
  · rw [Nat.min_eq_right (by omega), List.take_of_length_le (Nat.le_refl _), List.take_of_length_le (by omega)]

theorem take_split (A L : Bytes) (c n : Nat) (hc : c ≤ A.length) :
    (A ++ L).take (c + n) = A.take c ++ (A.drop c ++ L).take n := by
  rw [List.take_add, List.take_append_of_le_length hc, List.drop_append_of_le_length hc]

theorem payload_writes (ws : List Bytes) : (ws.map (FsOp.write .main)).flatMap payload = ws.flatten := by
  induction ws with
  | nil => rfl
  | cons w ws ih => simp [payload, ih]

theorem payload_flushOps (b : Bytes) : (flushOps .main b).flatMap payload = b := by
  unfold flushOps
  split
  · rename_i h; simp [payload, h]
  · simp [payload]

theorem mainAppendOnly_flushOps (p : Path) (b : Bytes) : ∀ o ∈ flushOps .main b, mainAppendOnly o = true := by
  intro o ho
  unfold flushOps at ho
  split at ho <;> simp at ho <;> rcases ho with rfl | rfl <;> rfl

theorem appendBytes_ops (s : Snap) (l : Bytes) :
    (∀ o ∈ (appendBytes s l).2, mainAppendOnly o = true) ∧
    ∃ y, (appendBytes s l).2.flatMap payload = (s.buf ++ l).take y := by
  have hc := bufWrite_concat s.buf l
  unfold appendBytes
  simp only
  split
  · constructor
    · intro o ho
      rcases List.mem_append.mp ho with ho | ho
      · obtain ⟨w, _, rfl⟩ := List.mem_map.mp ho; rfl
      · exact mainAppendOnly_flushOps .main _ o ho
    · refine ⟨(s.buf ++ l).length, ?_⟩
      rw [List.flatMap_append, payload_writes, payload_flushOps, hc, List.take_of_length_le (Nat.le_refl _)]
  · constructor
    · intro o ho
      obtain ⟨w, _, rfl⟩ := List.mem_map.mp ho; rfl
    · refine ⟨(bufWrite s.buf l).2.flatten.length, ?_⟩
      rw [payload_writes]
      exact prefix_eq_take hc

/-! ### the crash invariant -/

def flat (ls : List Line) : Bytes := ls.flatMap printLine

theorem flat_append (a b : List Line) : flat (a ++ b) = flat a ++ flat b := by simp [flat]
theorem flat_single (l : Line) : flat [l] = printLine l := by simp [flat]
theorem endsNL_flat (ls : List Line) : endsNL (flat ls) = true := endsNL_flatMap_printLine ls

/-- The C10 invariant, plus: the snapshot file is `base` (what the last compaction / the start
left, newline-terminated) followed by a byte prefix of the lines appended since; the rest of
those lines is in the bufio buffer; every longer prefix replays to a state of the window. -/
def CI (s : Snap) (fs : FS) (win : List RecState) : Prop :=
  Inv s fs ∧ s.leaving = false ∧ s.mem ∈ win ∧
  ∃ (base : Bytes) (ls : List Line) (c : Nat), endsNL base = true ∧ (∀ l ∈ ls, WFLine l) ∧ c ≤ (flat ls).length ∧
    fs.main = some (base ++ (flat ls).take c) ∧ s.buf = (flat ls).drop c ∧
    ∀ c', c ≤ c' → Rec s.rejoin win (base ++ (flat ls).take c')

/-- with the C10 invariant: the whole logical file replays to the memory -/
theorem Inv_full {s : Snap} {fs : FS} (h : Inv s fs) (hl : s.leaving = false) (d : Bytes) (hd : fs.main = some d) :
    RecEq (replay s.rejoin (d ++ s.buf)) s.mem := by
  obtain ⟨d0, hd0, _, _, hA, hC⟩ := h
  have : d0 = d := by rw [hd0] at hd; exact Option.some.inj hd
  subst this
  exact ⟨hA, hC (Or.inl hl)⟩

/-- extending the appended lines by one more line `ln` whose effect leads to `m'` -/
theorem clause_append (rj : Bool) (base : Bytes) (ls : List Line) (ln : Line) (c : Nat) (win : List RecState) (m' : RecState)
    (hb : endsNL base = true) (hln : WFLine ln)
    (hold : ∀ c', c ≤ c' → Rec rj win (base ++ (flat ls).take c'))
    (hfull : RecEq (replay rj (base ++ (flat ls ++ printLine ln))) m') :
    ∀ c', c ≤ c' → Rec rj (win ++ [m']) (base ++ (flat ls ++ printLine ln).take c') := by
  intro c' hc'
  by_cases h1 : c' ≤ (flat ls).length
  · rw [List.take_append_of_le_length h1]
    exact (hold c' hc').mono (fun m hm => List.mem_append_left _ hm)
  · by_cases h2 : c' < (flat ls).length + (printLine ln).length
    · -- the new line is torn: ignored
      have hsplit : (flat ls ++ printLine ln).take c' = flat ls ++ (printLine ln).take (c' - (flat ls).length) := by
        rw [List.take_append, List.take_of_length_le (by omega)]
      rw [hsplit, ← List.append_assoc]
      have hnl : '\n' ∉ (printLine ln).take (c' - (flat ls).length) :=
        take_lt_noNL _ (printBody_noNL ln hln) _ (by unfold printLine at h2; omega)
      rw [replay_torn_tail' rj _ _ (endsNL_append _ _ hb (endsNL_flat ls)) hnl]
      have := hold (max c (flat ls).length) (Nat.le_max_left _ _)
      rw [List.take_of_length_le (Nat.le_max_right _ _)] at this
      exact this.mono (fun m hm => List.mem_append_left _ hm)
    · rw [List.take_of_length_le (by simp; omega)]
      exact ⟨m', by simp, hfull⟩

theorem recoverFile_of_main {fs : FS} {d : Bytes} (h : fs.main = some d) : recoverFile fs = d := by
  simp [recoverFile, h]

/-- **The writes of one append** (`buffered.WriteString`, the periodic flush): every crash point
recovers a state of the window extended by the state being recorded; afterwards the invariant
holds with that window. `s1` is `s` with the in-memory change applied. -/
theorem appendBytes_piece (s s1 : Snap) (fs : FS) (win : List RecState) (ln : Line)
    (hci : CI s fs win) (hbuf : s1.buf = s.buf) (hrj : s1.rejoin = s.rejoin) (hln : WFLine ln)
    (hinv' : Inv (appendBytes s1 (printLine ln)).1 (fs.applyAll (appendBytes s1 (printLine ln)).2))
    (hsame : SameMem s1 (appendBytes s1 (printLine ln)).1) (hlv : s1.leaving = false) :
    (∀ k cut, Rec s.rejoin (win ++ [s1.mem]) (recoverFile (FS.crashAt fs (appendBytes s1 (printLine ln)).2 k cut))) ∧
    CI (appendBytes s1 (printLine ln)).1 (fs.applyAll (appendBytes s1 (printLine ln)).2) (win ++ [s1.mem]) := by
  obtain ⟨_, _, hmem, base, ls, c, hb, hls, hc, hd, hsb, hcl⟩ := hci
  obtain ⟨hmao, y, hy⟩ := appendBytes_ops s1 (printLine ln)
  obtain ⟨hmain', _⟩ := applyAll_mainAppendOnly _ hmao fs _ hd
  obtain ⟨d3, hd3, hcat, _⟩ := appendBytes_spec s1 (printLine ln) fs _ hd
  -- names
  generalize hops : (appendBytes s1 (printLine ln)).2 = ops at *
  generalize hr1 : (appendBytes s1 (printLine ln)).1 = r1 at *
  generalize hW : ops.flatMap payload = W at *
  have hd3' : d3 = base ++ (flat ls).take c ++ W := by
    rw [hmain'] at hd3; exact (Option.some.inj hd3).symm
  subst hd3'
  rw [hbuf, hsb] at hcat hy
  -- the whole logical file afterwards
  have hwhole : base ++ (flat ls).take c ++ W ++ r1.buf = base ++ (flat ls ++ printLine ln) := by
    rw [hcat]
    simp only [List.append_assoc]
    rw [← List.append_assoc ((flat ls).take c), List.take_append_drop]
  have hWlen : W.length ≤ ((flat ls).drop c ++ printLine ln).length := by rw [hy]; simp; omega
  have hWtake : ((flat ls).drop c ++ printLine ln).take W.length = W := by rw [hy]; exact take_take_length _ _
  have hnew : (flat ls ++ printLine ln).take (c + W.length) = (flat ls).take c ++ W := by
    rw [take_split _ _ _ _ hc, hWtake]
  have hfull : RecEq (replay s.rejoin (base ++ (flat ls ++ printLine ln))) s1.mem := by
    have := Inv_full hinv' (hsame.2.2.trans hlv) _ hmain'
    rw [hsame.1, hsame.2.1, hrj, hwhole] at this
    exact this
  have hclause := clause_append s.rejoin base ls ln c win s1.mem hb hln hcl hfull
  constructor
  · intro k cut
    obtain ⟨x, hx⟩ := crashAt_mainAppendOnly ops hmao fs _ k cut hd
    rw [hW] at hx
    rw [recoverFile_of_main hx]
    -- a prefix of W is a prefix of the remaining bytes
    have hxW : W.take x = ((flat ls).drop c ++ printLine ln).take (min x W.length) := by
      have : W.take x = (((flat ls).drop c ++ printLine ln).take W.length).take x := by rw [hWtake]
      rw [this, List.take_take]
    have : base ++ (flat ls).take c ++ W.take x = base ++ (flat ls ++ printLine ln).take (c + min x W.length) := by
      rw [take_split _ _ _ _ hc, hxW, List.append_assoc]
    rw [this]
    exact hclause _ (Nat.le_add_right _ _)
  · refine ⟨hinv', hsame.2.2.trans hlv, by rw [hsame.1]; simp, base, ls ++ [ln], c + W.length, hb, ?_, ?_, ?_, ?_, ?_⟩
    · intro l hl
      rcases List.mem_append.mp hl with hl | hl
      · exact hls l hl
      · simp at hl; subst hl; exact hln
    · rw [flat_append, flat_single]; simp; simp at hWlen; omega
    · rw [flat_append, flat_single, hnew, hmain', List.append_assoc]
    · rw [flat_append, flat_single]
      have h1 : (flat ls ++ printLine ln).take (c + W.length) ++ r1.buf = flat ls ++ printLine ln := by
        rw [hnew]
        have := hwhole
        simp only [List.append_assoc] at this
        have := List.append_cancel_left this
        simpa [List.append_assoc] using this
      exact List.append_cancel_left (h1.trans (List.take_append_drop _ _).symm)
    · rw [flat_append, flat_single, hsame.2.1, hrj]
      intro c' hc'
      exact hclause c' (by omega)

/-! ### crash points of concatenated operation lists -/

theorem crashAt_append_lt (a b : List FsOp) : ∀ (fs : FS) (k cut : Nat), k < a.length →
    FS.crashAt fs (a ++ b) k cut = FS.crashAt fs a k cut := by
  induction a with
  | nil => intro fs k cut h; simp at h
  | cons o t ih =>
    intro fs k cut h
    cases k with
    | zero => simp [FS.crashAt]
    | succ k =>
      rw [List.cons_append, crashAt_cons_succ, crashAt_cons_succ]
      exact ih _ _ _ (by simpa using h)

theorem crashAt_append_ge (a b : List FsOp) : ∀ (fs : FS) (k cut : Nat), a.length ≤ k →
    FS.crashAt fs (a ++ b) k cut = FS.crashAt (fs.applyAll a) b (k - a.length) cut := by
  induction a with
  | nil => intro fs k cut _; simp [FS.applyAll]
  | cons o t ih =>
    intro fs k cut h
    cases k with
    | zero => simp at h
    | succ k =>
      rw [List.cons_append, crashAt_cons_succ, applyAll_cons, ih _ _ _ (by simpa using h)]
      simp

theorem crashAt_tmpOnly_main (ops : List FsOp) (h : ∀ o ∈ ops, tmpOnly o = true) : ∀ (fs : FS) (k cut : Nat),
    (FS.crashAt fs ops k cut).main = fs.main := by
  induction ops with
  | nil => intro fs k cut; rw [crashAt_nil]
  | cons o t ih =>
    intro fs k cut
    cases k with
    | zero =>
      have ho := h o List.mem_cons_self
      cases o with
      | write p w =>
        cases p with
        | main => simp [tmpOnly] at ho
        | tmp =>
          by_cases hc : cut = 0
          · simp [FS.crashAt, FS.applyAll, hc]
          · simp only [FS.crashAt, List.take_zero, FS.applyAll, List.foldl_nil, List.getElem?_cons_zero, hc, ↓reduceIte,
              FS.apply, FS.get]
            split <;> simp [FS.set]
      | openTrunc p => simp [FS.crashAt, FS.applyAll]
      | flush p => simp [FS.crashAt, FS.applyAll]
      | sync p => simp [FS.crashAt, FS.applyAll]
      | close p => simp [FS.crashAt, FS.applyAll]
      | openAppend p => simp [tmpOnly] at ho
      | remove p => simp [tmpOnly] at ho
      | rename a b => simp [tmpOnly] at ho
      | truncate p n => simp [tmpOnly] at ho
    | succ k =>
      rw [crashAt_cons_succ, ih (fun x hx => h x (List.mem_cons_of_mem _ hx)), apply_tmpOnly_main fs o (h o List.mem_cons_self)]

/-- **Every crash point of a compaction, with a write cut anywhere**: the restart reads the old
file plus a byte prefix of the buffer being flushed, or the complete compacted file. -/
theorem compact_crash_points_cut (ord : Order) (s : Snap) (fs : FS) (d : Bytes) (hd : fs.main = some d) (k cut : Nat) :
    (∃ x, recoverFile (FS.crashAt fs (compact ord s).2 k cut) = d ++ s.buf.take x) ∨
    recoverFile (FS.crashAt fs (compact ord s).2 k cut) = (compactLines ord s).flatten := by
  rw [compact_ops_eq']
  by_cases hk : k < (compactTmpOps ord s).length
  · rw [crashAt_append_lt _ _ _ _ _ hk]
    left
    refine ⟨0, ?_⟩
    have := crashAt_tmpOnly_main _ (compactTmpOps_tmpOnly ord s) fs k cut
    rw [hd] at this
    simp [recoverFile_of_main this]
  · rw [crashAt_append_ge _ _ _ _ _ (by omega)]
    obtain ⟨ht, hm⟩ := compactTmpOps_result ord s fs
    generalize fs.applyAll (compactTmpOps ord s) = g at ht hm ⊢
    rw [hd] at hm
    generalize k - (compactTmpOps ord s).length = j
    have hg : g = { main := some d, tmp := some (compactLines ord s).flatten } := by cases g; simp_all
    subst hg
    by_cases hj : j < (flushOps .main s.buf).length
    · rw [crashAt_append_lt _ _ _ _ _ hj]
      left
      obtain ⟨x, hx⟩ := crashAt_mainAppendOnly _ (mainAppendOnly_flushOps .main s.buf)
        ({ main := some d, tmp := some (compactLines ord s).flatten } : FS) d j cut rfl
      rw [payload_flushOps] at hx
      exact ⟨x, recoverFile_of_main hx⟩
    · rw [crashAt_append_ge _ _ _ _ _ (by omega)]
      obtain ⟨hm2, ht2⟩ := applyAll_mainAppendOnly _ (mainAppendOnly_flushOps .main s.buf)
        ({ main := some d, tmp := some (compactLines ord s).flatten } : FS) d rfl
      rw [payload_flushOps] at hm2
      generalize ({ main := some d, tmp := some (compactLines ord s).flatten } : FS).applyAll (flushOps .main s.buf) = g2 at hm2 ht2 ⊢
      have hg2 : g2 = { main := some (d ++ s.buf), tmp := some (compactLines ord s).flatten } := by cases g2; simp_all
      subst hg2
      generalize j - (flushOps .main s.buf).length = i
      match i with
      | 0 => left; exact ⟨s.buf.length, by simp [recoverFile, FS.crashAt, FS.applyAll]⟩
      | 1 => left; exact ⟨s.buf.length, by simp [recoverFile, FS.crashAt, FS.applyAll, FS.apply]⟩
      | 2 => right; simp [recoverFile, FS.crashAt, FS.applyAll, FS.apply, FS.set]
      | 3 => right; simp [recoverFile, FS.crashAt, FS.applyAll, FS.apply, FS.set, FS.get]
      | n + 4 => right; simp [recoverFile, FS.crashAt, FS.applyAll, FS.apply, FS.set, FS.get]

/-! ### pieces without an in-memory change -/

/-- the clause for a window reduced to the current state, when everything is on disk -/
theorem clause_quiet (s : Snap) (fs : FS) (base : Bytes) (ls : List Line) (hinv : Inv s fs) (hl : s.leaving = false)
    (hmain : fs.main = some (base ++ flat ls)) (hbuf : s.buf = []) :
    ∀ c', (flat ls).length ≤ c' → Rec s.rejoin [s.mem] (base ++ (flat ls).take c') := by
  intro c' hc'
  rw [List.take_of_length_le hc']
  have := Inv_full hinv hl _ hmain
  rw [hbuf, List.append_nil] at this
  exact ⟨s.mem, by simp, this⟩

/-- nothing buffered: the window shrinks to the current state -/
theorem CI_shrink (s : Snap) (fs : FS) (win : List RecState) (h : CI s fs win) (hbuf : s.buf = []) : CI s fs [s.mem] := by
  obtain ⟨hinv, hl, _, base, ls, c, hb, hls, hc, hd, hsb, _⟩ := h
  have hc' : c = (flat ls).length := by
    rw [hbuf] at hsb
    have := List.drop_eq_nil_iff.mp hsb.symm
    omega
  subst hc'
  rw [List.take_of_length_le (Nat.le_refl _)] at hd
  exact ⟨hinv, hl, by simp, base, ls, (flat ls).length, hb, hls, Nat.le_refl _,
    by rw [List.take_of_length_le (Nat.le_refl _)]; exact hd, hsb, clause_quiet s fs base ls hinv hl hd hbuf⟩

/-- **A flush** (shutdown): crash points recover a state of the window; afterwards nothing is buffered. -/
theorem flush_piece (s : Snap) (fs : FS) (win : List RecState) (hci : CI s fs win) (tail : List FsOp)
    (htail : ∀ o ∈ tail, mainAppendOnly o = true ∧ payload o = []) (htail' : ∀ g : FS, g.applyAll tail = g) :
    (∀ k cut, Rec s.rejoin win (recoverFile (FS.crashAt fs (flushOps .main s.buf ++ tail) k cut))) ∧
    CI (clearBuf s) (fs.applyAll (flushOps .main s.buf ++ tail)) [s.mem] := by
  obtain ⟨hinv, hl, _, base, ls, c, hb, hls, hc, hd, hsb, hcl⟩ := hci
  have hmao : ∀ o ∈ flushOps .main s.buf ++ tail, mainAppendOnly o = true := by
    intro o ho
    rcases List.mem_append.mp ho with ho | ho
    · exact mainAppendOnly_flushOps .main _ o ho
    · exact (htail o ho).1
  have hpay : (flushOps .main s.buf ++ tail).flatMap payload = s.buf := by
    rw [List.flatMap_append, payload_flushOps]
    have : tail.flatMap payload = [] := by
      apply List.flatMap_eq_nil_iff.mpr
      intro o ho; exact (htail o ho).2
    rw [this, List.append_nil]
  have hinv' := flush_inv' s fs hinv tail htail'
  obtain ⟨hmain', _⟩ := applyAll_mainAppendOnly _ hmao fs _ hd
  have hcat : base ++ (flat ls).take c ++ s.buf = base ++ flat ls := by
    rw [hsb, List.append_assoc, List.take_append_drop]
  rw [hpay, hcat] at hmain'
  constructor
  · intro k cut
    obtain ⟨x, hx⟩ := crashAt_mainAppendOnly _ hmao fs _ k cut hd
    rw [hpay] at hx
    have hpre : base ++ (flat ls).take c ++ s.buf.take x = base ++ (flat ls).take (c + x) := by
      rw [hsb, List.append_assoc, ← List.take_add]
    rw [recoverFile_of_main hx, hpre]
    exact hcl _ (Nat.le_add_right _ _)
  · refine ⟨hinv', (clearBuf_leaving s).trans hl, by rw [clearBuf_mem]; simp, base, ls, (flat ls).length, hb, hls,
      Nat.le_refl _, by rw [List.take_of_length_le (Nat.le_refl _)]; exact hmain', by rw [clearBuf_buf]; simp, ?_⟩
    have := clause_quiet (clearBuf s) _ base ls hinv' ((clearBuf_leaving s).trans hl) hmain' (clearBuf_buf s)
    rw [clearBuf_mem] at this
    exact this

theorem compact_buf (ord : Order) (s : Snap) : (compact ord s).1.buf = [] := rfl

/-- **A compaction**: crash points (the remove..rename window included, writes cut anywhere)
recover a state of the window; afterwards the file is the compacted state and nothing is buffered. -/
theorem compact_piece (ord : Order) (hord : PermOrder ord) (s : Snap) (fs : FS) (win : List RecState) (hci : CI s fs win) :
    (∀ k cut, Rec s.rejoin win (recoverFile (FS.crashAt fs (compact ord s).2 k cut))) ∧
    CI (compact ord s).1 (fs.applyAll (compact ord s).2) [s.mem] := by
  obtain ⟨hinv, hl, hmem, base, ls, c, hb, hls, hc, hd, hsb, hcl⟩ := hci
  obtain ⟨hinvC, hsame⟩ := compact_inv ord hord s fs _ hd (Inv_wf hinv)
  have hmainC := compact_main ord s fs _ hd
  have hrec : RecEq (replay s.rejoin (compactLines ord s).flatten) s.mem := by
    have := Inv_full hinvC (hsame.2.2.trans hl) _ hmainC
    rw [compact_buf, List.append_nil, hsame.1, hsame.2.1] at this
    exact this
  constructor
  · intro k cut
    rcases compact_crash_points_cut ord s fs _ hd k cut with ⟨x, hx⟩ | hx
    · rw [hx, hsb, List.append_assoc, ← List.take_add]
      exact hcl _ (Nat.le_add_right _ _)
    · rw [hx]
      exact ⟨s.mem, hmem, hrec⟩
  · refine ⟨hinvC, hsame.2.2.trans hl, by rw [hsame.1]; simp, (compactLines ord s).flatten, [], 0, ?_, by simp, by simp [flat],
      by simpa [flat] using hmainC, by rw [compact_buf]; simp [flat], ?_⟩
    · rw [compactLines_flatten]; exact endsNL_flatMap_printLine _
    · intro c' _
      simp only [flat, List.flatMap_nil, List.take_nil, List.append_nil]
      have hr : (compact ord s).1.rejoin = s.rejoin := hsame.2.1
      rw [hr]
      exact ⟨s.mem, by simp, hrec⟩

/-- the fresh snapshotter right after its open -/
theorem CI_init (rj : Bool) (mc : Nat) :
    CI (Snap.init rj mc).1 (({} : FS).applyAll (Snap.init rj mc).2) [(Snap.init rj mc).1.mem] :=
  ⟨init_inv rj mc, rfl, by simp, [], [], 0, rfl, by simp, by simp [flat], rfl, rfl, by
    intro c' _
    simp only [flat, List.flatMap_nil, List.take_nil, List.append_nil]
    exact ⟨(Snap.init rj mc).1.mem, by simp, ⟨fun _ => rfl, rfl, rfl, rfl⟩⟩⟩

end SerfProofs.Snapshot
