/-
Lemmas about the configuration-merge interpreter (`SerfModel.Config`): lookups in
a merged record, `maps.Copy` as an association-list fold, per-rule associativity,
the heap view never writing below the allocation point.
-/
import SerfModel.Model.Config
import SerfProofs.Lemmas.Assoc
namespace SerfProofs.Config
open SerfModel SerfModel.Config

/-! ### records -/

def names (t : List FieldSpec) : List String := t.map (·.name)

theorem alookup_map_spec (g : FieldSpec → FieldVal) (t : List FieldSpec) (hnd : (names t).Nodup)
    (fs : FieldSpec) (hfs : fs ∈ t) :
    alookup (t.map fun x => (x.name, g x)) fs.name = some (g fs) := by
  induction t with
  | nil => simp at hfs
  | cons x t ih =>
    simp only [names, List.map_cons, List.nodup_cons] at hnd
    simp only [List.map_cons]
    rw [alookup_cons]
    rcases List.mem_cons.mp hfs with h | h
    · subst h; simp
    · have : ¬ (x.name == fs.name) = true := by
        intro e
        apply hnd.1
        rw [eq_of_beq e]
        exact List.mem_map_of_mem (f := (·.name)) h
      simp only [this]
      exact ih hnd.2 h

theorem get_merge (t : List FieldSpec) (hnd : (names t).Nodup) (a b : Config) (fs : FieldSpec) (hfs : fs ∈ t) :
    get (merge t a b) fs.name = mergeVal fs.rule (get a fs.name) (get b fs.name) := by
  have h := alookup_map_spec (fun x => mergeVal x.rule (get a x.name) (get b x.name)) t hnd fs hfs
  show (alookup (merge t a b) fs.name).getD (.str "") = _
  unfold merge
  rw [h]; rfl

theorem get_zero (t : List FieldSpec) (hnd : (names t).Nodup) (fs : FieldSpec) (hfs : fs ∈ t) :
    get (zero t) fs.name = zeroVal fs.kind := by
  have h := alookup_map_spec (fun x => zeroVal x.kind) t hnd fs hfs
  show (alookup (zero t) fs.name).getD (.str "") = _
  unfold zero
  rw [h]; rfl

/-! ### maps.Copy -/

/-- later-wins choice -/
def over (b a : Option String) : Option String :=
  match b with
  | some v => some v
  | none => a

@[simp] theorem over_none_left (a : Option String) : over none a = a := rfl
@[simp] theorem over_none_right (b : Option String) : over b none = b := by cases b <;> rfl
theorem over_assoc (c b a : Option String) : over c (over b a) = over (over c b) a := by
  cases c <;> cases b <;> rfl

theorem copyInto_cons (dst : Tags) (p : String × String) (src : Tags) :
    copyInto dst (p :: src) = copyInto (ainsert dst p.1 p.2) src := by
  simp [copyInto]

theorem alookup_copyInto (src : Tags) : ∀ (dst : Tags), (akeys src).Nodup → ∀ k,
    alookup (copyInto dst src) k = over (alookup src k) (alookup dst k) := by
  induction src with
  | nil => intro dst _ k; simp [copyInto]
  | cons p src ih =>
    intro dst hnd k
    simp only [akeys, List.map_cons, List.nodup_cons] at hnd
    rw [copyInto_cons, ih _ hnd.2 k, alookup_ainsert, alookup_cons]
    by_cases hk : k = p.1
    · subst hk
      have : alookup src p.1 = none := (alookup_eq_none_iff src p.1).2 hnd.1
      simp [this, over]
    · have h1 : ¬ (k == p.1) = true := by simpa using hk
      have h2 : ¬ (p.1 == k) = true := by simpa using (fun e => hk (Eq.symm e))
      simp [h1, h2]

theorem akeys_copyInto_nodup (src : Tags) : ∀ dst : Tags, (akeys dst).Nodup → (akeys (copyInto dst src)).Nodup := by
  induction src with
  | nil => intro dst h; simpa [copyInto] using h
  | cons p src ih =>
    intro dst h
    rw [copyInto_cons]
    exact ih _ (akeys_ainsert_nodup dst p.1 p.2 h)

/-- a Go map value: no duplicate keys -/
def tagsND (x : Option Tags) : Prop := (akeys (x.getD [])).Nodup

theorem tagsND_none : tagsND none := by simp [tagsND, akeys]

theorem tagsND_mergeTags (x y : Option Tags) : tagsND (mergeTags x y) := by
  unfold mergeTags
  split
  · exact tagsND_none
  · simp only [tagsND, Option.getD_some]
    exact akeys_copyInto_nodup _ _ (akeys_copyInto_nodup _ _ (by simp [akeys]))

theorem isSome_mergeTags (x y : Option Tags) : (mergeTags x y).isSome = (x.isSome || y.isSome) := by
  cases x <;> cases y <;> simp [mergeTags]

theorem alookup_mergeTags (x y : Option Tags) (hx : tagsND x) (hy : tagsND y) (k : String) :
    alookup ((mergeTags x y).getD []) k = over (alookup (y.getD []) k) (alookup (x.getD []) k) := by
  unfold mergeTags
  split
  · simp
  · simp only [Option.getD_some]
    rw [alookup_copyInto _ _ hy, alookup_copyInto _ _ hx]
    simp

theorem tagsND_mergeTagsInPlace (x y : Option Tags) (hx : tagsND x) : tagsND (mergeTagsInPlace x y) := by
  cases y with
  | none => simpa [mergeTagsInPlace] using hx
  | some b =>
    simp only [mergeTagsInPlace, tagsND, Option.getD_some]
    exact akeys_copyInto_nodup _ _ hx

theorem alookup_mergeTagsInPlace (x y : Option Tags) (hy : tagsND y) (k : String) :
    alookup ((mergeTagsInPlace x y).getD []) k = over (alookup (y.getD []) k) (alookup (x.getD []) k) := by
  cases y with
  | none => simp [mergeTagsInPlace]
  | some b =>
    simp only [mergeTagsInPlace, Option.getD_some]
    exact alookup_copyInto _ _ hy k

theorem isSome_mergeTagsInPlace (x y : Option Tags) : (mergeTagsInPlace x y).isSome = (x.isSome || y.isSome) := by
  cases x <;> cases y <;> simp [mergeTagsInPlace]

/-! ### kinds -/

theorem hasKind_str {v : FieldVal} (h : hasKind .str v = true) : ∃ s, v = .str s := by
  cases v <;> simp [hasKind] at h; exact ⟨_, rfl⟩
theorem hasKind_int {v : FieldVal} (h : hasKind .int v = true) : ∃ i, v = .int i := by
  cases v <;> simp [hasKind] at h; exact ⟨_, rfl⟩
theorem hasKind_dur {v : FieldVal} (h : hasKind .dur v = true) : ∃ i, v = .int i := by
  cases v <;> simp [hasKind] at h; exact ⟨_, rfl⟩
theorem hasKind_bool {v : FieldVal} (h : hasKind .bool v = true) : ∃ b, v = .bool b := by
  cases v <;> simp [hasKind] at h; exact ⟨_, rfl⟩
theorem hasKind_list {v : FieldVal} (h : hasKind .list v = true) : ∃ l, v = .list l := by
  cases v <;> simp [hasKind] at h; exact ⟨_, rfl⟩
theorem hasKind_tags {v : FieldVal} (h : hasKind .tags v = true) : ∃ x, v = .tags x ∧ tagsND x := by
  cases v with
  | tags m =>
    refine ⟨m, rfl, ?_⟩
    cases m with
    | none => exact tagsND_none
    | some l => simpa [hasKind, tagsND, akeys] using h
  | _ => simp [hasKind] at h

theorem hasKind_tags_of (x : Option Tags) (h : tagsND x) : hasKind .tags (.tags x) = true := by
  cases x with
  | none => rfl
  | some l => simpa [hasKind, tagsND, akeys] using h

theorem valEq_refl (v : FieldVal) : valEq v v := by
  cases v <;> simp [valEq]

theorem valEq_of_eq {u v : FieldVal} (h : u = v) : valEq u v := h ▸ valEq_refl u

/-! ### per-rule associativity -/

theorem assoc_str (r : Rule) (hc : compat r .str = true) (x y z : String) :
    mergeVal r (mergeVal r (.str x) (.str y)) (.str z) = mergeVal r (.str x) (mergeVal r (.str y) (.str z)) := by
  cases r <;> simp [compat] at hc
  · by_cases hz : z = "" <;> by_cases hy : y = "" <;> simp [mergeVal, hz, hy]
  · simp [mergeVal]
  · simp [mergeVal]

theorem assoc_int (r : Rule) (hc : compat r .int = true) (x y z : Int) :
    mergeVal r (mergeVal r (.int x) (.int y)) (.int z) = mergeVal r (.int x) (mergeVal r (.int y) (.int z)) := by
  cases r <;> simp [compat] at hc
  · by_cases hz : z = 0 <;> by_cases hy : y = 0 <;> simp [mergeVal, hz, hy]
  · by_cases hz : z > 0 <;> by_cases hy : y > 0 <;> simp [mergeVal, hz, hy]
  · simp [mergeVal]
  · simp [mergeVal]

theorem assoc_bool (r : Rule) (hc : compat r .bool = true) (x y z : Bool) :
    mergeVal r (mergeVal r (.bool x) (.bool y)) (.bool z) = mergeVal r (.bool x) (mergeVal r (.bool y) (.bool z)) := by
  cases r <;> simp [compat] at hc <;> cases x <;> cases y <;> cases z <;> simp [mergeVal]

theorem assoc_list (r : Rule) (hc : compat r .list = true) (x y z : List String) :
    mergeVal r (mergeVal r (.list x) (.list y)) (.list z) = mergeVal r (.list x) (mergeVal r (.list y) (.list z)) := by
  cases r <;> simp [compat] at hc <;> simp [mergeVal]

theorem assoc_tags (r : Rule) (hc : compat r .tags = true) (x y z : Option Tags)
    (hx : tagsND x) (hy : tagsND y) (hz : tagsND z) :
    valEq (mergeVal r (mergeVal r (.tags x) (.tags y)) (.tags z)) (mergeVal r (.tags x) (mergeVal r (.tags y) (.tags z))) := by
  cases r <;> simp [compat] at hc
  · exact valEq_of_eq (by simp [mergeVal])
  · simp only [mergeVal, valEq]
    refine ⟨by simp [isSome_mergeTags, Bool.or_assoc], fun k => ?_⟩
    rw [alookup_mergeTags _ _ (tagsND_mergeTags x y) hz, alookup_mergeTags _ _ hx hy,
      alookup_mergeTags _ _ hx (tagsND_mergeTags y z), alookup_mergeTags _ _ hy hz, over_assoc]
  · simp only [mergeVal, valEq]
    refine ⟨by simp [isSome_mergeTagsInPlace, Bool.or_assoc], fun k => ?_⟩
    rw [alookup_mergeTagsInPlace _ _ hz, alookup_mergeTagsInPlace _ _ hy,
      alookup_mergeTagsInPlace _ _ (tagsND_mergeTagsInPlace y z hy), alookup_mergeTagsInPlace _ _ hz, over_assoc]
  · exact valEq_of_eq (by simp [mergeVal])

theorem mergeVal_assoc (r : Rule) (k : Kind) (hc : compat r k = true) (a b c : FieldVal)
    (ha : hasKind k a = true) (hb : hasKind k b = true) (hcc : hasKind k c = true) :
    valEq (mergeVal r (mergeVal r a b) c) (mergeVal r a (mergeVal r b c)) := by
  cases k with
  | str =>
    obtain ⟨x, rfl⟩ := hasKind_str ha; obtain ⟨y, rfl⟩ := hasKind_str hb; obtain ⟨z, rfl⟩ := hasKind_str hcc
    exact valEq_of_eq (assoc_str r hc x y z)
  | int =>
    obtain ⟨x, rfl⟩ := hasKind_int ha; obtain ⟨y, rfl⟩ := hasKind_int hb; obtain ⟨z, rfl⟩ := hasKind_int hcc
    exact valEq_of_eq (assoc_int r hc x y z)
  | dur =>
    obtain ⟨x, rfl⟩ := hasKind_dur ha; obtain ⟨y, rfl⟩ := hasKind_dur hb; obtain ⟨z, rfl⟩ := hasKind_dur hcc
    exact valEq_of_eq (assoc_int r (by cases r <;> simp_all [compat]) x y z)
  | bool =>
    obtain ⟨x, rfl⟩ := hasKind_bool ha; obtain ⟨y, rfl⟩ := hasKind_bool hb; obtain ⟨z, rfl⟩ := hasKind_bool hcc
    exact valEq_of_eq (assoc_bool r hc x y z)
  | list =>
    obtain ⟨x, rfl⟩ := hasKind_list ha; obtain ⟨y, rfl⟩ := hasKind_list hb; obtain ⟨z, rfl⟩ := hasKind_list hcc
    exact valEq_of_eq (assoc_list r hc x y z)
  | tags =>
    obtain ⟨x, rfl, hx⟩ := hasKind_tags ha; obtain ⟨y, rfl, hy⟩ := hasKind_tags hb; obtain ⟨z, rfl, hz⟩ := hasKind_tags hcc
    exact assoc_tags r hc x y z hx hy hz

/-- merging keeps every field at its type -/
theorem hasKind_mergeVal (r : Rule) (k : Kind) (hc : compat r k = true) (a b : FieldVal)
    (ha : hasKind k a = true) (hb : hasKind k b = true) : hasKind k (mergeVal r a b) = true := by
  cases k with
  | str =>
    obtain ⟨x, rfl⟩ := hasKind_str ha; obtain ⟨y, rfl⟩ := hasKind_str hb
    cases r <;> simp [compat] at hc <;> simp only [mergeVal] <;> (try split) <;> rfl
  | int =>
    obtain ⟨x, rfl⟩ := hasKind_int ha; obtain ⟨y, rfl⟩ := hasKind_int hb
    cases r <;> simp [compat] at hc <;> simp only [mergeVal] <;> (try split) <;> rfl
  | dur =>
    obtain ⟨x, rfl⟩ := hasKind_dur ha; obtain ⟨y, rfl⟩ := hasKind_dur hb
    cases r <;> simp [compat] at hc <;> simp only [mergeVal] <;> (try split) <;> rfl
  | bool =>
    obtain ⟨x, rfl⟩ := hasKind_bool ha; obtain ⟨y, rfl⟩ := hasKind_bool hb
    cases r <;> simp [compat] at hc <;> cases x <;> cases y <;> simp [mergeVal, hasKind]
  | list =>
    obtain ⟨x, rfl⟩ := hasKind_list ha; obtain ⟨y, rfl⟩ := hasKind_list hb
    cases r <;> simp [compat] at hc <;> simp [mergeVal, hasKind]
  | tags =>
    obtain ⟨x, rfl, hx⟩ := hasKind_tags ha; obtain ⟨y, rfl, hy⟩ := hasKind_tags hb
    cases r <;> simp [compat] at hc <;> simp only [mergeVal]
    · exact hasKind_tags_of _ hy
    · exact hasKind_tags_of _ (tagsND_mergeTags x y)
    · exact hasKind_tags_of _ (tagsND_mergeTagsInPlace x y hx)
    · exact hasKind_tags_of _ hx

/-! ### ReadConfigPaths as a fold -/

theorem allOk_append (xs ys : List (Option Config)) :
    allOk (xs ++ ys) = match allOk xs with
      | none => none
      | some l => (allOk ys).map (l ++ ·) := by
  induction xs with
  | nil => simp [allOk]
  | cons x xs ih =>
    cases x with
    | none => simp [allOk]
    | some c =>
      simp only [List.cons_append, allOk, ih]
      cases allOk xs with
      | none => simp
      | some l => cases allOk ys <;> simp

theorem readDir_eq (t : List FieldSpec) (es : List DirEnt) : ∀ acc,
    readDir t es acc =
      (allOk ((es.filter (fun e => !e.isDir && isJson e.name)).map (·.cfg))).map (fun cs => cs.foldl (merge t) acc) := by
  induction es with
  | nil => intro acc; simp [readDir, allOk]
  | cons e es ih =>
    intro acc
    by_cases hd : e.isDir = true
    · simp [readDir, hd, ih]
    · by_cases hj : isJson e.name = true
      · cases hc : e.cfg with
        | none => simp [readDir, hd, hj, hc, allOk]
        | some c =>
          simp only [readDir, hd, hj, hc, ih]
          simp [allOk, hd, hj, hc, Option.map_map, Function.comp_def]
      · simp [readDir, hd, hj, ih]

theorem readLoop_eq (t : List FieldSpec) (ps : List PathArg) : ∀ acc,
    readLoop t ps acc = (allOk (sources ps)).map (fun cs => cs.foldl (merge t) acc) := by
  induction ps with
  | nil => intro acc; simp [readLoop, sources, allOk]
  | cons p ps ih =>
    intro acc
    cases p with
    | unreadable => simp [readLoop, sources, allOk]
    | file c =>
      cases c with
      | none => simp [readLoop, sources, allOk]
      | some c => simp [readLoop, sources, allOk, ih, Option.map_map, Function.comp_def]
    | dir ents =>
      simp only [readLoop, sources, allOk_append, readDir_eq, dirSources]
      cases allOk (((sortEnts ents).filter (fun e => !e.isDir && isJson e.name)).map (·.cfg)) with
      | none => simp
      | some l =>
        simp only [Option.map_some, ih]
        cases allOk (sources ps) <;> simp

/-! ### heap view: nothing below the allocation point is written -/

/-- every object of `h` is still there, unchanged, in `h'` -/
def Keeps (h h' : Heap) : Prop := h.length ≤ h'.length ∧ ∀ i, i < h.length → h'[i]? = h[i]?

theorem Keeps.refl (h : Heap) : Keeps h h := ⟨Nat.le_refl _, fun _ _ => rfl⟩

theorem Keeps.trans {h1 h2 h3 : Heap} (a : Keeps h1 h2) (b : Keeps h2 h3) : Keeps h1 h3 :=
  ⟨Nat.le_trans a.1 b.1, fun i hi => by rw [b.2 i (Nat.lt_of_lt_of_le hi a.1), a.2 i hi]⟩

theorem keeps_alloc (h : Heap) (o : Obj) : Keeps h (h ++ [o]) :=
  ⟨by simp, fun i hi => by simp [List.getElem?_append_left hi]⟩

theorem keeps_write_fresh {h h' : Heap} (hk : Keeps h h') (n : Nat) (hn : h.length ≤ n) (o : Obj) :
    Keeps h (hwrite h' n o) := by
  refine ⟨by simpa [hwrite] using hk.1, fun i hi => ?_⟩
  have hne : n ≠ i := by omega
  simp only [hwrite]
  rw [List.getElem?_set_ne hne]
  exact hk.2 i hi

theorem mergeFieldH_keeps (h : Heap) (r : Rule) (a b : RVal) (hr : r ≠ .tagsInPlace) :
    Keeps h (mergeFieldH h r a b).1 := by
  unfold mergeFieldH
  split
  · split
    · exact Keeps.refl h
    · exact keeps_write_fresh (keeps_write_fresh (keeps_alloc h _) _ (Nat.le_refl _) _) _ (Nat.le_refl _) _
  · exact absurd rfl hr
  · exact keeps_write_fresh (keeps_write_fresh (keeps_alloc h _) _ (Nat.le_refl _) _) _ (Nat.le_refl _) _
  · exact Keeps.refl h
  · exact Keeps.refl h
  · exact Keeps.refl h

theorem mergeHLoop_keeps (t : List FieldSpec) (ht : ∀ fs ∈ t, fs.rule ≠ .tagsInPlace) :
    ∀ (h : Heap) (a b acc : RConfig), Keeps h (mergeHLoop t h a b acc).1 := by
  induction t with
  | nil => intro h a b acc; exact Keeps.refl h
  | cons fs rest ih =>
    intro h a b acc
    simp only [mergeHLoop]
    exact (mergeFieldH_keeps h fs.rule _ _ (ht fs (by simp))).trans
      (ih (fun x hx => ht x (by simp [hx])) _ a b _)

end SerfProofs.Config
