/-
Lemmas about the configuration-merge interpreter (`SerfModel.Config`): lookups in
a merged record, `maps.Copy` as an association-list fold, per-rule associativity,
the heap view never writing below the allocation point.
-/
import SerfModel.Model.Config
import SerfProofs.Lemmas.Assoc
namespace SerfProofs.Config
open SerfModel SerfModel.Config

/-! ### records -/

def names (t : List FieldSpec) : List String := t.map (·.name)

theorem alookup_map_spec (g : FieldSpec → FieldVal) (t : List FieldSpec) (hnd : (names t).Nodup)
    (fs : FieldSpec) (hfs : fs ∈ t) :
    alookup (t.map fun x => (x.name, g x)) fs.name = some (g fs) := by
  induction t with
  | nil => simp at hfs
  | cons x t ih =>
    simp only [names, List.map_cons, List.nodup_cons] at hnd
    simp only [List.map_cons]
    rw [alookup_cons]
    rcases List.mem_cons.mp hfs with h | h
    · subst h; simp
    · have : ¬ (x.name == fs.name) = true := by
        intro e
        apply hnd.1
        rw [eq_of_beq e]
        exact List.mem_map_of_mem (f := (·.name)) h
      simp only [this]
      exact ih hnd.2 h

theorem get_merge (t : List FieldSpec) (hnd : (names t).Nodup) (a b : Config) (fs : FieldSpec) (hfs : fs ∈ t) :
    get (merge t a b) fs.name = mergeVal fs.rule (get a fs.name) (get b fs.name) := by
  have h := alookup_map_spec (fun x => mergeVal x.rule (get a x.name) (get b x.name)) t hnd fs hfs
  show (alookup (merge t a b) fs.name).getD (.str "") = _
  unfold merge
  rw [h]; rfl

theorem get_zero (t : List FieldSpec) (hnd : (names t).Nodup) (fs : FieldSpec) (hfs : fs ∈ t) :
    get (zero t) fs.name = zeroVal fs.kind := by
  have h := alookup_map_spec (fun x => zeroVal x.kind) t hnd fs hfs
  show (alookup (zero t) fs.name).getD (.str "") = _
  unfold zero
  rw [h]; rfl

/-! ### maps.Copy -/

/-- later-wins choice -/
def over (b a : Option String) : Option String :=
  match b with
  | some v => some v
  | none => a

@[simp] theorem over_none_left (a : Option String) : over none a = a := rfl
@[simp] theorem over_none_right (b : Option String) : over b none = b := by cases b <;> rfl
theorem over_assoc (c b a : Option String) : over c (over b a) = over (over c b) a := by
  cases c <;> cases b <;> rfl

theorem copyInto_cons (dst : Tags) (p : String × String) (src : Tags) :
    copyInto dst (p :: src) = copyInto (ainsert dst p.1 p.2) src := by
  simp [copyInto]

theorem alookup_copyInto (src : Tags) : ∀ (dst : Tags), (akeys src).Nodup → ∀ k,
    alookup (copyInto dst src) k = over (alookup src k) (alookup dst k) := by
  induction src with
  | nil => intro dst _ k; simp [copyInto]
  | cons p src ih =>
    intro dst hnd k
    simp only [akeys, List.map_cons, List.nodup_cons] at hnd
    rw [copyInto_cons, ih _ hnd.2 k, alookup_ainsert, alookup_cons]
    by_cases hk : k = p.1
    · subst hk
      have : alookup src p.1 = none := (alookup_eq_none_iff src p.1).2 hnd.1
      simp [this, over]
    · have h1 : ¬ (k == p.1) = true := by simpa using hk
      have h2 : ¬ (p.1 == k) = true := by simpa using (fun e => hk (Eq.symm e))
      simp [h1, h2]

theorem akeys_copyInto_nodup (src : Tags) : ∀ dst : Tags, (akeys dst).Nodup → (akeys (copyInto dst src)).Nodup := by
  induction src with
  | nil => intro dst h; simpa [copyInto] using h
  | cons p src ih =>
    intro dst h
    rw [copyInto_cons]
    exact ih _ (akeys_ainsert_nodup dst p.1 p.2 h)

/-- a Go map value: no duplicate keys -/
def tagsND (x : Option Tags) : Prop := (akeys (x.getD [])).Nodup

theorem tagsND_none : tagsND none := by simp [tagsND, akeys]

theorem tagsND_mergeTags (x y : Option Tags) : tagsND (mergeTags x y) := by
  unfold mergeTags
  split
  · exact tagsND_none
  · simp only [tagsND, Option.getD_some]
    exact akeys_copyInto_nodup _ _ (akeys_copyInto_nodup _ _ (by simp [akeys]))

theorem isSome_mergeTags (x y : Option Tags) : (mergeTags x y).isSome = (x.isSome || y.isSome) := by
  cases x <;> cases y <;> simp [mergeTags]

theorem alookup_mergeTags (x y : Option Tags) (hx : tagsND x) (hy : tagsND y) (k : String) :
    alookup ((mergeTags x y).getD []) k = over (alookup (y.getD []) k) (alookup (x.getD []) k) := by
  unfold mergeTags
  split
  · simp
  · simp only [Option.getD_some]
    rw [alookup_copyInto _ _ hy, alookup_copyInto _ _ hx]
    simp

theorem tagsND_mergeTagsInPlace (x y : Option Tags) (hx : tagsND x) : tagsND (mergeTagsInPlace x y) := by
  cases y with
  | none => simpa [mergeTagsInPlace] using hx
  | some b =>
    simp only [mergeTagsInPlace, tagsND, Option.getD_some]
    exact akeys_copyInto_nodup _ _ hx

theorem alookup_mergeTagsInPlace (x y : Option Tags) (hy : tagsND y) (k : String) :
    alookup ((mergeTagsInPlace x y).getD []) k = over (alookup (y.getD []) k) (alookup (x.getD []) k) := by
  cases y with
  | none => simp [mergeTagsInPlace]
  | some b =>
    simp only [mergeTagsInPlace, Option.getD_some]
    exact alookup_copyInto _ _ hy k

theorem isSome_mergeTagsInPlace (x y : Option Tags) : (mergeTagsInPlace x y).isSome = (x.isSome || y.isSome) := by
  cases x <;> cases y <;> simp [mergeTagsInPlace]

/-! ### kinds -/

theorem hasKind_str {v : FieldVal} (h : hasKind .str v = true) : ∃ s, v = .str s := by
  cases v <;> simp [hasKind] at h; exact ⟨_, rfl⟩
theorem hasKind_int {v : FieldVal} (h : hasKind .int v = true) : ∃ i, v = .int i := by
  cases v <;> simp [hasKind] at h; exact ⟨_, rfl⟩
theorem hasKind_dur {v : FieldVal} (h : hasKind .dur v = true) : ∃ i, v = .int i := by
  cases v <;> simp [hasKind] at h; exact ⟨_, rfl⟩
theorem hasKind_bool {v : FieldVal} (h : hasKind .bool v = true) : ∃ b, v = .bool b := by
  cases v <;> simp [hasKind] at h; exact ⟨_, rfl⟩
theorem hasKind_list {v : FieldVal} (h : hasKind .list v = true) : ∃ l, v = .list l := by
  cases v <;> simp [hasKind] at h; exact ⟨_, rfl⟩
theorem hasKind_tags {v : FieldVal} (h : hasKind .tags v = true) : ∃ x, v = .tags x ∧ tagsND x := by
  cases v with
  | tags m =>
    refine ⟨m, rfl, ?_⟩
    cases m with
    | none => exact tagsND_none
    | some l => simpa [hasKind, tagsND, akeys] using h
  | _ => simp [hasKind] at h

theorem hasKind_tags_of (x : Option Tags) (h : tagsND x) : hasKind .tags (.tags x) = true := by
  cases x with
  | none => rfl
  | some l => simpa [hasKind, tagsND, akeys] using h

theorem valEq_refl (v : FieldVal) : valEq v v := by
  cases v <;> simp [valEq]

theorem valEq_of_eq {u v : FieldVal} (h : u = v) : valEq u v := h ▸ valEq_refl u

/-! ### per-rule associativity -/

theorem assoc_str (r : Rule) (hc : compat r .str = true) (x y z : String) :
    mergeVal r (mergeVal r (.str x) (.str y)) (.str z) = mergeVal r (.str x) (mergeVal r (.str y) (.str z)) := by
  cases r <;> simp [compat] at hc
  · by_cases hz : z = "" <;> by_cases hy : y = "" <;> simp [mergeVal, hz, hy]
  · simp [mergeVal]
  · simp [mergeVal]

theorem assoc_int (r : Rule) (hc : compat r .int = true) (x y z : Int) :
    mergeVal r (mergeVal r (.int x) (.int y)) (.int z) = mergeVal r (.int x) (mergeVal r (.int y) (.int z)) := by
  cases r <;> simp [compat] at hc
  · by_cases hz : z = 0 <;> by_cases hy : y = 0 <;> simp [mergeVal, hz, hy]
  · by_cases hz : z > 0 <;> by_cases hy : y > 0 <;> simp [mergeVal, hz, hy]
  · simp [mergeVal]
  · simp [mergeVal]

theorem assoc_bool (r : Rule) (hc : compat r .bool = true) (x y z : Bool) :
    mergeVal r (mergeVal r (.bool x) (.bool y)) (.bool z) = mergeVal r (.bool x) (mergeVal r (.bool y) (.bool z)) := by
  cases r <;> simp [compat] at hc <;> cases x <;> cases y <;> cases z <;> simp [mergeVal]

theorem assoc_list (r : Rule) (hc : compat r .list = true) (x y z : List String) :
    mergeVal r (mergeVal r (.list x) (.list y)) (.list z) = mergeVal r (.list x) (mergeVal r (.list y) (.list z)) := by
  cases r <;> simp [compat] at hc <;> simp [mergeVal]

theorem assoc_tags (r : Rule) (hc : compat r .tags = true) (x y z : Option Tags)
    (hx : tagsND x) (hy : tagsND y) (hz : tagsND z) :
    valEq (mergeVal r (mergeVal r (.tags x) (.tags y)) (.tags z)) (mergeVal r (.tags x) (mergeVal r (.tags y) (.tags z))) := by
  cases r <;> simp [compat] at hc
  · exact valEq_of_eq (by simp [mergeVal])
  · simp only [mergeVal, valEq]
    refine ⟨by simp [isSome_mergeTags, Bool.or_assoc], fun k => ?_⟩
    rw [alookup_mergeTags _ _ (tagsND_mergeTags x y) hz, alookup_mergeTags _ _ hx hy,
      alookup_mergeTags _ _ hx (tagsND_mergeTags y z), alookup_mergeTags _ _ hy hz, over_assoc]
  · simp only [mergeVal, valEq]
    refine ⟨by simp [isSome_mergeTagsInPlace, Bool.or_assoc], fun k => ?_⟩
    rw [alookup_mergeTagsInPlace _ _ hz, alookup_mergeTagsInPlace _ _ hy,
      alookup_mergeTagsInPlace _ _ (tagsND_mergeTagsInPlace y z hy), alookup_mergeTagsInPlace _ _ hz, over_assoc]
  · exact valEq_of_eq (by simp [mergeVal])

theorem mergeVal_assoc (r : Rule) (k : Kind) (hc : compat r k = true) (a b c : FieldVal)
    (ha : hasKind k a = true) (hb : hasKind k b = true) (hcc : hasKind k c = true) :
    valEq (mergeVal r (mergeVal r a b) c) (mergeVal r a (mergeVal r b c)) := by
  cases k with
  | str =>
    obtain ⟨x, rfl⟩ := hasKind_str ha; obtain ⟨y, rfl⟩ := hasKind_str hb; obtain ⟨z, rfl⟩ := hasKind_str hcc
    exact valEq_of_eq (assoc_str r hc x y z)
  | int =>
    obtain ⟨x, rfl⟩ := hasKind_int ha; obtain ⟨y, rfl⟩ := hasKind_int hb; obtain ⟨z, rfl⟩ := hasKind_int hcc
    exact valEq_of_eq (assoc_int r hc x y z)
  | dur =>
    obtain ⟨x, rfl⟩ := hasKind_dur ha; obtain ⟨y, rfl⟩ := hasKind_dur hb; obtain ⟨z, rfl⟩ := hasKind_dur hcc
    exact valEq_of_eq (assoc_int r (by cases r <;> simp_all [compat]) x y z)
  | bool =>
    obtain ⟨x, rfl⟩ := hasKind_bool ha; obtain ⟨y, rfl⟩ := hasKind_bool hb; obtain ⟨z, rfl⟩ := hasKind_bool hcc
    exact valEq_of_eq (assoc_bool r hc x y z)
  | list =>
    obtain ⟨x, rfl⟩ := hasKind_list ha; obtain ⟨y, rfl⟩ := hasKind_list hb; obtain ⟨z, rfl⟩ := hasKind_list hcc
    exact valEq_of_eq (assoc_list r hc x y z)
  | tags =>
    obtain ⟨x, rfl, hx⟩ := hasKind_tags ha; obtain ⟨y, rfl, hy⟩ := hasKind_tags hb; obtain ⟨z, rfl, hz⟩ := hasKind_tags hcc
    exact assoc_tags r hc x y z hx hy hz

/-- merging keeps every field at its type -/
theorem hasKind_mergeVal (r : Rule) (k : Kind) (hc : compat r k = true) (a b : FieldVal)
    (ha : hasKind k a = true) (hb : hasKind k b = true) : hasKind k (mergeVal r a b) = true := by
  cases k with
  | str =>
    obtain ⟨x, rfl⟩ := hasKind_str ha; obtain ⟨y, rfl⟩ := hasKind_str hb
    cases r <;> simp [compat] at hc <;> simp only [mergeVal] <;> (try split) <;> rfl
  | int =>
    obtain ⟨x, rfl⟩ := hasKind_int ha; obtain ⟨y, rfl⟩ := hasKind_int hb
    cases r <;> simp [compat] at hc <;> simp only [mergeVal] <;> (try split) <;> rfl
  | dur =>
    obtain ⟨x, rfl⟩ := hasKind_dur ha; obtain ⟨y, rfl⟩ := hasKind_dur hb
    cases r <;> simp [compat] at hc <;> simp only [mergeVal] <;> (try split) <;> rfl
  | bool =>
    obtain ⟨x, rfl⟩ := hasKind_bool ha; obtain ⟨y, rfl⟩ := hasKind_bool hb
    cases r <;> simp [compat] at hc <;> cases x <;> cases y <;> simp [mergeVal, hasKind]
  | list =>
    obtain ⟨x, rfl⟩ := hasKind_list ha; obtain ⟨y, rfl⟩ := hasKind_list hb
    cases r <;> simp [compat] at hc <;> simp [mergeVal, hasKind]
  | tags =>
    obtain ⟨x, rfl, hx⟩ := hasKind_tags ha; obtain ⟨y, rfl, hy⟩ := hasKind_tags hb
    cases r <;> simp [compat] at hc <;> simp only [mergeVal]
    · exact hasKind_tags_of _ hy
    · exact hasKind_tags_of _ (tagsND_mergeTags x y)
    · exact hasKind_tags_of _ (tagsND_mergeTagsInPlace x y hx)
    · exact hasKind_tags_of _ hx

/-! ### ReadConfigPaths as a fold -/

theorem allOk_append (xs ys : List (Option Config)) :
    allOk (xs ++ ys) = match allOk xs with
      | none => none
      | some l => (allOk ys).map (l ++ ·) := by
  induction xs with
  | nil => simp [allOk]
  | cons x xs ih =>
    cases x with
    | none => simp [allOk]
    | some c =>
      simp only [List.cons_append, allOk, ih]
      cases allOk xs with
      | none => simp
      | some l => cases allOk ys <;> simp

theorem readDir_eq (t : List FieldSpec) (es : List DirEnt) : ∀ acc,
    readDir t es acc =
      (allOk ((es.filter (fun e => !e.isDir && isJson e.name)).map (·.cfg))).map (fun cs => cs.foldl (merge t) acc) := by
  induction es with
  | nil => intro acc; simp [readDir, allOk]
  | cons e es ih =>
    intro acc
    by_cases hd : e.isDir = true
    · simp [readDir, hd, ih]
    · by_cases hj : isJson e.name = true
      · cases hc : e.cfg with
        | none => simp [readDir, hd, hj, hc, allOk]
        | some c =>
          simp only [readDir, hd, hj, hc, ih]
          simp [allOk, hd, hj, hc, Option.map_map, Function.comp_def]
      · simp [readDir, hd, hj, ih]

theorem readLoop_eq (t : List FieldSpec) (ps : List PathArg) : ∀ acc,
    readLoop t ps acc = (allOk (sources ps)).map (fun cs => cs.foldl (merge t) acc) := by
  induction ps with
  | nil => intro acc; simp [readLoop, sources, allOk]
  | cons p ps ih =>
    intro acc
    cases p with
    | unreadable => simp [readLoop, sources, allOk]
    | file c =>
      cases c with
      | none => simp [readLoop, sources, allOk]
      | some c => simp [readLoop, sources, allOk, ih, Option.map_map, Function.comp_def]
    | dir ents =>
      simp only [readLoop, sources, allOk_append, readDir_eq, dirSources]
      cases allOk (((sortEnts ents).filter (fun e => !e.isDir && isJson e.name)).map (·.cfg)) with
      | none => simp
      | some l =>
        simp only [Option.map_some, ih]
        cases allOk (sources ps) <;> simp

/-! ### heap view: nothing below the allocation point is written -/

/-- every object of `h` is still there, unchanged, in `h'` -/
def Keeps (h h' : Heap) : Prop := h.length ≤ h'.length ∧ ∀ i, i < h.length → h'[i]? = h[i]?

theorem Keeps.refl (h : Heap) : Keeps h h := ⟨Nat.le_refl _, fun _ _ => rfl⟩

theorem Keeps.trans {h1 h2 h3 : Heap} (a : Keeps h1 h2) (b : Keeps h2 h3) : Keeps h1 h3 :=
  ⟨Nat.le_trans a.1 b.1, fun i hi => by rw [b.2 i (Nat.lt_of_lt_of_le hi a.1), a.2 i hi]⟩

theorem keeps_alloc (h : Heap) (o : Obj) : Keeps h (h ++ [o]) :=
  ⟨by simp, fun i hi => by simp [List.getElem?_append_left hi]⟩

theorem keeps_write_fresh {h h' : Heap} (hk : Keeps h h') (n : Nat) (hn : h.length ≤ n) (o : Obj) :
    Keeps h (hwrite h' n o) := by
  refine ⟨by simpa [hwrite] using hk.1, fun i hi => ?_⟩
  have hne : n ≠ i := by omega
  simp only [hwrite]
  rw [List.getElem?_set_ne hne]
  exact hk.2 i hi

theorem appendH_keeps {h0 h : Heap} (hk : Keeps h0 h) (s : Option (Nat × Nat)) (xs : List String)
    (hs : ∀ i n, s = some (i, n) → h0.length ≤ i) : Keeps h0 (appendH h s xs).1 := by
  unfold appendH
  cases s with
  | none =>
    simp only
    split
    · exact hk
    · exact hk.trans (keeps_alloc h _)
  | some p =>
    obtain ⟨i, n⟩ := p
    simp only
    split
    · exact keeps_write_fresh hk i (hs i n rfl) _
    · exact hk.trans (keeps_alloc h _)

theorem appendH_addr {m : Nat} (h : Heap) (s : Option (Nat × Nat)) (xs : List String)
    (hs : ∀ i n, s = some (i, n) → m ≤ i) (hm : m ≤ h.length) :
    ∀ i n, (appendH h s xs).2 = some (i, n) → m ≤ i := by
  unfold appendH
  cases s with
  | none =>
    simp only
    split
    · intro i n e; cases e
    · intro i n e; injection e with e; injection e with e1 _; omega
  | some p =>
    obtain ⟨i0, n0⟩ := p
    simp only
    split
    · intro i n e; injection e with e; injection e with e1 _; rw [← e1]; exact hs i0 n0 rfl
    · intro i n e; injection e with e; injection e with e1 _; omega

theorem mergeFieldH_keeps (h : Heap) (r : Rule) (a b : RVal) (hr : writesInput r = false) :
    Keeps h (mergeFieldH h r a b).1 := by
  unfold mergeFieldH
  split
  · split
    · exact Keeps.refl h
    · exact keeps_write_fresh (keeps_write_fresh (keeps_alloc h _) _ (Nat.le_refl _) _) _ (Nat.le_refl _) _
  · simp [writesInput] at hr
  · simp [writesInput] at hr
  · -- concat: make, append, append — all on a fresh backing array
    rename_i sa sb
    have k0 : Keeps h (makeH h ((readSlice h sa).length + (readSlice h sb).length)).1 := keeps_alloc h _
    have a0 : ∀ i n, (makeH h ((readSlice h sa).length + (readSlice h sb).length)).2 = some (i, n) → h.length ≤ i := by
      intro i n e; simp only [makeH] at e; injection e with e; injection e with e1 _; omega
    have k1 := appendH_keeps k0 _ (readSlice (makeH h ((readSlice h sa).length + (readSlice h sb).length)).1 sa) a0
    have a1 := appendH_addr (m := h.length) _ _ (readSlice (makeH h ((readSlice h sa).length + (readSlice h sb).length)).1 sa) a0 k0.1
    exact appendH_keeps k1 _ _ a1
  · exact Keeps.refl h
  · exact Keeps.refl h
  · exact Keeps.refl h

theorem mergeHLoop_keeps (t : List FieldSpec) (ht : ∀ fs ∈ t, writesInput fs.rule = false) :
    ∀ (h : Heap) (a b acc : RConfig), Keeps h (mergeHLoop t h a b acc).1 := by
  induction t with
  | nil => intro h a b acc; exact Keeps.refl h
  | cons fs rest ih =>
    intro h a b acc
    simp only [mergeHLoop]
    exact (mergeFieldH_keeps h fs.rule _ _ (ht fs (by simp))).trans
      (ih (fun x hx => ht x (by simp [hx])) _ a b _)

/-! ### heap view and value view agree -/

/-- a reference-level field value of the right shape for its kind, pointing into `h`: a map
reference is nil or the address of a map object; a slice header is nil or (address of a backing
array, length ≤ its capacity); every other field is a scalar -/
def RefOK (h : Heap) : Kind → RVal → Prop
  | .tags, .ref none => True
  | .tags, .ref (some i) => ∃ m, h[i]? = some (.tags m)
  | .list, .slice none => True
  | .list, .slice (some (i, n)) => ∃ cells, h[i]? = some (.strs cells) ∧ n ≤ cells.length
  | .tags, _ => False
  | .list, _ => False
  | _, .scalar _ => True
  | _, _ => False

theorem lt_of_getElem?_some {h : Heap} {i : Nat} {o : Obj} (hm : h[i]? = some o) : i < h.length := by
  rcases Nat.lt_or_ge i h.length with h1 | h1
  · exact h1
  · rw [List.getElem?_eq_none h1] at hm; cases hm

theorem readTags_keeps {h h' : Heap} (hk : Keeps h h') (r : Option Nat) (hr : RefOK h .tags (.ref r)) :
    readTags h' r = readTags h r := by
  cases r with
  | none => rfl
  | some i =>
    obtain ⟨m, hm⟩ := hr
    simp only [readTags, hk.2 i (lt_of_getElem?_some hm)]

theorem readSlice_keeps {h h' : Heap} (hk : Keeps h h') (s : Option (Nat × Nat)) (hr : RefOK h .list (.slice s)) :
    readSlice h' s = readSlice h s := by
  cases s with
  | none => rfl
  | some p =>
    obtain ⟨i, n⟩ := p
    obtain ⟨m, hm, _⟩ := hr
    simp only [readSlice, cellsOf, hk.2 i (lt_of_getElem?_some hm)]

theorem RefOK_keeps {h h' : Heap} (hk : Keeps h h') (k : Kind) (v : RVal) (hr : RefOK h k v) : RefOK h' k v := by
  cases k <;> cases v with
  | scalar x => first | exact hr | trivial
  | ref r =>
    cases r with
    | none => first | exact hr | trivial
    | some i =>
      first
      | (obtain ⟨m, hm⟩ := hr; exact ⟨m, by rw [hk.2 i (lt_of_getElem?_some hm)]; exact hm⟩)
      | exact hr
  | slice s =>
    cases s with
    | none => first | exact hr | trivial
    | some p =>
      obtain ⟨i, n⟩ := p
      first
      | (obtain ⟨c, hm, hn⟩ := hr; exact ⟨c, by rw [hk.2 i (lt_of_getElem?_some hm)]; exact hm, hn⟩)
      | exact hr

theorem derefVal_keeps {h h' : Heap} (hk : Keeps h h') (k : Kind) (v : RVal) (hr : RefOK h k v) :
    derefVal h' k v = derefVal h k v := by
  cases k <;> cases v with
  | scalar x => first | rfl | exact absurd hr (by simp [RefOK])
  | ref r =>
    first
    | (cases r with
       | none => rfl
       | some i => simp only [derefVal, readTags_keeps hk (some i) hr])
    | rfl
    | exact absurd hr (by simp [RefOK])
  | slice s =>
    first
    | simp only [derefVal, readSlice_keeps hk s hr]
    | rfl
    | exact absurd hr (by simp [RefOK])

theorem readTags_hwrite_self (g : Heap) (n : Nat) (hn : n < g.length) (m : Tags) :
    readTags (hwrite g n (.tags m)) (some n) = m := by
  simp [readTags, hwrite, hn]

theorem length_hwrite (g : Heap) (n : Nat) (o : Obj) : (hwrite g n o).length = g.length := by simp [hwrite]

theorem mergeFieldH_tagsFresh (h : Heap) (ra rb : Option Nat)
    (ha : RefOK h .tags (.ref ra)) (hb : RefOK h .tags (.ref rb)) :
    derefVal (mergeFieldH h .tagsFresh (.ref ra) (.ref rb)).1 .tags (mergeFieldH h .tagsFresh (.ref ra) (.ref rb)).2
      = mergeVal .tagsFresh (derefVal h .tags (.ref ra)) (derefVal h .tags (.ref rb)) ∧
    RefOK (mergeFieldH h .tagsFresh (.ref ra) (.ref rb)).1 .tags (mergeFieldH h .tagsFresh (.ref ra) (.ref rb)).2 := by
  by_cases hnn : (ra.isNone && rb.isNone) = true
  · have h1 : ra = none := by cases ra <;> simp_all
    have h2 : rb = none := by cases rb <;> simp_all
    subst h1; subst h2
    simp [mergeFieldH, derefVal, mergeVal, mergeTags, RefOK]
  · -- the fresh object
    have hk1 : Keeps h (h ++ [Obj.tags []]) := keeps_alloc h _
    have e0 : readTags (h ++ [Obj.tags []]) (some h.length) = [] := by simp [readTags]
    have ea : readTags (h ++ [Obj.tags []]) ra = readTags h ra := readTags_keeps hk1 ra ha
    have hlen1 : h.length < (h ++ [Obj.tags []]).length := by simp
    have hk2 := keeps_write_fresh hk1 h.length (Nat.le_refl _) (Obj.tags (copyInto [] (readTags h ra)))
    have e1 := readTags_hwrite_self (h ++ [Obj.tags []]) h.length hlen1 (copyInto [] (readTags h ra))
    have eb : readTags (hwrite (h ++ [Obj.tags []]) h.length (Obj.tags (copyInto [] (readTags h ra)))) rb = readTags h rb :=
      readTags_keeps hk2 rb hb
    have hlen2 : h.length < (hwrite (h ++ [Obj.tags []]) h.length (Obj.tags (copyInto [] (readTags h ra)))).length := by
      rw [length_hwrite]; exact hlen1
    have e2 := readTags_hwrite_self _ h.length hlen2 (copyInto (copyInto [] (readTags h ra)) (readTags h rb))
    have hres : mergeFieldH h .tagsFresh (.ref ra) (.ref rb) =
        (hwrite (hwrite (h ++ [Obj.tags []]) h.length (Obj.tags (copyInto [] (readTags h ra)))) h.length
            (Obj.tags (copyInto (copyInto [] (readTags h ra)) (readTags h rb))), .ref (some h.length)) := by
      simp only [mergeFieldH, hnn, Bool.false_eq_true, if_false, e0, ea, e1, eb]
    rw [hres]
    constructor
    · simp only [derefVal, e2, mergeVal]
      cases ra with
      | none =>
        cases rb with
        | none => simp at hnn
        | some j => simp [derefVal, mergeVal, mergeTags, readTags]
      | some i =>
        cases rb with
        | none => simp [derefVal, mergeVal, mergeTags, readTags]
        | some j => simp [derefVal, mergeVal, mergeTags]
    · refine ⟨copyInto (copyInto [] (readTags h ra)) (readTags h rb), ?_⟩
      simp only [hwrite]
      rw [List.getElem?_set_self (by simpa [hwrite] using hlen2)]

theorem cellsOf_append_self (h : Heap) (l : List String) : cellsOf (h ++ [Obj.strs l]) h.length = l := by
  simp [cellsOf]

theorem cellsOf_hwrite_self (h : Heap) (i : Nat) (hi : i < h.length) (l : List String) :
    cellsOf (hwrite h i (.strs l)) i = l := by
  simp [cellsOf, hwrite, hi]

/-- `append` denotes concatenation, whether it grows in place or reallocates, and returns a
well-formed header -/
theorem appendH_read (h : Heap) (s : Option (Nat × Nat)) (xs : List String) (hs : RefOK h .list (.slice s)) :
    readSlice (appendH h s xs).1 (appendH h s xs).2 = readSlice h s ++ xs ∧
    RefOK (appendH h s xs).1 .list (.slice (appendH h s xs).2) := by
  unfold appendH
  cases s with
  | none =>
    simp only
    split
    · rename_i he
      have : xs = [] := by simpa using he
      subst this
      exact ⟨by simp [readSlice], trivial⟩
    · refine ⟨?_, xs, by simp, Nat.le_refl _⟩
      simp [readSlice, cellsOf_append_self]
  | some p =>
    obtain ⟨i, n⟩ := p
    obtain ⟨cells, hc, hn⟩ := hs
    have hi := lt_of_getElem?_some hc
    have hcells : cellsOf h i = cells := by simp [cellsOf, hc]
    simp only [hcells]
    split
    · rename_i hfit
      refine ⟨?_, cells.take n ++ xs ++ cells.drop (n + xs.length), by simp [hwrite, hi], ?_⟩
      · simp only [readSlice, cellsOf_hwrite_self h i hi, hcells]
        have hl : (cells.take n ++ xs).length = n + xs.length := by simp [List.length_take, Nat.min_eq_left hn]
        rw [List.take_left' hl]
      · simp [List.length_take, Nat.min_eq_left hn] <;> omega
    · refine ⟨?_, cells.take n ++ xs, by simp, by simp [List.length_take, Nat.min_eq_left hn]⟩
      simp only [readSlice, cellsOf_append_self, hcells]
      apply List.take_of_length_le
      simp [List.length_take, Nat.min_eq_left hn]

theorem mergeFieldH_concat (h : Heap) (sa sb : Option (Nat × Nat))
    (ha : RefOK h .list (.slice sa)) (hb : RefOK h .list (.slice sb)) :
    derefVal (mergeFieldH h .concat (.slice sa) (.slice sb)).1 .list (mergeFieldH h .concat (.slice sa) (.slice sb)).2
      = mergeVal .concat (derefVal h .list (.slice sa)) (derefVal h .list (.slice sb)) ∧
    RefOK (mergeFieldH h .concat (.slice sa) (.slice sb)).1 .list (mergeFieldH h .concat (.slice sa) (.slice sb)).2 := by
  let c := (readSlice h sa).length + (readSlice h sb).length
  have k0 : Keeps h (makeH h c).1 := keeps_alloc h _
  have a0 : ∀ i n, (makeH h c).2 = some (i, n) → h.length ≤ i := by
    intro i n e; simp only [makeH] at e; injection e with e; injection e with e1 _; omega
  have w0 : RefOK (makeH h c).1 .list (.slice (makeH h c).2) := ⟨List.replicate c "", by simp [makeH], Nat.zero_le _⟩
  have r0 : readSlice (makeH h c).1 (makeH h c).2 = [] := by simp [makeH, readSlice]
  have ea : readSlice (makeH h c).1 sa = readSlice h sa := readSlice_keeps k0 sa ha
  obtain ⟨r1, w1⟩ := appendH_read (makeH h c).1 (makeH h c).2 (readSlice (makeH h c).1 sa) w0
  have k1 := appendH_keeps k0 (makeH h c).2 (readSlice (makeH h c).1 sa) a0
  have eb : readSlice (appendH (makeH h c).1 (makeH h c).2 (readSlice (makeH h c).1 sa)).1 sb = readSlice h sb :=
    readSlice_keeps k1 sb hb
  obtain ⟨r2, w2⟩ := appendH_read _ _ (readSlice (appendH (makeH h c).1 (makeH h c).2 (readSlice (makeH h c).1 sa)).1 sb) w1
  have hres : mergeFieldH h .concat (.slice sa) (.slice sb) =
      ((appendH (appendH (makeH h c).1 (makeH h c).2 (readSlice (makeH h c).1 sa)).1
          (appendH (makeH h c).1 (makeH h c).2 (readSlice (makeH h c).1 sa)).2
          (readSlice (appendH (makeH h c).1 (makeH h c).2 (readSlice (makeH h c).1 sa)).1 sb)).1,
       .slice (appendH (appendH (makeH h c).1 (makeH h c).2 (readSlice (makeH h c).1 sa)).1
          (appendH (makeH h c).1 (makeH h c).2 (readSlice (makeH h c).1 sa)).2
          (readSlice (appendH (makeH h c).1 (makeH h c).2 (readSlice (makeH h c).1 sa)).1 sb)).2) := rfl
  rw [hres]
  refine ⟨?_, w2⟩
  simp only [derefVal, mergeVal]
  rw [r2, eb, r1, r0, ea]; simp

/-- One field: the heap view's result denotes the value view's result, and is a well-formed
reference into the new heap. -/
theorem mergeFieldH_deref (h : Heap) (r : Rule) (k : Kind) (a b : RVal)
    (hc : compat r k = true) (hr : writesInput r = false) (ha : RefOK h k a) (hb : RefOK h k b) :
    derefVal (mergeFieldH h r a b).1 k (mergeFieldH h r a b).2 = mergeVal r (derefVal h k a) (derefVal h k b) ∧
    RefOK (mergeFieldH h r a b).1 k (mergeFieldH h r a b).2 := by
  cases k with
  | str =>
    cases a <;> cases b <;> simp [RefOK] at ha hb
    cases r <;> simp [compat] at hc <;> simp [mergeFieldH, derefVal, mergeVal, RefOK]
  | int =>
    cases a <;> cases b <;> simp [RefOK] at ha hb
    cases r <;> simp [compat] at hc <;> simp [mergeFieldH, derefVal, mergeVal, RefOK]
  | dur =>
    cases a <;> cases b <;> simp [RefOK] at ha hb
    cases r <;> simp [compat] at hc <;> simp [mergeFieldH, derefVal, mergeVal, RefOK]
  | bool =>
    cases a <;> cases b <;> simp [RefOK] at ha hb
    cases r <;> simp [compat] at hc <;> simp [mergeFieldH, derefVal, mergeVal, RefOK]
  | tags =>
    cases a with
    | scalar _ => simp [RefOK] at ha
    | slice _ => simp [RefOK] at ha
    | ref ra =>
      cases b with
      | scalar _ => simp [RefOK] at hb
      | slice _ => simp [RefOK] at hb
      | ref rb =>
        cases r <;> simp [compat] at hc
        · exact ⟨by simp [mergeFieldH, mergeVal], by simpa [mergeFieldH] using hb⟩
        · exact mergeFieldH_tagsFresh h ra rb ha hb
        · simp [writesInput] at hr
        · exact ⟨by simp [mergeFieldH, mergeVal], by simpa [mergeFieldH] using ha⟩
  | list =>
    cases a with
    | scalar _ => simp [RefOK] at ha
    | ref _ => simp [RefOK] at ha
    | slice sa =>
      cases b with
      | scalar _ => simp [RefOK] at hb
      | ref _ => simp [RefOK] at hb
      | slice sb =>
        cases r <;> simp [compat] at hc
        · exact ⟨by simp [mergeFieldH, mergeVal], by simpa [mergeFieldH] using hb⟩
        · exact mergeFieldH_concat h sa sb ha hb
        · simp [writesInput] at hr
        · exact ⟨by simp [mergeFieldH, mergeVal], by simpa [mergeFieldH] using ha⟩

theorem mergeHLoop_cons (fs : FieldSpec) (rest : List FieldSpec) (h : Heap) (a b acc : RConfig) :
    mergeHLoop (fs :: rest) h a b acc =
      mergeHLoop rest (mergeFieldH h fs.rule (rget a fs.name) (rget b fs.name)).1 a b
        ((fs.name, (mergeFieldH h fs.rule (rget a fs.name) (rget b fs.name)).2) :: acc) := rfl

/-- the inputs are well-formed reference-level configurations over the heap `h0` -/
def InputsOK (t : List FieldSpec) (h0 : Heap) (a b : RConfig) : Prop :=
  ∀ fs ∈ t, compat fs.rule fs.kind = true ∧ writesInput fs.rule = false ∧
    RefOK h0 fs.kind (rget a fs.name) ∧ RefOK h0 fs.kind (rget b fs.name)

theorem mergeHLoop_spec (a b : RConfig) (h0 : Heap) : ∀ (t : List FieldSpec), t.Nodup → InputsOK t h0 a b →
    ∀ (h : Heap) (acc : RConfig), Keeps h0 h →
    ∃ g : FieldSpec → RVal,
      (mergeHLoop t h a b acc).2 = acc.reverse ++ t.map (fun fs => (fs.name, g fs)) ∧
      Keeps h (mergeHLoop t h a b acc).1 ∧
      ∀ fs ∈ t, RefOK (mergeHLoop t h a b acc).1 fs.kind (g fs) ∧
        derefVal (mergeHLoop t h a b acc).1 fs.kind (g fs) =
          mergeVal fs.rule (derefVal h0 fs.kind (rget a fs.name)) (derefVal h0 fs.kind (rget b fs.name)) := by
  intro t
  induction t with
  | nil =>
    intro _ _ h acc _
    exact ⟨fun _ => .ref none, by simp [mergeHLoop], Keeps.refl h, by simp⟩
  | cons fs rest ih =>
    intro hnd hin h acc hk
    obtain ⟨hc, hr, hra, hrb⟩ := hin fs (by simp)
    have hfield := mergeFieldH_deref h fs.rule fs.kind (rget a fs.name) (rget b fs.name) hc hr
      (RefOK_keeps hk _ _ hra) (RefOK_keeps hk _ _ hrb)
    have hk1 : Keeps h (mergeFieldH h fs.rule (rget a fs.name) (rget b fs.name)).1 := mergeFieldH_keeps h fs.rule _ _ hr
    have hnd' := List.nodup_cons.mp hnd
    obtain ⟨g, hg1, hg2, hg3⟩ := ih hnd'.2 (fun x hx => hin x (by simp [hx])) _
      ((fs.name, (mergeFieldH h fs.rule (rget a fs.name) (rget b fs.name)).2) :: acc) (hk.trans hk1)
    rw [mergeHLoop_cons]
    refine ⟨fun x => if x = fs then (mergeFieldH h fs.rule (rget a fs.name) (rget b fs.name)).2 else g x, ?_, hk1.trans hg2, ?_⟩
    · rw [hg1]
      simp only [List.reverse_cons, List.append_assoc, List.singleton_append, List.map_cons, if_true]
      congr 2
      apply List.map_congr_left
      intro x hx
      have : x ≠ fs := fun e => hnd'.1 (e ▸ hx)
      simp [this]
    · intro x hx
      rcases List.mem_cons.mp hx with rfl | hx
      · simp only [if_true]
        refine ⟨RefOK_keeps hg2 _ _ hfield.2, ?_⟩
        rw [derefVal_keeps hg2 _ _ hfield.2, hfield.1, derefVal_keeps hk _ _ hra, derefVal_keeps hk _ _ hrb]
      · have : x ≠ fs := fun e => hnd'.1 (e ▸ hx)
        simp only [this, if_false]
        exact hg3 x hx

theorem alookup_map_rspec (g : FieldSpec → RVal) (t : List FieldSpec) (hnd : (names t).Nodup)
    (fs : FieldSpec) (hfs : fs ∈ t) :
    alookup (t.map fun x => (x.name, g x)) fs.name = some (g fs) := by
  induction t with
  | nil => simp at hfs
  | cons x t ih =>
    simp only [names, List.map_cons, List.nodup_cons] at hnd
    simp only [List.map_cons]
    rw [alookup_cons]
    rcases List.mem_cons.mp hfs with h | h
    · subst h; simp
    · have : ¬ (x.name == fs.name) = true := by
        intro e
        apply hnd.1
        rw [eq_of_beq e]
        exact List.mem_map_of_mem (f := (·.name)) h
      simp only [this]
      exact ih hnd.2 h

theorem nodup_of_names_nodup (t : List FieldSpec) (h : (names t).Nodup) : t.Nodup := by
  induction t with
  | nil => simp
  | cons x t ih =>
    simp only [names, List.map_cons, List.nodup_cons] at h
    exact List.nodup_cons.mpr ⟨fun hx => h.1 (List.mem_map_of_mem (f := (·.name)) hx), ih h.2⟩

theorem get_deref (t : List FieldSpec) (hnd : (names t).Nodup) (h : Heap) (c : RConfig) (fs : FieldSpec) (hfs : fs ∈ t) :
    get (deref t h c) fs.name = derefVal h fs.kind (rget c fs.name) := by
  have hh := alookup_map_spec (fun x => derefVal h x.kind (rget c x.name)) t hnd fs hfs
  show (alookup (deref t h c) fs.name).getD (.str "") = _
  unfold deref
  rw [hh]; rfl

/-- **Heap view = value view.**  For a table without in-place writes whose rules fit the field
types, and inputs that are well-formed over the heap, the configuration the heap-level
`MergeConfig` returns denotes exactly `merge` of what the inputs denote. -/
theorem mergeH_deref (t : List FieldSpec) (hnd : (names t).Nodup) (h : Heap) (a b : RConfig)
    (hin : InputsOK t h a b) :
    deref t (mergeH t h a b).1 (mergeH t h a b).2 = merge t (deref t h a) (deref t h b) := by
  obtain ⟨g, hg1, _, hg3⟩ := mergeHLoop_spec a b h t (nodup_of_names_nodup t hnd) hin h [] (Keeps.refl h)
  unfold mergeH
  unfold deref merge
  apply List.map_congr_left
  intro fs hfs
  have hr : rget (mergeHLoop t h a b []).2 fs.name = g fs := by
    unfold rget
    rw [hg1]
    simp only [List.reverse_nil, List.nil_append]
    rw [alookup_map_rspec g t hnd fs hfs]; rfl
  have ha := get_deref t hnd h a fs hfs
  have hb := get_deref t hnd h b fs hfs
  unfold deref at ha hb
  rw [hr, (hg3 fs hfs).2, ha, hb]


/-- the fields of the configuration returned by the heap-level merge are well-formed
references into the heap it returns -/
theorem mergeH_result_refok (t : List FieldSpec) (hnd : (names t).Nodup) (h : Heap) (a b : RConfig)
    (hin : InputsOK t h a b) :
    ∀ fs ∈ t, RefOK (mergeH t h a b).1 fs.kind (rget (mergeH t h a b).2 fs.name) := by
  obtain ⟨g, hg1, _, hg3⟩ := mergeHLoop_spec a b h t (nodup_of_names_nodup t hnd) hin h [] (Keeps.refl h)
  intro fs hfs
  have hr : rget (mergeHLoop t h a b []).2 fs.name = g fs := by
    unfold rget
    rw [hg1]
    simp only [List.reverse_nil, List.nil_append]
    rw [alookup_map_rspec g t hnd fs hfs]; rfl
  unfold mergeH
  rw [hr]
  exact (hg3 fs hfs).1

/-- what a well-formed configuration denotes does not change when the heap only grows -/
theorem deref_keeps (t : List FieldSpec) {h h' : Heap} (hk : Keeps h h') (c : RConfig)
    (hc : ∀ fs ∈ t, RefOK h fs.kind (rget c fs.name)) : deref t h' c = deref t h c := by
  unfold deref
  apply List.map_congr_left
  intro fs hfs
  rw [derefVal_keeps hk _ _ (hc fs hfs)]

/-! ### the shape interpreter at the canonical shape -/

theorem readDirS_canonical (t : List FieldSpec) (es : List DirEnt) : ∀ acc,
    readDirS canonicalRead t es acc = readDir t es acc := by
  induction es with
  | nil => intro acc; rfl
  | cons e es ih =>
    intro acc
    have h1 : canonicalRead.skipSubdirs = true := rfl
    have h2 : canonicalRead.suffix = ".json" := rfl
    have h3 : canonicalRead.dirMerge = .resultFirst := rfl
    simp only [readDirS, readDir, h1, h2, h3, Bool.true_and, mergeBy, isJson, ih]
    by_cases hd : e.isDir = true
    · simp [hd]
    · by_cases hj : hasSuffix ".json" e.name = true
      · cases hc : e.cfg <;> simp [hd, hj, ih]
      · simp [hd, hj]

theorem readLoopS_canonical (t : List FieldSpec) (ps : List PathArg) : ∀ acc,
    readLoopS canonicalRead t ps acc = readLoop t ps acc := by
  induction ps with
  | nil => intro acc; rfl
  | cons p ps ih =>
    intro acc
    cases p with
    | unreadable => rfl
    | file c =>
      cases c with
      | none => rfl
      | some c =>
        have h : canonicalRead.fileMerge = .resultFirst := rfl
        simp only [readLoopS, readLoop, h, mergeBy, ih]
    | dir ents =>
      simp only [readLoopS, readLoop]
      have : canonicalRead.dirMode = .running := rfl
      simp only [this, readDirS_canonical]
      have hs : orderEnts canonicalRead.sort ents = sortEnts ents := rfl
      rw [hs]
      cases readDir t (sortEnts ents) acc <;> simp [ih]

theorem readPathsS_canonical (t : List FieldSpec) (ps : List PathArg) :
    readPathsS canonicalRead t ps = readPaths t ps := readLoopS_canonical t ps (zero t)

/-! ### DecodeConfig's post-processing -/

theorem alookup_setField (c : Config) (d : String) (v : FieldVal) (f : String) :
    alookup (setField c d v) f = if f = d then (alookup c d).map (fun _ => v) else alookup c f := by
  induction c with
  | nil => simp [setField]
  | cons p c ih =>
    have hs : setField (p :: c) d v = (if p.1 == d then (d, v) else p) :: setField c d v := by
      simp [setField]
    rw [hs, alookup_cons, alookup_cons, ih]
    by_cases hpd : p.1 = d
    · by_cases hfd : f = d
      · subst hfd; subst hpd; simp [alookup_cons]
      · have : ¬ (d = f) := fun e => hfd e.symm
        have h2 : ¬ (p.1 = f) := by rw [hpd]; exact this
        simp [hpd, hfd, this, h2, alookup_cons]
    · by_cases hfd : f = d
      · subst hfd
        have : ¬ (p.1 = f) := hpd
        simp [hpd, alookup_cons]
      · simp [hpd, hfd, alookup_cons]

theorem get_setField_ne (c : Config) (d : String) (v : FieldVal) (f : String) (h : f ≠ d) :
    get (setField c d v) f = get c f := by
  show (alookup (setField c d v) f).getD _ = (alookup c f).getD _
  rw [alookup_setField]; simp [h]

theorem get_setField_self (c : Config) (d : String) (v : FieldVal) (h : (alookup c d).isSome = true) :
    get (setField c d v) d = v := by
  show (alookup (setField c d v) d).getD _ = v
  rw [alookup_setField]
  cases hh : alookup c d with
  | none => simp [hh] at h
  | some x => simp

theorem isSome_alookup_setField (c : Config) (d : String) (v : FieldVal) (f : String) :
    (alookup (setField c d v) f).isSome = (alookup c f).isSome := by
  rw [alookup_setField]
  by_cases h : f = d
  · subst h; cases alookup c f <;> simp
  · simp [h]

/-- What `decodePost` does, for every configuration whose raw fields are strings and whose
duration fields exist: it fails exactly when some non-empty raw string does not parse; otherwise
every duration whose raw string is non-empty becomes the parsed value, every other field —
including the durations whose raw string is empty — is unchanged. -/
theorem decodePost_spec (parseDur : String → Option Int) (pairs : List (String × String)) : ∀ (c : Config),
    (∀ pr ∈ pairs, ∀ pr' ∈ pairs, pr.1 ≠ pr'.2) → (pairs.map (·.2)).Nodup →
    (∀ pr ∈ pairs, (alookup c pr.2).isSome = true) → (∀ pr ∈ pairs, ∃ s, get c pr.1 = .str s) →
    match decodePost parseDur pairs c with
    | none => ∃ pr ∈ pairs, ∃ s, get c pr.1 = .str s ∧ s ≠ "" ∧ parseDur s = none
    | some c' => (∀ f, f ∉ pairs.map (·.2) → get c' f = get c f) ∧
        ∀ pr ∈ pairs, ∃ s, get c pr.1 = .str s ∧
          (s = "" → get c' pr.2 = get c pr.2) ∧ (s ≠ "" → ∃ n, parseDur s = some n ∧ get c' pr.2 = .int n) := by
  induction pairs with
  | nil => intro c _ _ _ _; simp [decodePost]
  | cons pr rest ih =>
    intro c hdisj hnd hpres hraw
    obtain ⟨s, hs⟩ := hraw pr (by simp)
    simp only [List.map_cons, List.nodup_cons] at hnd
    have hdisj' : ∀ p ∈ rest, ∀ p' ∈ rest, p.1 ≠ p'.2 := fun p hp p' hp' => hdisj p (by simp [hp]) p' (by simp [hp'])
    simp only [decodePost, decodeStep, hs]
    by_cases hse : s = ""
    · -- nothing to do for this pair
      simp only [hse, ne_eq, not_true_eq_false, if_false]
      have := ih c hdisj' hnd.2 (fun p hp => hpres p (by simp [hp])) (fun p hp => hraw p (by simp [hp]))
      cases hd : decodePost parseDur rest c with
      | none =>
        rw [hd] at this
        obtain ⟨p, hp, x⟩ := this
        exact ⟨p, by simp [hp], x⟩
      | some c' =>
        rw [hd] at this
        obtain ⟨h1, h2⟩ := this
        refine ⟨fun f hf => h1 f (fun hm => hf (by simp [hm])), ?_⟩
        intro p hp
        rcases List.mem_cons.mp hp with rfl | hp
        · exact ⟨s, hs, fun _ => h1 _ hnd.1, fun hne => absurd hse hne⟩
        · exact h2 p hp
    · simp only [ne_eq, hse, not_false_eq_true, if_true]
      cases hp : parseDur s with
      | none => exact ⟨pr, by simp, s, hs, hse, hp⟩
      | some n =>
        simp only [Option.map_some]
        have hraw1 : ∀ p ∈ rest, get (setField c pr.2 (.int n)) p.1 = get c p.1 := fun p hp' =>
          get_setField_ne c pr.2 _ p.1 (hdisj p (by simp [hp']) pr (by simp))
        have := ih (setField c pr.2 (.int n)) hdisj' hnd.2
          (fun p hp' => by rw [isSome_alookup_setField]; exact hpres p (by simp [hp']))
          (fun p hp' => by rw [hraw1 p hp']; exact hraw p (by simp [hp']))
        cases hd : decodePost parseDur rest (setField c pr.2 (.int n)) with
        | none =>
          rw [hd] at this
          obtain ⟨p, hp', s', h1, h2, h3⟩ := this
          exact ⟨p, by simp [hp'], s', by rw [← hraw1 p hp']; exact h1, h2, h3⟩
        | some c' =>
          rw [hd] at this
          obtain ⟨h1, h2⟩ := this
          refine ⟨?_, ?_⟩
          · intro f hf
            have hf1 : f ≠ pr.2 := fun e => hf (by simp [e])
            rw [h1 f (fun hm => hf (by simp [hm])), get_setField_ne c pr.2 _ f hf1]
          · intro p hp'
            rcases List.mem_cons.mp hp' with rfl | hp'
            · refine ⟨s, hs, fun e => absurd e hse, fun _ => ⟨n, hp, ?_⟩⟩
              rw [h1 _ hnd.1, get_setField_self c _ _ (hpres _ (by simp))]
            · obtain ⟨s', hs', ha, hb⟩ := h2 p hp'
              have hne : p.2 ≠ pr.2 := fun e => hnd.1 (e ▸ List.mem_map_of_mem (f := (·.2)) hp')
              refine ⟨s', by rw [← hraw1 p hp']; exact hs', fun e => ?_, hb⟩
              rw [ha e, get_setField_ne c pr.2 _ p.2 hne]


end SerfProofs.Config
