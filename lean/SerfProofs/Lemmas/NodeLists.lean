/-
List facts about the Go slice idioms in the node model (`SerfModel.Node`):
`swapRemove` (swap-with-last delete), `removeOld` (`removeOldMember`), `reapLoop` (the loop of `reap`).
Core Lean only.
-/
import SerfModel.Model.Node
namespace SerfProofs.NodeLists
open SerfModel SerfModel.Node

/-- A list whose last element is `z` is its `dropLast` followed by `z`. -/
theorem eq_dropLast_append_of_getLast? {α : Type} (xs : List α) (z : α) (h : xs.getLast? = some z) :
    xs = xs.dropLast ++ [z] := by
  rcases List.getLast?_eq_some_iff.mp h with ⟨ys, rfl⟩
  simp

/-- Moving the last element to the front is a permutation. -/
theorem last_cons_dropLast_perm {α : Type} (xs : List α) (z : α) (h : xs.getLast? = some z) :
    (z :: xs.dropLast).Perm xs := by
  rcases List.getLast?_eq_some_iff.mp h with ⟨ys, rfl⟩
  simp only [List.dropLast_concat]
  exact (List.perm_append_comm (l₁ := ys) (l₂ := [z])).symm

theorem last_cons_dropLast_length {α : Type} (xs : List α) (z : α) (h : xs.getLast? = some z) :
    (z :: xs.dropLast).length = xs.length := by
  rcases List.getLast?_eq_some_iff.mp h with ⟨ys, rfl⟩
  simp

/-! ### swapRemove -/

theorem swapRemove_perm (l : List Name) (i : Nat) (h : i < l.length) :
    (swapRemove l i).Perm (l.eraseIdx i) := by
  induction l generalizing i with
  | nil => simp at h
  | cons x xs ih =>
    cases i with
    | zero =>
      simp only [swapRemove, List.eraseIdx_zero, List.tail_cons]
      split
      · next hn => rw [List.getLast?_eq_none_iff.mp hn]
      · next z hz => exact last_cons_dropLast_perm xs z hz
    | succ j =>
      simp only [swapRemove, List.eraseIdx_cons_succ]
      exact (ih j (by simpa using h)).cons x

theorem swapRemove_take (l : List Name) (i : Nat) (h : i < l.length) :
    (swapRemove l i).take i = l.take i := by
  induction l generalizing i with
  | nil => simp at h
  | cons x xs ih =>
    cases i with
    | zero => simp
    | succ j =>
      simp only [swapRemove, List.take_succ_cons]
      rw [ih j (by simpa using h)]

theorem swapRemove_length (l : List Name) (i : Nat) (h : i < l.length) :
    (swapRemove l i).length = l.length - 1 := by
  induction l generalizing i with
  | nil => simp at h
  | cons x xs ih =>
    cases i with
    | zero =>
      simp only [swapRemove]
      split
      · next hn => rw [List.getLast?_eq_none_iff.mp hn]; simp
      · next z hz => rw [last_cons_dropLast_length xs z hz]; simp
    | succ j =>
      have hj : j < xs.length := by simpa using h
      simp only [swapRemove, List.length_cons]
      rw [ih j hj]
      omega

/-! ### removeOld -/

theorem removeOld_perm (l : List Name) (x : Name) : (removeOld l x).Perm (l.erase x) := by
  induction l with
  | nil => simp [removeOld]
  | cons y ys ih =>
    by_cases hy : y = x
    · subst hy
      simp only [removeOld, if_true, List.erase_cons_head]
      split
      · next hn => rw [List.getLast?_eq_none_iff.mp hn]
      · next z hz => exact last_cons_dropLast_perm ys z hz
    · simp only [removeOld, if_neg hy]
      rw [List.erase_cons_tail (by simpa using hy)]
      exact ih.cons y

theorem nodup_removeOld (l : List Name) (x : Name) (h : l.Nodup) : (removeOld l x).Nodup :=
  (removeOld_perm l x).nodup_iff.mpr (h.erase x)

theorem mem_removeOld (l : List Name) (x y : Name) (h : l.Nodup) :
    y ∈ removeOld l x ↔ y ∈ l ∧ y ≠ x := by
  rw [(removeOld_perm l x).mem_iff, h.mem_erase_iff]
  exact And.comm

theorem removeOld_of_not_mem (l : List Name) (x : Name) (h : x ∉ l) : removeOld l x = l := by
  induction l with
  | nil => simp [removeOld]
  | cons y ys ih =>
    have hy : ¬ y = x := fun e => h (by simp [e])
    have hx : x ∉ ys := fun e => h (by simp [e])
    simp only [removeOld, if_neg hy]
    rw [ih hx]

/-- Without the no-duplicates hypothesis: everything left was there before. -/
theorem mem_of_mem_removeOld (l : List Name) (x y : Name) (h : y ∈ removeOld l x) : y ∈ l :=
  List.mem_of_mem_erase ((removeOld_perm l x).mem_iff.mp h)

theorem removeOld_length_of_mem (l : List Name) (x : Name) (h : x ∈ l) :
    (removeOld l x).length = l.length - 1 := by
  rw [(removeOld_perm l x).length_eq, List.length_erase_of_mem h]

/-! ### reapLoop -/

/-- `old` is a permutation of `old[i] :: old.eraseIdx i`. -/
theorem perm_getElem_cons_eraseIdx {α : Type} (l : List α) (i : Nat) (h : i < l.length) :
    l.Perm (l[i] :: l.eraseIdx i) := by
  have e : l = l.take i ++ l[i] :: l.drop (i + 1) := by
    conv => lhs; rw [← List.take_append_drop i l]
    rw [List.drop_eq_getElem_cons h]
  rw [List.eraseIdx_eq_take_drop_succ]
  conv => lhs; rw [e]
  exact List.perm_middle

/-- When the scan is past the end, everything is kept. -/
theorem filter_of_all_kept (exp : Name → Bool) (old : List Name) (i : Nat)
    (hi : old.length ≤ i) (hk : ∀ x ∈ old.take i, exp x = false) :
    old.filter (fun x => !exp x) = old ∧ old.filter exp = [] := by
  rw [List.take_of_length_le hi] at hk
  constructor
  · exact List.filter_eq_self.mpr (fun a ha => by simp [hk a ha])
  · exact List.filter_eq_nil_iff.mpr (fun a ha => by simp [hk a ha])

/-- The loop invariant. -/
theorem reapLoop_inv (exp : Name → Bool) (fuel : Nat) (old : List Name) (i : Nat) (acc : List Name)
    (hf : old.length - i ≤ fuel) (hi : i ≤ old.length) (hk : ∀ x ∈ old.take i, exp x = false) :
    (reapLoop exp fuel old i acc).1.Perm (old.filter (fun x => !exp x)) ∧
    (reapLoop exp fuel old i acc).2.Perm (acc ++ old.filter exp) := by
  induction fuel generalizing old i acc with
  | zero =>
    have hle : old.length ≤ i := by omega
    rcases filter_of_all_kept exp old i hle hk with ⟨h1, h2⟩
    simp only [reapLoop]
    rw [h1, h2]
    simp
  | succ fuel ih =>
    simp only [reapLoop]
    split
    · next hn =>
      have hle : old.length ≤ i := List.getElem?_eq_none_iff.mp hn
      rcases filter_of_all_kept exp old i hle hk with ⟨h1, h2⟩
      rw [h1, h2]
      simp
    · next m hm =>
      rcases List.getElem?_eq_some_iff.mp hm with ⟨hlt, hget⟩
      by_cases he : exp m = true
      · simp only [he, if_true]
        have hlen := swapRemove_length old i hlt
        have htk := swapRemove_take old i hlt
        have hp := swapRemove_perm old i hlt
        have hold := perm_getElem_cons_eraseIdx old i hlt
        rw [hget] at hold
        rcases ih (swapRemove old i) i (acc ++ [m]) (by omega) (by omega)
          (by rw [htk]; exact hk) with ⟨r1, r2⟩
        constructor
        · refine r1.trans ((hp.filter _).trans ?_)
          have := (hold.filter (fun x => !exp x)).symm
          simpa [List.filter_cons, he] using this
        · refine r2.trans ?_
          have h2 : (List.filter exp (swapRemove old i)).Perm (List.filter exp (old.eraseIdx i)) :=
            hp.filter _
          have h3 : (m :: List.filter exp (old.eraseIdx i)).Perm (List.filter exp old) := by
            have := (hold.filter exp).symm
            simpa [List.filter_cons, he] using this
          rw [List.append_assoc]
          exact List.Perm.append_left acc ((h2.cons m).trans h3)
      · have he' : exp m = false := by simpa using he
        simp only [he', Bool.false_eq_true, if_false]
        refine ih old (i + 1) acc (by omega) (by omega) ?_
        intro x hx
        rw [List.take_add_one, hm] at hx
        simp only [Option.toList_some, List.mem_append, List.mem_singleton] at hx
        rcases hx with hx | hx
        · exact hk x hx
        · rw [hx]; exact he'

/-- the literal reap loop equals a filter, up to permutation; the removed names are exactly the
expired ones, each once -/
theorem reapLoop_spec (exp : Name → Bool) (l : List Name) :
    (reapLoop exp l.length l 0 []).1.Perm (l.filter (fun x => !exp x)) ∧
    (reapLoop exp l.length l 0 []).2.Perm (l.filter exp) := by
  have := reapLoop_inv exp l.length l 0 [] (by omega) (by omega) (by simp)
  simpa using this

theorem reapLoop_mem_kept (exp : Name → Bool) (l : List Name) (x : Name) :
    x ∈ (reapLoop exp l.length l 0 []).1 ↔ x ∈ l ∧ exp x = false := by
  rw [(reapLoop_spec exp l).1.mem_iff]
  simp

theorem reapLoop_mem_reaped (exp : Name → Bool) (l : List Name) (x : Name) :
    x ∈ (reapLoop exp l.length l 0 []).2 ↔ x ∈ l ∧ exp x = true := by
  rw [(reapLoop_spec exp l).2.mem_iff]
  simp

theorem reapLoop_nodup (exp : Name → Bool) (l : List Name) (h : l.Nodup) :
    (reapLoop exp l.length l 0 []).1.Nodup ∧ (reapLoop exp l.length l 0 []).2.Nodup :=
  ⟨(reapLoop_spec exp l).1.nodup_iff.mpr (h.filter _),
   (reapLoop_spec exp l).2.nodup_iff.mpr (h.filter _)⟩

/-- Lengths: kept plus reaped is the original length. -/
theorem reapLoop_length (exp : Name → Bool) (l : List Name) :
    (reapLoop exp l.length l 0 []).1.length + (reapLoop exp l.length l 0 []).2.length = l.length := by
  rw [(reapLoop_spec exp l).1.length_eq, (reapLoop_spec exp l).2.length_eq]
  induction l with
  | nil => simp
  | cons y ys ih =>
    cases hy : exp y <;> simp [hy] <;> omega

end SerfProofs.NodeLists
