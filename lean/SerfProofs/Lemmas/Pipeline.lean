import SerfModel.Model.Pipeline
import SerfProofs.Lemmas.MemberCoalesce
import SerfProofs.Lemmas.CoalesceLoop
namespace SerfProofs.Pipeline
open SerfModel SerfModel.MemberCoalesce SerfModel.UserCoalesce SerfModel.CoalesceLoop SerfModel.Pipeline
open SerfProofs.MemberCoalesce SerfProofs.CoalesceLoop

/-! ### `about` -/

theorem about_nil (m : String) : about m [] = [] := rfl

theorem about_append (m : String) (a b : List PEv) : about m (a ++ b) = about m a ++ about m b := by
  simp [about, List.filterMap_append]

theorem about_cons (m : String) (e : PEv) (l : List PEv) : about m (e :: l) = about m [e] ++ about m l := by
  have := about_append m [e] l
  simpa using this

theorem about_member (m : String) (e : MEv) : about m [.member e] = if e.name == m then [e] else [] := by
  by_cases h : e.name = m <;> simp [about, h]

theorem about_user (m : String) (u : UserEv) : about m [.user u] = [] := rfl
theorem about_query (m : String) (b : Bool) (i : Nat) : about m [.query b i] = [] := rfl

theorem about_map_member (m : String) (l : List MEv) : about m (l.map PEv.member) = l.filter (·.name == m) := by
  induction l with
  | nil => rfl
  | cons e l ih =>
    rw [List.map_cons, about_cons, ih, about_member, List.filter_cons]
    by_cases h : e.name == m <;> simp [h]

theorem about_map_user (m : String) (l : List UserEv) : about m (l.map PEv.user) = [] := by
  induction l with
  | nil => rfl
  | cons e l ih => rw [List.map_cons, about_cons, ih, about_user]; rfl

/-! ### What a stage holds back, per member -/

/-- The member coalescer holds at most one pending event per member; no other stage holds any. -/
def held (m : String) : Stage → List MEv
  | .memberCo s => (alookup s.c.latest m).toList
  | _ => []

def StageOK : Stage → Prop
  | .memberCo s => LatestOK s.c.latest
  | _ => True

def evOf : In PEv → List PEv
  | .ev e => [e]
  | _ => []

/-- the values stored for member `m` -/
theorem values_filter_name (l : List (String × MEv)) (h : LatestOK l) (m : String) :
    (l.map (·.2)).filter (·.name == m) = (alookup l m).toList := by
  induction l with
  | nil => rfl
  | cons p rest ih =>
    obtain ⟨k, e⟩ := p
    have hrest : LatestOK rest :=
      ⟨(List.nodup_cons.mp (by simpa [akeys] using h.1)).2, fun p hp => h.2 p (List.mem_cons_of_mem _ hp)⟩
    have hk : k = e.name := h.2 (k, e) List.mem_cons_self
    have hnotin : k ∉ akeys rest := (List.nodup_cons.mp (by simpa [akeys] using h.1)).1
    simp only [List.map_cons, List.filter_cons, alookup_cons]
    rw [ih hrest, ← hk]
    by_cases hkm : k == m
    · have : alookup rest m = none := by
        rw [alookup_eq_none_iff, ← eq_of_beq hkm]; exact hnotin
      simp [hkm, this]
    · simp [hkm]

/-- What the member coalescer's flush sends about `m`: its pending event unless suppressed. -/
theorem flush_about (c : MC) (h : LatestOK c.latest) (m : String) :
    about m ((MemberCoalesce.flush c).2.map PEv.member) =
      (alookup c.latest m).toList.filter (fun e => !suppressed c.lastEvents e) := by
  rw [about_map_member]
  simp only [MemberCoalesce.flush]
  rw [flushLoop_out _ _ _ h]
  simp only [List.reverse_nil, List.nil_append, List.filter_filter]
  rw [← values_filter_name c.latest h m, List.filter_filter]
  apply List.filter_congr
  intro x _
  exact Bool.and_comm _ _

theorem flush_latest (c : MC) : (MemberCoalesce.flush c).1.latest = [] := by
  simp [MemberCoalesce.flush]

/-- **Stage law.** Whatever a stage does in one reaction, per member: what it sends followed by
what it then holds is a sublist of what it held followed by what it took. -/
theorem stage_law (st : Stage) (hok : StageOK st) (i : In PEv) (m : String) :
    (about m (st.step i).2 ++ held m (st.step i).1).Sublist (held m st ++ about m (evOf i)) ∧
    StageOK (st.step i).1 := by
  cases st with
  | tee =>
    cases i <;> simp [Stage.step, held, evOf, StageOK, about_nil]
  | filter =>
    cases i with
    | ev e =>
      cases e with
      | member x => simp [Stage.step, held, evOf, StageOK]
      | user u => simp [Stage.step, held, evOf, StageOK]
      | query b id => cases b <;> simp [Stage.step, held, evOf, StageOK, about_query, about_nil]
    | quantum => simp [Stage.step, held, evOf, StageOK, about_nil]
    | quiescent => simp [Stage.step, held, evOf, StageOK, about_nil]
    | shutdown => simp [Stage.step, held, evOf, StageOK, about_nil]
  | userCo s =>
    simp only [Stage.step, held, StageOK, List.append_nil, List.nil_append, and_true]
    -- everything a user coalescer sends about a member is a member event it just took
    cases i with
    | ev e =>
      by_cases hd : s.done
      · rw [step_after_done _ _ hd]; simp [about_nil]
      · have hd' : s.done = false := by simpa using hd
        by_cases hh : userCoP.handle e
        · rw [step_handled _ _ hd' _ hh]; simp [about_nil]
        · have hh' : userCoP.handle e = false := by simpa using hh
          rw [step_unhandled _ _ hd' _ hh']; simp [evOf]
    | quantum =>
      simp only [CoalesceLoop.step, flushNow, evOf, about_nil]
      split <;> simp [about_nil, userCoP, about_map_user]
    | quiescent =>
      simp only [CoalesceLoop.step, flushNow, evOf, about_nil]
      split <;> simp [about_nil, userCoP, about_map_user]
    | shutdown =>
      simp only [CoalesceLoop.step, flushNow, evOf, about_nil]
      split <;> simp [about_nil, userCoP, about_map_user]
  | memberCo s =>
    simp only [StageOK] at hok
    simp only [Stage.step, held, StageOK]
    have hflush : ∀ b : Bool,
        (about m (flushNow memberCoP s b).2 ++ (alookup (flushNow memberCoP s b).1.c.latest m).toList).Sublist
          ((alookup s.c.latest m).toList ++ []) ∧ LatestOK (flushNow memberCoP s b).1.c.latest := by
      intro b
      simp only [flushNow, memberCoP, flush_latest, alookup_nil, Option.toList_none, List.append_nil]
      rw [flush_about s.c hok m]
      exact ⟨List.filter_sublist, LatestOK.nil⟩
    cases i with
    | ev e =>
      by_cases hd : s.done
      · rw [step_after_done _ _ hd]
        simp only [about_nil, List.nil_append]
        exact ⟨List.sublist_append_left _ _, hok⟩
      · have hd' : s.done = false := by simpa using hd
        cases e with
        | member x =>
          rw [step_handled _ _ hd' _ rfl]
          simp only [about_nil, List.nil_append, evOf, memberCoP, MemberCoalesce.coalesce, alookup_ainsert,
            about_member]
          refine ⟨?_, hok.insert x⟩
          by_cases hx : m == x.name
          · have hx' : x.name == m := by rw [beq_iff_eq] at hx ⊢; exact hx.symm
            simp only [hx, ↓reduceIte, Option.toList_some, hx']
            exact List.sublist_append_right _ _
          · have hx' : ¬ (x.name == m) := by rw [beq_iff_eq] at hx ⊢; exact fun e' => hx e'.symm
            simp [hx, hx']
        | user u =>
          rw [step_unhandled _ _ hd' _ rfl]
          simp only [evOf, about_user, List.nil_append, List.append_nil]
          exact ⟨List.Sublist.refl _, hok⟩
        | query b id =>
          rw [step_unhandled _ _ hd' _ rfl]
          simp only [evOf, about_query, List.nil_append, List.append_nil]
          exact ⟨List.Sublist.refl _, hok⟩
    | quantum =>
      simp only [CoalesceLoop.step, evOf, about_nil]
      split
      · simp only [about_nil, List.nil_append, List.append_nil]; exact ⟨List.Sublist.refl _, hok⟩
      · exact hflush false
    | quiescent =>
      simp only [CoalesceLoop.step, evOf, about_nil]
      split
      · simp only [about_nil, List.nil_append, List.append_nil]; exact ⟨List.Sublist.refl _, hok⟩
      · exact hflush false
    | shutdown =>
      simp only [CoalesceLoop.step, evOf, about_nil]
      split
      · simp only [about_nil, List.nil_append, List.append_nil]; exact ⟨List.Sublist.refl _, hok⟩
      · exact hflush true

/-! ### The in-flight sequence -/

/-- one stage's part of the in-flight sequence about `m`: what it holds, then its queue -/
def seg (m : String) (sq : Stage × List PEv) : List MEv := held m sq.1 ++ about m sq.2

def flatS (m : String) : List (Stage × List PEv) → List MEv
  | [] => []
  | sq :: rest => seg m sq ++ flatS m rest

/-- received ++ in flight (downstream first) ++ not yet emitted, about `m` -/
def flat (m : String) (s : Pipe) : List MEv := about m s.recv ++ (flatS m s.stages ++ about m s.todo)

def AllOK (l : List (Stage × List PEv)) : Prop := ∀ sq ∈ l, StageOK sq.1

theorem act_law (st : Stage) (q : List PEv) (hok : StageOK st) (a : Act) (m : String) :
    (about m (act st q a).2.2 ++ seg m ((act st q a).1, (act st q a).2.1)).Sublist (seg m (st, q)) ∧
    StageOK (act st q a).1 := by
  cases a with
  | take =>
    cases q with
    | nil => simp [act, about_nil, hok]
    | cons e q' =>
      simp only [act, seg]
      obtain ⟨h1, h2⟩ := stage_law st hok (.ev e) m
      refine ⟨?_, h2⟩
      rw [about_cons m e q', ← List.append_assoc, ← List.append_assoc]
      exact List.Sublist.append h1 (List.Sublist.refl _)
  | drop =>
    cases st with
    | tee =>
      cases q with
      | nil => simp [act, about_nil, StageOK]
      | cons e q' =>
        simp only [act, seg, about_nil, held, List.nil_append, StageOK, and_true]
        rw [about_cons m e q']
        exact List.sublist_append_right _ _
    | filter => simp [act, about_nil, StageOK]
    | userCo s => simp [act, about_nil, StageOK]
    | memberCo s => simp [act, about_nil]; exact hok
  | quantum =>
    simp only [act, seg]
    obtain ⟨h1, h2⟩ := stage_law st hok .quantum m
    refine ⟨?_, h2⟩
    simp only [evOf, about_nil, List.append_nil] at h1
    rw [← List.append_assoc]
    exact List.Sublist.append h1 (List.Sublist.refl _)
  | quiescent =>
    simp only [act, seg]
    obtain ⟨h1, h2⟩ := stage_law st hok .quiescent m
    refine ⟨?_, h2⟩
    simp only [evOf, about_nil, List.append_nil] at h1
    rw [← List.append_assoc]
    exact List.Sublist.append h1 (List.Sublist.refl _)
  | shutdown =>
    simp only [act, seg]
    obtain ⟨h1, h2⟩ := stage_law st hok .shutdown m
    refine ⟨?_, h2⟩
    simp only [evOf, about_nil, List.append_nil] at h1
    rw [← List.append_assoc]
    exact List.Sublist.append h1 (List.Sublist.refl _)

theorem stepAt_law (l : List (Stage × List PEv)) : ∀ (k : Nat) (a : Act) (m : String), AllOK l →
    (about m (stepAt l k a).2 ++ flatS m (stepAt l k a).1).Sublist (flatS m l) ∧ AllOK (stepAt l k a).1 := by
  induction l with
  | nil => intro k a m _; simp [stepAt, flatS, about_nil, AllOK]
  | cons sq rest ih =>
    intro k a m hok
    obtain ⟨st, q⟩ := sq
    have hst : StageOK st := hok (st, q) List.mem_cons_self
    have hrest : AllOK rest := fun x hx => hok x (List.mem_cons_of_mem _ hx)
    cases k with
    | zero =>
      simp only [stepAt, flatS]
      obtain ⟨h1, h2⟩ := act_law st q hst a m
      refine ⟨?_, ?_⟩
      · rw [← List.append_assoc]
        exact List.Sublist.append h1 (List.Sublist.refl _)
      · intro x hx
        rcases List.mem_cons.mp hx with rfl | hx
        · exact h2
        · exact hrest x hx
    | succ k =>
      simp only [stepAt, flatS, about_nil, List.nil_append]
      obtain ⟨h1, h2⟩ := ih k a m hrest
      refine ⟨?_, ?_⟩
      · simp only [seg, about_append, List.append_assoc]
        exact List.Sublist.append (List.Sublist.refl _) (List.Sublist.append (List.Sublist.refl _) h1)
      · intro x hx
        rcases List.mem_cons.mp hx with rfl | hx
        · exact hst
        · exact h2 x hx

theorem pushLast_flat (l : List (Stage × List PEv)) (hne : l ≠ []) (e : PEv) (m : String) :
    flatS m (pushLast l e) = flatS m l ++ about m [e] := by
  induction l with
  | nil => exact absurd rfl hne
  | cons sq rest ih =>
    obtain ⟨st, q⟩ := sq
    cases rest with
    | nil => simp [pushLast, flatS, seg, about_append]
    | cons sq2 rest2 =>
      have := ih (by simp)
      simp only [pushLast, flatS, List.append_assoc] at this ⊢
      rw [this]

theorem pushLast_ok (l : List (Stage × List PEv)) (e : PEv) (h : AllOK l) : AllOK (pushLast l e) := by
  induction l with
  | nil => simpa [pushLast] using h
  | cons sq rest ih =>
    obtain ⟨st, q⟩ := sq
    cases rest with
    | nil =>
      intro x hx
      simp only [pushLast, List.mem_singleton] at hx
      subst hx
      exact h (st, q) List.mem_cons_self
    | cons sq2 rest2 =>
      intro x hx
      simp only [pushLast, List.mem_cons] at hx
      rcases hx with rfl | hx
      · exact h _ List.mem_cons_self
      · exact ih (fun y hy => h y (List.mem_cons_of_mem _ hy)) x (by simpa [pushLast] using hx)

/-- **Every step only ever removes events from the per-member sequence**
"received ++ in flight ++ still to emit"; it never reorders or adds. -/
theorem step_flat (s : Pipe) (hok : AllOK s.stages) (x : Step) (m : String) :
    (flat m (s.step x)).Sublist (flat m s) ∧ AllOK (s.step x).stages := by
  cases x with
  | emit =>
    simp only [Pipe.step]
    cases ht : s.todo with
    | nil => simp [hok]
    | cons e t =>
      simp only
      by_cases hem : s.stages.isEmpty
      · have : s.stages = [] := by simpa using hem
        simp only [this, List.isEmpty_nil, ↓reduceIte, flat, ht, flatS, List.nil_append, about_append]
        rw [about_cons m e t, List.append_assoc]
        exact ⟨List.Sublist.refl _, by intro x hx; simp at hx⟩
      · have hne : s.stages ≠ [] := by simpa using hem
        simp only [hem, Bool.false_eq_true, ↓reduceIte, flat, ht]
        rw [pushLast_flat _ hne, about_cons m e t, List.append_assoc]
        exact ⟨List.Sublist.refl _, pushLast_ok _ _ hok⟩
  | «at» k a =>
    simp only [Pipe.step, flat, about_append]
    obtain ⟨h1, h2⟩ := stepAt_law s.stages k a m hok
    refine ⟨?_, h2⟩
    rw [List.append_assoc, ← List.append_assoc (about m (stepAt s.stages k a).2)]
    exact List.Sublist.append (List.Sublist.refl _) (List.Sublist.append h1 (List.Sublist.refl _))

theorem run_flat (sched : List Step) : ∀ (s : Pipe), AllOK s.stages → ∀ m,
    (flat m (sched.foldl Pipe.step s)).Sublist (flat m s) := by
  induction sched with
  | nil => intro s _ m; exact List.Sublist.refl _
  | cons x xs ih =>
    intro s hok m
    obtain ⟨h1, h2⟩ := step_flat s hok x m
    exact (ih (s.step x) h2 m).trans h1

theorem stagesOf_ok (cfg : Cfg) : AllOK (stagesOf cfg) := by
  intro sq hsq
  simp only [stagesOf, List.mem_append] at hsq
  rcases hsq with ((h | h) | h) | h
  · split at h
    · simp only [List.mem_singleton] at h; subst h; exact LatestOK.nil
    · simp at h
  · split at h
    · simp only [List.mem_singleton] at h; subst h; trivial
    · simp at h
  · simp only [List.mem_singleton] at h; subst h; trivial
  · split at h
    · simp only [List.mem_singleton] at h; subst h; trivial
    · simp at h

end SerfProofs.Pipeline
