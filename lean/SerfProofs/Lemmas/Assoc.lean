/-
Lemmas about the association-list maps of `SerfModel.Prelude.Basic`
(`alookup`, `ainsert`, `aerase`): the facts every model built on them needs.
-/
import SerfModel.Prelude.Basic
namespace SerfModel
variable {α β : Type} [BEq α] [LawfulBEq α]
set_option linter.unusedSectionVars false

def akeys (m : List (α × β)) : List α := m.map (·.1)

@[simp] theorem alookup_nil (k : α) : alookup ([] : List (α × β)) k = none := rfl

theorem alookup_cons (p : α × β) (m : List (α × β)) (k : α) :
    alookup (p :: m) k = if p.1 == k then some p.2 else alookup m k := by
  unfold alookup
  simp only [List.find?_cons]
  cases h : p.1 == k <;> simp

theorem alookup_eq_none_iff (m : List (α × β)) (k : α) : alookup m k = none ↔ k ∉ akeys m := by
  induction m with
  | nil => simp [akeys]
  | cons p m ih =>
    rw [alookup_cons]
    by_cases h : p.1 == k
    · simp [h, akeys]; intro hne; exact absurd (eq_of_beq h).symm hne
    · simp only [h, Bool.false_eq_true, ↓reduceIte, ih, akeys, List.map_cons, List.mem_cons, not_or]
      constructor
      · intro h2; exact ⟨fun e => h (by simp [e]), h2⟩
      · intro h2; exact h2.2

theorem alookup_isSome_iff (m : List (α × β)) (k : α) : (alookup m k).isSome ↔ k ∈ akeys m := by
  have := alookup_eq_none_iff m k
  cases h : alookup m k <;> simp_all

theorem mem_of_alookup {m : List (α × β)} {k : α} {v : β} (h : alookup m k = some v) : (k, v) ∈ m := by
  induction m with
  | nil => simp at h
  | cons p m ih =>
    rw [alookup_cons] at h
    by_cases hp : p.1 == k
    · simp [hp] at h
      have := eq_of_beq hp
      simp only [List.mem_cons]
      left
      cases p; simp_all
    · simp [hp] at h
      exact List.mem_cons_of_mem _ (ih h)

theorem alookup_of_mem_nodup {m : List (α × β)} (hnd : (akeys m).Nodup) {k : α} {v : β} (h : (k, v) ∈ m) :
    alookup m k = some v := by
  induction m with
  | nil => simp at h
  | cons p m ih =>
    rw [alookup_cons]
    simp only [akeys, List.map_cons, List.nodup_cons] at hnd
    rcases List.mem_cons.mp h with h | h
    · subst h; simp
    · have : ¬ (p.1 == k) := by
        intro e
        have e' := eq_of_beq e
        apply hnd.1
        rw [e']
        exact List.mem_map_of_mem (f := (·.1)) h
      simp only [this, Bool.false_eq_true, ↓reduceIte]
      exact ih hnd.2 h

theorem akeys_ainsert_of_mem (m : List (α × β)) (k : α) (v : β) (h : k ∈ akeys m) :
    akeys (ainsert m k v) = akeys m := by
  have hany : m.any (·.1 == k) = true := by
    simp only [akeys, List.mem_map] at h
    obtain ⟨p, hp, rfl⟩ := h
    exact List.any_eq_true.mpr ⟨p, hp, by simp⟩
  simp only [ainsert, hany, ↓reduceIte, akeys, List.map_map]
  apply List.map_congr_left
  intro p _
  by_cases e : p.1 == k
  · simp [e]; exact (eq_of_beq e).symm
  · simp [e]

theorem akeys_ainsert_of_not_mem (m : List (α × β)) (k : α) (v : β) (h : k ∉ akeys m) :
    akeys (ainsert m k v) = akeys m ++ [k] := by
  have hany : m.any (·.1 == k) = false := by
    rw [Bool.eq_false_iff]
    intro ha
    obtain ⟨p, hp, e⟩ := List.any_eq_true.mp ha
    apply h
    have := eq_of_beq e
    rw [← this]
    exact List.mem_map_of_mem (f := (·.1)) hp
  simp [ainsert, hany, akeys]

theorem akeys_ainsert_nodup (m : List (α × β)) (k : α) (v : β) (h : (akeys m).Nodup) :
    (akeys (ainsert m k v)).Nodup := by
  by_cases hk : k ∈ akeys m
  · rw [akeys_ainsert_of_mem m k v hk]; exact h
  · rw [akeys_ainsert_of_not_mem m k v hk]
    rw [List.nodup_append]
    refine ⟨h, by simp, ?_⟩
    intro a ha b hb
    simp at hb
    subst hb
    intro e; subst e; exact hk ha

theorem mem_akeys_ainsert (m : List (α × β)) (k : α) (v : β) (x : α) :
    x ∈ akeys (ainsert m k v) ↔ x = k ∨ x ∈ akeys m := by
  by_cases hk : k ∈ akeys m
  · rw [akeys_ainsert_of_mem m k v hk]
    constructor
    · exact Or.inr
    · rintro (rfl | h)
      · exact hk
      · exact h
  · rw [akeys_ainsert_of_not_mem m k v hk]
    simp [or_comm]

theorem alookup_ainsert_self (m : List (α × β)) (k : α) (v : β) : alookup (ainsert m k v) k = some v := by
  induction m with
  | nil => simp [ainsert, alookup_cons]
  | cons p m ih =>
    by_cases hp : p.1 == k
    · simp [ainsert, hp, alookup_cons]
    · by_cases hany : m.any (·.1 == k)
      · have : ainsert (p :: m) k v = p :: ainsert m k v := by
          simp [ainsert, hp, hany]
        rw [this, alookup_cons]; simp [hp, ih]
      · have : ainsert (p :: m) k v = p :: ainsert m k v := by
          simp [ainsert, hp, hany]
        rw [this, alookup_cons]; simp [hp, ih]

theorem alookup_ainsert_ne (m : List (α × β)) (k : α) (v : β) (x : α) (h : x ≠ k) :
    alookup (ainsert m k v) x = alookup m x := by
  induction m with
  | nil =>
    simp only [ainsert, List.any_nil, Bool.false_eq_true, ↓reduceIte, List.nil_append, alookup_cons, alookup_nil]
    have : ¬ (k == x) := by intro e; exact h (eq_of_beq e).symm
    simp [this]
  | cons p m ih =>
    by_cases hp : p.1 == k
    · have hk := eq_of_beq hp
      have hx : ¬ (p.1 == x) := by intro e; exact h ((eq_of_beq e).symm.trans hk)
      have hx' : ¬ (k == x) := by intro e; exact h (eq_of_beq e).symm
      simp only [ainsert, List.any_cons, hp, Bool.true_or, ↓reduceIte, List.map_cons, alookup_cons, hx,
        Bool.false_eq_true, hx']
      -- the tail is mapped; lookups of x are unaffected
      have : ∀ l : List (α × β), alookup (l.map fun q => if q.1 == k then (k, v) else q) x = alookup l x := by
        intro l
        induction l with
        | nil => rfl
        | cons q l ihl =>
          simp only [List.map_cons, alookup_cons]
          by_cases hq : q.1 == k
          · have hqx : ¬ (q.1 == x) := by intro e; exact h ((eq_of_beq e).symm.trans (eq_of_beq hq))
            simp [hq, hx', hqx, ihl]
          · rw [if_neg hq, ihl]
      exact this m
    · have : ainsert (p :: m) k v = p :: ainsert m k v := by
        by_cases hany : m.any (·.1 == k) <;> simp [ainsert, hp, hany]
      rw [this, alookup_cons, alookup_cons, ih]

theorem alookup_ainsert (m : List (α × β)) (k : α) (v : β) (x : α) :
    alookup (ainsert m k v) x = if x == k then some v else alookup m x := by
  by_cases h : x = k
  · subst h; simp [alookup_ainsert_self]
  · have : ¬ (x == k) := by intro e; exact h (eq_of_beq e)
    simp [this, alookup_ainsert_ne m k v x h]

theorem alookup_aerase_self (m : List (α × β)) (k : α) : alookup (aerase m k) k = none := by
  rw [alookup_eq_none_iff]
  simp [akeys, aerase]

theorem alookup_aerase_ne (m : List (α × β)) (k x : α) (h : x ≠ k) : alookup (aerase m k) x = alookup m x := by
  induction m with
  | nil => rfl
  | cons p m ih =>
    by_cases hp : p.1 == k
    · have hx : ¬ (p.1 == x) := by intro e; exact h ((eq_of_beq e).symm.trans (eq_of_beq hp))
      simp only [aerase, List.filter_cons, hp, Bool.not_true, Bool.false_eq_true, ↓reduceIte, alookup_cons, hx]
      exact ih
    · simp only [aerase, List.filter_cons, hp, Bool.not_false, ↓reduceIte, alookup_cons]
      have := ih
      simp only [aerase] at this
      rw [this]

theorem akeys_aerase_nodup (m : List (α × β)) (k : α) (h : (akeys m).Nodup) : (akeys (aerase m k)).Nodup := by
  unfold akeys aerase
  exact (List.Sublist.map _ List.filter_sublist).nodup h

theorem mem_akeys_aerase (m : List (α × β)) (k x : α) : x ∈ akeys (aerase m k) ↔ x ≠ k ∧ x ∈ akeys m := by
  simp only [akeys, aerase, List.mem_map, List.mem_filter]
  constructor
  · rintro ⟨p, ⟨hp, hne⟩, rfl⟩
    exact ⟨by intro e; simp [e] at hne, p, hp, rfl⟩
  · rintro ⟨hne, p, hp, rfl⟩
    exact ⟨p, ⟨hp, by simpa using hne⟩, rfl⟩

end SerfModel
