/-
Observer-local lemmas about the node model (`SerfModel.Node`), for C01: what one observer node
records about ONE subject `x` along an arbitrary history of inputs.

  * record-level effect of the four basic handlers on their subject (`hli_rec`, `hji_rec`,
    `hnj_rec`, `hnl_rec`) and on the buffered intents (`hli_intents`, `hji_intents`);
  * syntactic summaries of a history about `x`: the leave-claim times and join-intent times it
    delivers (`leaveTimes`, `joinTimes`), whether the last memberlist notification was a join
    (`lastUp`), "nothing erases `x`" (`KeptAlong`, built on `NodeGossip.Keeps`);
  * a master step lemma for predicates on the record of `x` (`step_record`): it is enough to
    check the atomic effects (leave claim, join intent, memberlist up / down, erasure);
  * stability theorems: left is absorbing, failed is stable without leave claims, a graceful
    leave followed by memberlist's down notification ends in left, force-leave of a failed
    member ends in left;
  * the observer invariant `ObsInv` (what the record / buffered intent of `x` can be, given the
    times delivered so far) and its preservation by every op (`obs_step`, `obs_run`);
  * `observer_alive` (`observer_alive_from` for any start that holds nothing about `x`): if the
    last notification about `x` is a join, `x` is not erased or force-left and every leave claim
    delivered about `x` is strictly older than some join intent delivered about it, the observer
    lists `x` as alive;
  * `keptAlongB` / `keptAlong_of_B`: a decidable check of `KeptAlong` for concrete histories.
`mergeClaim` (the time of the artificial leave a merge creates) is the one of `SerfProofs.NodeSelf`.
Core Lean only.
-/
import SerfProofs.Lemmas.NodeSteps
import SerfProofs.Lemmas.NodeGossip
import SerfProofs.Lemmas.NodeSelf
namespace SerfProofs.NodeObserver
open SerfModel SerfModel.Node SerfProofs.NodeBook SerfProofs.NodeGossip SerfProofs.NodeSteps SerfProofs.NodeSelf

/-! ### what the four basic handlers do to the record of their subject -/

/-- The status a newer leave claim (without prune) gives a member. -/
def afterLeave : Status → Status
  | .alive => .leaving
  | .failed => .left
  | s => s

/-- effect of a leave claim at time `lt` (no prune) on a record -/
def leaveUpd (lt : Nat) (m : Member) : Member :=
  if lt ≤ m.ltime then m else { m with ltime := lt, status := afterLeave m.status }

/-- effect of a join intent at time `lt` on a record -/
def joinUpd (lt : Nat) (m : Member) : Member :=
  if lt ≤ m.ltime then m else { m with ltime := lt, status := if m.status = .leaving then .alive else m.status }

/-- effect of memberlist's leave notification on a record -/
def downUpd (at_ : Nat) (m : Member) : Member :=
  match m.status with
  | .leaving => { m with status := .left, leaveTime := at_ }
  | .alive => { m with status := .failed, leaveTime := at_ }
  | _ => m

/-- the record memberlist's join notification creates for an unknown member -/
def newRec : Option Intent → Member
  | some i => if i.isLeave then { status := .leaving, ltime := i.ltime } else { status := .alive, ltime := i.ltime }
  | none => { status := .alive, ltime := 0 }

theorem hli_rec (n : Node) (x : Name) (lt : Nat) (p : Bool) (w : Nat) :
    alookup (handleLeaveIntent n x lt p w).1.members x =
      match alookup n.members x with
      | none => none
      | some m =>
        if lt ≤ m.ltime then some m
        else if x = n.name ∧ n.life = .alive then some m
        else if p then none else some (leaveUpd lt m) := by
  unfold handleLeaveIntent; dsimp only
  split
  · next hnone => simp [hnone]
  · next m hsome =>
    simp only [hsome]
    split
    · exact hsome
    · next hlt =>
      split
      · exact hsome
      · split
        · next hst =>
          split
          · next hp => simp [handlePrune_members, alookup_aerase_self]
          · next hp => simp [alookup_ainsert_self, leaveUpd, hlt, hst, afterLeave]
        · next hst =>
          split
          · next hp => simp [handlePrune_members, alookup_aerase_self]
          · next hp => simp [alookup_ainsert_self, leaveUpd, hlt, hst, afterLeave]
        · next hna hnf =>
          have : afterLeave m.status = m.status := by
            cases hst : m.status <;> simp_all [afterLeave]
          split
          · next hp => simp [handlePrune_members, alookup_aerase_self]
          · next hp => simp [alookup_ainsert_self, leaveUpd, hlt, this]

theorem hji_rec (n : Node) (x : Name) (lt w : Nat) :
    alookup (handleJoinIntent n x lt w).1.members x = (alookup n.members x).map (joinUpd lt) := by
  unfold handleJoinIntent; dsimp only
  split
  · next hnone => simp [hnone]
  · next m hsome =>
    simp only [hsome, Option.map]
    split
    · next h => simp [hsome, joinUpd, h]
    · next h => simp [alookup_ainsert_self, joinUpd, h]

theorem hnj_rec (n : Node) (x : Name) :
    alookup (handleNodeJoin n x).1.members x =
      match alookup n.members x with
      | none => some (newRec (alookup n.intents x))
      | some m => some { m with status := .alive, leaveTime := 0 } := by
  cases hm : alookup n.members x with
  | none =>
    unfold handleNodeJoin
    simp only [hm]
    rw [alookup_ainsert_self]
    unfold newRec
    cases alookup n.intents x <;> rfl
  | some m =>
    unfold handleNodeJoin
    simp only [hm]
    split <;> simp [alookup_ainsert_self]

theorem hnl_rec (n : Node) (x : Name) (a : Nat) :
    alookup (handleNodeLeave n x a).1.members x = (alookup n.members x).map (downUpd a) := by
  unfold handleNodeLeave
  split
  · next hnone => simp [hnone]
  · next m hsome =>
    simp only [hsome, Option.map]
    split
    · next hst => simp [alookup_ainsert_self, downUpd, hst]
    · next hst => simp [alookup_ainsert_self, downUpd, hst]
    · next h1 h2 =>
      simp only [downUpd]
      cases hst : m.status <;> simp_all

theorem hnl_lookup_ne (n : Node) (x : Name) (a : Nat) (y : Name) (hy : y ≠ x) :
    alookup (handleNodeLeave n x a).1.members y = alookup n.members y := by
  unfold handleNodeLeave
  split
  · rfl
  · split
    · exact alookup_ainsert_ne _ _ _ _ hy
    · exact alookup_ainsert_ne _ _ _ _ hy
    · rfl


/-! ### names and buffered intents -/

theorem hnj_name (n : Node) (x : Name) : (handleNodeJoin n x).1.name = n.name := by
  unfold handleNodeJoin
  split
  · rfl
  · dsimp only; split <;> rfl

theorem hnl_name (n : Node) (x : Name) (a : Nat) : (handleNodeLeave n x a).1.name = n.name := by
  unfold handleNodeLeave
  split
  · rfl
  · split <;> rfl

theorem hnj_intents (n : Node) (x : Name) : (handleNodeJoin n x).1.intents = n.intents := by
  unfold handleNodeJoin
  split
  · rfl
  · dsimp only; split <;> rfl

theorem hnl_intents (n : Node) (x : Name) (a : Nat) : (handleNodeLeave n x a).1.intents = n.intents := by
  unfold handleNodeLeave
  split
  · rfl
  · split <;> rfl

theorem handlePrune_intents (n : Node) (x : Name) : (handlePrune n x).1.intents = n.intents := by
  unfold handlePrune; dsimp only; split <;> rfl

theorem hli_intents (n : Node) (x : Name) (lt : Nat) (p : Bool) (w : Nat) :
    (handleLeaveIntent n x lt p w).1.intents =
      match alookup n.members x with
      | none => (upsertIntent n.intents x true lt w).1
      | some _ => n.intents := by
  cases hm : alookup n.members x with
  | none => unfold handleLeaveIntent; simp only [hm]
  | some m =>
    unfold handleLeaveIntent; simp only [hm]
    split
    · rfl
    · split
      · rfl
      · split <;> split <;> simp [handlePrune_intents]

theorem hji_intents (n : Node) (x : Name) (lt w : Nat) :
    (handleJoinIntent n x lt w).1.intents =
      match alookup n.members x with
      | none => (upsertIntent n.intents x false lt w).1
      | some _ => n.intents := by
  cases hm : alookup n.members x with
  | none => unfold handleJoinIntent; simp only [hm]
  | some m =>
    unfold handleJoinIntent; simp only [hm]
    split <;> rfl

theorem broadcastJoin_name (n : Node) (t w : Nat) : (broadcastJoin n t w).1.name = n.name := by
  unfold broadcastJoin
  exact hji_name { n with clock := witness n.clock t } n.name t w

theorem step_name (n : Node) (op : Op) : (step n op).1.name = n.name := by
  cases op with
  | nodeJoin x => exact hnj_name n x
  | nodeLeave x a => exact hnl_name n x a
  | nodeUpdate x => show (handleNodeUpdate n x).1.name = n.name; unfold handleNodeUpdate; split <;> rfl
  | joinMsg x lt w => exact hji_name n x lt w
  | leaveMsg x lt p w => exact hli_name n x lt p w
  | merge lt st lf w =>
    show (merge n lt st lf w).1.name = n.name
    rw [merge_eq]; dsimp only
    rw [mergeJoins_name, mergeLefts_name, mergeStart_name]
  | forceLeave x p w =>
    show (forceLeave n x p w).1.name = n.name
    unfold forceLeave
    exact hli_name { n with clock := (n.clock + 1) % two64 } x n.clock p w
  | ownJoin w => exact broadcastJoin_name n n.clock w
  | leaveBegin w =>
    show (leaveBegin n w).1.name = n.name
    unfold leaveBegin
    split
    · rfl
    · exact hli_name { n with life := .leaving, clock := (n.clock + 1) % two64 } n.name n.clock false w
  | leaveEnd => show (leaveEnd n).name = n.name; unfold leaveEnd; split <;> rfl
  | shutdown => rfl
  | reap now ov => rfl
  | runPending w =>
    show (runPending n w).1.name = n.name
    unfold runPending
    split
    · rfl
    · next t rest _ => exact broadcastJoin_name { n with pending := rest } t w

theorem run_name (ops : List Op) : ∀ n : Node, (run n ops).name = n.name := by
  induction ops with
  | nil => intro n; rfl
  | cons op ops ih => intro n; show (run (step n op).1 ops).name = n.name; rw [ih, step_name]

theorem run_append (a b : List Op) : ∀ n : Node, run n (a ++ b) = run (run n a) b := by
  induction a with
  | nil => intro n; rfl
  | cons op a ih => intro n; exact ih _

/-! ### syntactic summaries of a history, about one subject `x` -/

/-- leave-claim times about `x` that an op delivers to the observer (gossip, or the artificial
leave a merge creates for a member it lists as left, at `mergeClaim`) -/
def opLeaveTimes (x : Name) : Op → List Nat
  | .leaveMsg y t _ _ => if y = x then [t] else []
  | .merge _ st lf _ => if x ∈ lf then [mergeClaim st x] else []
  | _ => []

/-- join-intent times about `x` that an op delivers (gossip, or a merge entry for a member not
listed as left) -/
def opJoinTimes (x : Name) : Op → List Nat
  | .joinMsg y t _ => if y = x then [t] else []
  | .merge _ st lf _ => if x ∈ lf then [] else (st.filter (fun p => decide (p.1 = x))).map (·.2)
  | _ => []

def leaveTimes (ops : List Op) (x : Name) : List Nat := ops.flatMap (opLeaveTimes x)
def joinTimes (ops : List Op) (x : Name) : List Nat := ops.flatMap (opJoinTimes x)

/-- effect of one op on "the last memberlist notification about `x` was NotifyJoin" -/
def upAfter (x : Name) (op : Op) (acc : Bool) : Bool :=
  match op with
  | .nodeJoin y => if y = x then true else acc
  | .nodeLeave y _ => if y = x then false else acc
  | _ => acc

/-- the last memberlist notification about `x` was NotifyJoin (`acc` if there was none) -/
def lastUp (x : Name) : List Op → Bool → Bool
  | [], acc => acc
  | op :: r, acc => lastUp x r (upAfter x op acc)

/-- no operation of the history erases the member `x` or drops / lowers its buffered intent -/
def KeptAlong : Node → List Op → Name → Prop
  | _, [], _ => True
  | n, op :: ops, x => Keeps n op x ∧ KeptAlong (step n op).1 ops x

def NoForceLeave (ops : List Op) (x : Name) : Prop := ∀ op ∈ ops, ∀ p w, op ≠ .forceLeave x p w

/-- the op carries a leave claim about `x` (gossip, force-leave, or a merge listing `x` as left) -/
def isLeaveClaimAbout (x : Name) : Op → Bool
  | .leaveMsg y _ _ _ => decide (y = x)
  | .forceLeave y _ _ => decide (y = x)
  | .merge _ _ lf _ => decide (x ∈ lf)
  | _ => false

theorem mem_mergeJoinTimes (st : List (Name × Nat)) (x : Name) (t : Nat) :
    t ∈ (st.filter (fun p => decide (p.1 = x))).map (·.2) ↔ (x, t) ∈ st := by
  simp only [List.mem_map, List.mem_filter, decide_eq_true_eq]
  constructor
  · rintro ⟨⟨y, t'⟩, ⟨hm, hy⟩, ht⟩
    dsimp only at hy ht
    subst hy; subst ht; exact hm
  · intro h; exact ⟨(x, t), ⟨h, rfl⟩, rfl⟩

theorem KeptAlong.known : ∀ (ops : List Op) (n : Node) (x : Name), KeptAlong n ops x → known n x = true →
    known (run n ops) x = true := by
  intro ops
  induction ops with
  | nil => intro n x _ h; exact h
  | cons op ops ih => intro n x hk h; exact ih _ x hk.2 (hk.1.1 h)

/-! ### a master step lemma for predicates on the record of `x` -/

/-- where a leave claim about `x` can come from in one op -/
def LeaveSrc (self : Name) (op : Op) (x : Name) (lt : Nat) : Prop :=
  lt ∈ opLeaveTimes x op ∨ (∃ p w, op = .forceLeave x p w) ∨ (x = self ∧ ∃ w, op = .leaveBegin w)

/-- where a join intent about `x` can come from in one op -/
def JoinSrc (self : Name) (op : Op) (x : Name) (lt : Nat) : Prop :=
  lt ∈ opJoinTimes x op ∨ (x = self ∧ ((∃ w, op = .ownJoin w) ∨ ∃ w, op = .runPending w))

section rec
variable (P : Option Member → Prop) (x : Name)

theorem rec_hli (hnone : P none) (n : Node) (y : Name) (lt : Nat) (p : Bool) (w : Nat)
    (hl : y = x → ∀ m, P (some m) → P (some (leaveUpd lt m)))
    (h : P (alookup n.members x)) : P (alookup (handleLeaveIntent n y lt p w).1.members x) := by
  by_cases hy : y = x
  · subst hy
    rw [hli_rec]
    cases hm : alookup n.members y with
    | none => exact hnone
    | some m =>
      rw [hm] at h
      dsimp only
      split
      · exact h
      · split
        · exact h
        · split
          · exact hnone
          · exact hl rfl m h
  · rw [hli_lookup_ne _ _ _ _ _ _ (fun e => hy e.symm)]; exact h

theorem rec_hji (hnone : P none) (n : Node) (y : Name) (lt w : Nat)
    (hj : y = x → ∀ m, P (some m) → P (some (joinUpd lt m)))
    (h : P (alookup n.members x)) : P (alookup (handleJoinIntent n y lt w).1.members x) := by
  by_cases hy : y = x
  · subst hy
    rw [hji_rec]
    cases hm : alookup n.members y with
    | none => exact hnone
    | some m => rw [hm] at h; exact hj rfl m h
  · rw [hji_lookup_ne _ _ _ _ _ (fun e => hy e.symm)]; exact h

theorem rec_mergeLefts (hnone : P none) (st : List (Name × Nat)) (w : Nat) (ys : List Name)
    (hl : x ∈ ys → ∀ m, P (some m) → P (some (leaveUpd (mergeClaim st x) m))) :
    ∀ n : Node, P (alookup n.members x) → P (alookup (mergeLefts n st w ys).1.members x) := by
  induction ys with
  | nil => intro n h; exact h
  | cons y ys ih =>
    intro n h
    unfold mergeLefts; dsimp only
    apply ih (fun hm => hl (List.mem_cons_of_mem _ hm))
    apply rec_hli P x hnone _ _ _ _ _ _ h
    intro e; subst e
    exact hl (List.mem_cons_self ..)

theorem rec_mergeJoins (hnone : P none) (lf : List Name) (w : Nat) (st : List (Name × Nat))
    (hj : ∀ t, (x, t) ∈ st → x ∉ lf → ∀ m, P (some m) → P (some (joinUpd t m))) :
    ∀ n : Node, P (alookup n.members x) → P (alookup (mergeJoins n lf w st).members x) := by
  induction st with
  | nil => intro n h; exact h
  | cons q rest ih =>
    intro n h
    obtain ⟨y, t⟩ := q
    unfold mergeJoins
    split
    · exact ih (fun t ht => hj t (List.mem_cons_of_mem _ ht)) n h
    · next hy =>
      apply ih (fun t ht => hj t (List.mem_cons_of_mem _ ht))
      apply rec_hji P x hnone _ _ _ _ _ h
      intro e; subst e
      exact hj t (List.mem_cons_self ..) hy

theorem rec_broadcastJoin (hnone : P none) (n : Node) (t w : Nat)
    (hj : n.name = x → ∀ m, P (some m) → P (some (joinUpd t m)))
    (h : P (alookup n.members x)) : P (alookup (broadcastJoin n t w).1.members x) := by
  unfold broadcastJoin
  exact rec_hji P x hnone { n with clock := witness n.clock t } n.name t w hj h

/-- To show that a predicate on the record of `x` survives an op (other than memberlist
announcing `x`), it is enough that it holds for "no record" and survives the atomic effects
the op can have on `x`. -/
theorem step_record (n : Node) (op : Op) (hnone : P none) (hup : op ≠ .nodeJoin x)
    (hleave : ∀ lt, LeaveSrc n.name op x lt → ∀ m, P (some m) → P (some (leaveUpd lt m)))
    (hjoin : ∀ lt, JoinSrc n.name op x lt → ∀ m, P (some m) → P (some (joinUpd lt m)))
    (hdown : ∀ a, op = .nodeLeave x a → ∀ m, P (some m) → P (some (downUpd a m)))
    (h : P (alookup n.members x)) : P (alookup (step n op).1.members x) := by
  cases op with
  | nodeJoin y =>
    have hy : x ≠ y := fun e => hup (by rw [e])
    show P (alookup (handleNodeJoin n y).1.members x)
    rw [alookup_handleNodeJoin_ne n y x hy]; exact h
  | nodeLeave y a =>
    show P (alookup (handleNodeLeave n y a).1.members x)
    by_cases hy : y = x
    · subst hy
      rw [hnl_rec]
      cases hm : alookup n.members y with
      | none => exact hnone
      | some m => rw [hm] at h; exact hdown a rfl m h
    · rw [hnl_lookup_ne _ _ _ _ (fun e => hy e.symm)]; exact h
  | nodeUpdate y =>
    show P (alookup (handleNodeUpdate n y).1.members x)
    unfold handleNodeUpdate; split <;> exact h
  | joinMsg y lt w =>
    apply rec_hji P x hnone n y lt w _ h
    intro e; subst e
    exact hjoin lt (Or.inl (by simp [opJoinTimes]))
  | leaveMsg y lt p w =>
    apply rec_hli P x hnone n y lt p w _ h
    intro e; subst e
    exact hleave lt (Or.inl (by simp [opLeaveTimes]))
  | merge lt st lf w =>
    show P (alookup (merge n lt st lf w).1.members x)
    rw [merge_eq]; dsimp only
    apply rec_mergeJoins P x hnone
    · intro t ht hx
      exact hjoin t (Or.inl (by simp only [opJoinTimes, if_neg hx]; exact (mem_mergeJoinTimes st x t).mpr ht))
    · apply rec_mergeLefts P x hnone
      · intro hx
        exact hleave _ (Or.inl (by simp [opLeaveTimes, hx]))
      · rw [mergeStart_members]; exact h
  | forceLeave y p w =>
    show P (alookup (forceLeave n y p w).1.members x)
    unfold forceLeave
    apply rec_hli P x hnone { n with clock := (n.clock + 1) % two64 } y n.clock p w _ h
    intro e; subst e
    exact hleave _ (Or.inr (Or.inl ⟨p, w, rfl⟩))
  | ownJoin w =>
    apply rec_broadcastJoin P x hnone n n.clock w _ h
    intro e
    exact hjoin _ (Or.inr ⟨e.symm, Or.inl ⟨w, rfl⟩⟩)
  | leaveBegin w =>
    show P (alookup (leaveBegin n w).1.members x)
    unfold leaveBegin
    split
    · exact h
    · apply rec_hli P x hnone { n with life := .leaving, clock := (n.clock + 1) % two64 } n.name n.clock false w _ h
      intro e
      exact hleave _ (Or.inr (Or.inr ⟨e.symm, w, rfl⟩))
  | leaveEnd =>
    show P (alookup (leaveEnd n).members x)
    unfold leaveEnd; split <;> exact h
  | shutdown => exact h
  | reap now ov =>
    show P (alookup (reap n now ov).1.members x)
    rw [reap_members_eq, alookup_eraseAll, alookup_eraseAll]
    split
    · exact hnone
    · split
      · exact hnone
      · exact h
  | runPending w =>
    show P (alookup (runPending n w).1.members x)
    unfold runPending
    split
    · exact h
    · next t rest _ =>
      apply rec_broadcastJoin P x hnone { n with pending := rest } t w _ h
      intro e
      exact hjoin _ (Or.inr ⟨e.symm, Or.inr ⟨w, rfl⟩⟩)

end rec
/-! ### stability theorems -/

theorem statusOf_eq_iff (n : Node) (x : Name) (s : Status) :
    statusOf n x = some s ↔ ∃ m, alookup n.members x = some m ∧ m.status = s := by
  unfold statusOf
  cases alookup n.members x <;> simp

theorem ltimeOf_eq_iff (n : Node) (x : Name) (t : Nat) :
    ltimeOf n x = some t ↔ ∃ m, alookup n.members x = some m ∧ m.ltime = t := by
  unfold ltimeOf
  cases alookup n.members x <;> simp

/-- A property `Q` of the record of `x` that survives the atomic effects the ops of a history can
have on `x` holds at the end, as long as `x` is not erased and not announced anew. -/
theorem run_record (Q : Member → Prop) (x : Name) (ops : List Op) : ∀ n : Node,
    (∀ op ∈ ops, op ≠ .nodeJoin x) →
    (∀ op ∈ ops, ∀ lt, LeaveSrc n.name op x lt → ∀ m, Q m → Q (leaveUpd lt m)) →
    (∀ op ∈ ops, ∀ lt, JoinSrc n.name op x lt → ∀ m, Q m → Q (joinUpd lt m)) →
    (∀ op ∈ ops, ∀ a, op = .nodeLeave x a → ∀ m, Q m → Q (downUpd a m)) →
    KeptAlong n ops x → (∃ m, alookup n.members x = some m ∧ Q m) →
    ∃ m, alookup (run n ops).members x = some m ∧ Q m := by
  induction ops with
  | nil => intro n _ _ _ _ _ h; exact h
  | cons op ops ih =>
    intro n hup hl hj hd hk h
    have hmem : op ∈ op :: ops := List.mem_cons_self ..
    have hP : (fun r : Option Member => r = none ∨ ∃ m, r = some m ∧ Q m) (alookup (step n op).1.members x) := by
      refine step_record (fun r : Option Member => r = none ∨ ∃ m, r = some m ∧ Q m) x n op (Or.inl rfl)
        (hup op hmem) ?_ ?_ ?_ ?_
      · rintro lt hs m (h0 | ⟨m', hm', hq⟩)
        · cases h0
        · cases hm'; exact Or.inr ⟨_, rfl, hl op hmem lt hs m hq⟩
      · rintro lt hs m (h0 | ⟨m', hm', hq⟩)
        · cases h0
        · cases hm'; exact Or.inr ⟨_, rfl, hj op hmem lt hs m hq⟩
      · rintro a ha m (h0 | ⟨m', hm', hq⟩)
        · cases h0
        · cases hm'; exact Or.inr ⟨_, rfl, hd op hmem a ha m hq⟩
      · obtain ⟨m, hm, hq⟩ := h
        exact Or.inr ⟨m, hm, hq⟩
    have hkn : known (step n op).1 x = true := by
      apply hk.1.1
      obtain ⟨m, hm, _⟩ := h
      exact known_of_lookup hm
    have h' : ∃ m, alookup (step n op).1.members x = some m ∧ Q m := by
      rcases hP with h0 | h1
      · rw [known_of_lookup_none h0] at hkn; cases hkn
      · exact h1
    have hn := step_name n op
    apply ih (step n op).1 (fun o ho => hup o (List.mem_cons_of_mem _ ho))
      (fun o ho => by rw [hn]; exact hl o (List.mem_cons_of_mem _ ho))
      (fun o ho => by rw [hn]; exact hj o (List.mem_cons_of_mem _ ho))
      (fun o ho => hd o (List.mem_cons_of_mem _ ho)) hk.2 h'

theorem leaveUpd_status_left (lt : Nat) (m : Member) (h : m.status = .left) : (leaveUpd lt m).status = .left := by
  unfold leaveUpd; split
  · exact h
  · simp [h, afterLeave]

theorem joinUpd_status (lt : Nat) (m : Member) (h : m.status ≠ .leaving) : (joinUpd lt m).status = m.status := by
  unfold joinUpd; split
  · rfl
  · simp

theorem downUpd_status_left (a : Nat) (m : Member) (h : m.status = .left) : (downUpd a m).status = .left := by
  unfold downUpd; rw [h]; exact h

theorem downUpd_status_failed (a : Nat) (m : Member) (h : m.status = .failed) : (downUpd a m).status = .failed := by
  unfold downUpd; rw [h]; exact h

/-- left is absorbing: nothing but a new memberlist join notification (or erasure) changes a left member -/
theorem left_stays_left (n : Node) (ops : List Op) (x : Name) (h : statusOf n x = some .left)
    (hj : ∀ op ∈ ops, op ≠ .nodeJoin x) (hk : KeptAlong n ops x) : statusOf (run n ops) x = some .left := by
  rw [statusOf_eq_iff] at h ⊢
  apply run_record (fun m => m.status = .left) x ops n hj _ _ _ hk h
  · intro _ _ lt _ m hm; exact leaveUpd_status_left lt m hm
  · intro _ _ lt _ m hm
    show (joinUpd lt m).status = .left
    rw [joinUpd_status lt m (by rw [hm]; simp)]; exact hm
  · intro _ _ a _ m hm; exact downUpd_status_left a m hm

theorem opLeaveTimes_nil_of_not_claim (x : Name) (op : Op) (h : isLeaveClaimAbout x op = false) :
    opLeaveTimes x op = [] := by
  cases op <;> simp_all [isLeaveClaimAbout, opLeaveTimes]

/-- failed is stable while memberlist does not announce `x` anew and no leave / force-leave claim about `x` arrives -/
theorem failed_stays_failed (n : Node) (ops : List Op) (x : Name) (hx : x ≠ n.name) (h : statusOf n x = some .failed)
    (hj : ∀ op ∈ ops, op ≠ .nodeJoin x) (hl : ∀ op ∈ ops, isLeaveClaimAbout x op = false) (hk : KeptAlong n ops x) :
    statusOf (run n ops) x = some .failed := by
  rw [statusOf_eq_iff] at h ⊢
  apply run_record (fun m => m.status = .failed) x ops n hj _ _ _ hk h
  · intro op ho lt hs m _
    exfalso
    rcases hs with hs | ⟨p, w, rfl⟩ | ⟨e, _⟩
    · rw [opLeaveTimes_nil_of_not_claim x op (hl op ho)] at hs; cases hs
    · have := hl _ ho; simp [isLeaveClaimAbout] at this
    · exact hx e
  · intro _ _ lt _ m hm
    show (joinUpd lt m).status = .failed
    rw [joinUpd_status lt m (by rw [hm]; simp)]; exact hm
  · intro _ _ a _ m hm; exact downUpd_status_failed a m hm

/-- memberlist's down notification: alive becomes failed, leaving becomes left -/
theorem down_step (n : Node) (x : Name) (at_ : Nat) :
    (statusOf n x = some .alive → statusOf (step n (.nodeLeave x at_)).1 x = some .failed) ∧
    (statusOf n x = some .leaving → statusOf (step n (.nodeLeave x at_)).1 x = some .left) := by
  constructor
  · intro h
    rw [statusOf_eq_iff] at h ⊢
    obtain ⟨m, hm, hs⟩ := h
    show ∃ m, alookup (handleNodeLeave n x at_).1.members x = some m ∧ _
    rw [hnl_rec, hm]
    exact ⟨_, rfl, by simp [downUpd, hs]⟩
  · intro h
    rw [statusOf_eq_iff] at h ⊢
    obtain ⟨m, hm, hs⟩ := h
    show ∃ m, alookup (handleNodeLeave n x at_).1.members x = some m ∧ _
    rw [hnl_rec, hm]
    exact ⟨_, rfl, by simp [downUpd, hs]⟩

/-- a newer leave claim (no prune) about a member other than the local node: the record gets the
claim's time and the status `afterLeave` -/
theorem newer_leave_rec (n : Node) (x : Name) (lt w : Nat) (m : Member) (hx : x ≠ n.name)
    (hm : alookup n.members x = some m) (hlt : m.ltime < lt) :
    alookup (handleLeaveIntent n x lt false w).1.members x =
      some { m with ltime := lt, status := afterLeave m.status } := by
  rw [hli_rec, hm]
  have h1 : ¬ lt ≤ m.ltime := by omega
  have h2 : ¬ (x = n.name ∧ n.life = .alive) := fun h => hx h.1
  simp [h1, h2, leaveUpd]

/-- a failed member about which a newer leave claim arrives becomes left -/
theorem failed_newer_leave_left (n : Node) (x : Name) (t lt w : Nat) (h : statusOf n x = some .failed)
    (hx : x ≠ n.name) (ht : ltimeOf n x = some t) (hlt : t < lt) :
    statusOf (step n (.leaveMsg x lt false w)).1 x = some .left := by
  rw [statusOf_eq_iff] at h ⊢
  obtain ⟨m, hm, hs⟩ := h
  rw [ltimeOf_eq_iff] at ht
  obtain ⟨m', hm', ht'⟩ := ht
  rw [hm] at hm'; cases hm'
  show ∃ m', alookup (handleLeaveIntent n x lt false w).1.members x = some m' ∧ _
  rw [newer_leave_rec n x lt w m hx hm (by omega)]
  exact ⟨_, rfl, by simp [hs, afterLeave]⟩

/-- a failed member that is force-left locally (the claim carries the local Lamport clock) becomes left -/
theorem failed_forceleft_left (n : Node) (x : Name) (t w : Nat) (h : statusOf n x = some .failed)
    (hx : x ≠ n.name) (ht : ltimeOf n x = some t) (hlt : t < n.clock) :
    statusOf (step n (.forceLeave x false w)).1 x = some .left := by
  rw [statusOf_eq_iff] at h ⊢
  obtain ⟨m, hm, hs⟩ := h
  rw [ltimeOf_eq_iff] at ht
  obtain ⟨m', hm', ht'⟩ := ht
  rw [hm] at hm'; cases hm'
  show ∃ m', alookup (forceLeave n x false w).1.members x = some m' ∧ _
  unfold forceLeave
  dsimp only
  rw [newer_leave_rec { n with clock := (n.clock + 1) % two64 } x n.clock w m hx hm (by omega)]
  exact ⟨_, rfl, by simp [hs, afterLeave]⟩

theorem mem_joinTimes_of_mem {ops : List Op} {op : Op} {x : Name} {t : Nat} (ho : op ∈ ops)
    (ht : t ∈ opJoinTimes x op) : t ∈ joinTimes ops x := by
  unfold joinTimes
  exact List.mem_flatMap.mpr ⟨op, ho, ht⟩

theorem mem_leaveTimes_of_mem {ops : List Op} {op : Op} {x : Name} {t : Nat} (ho : op ∈ ops)
    (ht : t ∈ opLeaveTimes x op) : t ∈ leaveTimes ops x := by
  unfold leaveTimes
  exact List.mem_flatMap.mpr ⟨op, ho, ht⟩

/-- graceful leave: a newer leave claim about an up member, then anything but a memberlist
notification about `x` or a join intent newer than the claim, then the down notification ⇒ left -/
theorem leave_then_down_left (n : Node) (x : Name) (L t w at_ : Nat) (mid : List Op) (hx : x ≠ n.name)
    (hs : statusOf n x = some .alive ∨ statusOf n x = some .leaving) (ht : ltimeOf n x = some t) (hL : t < L)
    (hmid1 : ∀ op ∈ mid, op ≠ .nodeJoin x ∧ ∀ a, op ≠ .nodeLeave x a)
    (hmid2 : ∀ j ∈ joinTimes mid x, j ≤ L)
    (hk : KeptAlong (step n (.leaveMsg x L false w)).1 mid x) :
    statusOf (run n ([.leaveMsg x L false w] ++ mid ++ [.nodeLeave x at_])) x = some .left := by
  rw [run_append]
  show statusOf (run (run (step n (.leaveMsg x L false w)).1 mid) [.nodeLeave x at_]) x = some .left
  have hn1 : (step n (.leaveMsg x L false w)).1.name = n.name := step_name _ _
  -- after the claim: leaving at L
  have h1 : ∃ m, alookup (step n (.leaveMsg x L false w)).1.members x = some m ∧
      (m.status = .leaving ∧ L ≤ m.ltime) := by
    rw [ltimeOf_eq_iff] at ht
    obtain ⟨m, hm, htm⟩ := ht
    show ∃ m', alookup (handleLeaveIntent n x L false w).1.members x = some m' ∧ _
    rw [newer_leave_rec n x L w m hx hm (by omega)]
    refine ⟨_, rfl, ?_, Nat.le_refl _⟩
    rcases hs with hs | hs <;> rw [statusOf_eq_iff] at hs <;> obtain ⟨m', hm', hst⟩ := hs <;>
      rw [hm] at hm' <;> cases hm' <;> simp [hst, afterLeave]
  have h2 := run_record (fun m => m.status = .leaving ∧ L ≤ m.ltime) x mid _
    (fun op ho => (hmid1 op ho).1) ?_ ?_ ?_ hk h1
  · apply (down_step _ x at_).2
    rw [statusOf_eq_iff]
    obtain ⟨m, hm, hst, _⟩ := h2
    exact ⟨m, hm, hst⟩
  · intro op _ lt _ m hm
    show (leaveUpd lt m).status = .leaving ∧ L ≤ (leaveUpd lt m).ltime
    unfold leaveUpd
    split
    · exact hm
    · simp [hm.1, afterLeave]; omega
  · intro op ho lt hsrc m hm
    show (joinUpd lt m).status = .leaving ∧ L ≤ (joinUpd lt m).ltime
    have hle : lt ≤ m.ltime := by
      rcases hsrc with hsrc | ⟨e, _⟩
      · have := hmid2 lt (mem_joinTimes_of_mem ho hsrc); omega
      · rw [hn1] at e; exact absurd e hx
    unfold joinUpd
    rw [if_pos hle]; exact hm
  · intro op ho a e
    exact absurd e ((hmid1 op ho).2 a)

/-! ### a decidable check of `KeptAlong` (for concrete histories) -/

def keepsB (n : Node) (op : Op) (x : Name) : Bool :=
  if known n x then known (step n op).1 x
  else match intentOf n x with
    | none => true
    | some i => known (step n op).1 x ||
      (match intentOf (step n op).1 x with
       | some i' => decide (i.ltime ≤ i'.ltime)
       | none => false)

def keptAlongB : Node → List Op → Name → Bool
  | _, [], _ => true
  | n, op :: ops, x => keepsB n op x && keptAlongB (step n op).1 ops x

theorem keeps_of_keepsB (n : Node) (op : Op) (x : Name) (h : keepsB n op x = true) : Keeps n op x := by
  unfold keepsB at h
  constructor
  · intro hk; rw [hk] at h; simpa using h
  · intro i hk hi
    rw [hk, hi] at h
    simp only [Bool.false_eq_true, if_false, Bool.or_eq_true] at h
    rcases h with h | h
    · exact Or.inl h
    · right
      cases hi' : intentOf (step n op).1 x with
      | none => rw [hi'] at h; cases h
      | some i' => rw [hi'] at h; exact ⟨i', rfl, of_decide_eq_true h⟩

theorem keptAlong_of_B : ∀ (ops : List Op) (n : Node) (x : Name), keptAlongB n ops x = true → KeptAlong n ops x := by
  intro ops
  induction ops with
  | nil => intro _ _ _; trivial
  | cons op ops ih =>
    intro n x h
    simp only [keptAlongB, Bool.and_eq_true] at h
    exact ⟨keeps_of_keepsB n op x h.1, ih _ x h.2⟩

/-! ### buffered intents about `x` -/

theorem mem_ainsert_ne {β : Type} (m : List (Name × β)) (k : Name) (v : β) (x : Name) (i : β) (hx : x ≠ k)
    (h : (x, i) ∈ ainsert m k v) : (x, i) ∈ m := by
  unfold ainsert at h
  split at h
  · obtain ⟨q, hq, e⟩ := List.mem_map.mp h
    by_cases hk : q.1 == k
    · rw [if_pos hk] at e
      exact absurd (congrArg Prod.fst e).symm hx
    · rw [if_neg hk] at e
      rw [← e]; exact hq
  · rcases List.mem_append.mp h with h | h
    · exact h
    · simp at h; exact absurd h.1 hx

theorem mem_ainsert_self {β : Type} (m : List (Name × β)) (k : Name) (v : β) (i : β)
    (h : (k, i) ∈ ainsert m k v) : i = v := by
  unfold ainsert at h
  split at h
  · obtain ⟨q, hq, e⟩ := List.mem_map.mp h
    by_cases hk : q.1 == k
    · rw [if_pos hk] at e
      exact (congrArg Prod.snd e).symm
    · rw [if_neg hk] at e
      exact absurd (by rw [e]; simp) hk
  · next hany =>
    rcases List.mem_append.mp h with h | h
    · exfalso
      apply hany
      exact List.any_eq_true.mpr ⟨(k, i), h, by simp⟩
    · simp at h; exact h

/-- the entries about `x` are untouched: same lookup, no new entry -/
def IntSame (x : Name) (a b : List (Name × Intent)) : Prop :=
  alookup b x = alookup a x ∧ ∀ i, (x, i) ∈ b → (x, i) ∈ a

theorem IntSame.refl (x : Name) (a : List (Name × Intent)) : IntSame x a a := ⟨rfl, fun _ h => h⟩

theorem intSame_upsert_ne (x y : Name) (ints : List (Name × Intent)) (b : Bool) (lt w : Nat) (hy : x ≠ y) :
    IntSame x ints (upsertIntent ints y b lt w).1 := by
  unfold upsertIntent
  split
  · split
    · exact ⟨alookup_ainsert_ne _ _ _ _ hy, fun i h => mem_ainsert_ne _ _ _ _ _ hy h⟩
    · exact IntSame.refl _ _
  · exact ⟨alookup_ainsert_ne _ _ _ _ hy, fun i h => mem_ainsert_ne _ _ _ _ _ hy h⟩

/-- buffering an intent about `x` itself: either nothing changes and the buffered one is at least
as new, or every entry about `x` is the new intent and the old buffered one (if any) was older -/
theorem upsert_self (ints : List (Name × Intent)) (x : Name) (b : Bool) (lt w : Nat) :
    ((upsertIntent ints x b lt w).1 = ints ∧ ∃ i, alookup ints x = some i ∧ lt ≤ i.ltime) ∨
    (alookup (upsertIntent ints x b lt w).1 x = some ⟨b, lt, w⟩ ∧
      (∀ i, (x, i) ∈ (upsertIntent ints x b lt w).1 → i = ⟨b, lt, w⟩) ∧
      ∀ i, alookup ints x = some i → i.ltime < lt) := by
  unfold upsertIntent
  split
  · next i hi =>
    split
    · next hlt =>
      right
      refine ⟨alookup_ainsert_self _ _ _, fun i' h => mem_ainsert_self _ _ _ _ h, ?_⟩
      intro i' hi'; rw [hi] at hi'; cases hi'; exact hlt
    · next hlt => left; exact ⟨rfl, i, hi, by omega⟩
  · next hnone =>
    right
    refine ⟨alookup_ainsert_self _ _ _, fun i' h => mem_ainsert_self _ _ _ _ h, ?_⟩
    intro i' hi'; rw [hnone] at hi'; cases hi'

theorem hli_intSame (n : Node) (y : Name) (lt : Nat) (p : Bool) (w : Nat) (x : Name) (hy : x ≠ y) :
    IntSame x n.intents (handleLeaveIntent n y lt p w).1.intents := by
  rw [hli_intents]
  split
  · exact intSame_upsert_ne x y _ _ _ _ hy
  · exact IntSame.refl _ _

theorem hji_intSame (n : Node) (y : Name) (lt w : Nat) (x : Name) (hy : x ≠ y) :
    IntSame x n.intents (handleJoinIntent n y lt w).1.intents := by
  rw [hji_intents]
  split
  · exact intSame_upsert_ne x y _ _ _ _ hy
  · exact IntSame.refl _ _

/-! ### the observer invariant -/

/-- What the observer `n` holds about `x` after a history that delivered the join-intent times `J`
and the leave-claim times `L` about `x`, and whose last memberlist notification about `x` was a
join iff `up`.
While `x` is unknown: no join notification is outstanding; the buffered intent (if any) is at
least as new as everything delivered, and if it is a leave it is one of the delivered claims.
Once `x` is known: its status time is at least as new as everything delivered; if it is leaving,
its status time is one of the delivered leave claims; it is alive or leaving iff `up`. -/
structure ObsInv (n : Node) (x : Name) (up : Bool) (J L : List Nat) : Prop where
  unk_up : alookup n.members x = none → up = false
  unk_leave : alookup n.members x = none → ∀ i, (x, i) ∈ n.intents → i.isLeave = true → i.ltime ∈ L
  unk_le : alookup n.members x = none → ∀ i, alookup n.intents x = some i → ∀ t, t ∈ J ∨ t ∈ L → t ≤ i.ltime
  unk_none : alookup n.members x = none → alookup n.intents x = none → ∀ t, ¬ (t ∈ J ∨ t ∈ L)
  kn_le : ∀ m, alookup n.members x = some m → ∀ t, t ∈ J ∨ t ∈ L → t ≤ m.ltime
  kn_leaving : ∀ m, alookup n.members x = some m → m.status = .leaving → m.ltime ∈ L
  kn_up : ∀ m, alookup n.members x = some m → (up = true ↔ (m.status = .alive ∨ m.status = .leaving))

theorem ObsInv.frame {n n' : Node} {x : Name} {up : Bool} {J L : List Nat} (h : ObsInv n x up J L)
    (hm : alookup n'.members x = alookup n.members x) (hi : IntSame x n.intents n'.intents) :
    ObsInv n' x up J L := by
  refine ⟨?_, ?_, ?_, ?_, ?_, ?_, ?_⟩
  · intro h0; exact h.unk_up (hm ▸ h0)
  · intro h0 i hmem; exact h.unk_leave (hm ▸ h0) i (hi.2 i hmem)
  · intro h0 i hl; exact h.unk_le (hm ▸ h0) i (hi.1 ▸ hl)
  · intro h0 hl; exact h.unk_none (hm ▸ h0) (hi.1 ▸ hl)
  · intro m h0; exact h.kn_le m (hm ▸ h0)
  · intro m h0; exact h.kn_leaving m (hm ▸ h0)
  · intro m h0; exact h.kn_up m (hm ▸ h0)

theorem ObsInv.congr {n : Node} {x : Name} {up : Bool} {J L J' L' : List Nat} (h : ObsInv n x up J L)
    (hJ : ∀ t, t ∈ J' ↔ t ∈ J) (hL : ∀ t, t ∈ L' ↔ t ∈ L) : ObsInv n x up J' L' := by
  refine ⟨h.unk_up, ?_, ?_, ?_, ?_, ?_, h.kn_up⟩
  · intro h0 i hm hl; rw [hL]; exact h.unk_leave h0 i hm hl
  · intro h0 i hl t ht; rw [hJ, hL] at ht; exact h.unk_le h0 i hl t ht
  · intro h0 hl t ht; rw [hJ, hL] at ht; exact h.unk_none h0 hl t ht
  · intro m h0 t ht; rw [hJ, hL] at ht; exact h.kn_le m h0 t ht
  · intro m h0 hs; rw [hL]; exact h.kn_leaving m h0 hs

/-- a node that has never heard of `x` -/
theorem ObsInv.start (n : Node) (x : Name) (hk : known n x = false) (hi : intentOf n x = none) :
    ObsInv n x false [] [] := by
  have hm : alookup n.members x = none := by
    unfold known at hk
    cases h : alookup n.members x <;> simp [h] at hk ⊢
  unfold intentOf at hi
  refine ⟨fun _ => rfl, ?_, ?_, ?_, ?_, ?_, ?_⟩
  · intro _ i hmem _
    exfalso
    have := (alookup_eq_none_iff n.intents x).mp hi
    apply this
    exact List.mem_map.mpr ⟨(x, i), hmem, rfl⟩
  · intro _ i hl; rw [hi] at hl; cases hl
  · intro _ _ t ht; simp at ht
  · intro m h0; rw [hm] at h0; cases h0
  · intro m h0; rw [hm] at h0; cases h0
  · intro m h0; rw [hm] at h0; cases h0

/-- buffering an intent about the unknown `x` -/
theorem obs_upsert {n n' : Node} {x : Name} {up : Bool} {J L J' L' : List Nat} (b : Bool) (lt w : Nat)
    (h : ObsInv n x up J L) (hm : alookup n.members x = none) (hm' : alookup n'.members x = none)
    (hi : n'.intents = (upsertIntent n.intents x b lt w).1)
    (hJL : ∀ t, (t ∈ J' ∨ t ∈ L') ↔ ((t ∈ J ∨ t ∈ L) ∨ t = lt))
    (hL : ∀ t, t ∈ L → t ∈ L') (hb : b = true → lt ∈ L') : ObsInv n' x up J' L' := by
  have hk1 : ∀ m, alookup n'.members x = some m → False := by intro m h0; rw [hm'] at h0; cases h0
  refine ⟨fun _ => h.unk_up hm, ?_, ?_, ?_, fun m h0 => (hk1 m h0).elim, fun m h0 => (hk1 m h0).elim,
    fun m h0 => (hk1 m h0).elim⟩
  · intro _ i hmem hl
    rw [hi] at hmem
    rcases upsert_self n.intents x b lt w with ⟨he, _⟩ | ⟨_, hall, _⟩
    · rw [he] at hmem; exact hL _ (h.unk_leave hm i hmem hl)
    · have := hall i hmem
      subst this
      exact hb hl
  · intro _ i hl t ht
    rw [hi] at hl
    rw [hJL] at ht
    rcases upsert_self n.intents x b lt w with ⟨he, i0, hi0, hle⟩ | ⟨hnew, _, hold⟩
    · rw [he, hi0] at hl; cases hl
      rcases ht with ht | ht
      · exact h.unk_le hm _ hi0 t ht
      · omega
    · rw [hnew] at hl; cases hl
      rcases ht with ht | ht
      · cases hi0 : alookup n.intents x with
        | none => exact absurd ht (h.unk_none hm hi0 t)
        | some i0 =>
          have := h.unk_le hm i0 hi0 t ht
          have := hold i0 hi0
          show t ≤ lt
          omega
      · show t ≤ lt
        omega
  · intro _ hl
    exfalso
    rw [hi] at hl
    rcases upsert_self n.intents x b lt w with ⟨he, i0, hi0, _⟩ | ⟨hnew, _, _⟩
    · rw [he, hi0] at hl; cases hl
    · rw [hnew] at hl; cases hl

theorem afterLeave_up (s : Status) :
    (afterLeave s = .alive ∨ afterLeave s = .leaving) ↔ (s = .alive ∨ s = .leaving) := by
  cases s <;> simp [afterLeave]

/-- a leave claim about `x` (which is not the observer) that does not erase it -/
theorem obs_hli (n : Node) (x : Name) (lt : Nat) (p : Bool) (w : Nat) (up : Bool) (J L : List Nat)
    (hx : x ≠ n.name) (hkeep : known n x = true → known (handleLeaveIntent n x lt p w).1 x = true)
    (h : ObsInv n x up J L) : ObsInv (handleLeaveIntent n x lt p w).1 x up J (L ++ [lt]) := by
  have hrec := hli_rec n x lt p w
  have hself : ¬ (x = n.name ∧ n.life = .alive) := fun e => hx e.1
  cases hm : alookup n.members x with
  | none =>
    rw [hm] at hrec
    apply obs_upsert true lt w h hm hrec
    · rw [hli_intents, hm]
    · intro t; simp only [List.mem_append, List.mem_singleton]; constructor
      · rintro (h1 | h1 | h1)
        · exact Or.inl (Or.inl h1)
        · exact Or.inl (Or.inr h1)
        · exact Or.inr h1
      · rintro ((h1 | h1) | h1)
        · exact Or.inl h1
        · exact Or.inr (Or.inl h1)
        · exact Or.inr (Or.inr h1)
    · intro t ht; exact List.mem_append_left _ ht
    · intro _; simp
  | some m =>
    have hrec' : alookup (handleLeaveIntent n x lt p w).1.members x = some (leaveUpd lt m) := by
      rw [hrec, hm]
      dsimp only
      split
      · next hle => simp [leaveUpd, hle]
      · (first | rw [if_neg hself] | skip)
        split
        · next hp =>
          exfalso
          subst hp
          have := hkeep (known_of_lookup hm)
          unfold known at this
          rw [hrec, hm] at this
          simp_all
          omega
        · rfl
    have hk0 : alookup (handleLeaveIntent n x lt p w).1.members x = none → False := by
      intro h0; rw [hrec'] at h0; cases h0
    refine ⟨fun h0 => (hk0 h0).elim, fun h0 => (hk0 h0).elim, fun h0 => (hk0 h0).elim, fun h0 => (hk0 h0).elim,
      ?_, ?_, ?_⟩
    · intro m' h0 t ht
      rw [hrec'] at h0; cases h0
      have hb := h.kn_le m hm t
      simp only [List.mem_append, List.mem_singleton] at ht
      unfold leaveUpd
      split
      · rcases ht with ht | ht | ht
        · exact hb (Or.inl ht)
        · exact hb (Or.inr ht)
        · omega
      · show t ≤ lt
        rcases ht with ht | ht | ht
        · have := hb (Or.inl ht); omega
        · have := hb (Or.inr ht); omega
        · omega
    · intro m' h0
      rw [hrec'] at h0; cases h0
      unfold leaveUpd
      split
      · intro hs; exact List.mem_append_left _ (h.kn_leaving m hm hs)
      · intro _; show lt ∈ L ++ [lt]; simp
    · intro m' h0
      rw [hrec'] at h0; cases h0
      rw [h.kn_up m hm]
      unfold leaveUpd
      split
      · exact Iff.rfl
      · exact (afterLeave_up m.status).symm

theorem hli_keeps_noprune (n : Node) (x : Name) (lt w : Nat) (hk : known n x = true) :
    known (handleLeaveIntent n x lt false w).1 x = true := by
  unfold known at hk ⊢
  rw [hli_rec]
  cases hm : alookup n.members x with
  | none => rw [hm] at hk; cases hk
  | some m => dsimp only; split <;> (try split) <;> simp

/-- a join intent about `x` -/
theorem obs_hji (n : Node) (x : Name) (lt w : Nat) (up : Bool) (J L : List Nat)
    (h : ObsInv n x up J L) : ObsInv (handleJoinIntent n x lt w).1 x up (J ++ [lt]) L := by
  have hrec := hji_rec n x lt w
  cases hm : alookup n.members x with
  | none =>
    rw [hm] at hrec
    apply obs_upsert false lt w h hm hrec
    · rw [hji_intents, hm]
    · intro t; simp only [List.mem_append, List.mem_singleton]; constructor
      · rintro ((h1 | h1) | h1)
        · exact Or.inl (Or.inl h1)
        · exact Or.inr h1
        · exact Or.inl (Or.inr h1)
      · rintro ((h1 | h1) | h1)
        · exact Or.inl (Or.inl h1)
        · exact Or.inr h1
        · exact Or.inl (Or.inr h1)
    · intro t ht; exact ht
    · intro e; cases e
  | some m =>
    rw [hm] at hrec
    have hrec' : alookup (handleJoinIntent n x lt w).1.members x = some (joinUpd lt m) := hrec
    have hk0 : alookup (handleJoinIntent n x lt w).1.members x = none → False := by
      intro h0; rw [hrec'] at h0; cases h0
    refine ⟨fun h0 => (hk0 h0).elim, fun h0 => (hk0 h0).elim, fun h0 => (hk0 h0).elim, fun h0 => (hk0 h0).elim,
      ?_, ?_, ?_⟩
    · intro m' h0 t ht
      rw [hrec'] at h0; cases h0
      have hb := h.kn_le m hm t
      simp only [List.mem_append, List.mem_singleton] at ht
      unfold joinUpd
      split
      · rcases ht with (ht | ht) | ht
        · exact hb (Or.inl ht)
        · omega
        · exact hb (Or.inr ht)
      · show t ≤ lt
        rcases ht with (ht | ht) | ht
        · have := hb (Or.inl ht); omega
        · omega
        · have := hb (Or.inr ht); omega
    · intro m' h0
      rw [hrec'] at h0; cases h0
      unfold joinUpd
      split
      · exact h.kn_leaving m hm
      · intro hs
        exfalso
        dsimp only at hs
        split at hs
        · cases hs
        · next hne => exact hne hs
    · intro m' h0
      rw [hrec'] at h0; cases h0
      rw [h.kn_up m hm]
      unfold joinUpd
      split
      · exact Iff.rfl
      · dsimp only
        split
        · next hs => simp [hs]
        · exact Iff.rfl

/-- memberlist announces `x` -/
theorem obs_hnj (n : Node) (x : Name) (up : Bool) (J L : List Nat) (h : ObsInv n x up J L) :
    ObsInv (handleNodeJoin n x).1 x true J L := by
  have hrec := hnj_rec n x
  have hk0 : alookup (handleNodeJoin n x).1.members x = none → False := by
    intro h0; rw [hrec] at h0; split at h0 <;> cases h0
  refine ⟨fun h0 => (hk0 h0).elim, fun h0 => (hk0 h0).elim, fun h0 => (hk0 h0).elim, fun h0 => (hk0 h0).elim,
    ?_, ?_, ?_⟩
  all_goals
    intro m' h0
    rw [hrec] at h0
    cases hm : alookup n.members x with
    | none =>
      rw [hm] at h0
      dsimp only at h0
      cases h0
      cases hi : alookup n.intents x with
      | none =>
        first
        | (intro t ht; exact absurd ht (h.unk_none hm hi t))
        | (intro hs; simp [newRec] at hs)
        | simp [newRec]
      | some i =>
        by_cases hl : i.isLeave = true
        · first
          | (intro t ht; simpa [newRec, hl] using h.unk_le hm i hi t ht)
          | (intro _; simpa [newRec, hl] using h.unk_leave hm i (mem_of_alookup hi) hl)
          | simp [newRec, hl]
        · first
          | (intro t ht; simpa [newRec, hl] using h.unk_le hm i hi t ht)
          | (intro hs; simp [newRec, hl] at hs)
          | simp [newRec, hl]
    | some m =>
      rw [hm] at h0
      dsimp only at h0
      cases h0
      first
      | exact h.kn_le m hm
      | (intro hs; cases hs)
      | simp

/-- memberlist reports `x` down -/
theorem obs_hnl (n : Node) (x : Name) (a : Nat) (up : Bool) (J L : List Nat) (h : ObsInv n x up J L) :
    ObsInv (handleNodeLeave n x a).1 x false J L := by
  have hrec := hnl_rec n x a
  cases hm : alookup n.members x with
  | none =>
    rw [hm] at hrec
    have h1 : ObsInv (handleNodeLeave n x a).1 x up J L :=
      h.frame (by rw [hrec, hm]; rfl) (by rw [hnl_intents]; exact IntSame.refl _ _)
    have hup : up = false := h.unk_up hm
    rw [← hup]; exact h1
  | some m =>
    rw [hm] at hrec
    have hrec' : alookup (handleNodeLeave n x a).1.members x = some (downUpd a m) := hrec
    have hk0 : alookup (handleNodeLeave n x a).1.members x = none → False := by
      intro h0; rw [hrec'] at h0; cases h0
    have hlt : (downUpd a m).ltime = m.ltime := by
      unfold downUpd; split <;> rfl
    refine ⟨fun h0 => (hk0 h0).elim, fun h0 => (hk0 h0).elim, fun h0 => (hk0 h0).elim, fun h0 => (hk0 h0).elim,
      ?_, ?_, ?_⟩
    · intro m' h0 t ht
      rw [hrec'] at h0; cases h0
      rw [hlt]; exact h.kn_le m hm t ht
    · intro m' h0 hs
      rw [hrec'] at h0; cases h0
      exfalso
      unfold downUpd at hs
      split at hs
      · cases hs
      · cases hs
      · next h1 h2 => exact h1 hs
    · intro m' h0
      rw [hrec'] at h0; cases h0
      unfold downUpd
      split
      · simp
      · simp
      · next h1 h2 => simp; exact ⟨h2, h1⟩

theorem reap_intents (n : Node) (now : Nat) (ov : Name → Nat → Nat) :
    (reap n now ov).1.intents = reapIntents n.intents now n.cfg.intentTimeout := rfl

/-- a reaper tick that keeps `x` -/
theorem obs_reap (n : Node) (x : Name) (now : Nat) (ov : Name → Nat → Nat) (up : Bool) (J L : List Nat)
    (hk : Keeps n (.reap now ov) x) (h : ObsInv n x up J L) : ObsInv (reap n now ov).1 x up J L := by
  have hrec : alookup (reap n now ov).1.members x = none ∨
      alookup (reap n now ov).1.members x = alookup n.members x := by
    rw [reap_members_eq, alookup_eraseAll, alookup_eraseAll]
    split
    · exact Or.inl rfl
    · split
      · exact Or.inl rfl
      · exact Or.inr rfl
  have hsub : ∀ i, (x, i) ∈ (reap n now ov).1.intents → (x, i) ∈ n.intents := by
    intro i hi
    rw [reap_intents] at hi
    unfold reapIntents at hi
    exact (List.mem_filter.mp hi).1
  cases hm : alookup n.members x with
  | some m =>
    have hkn : known (reap n now ov).1 x = true := hk.1 (known_of_lookup hm)
    have hm' : alookup (reap n now ov).1.members x = some m := by
      rcases hrec with h0 | h0
      · rw [known_of_lookup_none h0] at hkn; cases hkn
      · rw [h0, hm]
    have hk0 : alookup (reap n now ov).1.members x = none → False := by
      intro h0; rw [hm'] at h0; cases h0
    refine ⟨fun h0 => (hk0 h0).elim, fun h0 => (hk0 h0).elim, fun h0 => (hk0 h0).elim, fun h0 => (hk0 h0).elim,
      ?_, ?_, ?_⟩
    · intro m' h0; rw [hm'] at h0; cases h0; exact h.kn_le m hm
    · intro m' h0; rw [hm'] at h0; cases h0; exact h.kn_leaving m hm
    · intro m' h0; rw [hm'] at h0; cases h0; exact h.kn_up m hm
  | none =>
    have hm' : alookup (reap n now ov).1.members x = none := by
      rcases hrec with h0 | h0
      · exact h0
      · rw [h0, hm]
    have hkn' : known (reap n now ov).1 x = false := known_of_lookup_none hm'
    have hk1 : ∀ m, alookup (reap n now ov).1.members x = some m → False := by
      intro m h0; rw [hm'] at h0; cases h0
    have hkeep : ∀ i, alookup n.intents x = some i →
        ∃ i', alookup (reap n now ov).1.intents x = some i' ∧ i.ltime ≤ i'.ltime := by
      intro i hi
      rcases hk.2 i (known_of_lookup_none hm) hi with h0 | h0
      · have h0' : known (reap n now ov).1 x = true := h0
        rw [hkn'] at h0'; cases h0'
      · exact h0
    refine ⟨fun _ => h.unk_up hm, ?_, ?_, ?_, fun m h0 => (hk1 m h0).elim, fun m h0 => (hk1 m h0).elim,
      fun m h0 => (hk1 m h0).elim⟩
    · intro _ i hmem hl; exact h.unk_leave hm i (hsub i hmem) hl
    · intro _ i' hi' t ht
      cases hi : alookup n.intents x with
      | none => exact absurd ht (h.unk_none hm hi t)
      | some i =>
        obtain ⟨i'', h1, h2⟩ := hkeep i hi
        rw [hi'] at h1; cases h1
        have := h.unk_le hm i hi t ht
        omega
    · intro _ hi' t
      cases hi : alookup n.intents x with
      | none => exact h.unk_none hm hi t
      | some i =>
        obtain ⟨i'', h1, _⟩ := hkeep i hi
        rw [hi'] at h1; cases h1

/-! ### merges -/

theorem obs_hli_ne (n : Node) (x y : Name) (lt : Nat) (p : Bool) (w : Nat) (up : Bool) (J L : List Nat)
    (hy : x ≠ y) (h : ObsInv n x up J L) : ObsInv (handleLeaveIntent n y lt p w).1 x up J L :=
  h.frame (hli_lookup_ne n y lt p w x hy) (hli_intSame n y lt p w x hy)

theorem obs_hji_ne (n : Node) (x y : Name) (lt w : Nat) (up : Bool) (J L : List Nat)
    (hy : x ≠ y) (h : ObsInv n x up J L) : ObsInv (handleJoinIntent n y lt w).1 x up J L :=
  h.frame (hji_lookup_ne n y lt w x hy) (hji_intSame n y lt w x hy)

theorem obs_mergeLefts (x : Name) (up : Bool) (J : List Nat) (st : List (Name × Nat)) (w : Nat) (ys : List Name) :
    ∀ (n : Node) (L : List Nat), x ≠ n.name → ObsInv n x up J L →
      ObsInv (mergeLefts n st w ys).1 x up J (L ++ if x ∈ ys then [mergeClaim st x] else []) := by
  induction ys with
  | nil => intro n L _ h; simpa [mergeLefts] using h
  | cons y ys ih =>
    intro n L hx h
    unfold mergeLefts; dsimp only
    have hn := hli_name n y ((((alookup st y).getD 0) + 1) % two64) false w
    by_cases hy : y = x
    · subst hy
      have h1 := obs_hli n y (mergeClaim st y) false w up J L hx (hli_keeps_noprune n y _ w) h
      have h2 := ih _ _ (by rw [hli_name]; exact hx) h1
      apply h2.congr (fun _ => Iff.rfl)
      intro t
      unfold mergeClaim
      by_cases hys : y ∈ ys <;> simp [hys]
    · have hy' : x ≠ y := fun e => hy e.symm
      have h1 := obs_hli_ne n x y ((((alookup st y).getD 0) + 1) % two64) false w up J L hy' h
      have h2 := ih _ _ (by rw [hn]; exact hx) h1
      apply h2.congr (fun _ => Iff.rfl)
      intro t
      simp [List.mem_cons, hy']

theorem obs_mergeJoins (x : Name) (up : Bool) (L : List Nat) (lf : List Name) (w : Nat) (sts : List (Name × Nat)) :
    ∀ (n : Node) (J : List Nat), ObsInv n x up J L →
      ObsInv (mergeJoins n lf w sts) x up
        (J ++ if x ∈ lf then [] else (sts.filter (fun q => decide (q.1 = x))).map (·.2)) L := by
  induction sts with
  | nil => intro n J h; simpa [mergeJoins] using h
  | cons q rest ih =>
    intro n J h
    obtain ⟨y, t⟩ := q
    unfold mergeJoins
    split
    · next hyl =>
      apply (ih n J h).congr _ (fun _ => Iff.rfl)
      intro t'
      by_cases hxl : x ∈ lf
      · simp [hxl]
      · have hy : y ≠ x := fun e => hxl (e ▸ hyl)
        simp [hxl, hy]
    · next hyl =>
      by_cases hy : y = x
      · subst hy
        have h1 := obs_hji n y t w up J L h
        apply (ih _ _ h1).congr _ (fun _ => Iff.rfl)
        intro t'
        simp [hyl]
      · have hy' : x ≠ y := fun e => hy e.symm
        have h1 := obs_hji_ne n x y t w up J L hy' h
        apply (ih _ _ h1).congr _ (fun _ => Iff.rfl)
        intro t'
        by_cases hxl : x ∈ lf
        · simp [hxl]
        · simp [hxl, hy]

theorem obs_merge (n : Node) (x : Name) (lt : Nat) (st : List (Name × Nat)) (lf : List Name) (w : Nat)
    (up : Bool) (J L : List Nat) (hx : x ≠ n.name) (h : ObsInv n x up J L) :
    ObsInv (merge n lt st lf w).1 x up (J ++ opJoinTimes x (.merge lt st lf w)) (L ++ opLeaveTimes x (.merge lt st lf w)) := by
  rw [merge_eq]; dsimp only
  have h0 : ObsInv (mergeStart n lt) x up J L :=
    h.frame (by rw [mergeStart_members]) (by unfold mergeStart; split <;> exact IntSame.refl _ _)
  have h1 := obs_mergeLefts x up J st w lf _ L (by rw [mergeStart_name]; exact hx) h0
  exact obs_mergeJoins x up _ lf w st _ J h1

/-! ### every op keeps the observer invariant -/

theorem obs_broadcastJoin (n : Node) (x : Name) (t w : Nat) (up : Bool) (J L : List Nat) (hx : x ≠ n.name)
    (h : ObsInv n x up J L) : ObsInv (broadcastJoin n t w).1 x up J L := by
  unfold broadcastJoin
  exact obs_hji_ne { n with clock := witness n.clock t } x n.name t w up J L hx
    (h.frame rfl (IntSame.refl _ _))

theorem obs_step (n : Node) (op : Op) (x : Name) (up : Bool) (J L : List Nat) (hx : x ≠ n.name)
    (hk : Keeps n op x) (hf : ∀ p w, op ≠ .forceLeave x p w) (h : ObsInv n x up J L) :
    ObsInv (step n op).1 x (upAfter x op up) (J ++ opJoinTimes x op) (L ++ opLeaveTimes x op) := by
  cases op with
  | nodeJoin y =>
    show ObsInv (handleNodeJoin n y).1 x _ _ _
    by_cases hy : y = x
    · subst hy
      simpa [upAfter, opJoinTimes, opLeaveTimes] using obs_hnj n y up J L h
    · have hy' : x ≠ y := fun e => hy e.symm
      simpa [upAfter, opJoinTimes, opLeaveTimes, hy] using
        h.frame (alookup_handleNodeJoin_ne n y x hy') (by rw [hnj_intents]; exact IntSame.refl _ _)
  | nodeLeave y a =>
    show ObsInv (handleNodeLeave n y a).1 x _ _ _
    by_cases hy : y = x
    · subst hy
      simpa [upAfter, opJoinTimes, opLeaveTimes] using obs_hnl n y a up J L h
    · have hy' : x ≠ y := fun e => hy e.symm
      simpa [upAfter, opJoinTimes, opLeaveTimes, hy] using
        h.frame (hnl_lookup_ne n y a x hy') (by rw [hnl_intents]; exact IntSame.refl _ _)
  | nodeUpdate y =>
    show ObsInv (handleNodeUpdate n y).1 x _ _ _
    have : (handleNodeUpdate n y).1 = n := by unfold handleNodeUpdate; split <;> rfl
    rw [this]
    simpa [upAfter, opJoinTimes, opLeaveTimes] using h
  | joinMsg y lt w =>
    show ObsInv (handleJoinIntent n y lt w).1 x _ _ _
    by_cases hy : y = x
    · subst hy
      simpa [upAfter, opJoinTimes, opLeaveTimes] using obs_hji n y lt w up J L h
    · have hy' : x ≠ y := fun e => hy e.symm
      simpa [upAfter, opJoinTimes, opLeaveTimes, hy] using obs_hji_ne n x y lt w up J L hy' h
  | leaveMsg y lt p w =>
    show ObsInv (handleLeaveIntent n y lt p w).1 x _ _ _
    by_cases hy : y = x
    · subst hy
      simpa [upAfter, opJoinTimes, opLeaveTimes] using obs_hli n y lt p w up J L hx hk.1 h
    · have hy' : x ≠ y := fun e => hy e.symm
      simpa [upAfter, opJoinTimes, opLeaveTimes, hy] using obs_hli_ne n x y lt p w up J L hy' h
  | merge lt st lf w => exact obs_merge n x lt st lf w up J L hx h
  | forceLeave y p w =>
    show ObsInv (forceLeave n y p w).1 x _ _ _
    have hy' : x ≠ y := by intro e; subst e; exact hf p w rfl
    unfold forceLeave
    simpa [upAfter, opJoinTimes, opLeaveTimes] using
      obs_hli_ne { n with clock := (n.clock + 1) % two64 } x y n.clock p w up J L hy' (h.frame rfl (IntSame.refl _ _))
  | ownJoin w =>
    show ObsInv (broadcastJoin n n.clock w).1 x _ _ _
    simpa [upAfter, opJoinTimes, opLeaveTimes] using obs_broadcastJoin n x n.clock w up J L hx h
  | leaveBegin w =>
    show ObsInv (leaveBegin n w).1 x _ _ _
    unfold leaveBegin
    split
    · simpa [upAfter, opJoinTimes, opLeaveTimes] using h
    · simpa [upAfter, opJoinTimes, opLeaveTimes] using
        obs_hli_ne { n with life := .leaving, clock := (n.clock + 1) % two64 } x n.name n.clock false w up J L hx
          (h.frame rfl (IntSame.refl _ _))
  | leaveEnd =>
    show ObsInv (leaveEnd n) x _ _ _
    have : ObsInv (leaveEnd n) x up J L := by
      unfold leaveEnd; split
      · exact h.frame rfl (IntSame.refl _ _)
      · exact h
    simpa [upAfter, opJoinTimes, opLeaveTimes] using this
  | shutdown =>
    show ObsInv { n with life := .shutdown } x _ _ _
    simpa [upAfter, opJoinTimes, opLeaveTimes] using
      (h.frame (n' := { n with life := .shutdown }) rfl (IntSame.refl _ _))
  | reap now ov =>
    show ObsInv (reap n now ov).1 x _ _ _
    simpa [upAfter, opJoinTimes, opLeaveTimes] using obs_reap n x now ov up J L hk h
  | runPending w =>
    show ObsInv (runPending n w).1 x _ _ _
    unfold runPending
    split
    · simpa [upAfter, opJoinTimes, opLeaveTimes] using h
    · next t rest _ =>
      simpa [upAfter, opJoinTimes, opLeaveTimes] using
        obs_broadcastJoin { n with pending := rest } x t w up J L hx (h.frame rfl (IntSame.refl _ _))

theorem obs_run (x : Name) (ops : List Op) : ∀ (n : Node) (up : Bool) (J L : List Nat), x ≠ n.name →
    KeptAlong n ops x → NoForceLeave ops x → ObsInv n x up J L →
    ObsInv (run n ops) x (lastUp x ops up) (J ++ joinTimes ops x) (L ++ leaveTimes ops x) := by
  induction ops with
  | nil => intro n up J L _ _ _ h; simpa [run, lastUp, joinTimes, leaveTimes] using h
  | cons op ops ih =>
    intro n up J L hx hk hf h
    have h1 := obs_step n op x up J L hx hk.1 (fun p w => hf op (List.mem_cons_self ..) p w) h
    have h2 := ih (step n op).1 _ _ _ (by rw [step_name]; exact hx) hk.2
      (fun o ho => hf o (List.mem_cons_of_mem _ ho)) h1
    have e1 : joinTimes (op :: ops) x = opJoinTimes x op ++ joinTimes ops x := by simp [joinTimes]
    have e2 : leaveTimes (op :: ops) x = opLeaveTimes x op ++ leaveTimes ops x := by simp [leaveTimes]
    rw [e1, e2, ← List.append_assoc, ← List.append_assoc]
    exact h2

/-- For EVERY history at an observer that starts without any knowledge of `x`: if the last
memberlist notification about `x` is a join, `x` is not erased, the observer's operator does not
force-leave `x`, and every leave claim about `x` delivered to the observer is strictly older than
some join intent about `x` delivered to it, the observer lists `x` as alive. -/
theorem observer_alive_from (n : Node) (ops : List Op) (x : Name) (hx : x ≠ n.name)
    (hk0 : known n x = false) (hi0 : intentOf n x = none)
    (hk : KeptAlong n ops x) (hf : NoForceLeave ops x)
    (hup : lastUp x ops false = true)
    (hnewer : ∀ l ∈ leaveTimes ops x, ∃ j ∈ joinTimes ops x, l < j) :
    statusOf (run n ops) x = some .alive := by
  have h := obs_run x ops n false [] [] hx hk hf (ObsInv.start n x hk0 hi0)
  rw [hup] at h
  simp only [List.nil_append] at h
  cases hm : alookup (run n ops).members x with
  | none => have := h.unk_up hm; cases this
  | some m =>
    rw [statusOf_eq_iff]
    refine ⟨m, hm, ?_⟩
    rcases (h.kn_up m hm).mp rfl with hs | hs
    · exact hs
    · exfalso
      obtain ⟨j, hj, hlt⟩ := hnewer _ (h.kn_leaving m hm hs)
      have := h.kn_le m hm j (Or.inl hj)
      omega

theorem observer_alive (name : Name) (cfg : Config) (ops : List Op) (x : Name) (hx : x ≠ name)
    (hk : KeptAlong (Node.init name cfg) ops x) (hf : NoForceLeave ops x)
    (hup : lastUp x ops false = true)
    (hnewer : ∀ l ∈ leaveTimes ops x, ∃ j ∈ joinTimes ops x, l < j) :
    statusOf (run (Node.init name cfg) ops) x = some .alive := by
  have hne : ¬ (name == x) = true := by intro e; exact hx (eq_of_beq e).symm
  apply observer_alive_from (Node.init name cfg) ops x hx _ rfl hk hf hup hnewer
  simp [known, Node.init, alookup_cons, hne]

end SerfProofs.NodeObserver
