/-
Helper lemmas for C19: the per-thread invariant of the translated Lamport clock
programs and its preservation by every non-overflowing atomic step.
-/
import SerfModel.Model.Atomic
import SerfModel.Gen.Lamport
namespace SerfProofs.Lamport
open SerfModel.Atomic SerfModel.Gen

/-- The source-tied obligation: the programs regenerated from `lamport.go` are
the ones the proofs below are about. -/
theorem gen_time : Lamport.time = [.load 0, .ret (some 0)] := by decide
theorem gen_increment : Lamport.increment = [.add 0 1, .ret (some 0)] := by decide
theorem gen_witness :
    Lamport.witness = [.load 0, .arg 1, .retIfLt 1 0, .casPlus 0 1 1 0, .ret none] := by decide

abbrev P : Progs := Lamport.progs

/-- What is known about an in-progress call, relative to the current counter. -/
def FrameInv (c : W) (f : Frame) : Prop :=
  match f.call with
  | .time => (f.pc = 0 ∨ (f.pc = 1 ∧ f.r0 ≤ c) ∨ f.pc ≥ 2)
  | .increment => (f.pc = 0 ∨ (f.pc = 1 ∧ f.r0 ≤ c) ∨ f.pc ≥ 2)
  | .witness v =>
      f.pc = 0 ∨ (f.pc = 1 ∧ f.r0 ≤ c) ∨ (f.pc = 2 ∧ f.r0 ≤ c ∧ f.r1 = v) ∨
      (f.pc = 3 ∧ f.r0 ≤ c ∧ f.r1 = v ∧ ¬ (v < f.r0)) ∨ (f.pc ≥ 4 ∧ v < c)

/-- What is known about a finished call. -/
def DoneInv (c : W) (d : Done) : Prop :=
  match d.call with
  | .witness v => v < c
  | _ => ∀ r, d.result = some r → r ≤ c

def ThreadInv (c : W) (th : Thread) : Prop :=
  (∀ f, th.frame = some f → FrameInv c f) ∧ (∀ d ∈ th.done, DoneInv c d)

theorem FrameInv.mono {c c' : W} (h : c ≤ c') {f : Frame} (hf : FrameInv c f) : FrameInv c' f := by
  unfold FrameInv at *
  cases hcall : f.call <;> simp only [hcall] at hf ⊢
  · rcases hf with h0 | ⟨h1, h2⟩ | h3
    · exact Or.inl h0
    · exact Or.inr (Or.inl ⟨h1, BitVec.le_trans h2 h⟩)
    · exact Or.inr (Or.inr h3)
  · rcases hf with h0 | ⟨h1, h2⟩ | h3
    · exact Or.inl h0
    · exact Or.inr (Or.inl ⟨h1, BitVec.le_trans h2 h⟩)
    · exact Or.inr (Or.inr h3)
  · rcases hf with h0 | ⟨h1, h2⟩ | ⟨h1, h2, h3⟩ | ⟨h1, h2, h3, h4⟩ | ⟨h1, h2⟩
    · exact Or.inl h0
    · exact Or.inr (Or.inl ⟨h1, BitVec.le_trans h2 h⟩)
    · exact Or.inr (Or.inr (Or.inl ⟨h1, BitVec.le_trans h2 h, h3⟩))
    · exact Or.inr (Or.inr (Or.inr (Or.inl ⟨h1, BitVec.le_trans h2 h, h3, h4⟩)))
    · exact Or.inr (Or.inr (Or.inr (Or.inr ⟨h1, by bv_omega⟩)))

theorem DoneInv.mono {c c' : W} (h : c ≤ c') {d : Done} (hd : DoneInv c d) : DoneInv c' d := by
  unfold DoneInv at *
  cases hcall : d.call <;> simp only [hcall] at hd ⊢
  · intro r hr; exact BitVec.le_trans (hd r hr) h
  · intro r hr; exact BitVec.le_trans (hd r hr) h
  · bv_omega

theorem ThreadInv.mono {c c' : W} (h : c ≤ c') {th : Thread} (ht : ThreadInv c th) : ThreadInv c' th :=
  ⟨fun f hf => (ht.1 f hf).mono h, fun d hd => (ht.2 d hd).mono h⟩

abbrev thOverflow (c : W) (th : Thread) : Bool := threadOverflow P c th

theorem getElem?_ge2 {α} (a b : α) (n : Nat) (h : n ≥ 2) : [a, b][n]? = none := by
  simp; omega

theorem stepThread_inv (c : W) (th : Thread) (hinv : ThreadInv c th) (hno : thOverflow c th = false) :
    c ≤ (stepThread P c th).1 ∧ ThreadInv (stepThread P c th).1 (stepThread P c th).2.1 ∧
    (∀ v, (stepThread P c th).2.2 = some v → c < v ∧ v = (stepThread P c th).1) := by
  obtain ⟨frame, todo, done⟩ := th
  cases frame with
  | none =>
    cases todo with
    | nil => simp [stepThread]; exact hinv
    | cons call rest =>
      simp only [stepThread]
      refine ⟨BitVec.le_refl _, ⟨?_, hinv.2⟩, by simp⟩
      intro f hf
      simp at hf
      subst hf
      unfold FrameInv
      cases call <;> simp
  | some f =>
    obtain ⟨call, pc, r0, r1⟩ := f
    have hf := hinv.1 _ rfl
    have hd := hinv.2
    cases call with
    | time =>
      simp only [FrameInv] at hf
      rcases hf with h0 | ⟨h1, h2⟩ | h3
      · subst h0
        simp [stepThread, P, Lamport.progs, Progs.of, Lamport.time, execInstr, Frame.set, ThreadInv, FrameInv]
        exact hd
      · subst h1
        simp [stepThread, P, Lamport.progs, Progs.of, Lamport.time, execInstr, Frame.get, ThreadInv, DoneInv]
        exact ⟨h2, hd⟩
      · have : Lamport.time[pc]? = none := by rw [gen_time]; exact getElem?_ge2 _ _ _ h3
        simp [stepThread, P, Lamport.progs, Progs.of, this, ThreadInv, DoneInv]
        exact hd
    | increment =>
      simp only [FrameInv] at hf
      rcases hf with h0 | ⟨h1, h2⟩ | h3
      · subst h0
        simp [thOverflow, threadOverflow, P, Lamport.progs, Progs.of, Lamport.increment] at hno
        simp [stepThread, P, Lamport.progs, Progs.of, Lamport.increment, execInstr, Frame.set, ThreadInv, FrameInv]
        refine ⟨by bv_omega, ?_, by bv_omega⟩
        intro d hdm
        exact (hd d hdm).mono (by bv_omega)
      · subst h1
        simp [stepThread, P, Lamport.progs, Progs.of, Lamport.increment, execInstr, Frame.get, ThreadInv, DoneInv]
        exact ⟨h2, hd⟩
      · have : Lamport.increment[pc]? = none := by rw [gen_increment]; exact getElem?_ge2 _ _ _ h3
        simp [stepThread, P, Lamport.progs, Progs.of, this, ThreadInv, DoneInv]
        exact hd
    | witness v =>
      simp only [FrameInv] at hf
      rcases hf with h0 | ⟨h1, h2⟩ | ⟨h1, h2, h3⟩ | ⟨h1, h2, h3, h4⟩ | ⟨h1, h2⟩
      · subst h0
        simp [stepThread, P, Lamport.progs, Progs.of, Lamport.witness, execInstr, Frame.set, ThreadInv, FrameInv]
        exact hd
      · subst h1
        simp [stepThread, P, Lamport.progs, Progs.of, Lamport.witness, execInstr, Frame.set, ThreadInv, FrameInv, Call.argVal]
        exact ⟨h2, hd⟩
      · subst h1
        subst h3
        simp only [stepThread, P, Lamport.progs, Progs.of, Lamport.witness, execInstr, Frame.get]
        by_cases hlt : r1 < r0
        · simp [hlt, ThreadInv, DoneInv]
          exact ⟨by bv_omega, hd⟩
        · simp [hlt, ThreadInv, FrameInv]
          exact ⟨⟨h2, by bv_omega⟩, hd⟩
      · subst h1
        subst h3
        simp [thOverflow, threadOverflow, P, Lamport.progs, Progs.of, Lamport.witness, Frame.get] at hno
        simp only [stepThread, P, Lamport.progs, Progs.of, Lamport.witness, execInstr, Frame.get]
        by_cases hc : c = r0
        · subst hc
          have hno' := hno rfl
          simp [ThreadInv, FrameInv]
          refine ⟨by bv_omega, by bv_omega, ?_⟩
          intro d hdm
          exact (hd d hdm).mono (by bv_omega)
        · simp [hc, ThreadInv, FrameInv]
          exact hd
      · by_cases h4 : pc = 4
        · subst h4
          simp [stepThread, P, Lamport.progs, Progs.of, Lamport.witness, execInstr, ThreadInv, DoneInv]
          exact ⟨h2, hd⟩
        · have : Lamport.witness[pc]? = none := by
            rw [gen_witness]; simp; omega
          simp [stepThread, P, Lamport.progs, Progs.of, this, ThreadInv, DoneInv]
          exact ⟨h2, hd⟩

theorem overflowStep_eq (s : Sys) (t : Nat) (th : Thread) (h : s.threads[t]? = some th) :
    overflowStep P s t = thOverflow s.counter th := by
  simp only [overflowStep, h]

/-- Invariant of the whole system. -/
def SysInv (s : Sys) : Prop :=
  (∀ th ∈ s.threads, ThreadInv s.counter th) ∧ (∀ v ∈ s.incs, v ≤ s.counter) ∧ s.incs.Nodup

theorem SysInv.init (c : W) (calls : List (List Call)) : SysInv (Sys.init c calls) := by
  refine ⟨?_, by simp [Sys.init], by simp [Sys.init]⟩
  intro th hth
  simp [Sys.init] at hth
  obtain ⟨cs, _, rfl⟩ := hth
  exact ⟨by simp, by simp⟩

theorem step_inv (s : Sys) (t : Nat) (hinv : SysInv s) (hno : overflowStep P s t = false) :
    s.counter ≤ (step P s t).counter ∧ SysInv (step P s t) := by
  unfold step
  cases hth : s.threads[t]? with
  | none => exact ⟨BitVec.le_refl _, hinv⟩
  | some th =>
    have hmem : th ∈ s.threads := List.mem_of_getElem? hth
    rw [overflowStep_eq s t th hth] at hno
    obtain ⟨hle, hti, hinc⟩ := stepThread_inv s.counter th (hinv.1 th hmem) hno
    simp only
    refine ⟨hle, ?_, ?_, ?_⟩
    · intro th' hth'
      rcases List.mem_or_eq_of_mem_set hth' with h | h
      · exact (hinv.1 th' h).mono hle
      · exact h ▸ hti
    · intro v hv
      cases hi : (stepThread P s.counter th).2.2 with
      | none => simp only [hi] at hv; exact BitVec.le_trans (hinv.2.1 v hv) hle
      | some w =>
        simp only [hi, List.mem_cons] at hv
        rcases hv with rfl | hv
        · rw [(hinc _ hi).2]; exact BitVec.le_refl _
        · exact BitVec.le_trans (hinv.2.1 v hv) hle
    · cases hi : (stepThread P s.counter th).2.2 with
      | none => simpa only [hi] using hinv.2.2
      | some w =>
        simp only [List.nodup_cons]
        refine ⟨?_, hinv.2.2⟩
        intro hw
        have h1 := hinv.2.1 w hw
        have h2 := (hinc _ hi).1
        bv_omega

theorem run_inv (sched : List Nat) : ∀ (s : Sys), SysInv s → NoOverflow P s sched →
    s.counter ≤ (run P s sched).counter ∧ SysInv (run P s sched) := by
  induction sched with
  | nil => intro s h _; exact ⟨BitVec.le_refl _, h⟩
  | cons t rest ih =>
    intro s h hno
    obtain ⟨h1, h2⟩ := step_inv s t h hno.1
    obtain ⟨h3, h4⟩ := ih (step P s t) h2 hno.2
    exact ⟨BitVec.le_trans h1 h3, h4⟩

end SerfProofs.Lamport

namespace SerfProofs.Lamport
open SerfModel.Atomic SerfModel.Gen

/-- Values returned by increments during a run are above the counter the run started from. -/
theorem run_incs_new (sched : List Nat) : ∀ (s : Sys), SysInv s → NoOverflow P s sched →
    ∀ r ∈ (run P s sched).incs, r ∈ s.incs ∨ s.counter < r := by
  induction sched with
  | nil => intro s _ _ r hr; exact Or.inl hr
  | cons t rest ih =>
    intro s h hno r hr
    obtain ⟨h1, h2⟩ := step_inv s t h hno.1
    rcases ih (step P s t) h2 hno.2 r hr with hin | hgt
    · -- r is in the incs right after the first step
      unfold step at hin
      cases hth : s.threads[t]? with
      | none => simp only [hth] at hin; exact Or.inl hin
      | some th =>
        simp only [hth] at hin
        have hmem : th ∈ s.threads := List.mem_of_getElem? hth
        have hno' := hno.1
        rw [overflowStep_eq s t th hth] at hno'
        obtain ⟨_, _, hinc⟩ := stepThread_inv s.counter th (h.1 th hmem) hno'
        cases hi : (stepThread P s.counter th).2.2 with
        | none => simp only [hi] at hin; exact Or.inl hin
        | some w =>
          simp only [hi, List.mem_cons] at hin
          rcases hin with rfl | hin
          · exact Or.inr (hinc _ hi).1
          · exact Or.inl hin
    · exact Or.inr (by bv_omega)

theorem noOverflow_take (sched : List Nat) : ∀ (s : Sys) (k : Nat), NoOverflow P s sched → NoOverflow P s (sched.take k) := by
  induction sched with
  | nil => intro s k h; simpa using h
  | cons t rest ih =>
    intro s k h
    cases k with
    | zero => trivial
    | succ k => exact ⟨h.1, ih _ k h.2⟩

theorem noOverflow_drop (sched : List Nat) : ∀ (s : Sys) (k : Nat), NoOverflow P s sched →
    NoOverflow P (run P s (sched.take k)) (sched.drop k) := by
  induction sched with
  | nil => intro s k h; simpa [run] using h
  | cons t rest ih =>
    intro s k h
    cases k with
    | zero => simpa [run] using h
    | succ k => simpa [run] using ih _ k h.2

theorem run_append (s : Sys) (a b : List Nat) : run P s (a ++ b) = run P (run P s a) b := by
  simp [run, List.foldl_append]


end SerfProofs.Lamport
