/-
Lemmas for the agent tag model (C30): lookup characterisation of the `handleTags`
loops, exactness of the closed-form encoded size, invariants of `Agent.SetTags`.
-/
import SerfModel.Model.AgentTags
import SerfProofs.Lemmas.Assoc
namespace SerfProofs.AgentTags
open SerfModel SerfModel.AgentTags

theorem delTag_fold (del : List Bytes) (key : Bytes) (b : Bool) :
    del.foldl (fun acc d => acc || d == key) b = (b || del.contains key) := by
  induction del generalizing b with
  | nil => simp
  | cons d rest ih =>
    simp only [List.foldl_cons, ih, List.contains_cons]
    cases b <;> cases h : (d == key) <;> simp [h, BEq.comm (a := key) (b := d)]

theorem delTag_eq (del : List Bytes) (key : Bytes) : delTag del key = del.contains key := by
  unfold delTag; rw [delTag_fold]; simp

/-- `maps.Copy`-style fold: a key of `l` (no duplicate keys) wins, otherwise the accumulator. -/
theorem alookup_foldl_ainsert (l acc : Tags) (hl : (akeys l).Nodup) (k : Bytes) :
    alookup (l.foldl (fun acc p => ainsert acc p.1 p.2) acc) k =
      match alookup l k with
      | some v => some v
      | none => alookup acc k := by
  induction l generalizing acc with
  | nil => simp
  | cons p rest ih =>
    simp only [akeys, List.map_cons, List.nodup_cons] at hl
    simp only [List.foldl_cons]
    rw [ih _ hl.2, alookup_cons]
    by_cases hp : p.1 == k
    · have hk : k = p.1 := (eq_of_beq hp).symm
      have hnone : alookup rest k = none := by
        rw [alookup_eq_none_iff]; rw [hk]; exact hl.1
      subst hk
      simp [hnone, alookup_ainsert_self]
    · have hne : k ≠ p.1 := fun e => hp (by simp [e])
      simp only [hp, Bool.false_eq_true, ↓reduceIte]
      cases alookup rest k with
      | some v => rfl
      | none => simp [alookup_ainsert_ne _ _ _ _ hne]

theorem nodup_foldl_ainsert (l acc : Tags) (hacc : (akeys acc).Nodup) :
    (akeys (l.foldl (fun acc p => ainsert acc p.1 p.2) acc)).Nodup := by
  induction l generalizing acc with
  | nil => simpa
  | cons p rest ih => exact ih _ (akeys_ainsert_nodup _ _ _ hacc)

/-- the keep loop with an arbitrary accumulator -/
theorem alookup_keep_fold (old acc : Tags) (del : List Bytes) (hold : (akeys old).Nodup) (k : Bytes) :
    alookup (old.foldl (fun acc p => if delTag del p.1 then acc else ainsert acc p.1 p.2) acc) k =
      match (if del.contains k then none else alookup old k) with
      | some v => some v
      | none => alookup acc k := by
  induction old generalizing acc with
  | nil => cases del.contains k <;> simp
  | cons p rest ih =>
    simp only [akeys, List.map_cons, List.nodup_cons] at hold
    simp only [List.foldl_cons]
    rw [ih _ hold.2, alookup_cons, delTag_eq]
    by_cases hp : p.1 == k
    · have hk : k = p.1 := (eq_of_beq hp).symm
      have hnone : alookup rest k = none := by
        rw [alookup_eq_none_iff]; rw [hk]; exact hold.1
      subst hk
      cases hd : del.contains p.1 <;> simp [hnone, alookup_ainsert_self]
    · have hne : k ≠ p.1 := fun e => hp (by simp [e])
      simp only [hp, Bool.false_eq_true, ↓reduceIte]
      cases hd : del.contains k
      · simp only [Bool.false_eq_true, ↓reduceIte]
        cases alookup rest k with
        | some v => rfl
        | none =>
          cases del.contains p.1
          · simp [alookup_ainsert_ne _ _ _ _ hne]
          · simp
      · simp only [↓reduceIte]
        cases del.contains p.1
        · simp [alookup_ainsert_ne _ _ _ _ hne]
        · simp

theorem alookup_keep (old : Tags) (del : List Bytes) (hold : (akeys old).Nodup) (k : Bytes) :
    alookup (keep old del) k = if del.contains k then none else alookup old k := by
  unfold keep
  rw [alookup_keep_fold old [] del hold k]
  cases (if del.contains k then none else alookup old k) <;> simp

theorem nodup_keep_fold (old acc : Tags) (del : List Bytes) (hacc : (akeys acc).Nodup) :
    (akeys (old.foldl (fun acc p => if delTag del p.1 then acc else ainsert acc p.1 p.2) acc)).Nodup := by
  induction old generalizing acc with
  | nil => simpa
  | cons p rest ih =>
    simp only [List.foldl_cons]
    cases delTag del p.1
    · exact ih _ (akeys_ainsert_nodup _ _ _ hacc)
    · exact ih _ hacc

theorem nodup_keep (old : Tags) (del : List Bytes) : (akeys (keep old del)).Nodup :=
  nodup_keep_fold old [] del (by simp [akeys])

/-- erasing a list of keys -/
def eraseKeys (m : Tags) (del : List Bytes) : Tags := del.foldl aerase m
/-- inserting a list of pairs, later ones winning -/
def insertAll (m set : Tags) : Tags := set.foldl (fun acc p => ainsert acc p.1 p.2) m

theorem alookup_eraseKeys (m : Tags) (del : List Bytes) (k : Bytes) :
    alookup (eraseKeys m del) k = if del.contains k then none else alookup m k := by
  unfold eraseKeys
  induction del generalizing m with
  | nil => simp
  | cons d rest ih =>
    simp only [List.foldl_cons, ih, List.contains_cons]
    by_cases hk : k = d
    · subst hk
      simp [alookup_aerase_self]
    · have : (k == d) = false := by simp [hk]
      simp only [this, Bool.false_or, alookup_aerase_ne _ _ _ hk]

/-! ### encoded size -/

theorem rawHeader_length (l : Nat) : (rawHeader l).length = rawHeaderLen l := by
  unfold rawHeader rawHeaderLen be16 be32
  split
  · rfl
  · split <;> rfl

theorem mapHeader_length (n : Nat) : (mapHeader n).length = mapHeaderLen n := by
  unfold mapHeader mapHeaderLen be16 be32
  split
  · rfl
  · split <;> rfl

theorem encEntries_length (t : Tags) : (encEntries t).length = entriesSize t := by
  induction t with
  | nil => rfl
  | cons p rest ih =>
    simp only [encEntries, entriesSize, encStr, List.length_append, rawHeader_length, ih]

theorem encodeTags_length (t : Tags) : (encodeTags t).length = encodedSize t := by
  simp only [encodeTags, encodedSize, List.length_cons, List.length_append, mapHeader_length, encEntries_length]
  omega

/-! ### Agent.SetTags -/

theorem setTags_serfFirst (sh : SetTagsShape) (h : sh.SerfFirst = true) (s : St) (new : Tags) :
    setTags sh s new = if fits new then ({ effective := new, file := new }, true) else (s, false) := by
  unfold SetTagsShape.SerfFirst at h
  simp only [Bool.and_eq_true, Bool.not_eq_eq_eq_not, Bool.not_true] at h
  simp [setTags, h.1, h.2]

theorem setTags_accepted (sh : SetTagsShape) (s : St) (new : Tags) (h : (setTags sh s new).2 = true) :
    (setTags sh s new).1 = { effective := new, file := new } := by
  rcases sh with ⟨a, b⟩
  unfold setTags at h ⊢
  cases a <;> cases b <;> cases hf : fits new <;> simp_all

end SerfProofs.AgentTags
