/-
Recording resumes after a single I/O fault (model `SerfModel.SnapshotFault`):
once the fault lies in the past, the next compaction installs fresh handles on a file that
holds the in-memory state (`Fine` + C10's invariant), and from then on the fault model runs
exactly like the fault-free model of `SerfModel.Snapshot`, so C10's theorems apply.
-/
import SerfProofs.Lemmas.SnapshotFault
import SerfProofs.Lemmas.SnapshotPieces
namespace SerfProofs.SnapshotFault
open SerfModel SerfModel.Snapshot SerfModel.SnapshotFault SerfProofs.Snapshot

attribute [local irreducible] lastSeenOf

/-- the model directory: the operations that were actually performed -/
def mfs (st : FSnap) : FS := FS.applyAll {} st.done

/-- the effect of fault-free I/O: nothing but the directory (by `ops`) and the counters changes -/
structure Eff (st st' : FSnap) (ops : List FsOp) : Prop where
  s : st'.s = st.s
  sticky : st'.sticky = st.sticky
  fhClosed : st'.fhClosed = st.fhClosed
  fh : st'.fh = st.fh
  attempted : st'.attempted = st.attempted
  q : Q st'
  fs : mfs st' = (mfs st).applyAll ops

theorem Eff.refl {st : FSnap} (h : Q st) : Eff st st [] := ⟨rfl, rfl, rfl, rfl, rfl, h, rfl⟩

theorem Eff.trans {a b c : FSnap} {o1 o2 : List FsOp} (h1 : Eff a b o1) (h2 : Eff b c o2) : Eff a c (o1 ++ o2) :=
  ⟨h2.s.trans h1.s, h2.sticky.trans h1.sticky, h2.fhClosed.trans h1.fhClosed, h2.fh.trans h1.fh,
   h2.attempted.trans h1.attempted, h2.q, by rw [h2.fs, h1.fs, applyAll_append]⟩

theorem doOpW_eff (st : FSnap) (op : FsOp) (h : Q st) :
    (doOpW st op true).2 = true ∧ Eff st (doOpW st op true).1 [op] := by
  have hq := doOpW_Q st op true h
  have hne : ¬ st.fault = some st.nops := by
    rcases h.2.2 with e | ⟨k, e, hk⟩
    · rw [e]; simp
    · rw [e]; intro hh; cases hh; omega
  refine ⟨hq.2 rfl, ?_⟩
  have hfs : mfs (doOpW st op true).1 = (mfs st).applyAll [op] := by
    unfold doOpW mfs
    rw [if_neg hne]
    simp only [↓reduceIte]
    rw [applyAll_append]
  have hfields : (doOpW st op true).1.s = st.s ∧ (doOpW st op true).1.sticky = st.sticky ∧
      (doOpW st op true).1.fhClosed = st.fhClosed ∧ (doOpW st op true).1.fh = st.fh ∧
      (doOpW st op true).1.attempted = st.attempted := by
    unfold doOpW
    rw [if_neg hne]
    simp only [↓reduceIte]
    refine ⟨?_, ?_, ?_, ?_, ?_⟩ <;> first | rfl | trivial
  exact ⟨hfields.1, hfields.2.1, hfields.2.2.1, hfields.2.2.2.1, hfields.2.2.2.2, hq.1, hfs⟩

theorem doOp_eff (st : FSnap) (op : FsOp) (h : Q st) : (doOp st op).2 = true ∧ Eff st (doOp st op).1 [op] :=
  doOpW_eff st op h

theorem doWrites_eff (p : Path) (ws : List Bytes) : ∀ st : FSnap, Q st →
    (doWrites st p true ws).2 = true ∧ Eff st (doWrites st p true ws).1 (ws.map (.write p)) := by
  induction ws with
  | nil => intro st h; exact ⟨rfl, Eff.refl h⟩
  | cons x xs ih =>
    intro st h
    have h1 := doOpW_eff st (.write p x) h
    have h2 := ih _ h1.2.q
    simp only [doWrites, h1.1, ↓reduceIte, List.map_cons]
    exact ⟨h2.1, Eff.trans (o1 := [FsOp.write p x]) h1.2 h2.2⟩

/-- no fault ahead, current code shape, fresh handles -/
def Fine (st : FSnap) : Prop := Q st ∧ st.sticky = false ∧ st.fhClosed = false ∧ st.fh = true

theorem Fine.of_eff {st st' : FSnap} {ops : List FsOp} (h : Fine st) (e : Eff st st' ops) : Fine st' :=
  ⟨e.q, e.sticky.trans h.2.1, e.fhClosed.trans h.2.2.1, e.fh.trans h.2.2.2⟩

theorem applyAll_flushOps (fs : FS) (p : Path) (b : Bytes) :
    fs.applyAll (flushOps p b) = if b = [] then fs else fs.applyAll [.write p b] := by
  unfold flushOps
  split <;> simp [FS.applyAll, FS.apply]

/-- what the periodic flush and the offset update do to the snapshotter's state -/
def afterWriteS (s : Snap) (n : Nat) : Snap :=
  if s.flushDue then { s with buf := [], flushDue := false, offset := s.offset + n } else { s with offset := s.offset + n }

def afterWriteOps (s : Snap) : List FsOp := if s.flushDue then flushOps .main s.buf else []

theorem appendBytes_eq (s : Snap) (l : Bytes) :
    appendBytes s l = (afterWriteS { s with buf := (bufWrite s.buf l).1 } l.length,
      (bufWrite s.buf l).2.map (.write .main) ++ afterWriteOps { s with buf := (bufWrite s.buf l).1 }) := by
  unfold appendBytes afterWriteS afterWriteOps
  simp only
  split <;> simp

theorem fFlushDue_sim (st2 : FSnap) (n : Nat) (h : Fine st2) :
    (fFlushDue st2 n).2 = .ok ∧ (fFlushDue st2 n).1.s = { st2.s with buf := [], offset := st2.s.offset + n } ∧
    mfs (fFlushDue st2 n).1 = (mfs st2).applyAll (flushOps .main st2.s.buf) ∧ Fine (fFlushDue st2 n).1 ∧
    (fFlushDue st2 n).1.attempted = st2.attempted := by
  unfold fFlushDue
  by_cases hb : st2.s.buf = []
  · simp only [hb, ↓reduceIte]
    refine ⟨by first | rfl | trivial, by first | rfl | trivial, ?_, ⟨Q_of_fields h.1 rfl rfl rfl rfl rfl rfl, h.2.1, h.2.2.1, h.2.2.2⟩,
      by first | rfl | trivial⟩
    rw [applyAll_flushOps]; simp; rfl
  · simp only [hb, ↓reduceIte]
    have h2 := doOpW_eff st2 (.write .main st2.s.buf) h.1
    rw [h.2.2.1]
    simp only [Bool.not_false]
    generalize doOpW st2 (FsOp.write Path.main st2.s.buf) true = r2 at h2 ⊢
    obtain ⟨hr22, he2⟩ := h2
    simp only [hr22, Bool.not_true, Bool.false_eq_true, ↓reduceIte]
    refine ⟨by first | rfl | trivial, ?_, ?_, ⟨Q_of_fields he2.q rfl rfl rfl rfl rfl rfl, he2.sticky.trans h.2.1,
      he2.fhClosed.trans h.2.2.1, he2.fh.trans h.2.2.2⟩, he2.attempted⟩
    · show ({ r2.1.s with buf := [], offset := r2.1.s.offset + n } : Snap) = _
      rw [he2.s]
    · show mfs r2.1 = _
      rw [he2.fs, applyAll_flushOps]; simp [hb]

theorem fAfterWrite_sim (st1 : FSnap) (n : Nat) (h : Fine st1) :
    (fAfterWrite st1 n).2 = .ok ∧ (fAfterWrite st1 n).1.s = afterWriteS st1.s n ∧
    mfs (fAfterWrite st1 n).1 = (mfs st1).applyAll (afterWriteOps st1.s) ∧ Fine (fAfterWrite st1 n).1 ∧
    (fAfterWrite st1 n).1.attempted = st1.attempted := by
  unfold fAfterWrite afterWriteS afterWriteOps
  by_cases hfd : st1.s.flushDue = true
  · simp only [hfd, ↓reduceIte]
    have hf2 : Fine ({ st1 with s := { st1.s with flushDue := false } } : FSnap) :=
      ⟨Q_of_fields h.1 rfl rfl rfl rfl rfl rfl, h.2.1, h.2.2.1, h.2.2.2⟩
    have := fFlushDue_sim _ n hf2
    exact ⟨this.1, this.2.1, this.2.2.1, this.2.2.2.1, this.2.2.2.2⟩
  · have hfd0 : st1.s.flushDue = false := by cases hh : st1.s.flushDue <;> simp_all
    simp only [hfd0, Bool.false_eq_true, ↓reduceIte]
    exact ⟨by first | rfl | trivial, by first | rfl | trivial, by simp [FS.applyAll]; rfl,
      ⟨Q_of_fields h.1 rfl rfl rfl rfl rfl rfl, h.2.1, h.2.2.1, h.2.2.2⟩, by first | rfl | trivial⟩

/-- **The writes of an append, fault-free**: the fault model does exactly what `appendBytes` does. -/
theorem fAppendBytes_sim (st : FSnap) (l : Bytes) (h : Fine st) :
    (fAppendBytes st l).2 = .ok ∧ (fAppendBytes st l).1.s = (appendBytes st.s l).1 ∧
    mfs (fAppendBytes st l).1 = (mfs st).applyAll (appendBytes st.s l).2 ∧ Fine (fAppendBytes st l).1 ∧
    (fAppendBytes st l).1.attempted = st.attempted := by
  have hw := doWrites_eff .main (bufWrite st.s.buf l).2 st h.1
  rw [appendBytes_eq]
  unfold fAppendBytes
  simp only [h.1.1.2.1, h.2.1, h.2.2.1, Bool.not_true, Bool.not_false, Bool.false_eq_true, ↓reduceIte]
  generalize doWrites st .main true (bufWrite st.s.buf l).2 = r at hw ⊢
  obtain ⟨hr2, he⟩ := hw
  simp only [hr2, Bool.not_true, Bool.false_eq_true, ↓reduceIte]
  have hfine1 : Fine ({ r.1 with s := { r.1.s with buf := (bufWrite st.s.buf l).1 } } : FSnap) :=
    ⟨Q_of_fields he.q rfl rfl rfl rfl rfl rfl, he.sticky.trans h.2.1, he.fhClosed.trans h.2.2.1, he.fh.trans h.2.2.2⟩
  have ha := fAfterWrite_sim _ l.length hfine1
  generalize fAfterWrite ({ r.1 with s := { r.1.s with buf := (bufWrite st.s.buf l).1 } } : FSnap) l.length = ra at ha ⊢
  obtain ⟨ha1, ha2, ha3, ha4, ha5⟩ := ha
  have hs1 : ({ r.1 with s := { r.1.s with buf := (bufWrite st.s.buf l).1 } } : FSnap).s = { st.s with buf := (bufWrite st.s.buf l).1 } := by
    show ({ r.1.s with buf := (bufWrite st.s.buf l).1 } : Snap) = _
    rw [he.s]
  rw [hs1] at ha2 ha3
  refine ⟨ha1, ha2, ?_, ha4, ha5.trans he.attempted⟩
  rw [ha3, applyAll_append]
  congr 1
  show mfs r.1 = _
  exact he.fs

/-! ### a compaction once the fault lies in the past -/

/-- any operation, whether it works or fails for real: only the directory may change -/
theorem doOpW_any (st : FSnap) (op : FsOp) (w : Bool) (h : Q st) :
    Q (doOpW st op w).1 ∧ (doOpW st op w).1.s = st.s ∧ (doOpW st op w).1.fh = st.fh ∧
    (doOpW st op w).1.attempted = st.attempted ∧ (doOpW st op w).1.sticky = st.sticky ∧
    (doOpW st op w).1.fhClosed = st.fhClosed ∧
    (mfs (doOpW st op w).1 = (mfs st).apply op ∨ mfs (doOpW st op w).1 = mfs st) := by
  have hq := (doOpW_Q st op w h).1
  have hne : ¬ st.fault = some st.nops := by
    rcases h.2.2 with e | ⟨k, e, hk⟩
    · rw [e]; simp
    · rw [e]; intro hh; cases hh; omega
  refine ⟨hq, ?_⟩
  unfold doOpW mfs
  rw [if_neg hne]
  cases w
  · simp only [Bool.false_eq_true, ↓reduceIte]
    exact ⟨by first | rfl | trivial, by first | rfl | trivial, by first | rfl | trivial, by first | rfl | trivial,
      by first | rfl | trivial, Or.inr (by first | rfl | trivial)⟩
  · simp only [↓reduceIte]
    refine ⟨by first | rfl | trivial, by first | rfl | trivial, by first | rfl | trivial, by first | rfl | trivial,
      by first | rfl | trivial, Or.inl ?_⟩
    rw [applyAll_append]; rfl

def frontOps (lines : List Bytes) : List FsOp :=
  [.openTrunc .tmp] ++ (bufWriteAll [] lines).2.map (.write .tmp) ++
    (if (bufWriteAll [] lines).1 = [] then [] else [.write .tmp (bufWriteAll [] lines).1]) ++ [.sync .tmp, .close .tmp]

theorem frontOps_tmp (lines : List Bytes) (fs : FS) : (fs.applyAll (frontOps lines)).tmp = some lines.flatten := by
  have hc := bufWriteAll_concat lines []
  unfold frontOps
  rw [applyAll_append, applyAll_append, applyAll_append]
  have h1 : fs.applyAll [.openTrunc .tmp] = { fs with tmp := some [] } := by simp [FS.applyAll, FS.apply, FS.set]
  rw [h1, applyAll_writes_tmp _ _ [] rfl]
  simp only [List.nil_append] at hc ⊢
  split
  · rename_i hb
    rw [hb, List.append_nil] at hc
    simp [FS.applyAll, FS.apply, hc]
  · simp [FS.applyAll, FS.apply, FS.get, FS.set, hc]

theorem fCompactFront_fs (st : FSnap) (lines : List Bytes) (h : Q st) :
    (fCompactFront st lines).2 = true ∧ Eff st (fCompactFront st lines).1 (frontOps lines) := by
  unfold fCompactFront frontOps
  have q1 := doOp_eff st (.openTrunc .tmp) h
  generalize doOp st (.openTrunc .tmp) = r1 at q1 ⊢
  simp only [q1.1, Bool.not_true, Bool.false_eq_true, ↓reduceIte]
  have q2 := doWrites_eff .tmp (bufWriteAll [] lines).2 r1.1 q1.2.q
  generalize doWrites r1.1 .tmp true (bufWriteAll [] lines).2 = r2 at q2 ⊢
  simp only [q2.1, Bool.not_true, Bool.false_eq_true, ↓reduceIte]
  have q3 : (if (bufWriteAll [] lines).1 = [] then (r2.1, true) else doOp r2.1 (.write .tmp (bufWriteAll [] lines).1)).2 = true ∧
      Eff r2.1 (if (bufWriteAll [] lines).1 = [] then (r2.1, true) else doOp r2.1 (.write .tmp (bufWriteAll [] lines).1)).1
        (if (bufWriteAll [] lines).1 = [] then [] else [.write .tmp (bufWriteAll [] lines).1]) := by
    split
    · exact ⟨rfl, Eff.refl q2.2.q⟩
    · exact doOp_eff _ _ q2.2.q
  generalize (if (bufWriteAll [] lines).1 = [] then (r2.1, true) else doOp r2.1 (.write .tmp (bufWriteAll [] lines).1)) = r3 at q3 ⊢
  simp only [q3.1, Bool.not_true, Bool.false_eq_true, ↓reduceIte]
  have q4 := doOp_eff r3.1 (.sync .tmp) q3.2.q
  generalize doOp r3.1 (.sync .tmp) = r4 at q4 ⊢
  simp only [q4.1, Bool.not_true, Bool.false_eq_true, ↓reduceIte]
  have q5 := doOp_eff r4.1 (.close .tmp) q4.2.q
  refine ⟨trivial, ?_⟩
  have := (((q1.2.trans q2.2).trans q3.2).trans q4.2).trans q5.2
  simpa [List.append_assoc] using this

theorem fOldFlush_fs (st : FSnap) (h : Q st) :
    Q (fOldFlush st) ∧ (mfs (fOldFlush st)).tmp = (mfs st).tmp ∧ (fOldFlush st).fh = st.fh ∧
    (fOldFlush st).attempted = st.attempted ∧
    ({ (fOldFlush st).s with buf := [] } : Snap) = { st.s with buf := [] } := by
  unfold fOldFlush
  split
  · exact ⟨h, rfl, rfl, rfl, rfl⟩
  · have q := doOpW_any st (.write .main st.s.buf) (!st.fhClosed) h
    generalize doOpW st (.write .main st.s.buf) (!st.fhClosed) = r at q ⊢
    obtain ⟨q1, q2, q3, q4, _, _, q7⟩ := q
    have htmp : (mfs r.1).tmp = (mfs st).tmp := by
      rcases q7 with e | e
      · rw [e]; simp only [FS.apply, FS.get]; split <;> simp [FS.set]
      · rw [e]
    simp only
    split
    · refine ⟨Q_of_fields q1 rfl rfl rfl rfl rfl rfl, htmp, q3, q4, ?_⟩
      show ({ ({ r.1.s with buf := [] } : Snap) with buf := [] } : Snap) = _
      rw [q2]
    · refine ⟨Q_of_fields q1 rfl rfl rfl rfl rfl rfl, htmp, q3, q4, ?_⟩
      show ({ r.1.s with buf := [] } : Snap) = _
      rw [q2]

theorem fOldClose_fs (st : FSnap) (h : Q st) :
    Q (fOldClose false st) ∧ (mfs (fOldClose false st)).tmp = (mfs st).tmp ∧ (fOldClose false st).s = st.s ∧
    (fOldClose false st).attempted = st.attempted := by
  unfold fOldClose
  simp only [Bool.false_eq_true, ↓reduceIte]
  by_cases hfh : st.fh = true
  · simp only [hfh, ↓reduceIte]
    have q := doOp_eff st (.close .main) h
    refine ⟨Q_of_fields q.2.q rfl rfl rfl rfl rfl rfl, ?_, q.2.s, q.2.attempted⟩
    show (mfs (doOp st (.close .main)).1).tmp = _
    rw [q.2.fs]; rfl
  · simp only [hfh, Bool.false_eq_true, ↓reduceIte]
    exact ⟨Q_of_fields h rfl rfl rfl rfl rfl rfl, by first | rfl | trivial, by first | rfl | trivial, by first | rfl | trivial⟩

theorem swap_fs_main (g : FS) (new : Bytes) (ht : g.tmp = some new) :
    g.applyAll [.remove .main, .rename .tmp .main, .openAppend .main] = { main := some new, tmp := none } := by
  simp [FS.applyAll, FS.apply, FS.get, FS.set, ht]

theorem fSwapTail_fs (r7 : FSnap) (total : Nat) (new : Bytes) (h : Q r7) (ht : (mfs r7).tmp = some new) :
    (fSwapTail r7 total).2 = .ok ∧ Fine (fSwapTail r7 total).1 ∧ mfs (fSwapTail r7 total).1 = { main := some new, tmp := none } ∧
    (fSwapTail r7 total).1.s = { r7.s with buf := [], offset := total, flushDue := false, ncompact := r7.s.ncompact + 1, block := r7.s.alive } ∧
    (fSwapTail r7 total).1.attempted = r7.attempted := by
  unfold fSwapTail doOp
  have hw : (r7.mainExists || !r7.removeMissingFails) = true := by rw [h.2.1]; simp
  rw [hw]
  have q8 := doOpW_eff r7 (.remove .main) h
  generalize doOpW r7 (.remove .main) true = r8 at q8 ⊢
  simp only [q8.1, Bool.not_true, Bool.false_eq_true, ↓reduceIte]
  have q8' : Q ({ r8.1 with mainExists := false } : FSnap) := Q_of_fields q8.2.q rfl rfl rfl rfl rfl rfl
  have q9 := doOpW_eff _ (.rename .tmp .main) q8'
  generalize doOpW ({ r8.1 with mainExists := false } : FSnap) (.rename .tmp .main) true = r9 at q9 ⊢
  simp only [q9.1, Bool.not_true, Bool.false_eq_true, ↓reduceIte]
  have q9' : Q ({ r9.1 with mainExists := true } : FSnap) := Q_of_fields q9.2.q rfl rfl rfl rfl rfl rfl
  have q10 := doOpW_eff _ (.openAppend .main) q9'
  generalize doOpW ({ r9.1 with mainExists := true } : FSnap) (.openAppend .main) true = r10 at q10 ⊢
  simp only [q10.1, Bool.not_true, Bool.false_eq_true, ↓reduceIte]
  have hs : r10.1.s = r7.s := by
    rw [q10.2.s]; show r9.1.s = _; rw [q9.2.s]; show r8.1.s = _; exact q8.2.s
  have hfs : mfs r10.1 = (mfs r7).applyAll [.remove .main, .rename .tmp .main, .openAppend .main] := by
    rw [q10.2.fs]
    show (mfs r9.1).applyAll _ = _
    rw [q9.2.fs]
    show ((mfs r8.1).applyAll _).applyAll _ = _
    rw [q8.2.fs]
    simp [FS.applyAll]
  refine ⟨trivial, ⟨⟨⟨q10.2.q.1.1, rfl, q10.2.q.1.2.2⟩, q10.2.q.2.1, q10.2.q.2.2⟩, rfl, rfl, rfl⟩, ?_, ?_, ?_⟩
  · show mfs r10.1 = _
    rw [hfs]; exact swap_fs_main _ _ ht
  · show ({ r10.1.s with buf := [], offset := total, flushDue := false, ncompact := r10.1.s.ncompact + 1, block := r10.1.s.alive } : Snap) = _
    rw [hs]
  · show r10.1.attempted = _
    rw [q10.2.attempted]; show r9.1.attempted = _; rw [q9.2.attempted]; show r8.1.attempted = _; exact q8.2.attempted

theorem Inv_of_main {s : Snap} {fs fs' : FS} (h : Inv s fs) (e : fs'.main = fs.main) : Inv s fs' := by
  obtain ⟨d, hd, hc⟩ := h
  exact ⟨d, e.trans hd, hc⟩

theorem compact_result_fs (ord : Order) (s : Snap) (fs : FS) (d : Bytes) (hd : fs.main = some d) :
    fs.applyAll (compact ord s).2 = { main := some (compactLines ord s).flatten, tmp := none } := by
  rw [compact_ops_eq', applyAll_append]
  obtain ⟨ht, hm⟩ := compactTmpOps_result ord s fs
  generalize fs.applyAll (compactTmpOps ord s) = g at ht hm ⊢
  rw [hd] at hm
  have hg : g = { main := some d, tmp := some (compactLines ord s).flatten } := by cases g; simp_all
  subst hg
  rw [applyAll_append, applyAll_flush_main _ d s.buf rfl]
  simp [FS.applyAll, FS.apply, FS.get, FS.set]

def bumpS (t : Nat) (x : Snap) : Snap := { x with offset := t, flushDue := false, ncompact := x.ncompact + 1, block := x.alive }

/-- a compaction once the fault lies in the past: it succeeds, installs fresh handles, leaves the
state `compact` computes and a directory holding only the compacted snapshot -/
theorem fCompact_sim (st : FSnap) (h : Q st) :
    (fCompact st).2 = .ok ∧ Fine (fCompact st).1 ∧ (fCompact st).1.s = (compact Order.id st.s).1 ∧
    mfs (fCompact st).1 = { main := some (compactLines Order.id st.s).flatten, tmp := none } ∧
    (fCompact st).1.attempted = st.attempted := by
  unfold fCompact
  simp only
  have q1 := fCompactFront_fs st (compactLines Order.id st.s) h
  generalize fCompactFront st (compactLines Order.id st.s) = r at q1 ⊢
  obtain ⟨hr2, he⟩ := q1
  simp only [hr2, Bool.not_true, Bool.false_eq_true, ↓reduceIte]
  unfold fCompactSwap
  simp only [he.q.1.2.1, he.q.1.1, Bool.not_true, Bool.false_eq_true, ↓reduceIte]
  have htmp : (mfs r.1).tmp = some (compactLines Order.id st.s).flatten := by rw [he.fs]; exact frontOps_tmp _ _
  obtain ⟨f1, f2, _, f4, f5⟩ := fOldFlush_fs r.1 he.q
  obtain ⟨c1, c2, c3, c4⟩ := fOldClose_fs (fOldFlush r.1) f1
  have ht7 : (mfs (fOldClose false (fOldFlush r.1))).tmp = some (compactLines Order.id st.s).flatten := by rw [c2, f2, htmp]
  obtain ⟨t1, t2, t3, t4, t5⟩ := fSwapTail_fs (fOldClose false (fOldFlush r.1)) (compactLines Order.id st.s).flatten.length _ c1 ht7
  have hs : (fSwapTail (fOldClose false (fOldFlush r.1)) (compactLines Order.id st.s).flatten.length).1.s = (compact Order.id st.s).1 := by
    rw [t4, c3]
    have e := congrArg (bumpS (compactLines Order.id st.s).flatten.length) f5
    rw [he.s] at e
    exact e
  exact ⟨t1, t2, hs, t3, by rw [t5, c4, f4, he.attempted]⟩

/-- **The next compaction restores**: once the fault lies in the past, a compaction succeeds,
installs fresh handles (`Fine`), leaves the snapshotter in the state `compact` computes, and the
snapshot file replays to the in-memory state (C10's invariant) — whatever the faulty phase did
to the old file, the old handles and the directory. -/
theorem fCompact_restores (st : FSnap) (h : Q st) (hwf : WFRec st.s.mem) :
    Fine (fCompact st).1 ∧ Inv (fCompact st).1.s (mfs (fCompact st).1) := by
  obtain ⟨_, t2, hs, t3, _⟩ := fCompact_sim st h
  refine ⟨t2, ?_⟩
  rw [hs]
  have hinv := (compact_inv Order.id (fun _ m => List.Perm.refl m) st.s ({ main := some [] } : FS) [] rfl hwf).1
  have hmain := compact_main Order.id st.s ({ main := some [] } : FS) [] rfl
  exact Inv_of_main hinv (by rw [t3, hmain])

/-! ### from then on the fault model runs like the fault-free model -/

/-- `st'` is what the fault-free model computes from `st`: same snapshotter state, the
directory advanced by the model's operations, fresh handles, a snapshot file in place -/
structure Sim (st st' : FSnap) (r : Snap × List FsOp) : Prop where
  s : st'.s = r.1
  fs : mfs st' = (mfs st).applyAll r.2
  fine : Fine st'
  main : ∃ d, (mfs st').main = some d
  attempted : st'.attempted = st.attempted

theorem Sim.refl' {st : FSnap} (h : Fine st) (hm : ∃ d, (mfs st).main = some d) : Sim st st (st.s, []) :=
  ⟨rfl, rfl, h, hm, rfl⟩

theorem Sim.trans {a b c : FSnap} {r1 r2 : Snap × List FsOp} (h1 : Sim a b r1) (h2 : Sim b c r2) :
    Sim a c (r2.1, r1.2 ++ r2.2) :=
  ⟨h2.s, by rw [h2.fs, h1.fs, applyAll_append], h2.fine, h2.main, h2.attempted.trans h1.attempted⟩

theorem fAppendLine_sim (st : FSnap) (l : Bytes) (h : Fine st) (hm : ∃ d, (mfs st).main = some d) :
    (fAppendLine st l).2 = .ok ∧ Sim st (fAppendLine st l).1 (appendLine Order.id st.s l) := by
  obtain ⟨b1, b2, b3, b4, b5⟩ := fAppendBytes_sim st l h
  obtain ⟨d, hd⟩ := hm
  obtain ⟨d', hd', _, _⟩ := appendBytes_spec st.s l (mfs st) d hd
  unfold fAppendLine
  generalize fAppendBytes st l = r at b1 b2 b3 b4 b5 ⊢
  simp only [b1]
  by_cases hcmp : (appendBytes st.s l).1.offset > maxSize (appendBytes st.s l).1
  · have hcmp' : r.1.s.offset > maxSize r.1.s := by rw [b2]; exact hcmp
    simp only [hcmp', ↓reduceIte]
    rw [appendLine_of_gt Order.id st.s l hcmp]
    obtain ⟨c1, c2, c3, c4, c5⟩ := fCompact_sim r.1 b4.1
    refine ⟨c1, ⟨by rw [c3, b2], ?_, c2, ⟨_, by rw [c4]⟩, c5.trans b5⟩⟩
    rw [c4, applyAll_append, ← b3, b2]
    exact (compact_result_fs Order.id _ _ d' (by rw [b3]; exact hd')).symm
  · have hcmp' : ¬ r.1.s.offset > maxSize r.1.s := by rw [b2]; exact hcmp
    simp only [hcmp', ↓reduceIte]
    rw [appendLine_of_le Order.id st.s l hcmp]
    exact ⟨b1, ⟨b2, b3, b4, ⟨d', by rw [b3]; exact hd'⟩, b5⟩⟩

theorem fTryAppend_sim (st : FSnap) (l : Bytes) (h : Fine st) (hm : ∃ d, (mfs st).main = some d) :
    Sim st (fTryAppend st l) (appendLine Order.id st.s l) := by
  obtain ⟨a1, a2⟩ := fAppendLine_sim st l h hm
  unfold fTryAppend
  generalize fAppendLine st l = r at a1 a2 ⊢
  simp only [a1]
  exact a2

theorem snap_buf_nil (s : Snap) (h : s.buf = []) : ({ s with buf := [] } : Snap) = s := by
  cases s; simp_all

theorem fFlush_sim (st : FSnap) (h : Fine st) (hm : ∃ d, (mfs st).main = some d) :
    Sim st (fFlush st) ({ st.s with buf := [] }, flushOps .main st.s.buf) := by
  obtain ⟨d, hd⟩ := hm
  unfold fFlush
  simp only [h.1.1.2.2, h.1.1.2.1, h.2.1, Bool.false_eq_true, ↓reduceIte, Bool.not_true, Bool.false_or]
  by_cases hb : st.s.buf = []
  · simp only [hb, decide_true, ↓reduceIte]
    refine ⟨(snap_buf_nil st.s hb).symm, ?_, h, ⟨d, hd⟩, rfl⟩
    simp [flushOps, FS.applyAll, FS.apply]
  · simp only [hb, decide_false, Bool.false_eq_true, ↓reduceIte]
    have h2 := doOpW_eff st (.write .main st.s.buf) h.1
    rw [h.2.2.1]
    simp only [Bool.not_false]
    generalize doOpW st (FsOp.write Path.main st.s.buf) true = r2 at h2 ⊢
    obtain ⟨hr22, he2⟩ := h2
    simp only [hr22, ↓reduceIte]
    refine ⟨?_, ?_, ⟨Q_of_fields he2.q rfl rfl rfl rfl rfl rfl, he2.sticky.trans h.2.1, he2.fhClosed.trans h.2.2.1,
      he2.fh.trans h.2.2.2⟩, ?_, he2.attempted⟩
    · show ({ r2.1.s with buf := [] } : Snap) = _
      rw [he2.s]
    · show mfs r2.1 = _
      rw [he2.fs, applyAll_flushOps]; simp [hb]
    · refine ⟨d ++ st.s.buf, ?_⟩
      show (mfs r2.1).main = _
      rw [he2.fs]
      simp [FS.applyAll, FS.apply, FS.get, FS.set, hd]

theorem fUpdateClock_pos (st : FSnap) (clk : Nat) (h : lastSeenOf clk > st.s.lastClock) :
    fUpdateClock st clk =
      fTryAppend { st with s := { st.s with lastClock := lastSeenOf clk } } (printLine (.clock (lastSeenOf clk))) := by
  simp only [fUpdateClock, h, ↓reduceIte]

theorem fUpdateClock_neg (st : FSnap) (clk : Nat) (h : ¬ lastSeenOf clk > st.s.lastClock) : fUpdateClock st clk = st := by
  simp only [fUpdateClock, h, ↓reduceIte]

theorem updateClock_pos' (ord : Order) (s : Snap) (clk : Nat) (h : lastSeenOf clk > s.lastClock) :
    updateClock ord s clk = appendLine ord { s with lastClock := lastSeenOf clk } (printLine (.clock (lastSeenOf clk))) := by
  simp only [updateClock, h, ↓reduceIte]

theorem clock_sim (st : FSnap) (x : Nat) (h : Fine st) (hm : ∃ d, (mfs st).main = some d) :
    Sim st (fTryAppend { st with s := { st.s with lastClock := x } } (printLine (.clock x)))
      (appendLine Order.id { st.s with lastClock := x } (printLine (.clock x))) := by
  have hf1 : Fine ({ st with s := { st.s with lastClock := x } } : FSnap) :=
    ⟨Q_of_fields h.1 rfl rfl rfl rfl rfl rfl, h.2.1, h.2.2.1, h.2.2.2⟩
  have := fTryAppend_sim _ (printLine (.clock x)) hf1 hm
  exact ⟨this.s, this.fs, this.fine, this.main, this.attempted⟩

theorem fUpdateClock_sim (st : FSnap) (clk : Nat) (h : Fine st) (hm : ∃ d, (mfs st).main = some d) :
    Sim st (fUpdateClock st clk) (updateClock Order.id st.s clk) := by
  by_cases hcond : lastSeenOf clk > st.s.lastClock
  · rw [fUpdateClock_pos st clk hcond, updateClock_pos' Order.id st.s clk hcond]
    exact clock_sim st (lastSeenOf clk) h hm
  · rw [fUpdateClock_neg st clk hcond, updateClock_neg Order.id st.s clk hcond]
    exact Sim.refl' h hm

theorem alive_sim (st : FSnap) (a' : AMap) (l : Bytes) (h : Fine st) (hm : ∃ d, (mfs st).main = some d) :
    Sim st (fTryAppend { st with s := { st.s with alive := a' } } l) (appendLine Order.id { st.s with alive := a' } l) := by
  have hf1 : Fine ({ st with s := { st.s with alive := a' } } : FSnap) :=
    ⟨Q_of_fields h.1 rfl rfl rfl rfl rfl rfl, h.2.1, h.2.2.1, h.2.2.2⟩
  have := fTryAppend_sim _ l hf1 hm
  exact ⟨this.s, this.fs, this.fine, this.main, this.attempted⟩

theorem fJoin_cons (st : FSnap) (n : Name) (a : Addr) (ms : List (Name × Addr)) (h : st.panicked = false) :
    fJoin st ((n, a) :: ms) =
      fJoin (fTryAppend { st with s := { st.s with alive := ainsert st.s.alive n a } } (printLine (.alive n a))) ms := by
  simp only [fJoin, h, Bool.false_eq_true, ↓reduceIte]

theorem fGone_cons (st : FSnap) (n : Name) (ns : List Name) (h : st.panicked = false) :
    fGone st (n :: ns) =
      fGone (fTryAppend { st with s := { st.s with alive := aerase st.s.alive n } } (printLine (.notAlive n))) ns := by
  simp only [fGone, h, Bool.false_eq_true, ↓reduceIte]

theorem joinMembers_cons' (ord : Order) (s : Snap) (n : Name) (a : Addr) (ms : List (Name × Addr)) :
    joinMembers ord s ((n, a) :: ms) =
      ((joinMembers ord (appendLine ord { s with alive := ainsert s.alive n a } (printLine (.alive n a))).1 ms).1,
       (appendLine ord { s with alive := ainsert s.alive n a } (printLine (.alive n a))).2 ++
       (joinMembers ord (appendLine ord { s with alive := ainsert s.alive n a } (printLine (.alive n a))).1 ms).2) := rfl

theorem goneMembers_cons' (ord : Order) (s : Snap) (n : Name) (ns : List Name) :
    goneMembers ord s (n :: ns) =
      ((goneMembers ord (appendLine ord { s with alive := aerase s.alive n } (printLine (.notAlive n))).1 ns).1,
       (appendLine ord { s with alive := aerase s.alive n } (printLine (.notAlive n))).2 ++
       (goneMembers ord (appendLine ord { s with alive := aerase s.alive n } (printLine (.notAlive n))).1 ns).2) := rfl

theorem fJoin_sim (ms : List (Name × Addr)) : ∀ (st : FSnap), Fine st → (∃ d, (mfs st).main = some d) →
    Sim st (fJoin st ms) (joinMembers Order.id st.s ms) := by
  induction ms with
  | nil => intro st h hm; exact Sim.refl' h hm
  | cons p ms ih =>
    intro st h hm
    obtain ⟨n, a⟩ := p
    rw [fJoin_cons st n a ms h.1.1.2.2, joinMembers_cons']
    have h1 := alive_sim st (ainsert st.s.alive n a) (printLine (.alive n a)) h hm
    generalize fTryAppend { st with s := { st.s with alive := ainsert st.s.alive n a } } (printLine (.alive n a)) = b at h1 ⊢
    generalize appendLine Order.id { st.s with alive := ainsert st.s.alive n a } (printLine (.alive n a)) = r1 at h1 ⊢
    have h2 := ih b h1.fine h1.main
    rw [h1.s] at h2
    exact Sim.trans h1 h2

theorem fGone_sim (ns : List Name) : ∀ (st : FSnap), Fine st → (∃ d, (mfs st).main = some d) →
    Sim st (fGone st ns) (goneMembers Order.id st.s ns) := by
  induction ns with
  | nil => intro st h hm; exact Sim.refl' h hm
  | cons n ns ih =>
    intro st h hm
    rw [fGone_cons st n ns h.1.1.2.2, goneMembers_cons']
    have h1 := alive_sim st (aerase st.s.alive n) (printLine (.notAlive n)) h hm
    generalize fTryAppend { st with s := { st.s with alive := aerase st.s.alive n } } (printLine (.notAlive n)) = b at h1 ⊢
    generalize appendLine Order.id { st.s with alive := aerase st.s.alive n } (printLine (.notAlive n)) = r1 at h1 ⊢
    have h2 := ih b h1.fine h1.main
    rw [h1.s] at h2
    exact Sim.trans h1 h2

theorem evclock_sim (st : FSnap) (x : Nat) (h : Fine st) (hm : ∃ d, (mfs st).main = some d) :
    Sim st (fTryAppend { st with s := { st.s with lastEventClock := x } } (printLine (.eventClock x)))
      (appendLine Order.id { st.s with lastEventClock := x } (printLine (.eventClock x))) := by
  have hf1 : Fine ({ st with s := { st.s with lastEventClock := x } } : FSnap) :=
    ⟨Q_of_fields h.1 rfl rfl rfl rfl rfl rfl, h.2.1, h.2.2.1, h.2.2.2⟩
  have := fTryAppend_sim _ (printLine (.eventClock x)) hf1 hm
  exact ⟨this.s, this.fs, this.fine, this.main, this.attempted⟩

theorem qclock_sim (st : FSnap) (x : Nat) (h : Fine st) (hm : ∃ d, (mfs st).main = some d) :
    Sim st (fTryAppend { st with s := { st.s with lastQueryClock := x } } (printLine (.queryClock x)))
      (appendLine Order.id { st.s with lastQueryClock := x } (printLine (.queryClock x))) := by
  have hf1 : Fine ({ st with s := { st.s with lastQueryClock := x } } : FSnap) :=
    ⟨Q_of_fields h.1 rfl rfl rfl rfl rfl rfl, h.2.1, h.2.2.1, h.2.2.2⟩
  have := fTryAppend_sim _ (printLine (.queryClock x)) hf1 hm
  exact ⟨this.s, this.fs, this.fine, this.main, this.attempted⟩

theorem fStep_ev (st : FSnap) (e : Ev) (hp : st.panicked = false) :
    fStep st (.ev e) = (match e with
      | .join ms clk => if st.s.leaving then st else
          if (fJoin st ms).panicked then fJoin st ms else fUpdateClock (fJoin st ms) clk
      | .gone ns clk => if st.s.leaving then st else
          if (fGone st ns).panicked then fGone st ns else fUpdateClock (fGone st ns) clk
      | .memberOther clk => if st.s.leaving then st else fUpdateClock st clk
      | .user lt => if st.s.leaving then st else if lt ≤ st.s.lastEventClock then st
          else fTryAppend { st with s := { st.s with lastEventClock := lt } } (printLine (.eventClock lt))
      | .query lt => if st.s.leaving then st else if lt ≤ st.s.lastQueryClock then st
          else fTryAppend { st with s := { st.s with lastQueryClock := lt } } (printLine (.queryClock lt))
      | .clockTick clk => fUpdateClock st clk
      | .leave =>
        if (fFlush (fTryAppend (leaveState st) (printLine .leave))).panicked then fFlush (fTryAppend (leaveState st) (printLine .leave))
        else if (fFlush (fTryAppend (leaveState st) (printLine .leave))).fh then
          (doOp (fFlush (fTryAppend (leaveState st) (printLine .leave))) (.sync .main)).1
        else fFlush (fTryAppend (leaveState st) (printLine .leave))
      | .timePasses => { st with s := { st.s with flushDue := true } }
      | .forceCompact => (fCompact st).1) := by
  have hne : ¬ st.panicked = true := by rw [hp]; simp
  cases e <;> (simp only [fStep]; rw [if_neg hne])

/-- **One event, fault-free**: the fault model does what `step` does (events other than `leave`). -/
theorem fStep_sim (st : FSnap) (ev : Ev) (hne : ev ≠ .leave) (h : Fine st) (hm : ∃ d, (mfs st).main = some d) :
    Sim st (fStep st (.ev ev)) (step Order.id st.s ev) := by
  have hp : st.panicked = false := h.1.1.2.2
  rw [fStep_ev st ev hp]
  cases ev with
  | join ms clk =>
    simp only []
    rw [step_join]
    by_cases hl : st.s.leaving = true
    · rw [if_pos hl, if_pos hl]; exact Sim.refl' h hm
    · rw [if_neg hl, if_neg hl]
      have h1 := fJoin_sim ms st h hm
      have h2 := fUpdateClock_sim (fJoin st ms) clk h1.fine h1.main
      rw [h1.s] at h2
      rw [if_neg (by rw [h1.fine.1.1.2.2]; simp)]
      exact Sim.trans h1 h2
  | gone ns clk =>
    simp only []
    rw [step_gone]
    by_cases hl : st.s.leaving = true
    · rw [if_pos hl, if_pos hl]; exact Sim.refl' h hm
    · rw [if_neg hl, if_neg hl]
      have h1 := fGone_sim ns st h hm
      have h2 := fUpdateClock_sim (fGone st ns) clk h1.fine h1.main
      rw [h1.s] at h2
      rw [if_neg (by rw [h1.fine.1.1.2.2]; simp)]
      exact Sim.trans h1 h2
  | memberOther clk =>
    simp only []
    rw [step_memberOther]
    by_cases hl : st.s.leaving = true
    · rw [if_pos hl, if_pos hl]; exact Sim.refl' h hm
    · rw [if_neg hl, if_neg hl]
      exact fUpdateClock_sim st clk h hm
  | user lt =>
    simp only []
    have hstep : step Order.id st.s (.user lt) = if st.s.leaving then (st.s, []) else if lt ≤ st.s.lastEventClock then (st.s, [])
        else appendLine Order.id { st.s with lastEventClock := lt } (printLine (.eventClock lt)) := rfl
    rw [hstep]
    by_cases hl : st.s.leaving = true
    · rw [if_pos hl, if_pos hl]; exact Sim.refl' h hm
    · rw [if_neg hl, if_neg hl]
      by_cases hle : lt ≤ st.s.lastEventClock
      · rw [if_pos hle, if_pos hle]; exact Sim.refl' h hm
      · rw [if_neg hle, if_neg hle]
        exact evclock_sim st lt h hm
  | query lt =>
    simp only []
    have hstep : step Order.id st.s (.query lt) = if st.s.leaving then (st.s, []) else if lt ≤ st.s.lastQueryClock then (st.s, [])
        else appendLine Order.id { st.s with lastQueryClock := lt } (printLine (.queryClock lt)) := rfl
    rw [hstep]
    by_cases hl : st.s.leaving = true
    · rw [if_pos hl, if_pos hl]; exact Sim.refl' h hm
    · rw [if_neg hl, if_neg hl]
      by_cases hle : lt ≤ st.s.lastQueryClock
      · rw [if_pos hle, if_pos hle]; exact Sim.refl' h hm
      · rw [if_neg hle, if_neg hle]
        exact qclock_sim st lt h hm
  | clockTick clk =>
    simp only []
    rw [step_clockTick]
    exact fUpdateClock_sim st clk h hm
  | leave => exact absurd rfl hne
  | timePasses =>
    simp only []
    exact ⟨rfl, rfl, ⟨Q_of_fields h.1 rfl rfl rfl rfl rfl rfl, h.2.1, h.2.2.1, h.2.2.2⟩, hm, rfl⟩
  | forceCompact =>
    simp only []
    rw [step_forceCompact]
    obtain ⟨d, hd⟩ := hm
    obtain ⟨c1, c2, c3, c4, c5⟩ := fCompact_sim st h.1
    exact ⟨c3, by rw [c4]; exact (compact_result_fs Order.id _ _ d hd).symm, c2, ⟨_, by rw [c4]⟩, c5⟩

theorem fRun_sim (evs : List Ev) : ∀ (st : FSnap), Ev.leave ∉ evs → Fine st → (∃ d, (mfs st).main = some d) →
    Sim st (fRun st (evs.map .ev)) (run Order.id st.s evs) := by
  induction evs with
  | nil => intro st _ h hm; exact Sim.refl' h hm
  | cons e es ih =>
    intro st hn h hm
    simp only [List.mem_cons, not_or] at hn
    have h1 := fStep_sim st e (fun x => hn.1 x.symm) h hm
    have h2 := ih _ hn.2 h1.fine h1.main
    rw [h1.s] at h2
    rw [run_cons]
    simp only [List.map_cons, fRun]
    exact Sim.trans h1 h2

theorem fShutdown_eq (st : FSnap) (clk : Nat) (hp : st.panicked = false) :
    fShutdown st clk =
      (if (fFlush (fUpdateClock st clk)).panicked then fFlush (fUpdateClock st clk) else
        if (if (fFlush (fUpdateClock st clk)).fh then (doOp (fFlush (fUpdateClock st clk)) (.sync .main)).1
            else fFlush (fUpdateClock st clk)).fh then
          (doOp (if (fFlush (fUpdateClock st clk)).fh then (doOp (fFlush (fUpdateClock st clk)) (.sync .main)).1
            else fFlush (fUpdateClock st clk)) (.close .main)).1
        else (if (fFlush (fUpdateClock st clk)).fh then (doOp (fFlush (fUpdateClock st clk)) (.sync .main)).1
            else fFlush (fUpdateClock st clk))) := by
  have hne : ¬ st.panicked = true := by rw [hp]; simp
  unfold fShutdown
  rw [if_neg hne]

theorem shutdown_tail_sim (b2 : FSnap) (h : Fine b2) (hm : ∃ d, (mfs b2).main = some d) :
    Sim b2 (doOp (doOp b2 (.sync .main)).1 (.close .main)).1 (b2.s, [.sync .main, .close .main]) := by
  have e1 := doOp_eff b2 (.sync .main) h.1
  have e2 := doOp_eff (doOp b2 (.sync .main)).1 (.close .main) e1.2.q
  have e := e1.2.trans e2.2
  obtain ⟨d, hd⟩ := hm
  exact ⟨e.s, e.fs, h.of_eff e, ⟨d, by rw [e.fs]; simpa [FS.applyAll, FS.apply] using hd⟩, e.attempted⟩

theorem shutdown_pair (ord : Order) (s : Snap) (clk : Nat) :
    shutdown ord s clk = ({ (updateClock ord s clk).1 with buf := [] },
      (updateClock ord s clk).2 ++ flushOps .main (updateClock ord s clk).1.buf ++ [.sync .main, .close .main]) := rfl

theorem shutdown_fst' (ord : Order) (s : Snap) (clk : Nat) :
    (shutdown ord s clk).1 = { (updateClock ord s clk).1 with buf := [] } := rfl
theorem shutdown_snd' (ord : Order) (s : Snap) (clk : Nat) :
    (shutdown ord s clk).2 = (updateClock ord s clk).2 ++ flushOps .main (updateClock ord s clk).1.buf ++ [.sync .main, .close .main] := rfl

/-- **Shutdown, fault-free**: the fault model does what `shutdown` does. -/
theorem sim_shutdown_assemble (st b1 b2 x : FSnap) (u : Snap × List FsOp) (h1 : Sim st b1 u)
    (h2 : Sim b1 b2 ({ u.1 with buf := [] }, flushOps .main u.1.buf))
    (h3 : Sim b2 x (b2.s, [.sync .main, .close .main])) :
    Sim st x ({ u.1 with buf := [] }, u.2 ++ flushOps .main u.1.buf ++ [.sync .main, .close .main]) :=
  ⟨h3.s.trans h2.s, by rw [h3.fs, h2.fs, h1.fs, ← applyAll_append, ← applyAll_append]; simp only [List.append_assoc], h3.fine, h3.main,
    h3.attempted.trans (h2.attempted.trans h1.attempted)⟩

theorem fShutdown_sim (st : FSnap) (clk : Nat) (h : Fine st) (hm : ∃ d, (mfs st).main = some d) :
    Sim st (fShutdown st clk) (shutdown Order.id st.s clk) := by
  rw [fShutdown_eq st clk h.1.1.2.2, shutdown_pair]
  have h1 := fUpdateClock_sim st clk h hm
  generalize fUpdateClock st clk = b1 at h1 ⊢
  generalize updateClock Order.id st.s clk = u at h1 ⊢
  have h2 := fFlush_sim b1 h1.fine h1.main
  rw [h1.s] at h2
  generalize fFlush b1 = b2 at h2 ⊢
  have hp2 : ¬ b2.panicked = true := by rw [h2.fine.1.1.2.2]; simp
  have hfh : b2.fh = true := h2.fine.2.2.2
  rw [if_neg hp2, if_pos hfh]
  have e1 := doOp_eff b2 (.sync .main) h2.fine.1
  have hfh2 : (doOp b2 (.sync .main)).1.fh = true := e1.2.fh.trans hfh
  rw [if_pos hfh2]
  have h3 := shutdown_tail_sim b2 h2.fine h2.main
  exact sim_shutdown_assemble st b1 b2 _ u h1 h2 h3

theorem compact_fields (ord : Order) (s : Snap) :
    (compact ord s).1.rejoin = s.rejoin ∧ (compact ord s).1.leaving = s.leaving := ⟨rfl, rfl⟩

/-- **Recording resumes.** Let `st` be any state of the faulty run in which the single fault
lies in the past (`Q`), with a well-formed memory and no leave in progress.  After the next
compaction from `st` (the recovery compaction `tryAppend` starts, or any later one), for every
further history `evs` and shutdown: no panic, and a restart from the file recovers exactly the
state the node has in memory at that shutdown (rejoin map as a map; the three clocks). -/
theorem resumes_after_compaction (st : FSnap) (hq : Q st) (hwf : WFRec st.s.mem) (hl : st.s.leaving = false)
    (evs : List Ev) (clk : Nat) (hw : ∀ e ∈ evs, WFEv e) (hnl : Ev.leave ∉ evs) :
    (fShutdown (fRun (fCompact st).1 (evs.map .ev)) clk).panicked = false ∧
    MapEq (recover st.s.rejoin (mfs (fShutdown (fRun (fCompact st).1 (evs.map .ev)) clk))).alive
      (fShutdown (fRun (fCompact st).1 (evs.map .ev)) clk).s.alive ∧
    (akeys (fShutdown (fRun (fCompact st).1 (evs.map .ev)) clk).s.alive).Nodup ∧
    (recover st.s.rejoin (mfs (fShutdown (fRun (fCompact st).1 (evs.map .ev)) clk))).clock =
      (fShutdown (fRun (fCompact st).1 (evs.map .ev)) clk).s.lastClock ∧
    (recover st.s.rejoin (mfs (fShutdown (fRun (fCompact st).1 (evs.map .ev)) clk))).eventClock =
      (fShutdown (fRun (fCompact st).1 (evs.map .ev)) clk).s.lastEventClock ∧
    (recover st.s.rejoin (mfs (fShutdown (fRun (fCompact st).1 (evs.map .ev)) clk))).queryClock =
      (fShutdown (fRun (fCompact st).1 (evs.map .ev)) clk).s.lastQueryClock := by
  obtain ⟨hfine, hinv⟩ := fCompact_restores st hq hwf
  obtain ⟨_, _, hs2, _, _⟩ := fCompact_sim st hq
  generalize (fCompact st).1 = st2 at hfine hinv hs2 ⊢
  have hm : ∃ d, (mfs st2).main = some d := by obtain ⟨d, hd, _⟩ := hinv; exact ⟨d, hd⟩
  have hrj : st2.s.rejoin = st.s.rejoin := by rw [hs2]; exact (compact_fields _ _).1
  have hl2 : st2.s.leaving = false := by rw [hs2]; exact (compact_fields _ _).2.trans hl
  have h1 := fRun_sim evs st2 hnl hfine hm
  generalize fRun st2 (evs.map .ev) = b at h1 ⊢
  have h2 := fShutdown_sim b clk h1.fine h1.main
  rw [h1.s] at h2
  generalize fShutdown b clk = fin at h2 ⊢
  have key := restore_generic Order.id (fun _ m => List.Perm.refl m) st2.s (mfs st2) hinv hl2 evs clk hw hnl
  rw [hrj] at key
  have hfs : mfs fin = ((mfs st2).applyAll (run Order.id st2.s evs).2).applyAll (shutdown Order.id (run Order.id st2.s evs).1 clk).2 := by
    rw [h2.fs, h1.fs]
  rw [hfs, h2.s]
  exact ⟨h2.fine.1.1.2.2, key⟩

end SerfProofs.SnapshotFault
