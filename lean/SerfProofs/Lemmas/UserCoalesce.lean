import SerfModel.Model.UserCoalesce
import SerfProofs.Lemmas.Assoc
namespace SerfProofs.UserCoalesce
open SerfModel SerfModel.UserCoalesce

/-! ### maxLt / newest -/

theorem maxLt_append_single (p : List UserEv) (e : UserEv) (n : String) :
    maxLt (p ++ [e]) n = if e.name == n then max (maxLt p n) e.lt else maxLt p n := by
  simp [maxLt, List.foldl_append]

private theorem foldl_max_ge (n : String) (p : List UserEv) : ∀ a : Nat,
    a ≤ p.foldl (fun acc e => if e.name == n then max acc e.lt else acc) a ∧
    ∀ x ∈ p, x.name = n → x.lt ≤ p.foldl (fun acc e => if e.name == n then max acc e.lt else acc) a := by
  induction p with
  | nil => intro a; simp
  | cons y p ih =>
    intro a
    simp only [List.foldl_cons]
    by_cases hy : y.name == n
    · simp only [hy, ↓reduceIte]
      obtain ⟨h1, h2⟩ := ih (max a y.lt)
      refine ⟨by omega, ?_⟩
      intro x hx hxn
      rcases List.mem_cons.mp hx with rfl | hx
      · omega
      · exact h2 x hx hxn
    · simp only [hy, Bool.false_eq_true, ↓reduceIte]
      obtain ⟨h1, h2⟩ := ih a
      refine ⟨h1, ?_⟩
      intro x hx hxn
      rcases List.mem_cons.mp hx with rfl | hx
      · exact absurd (by simp [hxn]) hy
      · exact h2 x hx hxn

theorem le_maxLt {p : List UserEv} {x : UserEv} {n : String} (hx : x ∈ p) (hn : x.name = n) :
    x.lt ≤ maxLt p n := (foldl_max_ge n p 0).2 x hx hn

theorem maxLt_of_no_name (p : List UserEv) (n : String) (h : p.any (·.name == n) = false) : maxLt p n = 0 := by
  unfold maxLt
  induction p with
  | nil => rfl
  | cons y p ih =>
    simp only [List.any_cons, Bool.or_eq_false_iff] at h
    simp only [List.foldl_cons, h.1, Bool.false_eq_true, ↓reduceIte]
    exact ih h.2

theorem newest_of_no_name (p : List UserEv) (n : String) (h : p.any (·.name == n) = false) : newest p n = [] := by
  unfold newest
  rw [List.filter_eq_nil_iff]
  intro x hx
  have : (x.name == n) = false := by
    rw [List.any_eq_false] at h
    simpa using h x hx
  simp [this]

theorem newest_name {p : List UserEv} {n : String} {x : UserEv} (h : x ∈ newest p n) : x.name = n := by
  unfold newest at h
  have := (List.mem_filter.mp h).2
  simp only [Bool.and_eq_true, beq_iff_eq] at this
  exact this.1

theorem newest_append_ne (p : List UserEv) (e : UserEv) (n : String) (h : (e.name == n) = false) :
    newest (p ++ [e]) n = newest p n := by
  unfold newest
  rw [maxLt_append_single]
  simp [h, List.filter_append]

/-- the new event is strictly newer: it replaces everything stored for its name -/
theorem newest_append_lt (p : List UserEv) (e : UserEv) (h : maxLt p e.name < e.lt) :
    newest (p ++ [e]) e.name = [e] := by
  unfold newest
  rw [maxLt_append_single]
  have hm : max (maxLt p e.name) e.lt = e.lt := by omega
  simp only [beq_self_eq_true, ↓reduceIte, hm, List.filter_append, Bool.true_and]
  have : p.filter (fun x => x.name == e.name && x.lt == e.lt) = [] := by
    rw [List.filter_eq_nil_iff]
    intro x hx hc
    simp only [Bool.and_eq_true, beq_iff_eq] at hc
    have := le_maxLt hx hc.1
    omega
  rw [this]
  simp

/-- same age: appended -/
theorem newest_append_eq (p : List UserEv) (e : UserEv) (h : maxLt p e.name = e.lt) :
    newest (p ++ [e]) e.name = newest p e.name ++ [e] := by
  unfold newest
  rw [maxLt_append_single]
  have hm : max (maxLt p e.name) e.lt = maxLt p e.name := by omega
  simp only [beq_self_eq_true, ↓reduceIte, hm, List.filter_append]
  simp [h]

/-- older: ignored -/
theorem newest_append_gt (p : List UserEv) (e : UserEv) (h : e.lt < maxLt p e.name) :
    newest (p ++ [e]) e.name = newest p e.name := by
  unfold newest
  rw [maxLt_append_single]
  have hm : max (maxLt p e.name) e.lt = maxLt p e.name := by omega
  simp only [beq_self_eq_true, ↓reduceIte, hm, List.filter_append]
  have : ¬ (e.lt = maxLt p e.name) := by omega
  simp [this]

/-! ### The coalescer state represents the history since the last flush -/

/-- `c` holds, for every name seen in `p`, the highest time and the newest events. -/
def Rep (c : UC) (p : List UserEv) : Prop :=
  (akeys c).Nodup ∧
  ∀ n, alookup c n = if p.any (·.name == n) then some (maxLt p n, newest p n) else none

theorem Rep.nil : Rep [] [] := ⟨by simp [akeys], by simp⟩

theorem any_append_single (p : List UserEv) (e : UserEv) (n : String) :
    (p ++ [e]).any (·.name == n) = (p.any (·.name == n) || e.name == n) := by
  simp [List.any_append]

theorem Rep.step {c : UC} {p : List UserEv} (h : Rep c p) (e : UserEv) : Rep (coalesce c e) (p ++ [e]) := by
  obtain ⟨hnd, hl⟩ := h
  have hle := hl e.name
  refine ⟨?_, ?_⟩
  · unfold coalesce
    split
    · exact akeys_ainsert_nodup _ _ _ hnd
    · split
      · exact akeys_ainsert_nodup _ _ _ hnd
      · split
        · exact akeys_ainsert_nodup _ _ _ hnd
        · exact hnd
  · intro n
    rw [any_append_single]
    by_cases hn : e.name == n
    · have hn' : e.name = n := eq_of_beq hn
      subst hn'
      simp only [beq_self_eq_true, Bool.or_true, ↓reduceIte]
      unfold coalesce
      cases hc : alookup c e.name with
      | none =>
        simp only
        rw [hc] at hle
        have hany : p.any (·.name == e.name) = false := by
          cases ha : p.any (·.name == e.name) with
          | false => rfl
          | true => simp [ha] at hle
        rw [alookup_ainsert_self, maxLt_append_single]
        have h0 := maxLt_of_no_name p e.name hany
        have hnw := newest_append_lt p e
        simp only [beq_self_eq_true, ↓reduceIte, h0, Nat.zero_max]
        by_cases hz : 0 < e.lt
        · rw [hnw (by omega)]
        · -- e.lt = 0 and nothing stored: the event is still the (only) newest one
          have hz' : e.lt = 0 := by omega
          have := newest_append_eq p e (by omega)
          rw [this, newest_of_no_name p e.name hany]
          simp
      | some v =>
        obtain ⟨lt, evs⟩ := v
        rw [hc] at hle
        have hany : p.any (·.name == e.name) = true := by
          cases ha : p.any (·.name == e.name) with
          | true => rfl
          | false => simp [ha] at hle
        simp only [hany, ↓reduceIte, Option.some.injEq, Prod.mk.injEq] at hle
        obtain ⟨hlt, hevs⟩ := hle
        simp only
        rw [maxLt_append_single]
        simp only [beq_self_eq_true, ↓reduceIte]
        by_cases h1 : lt < e.lt
        · simp only [h1, ↓reduceIte]
          rw [alookup_ainsert_self, newest_append_lt p e (by omega)]
          have : max (maxLt p e.name) e.lt = e.lt := by omega
          rw [this]
        · simp only [h1, ↓reduceIte]
          by_cases h2 : lt = e.lt
          · simp only [h2, ↓reduceIte]
            rw [alookup_ainsert_self, newest_append_eq p e (by omega)]
            have : max (maxLt p e.name) e.lt = e.lt := by omega
            rw [this, hevs]
          · simp only [h2, ↓reduceIte]
            rw [hc, newest_append_gt p e (by omega)]
            have : max (maxLt p e.name) e.lt = lt := by omega
            rw [this, hevs]
    · have hn' : (e.name == n) = false := by simpa using hn
      have hne : n ≠ e.name := by intro h; rw [h] at hn; simp at hn
      simp only [hn', Bool.or_false]
      rw [newest_append_ne p e n hn', maxLt_append_single]
      simp only [hn', Bool.false_eq_true, ↓reduceIte]
      rw [← hl n]
      unfold coalesce
      split
      · exact alookup_ainsert_ne _ _ _ _ hne
      · split
        · exact alookup_ainsert_ne _ _ _ _ hne
        · split
          · exact alookup_ainsert_ne _ _ _ _ hne
          · rfl

theorem Rep.fold (q : List UserEv) : ∀ (c : UC) (p : List UserEv), Rep c p → Rep (q.foldl coalesce c) (p ++ q) := by
  induction q with
  | nil => intro c p h; simpa using h
  | cons e q ih =>
    intro c p h
    have := ih (coalesce c e) (p ++ [e]) (h.step e)
    simpa using this

/-- What `Flush` sends for one name is exactly the slice stored for that name. -/
theorem flatMap_filter_name (l : UC) (hnd : (akeys l).Nodup)
    (hnames : ∀ k lt evs, (k, (lt, evs)) ∈ l → ∀ x ∈ evs, x.name = k) (n : String) :
    (l.flatMap (·.2.2)).filter (·.name == n) = ((alookup l n).map (·.2)).getD [] := by
  induction l with
  | nil => simp
  | cons a rest ih =>
    obtain ⟨k, lt, evs⟩ := a
    simp only [akeys, List.map_cons, List.nodup_cons] at hnd
    have hrest := ih hnd.2 (fun k' lt' evs' hm => hnames k' lt' evs' (List.mem_cons_of_mem _ hm))
    have hev : ∀ x ∈ evs, x.name = k := hnames k lt evs List.mem_cons_self
    simp only [List.flatMap_cons, List.filter_append, alookup_cons]
    by_cases hk : k == n
    · have hk' : k = n := eq_of_beq hk
      have hnone : alookup rest n = none := by
        rw [alookup_eq_none_iff]; rw [← hk']; exact hnd.1
      rw [hrest, hnone]
      simp only [hk, ↓reduceIte, Option.map_some, Option.getD_some, Option.map_none, Option.getD_none,
        List.append_nil]
      rw [List.filter_eq_self]
      intro x hx
      simp [hev x hx, hk']
    · simp only [hk, Bool.false_eq_true, ↓reduceIte]
      rw [hrest]
      have : evs.filter (·.name == n) = [] := by
        rw [List.filter_eq_nil_iff]
        intro x hx hc
        apply hk
        rw [← hev x hx]
        exact hc
      rw [this]
      simp

theorem Rep.flush_filter {c : UC} {p : List UserEv} (h : Rep c p) (n : String) :
    (flush c).2.filter (·.name == n) = newest p n := by
  obtain ⟨hnd, hl⟩ := h
  unfold flush
  simp only
  rw [flatMap_filter_name c hnd ?_ n]
  · rw [hl n]
    by_cases ha : p.any (·.name == n)
    · simp [ha]
    · have ha' : p.any (·.name == n) = false := by simpa using ha
      rw [newest_of_no_name p n ha']
      simp [ha']
  · intro k lt evs hm x hx
    have hlk := alookup_of_mem_nodup hnd hm
    rw [hl k] at hlk
    by_cases ha : p.any (·.name == k)
    · simp only [ha, ↓reduceIte, Option.some.injEq, Prod.mk.injEq] at hlk
      rw [← hlk.2] at hx
      exact newest_name hx
    · simp [ha] at hlk

end SerfProofs.UserCoalesce
