import SerfModel.Model.LogWriters
namespace SerfProofs.GatedWriter
open SerfModel SerfModel.LogWriters

/-- The skeleton the theorems need: both methods run entirely under the exclusive lock. -/
def Good (sk : Skeleton) : Prop := sk.write.wholeBodyExclusive = true ∧ sk.flush.wholeBodyExclusive = true

/-- Writes of a program, as lines of thread `t`. -/
def writesOf (t : Nat) (ops : List Op) : List Line :=
  ops.filterMap fun o => match o with | .write x => some ⟨t, x⟩ | .flush => none

structure Inv (progs : List (List Op)) (s : Sys) : Prop where
  gate : (s.flush = false → s.out = [] ∧ s.buf = s.hist) ∧ (s.flush = true → s.buf = [] ∧ s.out = s.hist)
  len : s.threads.length = progs.length
  idle : ∀ (t : Nat) (th : Thr), s.threads[t]? = some th → th.mid = Mid.idle
  perThread : ∀ (t : Nat) (th : Thr), s.threads[t]? = some th →
    s.hist.filter (fun l => l.tid == t) = th.done ∧ th.done ++ writesOf t th.todo = writesOf t (progs.getD t [])
  tids : ∀ l ∈ s.hist, l.tid < progs.length

theorem Inv.init (progs : List (List Op)) : Inv progs (Sys.init progs) := by
  refine ⟨by simp [Sys.init], by simp [Sys.init], ?_, ?_, by simp [Sys.init]⟩
  · intro t th h
    simp only [Sys.init, List.getElem?_map] at h
    cases hp : progs[t]? <;> simp [hp] at h
    subst h; rfl
  · intro t th h
    simp only [Sys.init, List.getElem?_map] at h
    cases hp : progs[t]? <;> simp [hp] at h
    subst h
    simp [Sys.init, List.getD, hp]

theorem getElem?_set_cases {α} (l : List α) (i j : Nat) (a x : α) (h : (l.set i a)[j]? = some x) :
    (j = i ∧ x = a ∧ i < l.length) ∨ (j ≠ i ∧ l[j]? = some x) := by
  by_cases hij : i = j
  · subst hij
    rw [List.getElem?_set_self'] at h
    cases hl : l[i]? with
    | none => simp [hl] at h
    | some y =>
      simp [hl] at h
      have : i < l.length := by
        rcases List.getElem?_eq_some_iff.mp hl with ⟨hlt, _⟩; exact hlt
      exact Or.inl ⟨rfl, h.symm, this⟩
  · rw [List.getElem?_set_ne hij] at h
    exact Or.inr ⟨fun e => hij e.symm, h⟩

theorem step_inv (sk : Skeleton) (hg : Good sk) (progs : List (List Op)) (s : Sys) (t : Nat)
    (h : Inv progs s) : Inv progs (step sk s t) := by
  unfold step
  cases hth : s.threads[t]? with
  | none => exact h
  | some th =>
    have hidle := h.idle t th hth
    have htlt : t < progs.length := by
      rw [← h.len]; exact (List.getElem?_eq_some_iff.mp hth).1
    obtain ⟨hp1, hp2⟩ := h.perThread t th hth
    obtain ⟨mid, todo, done⟩ := th
    simp only at hidle hp1 hp2
    subst hidle
    simp only
    cases htodo : todo with
    | nil => exact h
    | cons op rest =>
      cases op with
      | write text =>
        simp only [hg.1, ↓reduceIte]
        have hdone : ∀ (s' : Sys), s'.hist = s.hist ++ [⟨t, text⟩] →
            s'.threads = s.threads.set t { mid := .idle, todo := rest, done := done ++ [⟨t, text⟩] } →
            (s'.flush = false → s'.out = [] ∧ s'.buf = s'.hist) ∧ (s'.flush = true → s'.buf = [] ∧ s'.out = s'.hist) →
            Inv progs s' := by
          intro s' hh ht hgate
          refine ⟨hgate, by rw [ht, List.length_set]; exact h.len, ?_, ?_, ?_⟩
          · intro j thj hj
            rw [ht] at hj
            rcases getElem?_set_cases _ _ _ _ _ hj with ⟨_, rfl, _⟩ | ⟨_, hj'⟩
            · rfl
            · exact h.idle j thj hj'
          · intro j thj hj
            rw [ht] at hj
            rw [hh, List.filter_append]
            rcases getElem?_set_cases _ _ _ _ _ hj with ⟨rfl, rfl, _⟩ | ⟨hne, hj'⟩
            · simp only [List.filter_cons, beq_self_eq_true, ↓reduceIte, List.filter_nil, hp1, true_and]
              rw [← hp2, htodo]
              simp [writesOf]
            · obtain ⟨q1, q2⟩ := h.perThread j thj hj'
              have : (t == j) = false := by simp; exact fun e => hne e.symm
              simp [this, q1, q2]
          · intro l hl
            rw [hh] at hl
            rcases List.mem_append.mp hl with hl | hl
            · exact h.tids l hl
            · simp at hl; subst hl; exact htlt
        by_cases hf : s.flush
        · simp only [hf, ↓reduceIte]
          apply hdone _ rfl rfl
          simp only [hf, Bool.true_eq_false, false_implies, true_and, forall_const]
          obtain ⟨hb, ho⟩ := h.gate.2 hf
          exact ⟨hb, by rw [ho]⟩
        · simp only [hf, Bool.false_eq_true, ↓reduceIte]
          apply hdone _ rfl rfl
          have hf' : s.flush = false := by simpa using hf
          simp only [hf', Bool.false_eq_true, false_implies, and_true, forall_const]
          obtain ⟨ho, hb⟩ := h.gate.1 hf'
          exact ⟨ho, by rw [hb]⟩
      | flush =>
        simp only [hg.2, ↓reduceIte]
        refine ⟨?_, by simp only [List.length_set]; exact h.len, ?_, ?_, h.tids⟩
        · simp only [Bool.true_eq_false, false_implies, forall_const, true_and]
          by_cases hf : s.flush
          · obtain ⟨hb, ho⟩ := h.gate.2 hf
            simp [hb, ho]
          · have hf' : s.flush = false := by simpa using hf
            obtain ⟨ho, hb⟩ := h.gate.1 hf'
            simp [hb, ho]
        · intro j thj hj
          rcases getElem?_set_cases _ _ _ _ _ hj with ⟨_, rfl, _⟩ | ⟨_, hj'⟩
          · rfl
          · exact h.idle j thj hj'
        · intro j thj hj
          rcases getElem?_set_cases _ _ _ _ _ hj with ⟨rfl, rfl, _⟩ | ⟨hne, hj'⟩
          · refine ⟨hp1, ?_⟩
            rw [← hp2, htodo]
            simp [writesOf]
          · exact h.perThread j thj hj'

theorem run_inv (sk : Skeleton) (hg : Good sk) (progs : List (List Op)) (sched : List Nat) :
    ∀ s, Inv progs s → Inv progs (run sk s sched) := by
  induction sched with
  | nil => intro s h; exact h
  | cons t rest ih => intro s h; exact ih _ (step_inv sk hg progs s t h)

end SerfProofs.GatedWriter
