/-
Helper lemmas for C05 / C08: arithmetic of the too-old guard and the slot index,
the eviction lemma, and the de-dup buffer invariant with its preservation by
`handle`, by the push/pull prelude and by whole histories.
-/
import SerfModel.Model.EventBuf
import SerfProofs.Props.C19
namespace SerfProofs.EventBuf
open SerfModel.Atomic SerfModel.EventBuf

/-- 2^64 − 1, the one Lamport time `Witness` cannot move past. -/
def maxW : W := BitVec.allOnes 64

/-- The generated `Witness`, in closed form (proved in C19 about the generated program). -/
theorem witness_eq (cur v : W) : witness cur v = if v < cur then cur else v + 1#64 :=
  SerfProofs.C19.witnessSeq_eq cur v

theorem maxW_toNat {v : W} (hv : v ≠ maxW) : v.toNat ≠ 2 ^ 64 - 1 := by
  intro h; apply hv; apply BitVec.eq_of_toNat_eq; simp [maxW, h]

/-- Without the wrap, witnessing never moves the clock back and moves it past the value. -/
theorem witness_nat (cur v : W) (hv : v ≠ maxW) :
    cur.toNat ≤ (witness cur v).toNat ∧ v.toNat < (witness cur v).toNat := by
  rw [witness_eq]
  have := maxW_toNat hv
  by_cases h : v < cur <;> simp only [h, ↓reduceIte] <;> constructor <;> bv_omega

theorem nW_toNat {N : Nat} (hN : N < 2 ^ 64) : (nW N).toNat = N := by
  simp [nW, Nat.mod_eq_of_lt hN]

/-- The too-old guard in natural numbers: `cur > N ∧ lt < cur − N ↔ lt + N < cur`. -/
theorem tooOld_iff {N : Nat} (hN : N < 2 ^ 64) (cur lt : W) :
    tooOld N cur lt = true ↔ lt.toNat + N < cur.toNat := by
  unfold tooOld
  have hn := nW_toNat hN
  generalize nW N = n at hn
  simp only [decide_eq_true_eq]
  constructor
  · intro h; bv_omega
  · intro h; constructor <;> bv_omega

theorem slotIdx_eq {N : Nat} (hN : N < 2 ^ 64) (lt : W) : slotIdx N lt = lt.toNat % N := by
  simp [slotIdx, BitVec.toNat_umod, nW_toNat hN]

/-- **Eviction lemma**: two different times of the same slot are at least a whole
buffer apart. -/
theorem evict {N a b : Nat} (h : a % N = b % N) (hlt : a < b) : a + N ≤ b := by
  have h0 : (b - a) % N = 0 := Nat.sub_mod_eq_zero_of_mod_eq h.symm
  have hd := Nat.dvd_of_mod_eq_zero h0
  have := Nat.le_of_dvd (by omega) hd
  omega

section seenAt
variable {α : Type}

theorem seenAt_set_same (slots : List (Option (W × List α))) (idx : Nat) (lt : W) (ys : List α)
    (h : idx < slots.length) : seenAt (slots.set idx (some (lt, ys))) idx lt = ys := by
  simp [seenAt, h]

theorem seenAt_set_other (slots : List (Option (W × List α))) (idx : Nat) (lt u : W) (ys : List α)
    (h : idx < slots.length) (hne : lt ≠ u) : seenAt (slots.set idx (some (lt, ys))) idx u = [] := by
  simp [seenAt, h, hne]

theorem seenAt_set_ne (slots : List (Option (W × List α))) (idx j : Nat) (u : W) (v : Option (W × List α))
    (hne : idx ≠ j) : seenAt (slots.set idx v) j u = seenAt slots j u := by
  simp [seenAt, hne]

theorem slot_of_mem_seenAt (slots : List (Option (W × List α))) (i : Nat) (u : W) (x : α)
    (h : x ∈ seenAt slots i u) : slots[i]? = some (some (u, seenAt slots i u)) := by
  unfold seenAt at h ⊢
  cases hs : slots[i]? with
  | none => simp [hs] at h
  | some o =>
    cases o with
    | none => simp [hs] at h
    | some p =>
      obtain ⟨t, xs⟩ := p
      by_cases ht : t = u
      · simp [ht]
      · simp [hs, ht] at h

theorem seenAt_of_slot (slots : List (Option (W × List α))) (i : Nat) (u : W) (xs : List α)
    (h : slots[i]? = some (some (u, xs))) : seenAt slots i u = xs := by
  simp [seenAt, h]

end seenAt

/-- The buffer invariant, relative to the list `D` of everything delivered so far. -/
structure Inv {α : Type} (b : Buf α) (D : List (W × α)) : Prop where
  /-- nothing was delivered twice -/
  nodup : D.Nodup
  /-- every delivered event has a time below the clock -/
  below : ∀ p ∈ D, p.1.toNat < b.clock.toNat
  /-- every delivered event that is not yet too old sits in its slot -/
  inSlot : ∀ p ∈ D, ¬ (p.1.toNat + b.slots.length < b.clock.toNat) →
    p.2 ∈ seenAt b.slots (p.1.toNat % b.slots.length) p.1
  /-- everything in a slot was delivered -/
  slotsIn : ∀ (i : Nat) (t : W) (xs : List α), b.slots[i]? = some (some (t, xs)) → ∀ x ∈ xs, (t, x) ∈ D

variable {α : Type}

theorem Inv.start (N : Nat) (c m : W) : Inv (Buf.start (α := α) N c m) [] := by
  refine ⟨List.nodup_nil, ?_, ?_, ?_⟩
  · intro p hp; cases hp
  · intro p hp; cases hp
  · intro i t xs h
    simp only [Buf.start, List.getElem?_replicate] at h
    split at h <;> simp at h

/-- Advancing the clock (and changing the cut-off) keeps the invariant. -/
theorem Inv.mono {b : Buf α} {D : List (W × α)} (h : Inv b D) (c m : W) (hc : b.clock.toNat ≤ c.toNat) :
    Inv { b with clock := c, minTime := m } D := by
  refine ⟨h.nodup, ?_, ?_, h.slotsIn⟩
  · intro p hp; have := h.below p hp; simp only; omega
  · intro p hp hno
    apply h.inSlot p hp
    simp only at hno
    omega

theorem handle_inv [DecidableEq α] (b : Buf α) (D : List (W × α)) (lt : W) (x : α)
    (hN : 0 < b.slots.length) (hN2 : b.slots.length < 2 ^ 64) (hlt : lt ≠ maxW) (h : Inv b D) :
    Inv (handle b lt x).1 (if (handle b lt x).2 = .delivered then D ++ [(lt, x)] else D)
    ∧ (handle b lt x).1.slots.length = b.slots.length := by
  obtain ⟨hw1, hw2⟩ := witness_nat b.clock lt hlt
  have hmono := fun m => h.mono (witness b.clock lt) m hw1
  unfold handle
  simp only
  by_cases h1 : lt < b.minTime
  · simp only [h1, ↓reduceIte]
    exact ⟨by simpa using hmono b.minTime, trivial⟩
  simp only [h1, ↓reduceIte]
  by_cases h2 : tooOld b.slots.length (witness b.clock lt) lt = true
  · simp only [h2, ↓reduceIte]
    exact ⟨by simpa using hmono b.minTime, trivial⟩
  simp only [h2, Bool.false_eq_true, ↓reduceIte]
  rw [tooOld_iff hN2] at h2
  rw [slotIdx_eq hN2]
  by_cases h3 : x ∈ seenAt b.slots (lt.toNat % b.slots.length) lt
  · simp only [h3, ↓reduceIte]
    exact ⟨by simpa using hmono b.minTime, trivial⟩
  simp only [h3, ↓reduceIte]
  have hidx : lt.toNat % b.slots.length < b.slots.length := Nat.mod_lt _ hN
  refine ⟨⟨?_, ?_, ?_, ?_⟩, by simp⟩
  · -- nodup
    rw [List.nodup_append]
    refine ⟨h.nodup, by simp, ?_⟩
    intro a ha c hc
    simp only [List.mem_singleton] at hc
    subst hc
    intro hEq
    subst hEq
    exact h3 (h.inSlot _ ha (by simp only; omega))
  · -- below
    intro p hp
    simp only [List.mem_append, List.mem_singleton] at hp
    rcases hp with hp | hp
    · have := h.below p hp; simp only; omega
    · subst hp; simpa using hw2
  · -- inSlot
    intro p hp hno
    simp only [List.length_set] at hno ⊢
    simp only [List.mem_append, List.mem_singleton] at hp
    rcases hp with hp | hp
    · have hpb := h.below p hp
      have hold := h.inSlot p hp (by omega)
      by_cases hj : lt.toNat % b.slots.length = p.1.toNat % b.slots.length
      · by_cases ht : lt = p.1
        · rw [← hj, ← ht, seenAt_set_same _ _ _ _ hidx]
          rw [← hj, ← ht] at hold
          exact List.mem_append_left _ hold
        · exfalso
          have hne : lt.toNat ≠ p.1.toNat := fun e => ht (BitVec.eq_of_toNat_eq e)
          rcases Nat.lt_or_gt_of_ne hne with hl | hl
          · have := evict hj hl; omega
          · have := evict hj.symm hl; omega
      · rw [seenAt_set_ne _ _ _ _ _ hj]; exact hold
    · subst hp
      simp only
      rw [seenAt_set_same _ _ _ _ hidx]
      simp
  · -- slotsIn
    intro i t xs hs y hy
    simp only [List.getElem?_set] at hs
    by_cases hi : lt.toNat % b.slots.length = i
    · simp only [hi, ↓reduceIte] at hs
      rw [← hi] at hs
      simp only [hidx, ↓reduceIte, Option.some.injEq, Prod.mk.injEq] at hs
      obtain ⟨rfl, rfl⟩ := hs
      simp only [List.mem_append, List.mem_singleton] at hy ⊢
      rcases hy with hy | hy
      · left
        have := slot_of_mem_seenAt _ _ _ _ hy
        exact h.slotsIn _ _ _ this y hy
      · right; rw [hy]
    · simp only [hi, ↓reduceIte] at hs
      exact List.mem_append_left _ (h.slotsIn i t xs hs y hy)

theorem handleAll_inv [DecidableEq α] (l : List (W × α)) : ∀ (b : Buf α) (D : List (W × α)),
    0 < b.slots.length → b.slots.length < 2 ^ 64 → (∀ p ∈ l, p.1 ≠ maxW) → Inv b D →
    Inv (handleAll b l).1 (D ++ (handleAll b l).2) ∧ (handleAll b l).1.slots.length = b.slots.length := by
  induction l with
  | nil => intro b D _ _ _ h; simpa [handleAll] using h
  | cons p rest ih =>
    intro b D hN hN2 hl h
    obtain ⟨t, x⟩ := p
    have h1 := handle_inv b D t x hN hN2 (hl (t, x) (List.mem_cons_self ..)) h
    have hrest : ∀ p ∈ rest, p.1 ≠ maxW := fun p hp => hl p (List.mem_cons_of_mem _ hp)
    have h2 := ih (handle b t x).1 _ (by omega) (by omega) hrest h1.1
    simp only [handleAll]
    refine ⟨?_, by omega⟩
    by_cases hr : (handle b t x).2 = .delivered
    · simp only [hr, ↓reduceIte] at h2 ⊢
      simpa [List.append_assoc] using h2.1
    · simp only [hr, ↓reduceIte] at h2 ⊢
      exact h2.1

theorem prelude_inv (b : Buf α) (D : List (W × α)) (e : W) (raise : Bool) (h : Inv b D) :
    Inv (raiseMin (witnessRemote b e) raise e) D
    ∧ (raiseMin (witnessRemote b e) raise e).slots.length = b.slots.length := by
  have h1 : Inv (witnessRemote b e) D ∧ (witnessRemote b e).slots = b.slots := by
    unfold witnessRemote
    by_cases he : 0#64 < e
    · simp only [he, ↓reduceIte]
      have hne : e - 1#64 ≠ maxW := by
        intro hEq
        have : (e - 1#64).toNat = 2 ^ 64 - 1 := by rw [hEq]; simp [maxW]
        bv_omega
      have := h.mono (witness b.clock (e - 1#64)) b.minTime (witness_nat b.clock _ hne).1
      exact ⟨by simpa using this, trivial⟩
    · simp only [he, ↓reduceIte]; exact ⟨h, trivial⟩
  unfold raiseMin
  by_cases hr : (raise = true ∧ (witnessRemote b e).minTime < e)
  · simp only [hr, and_self, ↓reduceIte]
    have := h1.1.mono (witnessRemote b e).clock e (Nat.le_refl _)
    exact ⟨by simpa using this, by rw [h1.2]⟩
  · simp only [hr, ↓reduceIte]; exact ⟨h1.1, by rw [h1.2]⟩

/-- No input carries the time 2^64 − 1. -/
def NoWrap (ins : List (In α)) : Prop := ∀ i ∈ ins, ∀ t ∈ i.times, t ≠ maxW

theorem stepIn_inv [DecidableEq α] (b : Buf α) (D : List (W × α)) (i : In α)
    (hN : 0 < b.slots.length) (hN2 : b.slots.length < 2 ^ 64) (hi : ∀ t ∈ i.times, t ≠ maxW) (h : Inv b D) :
    Inv (stepIn b i).1 (D ++ (stepIn b i).2) ∧ (stepIn b i).1.slots.length = b.slots.length := by
  cases i with
  | gossip lt x =>
    simp only [stepIn]
    exact handleAll_inv [(lt, x)] b D hN hN2 (by intro p hp; simp at hp; subst hp; exact hi lt (by simp [In.times])) h
  | pushPull e raise image =>
    simp only [stepIn]
    have hp := prelude_inv b D e raise h
    have := handleAll_inv (flatten image) _ D (by omega) (by omega)
      (by intro p hp; exact hi p.1 (by simp only [In.times, List.mem_map]; exact ⟨p, hp, rfl⟩)) hp.1
    exact ⟨this.1, by omega⟩

theorem run_inv [DecidableEq α] (ins : List (In α)) : ∀ (b : Buf α) (D : List (W × α)),
    0 < b.slots.length → b.slots.length < 2 ^ 64 → NoWrap ins → Inv b D →
    Inv (SerfModel.EventBuf.run b ins).1 (D ++ (SerfModel.EventBuf.run b ins).2)
    ∧ (SerfModel.EventBuf.run b ins).1.slots.length = b.slots.length := by
  induction ins with
  | nil => intro b D _ _ _ h; simpa [SerfModel.EventBuf.run] using h
  | cons i rest ih =>
    intro b D hN hN2 hnw h
    have h1 := stepIn_inv b D i hN hN2 (hnw i (List.mem_cons_self ..)) h
    have h2 := ih (stepIn b i).1 _ (by omega) (by omega)
      (fun j hj => hnw j (List.mem_cons_of_mem _ hj)) h1.1
    simp only [SerfModel.EventBuf.run]
    exact ⟨by simpa [List.append_assoc] using h2.1, by omega⟩

end SerfProofs.EventBuf
