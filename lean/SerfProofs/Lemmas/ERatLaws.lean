/-
The laws of `LawfulFloatLike` PROVED for the exact instance `ERat` (extended rationals): the theorems of
C20/C21 that assume the laws therefore have a model, i.e. they are not vacuous.
-/
import SerfModel.Model.ERat
import SerfProofs.Lemmas.FloatLaws
namespace SerfModel.ERat
open SerfModel FloatLike

@[simp] theorem fl_le (a b : ERat) : FloatLike.le a b = ERat.le a b := rfl
@[simp] theorem fl_lt (a b : ERat) : FloatLike.lt a b = ERat.lt a b := rfl
@[simp] theorem fl_add (a b : ERat) : FloatLike.add a b = ERat.add a b := rfl
@[simp] theorem fl_sub (a b : ERat) : FloatLike.sub a b = ERat.sub a b := rfl
@[simp] theorem fl_mul (a b : ERat) : FloatLike.mul a b = ERat.mul a b := rfl
@[simp] theorem fl_div (a b : ERat) : FloatLike.div a b = ERat.div a b := rfl
@[simp] theorem fl_abs (a : ERat) : FloatLike.abs a = ERat.abs a := rfl
@[simp] theorem fl_sqrt (a : ERat) : FloatLike.sqrt a = ERat.sqrt a := rfl
@[simp] theorem fl_max (a b : ERat) : FloatLike.max a b = ERat.max a b := rfl
@[simp] theorem fl_isNaN (a : ERat) : FloatLike.isNaN a = ERat.isNaN a := rfl
@[simp] theorem fl_isInf (a : ERat) : FloatLike.isInf a = ERat.isInf a := rfl
@[simp] theorem fl_zero : (FloatLike.zero : ERat) = fin 0 := by
  show fin ((0 : Int) : Rat) = fin 0
  rw [Rat.intCast_zero]
@[simp] theorem fl_one : (FloatLike.one : ERat) = fin 1 := by
  show fin ((1 : Int) : Rat) = fin 1
  rw [Rat.intCast_one]

theorem NN_iff (x : ERat) : NN x ↔ x = nan ∨ x = pinf ∨ ∃ q, x = fin q ∧ 0 ≤ q := by
  unfold NN
  cases x <;> simp [ERat.isNaN, ERat.le]

theorem U_iff (x : ERat) : U x ↔ x = nan ∨ ∃ q, x = fin q ∧ 0 ≤ q ∧ q ≤ 1 := by
  unfold U
  cases x <;> simp [ERat.isNaN, ERat.le]

theorem lt_of_lt_of_le' {a b c : Rat} (h1 : a < b) (h2 : b ≤ c) : a < c := by
  apply Rat.not_le.1
  intro h
  exact absurd (Rat.le_trans h2 h) (Rat.not_le.2 h1)

theorem lt_of_le_of_lt' {a b c : Rat} (h1 : a ≤ b) (h2 : b < c) : a < c := by
  apply Rat.not_le.1
  intro h
  exact absurd (Rat.le_trans h h1) (Rat.not_le.2 h2)

theorem inv_nonneg' {b : Rat} (h : 0 ≤ b) : 0 ≤ b⁻¹ := by
  by_cases hb : b = 0
  · subst hb; rw [Rat.inv_zero]; exact Rat.le_refl
  · have : 0 < b := Rat.lt_of_le_of_ne h (fun e => hb e.symm)
    exact Rat.le_of_lt (Rat.inv_pos.2 this)

theorem div_nonneg' {a b : Rat} (ha : 0 ≤ a) (hb : 0 ≤ b) : 0 ≤ a / b := by
  rw [Rat.div_def]; exact Rat.mul_nonneg ha (inv_nonneg' hb)

theorem sgn_nonneg {q : Rat} (h : 0 ≤ q) : sgn q = 0 ∨ sgn q = 1 := by
  unfold sgn
  have : ¬ q < 0 := Rat.not_lt.2 h
  simp only [this, if_false]
  by_cases h0 : q = 0 <;> simp [h0]

theorem sgn_pos_or_zero_cases (q : Rat) (h : 0 ≤ q) : (q = 0 ∧ sgn q = 0) ∨ (0 < q ∧ sgn q = 1) := by
  unfold sgn
  have : ¬ q < 0 := Rat.not_lt.2 h
  simp only [this, if_false]
  by_cases h0 : q = 0
  · left; simp [h0]
  · right; exact ⟨Rat.lt_of_le_of_ne h (fun e => h0 e.symm), by simp [h0]⟩

theorem nn_mul' (a b : ERat) (ha : NN a) (hb : NN b) : NN (FloatLike.mul a b) := by
  rw [NN_iff] at *
  rcases ha with rfl | rfl | ⟨p, rfl, hp⟩ <;> rcases hb with rfl | rfl | ⟨q, rfl, hq⟩ <;>
    simp [ERat.mul, ERat.esgn, ERat.ofSign]
  · rcases sgn_nonneg hq with h | h <;> simp [h]
  · rcases sgn_nonneg hp with h | h <;> simp [h]
  · exact Rat.mul_nonneg hp hq

theorem nn_add' (a b : ERat) (ha : NN a) (hb : NN b) : NN (FloatLike.add a b) := by
  rw [NN_iff] at *
  rcases ha with rfl | rfl | ⟨p, rfl, hp⟩ <;> rcases hb with rfl | rfl | ⟨q, rfl, hq⟩ <;>
    simp [ERat.add]
  exact Rat.add_nonneg hp hq

theorem nn_div' (a b : ERat) (ha : NN a) (hb : NN b) : NN (FloatLike.div a b) := by
  rw [NN_iff] at *
  rcases ha with rfl | rfl | ⟨p, rfl, hp⟩ <;> rcases hb with rfl | rfl | ⟨q, rfl, hq⟩ <;>
    simp [ERat.div]
  · simp [Rat.not_lt.2 hq]
  · by_cases h0 : q = 0
    · simp only [h0, if_true, ERat.ofSign]
      rcases sgn_nonneg hp with h | h <;> simp [h]
    · simp only [h0, if_false]
      exact Or.inr (Or.inr ⟨_, rfl, div_nonneg' hp hq⟩)

theorem le_nan_iff (a b : ERat) (h : ERat.le a b = true) : a ≠ nan ∧ b ≠ nan := by
  cases a <;> cases b <;> simp [ERat.le] at h ⊢

instance : LawfulFloatLike ERat where
  zero_finite := by decide
  le_not_nan a b h := by cases a <;> cases b <;> simp [ERat.le, ERat.isNaN] at h ⊢
  lt_not_nan a b h := by cases a <;> cases b <;> simp [ERat.lt, ERat.isNaN] at h ⊢
  le_refl a h := by cases a <;> simp [ERat.le, ERat.isNaN, Rat.le_refl] at h ⊢
  le_of_not_lt a b ha hb h := by
    cases a <;> cases b <;> simp [ERat.le, ERat.lt, ERat.isNaN] at ha hb h ⊢
    exact Rat.not_lt.1 h
  le_of_lt a b h := by
    cases a <;> cases b <;> simp [ERat.le, ERat.lt] at h ⊢
    exact Rat.le_of_lt h
  le_trans a b c h1 h2 := by
    cases a <;> cases b <;> cases c <;> simp [ERat.le] at h1 h2 ⊢
    exact Rat.le_trans h1 h2
  lt_of_lt_of_le a b c h1 h2 := by
    cases a <;> cases b <;> cases c <;> simp [ERat.le, ERat.lt] at h1 h2 ⊢
    exact lt_of_lt_of_le' h1 h2
  lt_of_le_of_lt a b c h1 h2 := by
    cases a <;> cases b <;> cases c <;> simp [ERat.le, ERat.lt] at h1 h2 ⊢
    exact lt_of_le_of_lt' h1 h2
  max_ge_right x y hy h := by
    cases x <;> cases y <;> simp [ERat.max, ERat.le, ERat.isNaN] at hy h ⊢
    rename_i a b
    by_cases hab : b < a
    · simp [hab]; exact Rat.le_of_lt hab
    · simp [hab]
  thr_pos := by
    show ERat.lt (fin ((0 : Int) : Rat)) (ERat.div (fin ((1 : Int) : Rat)) (fin ((1000000 : Int) : Rat))) = true
    have h6 : (0 : Rat) < ((1000000 : Int) : Rat) := by
      rw [show (0 : Rat) = ((0 : Int) : Rat) from Rat.intCast_zero.symm]; exact Rat.intCast_lt_intCast.2 (by decide)
    have hne : ((1000000 : Int) : Rat) ≠ 0 := fun e => by rw [e] at h6; exact Rat.lt_irrefl h6
    simp only [ERat.div, hne, if_false, ERat.lt, Rat.intCast_zero, Rat.intCast_one]
    rw [Rat.div_def, Rat.one_mul]
    exact decide_eq_true (Rat.inv_pos.2 h6)
  div_nan_right x t h := by cases x <;> cases t <;> simp [ERat.div, ERat.isNaN] at h ⊢
  nn_mul := nn_mul'
  nn_add := nn_add'
  nn_div := nn_div'
  nn_abs a := by
    rw [NN_iff]
    cases a <;> simp [ERat.abs]
    rename_i q
    by_cases h : q < 0
    · simp [h]; exact Rat.le_of_lt (by simpa using Rat.neg_lt_neg h)
    · simp [h]; exact Rat.not_lt.1 h
  nn_sqrt a := by
    rw [NN_iff]
    cases a <;> simp [ERat.sqrt]
    rename_i q
    by_cases h : q < 0
    · simp [h]
    · simp [h, ERat.sqrtQ]
  unit_mul a b ha hb := by
    rw [U_iff] at *
    rcases ha with rfl | ⟨p, rfl, hp0, hp1⟩ <;> rcases hb with rfl | ⟨q, rfl, hq0, hq1⟩ <;> simp [ERat.mul]
    refine ⟨Rat.mul_nonneg hp0 hq0, ?_⟩
    have h1 : p * q ≤ 1 * q := Rat.mul_le_mul_of_nonneg_right hp1 hq0
    rw [Rat.one_mul] at h1
    exact Rat.le_trans h1 hq1
  one_sub_unit t ht := by
    rw [U_iff] at ht
    rw [NN_iff]
    rcases ht with rfl | ⟨q, rfl, _, hq1⟩ <;> simp [ERat.sub, ERat.add, ERat.neg]
    rw [← Rat.sub_eq_add_neg]
    exact (Rat.le_iff_sub_nonneg _ _).1 hq1
  unit_div x t hx hxt ht := by
    rw [U_iff]
    have h01 : (0 : Rat) ≤ 1 := by decide
    cases x <;> cases t <;> simp [ERat.le, ERat.lt, ERat.div, h01, Rat.le_refl] at hx hxt ht ⊢
    rename_i a b
    have hb0 : b ≠ 0 := fun e => by subst e; exact Rat.lt_irrefl ht
    simp only [hb0, if_false]
    have hinv : 0 ≤ b⁻¹ := Rat.le_of_lt (Rat.inv_pos.2 ht)
    refine Or.inr ⟨_, rfl, div_nonneg' hx (Rat.le_of_lt ht), ?_⟩
    rw [Rat.div_def]
    have := Rat.mul_le_mul_of_nonneg_right hxt hinv
    rwa [Rat.mul_inv_cancel _ hb0] at this
  add_ge_left x y hx hy := by
    cases x <;> cases y <;> simp [ERat.le, ERat.add, ERat.isNaN] at hx hy ⊢
    rename_i a b
    have := (Rat.add_le_add_left (c := a)).2 hy
    rwa [Rat.add_zero] at this
  toInt64_nn x hx := by
    rw [NN_iff] at hx
    rcases hx with rfl | rfl | ⟨q, rfl, hq⟩
    · right; rfl
    · right; rfl
    · show 0 ≤ ERat.toInt64 (fin q) ∨ ERat.toInt64 (fin q) = -9223372036854775808
      simp only [ERat.toInt64]
      split
      · right; rfl
      · left
        have hn : 0 ≤ q.num := Rat.num_nonneg.2 hq
        exact Int.tdiv_nonneg hn (Int.natCast_nonneg _)
  add_comm x y := by
    show ERat.add x y = ERat.add y x
    cases x <;> cases y <;> simp [ERat.add, Rat.add_comm]
  sub_sq_comm a b := by
    cases a <;> cases b <;> simp [ERat.sub, ERat.neg, ERat.add, ERat.mul, ERat.esgn, ERat.ofSign]
    rename_i p q
    rw [← Rat.sub_eq_add_neg, ← Rat.sub_eq_add_neg, ← Rat.neg_sub q p, Rat.neg_mul, Rat.mul_neg, Rat.neg_neg]

end SerfModel.ERat
