/-
The cluster model (`SerfModel.Cluster`) projected onto its nodes, and the cluster-level
counterexample to full agreement.

PROJECTION (`crun_node`): along any cluster run, node `i` is exactly the single-node `run` of its
local history `history c steps i` from its initial state.  Every per-node theorem about `run`
(C02, C03, C04, C15) therefore holds for every node of every cluster run; `init_node`,
`crun_length`, `node_name_run` give the initial node, the node count and the node's name.

COUNTEREXAMPLE (`cluster_unrefuted_claim_counterexample`, `…_three`): a leave claim about a RUNNING
member whose gossip copy never reaches that member, but whose Lamport time does (by push/pull),
is never refuted: the member silently adopts the claim's time as its own status time, and the
claimant keeps listing it as `leaving` for ever.  `cluster_claim_refuted_when_delivered` is the
contrast run: the same claim, delivered as gossip, is refuted.
Core Lean only.
-/
import SerfModel.Model.Cluster
import SerfProofs.Lemmas.NodeSelf
namespace SerfProofs.Cluster
open SerfModel SerfModel.Node SerfModel.Cluster SerfProofs.NodeSelf

/-! ### projection onto the nodes -/

theorem applyLocal_fst (n : Node) (ops : List Op) : (applyLocal n ops).1 = run n ops := by
  induction ops generalizing n with
  | nil => rfl
  | cons op ops ih => simp only [applyLocal, run]; exact ih _

theorem run_append (n : Node) (a b : List Op) : run n (a ++ b) = run (run n a) b := by
  induction a generalizing n with
  | nil => rfl
  | cons op a ih => simp only [List.cons_append, run]; exact ih _

theorem cstep_node (c : Cluster) (s : CStep) (i : Nat) (n : Node) (h : c.nodes[i]? = some n) :
    (cstep c s).nodes[i]? = some (run n (localOpsOf c s i)) := by
  simp only [cstep, List.getElem?_mapIdx, h, Option.map_some, applyLocal_fst]

theorem crun_node (steps : List CStep) : ∀ (c : Cluster) (i : Nat) (n : Node), c.nodes[i]? = some n →
    (crun c steps).nodes[i]? = some (run n (history c steps i)) := by
  induction steps with
  | nil => intro c i n h; simpa [crun, history, run] using h
  | cons s r ih =>
    intro c i n h
    simp only [crun, history, run_append]
    exact ih _ _ _ (cstep_node c s i n h)

theorem cstep_length (c : Cluster) (s : CStep) : (cstep c s).nodes.length = c.nodes.length := by
  simp [cstep]

theorem crun_length (c : Cluster) (steps : List CStep) : (crun c steps).nodes.length = c.nodes.length := by
  induction steps generalizing c with
  | nil => rfl
  | cons s r ih => simp only [crun]; rw [ih, cstep_length]

theorem init_node (names : List Name) (cfg : Config) (i : Nat) (nm : Name) (h : names[i]? = some nm) :
    (Cluster.init names cfg).nodes[i]? = some (Node.init nm cfg) := by
  simp [Cluster.init, h]

/-! ### the node's name never changes -/

theorem step_name (n : Node) (op : Op) : (step n op).1.name = n.name := by
  cases op with
  | nodeJoin x =>
    show (handleNodeJoin n x).1.name = _
    unfold handleNodeJoin
    split
    · rfl
    · dsimp only; split <;> rfl
  | nodeLeave x a =>
    show (handleNodeLeave n x a).1.name = _
    unfold handleNodeLeave
    split
    · rfl
    · split <;> rfl
  | nodeUpdate x =>
    show (handleNodeUpdate n x).1.name = _
    unfold handleNodeUpdate
    split <;> rfl
  | joinMsg x lt w => exact hji_name n x lt w
  | leaveMsg x lt p w => exact hli_name n x lt p w
  | merge lt st lf w =>
    show (merge n lt st lf w).1.name = _
    rw [merge_eq]; dsimp only
    rw [mergeJoins_name, mergeLefts_name, mergeStart_name]
  | forceLeave x p w =>
    show (forceLeave n x p w).1.name = _
    unfold forceLeave; dsimp only; rw [hli_name]
  | ownJoin w =>
    show (broadcastJoin n n.clock w).1.name = _
    unfold broadcastJoin; dsimp only; rw [hji_name]
  | leaveBegin w =>
    show (leaveBegin n w).1.name = _
    unfold leaveBegin
    split
    · rfl
    · dsimp only; rw [hli_name]
  | leaveEnd =>
    show (leaveEnd n).name = _
    unfold leaveEnd; split <;> rfl
  | shutdown => rfl
  | reap now ov => rfl
  | runPending w =>
    show (runPending n w).1.name = _
    unfold runPending
    split
    · rfl
    · unfold broadcastJoin; dsimp only; rw [hji_name]

theorem node_name_run (n : Node) (ops : List Op) : (run n ops).name = n.name := by
  induction ops generalizing n with
  | nil => rfl
  | cons op ops ih => simp only [run]; rw [ih, step_name]


/-! ### sanity checks of the cluster semantics -/

/-- "w" (0), "x" (1), "y" (2), everybody has been told about everybody. -/
def wxy : Cluster := crun (Cluster.init ["w", "x", "y"])
  [.notify 0 "x" true 0, .notify 0 "y" true 0, .notify 1 "w" true 0, .notify 1 "y" true 0,
   .notify 2 "w" true 0, .notify 2 "x" true 0]

/-- "w" (0) and "x" (1) have been told about each other. -/
def wx : Cluster := crun (Cluster.init ["w", "x"]) [.notify 0 "x" true 0, .notify 1 "w" true 0]

/-- node `i` of a cluster (a dummy node if out of range) -/
def nodeAt (c : Cluster) (i : Nat) : Node := c.nodes[i]?.getD (Node.init "")

/-- The memberlist oracle: a first `down` is ignored, a repeated `up` is ignored, `up` then `down`
is a join then a failure; other observers are not touched. -/
example :
    crun (Cluster.init ["w", "x"]) [.notify 0 "x" false 7] = Cluster.init ["w", "x"] ∧
    crun wx [.notify 0 "x" true 0] = wx ∧
    statusOf (nodeAt (crun wx [.notify 0 "x" false 7]) 0) "x" = some .failed ∧
    (nodeAt (crun wx [.notify 0 "x" false 7]) 0).failed = ["x"] ∧
    nodeAt (crun wx [.notify 0 "x" false 7]) 1 = nodeAt wx 1 ∧
    (crun wx [.notify 0 "x" false 7]).ml = [((0, "x"), false), ((1, "w"), true)] := by decide

/-- Gossip: a force-leave with another alive member around puts one copy on the wire; a
duplicating delivery to "y" is re-queued by "y" (two copies), a second delivery of the same message
is not re-queued; consuming deliveries and loss empty the wire; indices out of range do nothing. -/
example :
    (crun wxy [.api 0 (.forceLeave "x" false 0)]).flight = [.leave "x" 1 false] ∧
    (crun wxy [.api 0 (.forceLeave "x" false 0), .deliver 2 0 true]).flight
      = [.leave "x" 1 false, .leave "x" 1 false] ∧
    statusOf (nodeAt (crun wxy [.api 0 (.forceLeave "x" false 0), .deliver 2 0 true]) 2) "x" = some .leaving ∧
    (crun wxy [.api 0 (.forceLeave "x" false 0), .deliver 2 0 true, .deliver 2 1 true]).flight
      = [.leave "x" 1 false, .leave "x" 1 false] ∧
    (crun wxy [.api 0 (.forceLeave "x" false 0), .deliver 2 0 true, .deliver 2 1 false, .drop 0]).flight = [] ∧
    crun wxy [.drop 3, .deliver 0 5 false, .deliver 9 0 true, .pushPull 0 0 0, .pushPull 0 7 0,
      .api 4 .shutdown] = wxy := by decide

/-- The local histories of a run, and the projection theorem instantiated on it. -/
example :
    history (Cluster.init ["w", "x"])
        [.notify 0 "x" true 0, .notify 1 "w" true 0, .api 0 (.forceLeave "x" false 0), .pushPull 0 1 4] 1
      = [.nodeJoin "w", .merge 2 [("w", 0), ("x", 1)] [] 4] ∧
    history (Cluster.init ["w", "x"])
        [.notify 0 "x" true 0, .notify 1 "w" true 0, .api 0 (.forceLeave "x" false 0), .pushPull 0 1 4] 0
      = [.nodeJoin "x", .forceLeave "x" false 0, .merge 1 [("x", 0), ("w", 0)] [] 4] :=
  ⟨rfl, rfl⟩

example :
    nodeAt (crun (Cluster.init ["w", "x"])
        [.notify 0 "x" true 0, .notify 1 "w" true 0, .api 0 (.forceLeave "x" false 0), .pushPull 0 1 4]) 1
      = run (Node.init "x") [.nodeJoin "w", .merge 2 [("w", 0), ("x", 1)] [] 4] := by decide

/-! ### the unrefuted claim -/

/-- "w" force-leaves the running "x"; the gossip copy (if any) is lost; "w" and "x" push/pull. -/
def claimRun : List CStep := [.api 0 (.forceLeave "x" false 0), .drop 0, .pushPull 0 1 0]

/-- Two nodes.  "w" claims that the RUNNING "x" is leaving (force-leave at Lamport time 1).  With
no other alive member `forceLeave` does not even broadcast, so the only way the claim travels is
push/pull — and `MergeRemoteState` turns the remote status time of a member that is not on the
remote left list into a JOIN intent.  So "x" adopts time 1 as its own status time without ever
seeing a leave claim: nothing is in flight, no refutation is pending, no later join of "x" at a
time ≤ 1 can change "w"'s mind.  "w" lists "x" as `leaving`, "x" lists itself `alive`, both at
time 1, and further push/pulls (in either direction) change NOTHING in the whole cluster. -/
theorem cluster_unrefuted_claim_counterexample :
    -- before: everybody lists everybody as alive at time 0
    statusOf (nodeAt wx 0) "x" = some .alive ∧ ltimeOf (nodeAt wx 0) "x" = some 0 ∧
    statusOf (nodeAt wx 1) "x" = some .alive ∧ ltimeOf (nodeAt wx 1) "x" = some 0 ∧
    -- the claim at "w"; nothing is broadcast
    statusOf (nodeAt (crun wx [.api 0 (.forceLeave "x" false 0)]) 0) "x" = some .leaving ∧
    ltimeOf (nodeAt (crun wx [.api 0 (.forceLeave "x" false 0)]) 0) "x" = some 1 ∧
    (crun wx [.api 0 (.forceLeave "x" false 0)]).flight = [] ∧
    -- after the push/pull: "w" still claims `leaving`@1 …
    statusOf (nodeAt (crun wx claimRun) 0) "x" = some .leaving ∧
    ltimeOf (nodeAt (crun wx claimRun) 0) "x" = some 1 ∧
    -- … "x" is running, lists itself alive, and its own status time ROSE to the claim's time …
    (nodeAt (crun wx claimRun) 1).life = .alive ∧
    statusOf (nodeAt (crun wx claimRun) 1) "x" = some .alive ∧
    ltimeOf (nodeAt (crun wx claimRun) 1) "x" = some 1 ∧
    -- … silently: no refutation spawned anywhere, nothing on the wire
    (nodeAt (crun wx claimRun) 1).pending = [] ∧ (nodeAt (crun wx claimRun) 0).pending = [] ∧
    (crun wx claimRun).flight = [] ∧
    -- and the disagreement is stable under further push/pull
    crun wx (claimRun ++ [.pushPull 0 1 0]) = crun wx claimRun ∧
    crun wx (claimRun ++ [.pushPull 1 0 0, .pushPull 0 1 9]) = crun wx claimRun := by decide

/-- Three nodes, so that the force-leave IS broadcast (`leave "x" 1`) and the copy is really lost.
After "w"–"x", "w"–"y", "x"–"y" push/pulls: "w" lists "x" as `leaving`, "x" and "y" list it as
`alive`, all three at status time 1; nothing in flight, nothing pending; one more full round of
push/pulls changes nothing. -/
theorem cluster_unrefuted_claim_counterexample_three :
    (crun wxy [.api 0 (.forceLeave "x" false 0)]).flight = [.leave "x" 1 false] ∧
    (crun wxy (claimRun ++ [.pushPull 0 2 0, .pushPull 1 2 0])).flight = [] ∧
    (crun wxy (claimRun ++ [.pushPull 0 2 0, .pushPull 1 2 0])).nodes.map (fun n => (statusOf n "x", ltimeOf n "x", n.pending))
      = [(some .leaving, some 1, []), (some .alive, some 1, []), (some .alive, some 1, [])] ∧
    crun wxy (claimRun ++ [.pushPull 0 2 0, .pushPull 1 2 0] ++ [.pushPull 0 1 0, .pushPull 0 2 0, .pushPull 1 2 0])
      = crun wxy (claimRun ++ [.pushPull 0 2 0, .pushPull 1 2 0]) := by decide +kernel

/-- Contrast: when the gossip copy does reach "x", "x" spawns a refuting join at its witnessed
clock (2 > 1); once that runs and is delivered to "w", everybody who heard it lists "x" as alive
at time 2. -/
theorem cluster_claim_refuted_when_delivered :
    (nodeAt (crun wxy [.api 0 (.forceLeave "x" false 0), .deliver 1 0 false]) 1).pending = [2] ∧
    (crun wxy [.api 0 (.forceLeave "x" false 0), .deliver 1 0 false, .api 1 (.runPending 0)]).flight
      = [.join "x" 2] ∧
    (crun wxy [.api 0 (.forceLeave "x" false 0), .deliver 1 0 false, .api 1 (.runPending 0),
        .deliver 0 0 true, .deliver 2 0 false]).nodes.map (fun n => (statusOf n "x", ltimeOf n "x", n.pending))
      = [(some .alive, some 2, []), (some .alive, some 2, []), (some .alive, some 2, [])] := by decide

end SerfProofs.Cluster
