/-
Helper lemmas for C36: the counting loop of `resolveNodeConflict` computes the
number of valid replies and the number of valid replies naming this node.
-/
import SerfModel.Model.Conflict
namespace SerfProofs.Conflict
open SerfModel SerfModel.Conflict

/-- The valid replies, decoded, in arrival order. -/
def validReplies (decode : Decoder) (rs : List Bytes) : List (Option MAddr) :=
  rs.filterMap (valid? decode)

theorem foldl_count (decode : Decoder) (addr : Bytes) (port : Nat) (rs : List Bytes) :
    ∀ t : Tally,
      (rs.foldl (count decode addr port) t).responses = t.responses + (validReplies decode rs).length ∧
      (rs.foldl (count decode addr port) t).matching =
        t.matching + (validReplies decode rs).countP (mine addr port) := by
  induction rs with
  | nil => intro t; simp [validReplies]
  | cons r rs ih =>
    intro t
    simp only [List.foldl_cons]
    obtain ⟨h1, h2⟩ := ih (count decode addr port t r)
    rw [h1, h2]
    unfold count validReplies
    cases hv : valid? decode r with
    | none => simp [List.filterMap_cons, hv]
    | some m =>
      simp only [List.filterMap_cons, hv, List.length_cons, List.countP_cons]
      by_cases hm : mine addr port m = true
      · simp [hm]; omega
      · simp [hm]; omega

theorem tally_eq (decode : Decoder) (addr : Bytes) (port : Nat) (rs : List Bytes) :
    (tally decode addr port rs).responses = (validReplies decode rs).length ∧
    (tally decode addr port rs).matching = (validReplies decode rs).countP (mine addr port) := by
  have := foldl_count decode addr port rs {}
  simpa [tally] using this

/-- `matching ≥ responses/2 + 1` is a strict majority. -/
theorem majority_iff (m r : Nat) : m ≥ r / 2 + 1 ↔ 2 * m > r := by
  omega

end SerfProofs.Conflict
