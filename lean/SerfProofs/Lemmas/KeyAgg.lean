/-
Helper lemmas for C23: `streamKeyResp` is a fold of `stepOne` over a prefix of the
replies; what the fold computes; the truncation loop returns the first attempt
that fits.
-/
import SerfModel.Model.KeyAgg
import SerfProofs.Lemmas.Assoc
namespace SerfProofs.KeyAgg
open SerfModel SerfModel.KeyAgg

/-! ### counters -/

theorem cnt_inc (m : List (String × Nat)) (k x : String) :
    cnt (inc m k) x = cnt m x + (if x = k then 1 else 0) := by
  unfold cnt inc
  rw [alookup_ainsert]
  by_cases h : x = k
  · subst h; simp
  · have : (x == k) = false := by simpa using h
    simp [this, h]

theorem cnt_foldl_inc (keys : List String) : ∀ (m : List (String × Nat)) (x : String),
    cnt (keys.foldl inc m) x = cnt m x + keys.count x := by
  induction keys with
  | nil => intro m x; simp
  | cons k ks ih =>
    intro m x
    simp only [List.foldl_cons]
    rw [ih, cnt_inc, List.count_cons]
    by_cases h : x = k
    · subst h; simp; omega
    · have h' : ¬ (k = x) := fun e => h e.symm
      simp [h, h']

/-! ### what one reply contributes -/

/-- A reply counts as a failure: wrong type / undecodable / `Result = false`. -/
def failed (r : NR) : Bool :=
  match r.payload with
  | .badType => true
  | .undecodable => true
  | .decoded n => !n.result

/-- Number of times reply `r` lists key `k` (0 for replies that do not decode). -/
def holds (k : String) (r : NR) : Nat :=
  match r.payload with
  | .decoded n => n.keys.count k
  | _ => 0

/-- Reply `r` decodes and names `k` as its primary key. -/
def primaryIs (k : String) (r : NR) : Bool :=
  match r.payload with
  | .decoded n => n.primary == k
  | _ => false

theorem stepOne_numNodes (resp : KeyResponse) (r : NR) : (stepOne resp r).numNodes = resp.numNodes := by
  unfold stepOne
  cases r.payload with
  | badType => rfl
  | undecodable => rfl
  | decoded n => cases hr : n.result <;> by_cases hm : n.message.length > 0 <;> simp [hr, hm]

theorem stepOne_numResp (resp : KeyResponse) (r : NR) : (stepOne resp r).numResp = resp.numResp + 1 := by
  unfold stepOne
  cases r.payload with
  | badType => rfl
  | undecodable => rfl
  | decoded n => cases hr : n.result <;> by_cases hm : n.message.length > 0 <;> simp [hr, hm]

theorem stepOne_numErr (resp : KeyResponse) (r : NR) :
    (stepOne resp r).numErr = resp.numErr + (if failed r then 1 else 0) := by
  unfold stepOne failed
  cases r.payload with
  | badType => rfl
  | undecodable => rfl
  | decoded n => cases hr : n.result <;> by_cases hm : n.message.length > 0 <;> simp [hr, hm]

theorem stepOne_keys (resp : KeyResponse) (r : NR) (k : String) :
    cnt (stepOne resp r).keys k = cnt resp.keys k + holds k r := by
  unfold stepOne holds
  cases r.payload with
  | badType => rfl
  | undecodable => rfl
  | decoded n =>
    cases hr : n.result <;> by_cases hm : n.message.length > 0 <;> simp [hr, hm, cnt_foldl_inc]

theorem stepOne_primary (resp : KeyResponse) (r : NR) (k : String) :
    cnt (stepOne resp r).primary k = cnt resp.primary k + (if primaryIs k r then 1 else 0) := by
  unfold stepOne primaryIs
  cases r.payload with
  | badType => simp
  | undecodable => simp
  | decoded n =>
    have e : (n.primary == k) = decide (k = n.primary) := by
      by_cases h : k = n.primary
      · subst h; simp
      · have : ¬ (n.primary = k) := fun e => h e.symm
        simp [h, this]
    cases hr : n.result <;> by_cases hm : n.message.length > 0 <;> simp [hr, hm, cnt_inc, e]

/-- The `Messages` entry reply `r` writes for its sender, if any: the two rejection notices, the message of a
failed reply (also an empty one), the non-empty message of a successful reply. -/
def msgOf (r : NR) : Option Msg :=
  match r.payload with
  | .badType => some .invalidType
  | .undecodable => some .decodeFailed
  | .decoded n => if !n.result || decide (n.message.length > 0) then some (.text n.message) else none

theorem stepOne_messages (resp : KeyResponse) (r : NR) (s : String) :
    alookup (stepOne resp r).messages s =
      if s = r.sender then (msgOf r <|> alookup resp.messages s) else alookup resp.messages s := by
  unfold stepOne msgOf
  cases r.payload with
  | badType => by_cases h : s = r.sender <;> simp [alookup_ainsert, h]
  | undecodable => by_cases h : s = r.sender <;> simp [alookup_ainsert, h]
  | decoded n =>
    cases hr : n.result <;> by_cases hm : n.message.length > 0 <;> by_cases h : s = r.sender <;>
      simp [hr, hm, alookup_ainsert, h]

/-- The last message-writing reply of sender `s` in `l`. -/
def lastMsg (l : List NR) (s : String) : Option Msg :=
  ((l.filter (·.sender == s)).filterMap msgOf).getLast?

theorem lastMsg_cons (r : NR) (l : List NR) (s : String) :
    lastMsg (r :: l) s = (lastMsg l s <|> (if s = r.sender then msgOf r else none)) := by
  unfold lastMsg
  by_cases h : s = r.sender
  · subst h
    have hf : List.filter (fun x => x.sender == r.sender) (r :: l) = r :: List.filter (fun x => x.sender == r.sender) l := by
      simp [List.filter_cons]
    rw [hf]
    cases hm : msgOf r with
    | none => simp [List.filterMap_cons, hm]
    | some m =>
      rw [List.filterMap_cons, hm]
      cases hl : (List.filterMap msgOf (List.filter (fun x => x.sender == r.sender) l)) with
      | nil => simp
      | cons a as =>
        simp [List.getLast?_cons_cons]
        cases hx : (a :: as).getLast? with
        | none => simp at hx
        | some x => simp
  · have hb : (r.sender == s) = false := by
      simp; exact fun e => h e.symm
    simp [List.filter_cons, hb, h]

/-! ### the fold -/

theorem fold_facts (rs : List NR) : ∀ (resp : KeyResponse),
    (rs.foldl stepOne resp).numNodes = resp.numNodes ∧
    (rs.foldl stepOne resp).numResp = resp.numResp + rs.length ∧
    (rs.foldl stepOne resp).numErr = resp.numErr + rs.countP failed ∧
    (∀ k, cnt (rs.foldl stepOne resp).keys k = cnt resp.keys k + (rs.map (holds k)).sum) ∧
    (∀ k, cnt (rs.foldl stepOne resp).primary k = cnt resp.primary k + rs.countP (primaryIs k)) := by
  induction rs with
  | nil => intro resp; simp
  | cons r rs ih =>
    intro resp
    simp only [List.foldl_cons]
    obtain ⟨h1, h2, h3, h4, h5⟩ := ih (stepOne resp r)
    refine ⟨by rw [h1, stepOne_numNodes], by rw [h2, stepOne_numResp]; simp; omega, ?_, ?_, ?_⟩
    · rw [h3, stepOne_numErr, List.countP_cons]; omega
    · intro k; rw [h4, stepOne_keys]; simp; omega
    · intro k; rw [h5, stepOne_primary, List.countP_cons]; omega

theorem fold_messages (rs : List NR) : ∀ (resp : KeyResponse) (s : String),
    alookup (rs.foldl stepOne resp).messages s = (lastMsg rs s <|> alookup resp.messages s) := by
  induction rs with
  | nil => intro resp s; simp [lastMsg]
  | cons r rs ih =>
    intro resp s
    simp only [List.foldl_cons]
    rw [ih, stepOne_messages, lastMsg_cons]
    by_cases h : s = r.sender
    · simp only [h, if_true]
      cases lastMsg rs r.sender <;> cases msgOf r <;> simp
    · simp only [h, if_false]
      cases lastMsg rs s <;> simp

/-- The loop as a fold: it consumes replies until `NumResp` reaches `NumNodes`; if
`NumResp` is already ≥ `NumNodes` (only `NumNodes = 0` initially) it never stops early. -/
theorem streamLoop_eq (rs : List NR) : ∀ (resp : KeyResponse),
    streamLoop resp rs =
      if resp.numResp < resp.numNodes then (rs.take (resp.numNodes - resp.numResp)).foldl stepOne resp
      else rs.foldl stepOne resp := by
  induction rs with
  | nil => intro resp; simp [streamLoop]
  | cons r rs ih =>
    intro resp
    simp only [streamLoop]
    have hn := stepOne_numNodes resp r
    have hr := stepOne_numResp resp r
    by_cases hlt : resp.numResp < resp.numNodes
    · simp only [hlt, if_true]
      by_cases heq : (stepOne resp r).numResp = (stepOne resp r).numNodes
      · have : resp.numNodes - resp.numResp = 1 := by rw [hn, hr] at heq; omega
        simp [heq, this]
      · have hne : ((stepOne resp r).numResp == (stepOne resp r).numNodes) = false := by simpa using heq
        rw [hne]
        simp only [Bool.false_eq_true, if_false]
        rw [ih]
        have hlt' : (stepOne resp r).numResp < (stepOne resp r).numNodes := by
          rw [hn, hr] at heq ⊢; omega
        simp only [hlt', if_true]
        have : resp.numNodes - resp.numResp = ((stepOne resp r).numNodes - (stepOne resp r).numResp) + 1 := by
          rw [hn, hr]; omega
        rw [this, List.take_succ_cons, List.foldl_cons]
    · simp only [hlt, if_false]
      have hne : ((stepOne resp r).numResp == (stepOne resp r).numNodes) = false := by
        rw [hn, hr]; simp; omega
      rw [hne]
      simp only [Bool.false_eq_true, if_false]
      rw [ih]
      have : ¬ (stepOne resp r).numResp < (stepOne resp r).numNodes := by rw [hn, hr]; omega
      simp [this]

/-- The replies `streamKeyResp` consumes. -/
def used (numNodes : Nat) (rs : List NR) : List NR :=
  if numNodes = 0 then rs else rs.take numNodes

theorem streamKeyResp_eq (numNodes : Nat) (rs : List NR) :
    streamKeyResp numNodes rs = (used numNodes rs).foldl stepOne { numNodes := numNodes } := by
  unfold streamKeyResp used
  rw [streamLoop_eq]
  by_cases h : numNodes = 0
  · simp [h]
  · have : 0 < numNodes := by omega
    simp [h, this]

/-! ### the truncation loop -/

def fits (size : SizeFn) (limit : Nat) (p : Nat × Notice) : Bool := !(size p.1 p.2 > limit)

def announce (m : Nat) : List (Nat × Notice) :=
  (List.range m).reverse.map fun j => (j + 1, some (j + 1))

theorem announce_succ (m : Nat) : announce (m + 1) = (m + 1, some (m + 1)) :: announce m := by
  simp [announce, List.range_succ]

/-- The loop returns the first attempt that fits. -/
theorem klLoop_eq (size : SizeFn) (limit : Nat) : ∀ (i shown : Nat) (notice : Notice),
    klLoop size limit (i + 1) shown notice =
      match ((shown, notice) :: announce i).find? (fits size limit) with
      | some p => .ok (size p.1 p.2) p.1 p.2
      | none => .error := by
  intro i
  induction i with
  | zero =>
    intro shown notice
    by_cases h : size shown notice > limit
    · simp [klLoop, h, announce, fits]
    · simp [klLoop, h, announce, fits]
  | succ i ih =>
    intro shown notice
    by_cases h : size shown notice > limit
    · rw [klLoop]
      simp only [h, if_true]
      rw [ih (i + 1) (some (i + 1)), ← announce_succ]
      have : fits size limit (shown, notice) = false := by simp [fits, h]
      rw [List.find?_cons_of_neg (l := announce (i + 1)) (by simp [this])]
    · rw [klLoop]
      simp only [h, if_false]
      have : fits size limit (shown, notice) = true := by simp [fits, h]
      rw [List.find?_cons_of_pos (by simp [this])]

end SerfProofs.KeyAgg
