/-
Helper lemmas for C25: invariants of the event stream and query stream models.
-/
import SerfModel.Model.IpcStreams
namespace SerfProofs.IpcStreams
open SerfModel SerfModel.IpcStreams

/-! ## event stream -/

def accepted (log : List (Ev × Bool)) : List Ev := (log.filter (·.2)).map (·.1)

theorem accepted_append (a b : List (Ev × Bool)) : accepted (a ++ b) = accepted a ++ accepted b := by
  simp [accepted]

theorem esStep_log (fs : List Filter) (cap : Nat) (s : ES) (a : Act) :
    (esStep fs cap s a).log.map (·.1) =
      s.log.map (·.1) ++ (if s.stopped then [] else (liveArrivals [a]).filter (wanted fs)) := by
  cases a with
  | arrive e =>
    simp only [esStep, liveArrivals]
    by_cases hs : s.stopped = true
    · simp [hs]
    · by_cases hw : wanted fs e = true
      · by_cases hc : s.buf.length < cap <;> simp [hs, hw, hc]
      · simp [hs, hw]
  | consume =>
    simp only [esStep, liveArrivals]
    by_cases hd : s.dead = true
    · simp [hd]
    · cases s.buf <;> simp [hd]
  | consumeFail =>
    simp only [esStep, liveArrivals]
    by_cases hd : s.dead = true
    · simp [hd]
    · cases s.buf <;> simp [hd]
  | stop => simp [esStep, liveArrivals]

theorem esStep_stopped (fs : List Filter) (cap : Nat) (s : ES) (a : Act) :
    (esStep fs cap s a).stopped = (s.stopped || a == .stop) := by
  cases a with
  | arrive e =>
    simp only [esStep]
    by_cases hs : s.stopped = true
    · simp [hs]
    · by_cases hw : wanted fs e = true
      · by_cases hc : s.buf.length < cap <;> simp [hs, hw, hc]
      · simp [hs, hw]
  | consume =>
    simp only [esStep]
    by_cases hd : s.dead = true
    · simp [hd]
    · cases s.buf <;> simp [hd]
  | consumeFail =>
    simp only [esStep]
    by_cases hd : s.dead = true
    · simp [hd]
    · cases s.buf <;> simp [hd]
  | stop => simp [esStep]

theorem es_log (fs : List Filter) (cap : Nat) (sched : List Act) (s : ES) :
    (sched.foldl (esStep fs cap) s).log.map (·.1) =
      s.log.map (·.1) ++ (if s.stopped then [] else (liveArrivals sched).filter (wanted fs)) := by
  induction sched generalizing s with
  | nil => simp [liveArrivals]
  | cons a r ih =>
    rw [List.foldl_cons, ih, esStep_log, esStep_stopped]
    by_cases hs : s.stopped = true
    · simp [hs]
    · cases a with
      | arrive e => simp [hs, liveArrivals, List.filter_cons]; split <;> simp
      | consume => simp [hs, liveArrivals]
      | consumeFail => simp [hs, liveArrivals]
      | stop => simp [hs, liveArrivals]

/-- accounting invariant: sent, the one event lost to a failed send, and the buffer are exactly
the accepted arrivals, in order; nothing is lost while the goroutine lives -/
def AccInv (s : ES) : Prop := s.sent ++ s.lost ++ s.buf = accepted s.log ∧ (s.dead = false → s.lost = [])

theorem esStep_acc (fs : List Filter) (cap : Nat) (s : ES) (a : Act) (h : AccInv s) :
    AccInv (esStep fs cap s a) := by
  obtain ⟨h, hl⟩ := h
  have h' : s.sent ++ s.lost ++ s.buf = List.map (fun x => x.fst) (List.filter (fun x => x.snd) s.log) := h
  cases a with
  | arrive e =>
    simp only [esStep]
    by_cases hs : s.stopped = true
    · simp [hs]; exact ⟨h, hl⟩
    · by_cases hw : wanted fs e = true
      · by_cases hc : s.buf.length < cap
        · simp [hs, hw, hc]
          exact ⟨by simp [accepted, ← h', List.append_assoc], hl⟩
        · simp [hs, hw, hc]
          exact ⟨by simp [accepted, ← h'], hl⟩
      · simp [hs, hw]; exact ⟨h, hl⟩
  | consume =>
    simp only [esStep]
    by_cases hd : s.dead = true
    · simp [hd]; exact ⟨h, hl⟩
    · simp at hd
      have hl0 := hl hd
      cases hb : s.buf with
      | nil => simp [hd]; exact ⟨by simpa [hb] using h, hl⟩
      | cons e r =>
        simp [hd]
        refine ⟨?_, fun _ => hl0⟩
        show s.sent ++ [e] ++ s.lost ++ r = accepted s.log
        rw [← h, hb, hl0]; simp
  | consumeFail =>
    simp only [esStep]
    by_cases hd : s.dead = true
    · simp [hd]; exact ⟨h, hl⟩
    · simp at hd
      have hl0 := hl hd
      cases hb : s.buf with
      | nil => simp [hd]; exact ⟨by simpa [hb] using h, hl⟩
      | cons e r =>
        simp [hd]
        refine ⟨?_, fun hh => by simp at hh⟩
        show s.sent ++ [e] ++ r = accepted s.log
        rw [← h, hb, hl0]; simp
  | stop => exact ⟨h, hl⟩

theorem es_acc (fs : List Filter) (cap : Nat) (sched : List Act) (s : ES) (h : AccInv s) :
    AccInv (sched.foldl (esStep fs cap) s) := by
  induction sched generalizing s with
  | nil => simpa using h
  | cons a r ih => rw [List.foldl_cons]; exact ih _ (esStep_acc fs cap s a h)

theorem esStep_cap (fs : List Filter) (cap : Nat) (s : ES) (a : Act) (h : s.buf.length ≤ cap) :
    (esStep fs cap s a).buf.length ≤ cap := by
  cases a with
  | arrive e =>
    simp only [esStep]
    by_cases hs : s.stopped = true
    · simp [hs]; exact h
    · by_cases hw : wanted fs e = true
      · by_cases hc : s.buf.length < cap
        · simp [hs, hw, hc]; omega
        · simp [hs, hw, hc]; exact h
      · simp [hs, hw]; exact h
  | consume =>
    simp only [esStep]
    by_cases hd : s.dead = true
    · simp [hd]; exact h
    · cases hb : s.buf with
      | nil => simp [hd]; exact h
      | cons e r => simp [hb] at h; simp [hd]; omega
  | consumeFail =>
    simp only [esStep]
    by_cases hd : s.dead = true
    · simp [hd]; exact h
    · cases hb : s.buf with
      | nil => simp [hd]; exact h
      | cons e r => simp [hb] at h; simp [hd]; omega
  | stop => simpa [esStep] using h

theorem es_cap (fs : List Filter) (cap : Nat) (sched : List Act) (s : ES) (h : s.buf.length ≤ cap) :
    (sched.foldl (esStep fs cap) s).buf.length ≤ cap := by
  induction sched generalizing s with
  | nil => simpa using h
  | cons a r ih => rw [List.foldl_cons]; exact ih _ (esStep_cap fs cap s a h)

/-- a stopped stream: nothing enters the buffer or the log any more, whatever is dispatched -/
theorem es_after_stop (fs : List Filter) (cap : Nat) (sched : List Act) (s : ES) (hs : s.stopped = true) :
    (sched.foldl (esStep fs cap) s).log = s.log ∧ (sched.foldl (esStep fs cap) s).stopped = true := by
  induction sched generalizing s with
  | nil => simp [hs]
  | cons a r ih =>
    rw [List.foldl_cons]
    have hstep : (esStep fs cap s a).log = s.log ∧ (esStep fs cap s a).stopped = true := by
      cases a with
      | arrive e => simp [esStep, hs]
      | consume =>
        simp only [esStep]
        by_cases hd : s.dead = true
        · simp [hd, hs]
        · cases hb : s.buf <;> simp [hd, hs]
      | consumeFail =>
        simp only [esStep]
        by_cases hd : s.dead = true
        · simp [hd, hs]
        · cases hb : s.buf <;> simp [hd, hs]
      | stop => simp [esStep]
    obtain ⟨h1, h3⟩ := ih _ hstep.2
    exact ⟨by rw [h1, hstep.1], h3⟩

theorem es_drain (fs : List Filter) (cap : Nat) (n : Nat) (s : ES) (h : s.buf.length ≤ n) (hd : s.dead = false) :
    ((List.replicate n Act.consume).foldl (esStep fs cap) s).buf = [] ∧
    ((List.replicate n Act.consume).foldl (esStep fs cap) s).sent = s.sent ++ s.buf ∧
    ((List.replicate n Act.consume).foldl (esStep fs cap) s).log = s.log := by
  induction n generalizing s with
  | zero =>
    have : s.buf = [] := by cases hb : s.buf <;> simp_all
    simp [this]
  | succ n ih =>
    rw [List.replicate_succ, List.foldl_cons]
    cases hb : s.buf with
    | nil =>
      have hs : esStep fs cap s .consume = s := by simp [esStep, hb, hd]
      rw [hs]
      have := ih s (by simp [hb]) hd
      simpa [hb] using this
    | cons e r =>
      have hs : esStep fs cap s .consume = { s with buf := r, sent := s.sent ++ [e] } := by simp [esStep, hb, hd]
      rw [hs]
      have := ih { s with buf := r, sent := s.sent ++ [e] } (by simp [hb] at h; simpa using by omega) hd
      simpa using this

/-! ## query stream -/

theorem acksOf_append (a b : List Rec) : acksOf (a ++ b) = acksOf a ++ acksOf b := by
  induction a with
  | nil => simp [acksOf]
  | cons x a ih => cases x <;> simp [acksOf, ih]

theorem respsOf_append (a b : List Rec) : respsOf (a ++ b) = respsOf a ++ respsOf b := by
  induction a with
  | nil => simp [respsOf]
  | cons x a ih => cases x <;> simp [respsOf, ih]

/-- Invariant of the repaired loop. -/
structure QInv (s : QS) : Prop where
  acks_live : s.stopped = false → acksOf s.out ++ s.ackQ = s.pushedAcks
  acks_pre : acksOf s.out <+: s.pushedAcks
  resps_live : s.stopped = false → respsOf s.out ++ s.respQ = s.pushedResps
  resps_pre : respsOf s.out <+: s.pushedResps
  no_done_live : s.stopped = false → s.out.all (!·.isDone) = true
  done_last : s.stopped = true → s.failed = true ∨ ∃ pre, s.out = pre ++ [.done] ∧ pre.all (!·.isDone) = true

theorem qinv_fresh (ackNil fired : Bool) : QInv { ackNil := ackNil, fired := fired } := by
  constructor <;> simp [acksOf, respsOf]

theorem prefix_append_right {α} {a b : List α} (c : List α) (h : a <+: b) : a <+: b ++ c := by
  obtain ⟨t, rfl⟩ := h
  exact ⟨t ++ c, by simp⟩

theorem qStep_inv (s : QS) (a : QAct) (h : QInv s) : QInv (qStep s a) := by
  obtain ⟨h1, h2, h3, h4, h5, h6⟩ := h
  cases a with
  | pushAck x =>
    simp only [qStep]
    by_cases hc : s.closed = true
    · simp [hc]; exact ⟨h1, h2, h3, h4, h5, h6⟩
    · simp [hc]
      exact ⟨fun hs => by simp [← h1 hs], prefix_append_right _ h2, h3, h4, h5, h6⟩
  | pushResp f p =>
    simp only [qStep]
    by_cases hc : s.closed = true
    · simp [hc]; exact ⟨h1, h2, h3, h4, h5, h6⟩
    · simp [hc]
      exact ⟨h1, h2, fun hs => by simp [← h3 hs], prefix_append_right _ h4, h5, h6⟩
  | close => exact ⟨h1, h2, h3, h4, h5, h6⟩
  | fire => exact ⟨h1, h2, h3, h4, h5, h6⟩
  | selAck ok =>
    simp only [qStep]
    split
    · exact ⟨h1, h2, h3, h4, h5, h6⟩
    · rename_i hc0
      have hs : s.stopped = false := by
        cases hst : s.stopped <;> simp [hst] at hc0 ⊢
      split
      · rename_i x r hq
        have e1 := h1 hs
        rw [hq] at e1
        split
        · refine ⟨fun _ => ?_, ?_, fun _ => ?_, ?_, fun _ => ?_, fun hh => ?_⟩
          · simp [acksOf_append, acksOf, ← e1]
          · exact ⟨r, by simp [acksOf_append, acksOf, ← e1]⟩
          · simpa [respsOf_append, respsOf] using h3 hs
          · simpa [respsOf_append, respsOf] using h4
          · simpa [Rec.isDone] using h5 hs
          · exact absurd hh (by simp [hs])
        · exact ⟨fun hh => by simp at hh, h2, fun hh => by simp at hh, h4, fun hh => by simp at hh, fun _ => Or.inl rfl⟩
      · rename_i hq
        split
        · exact ⟨fun hh => by simpa [hq] using h1 hh, h2, h3, h4, h5, h6⟩
        · exact ⟨h1, h2, h3, h4, h5, h6⟩
  | selResp ok =>
    simp only [qStep]
    split
    · exact ⟨h1, h2, h3, h4, h5, h6⟩
    · rename_i hc0
      have hs : s.stopped = false := by
        cases hst : s.stopped <;> simp [hst] at hc0 ⊢
      split
      · rename_i f p r hq
        have e1 := h3 hs
        rw [hq] at e1
        split
        · refine ⟨fun _ => ?_, ?_, fun _ => ?_, ?_, fun _ => ?_, fun hh => ?_⟩
          · simpa [acksOf_append, acksOf] using h1 hs
          · simpa [acksOf_append, acksOf] using h2
          · simp [respsOf_append, respsOf, ← e1]
          · exact ⟨r, by simp [respsOf_append, respsOf, ← e1]⟩
          · simpa [Rec.isDone] using h5 hs
          · exact absurd hh (by simp [hs])
        · exact ⟨fun hh => by simp at hh, h2, fun hh => by simp at hh, h4, fun hh => by simp at hh, fun _ => Or.inl rfl⟩
      · rename_i hq
        split
        · exact ⟨h1, h2, fun hh => by simpa [hq] using h3 hh, h4, h5, h6⟩
        · exact ⟨h1, h2, h3, h4, h5, h6⟩
  | selDone ok =>
    simp only [qStep]
    split
    · exact ⟨h1, h2, h3, h4, h5, h6⟩
    · rename_i hc0
      have hs : s.stopped = false := by
        cases hst : s.stopped <;> simp [hst] at hc0 ⊢
      split
      · refine ⟨fun hh => by simp at hh, ?_, fun hh => by simp at hh, ?_, fun hh => by simp at hh, fun _ => ?_⟩
        · simpa [acksOf_append, acksOf] using h2
        · simpa [respsOf_append, respsOf] using h4
        · right; exact ⟨s.out, rfl, by simpa using h5 hs⟩
      · exact ⟨fun hh => by simp at hh, h2, fun hh => by simp at hh, h4, fun hh => by simp at hh, fun _ => Or.inl rfl⟩

theorem qRun_inv (sched : List QAct) (s : QS) (h : QInv s) : QInv (qRun s sched) := by
  induction sched generalizing s with
  | nil => simpa [qRun] using h
  | cons a r ih => simp only [qRun, List.foldl_cons]; exact ih _ (qStep_inv s a h)

/-- Once `Stream` has returned nothing more is sent. -/
theorem qStep_stopped (s : QS) (a : QAct) (h : s.stopped = true) :
    (qStep s a).out = s.out ∧ (qStep s a).stopped = true := by
  cases a <;> simp [qStep, h] <;> split <;> simp [h]

theorem qRun_stopped (sched : List QAct) (s : QS) (h : s.stopped = true) :
    (qRun s sched).out = s.out ∧ (qRun s sched).stopped = true := by
  induction sched generalizing s with
  | nil => simp [qRun, h]
  | cons a r ih =>
    simp only [qRun, List.foldl_cons]
    obtain ⟨h1, h2⟩ := qStep_stopped s a h
    obtain ⟨h3, h4⟩ := ih _ h2
    exact ⟨by simpa [qRun, h1] using h3, h4⟩

end SerfProofs.IpcStreams
