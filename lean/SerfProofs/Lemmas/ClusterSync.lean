/-
A complete simultaneous state-sync round on the cluster model (`syncOps` / `syncRound` of
`SerfModel.Model.Cluster`) and the cluster-level AGREEMENT clause of C02.

Every reachable cluster state is the result of SOME delivery schedule of join / leave intents, so
the theorems are stated for an ARBITRARY pre-sync cluster `c` with the per-node bookkeeping
invariant (`AllBook`, which holds in every reachable state: `allBook_crun`), followed by ONE round
in which every running node (`R`) merges the LocalState of every other running node, all LocalStates
taken before the round.

KEY LEMMA  `merge_peer_rec` (one merge), `run_merges_rec` (a list of merges), `sync_rec_joinonly`
  (cluster form): the exact effect on the record of `x` — a peer that does not list `x` as left
  contributes its status time as a JOIN intent, a peer that does contributes a leave claim at its
  status time + 1; entries about other names never touch the record; an unknown `x` stays unknown.
VIEWS (decidable)  `UpView`, `NoTie`, `DownView`, `SomeLeftAtMax`, `NobodyLeft`.
THEOREMS
  `agreement_running`  UpView ∧ NoTie  ⇒ everybody who lists x lists it alive at `maxLtime`
  `agreement_running_pair`  the same for pairs of nodes;  `tie_persists`  ¬NoTie ⇒ the tie survives the round
  `agreement_midleave` UpView          ⇒ UpView after the round, known-ness unchanged
  `agreement_left`     DownView ∧ SomeLeftAtMax (∧ no uint64 wrap) ⇒ everybody who lists x lists it left
  `agreement_failed`   DownView ∧ NobodyLeft ⇒ everybody who lists x lists it failed at `maxLtime`
NECESSITY  `tie_violates_NoTie`, `claim_violates_NoTie` (both recorded counterexamples violate the
  same `NoTie`), `stale_left_counterexample` (a leave held below the maximum: one round is not
  enough, two are), `wrap_counterexample`; non-vacuity: `running_example`, `midleave_example`,
  `left_example`, `failed_example`.
Core Lean only.
-/
import SerfProofs.Lemmas.Cluster
import SerfProofs.Lemmas.NodeObserver
namespace SerfProofs.ClusterSync
open SerfModel SerfModel.Node SerfModel.Cluster SerfProofs.NodeBook SerfProofs.NodeSelf SerfProofs.NodeObserver
open SerfProofs.Cluster (wx)

/-! ### maxima of lists of times -/

theorem foldl_max_ge_init (ts : List Nat) : ∀ a : Nat, a ≤ ts.foldl max a := by
  induction ts with
  | nil => intro a; exact Nat.le_refl _
  | cons t ts ih => intro a; exact Nat.le_trans (Nat.le_max_left a t) (ih _)

theorem foldl_max_ge_mem (ts : List Nat) : ∀ (a t : Nat), t ∈ ts → t ≤ ts.foldl max a := by
  induction ts with
  | nil => intro a t h; cases h
  | cons u ts ih =>
    intro a t h
    rcases List.mem_cons.mp h with e | e
    · subst e; exact Nat.le_trans (Nat.le_max_right a t) (foldl_max_ge_init ts _)
    · exact ih _ t e

theorem foldl_max_mem (ts : List Nat) : ∀ a : Nat, ts.foldl max a = a ∨ ts.foldl max a ∈ ts := by
  induction ts with
  | nil => intro a; exact Or.inl rfl
  | cons u ts ih =>
    intro a
    rcases ih (max a u) with h | h
    · simp only [List.foldl_cons]
      rw [h]
      rcases Nat.le_total a u with hau | hau
      · right; rw [Nat.max_eq_right hau]; exact List.mem_cons_self ..
      · left; exact Nat.max_eq_left hau
    · right; exact List.mem_cons_of_mem _ h

/-! ### a fold of join intents on one record -/

/-- the join intents at times `ts`, in order, applied to a record -/
def jfold (ts : List Nat) (m : Member) : Member := ts.foldl (fun m t => joinUpd t m) m

theorem joinUpd_zero (m : Member) : joinUpd 0 m = m := by
  unfold joinUpd; rw [if_pos (Nat.zero_le _)]

theorem joinUpd_spec (t : Nat) (m : Member) :
    (joinUpd t m).leaveTime = m.leaveTime ∧ m.ltime ≤ (joinUpd t m).ltime ∧ t ≤ (joinUpd t m).ltime ∧
    ((joinUpd t m).ltime = m.ltime ∨ (joinUpd t m).ltime = t) ∧
    (m.status ≠ .leaving → (joinUpd t m).status = m.status) ∧
    (m.status = .leaving → ((joinUpd t m).status = .leaving ∧ (joinUpd t m).ltime = m.ltime) ∨
      ((joinUpd t m).status = .alive ∧ m.ltime < (joinUpd t m).ltime)) := by
  unfold joinUpd
  split
  · next h => exact ⟨rfl, Nat.le_refl _, h, Or.inl rfl, fun _ => rfl, fun hs => Or.inl ⟨hs, rfl⟩⟩
  · next h =>
    refine ⟨rfl, by show m.ltime ≤ t; omega, Nat.le_refl _, Or.inr rfl, ?_, ?_⟩
    · intro hs; show (if m.status = .leaving then Status.alive else m.status) = m.status; rw [if_neg hs]
    · intro hs; right
      refine ⟨?_, by show m.ltime < t; omega⟩
      show (if m.status = .leaving then Status.alive else m.status) = .alive; rw [if_pos hs]

theorem jfold_spec (ts : List Nat) : ∀ m : Member,
    (jfold ts m).leaveTime = m.leaveTime ∧ m.ltime ≤ (jfold ts m).ltime ∧ (∀ t ∈ ts, t ≤ (jfold ts m).ltime) ∧
    ((jfold ts m).ltime = m.ltime ∨ (jfold ts m).ltime ∈ ts) ∧
    (m.status ≠ .leaving → (jfold ts m).status = m.status) ∧
    (m.status = .leaving → ((jfold ts m).status = .leaving ∧ (jfold ts m).ltime = m.ltime) ∨
      ((jfold ts m).status = .alive ∧ m.ltime < (jfold ts m).ltime)) := by
  induction ts with
  | nil => intro m; exact ⟨rfl, Nat.le_refl _, fun t h => (by cases h), Or.inl rfl, fun _ => rfl, fun hs => Or.inl ⟨hs, rfl⟩⟩
  | cons u ts ih =>
    intro m
    obtain ⟨a1, a2, a3, a4, a5, a6⟩ := joinUpd_spec u m
    obtain ⟨b1, b2, b3, b4, b5, b6⟩ := ih (joinUpd u m)
    have e : jfold (u :: ts) m = jfold ts (joinUpd u m) := rfl
    rw [e]
    refine ⟨b1.trans a1, Nat.le_trans a2 b2, ?_, ?_, ?_, ?_⟩
    · intro t ht
      rcases List.mem_cons.mp ht with h | h
      · subst h; exact Nat.le_trans a3 b2
      · exact b3 t h
    · rcases b4 with h | h
      · rcases a4 with h' | h'
        · left; rw [h, h']
        · right; rw [h, h']; exact List.mem_cons_self ..
      · right; exact List.mem_cons_of_mem _ h
    · intro hs; rw [b5 (by rw [a5 hs]; exact hs), a5 hs]
    · intro hs
      rcases a6 hs with ⟨c1, c2⟩ | ⟨c1, c2⟩
      · rcases b6 c1 with ⟨d1, d2⟩ | ⟨d1, d2⟩
        · left; exact ⟨d1, d2.trans c2⟩
        · right; exact ⟨d1, by omega⟩
      · right
        refine ⟨?_, by omega⟩
        rw [b5 (by rw [c1]; simp), c1]

/-! ### the effect of one merge on the record of `x` -/

theorem leaveUpd_idem (lt : Nat) (m : Member) : leaveUpd lt (leaveUpd lt m) = leaveUpd lt m := by
  by_cases h : lt ≤ m.ltime
  · have e : leaveUpd lt m = m := by simp [leaveUpd, h]
    rw [e, e]
  · simp [leaveUpd, h]

theorem hli_rec_other (n : Node) (x : Name) (lt w : Nat) (hx : x ≠ n.name) :
    alookup (handleLeaveIntent n x lt false w).1.members x = (alookup n.members x).map (leaveUpd lt) := by
  rw [hli_rec]
  cases hm : alookup n.members x with
  | none => rfl
  | some m =>
    have h2 : ¬ (x = n.name ∧ n.life = .alive) := fun h => hx h.1
    simp only [Option.map_some]
    split
    · next h => simp [leaveUpd, h]
    · simp

theorem mergeLefts_rec (st : List (Name × Nat)) (w : Nat) (x : Name) (lf : List Name) :
    ∀ n : Node, x ≠ n.name →
      alookup (mergeLefts n st w lf).1.members x =
        if x ∈ lf then (alookup n.members x).map (leaveUpd (mergeClaim st x)) else alookup n.members x := by
  induction lf with
  | nil => intro n _; simp [mergeLefts]
  | cons y ys ih =>
    intro n hx
    unfold mergeLefts; dsimp only
    have hn := hli_name n y ((((alookup st y).getD 0) + 1) % two64) false w
    rw [ih _ (by rw [hn]; exact hx)]
    by_cases hy : y = x
    · subst hy
      have h1 := hli_rec_other n y ((((alookup st y).getD 0) + 1) % two64) w hx
      rw [h1]
      have hc : mergeClaim st y = (((alookup st y).getD 0) + 1) % two64 := rfl
      rw [hc]
      simp only [List.mem_cons, true_or, if_true]
      split
      · rw [Option.map_map]
        congr 1
        funext m
        exact leaveUpd_idem _ m
      · rfl
    · rw [hli_lookup_ne _ _ _ _ _ _ (fun e => hy e.symm)]
      have : (x ∈ y :: ys) ↔ x ∈ ys := by
        simp only [List.mem_cons]
        constructor
        · rintro (e | e)
          · exact absurd e.symm hy
          · exact e
        · exact Or.inr
      simp only [this]

theorem mergeLefts_lookup_not_mem (st : List (Name × Nat)) (w : Nat) (x : Name) (lf : List Name) (hx : x ∉ lf) :
    ∀ n : Node, alookup (mergeLefts n st w lf).1.members x = alookup n.members x := by
  induction lf with
  | nil => intro n; rfl
  | cons y ys ih =>
    intro n
    unfold mergeLefts; dsimp only
    rw [ih (fun h => hx (List.mem_cons_of_mem _ h))]
    exact hli_lookup_ne _ _ _ _ _ _ (fun e => hx (by rw [e]; exact List.mem_cons_self ..))

/-- the join times a status list carries about `x` -/
def stTimes (st : List (Name × Nat)) (x : Name) : List Nat := (st.filter (fun p => decide (p.1 = x))).map (·.2)

theorem mergeJoins_rec (lf : List Name) (w : Nat) (x : Name) (hx : x ∉ lf) (st : List (Name × Nat)) :
    ∀ n : Node, alookup (mergeJoins n lf w st).members x = (alookup n.members x).map (jfold (stTimes st x)) := by
  induction st with
  | nil => intro n; cases h : alookup n.members x <;> simp [mergeJoins, stTimes, jfold, h]
  | cons q rest ih =>
    intro n
    obtain ⟨y, t⟩ := q
    unfold mergeJoins
    by_cases hy : y = x
    · subst hy
      rw [if_neg hx, ih, hji_rec, Option.map_map]
      have : stTimes ((y, t) :: rest) y = t :: stTimes rest y := by simp [stTimes]
      rw [this]
      rfl
    · have : stTimes ((y, t) :: rest) x = stTimes rest x := by simp [stTimes, hy]
      rw [this]
      split
      · exact ih n
      · rw [ih, hji_lookup_ne _ _ _ _ _ (fun e => hy e.symm)]

theorem alookup_map_ltime (ms : List (Name × Member)) (x : Name) :
    alookup (ms.map (fun p => (p.1, p.2.ltime))) x = (alookup ms x).map (·.ltime) := by
  induction ms with
  | nil => rfl
  | cons p ms ih =>
    simp only [List.map_cons, alookup_cons]
    split
    · rfl
    · exact ih

theorem stTimes_localState (ms : List (Name × Member)) (x : Name) (hk : (akeys ms).Nodup) :
    stTimes (ms.map (fun p => (p.1, p.2.ltime))) x =
      match alookup ms x with
      | none => []
      | some m => [m.ltime] := by
  induction ms with
  | nil => rfl
  | cons p ms ih =>
    simp only [akeys, List.map_cons, List.nodup_cons] at hk
    have ih' := ih hk.2
    rw [alookup_cons]
    by_cases hp : p.1 = x
    · have hnone : alookup ms x = none := by
        rw [alookup_eq_none_iff]; rw [← hp]; exact hk.1
      rw [hnone] at ih'
      have e : stTimes ((p :: ms).map (fun p => (p.1, p.2.ltime))) x
          = p.2.ltime :: stTimes (ms.map (fun p => (p.1, p.2.ltime))) x := by simp [stTimes, hp]
      rw [e, ih']
      simp [hp]
    · have e : stTimes ((p :: ms).map (fun p => (p.1, p.2.ltime))) x
          = stTimes (ms.map (fun p => (p.1, p.2.ltime))) x := by simp [stTimes, hp]
      rw [e, ih']
      simp [hp]

/-- what merging the LocalState of peer `p` does to a record about `x` -/
def peerUpd (x : Name) (p : Node) (m : Member) : Member :=
  match alookup p.members x with
  | none => m
  | some mp => if mp.status = .left then leaveUpd ((mp.ltime + 1) % two64) m else joinUpd mp.ltime m

/-- the merge of peer `p`'s LocalState -/
def mergeOf (w : Nat) (p : Node) : Op := Op.merge (localState p).1 (localState p).2.1 (localState p).2.2 w

/-- KEY LEMMA (one merge): the record of `x` after merging peer `p`'s LocalState. -/
theorem merge_peer_rec (n p : Node) (x : Name) (w : Nat) (hp : BookInv p)
    (h : x ≠ n.name ∨ statusOf p x ≠ some .left) :
    alookup (step n (mergeOf w p)).1.members x = (alookup n.members x).map (peerUpd x p) := by
  show alookup (merge n _ _ _ w).1.members x = _
  rw [merge_eq]; dsimp only [localState]
  by_cases hl : x ∈ p.left
  · have hs := (hp.leftIff x).mp hl
    have hx : x ≠ n.name := by
      rcases h with h | h
      · exact h
      · exact absurd hs h
    rw [mergeJoins_lookup_of_mem_left _ _ _ _ hl, mergeLefts_rec _ _ _ _ _ (by rw [mergeStart_name]; exact hx),
      if_pos hl, mergeStart_members]
    obtain ⟨mp, hmp, hst⟩ := (statusOf_eq_iff p x .left).mp hs
    have hc : mergeClaim (p.members.map (fun p => (p.1, p.2.ltime))) x = (mp.ltime + 1) % two64 := by
      unfold mergeClaim; rw [alookup_map_ltime, hmp]; rfl
    rw [hc]
    congr 1
    funext m
    unfold peerUpd
    rw [hmp]; simp [hst]
  · rw [mergeJoins_rec _ _ _ hl, mergeLefts_lookup_not_mem _ _ _ _ hl, mergeStart_members,
      stTimes_localState _ _ hp.keys]
    congr 1
    funext m
    unfold peerUpd
    cases hmp : alookup p.members x with
    | none => rfl
    | some mp =>
      have hst : mp.status ≠ .left := by
        intro e
        apply hl
        rw [hp.leftIff x, statusOf_eq_iff]
        exact ⟨mp, hmp, e⟩
      simp [hst, jfold]

/-! ### a whole round at one node -/

/-- what the merge of the LocalState of node `j` (if there is one) does to a record about `x` -/
def idxUpd (c : Cluster) (x : Name) (j : Nat) (m : Member) : Member :=
  match c.nodes[j]? with
  | none => m
  | some p => peerUpd x p m

theorem syncOps_eq (c : Cluster) (R : List Nat) (i w : Nat) :
    syncOps c R i w = (R.filter (· ≠ i)).filterMap fun j => c.nodes[j]?.map (mergeOf w) := rfl

/-- KEY LEMMA (a list of merges): the record of `x` after merging the LocalStates of the nodes `js`. -/
theorem run_merges_rec (c : Cluster) (x : Name) (w : Nat) (js : List Nat) : ∀ n : Node,
    (∀ j ∈ js, ∀ p, c.nodes[j]? = some p → BookInv p ∧ (x ≠ n.name ∨ statusOf p x ≠ some .left)) →
    alookup (run n (js.filterMap fun j => c.nodes[j]?.map (mergeOf w))).members x =
      (alookup n.members x).map (fun m => js.foldl (fun m j => idxUpd c x j m) m) := by
  induction js with
  | nil => intro n _; cases h : alookup n.members x <;> simp [run, h]
  | cons j js ih =>
    intro n h
    have hrest : ∀ n' : Node, n'.name = n.name →
        ∀ j' ∈ js, ∀ p, c.nodes[j']? = some p → BookInv p ∧ (x ≠ n'.name ∨ statusOf p x ≠ some .left) := by
      intro n' hn j' hj' p hp
      rw [hn]; exact h j' (List.mem_cons_of_mem _ hj') p hp
    cases hj : c.nodes[j]? with
    | none =>
      simp only [List.filterMap_cons, hj, Option.map_none, List.foldl_cons]
      rw [ih n (hrest n rfl)]
      have : ∀ m, idxUpd c x j m = m := by intro m; simp [idxUpd, hj]
      simp only [this]
    | some p =>
      simp only [List.filterMap_cons, hj, Option.map_some, List.foldl_cons, run]
      obtain ⟨hb, hx⟩ := h j (List.mem_cons_self ..) p hj
      rw [ih _ (hrest _ (NodeObserver.step_name n _)), merge_peer_rec n p x w hb hx, Option.map_map]
      have : ∀ m, idxUpd c x j m = peerUpd x p m := by intro m; simp [idxUpd, hj]
      simp only [this]
      rfl

/-! ### the views of the cluster before the round -/

/-- the status time node `i` holds for `x` (0 if there is no such node or it does not list `x`) -/
def ltimeAt (c : Cluster) (i : Nat) (x : Name) : Nat := (c.nodes[i]?.bind (fun n => ltimeOf n x)).getD 0

/-- the newest status time any node of `R` holds for `x` -/
def maxLtime (c : Cluster) (R : List Nat) (x : Name) : Nat := (R.map (ltimeAt c · x)).foldl max 0

/-- executable form of "every node of `R` satisfies `f`" -/
def allNodesB (c : Cluster) (R : List Nat) (f : Nat → Node → Bool) : Bool :=
  R.all fun i => match c.nodes[i]? with
    | some n => f i n
    | none => true

/-- executable form of "some node of `R` satisfies `f`" -/
def anyNodeB (c : Cluster) (R : List Nat) (f : Nat → Node → Bool) : Bool :=
  R.any fun i => match c.nodes[i]? with
    | some n => f i n
    | none => false

theorem allNodesB_iff (c : Cluster) (R : List Nat) (P : Nat → Node → Prop) [∀ i n, Decidable (P i n)] :
    allNodesB c R (fun i n => decide (P i n)) = true ↔ ∀ i ∈ R, ∀ n, c.nodes[i]? = some n → P i n := by
  unfold allNodesB
  rw [List.all_eq_true]
  constructor
  · intro h i hi n hn
    have := h i hi
    rw [hn] at this
    exact of_decide_eq_true this
  · intro h i hi
    cases hn : c.nodes[i]? with
    | none => rfl
    | some n => exact decide_eq_true (h i hi n hn)

theorem anyNodeB_iff (c : Cluster) (R : List Nat) (P : Nat → Node → Prop) [∀ i n, Decidable (P i n)] :
    anyNodeB c R (fun i n => decide (P i n)) = true ↔ ∃ i ∈ R, ∃ n, c.nodes[i]? = some n ∧ P i n := by
  unfold anyNodeB
  rw [List.any_eq_true]
  constructor
  · rintro ⟨i, hi, h⟩
    cases hn : c.nodes[i]? with
    | none => rw [hn] at h; cases h
    | some n => rw [hn] at h; exact ⟨i, hi, n, hn, of_decide_eq_true h⟩
  · rintro ⟨i, hi, n, hn, h⟩
    refine ⟨i, hi, ?_⟩
    rw [hn]; exact decide_eq_true h

instance decForallNodes (c : Cluster) (R : List Nat) (P : Nat → Node → Prop) [∀ i n, Decidable (P i n)] :
    Decidable (∀ i ∈ R, ∀ n, c.nodes[i]? = some n → P i n) :=
  decidable_of_iff _ (allNodesB_iff c R P)

instance decExistsNode (c : Cluster) (R : List Nat) (P : Nat → Node → Prop) [∀ i n, Decidable (P i n)] :
    Decidable (∃ i ∈ R, ∃ n, c.nodes[i]? = some n ∧ P i n) :=
  decidable_of_iff _ (anyNodeB_iff c R P)

/-- what a truthful memberlist that reports `x` UP allows node `n` to hold about `x` -/
def UpAt (n : Node) (x : Name) : Prop :=
  x ∉ n.left ∧ (statusOf n x = none ∨ statusOf n x = some .alive ∨ statusOf n x = some .leaving)

instance (n : Node) (x : Name) : Decidable (UpAt n x) := by unfold UpAt; infer_instance

/-- memberlist truthful, x up: every running node that lists x lists it alive or leaving, and nobody
has x on its left list.  (Nothing is asked of the node named x itself beyond this: while it runs it
lists itself alive, mid-leave it lists itself leaving.) -/
def UpView (c : Cluster) (R : List Nat) (x : Name) : Prop := ∀ i ∈ R, ∀ n, c.nodes[i]? = some n → UpAt n x

/-- THE excluded class: some running node lists the running x as `leaving` with a status time that no
join time known anywhere in the cluster exceeds -/
def NoTie (c : Cluster) (R : List Nat) (x : Name) : Prop :=
  ∀ i ∈ R, ∀ n, c.nodes[i]? = some n → statusOf n x = some .leaving → ltimeAt c i x < maxLtime c R x

/-- what a truthful memberlist that reports `x` DOWN allows node `n` to hold about `x` -/
def DownAt (n : Node) (x : Name) : Prop :=
  (statusOf n x = none ∨ statusOf n x = some .failed ∨ statusOf n x = some .left) ∧ n.name ≠ x

instance (n : Node) (x : Name) : Decidable (DownAt n x) := by unfold DownAt; infer_instance

/-- memberlist truthful, x down: every running node that lists x lists it failed or left, and no
running node is named x -/
def DownView (c : Cluster) (R : List Nat) (x : Name) : Prop := ∀ i ∈ R, ∀ n, c.nodes[i]? = some n → DownAt n x

/-- some running node lists x as left at the newest status time known in the cluster -/
def SomeLeftAtMax (c : Cluster) (R : List Nat) (x : Name) : Prop :=
  ∃ b ∈ R, ∃ n, c.nodes[b]? = some n ∧ (statusOf n x = some .left ∧ ltimeAt c b x = maxLtime c R x)

/-- no running node lists x as left -/
def NobodyLeft (c : Cluster) (R : List Nat) (x : Name) : Prop :=
  ∀ i ∈ R, ∀ n, c.nodes[i]? = some n → statusOf n x ≠ some .left

/-- per-node well-formedness that holds in every reachable state (C15): `BookInv` for every node -/
def AllBook (c : Cluster) : Prop := ∀ n ∈ c.nodes, BookInv n

instance (c : Cluster) (R : List Nat) (x : Name) : Decidable (UpView c R x) := by unfold UpView; infer_instance
instance (c : Cluster) (R : List Nat) (x : Name) : Decidable (NoTie c R x) := by unfold NoTie; infer_instance
instance (c : Cluster) (R : List Nat) (x : Name) : Decidable (DownView c R x) := by unfold DownView; infer_instance
instance (c : Cluster) (R : List Nat) (x : Name) : Decidable (SomeLeftAtMax c R x) := by unfold SomeLeftAtMax; infer_instance
instance (c : Cluster) (R : List Nat) (x : Name) : Decidable (NobodyLeft c R x) := by unfold NobodyLeft; infer_instance

theorem UpView.nobodyLeft {c : Cluster} {R : List Nat} {x : Name} (h : UpView c R x) : NobodyLeft c R x := by
  intro i hi n hn e
  rcases (h i hi n hn).2 with h1 | h1 | h1 <;> rw [e] at h1 <;> cases h1

/-! ### the round, node by node -/

theorem syncRound_node (c : Cluster) (R : List Nat) (w i : Nat) :
    (syncRound c R w).nodes[i]? = (c.nodes[i]?).map (fun n => if i ∈ R then run n (syncOps c R i w) else n) := by
  simp [syncRound, List.getElem?_mapIdx]

theorem syncRound_node_inv {c : Cluster} {R : List Nat} {w i : Nat} {n' : Node}
    (h : (syncRound c R w).nodes[i]? = some n') (hi : i ∈ R) :
    ∃ n, c.nodes[i]? = some n ∧ n' = run n (syncOps c R i w) := by
  rw [syncRound_node] at h
  cases hn : c.nodes[i]? with
  | none => rw [hn] at h; cases h
  | some n =>
    rw [hn] at h
    simp only [Option.map_some, if_pos hi, Option.some.injEq] at h
    exact ⟨n, rfl, h.symm⟩

theorem AllBook.get {c : Cluster} (hb : AllBook c) {i : Nat} {n : Node} (h : c.nodes[i]? = some n) : BookInv n :=
  hb n (List.mem_of_getElem? h)

theorem ltimeAt_of_lookup {c : Cluster} {i : Nat} {n : Node} {x : Name} {m : Member}
    (hn : c.nodes[i]? = some n) (hm : alookup n.members x = some m) : ltimeAt c i x = m.ltime := by
  simp [ltimeAt, hn, ltimeOf, hm]

theorem idxUpd_join (c : Cluster) (x : Name) (j : Nat) (m : Member)
    (h : ∀ p, c.nodes[j]? = some p → statusOf p x ≠ some .left) :
    idxUpd c x j m = joinUpd (ltimeAt c j x) m := by
  unfold idxUpd ltimeAt
  cases hp : c.nodes[j]? with
  | none => simp [joinUpd_zero]
  | some p =>
    have hs := h p hp
    unfold peerUpd
    cases hm : alookup p.members x with
    | none => simp [ltimeOf, hm, joinUpd_zero]
    | some mp =>
      have : mp.status ≠ .left := by
        intro e; apply hs; rw [statusOf_eq_iff]; exact ⟨mp, hm, e⟩
      simp [ltimeOf, hm, this]

theorem foldl_idx_join (c : Cluster) (x : Name) (js : List Nat)
    (h : ∀ j ∈ js, ∀ p, c.nodes[j]? = some p → statusOf p x ≠ some .left) :
    ∀ m, js.foldl (fun m j => idxUpd c x j m) m = jfold (js.map (ltimeAt c · x)) m := by
  induction js with
  | nil => intro m; rfl
  | cons j js ih =>
    intro m
    simp only [List.foldl_cons, List.map_cons, jfold]
    rw [idxUpd_join c x j m (h j (List.mem_cons_self ..))]
    exact ih (fun j' hj' => h j' (List.mem_cons_of_mem _ hj')) _

/-- KEY LEMMA (cluster form, nobody lists `x` as left): in a complete round node `i` applies to its
record of `x` the status times of all other running nodes as JOIN intents; an unknown `x` stays unknown. -/
theorem sync_rec_joinonly (c : Cluster) (R : List Nat) (x : Name) (w : Nat) (hb : AllBook c)
    (hn : NobodyLeft c R x) (i : Nat) (n : Node) :
    alookup (run n (syncOps c R i w)).members x =
      (alookup n.members x).map (jfold ((R.filter (· ≠ i)).map (ltimeAt c · x))) := by
  have hR : ∀ j ∈ R.filter (· ≠ i), j ∈ R := fun j hj => (List.mem_filter.mp hj).1
  rw [syncOps_eq, run_merges_rec c x w _ n
    (fun j hj p hp => ⟨hb.get hp, Or.inr (hn j (hR j hj) p hp)⟩)]
  congr 1
  funext m
  exact foldl_idx_join c x _ (fun j hj p hp => hn j (hR j hj) p hp) m

theorem ltimeAt_le_max (c : Cluster) (R : List Nat) (x : Name) (j : Nat) (hj : j ∈ R) :
    ltimeAt c j x ≤ maxLtime c R x :=
  foldl_max_ge_mem _ 0 _ (List.mem_map.mpr ⟨j, hj, rfl⟩)

/-- after a round of join intents only, node `i`'s status time for `x` is the cluster maximum -/
theorem ltime_after_round (c : Cluster) (R : List Nat) (x : Name) (i : Nat) (hi : i ∈ R) (m : Member)
    (hm : ltimeAt c i x = m.ltime) :
    (jfold ((R.filter (· ≠ i)).map (ltimeAt c · x)) m).ltime = maxLtime c R x := by
  obtain ⟨_, b2, b3, b4, _, _⟩ := jfold_spec ((R.filter (· ≠ i)).map (ltimeAt c · x)) m
  apply Nat.le_antisymm
  · rcases b4 with h | h
    · rw [h, ← hm]; exact ltimeAt_le_max c R x i hi
    · obtain ⟨j, hj, e⟩ := List.mem_map.mp h
      rw [← e]; exact ltimeAt_le_max c R x j (List.mem_filter.mp hj).1
  · rcases foldl_max_mem (R.map (ltimeAt c · x)) 0 with h | h
    · show (R.map (ltimeAt c · x)).foldl max 0 ≤ _
      rw [h]; exact Nat.zero_le _
    · obtain ⟨j, hj, e⟩ := List.mem_map.mp h
      show (R.map (ltimeAt c · x)).foldl max 0 ≤ _
      rw [← e]
      by_cases hji : j = i
      · subst hji; rw [hm]; exact b2
      · exact b3 _ (List.mem_map.mpr ⟨j, List.mem_filter.mpr ⟨hj, by simpa using hji⟩, rfl⟩)

/-! ### agreement -/

/-- **running**: after the round EVERY running node that lists x lists it alive, at the common
status time `maxLtime` -/
theorem agreement_running (c : Cluster) (R : List Nat) (x : Name) (w : Nat) (hb : AllBook c)
    (hu : UpView c R x) (ht : NoTie c R x) :
    ∀ i ∈ R, ∀ n', (syncRound c R w).nodes[i]? = some n' → ∀ s, statusOf n' x = some s →
      s = .alive ∧ ltimeOf n' x = some (maxLtime c R x) := by
  intro i hi n' hn' s hs
  obtain ⟨n, hn, rfl⟩ := syncRound_node_inv hn' hi
  have hrec := sync_rec_joinonly c R x w hb hu.nobodyLeft i n
  rw [statusOf_eq_iff] at hs
  obtain ⟨m', hm', hst⟩ := hs
  rw [hm'] at hrec
  cases hm : alookup n.members x with
  | none => rw [hm] at hrec; cases hrec
  | some m =>
    rw [hm] at hrec
    simp only [Option.map_some, Option.some.injEq] at hrec
    have hlt := ltime_after_round c R x i hi m (ltimeAt_of_lookup hn hm)
    obtain ⟨_, _, _, _, b5, b6⟩ := jfold_spec ((R.filter (· ≠ i)).map (ltimeAt c · x)) m
    rw [← hrec] at hlt b5 b6
    refine ⟨?_, ?_⟩
    · rw [← hst]
      have hup := (hu i hi n hn).2
      rw [statusOf_of_lookup hm] at hup
      rcases hup with h | h | h
      · cases h
      · have : m.status = .alive := Option.some.inj h
        rw [b5 (by rw [this]; simp), this]
      · have hl : m.status = .leaving := Option.some.inj h
        have := ht i hi n hn (by rw [statusOf_of_lookup hm, hl])
        rw [ltimeAt_of_lookup hn hm] at this
        rcases b6 hl with ⟨_, d⟩ | ⟨d, _⟩
        · omega
        · exact d
    · rw [ltimeOf_eq_iff]; exact ⟨m', hm', hlt⟩

/-- **down otherwise** (nobody holds a leave): everybody who lists x stays `failed`, and all end at
the common status time `maxLtime` -/
theorem agreement_failed (c : Cluster) (R : List Nat) (x : Name) (w : Nat) (hb : AllBook c)
    (hd : DownView c R x) (hn : NobodyLeft c R x) :
    ∀ i ∈ R, ∀ n', (syncRound c R w).nodes[i]? = some n' → ∀ s, statusOf n' x = some s →
      s = .failed ∧ ltimeOf n' x = some (maxLtime c R x) := by
  intro i hi n' hn' s hs
  obtain ⟨n, hnode, rfl⟩ := syncRound_node_inv hn' hi
  have hrec := sync_rec_joinonly c R x w hb hn i n
  rw [statusOf_eq_iff] at hs
  obtain ⟨m', hm', hst⟩ := hs
  rw [hm'] at hrec
  cases hm : alookup n.members x with
  | none => rw [hm] at hrec; cases hrec
  | some m =>
    rw [hm] at hrec
    simp only [Option.map_some, Option.some.injEq] at hrec
    have hlt := ltime_after_round c R x i hi m (ltimeAt_of_lookup hnode hm)
    obtain ⟨_, _, _, _, b5, _⟩ := jfold_spec ((R.filter (· ≠ i)).map (ltimeAt c · x)) m
    rw [← hrec] at hlt b5
    refine ⟨?_, ?_⟩
    · rw [← hst]
      have hdn := (hd i hi n hnode).1
      have hnl := hn i hi n hnode
      rw [statusOf_of_lookup hm] at hdn hnl
      rcases hdn with h | h | h
      · cases h
      · have : m.status = .failed := Option.some.inj h
        rw [b5 (by rw [this]; simp), this]
      · exact absurd h hnl
    · rw [ltimeOf_eq_iff]; exact ⟨m', hm', hlt⟩

/-- **mid-leave / in general while up**: whatever `NoTie` says, after the round every running node
that lists x lists it alive or leaving (never failed / left, never erased), nobody has it on its left
list, and the set of nodes listing x is unchanged (for every node, running or not) -/
theorem agreement_midleave (c : Cluster) (R : List Nat) (x : Name) (w : Nat) (hb : AllBook c)
    (hu : UpView c R x) :
    UpView (syncRound c R w) R x ∧
    ∀ (i : Nat) (n n' : Node), c.nodes[i]? = some n → (syncRound c R w).nodes[i]? = some n' →
      known n' x = known n x := by
  constructor
  · intro i hi n' hn'
    obtain ⟨n, hn, rfl⟩ := syncRound_node_inv hn' hi
    have hrec := sync_rec_joinonly c R x w hb hu.nobodyLeft i n
    have hb' : BookInv (run n (syncOps c R i w)) := inv_run _ n (hb.get hn)
    obtain ⟨_, hst⟩ := hu i hi n hn
    have key : statusOf (run n (syncOps c R i w)) x = none ∨ statusOf (run n (syncOps c R i w)) x = some .alive ∨
        statusOf (run n (syncOps c R i w)) x = some .leaving := by
      cases hm : alookup n.members x with
      | none =>
        rw [hm] at hrec
        exact Or.inl (statusOf_of_lookup_none hrec)
      | some m =>
        rw [hm] at hrec
        rw [statusOf_of_lookup hm] at hst
        rw [statusOf_of_lookup hrec]
        obtain ⟨_, _, _, _, b5, b6⟩ := jfold_spec ((R.filter (· ≠ i)).map (ltimeAt c · x)) m
        rcases hst with h | h | h
        · cases h
        · have h' : m.status = .alive := Option.some.inj h
          right; left; rw [b5 (by rw [h']; simp), h']
        · rcases b6 (Option.some.inj h) with ⟨d, _⟩ | ⟨d, _⟩
          · right; right; rw [d]
          · right; left; rw [d]
    refine ⟨?_, key⟩
    rw [hb'.leftIff x]
    intro e
    rcases key with h | h | h <;> rw [e] at h <;> cases h
  · intro i n n' hn hn'
    rw [syncRound_node, hn] at hn'
    simp only [Option.map_some, Option.some.injEq] at hn'
    subst hn'
    split
    · unfold known
      rw [sync_rec_joinonly c R x w hb hu.nobodyLeft i n]
      cases alookup n.members x <;> rfl
    · rfl

/-- `agreement_running` as a statement about pairs: any two running nodes that list x agree on its
status (alive) and on its status time. -/
theorem agreement_running_pair (c : Cluster) (R : List Nat) (x : Name) (w : Nat) (hb : AllBook c)
    (hu : UpView c R x) (ht : NoTie c R x) (a b : Nat) (ha : a ∈ R) (hb' : b ∈ R) (na nb : Node)
    (hna : (syncRound c R w).nodes[a]? = some na) (hnb : (syncRound c R w).nodes[b]? = some nb)
    (ka : known na x = true) (kb : known nb x = true) :
    statusOf na x = some .alive ∧ statusOf nb x = some .alive ∧ ltimeOf na x = ltimeOf nb x := by
  have h := agreement_running c R x w hb hu ht
  have hk : ∀ n : Node, known n x = true → ∃ s, statusOf n x = some s := by
    intro n hk
    unfold known at hk
    unfold statusOf
    cases h : alookup n.members x with
    | none => rw [h] at hk; cases hk
    | some m => exact ⟨m.status, rfl⟩
  obtain ⟨sa, hsa⟩ := hk na ka
  obtain ⟨sb, hsb⟩ := hk nb kb
  obtain ⟨e1, t1⟩ := h a ha na hna sa hsa
  obtain ⟨e2, t2⟩ := h b hb' nb hnb sb hsb
  subst e1; subst e2
  exact ⟨hsa, hsb, t1.trans t2.symm⟩

/-- `NoTie` is exactly the excluded class: under a truthful up view, a running node that lists x as
leaving at the newest status time known in the cluster STILL lists it as leaving after the round. -/
theorem tie_persists (c : Cluster) (R : List Nat) (x : Name) (w : Nat) (hb : AllBook c) (hu : UpView c R x)
    (i : Nat) (hi : i ∈ R) (n : Node) (hn : c.nodes[i]? = some n) (hs : statusOf n x = some .leaving)
    (ht : ¬ ltimeAt c i x < maxLtime c R x) :
    ∃ n', (syncRound c R w).nodes[i]? = some n' ∧ statusOf n' x = some .leaving ∧
      ltimeOf n' x = some (maxLtime c R x) := by
  refine ⟨run n (syncOps c R i w), by rw [syncRound_node, hn]; simp [hi], ?_⟩
  have hrec := sync_rec_joinonly c R x w hb hu.nobodyLeft i n
  rw [statusOf_eq_iff] at hs
  obtain ⟨m, hm, hst⟩ := hs
  rw [hm] at hrec
  have hlt := ltime_after_round c R x i hi m (ltimeAt_of_lookup hn hm)
  obtain ⟨_, _, _, _, _, b6⟩ := jfold_spec ((R.filter (· ≠ i)).map (ltimeAt c · x)) m
  rw [ltimeAt_of_lookup hn hm] at ht
  refine ⟨?_, ?_⟩
  · rw [statusOf_of_lookup hrec]
    rcases b6 hst with ⟨d, _⟩ | ⟨_, d⟩
    · rw [d]
    · omega
  · rw [ltimeOf_eq_iff]; exact ⟨_, hrec, hlt⟩

/-! ### x is down -/

/-- what a record about the down `x` can be during the round, `M` being the newest status time known
before the round: failed or left; a time beyond `M` (it can only be `M + 1`, from the artificial
leave of a merge) goes with `left` -/
def DownRec (M : Nat) (m : Member) : Prop :=
  (m.status = .failed ∨ m.status = .left) ∧ (m.ltime ≤ M ∨ (m.ltime = M + 1 ∧ m.status = .left))

theorem idxUpd_down (c : Cluster) (x : Name) (j M : Nat) (m : Member) (hM : M < two64 - 1)
    (hp : ∀ p, c.nodes[j]? = some p → ∀ mp, alookup p.members x = some mp →
      (mp.status = .failed ∨ mp.status = .left) ∧ mp.ltime ≤ M)
    (hm : DownRec M m) :
    DownRec M (idxUpd c x j m) ∧ (m.status = .left → (idxUpd c x j m).status = .left) ∧
    (∀ p mp, c.nodes[j]? = some p → alookup p.members x = some mp → mp.status = .left → mp.ltime = M →
      (idxUpd c x j m).status = .left) := by
  have h64 : two64 = 18446744073709551616 := rfl
  unfold idxUpd
  cases hn : c.nodes[j]? with
  | none => exact ⟨hm, fun h => h, fun p mp h => by cases h⟩
  | some p =>
    dsimp only
    unfold peerUpd
    cases hmp : alookup p.members x with
    | none => exact ⟨hm, fun h => h, fun p' mp' h h' => by cases h; rw [hmp] at h'; cases h'⟩
    | some mp =>
      dsimp only
      obtain ⟨hst, hle⟩ := hp p hn mp hmp
      obtain ⟨ms, mt⟩ := hm
      by_cases hl : mp.status = .left
      · rw [if_pos hl]
        have hc : (mp.ltime + 1) % two64 = mp.ltime + 1 := Nat.mod_eq_of_lt (by omega)
        rw [hc]
        by_cases hle2 : mp.ltime + 1 ≤ m.ltime
        · have e : leaveUpd (mp.ltime + 1) m = m := by simp [leaveUpd, hle2]
          rw [e]
          refine ⟨⟨ms, mt⟩, fun h => h, ?_⟩
          intro p' mp' h h' _ hM'
          cases h; rw [hmp] at h'; cases h'
          rcases mt with h1 | h1
          · omega
          · exact h1.2
        · have e : leaveUpd (mp.ltime + 1) m = { m with ltime := mp.ltime + 1, status := afterLeave m.status } := by
            simp [leaveUpd, hle2]
          have hal : afterLeave m.status = .left := by
            rcases ms with h | h <;> rw [h] <;> rfl
          rw [e]
          refine ⟨⟨Or.inr hal, ?_⟩, fun _ => hal, fun _ _ _ _ _ _ => hal⟩
          by_cases h3 : mp.ltime + 1 ≤ M
          · exact Or.inl h3
          · exact Or.inr ⟨by show mp.ltime + 1 = M + 1; omega, hal⟩
      · rw [if_neg hl]
        have hnl : m.status ≠ .leaving := by
          rcases ms with h | h <;> rw [h] <;> simp
        obtain ⟨_, _, _, a4, a5, _⟩ := joinUpd_spec mp.ltime m
        have hs := a5 hnl
        refine ⟨⟨by rw [hs]; exact ms, ?_⟩, fun h => by rw [hs]; exact h, ?_⟩
        · rcases a4 with h | h
          · rw [h, hs]; exact mt
          · left; rw [h]; exact hle
        · intro p' mp' h h' hl' _
          cases h; rw [hmp] at h'; cases h'
          exact absurd hl' hl

theorem foldl_idx_down (c : Cluster) (x : Name) (M : Nat) (hM : M < two64 - 1) (js : List Nat)
    (hp : ∀ j ∈ js, ∀ p, c.nodes[j]? = some p → ∀ mp, alookup p.members x = some mp →
      (mp.status = .failed ∨ mp.status = .left) ∧ mp.ltime ≤ M) :
    ∀ m, DownRec M m →
      DownRec M (js.foldl (fun m j => idxUpd c x j m) m) ∧
      (m.status = .left → (js.foldl (fun m j => idxUpd c x j m) m).status = .left) ∧
      (∀ b ∈ js, ∀ p mp, c.nodes[b]? = some p → alookup p.members x = some mp → mp.status = .left →
        mp.ltime = M → (js.foldl (fun m j => idxUpd c x j m) m).status = .left) := by
  induction js with
  | nil => intro m hm; exact ⟨hm, fun h => h, fun b hb => by cases hb⟩
  | cons j js ih =>
    intro m hm
    obtain ⟨s1, s2, s3⟩ := idxUpd_down c x j M m hM (hp j (List.mem_cons_self ..)) hm
    obtain ⟨i1, i2, i3⟩ := ih (fun j' hj' => hp j' (List.mem_cons_of_mem _ hj')) _ s1
    simp only [List.foldl_cons]
    refine ⟨i1, fun h => i2 (s2 h), ?_⟩
    intro b hb p mp h1 h2 h3 h4
    rcases List.mem_cons.mp hb with e | e
    · subst e; exact i2 (s3 p mp h1 h2 h3 h4)
    · exact i3 b e p mp h1 h2 h3 h4

/-- **down after a leave newer than every join known in the cluster**: everybody who lists x ends
`left`.  (`hw`: the artificial leave time `maxLtime + 1` of `MergeRemoteState` does not wrap.) -/
theorem agreement_left (c : Cluster) (R : List Nat) (x : Name) (w : Nat) (hb : AllBook c)
    (hd : DownView c R x) (hl : SomeLeftAtMax c R x) (hw : maxLtime c R x < two64 - 1) :
    ∀ i ∈ R, ∀ n', (syncRound c R w).nodes[i]? = some n' → ∀ s, statusOf n' x = some s → s = .left := by
  intro i hi n' hn' s hs
  obtain ⟨n, hn, rfl⟩ := syncRound_node_inv hn' hi
  have hR : ∀ j ∈ R.filter (· ≠ i), j ∈ R := fun j hj => (List.mem_filter.mp hj).1
  have hname : x ≠ n.name := fun e => (hd i hi n hn).2 e.symm
  have hrec := run_merges_rec c x w (R.filter (· ≠ i)) n
    (fun j hj p hp => ⟨hb.get hp, Or.inl hname⟩)
  rw [← syncOps_eq] at hrec
  have hdown : ∀ j ∈ R, ∀ p, c.nodes[j]? = some p → ∀ mp, alookup p.members x = some mp →
      (mp.status = .failed ∨ mp.status = .left) ∧ mp.ltime ≤ maxLtime c R x := by
    intro j hj p hp mp hmp
    have h1 := (hd j hj p hp).1
    rw [statusOf_of_lookup hmp] at h1
    refine ⟨?_, ?_⟩
    · rcases h1 with h | h | h
      · cases h
      · exact Or.inl (Option.some.inj h)
      · exact Or.inr (Option.some.inj h)
    · rw [← ltimeAt_of_lookup hp hmp]; exact ltimeAt_le_max c R x j hj
  rw [statusOf_eq_iff] at hs
  obtain ⟨m', hm', hst⟩ := hs
  rw [hm'] at hrec
  cases hm : alookup n.members x with
  | none => rw [hm] at hrec; cases hrec
  | some m =>
    rw [hm] at hrec
    simp only [Option.map_some, Option.some.injEq] at hrec
    obtain ⟨hm1, hm2⟩ := hdown i hi n hn m hm
    obtain ⟨_, f2, f3⟩ := foldl_idx_down c x (maxLtime c R x) hw (R.filter (· ≠ i))
      (fun j hj => hdown j (hR j hj)) m ⟨hm1, Or.inl hm2⟩
    rw [← hrec] at f2 f3
    rw [← hst]
    obtain ⟨b, hbR, nb, hnb, hbs, hbt⟩ := hl
    rw [statusOf_eq_iff] at hbs
    obtain ⟨mb, hmb, hmbs⟩ := hbs
    rw [ltimeAt_of_lookup hnb hmb] at hbt
    by_cases hbi : b = i
    · subst hbi
      rw [hn] at hnb; cases hnb
      rw [hm] at hmb; cases hmb
      exact f2 hmbs
    · exact f3 b (List.mem_filter.mpr ⟨hbR, by simpa using hbi⟩) nb mb hnb hmb hmbs hbt

/-! ### `AllBook` holds in every reachable state -/

theorem allBook_init (names : List Name) (cfg : Config) : AllBook (Cluster.init names cfg) := by
  intro n hn
  simp only [Cluster.init, List.mem_map] at hn
  obtain ⟨nm, _, rfl⟩ := hn
  exact inv_init nm cfg

theorem allBook_crun_from (c : Cluster) (steps : List CStep) (h : AllBook c) : AllBook (crun c steps) := by
  intro n hn
  obtain ⟨i, hi⟩ := List.getElem?_of_mem hn
  have hlen : i < c.nodes.length := by
    have := (List.getElem?_eq_some_iff.mp hi).1
    rw [SerfProofs.Cluster.crun_length] at this
    exact this
  have h0 : c.nodes[i]? = some c.nodes[i] := List.getElem?_eq_getElem hlen
  rw [SerfProofs.Cluster.crun_node steps c i _ h0] at hi
  cases hi
  exact inv_run _ _ (h.get h0)

theorem allBook_crun (names : List Name) (cfg : Config) (steps : List CStep) :
    AllBook (crun (Cluster.init names cfg) steps) :=
  allBook_crun_from _ steps (allBook_init names cfg)

theorem allBook_syncRound (c : Cluster) (R : List Nat) (w : Nat) (h : AllBook c) : AllBook (syncRound c R w) := by
  intro n' hn'
  obtain ⟨i, hi⟩ := List.getElem?_of_mem hn'
  rw [syncRound_node] at hi
  cases hn : c.nodes[i]? with
  | none => rw [hn] at hi; cases hi
  | some n =>
    rw [hn] at hi
    simp only [Option.map_some, Option.some.injEq] at hi
    subst hi
    split
    · exact inv_run _ _ (h.get hn)
    · exact h.get hn

/-! ### necessity of the hypotheses, non-vacuity (concrete reachable clusters, by evaluation) -/

/-- what every node lists about `x`: status and status time -/
def view (c : Cluster) (x : Name) : List (Option Status × Option Nat) :=
  c.nodes.map (fun n => (statusOf n x, ltimeOf n x))

/-- literal copy of `SerfProofs.C02.tieRun` (Props/C02.lean; a Lemmas file does not import Props) -/
def tieRun' : List CStep :=
  [.notify 0 "x" true 0, .notify 1 "x" true 0, .notify 2 "a" true 0,
   .api 2 (.leaveBegin 0),
   .deliver 0 0 true, .deliver 1 0 false, .drop 0, .drop 0,
   .notify 0 "x" false 3, .notify 1 "x" false 3,
   .api 2 (.ownJoin 0),
   .notify 0 "x" true 0,
   .pushPull 0 1 0,
   .deliver 0 0 true, .deliver 1 0 false, .notify 1 "x" true 0]

/-- the cluster after the tie run: "a" (0), "p" (1), "x" (2), all running -/
def tieC : Cluster := crun (Cluster.init ["a", "p", "x"]) tieRun'

/-- The tie (recorded finding rejoined-stuck-leaving): in the state after `tieRun` the memberlist
view is truthful (`UpView`), `NoTie` is FALSE ("a" lists x leaving at 2 = the cluster maximum), and
a complete round leaves "a" listing x as leaving, "p" and "x" as alive. -/
theorem tie_violates_NoTie :
    UpView tieC [0, 1, 2] "x" ∧ ¬ NoTie tieC [0, 1, 2] "x" ∧
    view tieC "x" = [(some .leaving, some 2), (some .alive, some 2), (some .alive, some 2)] ∧
    view (syncRound tieC [0, 1, 2] 0) "x" = [(some .leaving, some 2), (some .alive, some 2), (some .alive, some 2)] := by
  decide +kernel

/-- "w" (0) has force-left the running "x" (1); the claim never reaches "x" as gossip -/
def claimC : Cluster := crun wx [.api 0 (.forceLeave "x" false 0)]

/-- The unrefuted force-leave claim is excluded by the SAME hypothesis: `UpView` holds, `NoTie` is
false ("w" lists x leaving at 1, nobody knows a newer time), and a complete round leaves "w" listing
x as leaving while "x" lists itself alive — "x" has silently adopted the claim's time. -/
theorem claim_violates_NoTie :
    UpView claimC [0, 1] "x" ∧ ¬ NoTie claimC [0, 1] "x" ∧
    view claimC "x" = [(some .leaving, some 1), (some .alive, some 0)] ∧
    view (syncRound claimC [0, 1] 0) "x" = [(some .leaving, some 1), (some .alive, some 1)] := by
  decide +kernel

/-- "x" leaves (leave intent at 1 reaches "a" and "p"), comes back (join intent at 2), and the join
intent reaches only "p". -/
def healRun : List CStep :=
  [.notify 0 "x" true 0, .notify 1 "x" true 0, .notify 2 "a" true 0,
   .api 2 (.leaveBegin 0), .deliver 0 0 true, .deliver 1 0 false, .drop 0, .drop 0,
   .api 2 (.ownJoin 0), .deliver 1 0 false]
def healC : Cluster := crun (Cluster.init ["a", "p", "x"]) healRun

/-- Non-vacuity of `agreement_running`: a reachable cluster satisfying all its hypotheses in which
the observer "a" lists the running x as leaving (at 1 < 2); the round turns it back to alive and
everybody ends alive at time 2. -/
theorem running_example :
    AllBook healC ∧ UpView healC [0, 1, 2] "x" ∧ NoTie healC [0, 1, 2] "x" ∧
    view healC "x" = [(some .leaving, some 1), (some .alive, some 2), (some .alive, some 2)] ∧
    view (syncRound healC [0, 1, 2] 0) "x" = [(some .alive, some 2), (some .alive, some 2), (some .alive, some 2)] :=
  ⟨allBook_crun _ _ _, by decide +kernel, by decide +kernel, by decide +kernel, by decide +kernel⟩

/-- … and the general theorem instantiated on it. -/
example : ∀ i ∈ [0, 1, 2], ∀ n', (syncRound healC [0, 1, 2] 0).nodes[i]? = some n' → ∀ s,
    statusOf n' "x" = some s → s = .alive ∧ ltimeOf n' "x" = some (maxLtime healC [0, 1, 2] "x") :=
  agreement_running healC [0, 1, 2] "x" 0 running_example.1 running_example.2.1 running_example.2.2.1

/-- "x" is mid-leave: its leave intent (time 1) has reached "a" only. -/
def midRun : List CStep :=
  [.notify 0 "x" true 0, .notify 1 "x" true 0, .notify 2 "a" true 0,
   .api 2 (.leaveBegin 0), .deliver 0 0 true, .drop 0, .drop 0]
def midC : Cluster := crun (Cluster.init ["a", "p", "x"]) midRun

/-- Non-vacuity of `agreement_midleave`: x really is mid-leave, so `NoTie` is (rightly) false; the
round keeps "a" and "x" at leaving, "p" at alive — each alive or leaving, as the property allows. -/
theorem midleave_example :
    AllBook midC ∧ UpView midC [0, 1, 2] "x" ∧ ¬ NoTie midC [0, 1, 2] "x" ∧
    view midC "x" = [(some .leaving, some 1), (some .alive, some 0), (some .leaving, some 1)] ∧
    view (syncRound midC [0, 1, 2] 0) "x" = [(some .leaving, some 1), (some .alive, some 1), (some .leaving, some 1)] :=
  ⟨allBook_crun _ _ _, by decide +kernel, by decide +kernel, by decide +kernel, by decide +kernel⟩

/-- "x" leaves gracefully; the leave intent (time 1) reaches "b" only; memberlist reports x down to
"b" (left) and "c" (failed).  "x" (node 2) is down: R = [0, 1]. -/
def leftRun : List CStep :=
  [.notify 0 "x" true 0, .notify 1 "x" true 0, .notify 2 "b" true 0,
   .api 2 (.leaveBegin 0), .deliver 0 0 false, .drop 0,
   .notify 0 "x" false 3, .notify 1 "x" false 3]
def leftC : Cluster := crun (Cluster.init ["b", "c", "x"]) leftRun

/-- Non-vacuity of `agreement_left`: "b" left@1 (the maximum), "c" failed@0; after the round both
list x as left. -/
theorem left_example :
    AllBook leftC ∧ DownView leftC [0, 1] "x" ∧ SomeLeftAtMax leftC [0, 1] "x" ∧
    maxLtime leftC [0, 1] "x" < two64 - 1 ∧
    (view leftC "x").take 2 = [(some .left, some 1), (some .failed, some 0)] ∧
    (view (syncRound leftC [0, 1] 0) "x").take 2 = [(some .left, some 1), (some .left, some 2)] :=
  ⟨allBook_crun _ _ _, by decide +kernel, by decide +kernel, by decide +kernel, by decide +kernel, by decide +kernel⟩

example : ∀ i ∈ [0, 1], ∀ n', (syncRound leftC [0, 1] 0).nodes[i]? = some n' → ∀ s,
    statusOf n' "x" = some s → s = .left :=
  agreement_left leftC [0, 1] "x" 0 left_example.1 left_example.2.1 left_example.2.2.1 left_example.2.2.2.1

/-- x fails without any leave: "c" has seen a join intent at time 2, "b" has not. -/
def failRun : List CStep :=
  [.notify 0 "x" true 0, .notify 1 "x" true 0, .notify 2 "b" true 0,
   .api 2 (.ownJoin 0), .deliver 1 0 false,
   .notify 0 "x" false 3, .notify 1 "x" false 3]
def failC : Cluster := crun (Cluster.init ["b", "c", "x"]) failRun

/-- Non-vacuity of `agreement_failed`. -/
theorem failed_example :
    AllBook failC ∧ DownView failC [0, 1] "x" ∧ NobodyLeft failC [0, 1] "x" ∧
    (view failC "x").take 2 = [(some .failed, some 0), (some .failed, some 1)] ∧
    (view (syncRound failC [0, 1] 0) "x").take 2 = [(some .failed, some 1), (some .failed, some 1)] :=
  ⟨allBook_crun _ _ _, by decide +kernel, by decide +kernel, by decide +kernel, by decide +kernel⟩

/-- The stale leave.  "x" leaves gracefully (leave intent at 1), only "b" hears it and memberlist
reports x down to "b": left@1.  "x" comes back and announces itself twice (join intents at 2 and 3);
"c" hears the one at 3 — "b" never sees x's second life (memberlist has not yet told it) — then x
dies: "c" lists it failed@3. -/
def staleRun : List CStep :=
  [.notify 0 "x" true 0, .notify 1 "x" true 0, .notify 2 "b" true 0,
   .api 2 (.leaveBegin 0), .deliver 0 0 false, .drop 0, .notify 0 "x" false 3,
   .api 2 (.ownJoin 0), .api 2 (.ownJoin 0), .deliver 1 1 false, .drop 0, .drop 0,
   .notify 1 "x" false 9]
def staleC : Cluster := crun (Cluster.init ["b", "c", "x"]) staleRun

/-- The down class between `agreement_left` and `agreement_failed`: some node holds a leave, but at
a time BELOW the cluster maximum.  `DownView` holds, `SomeLeftAtMax` and `NobodyLeft` both fail; after
ONE complete round "b" lists x left and "c" lists it failed (the artificial leave 1 + 1 = 2 is older
than "c"'s 3) — disagreement; the round has lifted "b" to left@3, so `SomeLeftAtMax` holds after it
and a SECOND round makes both list x as left. -/
theorem stale_left_counterexample :
    AllBook staleC ∧ DownView staleC [0, 1] "x" ∧ ¬ SomeLeftAtMax staleC [0, 1] "x" ∧ ¬ NobodyLeft staleC [0, 1] "x" ∧
    (view staleC "x").take 2 = [(some .left, some 1), (some .failed, some 3)] ∧
    (view (syncRound staleC [0, 1] 0) "x").take 2 = [(some .left, some 3), (some .failed, some 3)] ∧
    SomeLeftAtMax (syncRound staleC [0, 1] 0) [0, 1] "x" ∧
    (view (syncRound (syncRound staleC [0, 1] 0) [0, 1] 0) "x").take 2 = [(some .left, some 3), (some .left, some 4)] :=
  ⟨allBook_crun _ _ _, by decide +kernel, by decide +kernel, by decide +kernel, by decide +kernel, by decide +kernel,
    by decide +kernel, by decide +kernel⟩

/-- a leave intent about x carrying the largest uint64 Lamport time reaches "b" -/
def wrapRun : List CStep :=
  [.notify 0 "x" true 0, .notify 1 "x" true 0,
   .api 0 (.leaveMsg "x" 18446744073709551615 false 0),
   .notify 0 "x" false 3, .notify 1 "x" false 3]
def wrapC : Cluster := crun (Cluster.init ["b", "c", "x"]) wrapRun

/-- The no-wrap hypothesis `hw` of `agreement_left` is needed: with "b" left at time 2^64 - 1 the
artificial leave of `MergeRemoteState` is at (2^64 - 1) + 1 = 0 (uint64) and never applies: "c" keeps
listing x as failed, round after round. -/
theorem wrap_counterexample :
    AllBook wrapC ∧ DownView wrapC [0, 1] "x" ∧ SomeLeftAtMax wrapC [0, 1] "x" ∧
    ¬ maxLtime wrapC [0, 1] "x" < two64 - 1 ∧
    (view (syncRound wrapC [0, 1] 0) "x").take 2 = [(some .left, some 18446744073709551615), (some .failed, some 0)] ∧
    syncRound (syncRound wrapC [0, 1] 0) [0, 1] 0 = syncRound wrapC [0, 1] 0 :=
  ⟨allBook_crun _ _ _, by decide +kernel, by decide +kernel, by decide +kernel, by decide +kernel, by decide +kernel⟩

end SerfProofs.ClusterSync
