import SerfModel.Model.CoalesceLoop
namespace SerfProofs.CoalesceLoop
open SerfModel SerfModel.CoalesceLoop

variable {ε : Type}

def isShutdown : In ε → Bool
  | .shutdown => true
  | _ => false

theorem run_append (C : Coalescer ε) (a : List (In ε)) : ∀ (s : St C) (b : List (In ε)),
    run C s (a ++ b) = ((run C (run C s a).1 b).1, (run C s a).2 ++ (run C (run C s a).1 b).2) := by
  induction a with
  | nil => intro s b; simp [run]
  | cons i a ih => intro s b; simp [run, ih]

theorem run_length (C : Coalescer ε) (a : List (In ε)) : ∀ (s : St C), (run C s a).2.length = a.length := by
  induction a with
  | nil => intro s; simp [run]
  | cons i a ih => intro s; simp [run, ih]

theorem step_done (C : Coalescer ε) (s : St C) (i : In ε) :
    (step C s i).1.done = (s.done || isShutdown i) := by
  cases i with
  | ev e =>
    simp only [step, isShutdown]
    by_cases h : s.done
    · simp [h]
    · by_cases h2 : C.handle e <;> simp [h, h2]
  | quantum =>
    simp only [step, isShutdown, flushNow]
    by_cases h : s.done
    · simp [h]
    · by_cases h2 : s.quantum <;> simp [h, h2]
  | quiescent =>
    simp only [step, isShutdown, flushNow]
    by_cases h : s.done
    · simp [h]
    · by_cases h2 : s.quiescent <;> simp [h, h2]
  | shutdown =>
    simp only [step, isShutdown, flushNow]
    by_cases h : s.done <;> simp [h]

theorem run_done (C : Coalescer ε) (a : List (In ε)) : ∀ (s : St C),
    (run C s a).1.done = (s.done || a.any isShutdown) := by
  induction a with
  | nil => intro s; simp [run]
  | cons i a ih => intro s; simp [run, ih, step_done, Bool.or_assoc]

/-- After the goroutine returned nothing is emitted any more. -/
theorem step_after_done (C : Coalescer ε) (s : St C) (h : s.done = true) (i : In ε) : step C s i = (s, []) := by
  cases i <;> simp [step, h]

/-- **Pass-through.** An event the coalescer does not handle is sent on, alone and
unchanged, by the very step that received it, and the loop state does not change. -/
theorem step_unhandled (C : Coalescer ε) (s : St C) (hs : s.done = false) (e : ε) (h : C.handle e = false) :
    step C s (.ev e) = (s, [e]) := by
  simp [step, hs, h]

/-- A handled event is absorbed: nothing is emitted, both timers are armed. -/
theorem step_handled (C : Coalescer ε) (s : St C) (hs : s.done = false) (e : ε) (h : C.handle e = true) :
    step C s (.ev e) = ({ s with c := C.coalesce s.c e, quantum := true, quiescent := true }, []) := by
  simp [step, hs, h]

/-- Ingesting a run of events (no timer, no shutdown in between). -/
theorem run_events (C : Coalescer ε) (evs : List ε) : ∀ (s : St C), s.done = false →
    (run C s (evs.map .ev)).2 = evs.map (fun e => if C.handle e then [] else [e]) ∧
    (run C s (evs.map .ev)).1.c = (evs.filter C.handle).foldl C.coalesce s.c ∧
    (run C s (evs.map .ev)).1.done = false ∧
    (run C s (evs.map .ev)).1.quantum = (s.quantum || evs.any C.handle) ∧
    (run C s (evs.map .ev)).1.quiescent = (s.quiescent || evs.any C.handle) := by
  induction evs with
  | nil => intro s hs; simp [run, hs]
  | cons e evs ih =>
    intro s hs
    simp only [List.map_cons, run]
    by_cases h : C.handle e
    · rw [step_handled C s hs e h]
      obtain ⟨h1, h2, h3, h4, h5⟩ := ih { s with c := C.coalesce s.c e, quantum := true, quiescent := true } hs
      simp only at h1 h2 h3 h4 h5 ⊢
      refine ⟨by simp [h1, h], by simp [h2, h], h3, by simp [h4, h], by simp [h5, h]⟩
    · have h' : C.handle e = false := by simpa using h
      rw [step_unhandled C s hs e h']
      obtain ⟨h1, h2, h3, h4, h5⟩ := ih s hs
      refine ⟨by simp [h1, h'], by simp [h2, h'], h3, by simp [h4, h'], by simp [h5, h']⟩

/-- What an enabled flush trigger emits, and the state it leaves. -/
theorem step_quantum (C : Coalescer ε) (s : St C) (hs : s.done = false) (ha : s.quantum = true) :
    step C s .quantum = ({ c := (C.flush s.c).1 }, (C.flush s.c).2) := by
  simp [step, hs, ha, flushNow]

theorem step_quiescent (C : Coalescer ε) (s : St C) (hs : s.done = false) (ha : s.quiescent = true) :
    step C s .quiescent = ({ c := (C.flush s.c).1 }, (C.flush s.c).2) := by
  simp [step, hs, ha, flushNow]

theorem step_shutdown (C : Coalescer ε) (s : St C) (hs : s.done = false) :
    step C s .shutdown = ({ c := (C.flush s.c).1, done := true }, (C.flush s.c).2) := by
  simp [step, hs, flushNow]

end SerfProofs.CoalesceLoop
