/-
The REGENERATED TIE between the Go source of the membership state machine and the hand-written
model `SerfModel.Model.Node` / `SerfModel.Model.Cluster`.

`SerfModel.Gen.NodeShapes` is produced by `extract/nodeshapes.go` (go/ast) on every check run from
serf/serf.go and serf/delegate.go: the decisive statements, guards and statement ORDERS, printed
canonically, plus a few derived booleans / numbers.  Every theorem here is named `gen_…`:

* `gen_…_shape`  : the generated definition is literally what the model was written against
                   (an edit of the Go code changes the Gen file and the `rfl` no longer holds).
                   The extractor NORMALISES every function first, so the literals are in
                   canonical names — receiver `recv`, parameters `p0,p1,…`, other variables
                   `v0,v1,…` in order of definition — with literal constants resolved,
                   single-assignment pure locals inlined, `a > b` written `b < a`, no `else`
                   after a returning branch, `xs[i]` of a range loop written as the loop's value
                   variable.  A renaming or one of these respellings does not change the Gen
                   file; the original Go is quoted in a `-- Go:` comment next to each literal;
* `gen_removeOld_semantics` : `removeOldMember` is not pinned as text at all: the extractor
                   emits a semantic summary (search predicate, FIRST match, removal statements),
                   `removeOldSem` interprets it and is proved equal to the model for all inputs;
* the others      : connect the generated fact to the corresponding parameter of the model
                   (strict vs non-strict comparison, `+ 1`, list clean-up, statement order …) and,
                   where the shape is DECISIVE, exhibit by `decide` what the model would do with
                   the other shape (`reapLoopNoRecheck`, `pruneBeforeRemoval`, `joinCleansOwnListOnly`,
                   `upsertPerType`, `localStateSkippingLeft`).
Core Lean only; no Mathlib.
-/
import SerfModel.Gen.NodeShapes
import SerfModel.Model.Node
import SerfModel.Model.Cluster
namespace SerfProofs.NodeShapes
open SerfModel SerfModel.Node SerfModel.Gen.NodeShapes

/-! ## 1. `reap` / `handleReap` -/

theorem gen_reap_header_shape :
    -- Go: func (s *Serf) reap(old []*memberState, now time.Time, timeout time.Duration)   [old=p0 now=p1 timeout=p2]
    -- Go: n := len(old); for i := 0; i < n; i++ { … }; return old                        [n=v0 i=v1]
    reapInit = "v0 := len(p0)" ∧ reapForInit = "v1 := 0" ∧ reapCond = "v1 < v0" ∧ reapPost = "v1++" ∧
    reapAfterLoop = ["return p0"] ∧
    -- the bound is the hand-maintained counter: `n := len(old)` before the loop, one `n--` after the shrink
    reapBoundTracksShrink = true := ⟨rfl, rfl, rfl, rfl, rfl, rfl⟩

theorem gen_reap_keep_guard_shape :
    -- Go: if now.Sub(m.leaveTime) <= memberTimeout { continue }                           [m=v2 memberTimeout=v3]
    reapKeepGuard = "p1.Sub(v2.leaveTime) <= v3" ∧ reapKeepsAtEquality = true := ⟨rfl, rfl⟩

theorem gen_reap_pre_guard_shape :
    reapPreGuardStmts = [
      -- Go: m := old[i]
      "v2 := p0[v1]",
      -- Go: memberTimeout := timeout
      "v3 := p2",
      -- Go: if s.config.ReconnectTimeoutOverride != nil { memberTimeout = s.config.ReconnectTimeoutOverride.ReconnectTimeout(&m.Member, memberTimeout) }
      "if recv.config.ReconnectTimeoutOverride != nil { v3 = recv.config.ReconnectTimeoutOverride.ReconnectTimeout(&v2.Member, v3) }"] ∧
    reapOverrideApplied = true := ⟨rfl, rfl⟩

theorem gen_reap_delete_shape :
    reapDeleteStmts = [
      -- Go: old[i], old[n-1] = old[n-1], nil; old = old[:n-1]; n--; i--; s.eraseNode(m)
      "p0[v1], p0[v0-1] = p0[v0-1], nil",
      "p0 = p0[:v0-1]",
      "v0--",
      "v1--",
      "recv.eraseNode(v2)"] ∧
    reapRechecksSlot = true := ⟨rfl, rfl⟩

theorem gen_reap_calls_shape :
    reapCalls = [
      -- Go (handleReap): now := time.Now()  [now=v0];  s.failedMembers = s.reap(s.failedMembers, now, s.config.ReconnectTimeout); …
      "recv.failedMembers = recv.reap(recv.failedMembers, v0, recv.config.ReconnectTimeout)",
      "recv.leftMembers = recv.reap(recv.leftMembers, v0, recv.config.TombstoneTimeout)",
      "reapIntents(recv.recentIntents, v0, recv.config.RecentIntentTimeout)"] := rfl

/-- Go keeps an entry when `now.Sub(leaveTime) <= memberTimeout` ⇔ the model expires it on the
strict `>`; the timeout compared with is the overridden one (`ov x timeout`). -/
theorem gen_reap_keep_guard_matches_model :
    reapKeepsAtEquality = true ∧ reapOverrideApplied = true ∧
    ∀ (ms : List (Name × Member)) (now : Nat) (ov : Name → Nat → Nat) (t : Nat) (x : Name),
      expired ms now ov t x = decide (now - ((alookup ms x).map (·.leaveTime)).getD 0 > ov x t) :=
  ⟨rfl, rfl, fun _ _ _ _ _ => rfl⟩

/-- exactly at the timeout the entry is kept, one tick later it is reaped; an override that
prolongs the timeout is honoured -/
theorem gen_reap_keep_at_equality_example :
    reapKeepsAtEquality = true ∧
    expired [("a", { status := .failed, ltime := 0, leaveTime := 5 })] 15 (fun _ t => t) 10 "a" = false ∧
    expired [("a", { status := .failed, ltime := 0, leaveTime := 5 })] 16 (fun _ t => t) 10 "a" = true ∧
    expired [("a", { status := .failed, ltime := 0, leaveTime := 5 })] 16 (fun _ t => t + 1) 10 "a" = false := by
  decide

/-- the three reap statements of `handleReap` against the model's `reap`: failed list with
`ReconnectTimeout`, THEN left list with `TombstoneTimeout` (over the members map as already
reaped), THEN the intents with `RecentIntentTimeout` -/
theorem gen_reap_calls_match_model (n : Node) (now : Nat) (ov : Name → Nat → Nat) :
    reapCalls.length = 3 ∧
    (reap n now ov).1.failed = (reapList n.members n.failed now ov n.cfg.reconnect).1 ∧
    (reap n now ov).1.left =
      (reapList (eraseAll n.members (reapList n.members n.failed now ov n.cfg.reconnect).2)
        n.left now ov n.cfg.tombstone).1 ∧
    (reap n now ov).1.intents = reapIntents n.intents now n.cfg.intentTimeout :=
  ⟨rfl, rfl, rfl, rfl⟩

/-- The loop shape is decisive.  This is the model's `reapLoop` for the SAME loop WITHOUT `i--`
after a removal (`for i := 0; i < len(old); i++ { …; swap-delete }`): the element swapped into the
freed slot is never examined. -/
def reapLoopNoRecheck (exp : Name → Bool) : Nat → List Name → Nat → List Name → List Name × List Name
  | 0, old, _, acc => (old, acc)
  | fuel + 1, old, i, acc =>
    match old[i]? with
    | none => (old, acc)
    | some m =>
      if exp m then reapLoopNoRecheck exp fuel (swapRemove old i) (i + 1) (acc ++ [m])
      else reapLoopNoRecheck exp fuel old (i + 1) acc

theorem gen_reap_recheck_decisive :
    reapRechecksSlot = true ∧
    (reapLoop (fun _ => true) 3 ["a", "b", "c"] 0 []).1 = [] ∧
    (reapLoopNoRecheck (fun _ => true) 3 ["a", "b", "c"] 0 []).1 ≠ [] := by decide

/-- the statements of the delete branch against `reapLoop`: one expired element at slot `i` is
swap-removed, erased, and the SAME slot is looked at next -/
theorem gen_reap_delete_matches_model (exp : Name → Bool) (fuel i : Nat) (old acc : List Name) (m : Name)
    (hm : old[i]? = some m) (he : exp m = true) :
    reapRechecksSlot = true ∧
    reapLoop exp (fuel + 1) old i acc = reapLoop exp fuel (swapRemove old i) i (acc ++ [m]) := by
  refine ⟨rfl, ?_⟩
  simp [reapLoop, hm, he]

/-- `old[i], old[n-1] = old[n-1], nil; old = old[:n-1]` is `swapRemove` -/
theorem gen_reap_swap_example :
    reapDeleteStmts.take 2 = ["p0[v1], p0[v0-1] = p0[v0-1], nil", "p0 = p0[:v0-1]"] ∧
    swapRemove ["a", "b", "c", "d"] 1 = ["a", "d", "c"] ∧ swapRemove ["a"] 0 = [] ∧
    swapRemove ["a", "b"] 1 = ["a"] := by decide

/-! ## 2. `handleNodeLeaveIntent` / `handlePrune` -/

theorem gen_leave_guards_shape :
    -- Go: func (s *Serf) handleNodeLeaveIntent(leaveMsg *messageLeave) bool      [leaveMsg=p0 state=v0 member=v1 ok=v2]
    -- Go: leaveMsg.LTime <= member.statusLTime
    leaveStaleGuard = "p0.LTime <= v1.statusLTime" ∧
    -- Go: leaveMsg.Node == s.config.NodeName && state == SerfAlive
    leaveRefuteGuard = "p0.Node == recv.config.NodeName && v0 == SerfAlive" ∧
    -- Go: go s.broadcastJoin(s.clock.Time()); return false
    leaveRefuteCall = "go recv.broadcastJoin(recv.clock.Time())" ∧
    leaveRefuteStmts = ["go recv.broadcastJoin(recv.clock.Time())", "return false"] := ⟨rfl, rfl, rfl, rfl⟩

theorem gen_leave_order_shape :
    leaveWitnessFirst = true ∧ leaveSetsTimeBeforeSwitch = true ∧ leaveGuardsBeforeSetTime = true ∧
    leavePruneAfterListUpdate = true := ⟨rfl, rfl, rfl, rfl⟩

theorem gen_leave_skeleton_shape :
    leaveSkeleton = [
      -- Go: state := s.State()
      "v0 := recv.State()",
      -- Go: s.clock.Witness(leaveMsg.LTime)
      "recv.clock.Witness(p0.LTime)",
      "recv.memberLock.Lock()",
      "defer recv.memberLock.Unlock()",
      -- Go: member, ok := s.members[leaveMsg.Node]
      "v1, v2 := recv.members[p0.Node]",
      -- Go: if !ok { return upsertIntent(s.recentIntents, leaveMsg.Node, messageLeaveType, leaveMsg.LTime, time.Now) }
      "if !v2 { return upsertIntent(recv.recentIntents, p0.Node, messageLeaveType, p0.LTime, time.Now) }",
      -- Go: if leaveMsg.LTime <= member.statusLTime { return false }
      "if p0.LTime <= v1.statusLTime { return false }",
      -- Go: if leaveMsg.Node == s.config.NodeName && state == SerfAlive { go s.broadcastJoin(s.clock.Time()); return false }
      "if p0.Node == recv.config.NodeName && v0 == SerfAlive { go recv.broadcastJoin(recv.clock.Time()); return false }",
      -- Go: member.statusLTime = leaveMsg.LTime
      "v1.statusLTime = p0.LTime",
      -- Go: switch member.Status
      "switch v1.Status"] := rfl

theorem gen_leave_case_alive_shape :
    leaveCaseAlive = [
      -- Go: member.Status = StatusLeaving; if leaveMsg.Prune { s.handlePrune(member) }; return true
      "v1.Status = StatusLeaving",
      "if p0.Prune { recv.handlePrune(v1) }",
      "return true"] := rfl

theorem gen_leave_case_failed_shape :
    leaveCaseFailed = [
      -- Go: member.Status = StatusLeft
      "v1.Status = StatusLeft",
      -- Go: s.failedMembers = removeOldMember(s.failedMembers, member.Name)
      "recv.failedMembers = removeOldMember(recv.failedMembers, v1.Name)",
      -- Go: s.leftMembers = append(s.leftMembers, member)
      "recv.leftMembers = append(recv.leftMembers, v1)",
      -- Go: if s.config.EventCh != nil { s.config.EventCh <- MemberEvent{Type: EventMemberLeave, Members: []Member{member.Member}} }
      "if recv.config.EventCh != nil { recv.config.EventCh <- MemberEvent{Type: EventMemberLeave, Members: []Member{v1.Member}} }",
      -- Go: if leaveMsg.Prune { s.handlePrune(member) }
      "if p0.Prune { recv.handlePrune(v1) }",
      "return true"] := rfl

theorem gen_leave_case_leaving_left_shape :
    -- Go: case StatusLeaving, StatusLeft: if leaveMsg.Prune { s.handlePrune(member) }; return true
    leaveCaseLeavingLeft = ["if p0.Prune { recv.handlePrune(v1) }", "return true"] ∧
    leaveCaseDefault = ["return false"] := ⟨rfl, rfl⟩

theorem gen_handlePrune_shape :
    handlePruneStmts = [
      -- Go: func (s *Serf) handlePrune(member *memberState)                                    [member=p0]
      -- Go: if member.Status == StatusLeaving { time.Sleep(s.config.BroadcastTimeout + s.config.LeavePropagateDelay) }
      "if p0.Status == StatusLeaving { time.Sleep(recv.config.BroadcastTimeout + recv.config.LeavePropagateDelay) }",
      -- Go: if member.Status == StatusLeaving || member.Status == StatusLeft { s.leftMembers = removeOldMember(s.leftMembers, member.Name) }
      "if p0.Status == StatusLeaving || p0.Status == StatusLeft { recv.leftMembers = removeOldMember(recv.leftMembers, p0.Name) }",
      -- Go: s.eraseNode(member)
      "recv.eraseNode(p0)"] := rfl

/-- the clock witnesses the message time first, whatever happens afterwards (unknown member) -/
theorem gen_leave_witness_first_matches_model (n : Node) (x : Name) (lt : Nat) (p : Bool) (w : Nat)
    (h : alookup n.members x = none) :
    leaveWitnessFirst = true ∧
    (handleLeaveIntent n x lt p w).1.clock = witness n.clock lt ∧
    (handleLeaveIntent n x lt p w).2.rebroadcast = (upsertIntent n.intents x true lt w).2 := by
  refine ⟨rfl, ?_, ?_⟩ <;> simp [handleLeaveIntent, h]

/-- `leaveMsg.LTime <= member.statusLTime` ⇒ nothing but the clock changes and no rebroadcast:
non-strict `<=` in Go, `lt ≤ m.ltime` in the model -/
theorem gen_leave_stale_guard_matches_model (n : Node) (x : Name) (m : Member) (lt : Nat) (p : Bool) (w : Nat)
    (h : alookup n.members x = some m) (hle : lt ≤ m.ltime) :
    leaveStaleGuard = "p0.LTime <= v1.statusLTime" ∧
    handleLeaveIntent n x lt p w = ({ n with clock := witness n.clock lt }, {}) := by
  refine ⟨rfl, ?_⟩
  simp [handleLeaveIntent, h, hle]

/-- an equal time IS stale (the guard is `<=`, not `<`): a second copy is not rebroadcast -/
theorem gen_leave_stale_at_equality_example :
    leaveStaleGuard = "p0.LTime <= v1.statusLTime" ∧
    (handleLeaveIntent { name := "a", members := [("a", ⟨.alive, 0, 0⟩), ("b", ⟨.leaving, 4, 0⟩)] } "b" 4 false 0).2.rebroadcast = false ∧
    (handleLeaveIntent { name := "a", members := [("a", ⟨.alive, 0, 0⟩), ("b", ⟨.leaving, 4, 0⟩)] } "b" 5 false 0).2.rebroadcast = true := by
  decide

/-- the refutation: own name and alive ⇒ the member record is untouched (the status time is set
only AFTER this guard), the join is spawned with the clock value of that moment, no rebroadcast -/
theorem gen_leave_refute_matches_model (n : Node) (m : Member) (lt : Nat) (p : Bool) (w : Nat)
    (h : alookup n.members n.name = some m) (hlt : m.ltime < lt) (hl : n.life = .alive) :
    leaveGuardsBeforeSetTime = true ∧ leaveRefuteCall = "go recv.broadcastJoin(recv.clock.Time())" ∧
    handleLeaveIntent n n.name lt p w =
      ({ n with clock := witness n.clock lt, pending := n.pending ++ [witness n.clock lt] }, {}) := by
  refine ⟨rfl, rfl, ?_⟩
  have : ¬ lt ≤ m.ltime := by omega
  simp [handleLeaveIntent, h, this, hl]

/-- The prune order is decisive.  The model's failed case with `handlePrune` hoisted BEFORE the
failed-list removal (and returning right after it): the member is erased while its name stays on
the failed list. -/
def pruneBeforeRemoval (n : Node) (x : Name) (lt : Nat) : Node :=
  match alookup n.members x with
  | none => n
  | some m => (handlePrune { n with members := ainsert n.members x { m with ltime := lt, status := .left } } x).1

/-- a node that knows `b` as failed -/
def demoFailed : Node :=
  { name := "a", members := [("a", ⟨.alive, 0, 0⟩), ("b", ⟨.failed, 1, 5⟩)], failed := ["b"] }

theorem gen_prune_order_decisive :
    -- statement order in the Go case: list removal, append, (event,) THEN prune
    leavePruneAfterListUpdate = true ∧
    -- the model (that order): nothing is left behind
    (handleLeaveIntent demoFailed "b" 2 true 0).1.failed = [] ∧
    (handleLeaveIntent demoFailed "b" 2 true 0).1.left = [] ∧
    known (handleLeaveIntent demoFailed "b" 2 true 0).1 "b" = false ∧
    (handleLeaveIntent demoFailed "b" 2 true 0).2.events = [(.leave, "b"), (.reap, "b")] ∧
    -- the other order: a stale failed-list entry for an erased member
    (pruneBeforeRemoval demoFailed "b" 2).failed = ["b"] ∧
    known (pruneBeforeRemoval demoFailed "b" 2) "b" = false := by decide

/-- inside `handlePrune` the left-list removal precedes `eraseNode`, and it is conditional on the
status Leaving/Left exactly as in the model -/
theorem gen_handlePrune_matches_model (n : Node) (x : Name) :
    handlePruneStmts.idxOf "recv.eraseNode(p0)" = 2 ∧
    (statusOf n x = some .leaving ∨ statusOf n x = some .left →
      (handlePrune n x).1 = eraseNode { n with left := removeOld n.left x } x) ∧
    (statusOf n x = some .failed ∨ statusOf n x = some .alive ∨ statusOf n x = none →
      (handlePrune n x).1 = eraseNode n x) := by
  refine ⟨by decide, ?_, ?_⟩
  · rintro (h | h) <;> simp [handlePrune, h]
  · rintro (h | h | h) <;> simp [handlePrune, h]

/-- the failed case against the model: status Left, time set, failed-list removal, left append -/
theorem gen_leave_case_failed_matches_model (n : Node) (x : Name) (m : Member) (lt : Nat) (w : Nat)
    (h : alookup n.members x = some m) (hlt : m.ltime < lt) (hs : m.status = .failed)
    (hx : ¬ (x = n.name ∧ n.life = .alive)) :
    leaveSetsTimeBeforeSwitch = true ∧
    (handleLeaveIntent n x lt false w).1.failed = removeOld n.failed x ∧
    (handleLeaveIntent n x lt false w).1.left = n.left ++ [x] ∧
    (handleLeaveIntent n x lt false w).1.members = ainsert n.members x { m with ltime := lt, status := .left } ∧
    (handleLeaveIntent n x lt false w).2.events = [(.leave, x)] ∧
    (handleLeaveIntent n x lt false w).2.rebroadcast = true := by
  have h1 : ¬ lt ≤ m.ltime := by omega
  refine ⟨rfl, ?_, ?_, ?_, ?_, ?_⟩ <;> simp [handleLeaveIntent, h, h1, hx, hs]

/-! ## 3. `handleNodeJoin`, `handleNodeLeave`, `removeOldMember`, `upsertIntent`, `handleNodeJoinIntent` -/

theorem gen_join_cleanup_shape :
    -- Go: func (s *Serf) handleNodeJoin(n *memberlist.Node)      [n=p0 oldStatus=v0 member=v1 ok=v2 deadTime=v3]
    -- Go: if oldStatus == StatusFailed || oldStatus == StatusLeft { … }   (the two tests in textual order)
    joinCleanupGuard = "v0 == StatusFailed || v0 == StatusLeft" ∧
    joinCleanupStmts = [
      -- Go: s.failedMembers = removeOldMember(s.failedMembers, member.Name)
      "recv.failedMembers = removeOldMember(recv.failedMembers, v1.Name)",
      -- Go: s.leftMembers = removeOldMember(s.leftMembers, member.Name)
      "recv.leftMembers = removeOldMember(recv.leftMembers, v1.Name)"] := ⟨rfl, rfl⟩

theorem gen_join_intent_lookups_shape :
    joinIntentLookups = [
      -- (the `if !ok { first seen } else { known }` of the source is oriented `if ok { known } else { first seen }`,
      --  so the variables of the known branch are numbered first: deadTime=v3, then join=v4 ok=v5 leave=v6 ok=v7)
      -- Go: if join, ok := recentIntent(s.recentIntents, n.Name, messageJoinType); ok { member.statusLTime = join }
      "if v4, v5 := recentIntent(recv.recentIntents, p0.Name, messageJoinType); v5 { v1.statusLTime = v4 }",
      -- Go: if leave, ok := recentIntent(s.recentIntents, n.Name, messageLeaveType); ok { member.Status = StatusLeaving; member.statusLTime = leave }
      "if v6, v7 := recentIntent(recv.recentIntents, p0.Name, messageLeaveType); v7 { v1.Status = StatusLeaving; v1.statusLTime = v6 }"] := rfl

theorem gen_join_known_shape :
    joinKnownStmts = [
      -- Go: oldStatus = member.Status; deadTime := time.Since(member.leaveTime)
      "v0 = v1.Status",
      "v3 := time.Since(v1.leaveTime)",
      -- Go: member.Status = StatusAlive; member.leaveTime = time.Time{}
      "v1.Status = StatusAlive",
      "v1.leaveTime = time.Time{}",
      -- Go: member.Addr = n.Addr; member.Port = n.Port; member.Tags = s.decodeTags(n.Meta)
      "v1.Addr = p0.Addr",
      "v1.Port = p0.Port",
      "v1.Tags = recv.decodeTags(p0.Meta)"] := rfl

/-- BOTH lists are cleaned when the old status was Failed OR Left -/
theorem gen_join_cleanup_matches_model (n : Node) (x : Name) (m : Member)
    (h : alookup n.members x = some m) (hs : m.status = .failed ∨ m.status = .left) :
    joinCleanupGuard = "v0 == StatusFailed || v0 == StatusLeft" ∧ joinCleanupStmts.length = 2 ∧
    (handleNodeJoin n x).1.failed = removeOld n.failed x ∧
    (handleNodeJoin n x).1.left = removeOld n.left x ∧
    (handleNodeJoin n x).1.members = ainsert n.members x { m with status := .alive, leaveTime := 0 } := by
  refine ⟨rfl, rfl, ?_, ?_, ?_⟩ <;> simp [handleNodeJoin, h, hs]

/-- … and neither list is touched otherwise -/
theorem gen_join_no_cleanup_matches_model (n : Node) (x : Name) (m : Member)
    (h : alookup n.members x = some m) (hs : m.status = .alive ∨ m.status = .leaving) :
    joinCleanupGuard = "v0 == StatusFailed || v0 == StatusLeft" ∧
    (handleNodeJoin n x).1.failed = n.failed ∧ (handleNodeJoin n x).1.left = n.left := by
  refine ⟨rfl, ?_, ?_⟩ <;> rcases hs with hs | hs <;> simp [handleNodeJoin, h, hs]

/-- The clean-up shape is decisive.  The variant "a member that was Failed is removed from the
failed list, one that was Left from the left list" (`switch oldStatus`) on the model. -/
def joinCleansOwnListOnly (n : Node) (x : Name) : Node :=
  match alookup n.members x with
  | none => n
  | some m =>
    let n1 := { n with members := ainsert n.members x { m with status := .alive, leaveTime := 0 } }
    if m.status = .failed then { n1 with failed := removeOld n1.failed x }
    else if m.status = .left then { n1 with left := removeOld n1.left x } else n1

/-- `b` Left but (after a leave intent that did not clean the failed list) still listed as failed -/
def demoLeftStale : Node :=
  { name := "a", members := [("a", ⟨.alive, 0, 0⟩), ("b", ⟨.left, 2, 5⟩)], failed := ["b"], left := ["b"] }

theorem gen_join_cleanup_decisive :
    joinCleanupGuard = "v0 == StatusFailed || v0 == StatusLeft" ∧ joinCleanupStmts.length = 2 ∧
    (handleNodeJoin demoLeftStale "b").1.failed = [] ∧ (handleNodeJoin demoLeftStale "b").1.left = [] ∧
    (joinCleansOwnListOnly demoLeftStale "b").failed = ["b"] ∧
    statusOf (joinCleansOwnListOnly demoLeftStale "b") "b" = some .alive ∧
    -- and with the Go order of the failed case the stale state does not arise in the first place
    (handleLeaveIntent demoFailed "b" 2 false 0).1.failed = [] ∧
    (handleLeaveIntent demoFailed "b" 2 false 0).1.left = ["b"] := by decide

/-- the intent look-ups for a new member: join first, then leave (which also sets Leaving) -/
theorem gen_join_intent_lookups_match_model (n : Node) (x : Name) (i : Intent)
    (h : alookup n.members x = none) (hi : alookup n.intents x = some i) :
    joinIntentLookups.length = 2 ∧
    alookup (handleNodeJoin n x).1.members x =
      alookup (ainsert n.members x
        (if i.isLeave then { status := .leaving, ltime := i.ltime } else { status := .alive, ltime := i.ltime })) x := by
  refine ⟨rfl, ?_⟩
  simp [handleNodeJoin, h, hi]

theorem gen_nodeLeave_shape :
    -- Go: func (s *Serf) handleNodeLeave(n *memberlist.Node)   [n=p0 member=v0 ok=v1];  switch member.Status
    nodeLeaveSwitchTag = "v0.Status" ∧
    nodeLeaveCaseLeaving = [
      -- Go: member.Status = StatusLeft; member.leaveTime = time.Now(); s.leftMembers = append(s.leftMembers, member)
      "v0.Status = StatusLeft",
      "v0.leaveTime = time.Now()",
      "recv.leftMembers = append(recv.leftMembers, v0)"] ∧
    nodeLeaveCaseAlive = [
      -- Go: member.Status = StatusFailed; member.leaveTime = time.Now(); s.failedMembers = append(s.failedMembers, member)
      "v0.Status = StatusFailed",
      "v0.leaveTime = time.Now()",
      "recv.failedMembers = append(recv.failedMembers, v0)"] ∧
    nodeLeaveCaseDefault = ["return"] := ⟨rfl, rfl, rfl, rfl⟩

/-- Leaving → Left on the left list, Alive → Failed on the failed list, anything else: nothing -/
theorem gen_nodeLeave_matches_model (n : Node) (x : Name) (m : Member) (at_ : Nat)
    (h : alookup n.members x = some m) :
    nodeLeaveCaseDefault = ["return"] ∧
    (m.status = .leaving → (handleNodeLeave n x at_).1.left = n.left ++ [x] ∧ (handleNodeLeave n x at_).1.failed = n.failed) ∧
    (m.status = .alive → (handleNodeLeave n x at_).1.failed = n.failed ++ [x] ∧ (handleNodeLeave n x at_).1.left = n.left) ∧
    (m.status = .left ∨ m.status = .failed → (handleNodeLeave n x at_) = (n, {})) := by
  refine ⟨rfl, ?_, ?_, ?_⟩
  · intro hs; simp [handleNodeLeave, h, hs]
  · intro hs; simp [handleNodeLeave, h, hs]
  · rintro (hs | hs) <;> simp [handleNodeLeave, h, hs]

/-- `removeOldMember` is extracted as a SEMANTIC summary, not as text: which slice is searched,
with which predicate on an element `elem`, that the FIRST match (ascending index) is taken, what
is done with its index `idx`, and what happens without a match.  The extractor derives the same
summary from the manual loop
`for i, m := range old { if m.Name == name { n := len(old); old[i], old[n-1] = old[n-1], nil; return old[:n-1] } }; return old`
and from `i := slices.IndexFunc(old, func(m *memberState) bool { return m.Name == name }); if i < 0 { return old }; …`
(`old` = p0, `name` = p1; `n := len(old)` / `last := len(old) - 1` are inlined). -/
theorem gen_removeOldMember_shape :
    removeOldSearchOver = "p0" ∧
    -- Go: m.Name == name
    removeOldSearchPred = "elem.Name == p1" ∧
    removeOldSearchFirst = true ∧
    removeOldOnMatch = [
      -- Go: n := len(old); old[i], old[n-1] = old[n-1], nil
      "p0[idx], p0[len(p0)-1] = p0[len(p0)-1], nil",
      -- Go: return old[:n-1]
      "return p0[:len(p0)-1]"] ∧
    -- Go: return old
    removeOldNoMatch = "return p0" := ⟨rfl, rfl, rfl, rfl, rfl⟩

/-- The MEANING of that summary on the model's lists of names (an element is identified by its
`Name`, so `elem.Name == p1` is `· = x`): search the first index whose element satisfies the
predicate (`removeOldSearchFirst`); none: `return p0`, the list unchanged (`removeOldNoMatch`);
`some idx`: `p0[idx], p0[len(p0)-1] = p0[len(p0)-1], nil; return p0[:len(p0)-1]`, i.e. slot
`idx` receives the last element and the last slot is cut (`removeOldOnMatch`) = `swapRemove`. -/
def removeOldSem (l : List Name) (x : Name) : List Name :=
  match l.findIdx? (· = x) with
  | none => l
  | some i => swapRemove l i

/-- the interpretation of the summary IS the model's `removeOld`, for every list and name -/
theorem gen_removeOld_semantics : ∀ (l : List Name) (x : Name), removeOldSem l x = removeOld l x := by
  intro l x
  induction l with
  | nil => simp [removeOldSem, removeOld]
  | cons y ys ih =>
    unfold removeOldSem at ih ⊢
    by_cases h : y = x
    · simp [List.findIdx?_cons, h, removeOld, swapRemove]
    · cases hf : ys.findIdx? (· = x) with
      | none => simp [List.findIdx?_cons, h, hf, removeOld] at ih ⊢; exact ih
      | some i => simp [List.findIdx?_cons, h, hf, removeOld, swapRemove] at ih ⊢; exact ih

/-- the summary that `removeOldSem` interprets is the generated one, and so the generated code
removes like the model -/
theorem gen_removeOld_matches_model (l : List Name) (x : Name) :
    removeOldSearchPred = "elem.Name == p1" ∧ removeOldSearchFirst = true ∧ removeOldOnMatch.length = 2 ∧
    removeOldNoMatch = "return p0" ∧ removeOldSem l x = removeOld l x :=
  ⟨rfl, rfl, rfl, rfl, gen_removeOld_semantics l x⟩

/-- The FIRST match is decisive: removing the LAST match instead differs on a list with a duplicate. -/
def removeOldLastSem (l : List Name) (x : Name) : List Name :=
  match (l.reverse.findIdx? (· = x)) with
  | none => l
  | some j => swapRemove l (l.length - 1 - j)

theorem gen_removeOld_first_decisive :
    removeOldSearchFirst = true ∧
    removeOldSem ["a", "b", "a", "c"] "a" = ["c", "b", "a"] ∧
    removeOldLastSem ["a", "b", "a", "c"] "a" = ["a", "b", "c"] := by decide

/-- first match overwritten by the last element, slice cut by one; no match: unchanged -/
theorem gen_removeOldMember_example :
    removeOldOnMatch.length = 2 ∧
    removeOld ["a", "b", "c", "d"] "b" = ["a", "d", "c"] ∧ removeOld ["a", "b"] "b" = ["a"] ∧
    removeOld ["a", "b", "a"] "a" = ["a", "b"] ∧ removeOld ["a", "b"] "z" = ["a", "b"] := by decide

theorem gen_upsertIntent_shape :
    -- Go: func upsertIntent(intents map[string]nodeIntent, node string, itype messageType, ltime LamportTime, stamper func() time.Time) bool
    --     [intents=p0 node=p1 itype=p2 ltime=p3 stamper=p4 intent=v0 ok=v1]
    -- Go: if intent, ok := intents[node]; !ok || ltime > intent.LTime          (`a > b` is written `b < a`)
    upsertIntentGuard = "v0, v1 := p0[p1]; !v1 || v0.LTime < p3" ∧
    upsertIntentThen = [
      -- Go: intents[node] = nodeIntent{Type: itype, WallTime: stamper(), LTime: ltime}
      "p0[p1] = nodeIntent{Type: p2, WallTime: p4(), LTime: p3}",
      "return true"] ∧
    upsertIntentRest = ["return false"] := ⟨rfl, rfl, rfl⟩

/-- `!ok || ltime > intent.LTime` (printed `!v1 || v0.LTime < p3`), whatever the TYPE of the buffered intent -/
theorem gen_upsertIntent_guard_matches_model (ints : List (Name × Intent)) (x : Name) (b : Bool) (lt w : Nat) :
    upsertIntentGuard = "v0, v1 := p0[p1]; !v1 || v0.LTime < p3" ∧
    (upsertIntent ints x b lt w).2 =
      (match alookup ints x with
       | none => true
       | some i => decide (lt > i.ltime)) ∧
    ((upsertIntent ints x b lt w).2 = false → (upsertIntent ints x b lt w).1 = ints) := by
  refine ⟨rfl, ?_, ?_⟩
  · unfold upsertIntent
    cases alookup ints x with
    | none => rfl
    | some i => by_cases hi : i.ltime < lt <;> simp [hi]
  · unfold upsertIntent
    cases alookup ints x with
    | none => simp
    | some i => by_cases hi : i.ltime < lt <;> simp [hi]

/-- The guard is decisive.  The variant that refuses only "same type and not newer" on the model. -/
def upsertPerType (ints : List (Name × Intent)) (x : Name) (isLeave : Bool) (lt wall : Nat) :
    List (Name × Intent) × Bool :=
  match alookup ints x with
  | some i => if i.isLeave = isLeave ∧ lt ≤ i.ltime then (ints, false) else (ainsert ints x ⟨isLeave, lt, wall⟩, true)
  | none => (ainsert ints x ⟨isLeave, lt, wall⟩, true)

theorem gen_upsertIntent_guard_decisive :
    upsertIntentGuard = "v0, v1 := p0[p1]; !v1 || v0.LTime < p3" ∧
    -- a buffered join at time 5, then an OLDER leave at time 3
    upsertIntent [("b", ⟨false, 5, 0⟩)] "b" true 3 9 = ([("b", ⟨false, 5, 0⟩)], false) ∧
    upsertPerType [("b", ⟨false, 5, 0⟩)] "b" true 3 9 = ([("b", ⟨true, 3, 9⟩)], true) ∧
    -- an equal time is not newer
    (upsertIntent [("b", ⟨true, 5, 0⟩)] "b" true 5 9).2 = false := by decide

theorem gen_joinIntent_shape :
    -- Go: func (s *Serf) handleNodeJoinIntent(joinMsg *messageJoin) bool        [joinMsg=p0 member=v0 ok=v1]
    -- Go: joinMsg.LTime <= member.statusLTime
    joinIntentStaleGuard = "p0.LTime <= v0.statusLTime" ∧
    joinIntentStmts = [
      -- Go: s.clock.Witness(joinMsg.LTime)
      "recv.clock.Witness(p0.LTime)",
      "recv.memberLock.Lock()",
      "defer recv.memberLock.Unlock()",
      -- Go: member, ok := s.members[joinMsg.Node]
      "v0, v1 := recv.members[p0.Node]",
      -- Go: if !ok { return upsertIntent(s.recentIntents, joinMsg.Node, messageJoinType, joinMsg.LTime, time.Now) }
      "if !v1 { return upsertIntent(recv.recentIntents, p0.Node, messageJoinType, p0.LTime, time.Now) }",
      -- Go: if joinMsg.LTime <= member.statusLTime { return false }
      "if p0.LTime <= v0.statusLTime { return false }",
      -- Go: member.statusLTime = joinMsg.LTime
      "v0.statusLTime = p0.LTime",
      -- Go: if member.Status == StatusLeaving { member.Status = StatusAlive }
      "if v0.Status == StatusLeaving { v0.Status = StatusAlive }",
      "return true"] := ⟨rfl, rfl⟩

theorem gen_joinIntent_matches_model (n : Node) (x : Name) (m : Member) (lt w : Nat)
    (h : alookup n.members x = some m) :
    joinIntentStaleGuard = "p0.LTime <= v0.statusLTime" ∧
    (lt ≤ m.ltime → handleJoinIntent n x lt w = ({ n with clock := witness n.clock lt }, {})) ∧
    (m.ltime < lt → (handleJoinIntent n x lt w).2.rebroadcast = true ∧
      alookup (handleJoinIntent n x lt w).1.members x =
        alookup (ainsert n.members x { m with ltime := lt, status := if m.status = .leaving then .alive else m.status }) x) := by
  refine ⟨rfl, ?_, ?_⟩
  · intro hle; simp [handleJoinIntent, h, hle]
  · intro hlt
    have : ¬ lt ≤ m.ltime := by omega
    simp [handleJoinIntent, h, this]

/-! ## 4. `LocalState`, `MergeRemoteState`, `NotifyMsg` -/

theorem gen_localState_shape :
    localStateStatusLoop = [
      -- Go (LocalState): for name, member := range d.serf.members { pp.StatusLTimes[name] = member.statusLTime }   [name=w0 member=w1 pp=w2: numbered per fragment]
      "for w0, w1 := range recv.serf.members",
      "w2.StatusLTimes[w0] = w1.statusLTime"] ∧
    localStateStatusLoopUnconditional = true ∧
    localStateLeftLoop = [
      -- Go: for _, member := range d.serf.leftMembers { pp.LeftMembers = append(pp.LeftMembers, member.Name) }   [member=w0 pp=w1]
      "for _, w0 := range recv.serf.leftMembers",
      "w1.LeftMembers = append(w1.LeftMembers, w0.Name)"] ∧
    localStateLeftLoopUnconditional = true := ⟨rfl, rfl, rfl, rfl⟩

/-- every member (Left ones included) is reported with its status time, every left-list entry by name -/
theorem gen_localState_lists_left_members :
    localStateStatusLoopUnconditional = true ∧ localStateLeftLoopUnconditional = true ∧
    (∀ n : Node, (SerfModel.Cluster.localState n).1 = n.clock) ∧
    (∀ n : Node, (SerfModel.Cluster.localState n).2.1 = n.members.map (fun p => (p.1, p.2.ltime))) ∧
    (∀ n : Node, (SerfModel.Cluster.localState n).2.2 = n.left) :=
  ⟨rfl, rfl, fun _ => rfl, fun _ => rfl, fun _ => rfl⟩

/-- The unconditional loop is decisive.  `LocalState` that skips Left members: -/
def localStateSkippingLeft (n : Node) : Nat × List (Name × Nat) × List Name :=
  (n.clock, (n.members.filter (fun p => p.2.status ≠ .left)).map (fun p => (p.1, p.2.ltime)), n.left)

/-- the receiver knows `b` as failed at time 3; the sender has it Left at time 7.  With the real
`LocalState` the claim is made at 7 + 1 and accepted; with the skipping one it is made at 0 + 1
and refused as stale: the receiver keeps `b` failed for ever. -/
theorem gen_localState_unconditional_decisive :
    localStateStatusLoopUnconditional = true ∧
    statusOf (merge { name := "r", members := [("r", ⟨.alive, 0, 0⟩), ("b", ⟨.failed, 3, 5⟩)], failed := ["b"] }
      (SerfModel.Cluster.localState { name := "s", members := [("s", ⟨.alive, 0, 0⟩), ("b", ⟨.left, 7, 5⟩)], left := ["b"] }).1
      (SerfModel.Cluster.localState { name := "s", members := [("s", ⟨.alive, 0, 0⟩), ("b", ⟨.left, 7, 5⟩)], left := ["b"] }).2.1
      (SerfModel.Cluster.localState { name := "s", members := [("s", ⟨.alive, 0, 0⟩), ("b", ⟨.left, 7, 5⟩)], left := ["b"] }).2.2 0).1 "b" = some .left ∧
    statusOf (merge { name := "r", members := [("r", ⟨.alive, 0, 0⟩), ("b", ⟨.failed, 3, 5⟩)], failed := ["b"] }
      (localStateSkippingLeft { name := "s", members := [("s", ⟨.alive, 0, 0⟩), ("b", ⟨.left, 7, 5⟩)], left := ["b"] }).1
      (localStateSkippingLeft { name := "s", members := [("s", ⟨.alive, 0, 0⟩), ("b", ⟨.left, 7, 5⟩)], left := ["b"] }).2.1
      (localStateSkippingLeft { name := "s", members := [("s", ⟨.alive, 0, 0⟩), ("b", ⟨.left, 7, 5⟩)], left := ["b"] }).2.2 0).1 "b" = some .failed := by
  decide

theorem gen_merge_loops_shape :
    -- Go (MergeRemoteState): [pp=v0 err=v1 leftMap=v2 leave=v3 name=v4 join=v5 name=v6 statusLTime=v7 ok=v8]
    -- Go: pp.StatusLTimes[name] + 1     (a constant in place of the 1 would be resolved to its value)
    mergeLeaveTimeExpr = "v0.StatusLTimes[v4] + 1" ∧ mergeLeaveOffset = 1 ∧
    mergeLeftLoopStmts = [
      -- Go: for _, name := range pp.LeftMembers
      "for _, v4 := range v0.LeftMembers",
      -- Go: leftMap[name] = struct{}{}
      "v2[v4] = struct{}{}",
      -- Go: leave.LTime = pp.StatusLTimes[name] + 1
      "v3.LTime = v0.StatusLTimes[v4] + 1",
      -- Go: leave.Node = name
      "v3.Node = v4",
      -- Go: d.serf.handleNodeLeaveIntent(&leave)
      "recv.serf.handleNodeLeaveIntent(&v3)"] ∧
    mergeJoinLoopStmts = [
      -- Go: for name, statusLTime := range pp.StatusLTimes
      "for v6, v7 := range v0.StatusLTimes",
      -- Go: if _, ok := leftMap[name]; ok { continue }
      "if _, v8 := v2[v6]; v8 { continue }",
      -- Go: join.LTime = statusLTime; join.Node = name
      "v5.LTime = v7",
      "v5.Node = v6",
      -- Go: d.serf.handleNodeJoinIntent(&join)
      "recv.serf.handleNodeJoinIntent(&v5)"] := ⟨rfl, rfl, rfl, rfl⟩

theorem gen_merge_order_shape :
    mergeLeftsBeforeJoins = true ∧ mergeIgnoresResults = true ∧ mergeWitnessBeforeLoops = true ∧
    mergeWitnessStmts = [
      -- Go: if pp.LTime > 0 { d.serf.clock.Witness(pp.LTime - 1) }              (`a > 0` is written `0 < a`)
      "if 0 < v0.LTime { recv.serf.clock.Witness(v0.LTime - 1) }",
      -- Go: if pp.EventLTime > 0 { d.serf.eventClock.Witness(pp.EventLTime - 1) }
      "if 0 < v0.EventLTime { recv.serf.eventClock.Witness(v0.EventLTime - 1) }",
      -- Go: if pp.QueryLTime > 0 { d.serf.queryClock.Witness(pp.QueryLTime - 1) }
      "if 0 < v0.QueryLTime { recv.serf.queryClock.Witness(v0.QueryLTime - 1) }"] := ⟨rfl, rfl, rfl, rfl⟩

/-- the model's claim time uses exactly the generated offset -/
theorem gen_merge_claim_offset (st : List (Name × Nat)) (x : Name) :
    (((alookup st x).getD 0) + mergeLeaveOffset) % two64 = (((alookup st x).getD 0) + 1) % two64 := rfl

/-- one iteration of the left loop of the model, written with the GENERATED offset: a leave
intent at `StatusLTimes[name] + offset` (a missing key reads 0; uint64 wrap), never a prune,
result ignored, events kept -/
theorem gen_mergeLefts_uses_offset (n : Node) (st : List (Name × Nat)) (wall : Nat) (x : Name) (xs : List Name) :
    mergeLefts n st wall (x :: xs) =
      ((mergeLefts (handleLeaveIntent n x ((((alookup st x).getD 0) + mergeLeaveOffset) % two64) false wall).1 st wall xs).1,
       (handleLeaveIntent n x ((((alookup st x).getD 0) + mergeLeaveOffset) % two64) false wall).2.events ++
       (mergeLefts (handleLeaveIntent n x ((((alookup st x).getD 0) + mergeLeaveOffset) % two64) false wall).1 st wall xs).2) := rfl

/-- the status loop of the model: names on the left list are skipped, the others become join intents -/
theorem gen_mergeJoins_skips_left (n : Node) (left : List Name) (wall : Nat) (x : Name) (t : Nat)
    (rest : List (Name × Nat)) :
    mergeJoinLoopStmts[1]? = some "if _, v8 := v2[v6]; v8 { continue }" ∧
    (x ∈ left → mergeJoins n left wall ((x, t) :: rest) = mergeJoins n left wall rest) ∧
    (x ∉ left → mergeJoins n left wall ((x, t) :: rest) = mergeJoins (handleJoinIntent n x t wall).1 left wall rest) := by
  refine ⟨rfl, ?_, ?_⟩ <;> intro h <;> simp [mergeJoins, h]

/-- witness (time − 1, only if positive), then ALL lefts, then the joins; no rebroadcast decision -/
theorem gen_merge_order_matches_model (n : Node) (lt : Nat) (st : List (Name × Nat)) (lf : List Name) (w : Nat) :
    mergeWitnessBeforeLoops = true ∧ mergeLeftsBeforeJoins = true ∧ mergeIgnoresResults = true ∧
    (merge n lt st lf w).1 =
      mergeJoins (mergeLefts (if 0 < lt then { n with clock := witness n.clock (lt - 1) } else n) st w lf).1 lf w st ∧
    (merge n lt st lf w).2.rebroadcast = false ∧ (merge n lt st lf w).2.queued = [] :=
  ⟨rfl, rfl, rfl, rfl, rfl, rfl⟩

/-- The offset is decisive: the claim must be strictly newer than the status time the receiver
already holds (the stale guard is `<=`), so with `+ 0` a claim for a member both sides hold at the
same status time is refused. -/
theorem gen_merge_offset_decisive :
    mergeLeaveOffset = 1 ∧
    -- receiver has b failed at 1, sender has b left at 1: the claim 1 + offset is accepted
    statusOf (handleLeaveIntent demoFailed "b" ((1 + mergeLeaveOffset) % two64) false 0).1 "b" = some .left ∧
    -- with offset 0 it would be stale
    statusOf (handleLeaveIntent demoFailed "b" ((1 + 0) % two64) false 0).1 "b" = some .failed := by decide

theorem gen_notify_shape :
    -- Go (NotifyMsg): rebroadcast := false … if rebroadcast { …QueueBroadcast… }   [rebroadcast=v0 rebroadcastQueue=v1 t=v2 leave=v3 err=v4 join=v5]
    notifyRebroadcastGuard = "v0" ∧ notifyRebroadcastInit = "v0 := false" ∧
    -- Go: rebroadcast = d.serf.handleNodeLeaveIntent(&leave)
    notifyLeaveHandler = "v0 = recv.serf.handleNodeLeaveIntent(&v3)" ∧
    -- Go: rebroadcast = d.serf.handleNodeJoinIntent(&join)
    notifyJoinHandler = "v0 = recv.serf.handleNodeJoinIntent(&v5)" ∧
    notifyHandlersAssignGuard = true := ⟨rfl, rfl, rfl, rfl, rfl⟩

/-- NotifyMsg re-queues the message iff the handler returned true: the model's `rebroadcasts`
collects exactly the messages whose step reported `rebroadcast` -/
theorem gen_notify_matches_model (n : Node) (x : Name) (lt : Nat) (p : Bool) (w : Nat) (ops : List Op) :
    notifyHandlersAssignGuard = true ∧
    rebroadcasts n (.leaveMsg x lt p w :: ops) =
      (if (handleLeaveIntent n x lt p w).2.rebroadcast then
        Msg.leave x lt p :: rebroadcasts (handleLeaveIntent n x lt p w).1 ops
       else rebroadcasts (handleLeaveIntent n x lt p w).1 ops) ∧
    rebroadcasts n (.joinMsg x lt w :: ops) =
      (if (handleJoinIntent n x lt w).2.rebroadcast then
        Msg.join x lt :: rebroadcasts (handleJoinIntent n x lt w).1 ops
       else rebroadcasts (handleJoinIntent n x lt w).1 ops) :=
  ⟨rfl, rfl, rfl⟩

end SerfProofs.NodeShapes
