/-
The REGENERATED TIE between the Go source of the membership state machine and the hand-written
model `SerfModel.Model.Node` / `SerfModel.Model.Cluster`.

`SerfModel.Gen.NodeShapes` is produced by `extract/nodeshapes.go` (go/ast) on every check run from
serf/serf.go and serf/delegate.go: the decisive statements, guards and statement ORDERS, printed
canonically, plus a few derived booleans / numbers.  Every theorem here is named `gen_…`:

* `gen_…_shape`  : the generated definition is literally what the model was written against
                   (an edit of the Go code changes the Gen file and the `rfl` no longer holds);
* the others      : connect the generated fact to the corresponding parameter of the model
                   (strict vs non-strict comparison, `+ 1`, list clean-up, statement order …) and,
                   where the shape is DECISIVE, exhibit by `decide` what the model would do with
                   the other shape (`reapLoopNoRecheck`, `pruneBeforeRemoval`, `joinCleansOwnListOnly`,
                   `upsertPerType`, `localStateSkippingLeft`).
Core Lean only; no Mathlib.
-/
import SerfModel.Gen.NodeShapes
import SerfModel.Model.Node
import SerfModel.Model.Cluster
namespace SerfProofs.NodeShapes
open SerfModel SerfModel.Node SerfModel.Gen.NodeShapes

/-! ## 1. `reap` / `handleReap` -/

theorem gen_reap_header_shape :
    reapInit = "n := len(old)" ∧ reapForInit = "i := 0" ∧ reapCond = "i < n" ∧ reapPost = "i++" ∧
    reapAfterLoop = ["return old"] := ⟨rfl, rfl, rfl, rfl, rfl⟩

theorem gen_reap_keep_guard_shape :
    reapKeepGuard = "now.Sub(m.leaveTime) <= memberTimeout" ∧ reapKeepsAtEquality = true := ⟨rfl, rfl⟩

theorem gen_reap_pre_guard_shape :
    reapPreGuardStmts = [
      "m := old[i]",
      "memberTimeout := timeout",
      "if s.config.ReconnectTimeoutOverride != nil { memberTimeout = s.config.ReconnectTimeoutOverride.ReconnectTimeout(&m.Member, memberTimeout) }"] ∧
    reapOverrideApplied = true := ⟨rfl, rfl⟩

theorem gen_reap_delete_shape :
    reapDeleteStmts = [
      "old[i], old[n-1] = old[n-1], nil",
      "old = old[:n-1]",
      "n--",
      "i--",
      "s.eraseNode(m)"] ∧
    reapRechecksSlot = true := ⟨rfl, rfl⟩

theorem gen_reap_calls_shape :
    reapCalls = [
      "s.failedMembers = s.reap(s.failedMembers, now, s.config.ReconnectTimeout)",
      "s.leftMembers = s.reap(s.leftMembers, now, s.config.TombstoneTimeout)",
      "reapIntents(s.recentIntents, now, s.config.RecentIntentTimeout)"] := rfl

/-- Go keeps an entry when `now.Sub(leaveTime) <= memberTimeout` ⇔ the model expires it on the
strict `>`; the timeout compared with is the overridden one (`ov x timeout`). -/
theorem gen_reap_keep_guard_matches_model :
    reapKeepsAtEquality = true ∧ reapOverrideApplied = true ∧
    ∀ (ms : List (Name × Member)) (now : Nat) (ov : Name → Nat → Nat) (t : Nat) (x : Name),
      expired ms now ov t x = decide (now - ((alookup ms x).map (·.leaveTime)).getD 0 > ov x t) :=
  ⟨rfl, rfl, fun _ _ _ _ _ => rfl⟩

/-- exactly at the timeout the entry is kept, one tick later it is reaped; an override that
prolongs the timeout is honoured -/
theorem gen_reap_keep_at_equality_example :
    reapKeepsAtEquality = true ∧
    expired [("a", { status := .failed, ltime := 0, leaveTime := 5 })] 15 (fun _ t => t) 10 "a" = false ∧
    expired [("a", { status := .failed, ltime := 0, leaveTime := 5 })] 16 (fun _ t => t) 10 "a" = true ∧
    expired [("a", { status := .failed, ltime := 0, leaveTime := 5 })] 16 (fun _ t => t + 1) 10 "a" = false := by
  decide

/-- the three reap statements of `handleReap` against the model's `reap`: failed list with
`ReconnectTimeout`, THEN left list with `TombstoneTimeout` (over the members map as already
reaped), THEN the intents with `RecentIntentTimeout` -/
theorem gen_reap_calls_match_model (n : Node) (now : Nat) (ov : Name → Nat → Nat) :
    reapCalls.length = 3 ∧
    (reap n now ov).1.failed = (reapList n.members n.failed now ov n.cfg.reconnect).1 ∧
    (reap n now ov).1.left =
      (reapList (eraseAll n.members (reapList n.members n.failed now ov n.cfg.reconnect).2)
        n.left now ov n.cfg.tombstone).1 ∧
    (reap n now ov).1.intents = reapIntents n.intents now n.cfg.intentTimeout :=
  ⟨rfl, rfl, rfl, rfl⟩

/-- The loop shape is decisive.  This is the model's `reapLoop` for the SAME loop WITHOUT `i--`
after a removal (`for i := 0; i < len(old); i++ { …; swap-delete }`): the element swapped into the
freed slot is never examined. -/
def reapLoopNoRecheck (exp : Name → Bool) : Nat → List Name → Nat → List Name → List Name × List Name
  | 0, old, _, acc => (old, acc)
  | fuel + 1, old, i, acc =>
    match old[i]? with
    | none => (old, acc)
    | some m =>
      if exp m then reapLoopNoRecheck exp fuel (swapRemove old i) (i + 1) (acc ++ [m])
      else reapLoopNoRecheck exp fuel old (i + 1) acc

theorem gen_reap_recheck_decisive :
    reapRechecksSlot = true ∧
    (reapLoop (fun _ => true) 3 ["a", "b", "c"] 0 []).1 = [] ∧
    (reapLoopNoRecheck (fun _ => true) 3 ["a", "b", "c"] 0 []).1 ≠ [] := by decide

/-- the statements of the delete branch against `reapLoop`: one expired element at slot `i` is
swap-removed, erased, and the SAME slot is looked at next -/
theorem gen_reap_delete_matches_model (exp : Name → Bool) (fuel i : Nat) (old acc : List Name) (m : Name)
    (hm : old[i]? = some m) (he : exp m = true) :
    reapRechecksSlot = true ∧
    reapLoop exp (fuel + 1) old i acc = reapLoop exp fuel (swapRemove old i) i (acc ++ [m]) := by
  refine ⟨rfl, ?_⟩
  simp [reapLoop, hm, he]

/-- `old[i], old[n-1] = old[n-1], nil; old = old[:n-1]` is `swapRemove` -/
theorem gen_reap_swap_example :
    reapDeleteStmts.take 2 = ["old[i], old[n-1] = old[n-1], nil", "old = old[:n-1]"] ∧
    swapRemove ["a", "b", "c", "d"] 1 = ["a", "d", "c"] ∧ swapRemove ["a"] 0 = [] ∧
    swapRemove ["a", "b"] 1 = ["a"] := by decide

/-! ## 2. `handleNodeLeaveIntent` / `handlePrune` -/

theorem gen_leave_guards_shape :
    leaveStaleGuard = "leaveMsg.LTime <= member.statusLTime" ∧
    leaveRefuteGuard = "leaveMsg.Node == s.config.NodeName && state == SerfAlive" ∧
    leaveRefuteCall = "go s.broadcastJoin(s.clock.Time())" ∧
    leaveRefuteStmts = ["go s.broadcastJoin(s.clock.Time())", "return false"] := ⟨rfl, rfl, rfl, rfl⟩

theorem gen_leave_order_shape :
    leaveWitnessFirst = true ∧ leaveSetsTimeBeforeSwitch = true ∧ leaveGuardsBeforeSetTime = true ∧
    leavePruneAfterListUpdate = true := ⟨rfl, rfl, rfl, rfl⟩

theorem gen_leave_skeleton_shape :
    leaveSkeleton = [
      "state := s.State()",
      "s.clock.Witness(leaveMsg.LTime)",
      "s.memberLock.Lock()",
      "defer s.memberLock.Unlock()",
      "member, ok := s.members[leaveMsg.Node]",
      "if !ok { return upsertIntent(s.recentIntents, leaveMsg.Node, messageLeaveType, leaveMsg.LTime, time.Now) }",
      "if leaveMsg.LTime <= member.statusLTime { return false }",
      "if leaveMsg.Node == s.config.NodeName && state == SerfAlive { go s.broadcastJoin(s.clock.Time()); return false }",
      "member.statusLTime = leaveMsg.LTime",
      "switch member.Status"] := rfl

theorem gen_leave_case_alive_shape :
    leaveCaseAlive = [
      "member.Status = StatusLeaving",
      "if leaveMsg.Prune { s.handlePrune(member) }",
      "return true"] := rfl

theorem gen_leave_case_failed_shape :
    leaveCaseFailed = [
      "member.Status = StatusLeft",
      "s.failedMembers = removeOldMember(s.failedMembers, member.Name)",
      "s.leftMembers = append(s.leftMembers, member)",
      "if s.config.EventCh != nil { s.config.EventCh <- MemberEvent{Type: EventMemberLeave, Members: []Member{member.Member}} }",
      "if leaveMsg.Prune { s.handlePrune(member) }",
      "return true"] := rfl

theorem gen_leave_case_leaving_left_shape :
    leaveCaseLeavingLeft = ["if leaveMsg.Prune { s.handlePrune(member) }", "return true"] ∧
    leaveCaseDefault = ["return false"] := ⟨rfl, rfl⟩

theorem gen_handlePrune_shape :
    handlePruneStmts = [
      "if member.Status == StatusLeaving { time.Sleep(s.config.BroadcastTimeout + s.config.LeavePropagateDelay) }",
      "if member.Status == StatusLeaving || member.Status == StatusLeft { s.leftMembers = removeOldMember(s.leftMembers, member.Name) }",
      "s.eraseNode(member)"] := rfl

/-- the clock witnesses the message time first, whatever happens afterwards (unknown member) -/
theorem gen_leave_witness_first_matches_model (n : Node) (x : Name) (lt : Nat) (p : Bool) (w : Nat)
    (h : alookup n.members x = none) :
    leaveWitnessFirst = true ∧
    (handleLeaveIntent n x lt p w).1.clock = witness n.clock lt ∧
    (handleLeaveIntent n x lt p w).2.rebroadcast = (upsertIntent n.intents x true lt w).2 := by
  refine ⟨rfl, ?_, ?_⟩ <;> simp [handleLeaveIntent, h]

/-- `leaveMsg.LTime <= member.statusLTime` ⇒ nothing but the clock changes and no rebroadcast:
non-strict `<=` in Go, `lt ≤ m.ltime` in the model -/
theorem gen_leave_stale_guard_matches_model (n : Node) (x : Name) (m : Member) (lt : Nat) (p : Bool) (w : Nat)
    (h : alookup n.members x = some m) (hle : lt ≤ m.ltime) :
    leaveStaleGuard = "leaveMsg.LTime <= member.statusLTime" ∧
    handleLeaveIntent n x lt p w = ({ n with clock := witness n.clock lt }, {}) := by
  refine ⟨rfl, ?_⟩
  simp [handleLeaveIntent, h, hle]

/-- an equal time IS stale (the guard is `<=`, not `<`): a second copy is not rebroadcast -/
theorem gen_leave_stale_at_equality_example :
    leaveStaleGuard = "leaveMsg.LTime <= member.statusLTime" ∧
    (handleLeaveIntent { name := "a", members := [("a", ⟨.alive, 0, 0⟩), ("b", ⟨.leaving, 4, 0⟩)] } "b" 4 false 0).2.rebroadcast = false ∧
    (handleLeaveIntent { name := "a", members := [("a", ⟨.alive, 0, 0⟩), ("b", ⟨.leaving, 4, 0⟩)] } "b" 5 false 0).2.rebroadcast = true := by
  decide

/-- the refutation: own name and alive ⇒ the member record is untouched (the status time is set
only AFTER this guard), the join is spawned with the clock value of that moment, no rebroadcast -/
theorem gen_leave_refute_matches_model (n : Node) (m : Member) (lt : Nat) (p : Bool) (w : Nat)
    (h : alookup n.members n.name = some m) (hlt : m.ltime < lt) (hl : n.life = .alive) :
    leaveGuardsBeforeSetTime = true ∧ leaveRefuteCall = "go s.broadcastJoin(s.clock.Time())" ∧
    handleLeaveIntent n n.name lt p w =
      ({ n with clock := witness n.clock lt, pending := n.pending ++ [witness n.clock lt] }, {}) := by
  refine ⟨rfl, rfl, ?_⟩
  have : ¬ lt ≤ m.ltime := by omega
  simp [handleLeaveIntent, h, this, hl]

/-- The prune order is decisive.  The model's failed case with `handlePrune` hoisted BEFORE the
failed-list removal (and returning right after it): the member is erased while its name stays on
the failed list. -/
def pruneBeforeRemoval (n : Node) (x : Name) (lt : Nat) : Node :=
  match alookup n.members x with
  | none => n
  | some m => (handlePrune { n with members := ainsert n.members x { m with ltime := lt, status := .left } } x).1

/-- a node that knows `b` as failed -/
def demoFailed : Node :=
  { name := "a", members := [("a", ⟨.alive, 0, 0⟩), ("b", ⟨.failed, 1, 5⟩)], failed := ["b"] }

theorem gen_prune_order_decisive :
    -- statement order in the Go case: list removal, append, (event,) THEN prune
    leavePruneAfterListUpdate = true ∧
    -- the model (that order): nothing is left behind
    (handleLeaveIntent demoFailed "b" 2 true 0).1.failed = [] ∧
    (handleLeaveIntent demoFailed "b" 2 true 0).1.left = [] ∧
    known (handleLeaveIntent demoFailed "b" 2 true 0).1 "b" = false ∧
    (handleLeaveIntent demoFailed "b" 2 true 0).2.events = [(.leave, "b"), (.reap, "b")] ∧
    -- the other order: a stale failed-list entry for an erased member
    (pruneBeforeRemoval demoFailed "b" 2).failed = ["b"] ∧
    known (pruneBeforeRemoval demoFailed "b" 2) "b" = false := by decide

/-- inside `handlePrune` the left-list removal precedes `eraseNode`, and it is conditional on the
status Leaving/Left exactly as in the model -/
theorem gen_handlePrune_matches_model (n : Node) (x : Name) :
    handlePruneStmts.idxOf "s.eraseNode(member)" = 2 ∧
    (statusOf n x = some .leaving ∨ statusOf n x = some .left →
      (handlePrune n x).1 = eraseNode { n with left := removeOld n.left x } x) ∧
    (statusOf n x = some .failed ∨ statusOf n x = some .alive ∨ statusOf n x = none →
      (handlePrune n x).1 = eraseNode n x) := by
  refine ⟨by decide, ?_, ?_⟩
  · rintro (h | h) <;> simp [handlePrune, h]
  · rintro (h | h | h) <;> simp [handlePrune, h]

/-- the failed case against the model: status Left, time set, failed-list removal, left append -/
theorem gen_leave_case_failed_matches_model (n : Node) (x : Name) (m : Member) (lt : Nat) (w : Nat)
    (h : alookup n.members x = some m) (hlt : m.ltime < lt) (hs : m.status = .failed)
    (hx : ¬ (x = n.name ∧ n.life = .alive)) :
    leaveSetsTimeBeforeSwitch = true ∧
    (handleLeaveIntent n x lt false w).1.failed = removeOld n.failed x ∧
    (handleLeaveIntent n x lt false w).1.left = n.left ++ [x] ∧
    (handleLeaveIntent n x lt false w).1.members = ainsert n.members x { m with ltime := lt, status := .left } ∧
    (handleLeaveIntent n x lt false w).2.events = [(.leave, x)] ∧
    (handleLeaveIntent n x lt false w).2.rebroadcast = true := by
  have h1 : ¬ lt ≤ m.ltime := by omega
  refine ⟨rfl, ?_, ?_, ?_, ?_, ?_⟩ <;> simp [handleLeaveIntent, h, h1, hx, hs]

/-! ## 3. `handleNodeJoin`, `handleNodeLeave`, `removeOldMember`, `upsertIntent`, `handleNodeJoinIntent` -/

theorem gen_join_cleanup_shape :
    joinCleanupGuard = "oldStatus == StatusFailed || oldStatus == StatusLeft" ∧
    joinCleanupStmts = [
      "s.failedMembers = removeOldMember(s.failedMembers, member.Name)",
      "s.leftMembers = removeOldMember(s.leftMembers, member.Name)"] := ⟨rfl, rfl⟩

theorem gen_join_intent_lookups_shape :
    joinIntentLookups = [
      "if join, ok := recentIntent(s.recentIntents, n.Name, messageJoinType); ok { member.statusLTime = join }",
      "if leave, ok := recentIntent(s.recentIntents, n.Name, messageLeaveType); ok { member.Status = StatusLeaving; member.statusLTime = leave }"] := rfl

theorem gen_join_known_shape :
    joinKnownStmts = [
      "oldStatus = member.Status",
      "deadTime := time.Since(member.leaveTime)",
      "member.Status = StatusAlive",
      "member.leaveTime = time.Time{}",
      "member.Addr = n.Addr",
      "member.Port = n.Port",
      "member.Tags = s.decodeTags(n.Meta)"] := rfl

/-- BOTH lists are cleaned when the old status was Failed OR Left -/
theorem gen_join_cleanup_matches_model (n : Node) (x : Name) (m : Member)
    (h : alookup n.members x = some m) (hs : m.status = .failed ∨ m.status = .left) :
    joinCleanupGuard = "oldStatus == StatusFailed || oldStatus == StatusLeft" ∧ joinCleanupStmts.length = 2 ∧
    (handleNodeJoin n x).1.failed = removeOld n.failed x ∧
    (handleNodeJoin n x).1.left = removeOld n.left x ∧
    (handleNodeJoin n x).1.members = ainsert n.members x { m with status := .alive, leaveTime := 0 } := by
  refine ⟨rfl, rfl, ?_, ?_, ?_⟩ <;> simp [handleNodeJoin, h, hs]

/-- … and neither list is touched otherwise -/
theorem gen_join_no_cleanup_matches_model (n : Node) (x : Name) (m : Member)
    (h : alookup n.members x = some m) (hs : m.status = .alive ∨ m.status = .leaving) :
    joinCleanupGuard = "oldStatus == StatusFailed || oldStatus == StatusLeft" ∧
    (handleNodeJoin n x).1.failed = n.failed ∧ (handleNodeJoin n x).1.left = n.left := by
  refine ⟨rfl, ?_, ?_⟩ <;> rcases hs with hs | hs <;> simp [handleNodeJoin, h, hs]

/-- The clean-up shape is decisive.  The variant "a member that was Failed is removed from the
failed list, one that was Left from the left list" (`switch oldStatus`) on the model. -/
def joinCleansOwnListOnly (n : Node) (x : Name) : Node :=
  match alookup n.members x with
  | none => n
  | some m =>
    let n1 := { n with members := ainsert n.members x { m with status := .alive, leaveTime := 0 } }
    if m.status = .failed then { n1 with failed := removeOld n1.failed x }
    else if m.status = .left then { n1 with left := removeOld n1.left x } else n1

/-- `b` Left but (after a leave intent that did not clean the failed list) still listed as failed -/
def demoLeftStale : Node :=
  { name := "a", members := [("a", ⟨.alive, 0, 0⟩), ("b", ⟨.left, 2, 5⟩)], failed := ["b"], left := ["b"] }

theorem gen_join_cleanup_decisive :
    joinCleanupGuard = "oldStatus == StatusFailed || oldStatus == StatusLeft" ∧ joinCleanupStmts.length = 2 ∧
    (handleNodeJoin demoLeftStale "b").1.failed = [] ∧ (handleNodeJoin demoLeftStale "b").1.left = [] ∧
    (joinCleansOwnListOnly demoLeftStale "b").failed = ["b"] ∧
    statusOf (joinCleansOwnListOnly demoLeftStale "b") "b" = some .alive ∧
    -- and with the Go order of the failed case the stale state does not arise in the first place
    (handleLeaveIntent demoFailed "b" 2 false 0).1.failed = [] ∧
    (handleLeaveIntent demoFailed "b" 2 false 0).1.left = ["b"] := by decide

/-- the intent look-ups for a new member: join first, then leave (which also sets Leaving) -/
theorem gen_join_intent_lookups_match_model (n : Node) (x : Name) (i : Intent)
    (h : alookup n.members x = none) (hi : alookup n.intents x = some i) :
    joinIntentLookups.length = 2 ∧
    alookup (handleNodeJoin n x).1.members x =
      alookup (ainsert n.members x
        (if i.isLeave then { status := .leaving, ltime := i.ltime } else { status := .alive, ltime := i.ltime })) x := by
  refine ⟨rfl, ?_⟩
  simp [handleNodeJoin, h, hi]

theorem gen_nodeLeave_shape :
    nodeLeaveSwitchTag = "member.Status" ∧
    nodeLeaveCaseLeaving = [
      "member.Status = StatusLeft",
      "member.leaveTime = time.Now()",
      "s.leftMembers = append(s.leftMembers, member)"] ∧
    nodeLeaveCaseAlive = [
      "member.Status = StatusFailed",
      "member.leaveTime = time.Now()",
      "s.failedMembers = append(s.failedMembers, member)"] ∧
    nodeLeaveCaseDefault = ["return"] := ⟨rfl, rfl, rfl, rfl⟩

/-- Leaving → Left on the left list, Alive → Failed on the failed list, anything else: nothing -/
theorem gen_nodeLeave_matches_model (n : Node) (x : Name) (m : Member) (at_ : Nat)
    (h : alookup n.members x = some m) :
    nodeLeaveCaseDefault = ["return"] ∧
    (m.status = .leaving → (handleNodeLeave n x at_).1.left = n.left ++ [x] ∧ (handleNodeLeave n x at_).1.failed = n.failed) ∧
    (m.status = .alive → (handleNodeLeave n x at_).1.failed = n.failed ++ [x] ∧ (handleNodeLeave n x at_).1.left = n.left) ∧
    (m.status = .left ∨ m.status = .failed → (handleNodeLeave n x at_) = (n, {})) := by
  refine ⟨rfl, ?_, ?_, ?_⟩
  · intro hs; simp [handleNodeLeave, h, hs]
  · intro hs; simp [handleNodeLeave, h, hs]
  · rintro (hs | hs) <;> simp [handleNodeLeave, h, hs]

theorem gen_removeOldMember_shape :
    removeOldMemberStmts = [
      "for i, m := range old { if m.Name == name { n := len(old); old[i], old[n-1] = old[n-1], nil; return old[:n-1] } }",
      "return old"] := rfl

/-- first match overwritten by the last element, slice cut by one; no match: unchanged -/
theorem gen_removeOldMember_example :
    removeOldMemberStmts.length = 2 ∧
    removeOld ["a", "b", "c", "d"] "b" = ["a", "d", "c"] ∧ removeOld ["a", "b"] "b" = ["a"] ∧
    removeOld ["a", "b", "a"] "a" = ["a", "b"] ∧ removeOld ["a", "b"] "z" = ["a", "b"] := by decide

theorem gen_upsertIntent_shape :
    upsertIntentGuard = "intent, ok := intents[node]; !ok || ltime > intent.LTime" ∧
    upsertIntentThen = [
      "intents[node] = nodeIntent{Type: itype, WallTime: stamper(), LTime: ltime}",
      "return true"] ∧
    upsertIntentRest = ["return false"] := ⟨rfl, rfl, rfl⟩

/-- `!ok || ltime > intent.LTime`, whatever the TYPE of the buffered intent -/
theorem gen_upsertIntent_guard_matches_model (ints : List (Name × Intent)) (x : Name) (b : Bool) (lt w : Nat) :
    upsertIntentGuard = "intent, ok := intents[node]; !ok || ltime > intent.LTime" ∧
    (upsertIntent ints x b lt w).2 =
      (match alookup ints x with
       | none => true
       | some i => decide (lt > i.ltime)) ∧
    ((upsertIntent ints x b lt w).2 = false → (upsertIntent ints x b lt w).1 = ints) := by
  refine ⟨rfl, ?_, ?_⟩
  · unfold upsertIntent
    cases alookup ints x with
    | none => rfl
    | some i => by_cases hi : i.ltime < lt <;> simp [hi]
  · unfold upsertIntent
    cases alookup ints x with
    | none => simp
    | some i => by_cases hi : i.ltime < lt <;> simp [hi]

/-- The guard is decisive.  The variant that refuses only "same type and not newer" on the model. -/
def upsertPerType (ints : List (Name × Intent)) (x : Name) (isLeave : Bool) (lt wall : Nat) :
    List (Name × Intent) × Bool :=
  match alookup ints x with
  | some i => if i.isLeave = isLeave ∧ lt ≤ i.ltime then (ints, false) else (ainsert ints x ⟨isLeave, lt, wall⟩, true)
  | none => (ainsert ints x ⟨isLeave, lt, wall⟩, true)

theorem gen_upsertIntent_guard_decisive :
    upsertIntentGuard = "intent, ok := intents[node]; !ok || ltime > intent.LTime" ∧
    -- a buffered join at time 5, then an OLDER leave at time 3
    upsertIntent [("b", ⟨false, 5, 0⟩)] "b" true 3 9 = ([("b", ⟨false, 5, 0⟩)], false) ∧
    upsertPerType [("b", ⟨false, 5, 0⟩)] "b" true 3 9 = ([("b", ⟨true, 3, 9⟩)], true) ∧
    -- an equal time is not newer
    (upsertIntent [("b", ⟨true, 5, 0⟩)] "b" true 5 9).2 = false := by decide

theorem gen_joinIntent_shape :
    joinIntentStaleGuard = "joinMsg.LTime <= member.statusLTime" ∧
    joinIntentStmts = [
      "s.clock.Witness(joinMsg.LTime)",
      "s.memberLock.Lock()",
      "defer s.memberLock.Unlock()",
      "member, ok := s.members[joinMsg.Node]",
      "if !ok { return upsertIntent(s.recentIntents, joinMsg.Node, messageJoinType, joinMsg.LTime, time.Now) }",
      "if joinMsg.LTime <= member.statusLTime { return false }",
      "member.statusLTime = joinMsg.LTime",
      "if member.Status == StatusLeaving { member.Status = StatusAlive }",
      "return true"] := ⟨rfl, rfl⟩

theorem gen_joinIntent_matches_model (n : Node) (x : Name) (m : Member) (lt w : Nat)
    (h : alookup n.members x = some m) :
    joinIntentStaleGuard = "joinMsg.LTime <= member.statusLTime" ∧
    (lt ≤ m.ltime → handleJoinIntent n x lt w = ({ n with clock := witness n.clock lt }, {})) ∧
    (m.ltime < lt → (handleJoinIntent n x lt w).2.rebroadcast = true ∧
      alookup (handleJoinIntent n x lt w).1.members x =
        alookup (ainsert n.members x { m with ltime := lt, status := if m.status = .leaving then .alive else m.status }) x) := by
  refine ⟨rfl, ?_, ?_⟩
  · intro hle; simp [handleJoinIntent, h, hle]
  · intro hlt
    have : ¬ lt ≤ m.ltime := by omega
    simp [handleJoinIntent, h, this]

/-! ## 4. `LocalState`, `MergeRemoteState`, `NotifyMsg` -/

theorem gen_localState_shape :
    localStateStatusLoop = [
      "for name, member := range d.serf.members",
      "pp.StatusLTimes[name] = member.statusLTime"] ∧
    localStateStatusLoopUnconditional = true ∧
    localStateLeftLoop = [
      "for _, member := range d.serf.leftMembers",
      "pp.LeftMembers = append(pp.LeftMembers, member.Name)"] ∧
    localStateLeftLoopUnconditional = true := ⟨rfl, rfl, rfl, rfl⟩

/-- every member (Left ones included) is reported with its status time, every left-list entry by name -/
theorem gen_localState_lists_left_members :
    localStateStatusLoopUnconditional = true ∧ localStateLeftLoopUnconditional = true ∧
    (∀ n : Node, (SerfModel.Cluster.localState n).1 = n.clock) ∧
    (∀ n : Node, (SerfModel.Cluster.localState n).2.1 = n.members.map (fun p => (p.1, p.2.ltime))) ∧
    (∀ n : Node, (SerfModel.Cluster.localState n).2.2 = n.left) :=
  ⟨rfl, rfl, fun _ => rfl, fun _ => rfl, fun _ => rfl⟩

/-- The unconditional loop is decisive.  `LocalState` that skips Left members: -/
def localStateSkippingLeft (n : Node) : Nat × List (Name × Nat) × List Name :=
  (n.clock, (n.members.filter (fun p => p.2.status ≠ .left)).map (fun p => (p.1, p.2.ltime)), n.left)

/-- the receiver knows `b` as failed at time 3; the sender has it Left at time 7.  With the real
`LocalState` the claim is made at 7 + 1 and accepted; with the skipping one it is made at 0 + 1
and refused as stale: the receiver keeps `b` failed for ever. -/
theorem gen_localState_unconditional_decisive :
    localStateStatusLoopUnconditional = true ∧
    statusOf (merge { name := "r", members := [("r", ⟨.alive, 0, 0⟩), ("b", ⟨.failed, 3, 5⟩)], failed := ["b"] }
      (SerfModel.Cluster.localState { name := "s", members := [("s", ⟨.alive, 0, 0⟩), ("b", ⟨.left, 7, 5⟩)], left := ["b"] }).1
      (SerfModel.Cluster.localState { name := "s", members := [("s", ⟨.alive, 0, 0⟩), ("b", ⟨.left, 7, 5⟩)], left := ["b"] }).2.1
      (SerfModel.Cluster.localState { name := "s", members := [("s", ⟨.alive, 0, 0⟩), ("b", ⟨.left, 7, 5⟩)], left := ["b"] }).2.2 0).1 "b" = some .left ∧
    statusOf (merge { name := "r", members := [("r", ⟨.alive, 0, 0⟩), ("b", ⟨.failed, 3, 5⟩)], failed := ["b"] }
      (localStateSkippingLeft { name := "s", members := [("s", ⟨.alive, 0, 0⟩), ("b", ⟨.left, 7, 5⟩)], left := ["b"] }).1
      (localStateSkippingLeft { name := "s", members := [("s", ⟨.alive, 0, 0⟩), ("b", ⟨.left, 7, 5⟩)], left := ["b"] }).2.1
      (localStateSkippingLeft { name := "s", members := [("s", ⟨.alive, 0, 0⟩), ("b", ⟨.left, 7, 5⟩)], left := ["b"] }).2.2 0).1 "b" = some .failed := by
  decide

theorem gen_merge_loops_shape :
    mergeLeaveTimeExpr = "pp.StatusLTimes[name] + 1" ∧ mergeLeaveOffset = 1 ∧
    mergeLeftLoopStmts = [
      "for _, name := range pp.LeftMembers",
      "leftMap[name] = struct{}{}",
      "leave.LTime = pp.StatusLTimes[name] + 1",
      "leave.Node = name",
      "d.serf.handleNodeLeaveIntent(&leave)"] ∧
    mergeJoinLoopStmts = [
      "for name, statusLTime := range pp.StatusLTimes",
      "if _, ok := leftMap[name]; ok { continue }",
      "join.LTime = statusLTime",
      "join.Node = name",
      "d.serf.handleNodeJoinIntent(&join)"] := ⟨rfl, rfl, rfl, rfl⟩

theorem gen_merge_order_shape :
    mergeLeftsBeforeJoins = true ∧ mergeIgnoresResults = true ∧ mergeWitnessBeforeLoops = true ∧
    mergeWitnessStmts = [
      "if pp.LTime > 0 { d.serf.clock.Witness(pp.LTime - 1) }",
      "if pp.EventLTime > 0 { d.serf.eventClock.Witness(pp.EventLTime - 1) }",
      "if pp.QueryLTime > 0 { d.serf.queryClock.Witness(pp.QueryLTime - 1) }"] := ⟨rfl, rfl, rfl, rfl⟩

/-- the model's claim time uses exactly the generated offset -/
theorem gen_merge_claim_offset (st : List (Name × Nat)) (x : Name) :
    (((alookup st x).getD 0) + mergeLeaveOffset) % two64 = (((alookup st x).getD 0) + 1) % two64 := rfl

/-- one iteration of the left loop of the model, written with the GENERATED offset: a leave
intent at `StatusLTimes[name] + offset` (a missing key reads 0; uint64 wrap), never a prune,
result ignored, events kept -/
theorem gen_mergeLefts_uses_offset (n : Node) (st : List (Name × Nat)) (wall : Nat) (x : Name) (xs : List Name) :
    mergeLefts n st wall (x :: xs) =
      ((mergeLefts (handleLeaveIntent n x ((((alookup st x).getD 0) + mergeLeaveOffset) % two64) false wall).1 st wall xs).1,
       (handleLeaveIntent n x ((((alookup st x).getD 0) + mergeLeaveOffset) % two64) false wall).2.events ++
       (mergeLefts (handleLeaveIntent n x ((((alookup st x).getD 0) + mergeLeaveOffset) % two64) false wall).1 st wall xs).2) := rfl

/-- the status loop of the model: names on the left list are skipped, the others become join intents -/
theorem gen_mergeJoins_skips_left (n : Node) (left : List Name) (wall : Nat) (x : Name) (t : Nat)
    (rest : List (Name × Nat)) :
    mergeJoinLoopStmts[1]? = some "if _, ok := leftMap[name]; ok { continue }" ∧
    (x ∈ left → mergeJoins n left wall ((x, t) :: rest) = mergeJoins n left wall rest) ∧
    (x ∉ left → mergeJoins n left wall ((x, t) :: rest) = mergeJoins (handleJoinIntent n x t wall).1 left wall rest) := by
  refine ⟨rfl, ?_, ?_⟩ <;> intro h <;> simp [mergeJoins, h]

/-- witness (time − 1, only if positive), then ALL lefts, then the joins; no rebroadcast decision -/
theorem gen_merge_order_matches_model (n : Node) (lt : Nat) (st : List (Name × Nat)) (lf : List Name) (w : Nat) :
    mergeWitnessBeforeLoops = true ∧ mergeLeftsBeforeJoins = true ∧ mergeIgnoresResults = true ∧
    (merge n lt st lf w).1 =
      mergeJoins (mergeLefts (if 0 < lt then { n with clock := witness n.clock (lt - 1) } else n) st w lf).1 lf w st ∧
    (merge n lt st lf w).2.rebroadcast = false ∧ (merge n lt st lf w).2.queued = [] :=
  ⟨rfl, rfl, rfl, rfl, rfl, rfl⟩

/-- The offset is decisive: the claim must be strictly newer than the status time the receiver
already holds (the stale guard is `<=`), so with `+ 0` a claim for a member both sides hold at the
same status time is refused. -/
theorem gen_merge_offset_decisive :
    mergeLeaveOffset = 1 ∧
    -- receiver has b failed at 1, sender has b left at 1: the claim 1 + offset is accepted
    statusOf (handleLeaveIntent demoFailed "b" ((1 + mergeLeaveOffset) % two64) false 0).1 "b" = some .left ∧
    -- with offset 0 it would be stale
    statusOf (handleLeaveIntent demoFailed "b" ((1 + 0) % two64) false 0).1 "b" = some .failed := by decide

theorem gen_notify_shape :
    notifyRebroadcastGuard = "rebroadcast" ∧ notifyRebroadcastInit = "rebroadcast := false" ∧
    notifyLeaveHandler = "rebroadcast = d.serf.handleNodeLeaveIntent(&leave)" ∧
    notifyJoinHandler = "rebroadcast = d.serf.handleNodeJoinIntent(&join)" ∧
    notifyHandlersAssignGuard = true := ⟨rfl, rfl, rfl, rfl, rfl⟩

/-- NotifyMsg re-queues the message iff the handler returned true: the model's `rebroadcasts`
collects exactly the messages whose step reported `rebroadcast` -/
theorem gen_notify_matches_model (n : Node) (x : Name) (lt : Nat) (p : Bool) (w : Nat) (ops : List Op) :
    notifyHandlersAssignGuard = true ∧
    rebroadcasts n (.leaveMsg x lt p w :: ops) =
      (if (handleLeaveIntent n x lt p w).2.rebroadcast then
        Msg.leave x lt p :: rebroadcasts (handleLeaveIntent n x lt p w).1 ops
       else rebroadcasts (handleLeaveIntent n x lt p w).1 ops) ∧
    rebroadcasts n (.joinMsg x lt w :: ops) =
      (if (handleJoinIntent n x lt w).2.rebroadcast then
        Msg.join x lt :: rebroadcasts (handleJoinIntent n x lt w).1 ops
       else rebroadcasts (handleJoinIntent n x lt w).1 ops) :=
  ⟨rfl, rfl, rfl⟩

end SerfProofs.NodeShapes
