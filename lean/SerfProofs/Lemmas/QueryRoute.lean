/-
Invariant of the reply-routing model (C07) and its preservation by every action.
-/
import SerfModel.Model.QueryRoute
import SerfProofs.Lemmas.Assoc
namespace SerfProofs.QueryRoute
open SerfModel SerfModel.QueryRoute

/-! ### modAt -/

theorem getElem?_modAt (f : QR → QR) : ∀ (l : List QR) (i j : Nat),
    (modAt f l i)[j]? = if j = i then (l[j]?).map f else l[j]? := by
  intro l
  induction l with
  | nil => intro i j; simp [modAt]
  | cons q qs ih =>
    intro i j
    cases i with
    | zero =>
      cases j with
      | zero => simp [modAt]
      | succ j => simp [modAt]
    | succ i =>
      cases j with
      | zero => simp [modAt]
      | succ j => simp [modAt, ih]

theorem mem_modAt (f : QR → QR) : ∀ (l : List QR) (i : Nat) (x : QR),
    x ∈ modAt f l i → x ∈ l ∨ ∃ q, l[i]? = some q ∧ x = f q := by
  intro l
  induction l with
  | nil => intro i x h; simp [modAt] at h
  | cons q qs ih =>
    intro i x h
    cases i with
    | zero =>
      simp only [modAt, List.mem_cons] at h
      rcases h with h | h
      · exact Or.inr ⟨q, by simp, h⟩
      · exact Or.inl (List.mem_cons_of_mem _ h)
    | succ i =>
      simp only [modAt, List.mem_cons] at h
      rcases h with h | h
      · exact Or.inl (by rw [h]; exact List.mem_cons_self)
      · rcases ih i x h with h | ⟨q', hq, hx⟩
        · exact Or.inl (List.mem_cons_of_mem _ h)
        · exact Or.inr ⟨q', by simpa using hq, hx⟩

/-! ### the per-object invariant -/

structure QInv (now : Nat) (q : QR) : Prop where
  acks_eq : q.acks = q.ackLog.map (·.r.sender)
  resps_eq : q.resps = q.respLog.map (·.r.sender)
  acks_nodup : q.acks.Nodup
  resps_nodup : q.resps.Nodup
  ack_match : ∀ x ∈ q.ackLog, x.r.lt = q.lt ∧ x.r.id = q.id ∧ x.r.isAck = true ∧ x.time < now
  resp_match : ∀ x ∈ q.respLog, x.r.lt = q.lt ∧ x.r.id = q.id ∧ x.r.isAck = false ∧ x.time < now
  closed_iff : q.closed = true ↔ q.closedAt.isSome
  closed_at : ∀ c, q.closedAt = some c → c < now ∧ (∀ x ∈ q.ackLog, x.time < c) ∧ (∀ x ∈ q.respLog, x.time < c)
  count : q.closeCount = if q.closed then 1 else 0
  timed : q.timedOut = true → q.closed = true
  ack_nil : q.ackWanted = false → q.ackLog = []

theorem QInv.mono {now : Nat} {q : QR} (h : QInv now q) : QInv (now + 1) q where
  acks_eq := h.acks_eq
  resps_eq := h.resps_eq
  acks_nodup := h.acks_nodup
  resps_nodup := h.resps_nodup
  ack_match := fun x hx => by obtain ⟨a, b, c, d⟩ := h.ack_match x hx; exact ⟨a, b, c, by omega⟩
  resp_match := fun x hx => by obtain ⟨a, b, c, d⟩ := h.resp_match x hx; exact ⟨a, b, c, by omega⟩
  closed_iff := h.closed_iff
  closed_at := fun c hc => by obtain ⟨a, b, d⟩ := h.closed_at c hc; exact ⟨by omega, b, d⟩
  count := h.count
  timed := h.timed
  ack_nil := h.ack_nil

theorem QInv.fresh (now lt id : Nat) (ack : Bool) (cap : Nat) :
    QInv now { lt := lt, id := id, ackWanted := ack, cap := cap } where
  acks_eq := rfl
  resps_eq := rfl
  acks_nodup := List.nodup_nil
  resps_nodup := List.nodup_nil
  ack_match := fun x hx => by simp at hx
  resp_match := fun x hx => by simp at hx
  closed_iff := by simp
  closed_at := fun c hc => by simp at hc
  count := rfl
  timed := by simp
  ack_nil := fun _ => rfl

theorem closedAt_none {now : Nat} {q : QR} (h : QInv now q) (hc : ¬ q.closed = true) : q.closedAt = none := by
  cases hq : q.closedAt with
  | none => rfl
  | some c => exact absurd (h.closed_iff.mpr (by simp [hq])) hc

theorem QInv.close {now : Nat} {q : QR} (h : QInv now q) : QInv (now + 1) { close now q with timedOut := true } := by
  unfold QueryRoute.close
  by_cases hc : q.closed = true
  · rw [if_pos hc]
    have m := h.mono
    exact {
      acks_eq := m.acks_eq, resps_eq := m.resps_eq, acks_nodup := m.acks_nodup, resps_nodup := m.resps_nodup
      ack_match := m.ack_match, resp_match := m.resp_match, closed_iff := m.closed_iff, closed_at := m.closed_at
      count := m.count, timed := fun _ => hc, ack_nil := m.ack_nil }
  · rw [if_neg hc]
    have hc' : q.closed = false := by simpa using hc
    exact {
      acks_eq := h.acks_eq, resps_eq := h.resps_eq, acks_nodup := h.acks_nodup, resps_nodup := h.resps_nodup
      ack_match := fun x hx => by obtain ⟨a, b, c, d⟩ := h.ack_match x hx; exact ⟨a, b, c, by omega⟩
      resp_match := fun x hx => by obtain ⟨a, b, c, d⟩ := h.resp_match x hx; exact ⟨a, b, c, by omega⟩
      closed_iff := by simp
      closed_at := fun c hcc => by
        have hcc' : some now = some c := hcc
        simp only [Option.some.injEq] at hcc'
        subst hcc'
        exact ⟨by omega, fun x hx => (h.ack_match x hx).2.2.2, fun x hx => (h.resp_match x hx).2.2.2⟩
      count := by
        show q.closeCount + 1 = 1
        have := h.count; rw [hc'] at this; simp at this; omega
      timed := fun _ => rfl
      ack_nil := h.ack_nil }

/-- Sending a reply that matches the object, whose sender was not yet delivered. -/
theorem QInv.send {now : Nat} {q : QR} {r : Reply} (h : QInv now q)
    (hlt : r.lt = q.lt) (hid : r.id = q.id)
    (hnew : r.sender ∉ (if r.isAck then q.acks else q.resps)) : QInv (now + 1) (send now r q) := by
  unfold QueryRoute.send
  by_cases hc : q.closed = true
  · rw [if_pos hc]; exact h.mono
  · rw [if_neg hc]
    have hnone : q.closedAt = none := closedAt_none h hc
    by_cases ha : r.isAck = true
    · rw [if_pos ha] at hnew ⊢
      by_cases hs : (q.ackWanted && decide (q.ackBuf < q.cap)) = true
      · rw [if_pos hs]
        exact {
          acks_eq := by show q.acks ++ [r.sender] = (q.ackLog ++ [(⟨r, now⟩ : Sent)]).map _; simp [h.acks_eq]
          resps_eq := h.resps_eq
          acks_nodup := by
            show (q.acks ++ [r.sender]).Nodup
            rw [List.nodup_append]
            exact ⟨h.acks_nodup, by simp, fun a ha' b hb => by
              simp only [List.mem_singleton] at hb; subst hb; intro e; subst e; exact hnew ha'⟩
          resps_nodup := h.resps_nodup
          ack_match := fun x hx => by
            have hx' : x ∈ q.ackLog ++ [(⟨r, now⟩ : Sent)] := hx
            rcases List.mem_append.mp hx' with hx | hx
            · obtain ⟨a, b, c, d⟩ := h.ack_match x hx; exact ⟨a, b, c, by omega⟩
            · simp only [List.mem_singleton] at hx; subst hx; exact ⟨hlt, hid, ha, by simp⟩
          resp_match := fun x hx => by obtain ⟨a, b, c, d⟩ := h.resp_match x hx; exact ⟨a, b, c, by omega⟩
          closed_iff := h.closed_iff
          closed_at := fun c hcc => by have hcc' : q.closedAt = some c := hcc; rw [hnone] at hcc'; cases hcc'
          count := h.count
          timed := h.timed
          ack_nil := fun hw => by
            have hw' : q.ackWanted = false := hw
            rw [hw'] at hs; simp at hs }
      · rw [if_neg hs]; exact h.mono
    · rw [if_neg ha] at hnew ⊢
      have ha' : r.isAck = false := by simpa using ha
      by_cases hs : q.respBuf < q.cap
      · rw [if_pos hs]
        exact {
          acks_eq := h.acks_eq
          resps_eq := by show q.resps ++ [r.sender] = (q.respLog ++ [(⟨r, now⟩ : Sent)]).map _; simp [h.resps_eq]
          acks_nodup := h.acks_nodup
          resps_nodup := by
            show (q.resps ++ [r.sender]).Nodup
            rw [List.nodup_append]
            exact ⟨h.resps_nodup, by simp, fun a ha'' b hb => by
              simp only [List.mem_singleton] at hb; subst hb; intro e; subst e; exact hnew ha''⟩
          ack_match := fun x hx => by obtain ⟨a, b, c, d⟩ := h.ack_match x hx; exact ⟨a, b, c, by omega⟩
          resp_match := fun x hx => by
            have hx' : x ∈ q.respLog ++ [(⟨r, now⟩ : Sent)] := hx
            rcases List.mem_append.mp hx' with hx | hx
            · obtain ⟨a, b, c, d⟩ := h.resp_match x hx; exact ⟨a, b, c, by omega⟩
            · simp only [List.mem_singleton] at hx; subst hx; exact ⟨hlt, hid, ha', by simp⟩
          closed_iff := h.closed_iff
          closed_at := fun c hcc => by have hcc' : q.closedAt = some c := hcc; rw [hnone] at hcc'; cases hcc'
          count := h.count
          timed := h.timed
          ack_nil := h.ack_nil }
      · rw [if_neg hs]; exact h.mono

/-- Changes that touch none of the fields the invariant talks about. -/
theorem QInv.frame {now : Nat} {q q' : QR} (h : QInv now q)
    (e1 : q'.lt = q.lt) (e2 : q'.id = q.id) (e3 : q'.acks = q.acks) (e4 : q'.resps = q.resps)
    (e5 : q'.ackLog = q.ackLog) (e6 : q'.respLog = q.respLog) (e7 : q'.closed = q.closed)
    (e8 : q'.closedAt = q.closedAt) (e9 : q'.closeCount = q.closeCount) (e10 : q'.timedOut = q.timedOut)
    (e11 : q'.ackWanted = q.ackWanted) :
    QInv (now + 1) q' := by
  have m := h.mono
  exact {
    acks_eq := by rw [e3, e5]; exact m.acks_eq
    resps_eq := by rw [e4, e6]; exact m.resps_eq
    acks_nodup := by rw [e3]; exact m.acks_nodup
    resps_nodup := by rw [e4]; exact m.resps_nodup
    ack_match := by rw [e5, e1, e2]; exact m.ack_match
    resp_match := by rw [e6, e1, e2]; exact m.resp_match
    closed_iff := by rw [e7, e8]; exact m.closed_iff
    closed_at := by rw [e8, e5, e6]; exact m.closed_at
    count := by rw [e9, e7]; exact m.count
    timed := by rw [e10, e7]; exact m.timed
    ack_nil := by rw [e11, e5]; exact m.ack_nil }

/-! ### the system invariant -/

structure Inv (s : Sys) : Prop where
  objs : ∀ q ∈ s.objs, QInv s.now q
  map : ∀ lt i, alookup s.map lt = some i → ∃ q, s.objs[i]? = some q ∧ q.lt = lt
  infl : ∀ f, s.inflight = some f → ∃ q, s.objs[f.ref]? = some q ∧ q.lt = f.r.lt ∧
          (3 ≤ f.stage → q.id = f.r.id) ∧
          (5 ≤ f.stage → f.r.sender ∉ (if f.r.isAck then q.acks else q.resps))

theorem inv_init : Inv {} where
  objs := fun q hq => by simp at hq
  map := fun lt i h => by simp at h
  infl := fun f h => by simp at h

/-- Updating one object by a function that keeps `lt`, `id`, `acks`, `resps` and
re-establishes the object invariant keeps the system invariant (apart from `inflight`,
handled by the caller). -/
theorem inv_modAt {s : Sys} (h : Inv s) (f : QR → QR) (i : Nat) (m : List (Nat × Nat))
    (hm : ∀ lt j, alookup m lt = some j → alookup s.map lt = some j)
    (hq : ∀ q, s.objs[i]? = some q → QInv (s.now + 1) (f q))
    (hlt : ∀ q, (f q).lt = q.lt) (hid : ∀ q, (f q).id = q.id)
    (hacks : ∀ q, (f q).acks = q.acks) (hresps : ∀ q, (f q).resps = q.resps) :
    Inv { s with objs := modAt f s.objs i, map := m, now := s.now + 1 } where
  objs := fun q hq' => by
    rcases mem_modAt f s.objs i q hq' with hmem | ⟨q0, hq0, rfl⟩
    · exact (h.objs q hmem).mono
    · exact hq q0 hq0
  map := fun lt j hl => by
    obtain ⟨q, hq1, hq2⟩ := h.map lt j (hm lt j hl)
    show ∃ q, (modAt f s.objs i)[j]? = some q ∧ q.lt = lt
    rw [getElem?_modAt]
    by_cases hj : j = i
    · subst hj; exact ⟨f q, by simp [hq1], by rw [hlt]; exact hq2⟩
    · exact ⟨q, by simp [hj, hq1], hq2⟩
  infl := fun fl hfl => by
    obtain ⟨q, hq1, hq2, hq3, hq4⟩ := h.infl fl hfl
    show ∃ q, (modAt f s.objs i)[fl.ref]? = some q ∧ _
    rw [getElem?_modAt]
    by_cases hj : fl.ref = i
    · subst hj
      refine ⟨f q, by simp [hq1], by rw [hlt]; exact hq2, fun h3 => by rw [hid]; exact hq3 h3, ?_⟩
      intro h5; rw [hacks, hresps]; exact hq4 h5
    · exact ⟨q, by simp [hj, hq1], hq2, hq3, hq4⟩

/-- Same, when the in-flight reply is finished by the update (no frame condition on `acks`/`resps`). -/
theorem inv_modAt_none {s : Sys} (h : Inv s) (f : QR → QR) (i : Nat)
    (hq : ∀ q, s.objs[i]? = some q → QInv (s.now + 1) (f q))
    (hlt : ∀ q, (f q).lt = q.lt) :
    Inv { s with objs := modAt f s.objs i, inflight := none, now := s.now + 1 } where
  objs := fun q hq' => by
    rcases mem_modAt f s.objs i q hq' with hmem | ⟨q0, hq0, rfl⟩
    · exact (h.objs q hmem).mono
    · exact hq q0 hq0
  map := fun lt j hl => by
    obtain ⟨q, hq1, hq2⟩ := h.map lt j hl
    show ∃ q, (modAt f s.objs i)[j]? = some q ∧ q.lt = lt
    rw [getElem?_modAt]
    by_cases hj : j = i
    · subst hj; exact ⟨f q, by simp [hq1], by rw [hlt]; exact hq2⟩
    · exact ⟨q, by simp [hj, hq1], hq2⟩
  infl := fun fl hfl => by cases hfl

theorem close_lt (now : Nat) (q : QR) : (close now q).lt = q.lt := by unfold QueryRoute.close; split <;> rfl
theorem close_id (now : Nat) (q : QR) : (close now q).id = q.id := by unfold QueryRoute.close; split <;> rfl
theorem close_acks (now : Nat) (q : QR) : (close now q).acks = q.acks := by unfold QueryRoute.close; split <;> rfl
theorem close_resps (now : Nat) (q : QR) : (close now q).resps = q.resps := by unfold QueryRoute.close; split <;> rfl

theorem send_lt (now : Nat) (r : Reply) (q : QR) : (send now r q).lt = q.lt := by
  unfold QueryRoute.send; split; rfl; split <;> split <;> rfl
theorem send_id (now : Nat) (r : Reply) (q : QR) : (send now r q).id = q.id := by
  unfold QueryRoute.send; split; rfl; split <;> split <;> rfl

/-- Bumping the step counter only. -/
theorem inv_tick {s : Sys} (h : Inv s) (fl : Option Inflight)
    (hfl : ∀ f, fl = some f → ∃ q, s.objs[f.ref]? = some q ∧ q.lt = f.r.lt ∧
          (3 ≤ f.stage → q.id = f.r.id) ∧
          (5 ≤ f.stage → f.r.sender ∉ (if f.r.isAck then q.acks else q.resps))) :
    Inv { s with inflight := fl, now := s.now + 1 } where
  objs := fun q hq => (h.objs q hq).mono
  map := h.map
  infl := hfl

theorem sendAtomic_of_good {sh : Shapes} (hg : sh.good = true) (b : Bool) : sh.sendAtomic b = true := by
  unfold Shapes.good at hg
  simp only [Bool.and_eq_true] at hg
  cases b <;> simp [Shapes.sendAtomic, hg.1.1.1.1.1, hg.1.1.1.1.2]

theorem timerUncond_of_good {sh : Shapes} (hg : sh.good = true) : sh.timer.unconditional = true := by
  unfold Shapes.good TimerShape.good at hg
  simp only [Bool.and_eq_true] at hg
  exact hg.1.2.2

theorem inv_act (sh : Shapes) (hg : sh.good = true) (s : Sys) (a : Action) (h : Inv s) : Inv (act sh s a) := by
  cases a with
  | register lt id ack cap =>
    simp only [act]
    exact {
      objs := fun q hq => by
        rcases List.mem_append.mp hq with hq | hq
        · exact (h.objs q hq).mono
        · simp only [List.mem_singleton] at hq; subst hq; exact QInv.fresh _ lt id ack cap
      map := fun l j hl => by
        show ∃ q, (s.objs ++ _)[j]? = some q ∧ q.lt = l
        rw [alookup_ainsert] at hl
        by_cases hk : (l == lt) = true
        · simp only [hk, if_true, Option.some.injEq] at hl
          subst hl
          have : l = lt := by simpa using hk
          exact ⟨{ lt := lt, id := id, ackWanted := ack, cap := cap }, by simp, this.symm⟩
        · simp only [hk, Bool.false_eq_true, if_false] at hl
          obtain ⟨q, hq1, hq2⟩ := h.map l j hl
          have hj : j < s.objs.length := (List.getElem?_eq_some_iff.mp hq1).1
          exact ⟨q, by rw [List.getElem?_append_left hj]; exact hq1, hq2⟩
      infl := fun fl hfl => by
        obtain ⟨q, hq1, hq2, hq3, hq4⟩ := h.infl fl hfl
        have hj : fl.ref < s.objs.length := (List.getElem?_eq_some_iff.mp hq1).1
        exact ⟨q, by show (s.objs ++ _)[fl.ref]? = some q; rw [List.getElem?_append_left hj]; exact hq1, hq2, hq3, hq4⟩ }
  | query id ack cap =>
    simp only [act]
    exact {
      objs := fun q hq => by
        rcases List.mem_append.mp hq with hq | hq
        · exact (h.objs q hq).mono
        · simp only [List.mem_singleton] at hq; subst hq; exact QInv.fresh _ s.clock id ack cap
      map := fun l j hl => by
        show ∃ q, (s.objs ++ _)[j]? = some q ∧ q.lt = l
        rw [alookup_ainsert] at hl
        by_cases hk : (l == s.clock) = true
        · simp only [hk, if_true, Option.some.injEq] at hl
          subst hl
          have : l = s.clock := by simpa using hk
          exact ⟨{ lt := s.clock, id := id, ackWanted := ack, cap := cap }, by simp, this.symm⟩
        · simp only [hk, Bool.false_eq_true, if_false] at hl
          obtain ⟨q, hq1, hq2⟩ := h.map l j hl
          have hj : j < s.objs.length := (List.getElem?_eq_some_iff.mp hq1).1
          exact ⟨q, by rw [List.getElem?_append_left hj]; exact hq1, hq2⟩
      infl := fun fl hfl => by
        obtain ⟨q, hq1, hq2, hq3, hq4⟩ := h.infl fl hfl
        have hj : fl.ref < s.objs.length := (List.getElem?_eq_some_iff.mp hq1).1
        exact ⟨q, by show (s.objs ++ _)[fl.ref]? = some q; rw [List.getElem?_append_left hj]; exact hq1, hq2, hq3, hq4⟩ }
  | witness t =>
    simp only [act]
    exact { objs := fun q hq => (h.objs q hq).mono, map := h.map, infl := h.infl }
  | deadline i =>
    simp only [act]
    exact inv_modAt h _ i s.map (fun _ _ x => x)
      (fun q _ => by
        have hq' : q ∈ s.objs := List.mem_of_getElem? ‹_›
        exact (h.objs q hq').frame rfl rfl rfl rfl rfl rfl rfl rfl rfl rfl rfl)
      (fun _ => rfl) (fun _ => rfl) (fun _ => rfl) (fun _ => rfl)
  | timeout i =>
    simp only [act]
    cases hi : s.objs[i]? with
    | none => simp only; exact inv_tick h s.inflight h.infl
    | some q0 =>
      simp only [timerUncond_of_good hg, Bool.true_or, if_true]
      exact inv_modAt h _ i (aerase s.map q0.lt)
        (fun l j hl => by
          by_cases hk : l = q0.lt
          · subst hk; rw [alookup_aerase_self] at hl; cases hl
          · rw [alookup_aerase_ne _ _ _ hk] at hl; exact hl)
        (fun q hq => by
          have hq' : q ∈ s.objs := List.mem_of_getElem? hq
          exact (h.objs q hq').close)
        (fun q => close_lt _ q) (fun q => close_id _ q) (fun q => close_acks _ q) (fun q => close_resps _ q)
  | arrive r =>
    simp only [act]
    cases hf : s.inflight with
    | some f => simp only; exact inv_tick h s.inflight h.infl
    | none =>
      simp only
      cases hl : alookup s.map r.lt with
      | none => simp only; exact inv_tick h s.inflight h.infl
      | some i =>
        simp only
        obtain ⟨q, hq1, hq2⟩ := h.map r.lt i hl
        exact inv_tick h _ (fun f hfe => by
          simp only [Option.some.injEq] at hfe
          subst hfe
          exact ⟨q, hq1, hq2, fun h3 => by simp at h3, fun h5 => by simp at h5⟩)
  | replyStep =>
    simp only [act, QueryRoute.replyStep]
    cases hf : s.inflight with
    | none => simp only; exact inv_tick h s.inflight h.infl
    | some f =>
      simp only
      obtain ⟨q, hq1, hq2, hq3, hq4⟩ := h.infl f hf
      rw [hq1]
      simp only
      by_cases h2 : f.stage ≤ 2
      · simp only [h2, if_true]
        by_cases hidne : (q.id != f.r.id) = true
        · simp only [hidne, if_true]; exact inv_tick h none (fun f hfe => by cases hfe)
        · simp only [hidne, Bool.false_eq_true, if_false]
          have hideq : q.id = f.r.id := by simpa using hidne
          exact inv_tick h _ (fun f' hfe => by
            simp only [Option.some.injEq] at hfe
            subst hfe
            exact ⟨q, hq1, hq2, fun _ => hideq, fun h5 => by simp at h5⟩)
      · simp only [h2, if_false]
        by_cases h3 : f.stage = 3
        · simp only [h3, if_true]
          by_cases hfin : (q.closed || q.pastDeadline) = true
          · simp only [hfin, if_true]; exact inv_tick h none (fun f hfe => by cases hfe)
          · simp only [hfin, Bool.false_eq_true, if_false]
            exact inv_tick h _ (fun f' hfe => by
              simp only [Option.some.injEq] at hfe
              subst hfe
              exact ⟨q, hq1, hq2, fun _ => hq3 (by omega), fun h5 => by simp at h5⟩)
        · simp only [h3, if_false]
          by_cases h4 : f.stage = 4
          · simp only [h4, if_true]
            by_cases hdup : ((if f.r.isAck then q.acks else q.resps).contains f.r.sender) = true
            · simp only [hdup, if_true]; exact inv_tick h none (fun f hfe => by cases hfe)
            · simp only [hdup, Bool.false_eq_true, if_false]
              have hnot : f.r.sender ∉ (if f.r.isAck then q.acks else q.resps) := by
                intro hmem; exact hdup (by simpa using hmem)
              exact inv_tick h _ (fun f' hfe => by
                simp only [Option.some.injEq] at hfe
                subst hfe
                exact ⟨q, hq1, hq2, fun _ => hq3 (by omega), fun _ => hnot⟩)
          · simp only [h4, if_false]
            rw [if_pos (sendAtomic_of_good hg f.r.isAck)]
            have h5 : 5 ≤ f.stage := by omega
            have hq' : q ∈ s.objs := List.mem_of_getElem? hq1
            exact inv_modAt_none h _ f.ref
                (fun q1 hq1' => by
                  rw [hq1] at hq1'
                  simp only [Option.some.injEq] at hq1'
                  subst hq1'
                  exact (h.objs _ hq').send hq2.symm (hq3 (by omega)).symm (hq4 h5))
                (fun q => send_lt _ _ q)
  | consumeAck i =>
    simp only [act]
    exact inv_modAt h _ i s.map (fun _ _ x => x)
      (fun q _ => by
        have hq' : q ∈ s.objs := List.mem_of_getElem? ‹_›
        exact (h.objs q hq').frame rfl rfl rfl rfl rfl rfl rfl rfl rfl rfl rfl)
      (fun _ => rfl) (fun _ => rfl) (fun _ => rfl) (fun _ => rfl)
  | consumeResp i =>
    simp only [act]
    exact inv_modAt h _ i s.map (fun _ _ x => x)
      (fun q _ => by
        have hq' : q ∈ s.objs := List.mem_of_getElem? ‹_›
        exact (h.objs q hq').frame rfl rfl rfl rfl rfl rfl rfl rfl rfl rfl rfl)
      (fun _ => rfl) (fun _ => rfl) (fun _ => rfl) (fun _ => rfl)

/-! ### Queries issued through `Serf.Query` get distinct Lamport times and keep their table entry

`Serf.Query` takes `queryClock.Increment() - 1` in one atomic step (regenerated: `Gen.ClockUse.query`),
so — unlike the arbitrary `.register` action — concurrent `Query` calls never share a time. -/

structure Inv2 (s : Sys) : Prop where
  below : ∀ q ∈ s.objs, q.lt < s.clock
  nodup : (s.objs.map (·.lt)).Nodup
  own : ∀ i q, s.objs[i]? = some q → q.timedOut = false → alookup s.map q.lt = some i

theorem inv2_init : Inv2 {} where
  below := fun q hq => by simp at hq
  nodup := by simp
  own := fun i q h => by simp at h

theorem map_lt_modAt (f : QR → QR) (hlt : ∀ q, (f q).lt = q.lt) : ∀ (l : List QR) (i : Nat),
    (modAt f l i).map (·.lt) = l.map (·.lt) := by
  intro l
  induction l with
  | nil => intro i; rfl
  | cons q qs ih =>
    intro i
    cases i with
    | zero => simp [modAt, hlt]
    | succ i => simp [modAt, ih]

theorem lt_ne_of_nodup {l : List QR} (hnd : (l.map (·.lt)).Nodup) {i j : Nat} {a b : QR}
    (hi : l[i]? = some a) (hj : l[j]? = some b) (hne : i ≠ j) : a.lt ≠ b.lt := by
  intro e
  have hi' : (l.map (·.lt))[i]? = some a.lt := by simp [hi]
  have hj' : (l.map (·.lt))[j]? = some b.lt := by simp [hj]
  have hil : i < (l.map (·.lt)).length := (List.getElem?_eq_some_iff.mp hi').1
  have : i = j := (List.getElem?_inj (j := j) hil hnd).mp (by rw [hi', hj', e])
  exact hne this

/-- An update of object `i` that keeps `lt` and never clears `timedOut` keeps `Inv2` (same table, same clock). -/
theorem inv2_modAt {s : Sys} (h : Inv2 s) (f : QR → QR) (i : Nat)
    (hlt : ∀ q, (f q).lt = q.lt) (hto : ∀ q, (f q).timedOut = false → q.timedOut = false)
    (fl : Option Inflight) (now : Nat) :
    Inv2 { s with objs := modAt f s.objs i, inflight := fl, now := now } where
  below := fun q hq => by
    rcases mem_modAt f s.objs i q hq with hm | ⟨q0, hq0, rfl⟩
    · exact h.below q hm
    · rw [hlt]; exact h.below q0 (List.mem_of_getElem? hq0)
  nodup := by
    show ((modAt f s.objs i).map (·.lt)).Nodup
    rw [map_lt_modAt f hlt]; exact h.nodup
  own := fun j q hj hto' => by
    have hj' : (modAt f s.objs i)[j]? = some q := hj
    rw [getElem?_modAt] at hj'
    by_cases e : j = i
    · subst e
      simp only [if_true] at hj'
      cases hq0 : s.objs[j]? with
      | none => simp [hq0] at hj'
      | some q0 =>
        simp only [hq0, Option.map_some, Option.some.injEq] at hj'
        subst hj'
        rw [hlt]
        exact h.own j q0 hq0 (hto q0 hto')
    · simp only [e, if_false] at hj'
      exact h.own j q hj' hto'

theorem send_timedOut (now : Nat) (r : Reply) (q : QR) : (send now r q).timedOut = q.timedOut := by
  unfold QueryRoute.send; split; rfl; split <;> split <;> rfl

theorem inv2_act (sh : Shapes) (hg : sh.good = true) (s : Sys) (a : Action) (ha : a.isRegister = false)
    (h : Inv2 s) : Inv2 (act sh s a) := by
  cases a with
  | register lt id ack cap => simp [Action.isRegister] at ha
  | query id ack cap =>
    simp only [act]
    exact {
      below := fun q hq => by
        rcases List.mem_append.mp hq with hq | hq
        · have := h.below q hq; show q.lt < s.clock + 1; omega
        · simp only [List.mem_singleton] at hq; subst hq; show s.clock < s.clock + 1; omega
      nodup := by
        show ((s.objs ++ [({ lt := s.clock, id := id, ackWanted := ack, cap := cap } : QR)]).map (·.lt)).Nodup
        rw [List.map_append, List.nodup_append]
        refine ⟨h.nodup, by simp, ?_⟩
        intro a ha' b hb
        simp only [List.map_cons, List.map_nil, List.mem_singleton] at hb
        subst hb
        obtain ⟨q, hq, rfl⟩ := List.mem_map.mp ha'
        have := h.below q hq
        omega
      own := fun j q hj hto => by
        have hj' : (s.objs ++ [({ lt := s.clock, id := id, ackWanted := ack, cap := cap } : QR)])[j]? = some q := hj
        show alookup (ainsert s.map s.clock s.objs.length) q.lt = some j
        by_cases hlt : j < s.objs.length
        · rw [List.getElem?_append_left hlt] at hj'
          have hb := h.below q (List.mem_of_getElem? hj')
          have hne : q.lt ≠ s.clock := by omega
          rw [alookup_ainsert_ne _ _ _ _ hne]
          exact h.own j q hj' hto
        · have hge : s.objs.length ≤ j := by omega
          rw [List.getElem?_append_right hge] at hj'
          have hj0 : j - s.objs.length = 0 := by
            cases hk : j - s.objs.length with
            | zero => rfl
            | succ k => rw [hk] at hj'; simp at hj'
          rw [hj0] at hj'
          simp only [List.getElem?_cons_zero, Option.some.injEq] at hj'
          subst hj'
          have : j = s.objs.length := by omega
          subst this
          exact alookup_ainsert_self _ _ _ }
  | witness t =>
    simp only [act]
    exact {
      below := fun q hq => by
        have := h.below q hq
        show q.lt < (if s.clock ≤ t then t + 1 else s.clock)
        split <;> omega
      nodup := h.nodup
      own := h.own }
  | deadline i =>
    simp only [act]
    exact inv2_modAt h (fun q => { q with pastDeadline := true }) i (fun _ => rfl) (fun _ x => x) _ _
  | timeout i =>
    simp only [act]
    cases hi : s.objs[i]? with
    | none => exact { below := h.below, nodup := h.nodup, own := h.own }
    | some q0 =>
      simp only [timerUncond_of_good hg, Bool.true_or, if_true]
      have hm := inv2_modAt h (fun q => { close s.now q with timedOut := true }) i
        (fun q => close_lt _ q) (fun q hx => by simp at hx) s.inflight (s.now + 1)
      exact {
        below := hm.below
        nodup := hm.nodup
        own := fun j q hj hto => by
          have hj' : (modAt (fun q => { close s.now q with timedOut := true }) s.objs i)[j]? = some q := hj
          show alookup (aerase s.map q0.lt) q.lt = some j
          rw [getElem?_modAt] at hj'
          by_cases e : j = i
          · subst e
            simp only [if_true, hi, Option.map_some, Option.some.injEq] at hj'
            subst hj'
            simp at hto
          · simp only [e, if_false] at hj'
            have hne : q.lt ≠ q0.lt := lt_ne_of_nodup h.nodup hj' hi e
            rw [alookup_aerase_ne _ _ _ hne]
            exact h.own j q hj' hto }
  | arrive r =>
    simp only [act]
    cases s.inflight with
    | some f => exact { below := h.below, nodup := h.nodup, own := h.own }
    | none =>
      simp only
      cases alookup s.map r.lt with
      | none => exact { below := h.below, nodup := h.nodup, own := h.own }
      | some k => exact { below := h.below, nodup := h.nodup, own := h.own }
  | replyStep =>
    simp only [act, QueryRoute.replyStep]
    cases s.inflight with
    | none => exact { below := h.below, nodup := h.nodup, own := h.own }
    | some f =>
      simp only
      cases s.objs[f.ref]? with
      | none => exact { below := h.below, nodup := h.nodup, own := h.own }
      | some q1 =>
        simp only
        by_cases h2 : f.stage ≤ 2
        · simp only [h2, if_true]; split <;> exact { below := h.below, nodup := h.nodup, own := h.own }
        · simp only [h2, if_false]
          by_cases h3 : f.stage = 3
          · simp only [h3, if_true]; split <;> exact { below := h.below, nodup := h.nodup, own := h.own }
          · simp only [h3, if_false]
            by_cases h4 : f.stage = 4
            · simp only [h4, if_true]; split <;> split <;> exact { below := h.below, nodup := h.nodup, own := h.own }
            · simp only [h4, if_false]
              rw [if_pos (sendAtomic_of_good hg f.r.isAck)]
              exact inv2_modAt h _ f.ref (fun q => send_lt _ _ q) (fun q hx => by rw [send_timedOut] at hx; exact hx) _ _
  | consumeAck i =>
    simp only [act]
    exact inv2_modAt h (fun q => { q with ackBuf := q.ackBuf - 1 }) i (fun _ => rfl) (fun _ x => x) _ _
  | consumeResp i =>
    simp only [act]
    exact inv2_modAt h (fun q => { q with respBuf := q.respBuf - 1 }) i (fun _ => rfl) (fun _ x => x) _ _

end SerfProofs.QueryRoute
