/-
The bookkeeping invariant of the node model (`SerfModel.Node`) and its preservation by every
handler: the keys of `members` are unique, the `failed` / `left` lists have no duplicates and
list exactly the members whose stored status is failed / left.
Core Lean only.
-/
import SerfProofs.Lemmas.Assoc
import SerfProofs.Lemmas.NodeLists
namespace SerfProofs.NodeBook
open SerfModel SerfModel.Node SerfProofs.NodeLists

/-- The bookkeeping invariant. -/
structure BookInv (n : Node) : Prop where
  keys : (akeys n.members).Nodup
  failedNodup : n.failed.Nodup
  leftNodup : n.left.Nodup
  failedIff : ∀ x, x ∈ n.failed ↔ statusOf n x = some .failed
  leftIff : ∀ x, x ∈ n.left ↔ statusOf n x = some .left

/-! ### statusOf under map updates -/

theorem statusOf_congr {n n' : Node} (h : n'.members = n.members) (x : Name) :
    statusOf n' x = statusOf n x := by
  simp [statusOf, h]

theorem statusOf_ainsert {n n' : Node} {name : Name} {m' : Member}
    (hm : n'.members = ainsert n.members name m') (x : Name) :
    statusOf n' x = if x = name then some m'.status else statusOf n x := by
  unfold statusOf
  rw [hm, alookup_ainsert]
  by_cases h : x = name <;> simp [h]

theorem statusOf_aerase {n n' : Node} {name : Name}
    (hm : n'.members = aerase n.members name) (x : Name) :
    statusOf n' x = if x = name then none else statusOf n x := by
  unfold statusOf
  rw [hm]
  by_cases h : x = name
  · subst h; simp [alookup_aerase_self]
  · simp [h, alookup_aerase_ne _ _ _ h]

theorem statusOf_of_lookup {n : Node} {x : Name} {m : Member} (h : alookup n.members x = some m) :
    statusOf n x = some m.status := by
  simp [statusOf, h]

theorem statusOf_of_lookup_none {n : Node} {x : Name} (h : alookup n.members x = none) :
    statusOf n x = none := by
  simp [statusOf, h]

/-- The invariant only reads `members`, `failed`, `left`. -/
theorem BookInv.congr {n n' : Node} (h : BookInv n) (hm : n'.members = n.members)
    (hf : n'.failed = n.failed) (hl : n'.left = n.left) : BookInv n' := by
  refine ⟨?_, ?_, ?_, ?_, ?_⟩
  · rw [hm]; exact h.keys
  · rw [hf]; exact h.failedNodup
  · rw [hl]; exact h.leftNodup
  · intro x; rw [hf, statusOf_congr hm]; exact h.failedIff x
  · intro x; rw [hl, statusOf_congr hm]; exact h.leftIff x

/-- Failed and left entries are different members. -/
theorem BookInv.disjoint {n : Node} (h : BookInv n) (x : Name) (hf : x ∈ n.failed) : x ∉ n.left := by
  intro hl
  have h1 := (h.failedIff x).mp hf
  have h2 := (h.leftIff x).mp hl
  rw [h1] at h2
  cases h2

/-! ### generic updates -/

theorem inv_update {n n' : Node} (h : BookInv n) (name : Name) (m' : Member)
    (hm : n'.members = ainsert n.members name m')
    (hfnd : n'.failed.Nodup) (hlnd : n'.left.Nodup)
    (hf : ∀ x, x ≠ name → (x ∈ n'.failed ↔ x ∈ n.failed))
    (hl : ∀ x, x ≠ name → (x ∈ n'.left ↔ x ∈ n.left))
    (hfn : name ∈ n'.failed ↔ m'.status = .failed)
    (hln : name ∈ n'.left ↔ m'.status = .left) : BookInv n' := by
  refine ⟨?_, hfnd, hlnd, ?_, ?_⟩
  · rw [hm]; exact akeys_ainsert_nodup _ _ _ h.keys
  · intro x
    rw [statusOf_ainsert hm]
    by_cases hx : x = name
    · rw [hx]; simp [hfn]
    · simp only [hx, if_false]; rw [hf x hx]; exact h.failedIff x
  · intro x
    rw [statusOf_ainsert hm]
    by_cases hx : x = name
    · rw [hx]; simp [hln]
    · simp only [hx, if_false]; rw [hl x hx]; exact h.leftIff x

/-- The lists stay as they are; the new record is failed / left iff the old one was. -/
theorem inv_update_keep {n n' : Node} (h : BookInv n) (name : Name) (m' : Member)
    (hm : n'.members = ainsert n.members name m') (hf : n'.failed = n.failed) (hl : n'.left = n.left)
    (hsf : m'.status = .failed ↔ statusOf n name = some .failed)
    (hsl : m'.status = .left ↔ statusOf n name = some .left) : BookInv n' := by
  apply inv_update h name m' hm
  · rw [hf]; exact h.failedNodup
  · rw [hl]; exact h.leftNodup
  · intro x _; rw [hf]
  · intro x _; rw [hl]
  · rw [hf, h.failedIff, hsf]
  · rw [hl, h.leftIff, hsl]

theorem inv_erase {n n' : Node} (h : BookInv n) (name : Name)
    (hm : n'.members = aerase n.members name)
    (hfnd : n'.failed.Nodup) (hlnd : n'.left.Nodup)
    (hf : ∀ x, x ≠ name → (x ∈ n'.failed ↔ x ∈ n.failed))
    (hl : ∀ x, x ≠ name → (x ∈ n'.left ↔ x ∈ n.left))
    (hfn : name ∉ n'.failed) (hln : name ∉ n'.left) : BookInv n' := by
  refine ⟨?_, hfnd, hlnd, ?_, ?_⟩
  · rw [hm]; exact akeys_aerase_nodup _ _ h.keys
  · intro x
    rw [statusOf_aerase hm]
    by_cases hx : x = name
    · rw [hx]; simp [hfn]
    · simp only [hx, if_false]; rw [hf x hx]; exact h.failedIff x
  · intro x
    rw [statusOf_aerase hm]
    by_cases hx : x = name
    · rw [hx]; simp [hln]
    · simp only [hx, if_false]; rw [hl x hx]; exact h.leftIff x

/-- Appending a name that is not listed. -/
theorem nodup_append_singleton {l : List Name} {x : Name} (h : l.Nodup) (hx : x ∉ l) : (l ++ [x]).Nodup := by
  rw [List.nodup_append]
  refine ⟨h, by simp, ?_⟩
  intro a ha b hb
  simp at hb
  subst hb
  intro e; subst e; exact hx ha

/-! ### the handlers -/

theorem inv_handleNodeJoin (n : Node) (x : Name) (h : BookInv n) : BookInv (handleNodeJoin n x).1 := by
  unfold handleNodeJoin
  split
  · next hnone =>
    have hs := statusOf_of_lookup_none hnone
    refine inv_update_keep h x _ rfl rfl rfl ?_ ?_
    · rw [hs]; split <;> (try split) <;> simp
    · rw [hs]; split <;> (try split) <;> simp
  · next m hsome =>
    have hs := statusOf_of_lookup hsome
    dsimp only
    by_cases hc : m.status = Status.failed ∨ m.status = Status.left
    · rw [if_pos hc]
      refine inv_update h x _ rfl (nodup_removeOld _ _ h.failedNodup) (nodup_removeOld _ _ h.leftNodup) ?_ ?_ ?_ ?_
      · intro y hy; simp [mem_removeOld _ _ _ h.failedNodup, hy]
      · intro y hy; simp [mem_removeOld _ _ _ h.leftNodup, hy]
      · simp [mem_removeOld _ _ _ h.failedNodup]
      · simp [mem_removeOld _ _ _ h.leftNodup]
    · rw [if_neg hc]
      refine inv_update_keep h x _ rfl rfl rfl ?_ ?_
      · rw [hs]; simp; intro e; exact hc (Or.inl e)
      · rw [hs]; simp; intro e; exact hc (Or.inr e)

theorem inv_handleNodeLeave (n : Node) (x : Name) (a : Nat) (h : BookInv n) :
    BookInv (handleNodeLeave n x a).1 := by
  unfold handleNodeLeave
  split
  · exact h
  · next m hsome =>
    have hs := statusOf_of_lookup hsome
    split
    · next hst =>
      rw [hst] at hs
      have hxl : x ∉ n.left := by rw [h.leftIff, hs]; simp
      have hxf : x ∉ n.failed := by rw [h.failedIff, hs]; simp
      refine inv_update h x _ rfl h.failedNodup (nodup_append_singleton h.leftNodup hxl) ?_ ?_ ?_ ?_
      · intro y _; exact Iff.rfl
      · intro y hy; simp [hy]
      · simp [hxf]
      · simp
    · next hst =>
      rw [hst] at hs
      have hxl : x ∉ n.left := by rw [h.leftIff, hs]; simp
      have hxf : x ∉ n.failed := by rw [h.failedIff, hs]; simp
      refine inv_update h x _ rfl (nodup_append_singleton h.failedNodup hxf) h.leftNodup ?_ ?_ ?_ ?_
      · intro y hy; simp [hy]
      · intro y _; exact Iff.rfl
      · simp
      · simp [hxl]
    · exact h

theorem inv_handleNodeUpdate (n : Node) (x : Name) (h : BookInv n) : BookInv (handleNodeUpdate n x).1 := by
  unfold handleNodeUpdate
  split <;> exact h

/-- `handlePrune` keeps the invariant unless the member is still recorded as failed (the Go code
only takes it out of the left list); `handleLeaveIntent` never calls it in that situation. -/
theorem inv_handlePrune (n : Node) (x : Name) (h : BookInv n) (hs : statusOf n x ≠ some .failed) :
    BookInv (handlePrune n x).1 := by
  have hxf : x ∉ n.failed := by rw [h.failedIff]; exact hs
  have key : BookInv (eraseNode { n with left := removeOld n.left x } x) := by
    refine inv_erase h x rfl h.failedNodup (nodup_removeOld _ _ h.leftNodup) ?_ ?_ hxf ?_
    · intro y _; exact Iff.rfl
    · intro y hy; simp [eraseNode, mem_removeOld _ _ _ h.leftNodup, hy]
    · simp [eraseNode, mem_removeOld _ _ _ h.leftNodup]
  unfold handlePrune
  dsimp only
  split
  · exact key
  · exact key
  · next h1 h2 =>
    have hxl : x ∉ n.left := by rw [h.leftIff]; exact fun e => h2 e
    refine inv_erase h x rfl h.failedNodup h.leftNodup ?_ ?_ hxf hxl
    · intro y _; exact Iff.rfl
    · intro y _; exact Iff.rfl

theorem handlePrune_members (n : Node) (x : Name) : (handlePrune n x).1.members = aerase n.members x := by
  unfold handlePrune
  dsimp only
  split <;> rfl

theorem handlePrune_events (n : Node) (x : Name) : (handlePrune n x).2 = [(EvKind.reap, x)] := rfl

theorem statusOf_handlePrune_self (n : Node) (x : Name) : statusOf (handlePrune n x).1 x = none := by
  rw [statusOf_aerase (handlePrune_members n x)]
  simp

theorem inv_handleLeaveIntent (n : Node) (x : Name) (lt : Nat) (prune : Bool) (wall : Nat) (h : BookInv n) :
    BookInv (handleLeaveIntent n x lt prune wall).1 := by
  unfold handleLeaveIntent
  dsimp only
  split
  · exact h.congr rfl rfl rfl
  · next m hsome =>
    have hs := statusOf_of_lookup hsome
    split
    · exact h.congr rfl rfl rfl
    · split
      · exact h.congr rfl rfl rfl
      · split
        · next hst =>
          rw [hst] at hs
          have h1 : BookInv { n with clock := witness n.clock lt, members := ainsert n.members x (⟨.leaving, lt, m.leaveTime⟩ : Member) } := by
            refine inv_update_keep h x _ rfl rfl rfl ?_ ?_ <;> rw [hs] <;> simp
          split
          · exact inv_handlePrune _ x h1 (by rw [statusOf_ainsert rfl]; simp)
          · exact h1
        · next hst =>
          rw [hst] at hs
          have hxl : x ∉ n.left := by rw [h.leftIff, hs]; simp
          have h1 : BookInv { n with clock := witness n.clock lt, members := ainsert n.members x (⟨.left, lt, m.leaveTime⟩ : Member), failed := removeOld n.failed x, left := n.left ++ [x] } := by
            refine inv_update h x _ rfl (nodup_removeOld _ _ h.failedNodup)
              (nodup_append_singleton h.leftNodup hxl) ?_ ?_ ?_ ?_
            · intro y hy; simp [mem_removeOld _ _ _ h.failedNodup, hy]
            · intro y hy; simp [hy]
            · simp [mem_removeOld _ _ _ h.failedNodup]
            · simp
          split
          · exact inv_handlePrune _ x h1 (by rw [statusOf_ainsert rfl]; simp)
          · exact h1
        · next hna hnf =>
          have h1 : BookInv { n with clock := witness n.clock lt, members := ainsert n.members x (⟨m.status, lt, m.leaveTime⟩ : Member) } := by
            refine inv_update_keep h x _ rfl rfl rfl ?_ ?_ <;> rw [hs] <;> simp
          split
          · exact inv_handlePrune _ x h1 (by rw [statusOf_ainsert rfl]; simpa using hnf)
          · exact h1

theorem inv_handleJoinIntent (n : Node) (x : Name) (lt : Nat) (wall : Nat) (h : BookInv n) :
    BookInv (handleJoinIntent n x lt wall).1 := by
  unfold handleJoinIntent
  dsimp only
  split
  · exact h.congr rfl rfl rfl
  · next m hsome =>
    have hs := statusOf_of_lookup hsome
    split
    · exact h.congr rfl rfl rfl
    · refine inv_update_keep h x _ rfl rfl rfl ?_ ?_ <;> rw [hs] <;> dsimp only <;> split <;> simp_all

theorem inv_broadcastJoin (n : Node) (t : Nat) (wall : Nat) (h : BookInv n) :
    BookInv (broadcastJoin n t wall).1 := by
  unfold broadcastJoin
  exact inv_handleJoinIntent _ _ _ _ (h.congr rfl rfl rfl)

theorem inv_runPending (n : Node) (wall : Nat) (h : BookInv n) : BookInv (runPending n wall).1 := by
  unfold runPending
  split
  · exact h
  · exact inv_broadcastJoin _ _ _ (h.congr rfl rfl rfl)

theorem inv_mergeLefts (status : List (Name × Nat)) (wall : Nat) (xs : List Name) :
    ∀ n : Node, BookInv n → BookInv (mergeLefts n status wall xs).1 := by
  induction xs with
  | nil => intro n h; exact h
  | cons x xs ih =>
    intro n h
    unfold mergeLefts
    exact ih _ (inv_handleLeaveIntent _ _ _ _ _ h)

theorem inv_mergeJoins (left : List Name) (wall : Nat) (st : List (Name × Nat)) :
    ∀ n : Node, BookInv n → BookInv (mergeJoins n left wall st) := by
  induction st with
  | nil => intro n h; exact h
  | cons p rest ih =>
    intro n h
    obtain ⟨x, t⟩ := p
    unfold mergeJoins
    split
    · exact ih _ h
    · exact ih _ (inv_handleJoinIntent _ _ _ _ h)

theorem inv_merge (n : Node) (lt : Nat) (status : List (Name × Nat)) (left : List Name) (wall : Nat)
    (h : BookInv n) : BookInv (merge n lt status left wall).1 := by
  unfold merge
  dsimp only
  apply inv_mergeJoins
  apply inv_mergeLefts
  split
  · exact h.congr rfl rfl rfl
  · exact h

theorem inv_forceLeave (n : Node) (x : Name) (prune : Bool) (wall : Nat) (h : BookInv n) :
    BookInv (forceLeave n x prune wall).1 := by
  unfold forceLeave
  exact inv_handleLeaveIntent _ _ _ _ _ (h.congr rfl rfl rfl)

theorem inv_leaveBegin (n : Node) (wall : Nat) (h : BookInv n) : BookInv (leaveBegin n wall).1 := by
  unfold leaveBegin
  split
  · exact h
  · exact inv_handleLeaveIntent _ _ _ _ _ (h.congr rfl rfl rfl)

theorem inv_leaveEnd (n : Node) (h : BookInv n) : BookInv (leaveEnd n) := by
  unfold leaveEnd
  split
  · exact h.congr rfl rfl rfl
  · exact h

/-! ### eraseAll and the reaper -/

theorem alookup_eraseAll (ms : List (Name × Member)) (xs : List Name) (y : Name) :
    alookup (eraseAll ms xs) y = if y ∈ xs then none else alookup ms y := by
  induction xs generalizing ms with
  | nil => simp [eraseAll]
  | cons x xs ih =>
    simp only [eraseAll, ih, List.mem_cons]
    by_cases hy : y ∈ xs
    · simp [hy]
    · by_cases hx : y = x
      · subst hx; simp [alookup_aerase_self]
      · simp [hy, hx, alookup_aerase_ne _ _ _ hx]

theorem akeys_eraseAll_nodup (ms : List (Name × Member)) (xs : List Name) (h : (akeys ms).Nodup) :
    (akeys (eraseAll ms xs)).Nodup := by
  induction xs generalizing ms with
  | nil => exact h
  | cons x xs ih => exact ih _ (akeys_aerase_nodup _ _ h)

theorem statusOf_eraseAll {n n' : Node} {xs : List Name} (hm : n'.members = eraseAll n.members xs) (x : Name) :
    statusOf n' x = if x ∈ xs then none else statusOf n x := by
  unfold statusOf
  rw [hm, alookup_eraseAll]
  by_cases h : x ∈ xs <;> simp [h]

/-- Erasing a set of members and dropping exactly those names from both lists. -/
theorem inv_eraseAll {n n' : Node} (h : BookInv n) (xs : List Name)
    (hm : n'.members = eraseAll n.members xs)
    (hfnd : n'.failed.Nodup) (hlnd : n'.left.Nodup)
    (hf : ∀ x, x ∈ n'.failed ↔ x ∈ n.failed ∧ x ∉ xs)
    (hl : ∀ x, x ∈ n'.left ↔ x ∈ n.left ∧ x ∉ xs) : BookInv n' := by
  refine ⟨?_, hfnd, hlnd, ?_, ?_⟩
  · rw [hm]; exact akeys_eraseAll_nodup _ _ h.keys
  · intro x
    rw [statusOf_eraseAll hm, hf, h.failedIff]
    by_cases hx : x ∈ xs <;> simp [hx]
  · intro x
    rw [statusOf_eraseAll hm, hl, h.leftIff]
    by_cases hx : x ∈ xs <;> simp [hx]

theorem mem_reapList_kept (ms : List (Name × Member)) (old : List Name) (now : Nat) (ov : Name → Nat → Nat)
    (t : Nat) (x : Name) :
    x ∈ (reapList ms old now ov t).1 ↔ x ∈ old ∧ expired ms now ov t x = false :=
  reapLoop_mem_kept _ _ _

theorem mem_reapList_reaped (ms : List (Name × Member)) (old : List Name) (now : Nat) (ov : Name → Nat → Nat)
    (t : Nat) (x : Name) :
    x ∈ (reapList ms old now ov t).2 ↔ x ∈ old ∧ expired ms now ov t x = true :=
  reapLoop_mem_reaped _ _ _

theorem reapList_nodup (ms : List (Name × Member)) (old : List Name) (now : Nat) (ov : Name → Nat → Nat)
    (t : Nat) (h : old.Nodup) :
    (reapList ms old now ov t).1.Nodup ∧ (reapList ms old now ov t).2.Nodup :=
  reapLoop_nodup _ _ h

theorem expired_congr {ms ms' : List (Name × Member)} {x : Name} (h : alookup ms' x = alookup ms x)
    (now : Nat) (ov : Name → Nat → Nat) (t : Nat) : expired ms' now ov t x = expired ms now ov t x := by
  unfold expired
  rw [h]

/-- The names the failed-list pass of `reap` erases. -/
def reapedFailed (n : Node) (now : Nat) (ov : Name → Nat → Nat) : List Name :=
  (reapList n.members n.failed now ov n.cfg.reconnect).2

/-- The names the left-list pass of `reap` erases (it reads the map left by the first pass). -/
def reapedLeft (n : Node) (now : Nat) (ov : Name → Nat → Nat) : List Name :=
  (reapList (eraseAll n.members (reapedFailed n now ov)) n.left now ov n.cfg.tombstone).2

theorem reap_events_eq (n : Node) (now : Nat) (ov : Name → Nat → Nat) :
    (reap n now ov).2.events = (reapedFailed n now ov ++ reapedLeft n now ov).map (fun x => (EvKind.reap, x)) := rfl

theorem reap_members_eq (n : Node) (now : Nat) (ov : Name → Nat → Nat) :
    (reap n now ov).1.members = eraseAll (eraseAll n.members (reapedFailed n now ov)) (reapedLeft n now ov) := rfl

theorem reap_failed_eq (n : Node) (now : Nat) (ov : Name → Nat → Nat) :
    (reap n now ov).1.failed = (reapList n.members n.failed now ov n.cfg.reconnect).1 := rfl

theorem reap_left_eq (n : Node) (now : Nat) (ov : Name → Nat → Nat) :
    (reap n now ov).1.left =
      (reapList (eraseAll n.members (reapedFailed n now ov)) n.left now ov n.cfg.tombstone).1 := rfl

theorem mem_reapedFailed {n : Node} (h : BookInv n) (now : Nat) (ov : Name → Nat → Nat) (x : Name) :
    x ∈ reapedFailed n now ov ↔
      statusOf n x = some .failed ∧ expired n.members now ov n.cfg.reconnect x = true := by
  unfold reapedFailed
  rw [mem_reapList_reaped, h.failedIff]

/-- A left-list entry is not erased by the failed-list pass, so the second pass reads the same
record the node had at the start. -/
theorem alookup_after_failed_pass {n : Node} (h : BookInv n) (now : Nat) (ov : Name → Nat → Nat) (x : Name)
    (hx : x ∈ n.left) : alookup (eraseAll n.members (reapedFailed n now ov)) x = alookup n.members x := by
  rw [alookup_eraseAll]
  have : x ∉ reapedFailed n now ov := by
    intro hm
    have := ((mem_reapList_reaped _ _ _ _ _ _).mp hm).1
    exact h.disjoint x this hx
  simp [this]

theorem mem_reapedLeft {n : Node} (h : BookInv n) (now : Nat) (ov : Name → Nat → Nat) (x : Name) :
    x ∈ reapedLeft n now ov ↔
      statusOf n x = some .left ∧ expired n.members now ov n.cfg.tombstone x = true := by
  unfold reapedLeft
  rw [mem_reapList_reaped, ← h.leftIff]
  constructor
  · rintro ⟨hx, he⟩
    exact ⟨hx, by rw [← expired_congr (alookup_after_failed_pass h now ov x hx)]; exact he⟩
  · rintro ⟨hx, he⟩
    exact ⟨hx, by rw [expired_congr (alookup_after_failed_pass h now ov x hx)]; exact he⟩

theorem reaped_nodup {n : Node} (h : BookInv n) (now : Nat) (ov : Name → Nat → Nat) :
    (reapedFailed n now ov ++ reapedLeft n now ov).Nodup := by
  rw [List.nodup_append]
  refine ⟨(reapList_nodup _ _ _ _ _ h.failedNodup).2, (reapList_nodup _ _ _ _ _ h.leftNodup).2, ?_⟩
  intro a ha b hb e
  subst e
  have h1 := ((mem_reapedFailed h now ov a).mp ha).1
  have h2 := ((mem_reapedLeft h now ov a).mp hb).1
  rw [h1] at h2
  cases h2

theorem inv_reap (n : Node) (now : Nat) (ov : Name → Nat → Nat) (h : BookInv n) : BookInv (reap n now ov).1 := by
  have h1 : BookInv { n with failed := (reapList n.members n.failed now ov n.cfg.reconnect).1, members := eraseAll n.members (reapedFailed n now ov) } := by
    refine inv_eraseAll h (reapedFailed n now ov) rfl (reapList_nodup _ _ _ _ _ h.failedNodup).1 h.leftNodup ?_ ?_
    · intro x
      show x ∈ (reapList n.members n.failed now ov n.cfg.reconnect).1 ↔ _
      unfold reapedFailed
      rw [mem_reapList_kept, mem_reapList_reaped]
      cases expired n.members now ov n.cfg.reconnect x <;> simp
    · intro x
      show x ∈ n.left ↔ _
      constructor
      · intro hx
        refine ⟨hx, ?_⟩
        intro hm
        exact h.disjoint x ((mem_reapList_reaped _ _ _ _ _ _).mp hm).1 hx
      · exact fun hx => hx.1
  have h2 : BookInv (reap n now ov).1 := by
    refine inv_eraseAll h1 (reapedLeft n now ov) rfl h1.failedNodup ?_ ?_ ?_
    · rw [reap_left_eq]; exact (reapList_nodup _ _ _ _ _ h.leftNodup).1
    · intro x
      show x ∈ (reapList n.members n.failed now ov n.cfg.reconnect).1 ↔
        x ∈ (reapList n.members n.failed now ov n.cfg.reconnect).1 ∧ _
      constructor
      · intro hx
        refine ⟨hx, ?_⟩
        intro hm
        have hf := ((mem_reapList_kept _ _ _ _ _ _).mp hx).1
        have hl := ((mem_reapList_reaped _ _ _ _ _ _).mp hm).1
        exact h.disjoint x hf hl
      · exact fun hx => hx.1
    · intro x
      rw [reap_left_eq]
      show _ ↔ x ∈ n.left ∧ _
      unfold reapedLeft
      rw [mem_reapList_kept, mem_reapList_reaped]
      cases expired (eraseAll n.members (reapedFailed n now ov)) now ov n.cfg.tombstone x <;> simp
  exact h2

theorem inv_init (name : Name) (cfg : Config) : BookInv (Node.init name cfg) := by
  refine ⟨?_, ?_, ?_, ?_, ?_⟩
  · simp [Node.init, akeys]
  · simp [Node.init]
  · simp [Node.init]
  · intro x
    by_cases hx : name = x <;> simp [Node.init, statusOf, alookup_cons, hx]
  · intro x
    by_cases hx : name = x <;> simp [Node.init, statusOf, alookup_cons, hx]

theorem inv_step (n : Node) (op : Op) (h : BookInv n) : BookInv (step n op).1 := by
  cases op with
  | nodeJoin x => exact inv_handleNodeJoin n x h
  | nodeLeave x a => exact inv_handleNodeLeave n x a h
  | nodeUpdate x => exact inv_handleNodeUpdate n x h
  | joinMsg x lt w => exact inv_handleJoinIntent n x lt w h
  | leaveMsg x lt p w => exact inv_handleLeaveIntent n x lt p w h
  | merge lt st lf w => exact inv_merge n lt st lf w h
  | forceLeave x p w => exact inv_forceLeave n x p w h
  | ownJoin w => exact inv_broadcastJoin n n.clock w h
  | leaveBegin w => exact inv_leaveBegin n w h
  | leaveEnd => exact inv_leaveEnd n h
  | shutdown => exact h.congr rfl rfl rfl
  | reap now ov => exact inv_reap n now ov h
  | runPending w => exact inv_runPending n w h

theorem inv_run (ops : List Op) : ∀ n : Node, BookInv n → BookInv (run n ops) := by
  induction ops with
  | nil => intro n h; exact h
  | cons op ops ih => intro n h; exact ih _ (inv_step n op h)

end SerfProofs.NodeBook
