/-
Pointwise "effect" lemmas for the node model (`SerfModel.Node`): what one handler / one `step`
can do to the record stored for a member.

`Mono ms ms'`: every member known in `ms'` was already known in `ms`, with a status time that is
not larger.  It is reflexive and transitive, every handler except memberlist's join notification
satisfies it (so it composes through `merge`, `forceLeave`, `leaveBegin`, `runPending`, the
reaper), and it gives both
  E1 `ltime_mono_step`     a member's recorded status time only grows, and
  E2 `becomes_known_step`  a member becomes known only by memberlist's join notification.
Core Lean only.
-/
import SerfProofs.Lemmas.NodeBook
namespace SerfProofs.NodeSteps
open SerfModel SerfModel.Node SerfProofs.NodeBook

/-- Every member known afterwards was known before, with a status time at most as large. -/
def Mono (ms ms' : List (Name × Member)) : Prop :=
  ∀ y m', alookup ms' y = some m' → ∃ m, alookup ms y = some m ∧ m.ltime ≤ m'.ltime

theorem Mono.refl (ms : List (Name × Member)) : Mono ms ms :=
  fun _ m' h => ⟨m', h, Nat.le_refl _⟩

theorem Mono.trans {a b c : List (Name × Member)} (h1 : Mono a b) (h2 : Mono b c) : Mono a c := by
  intro y m'' h
  obtain ⟨m', hm', hle'⟩ := h2 y m'' h
  obtain ⟨m, hm, hle⟩ := h1 y m' hm'
  exact ⟨m, hm, Nat.le_trans hle hle'⟩

theorem mono_ainsert {ms : List (Name × Member)} {x : Name} {m m' : Member}
    (hm : alookup ms x = some m) (hle : m.ltime ≤ m'.ltime) : Mono ms (ainsert ms x m') := by
  intro y v hv
  rw [alookup_ainsert] at hv
  by_cases hy : y = x
  · subst hy
    simp at hv
    subst hv
    exact ⟨m, hm, hle⟩
  · simp [hy] at hv
    exact ⟨v, hv, Nat.le_refl _⟩

theorem mono_aerase (ms : List (Name × Member)) (x : Name) : Mono ms (aerase ms x) := by
  intro y v hv
  by_cases hy : y = x
  · subst hy
    rw [alookup_aerase_self] at hv
    cases hv
  · rw [alookup_aerase_ne _ _ _ hy] at hv
    exact ⟨v, hv, Nat.le_refl _⟩

theorem mono_eraseAll (ms : List (Name × Member)) (xs : List Name) : Mono ms (eraseAll ms xs) := by
  intro y v hv
  rw [alookup_eraseAll] at hv
  by_cases hy : y ∈ xs
  · simp [hy] at hv
  · simp [hy] at hv
    exact ⟨v, hv, Nat.le_refl _⟩

/-- What `Mono` says about `ltimeOf`. -/
theorem Mono.ltime_le {n n' : Node} (hm : Mono n.members n'.members) (x : Name) (t t' : Nat)
    (h : ltimeOf n x = some t) (h' : ltimeOf n' x = some t') : t ≤ t' := by
  unfold ltimeOf at h h'
  cases hl' : alookup n'.members x with
  | none => simp [hl'] at h'
  | some m' =>
    obtain ⟨m, hl, hle⟩ := hm x m' hl'
    simp [hl] at h
    simp [hl'] at h'
    omega

/-- What `Mono` says about `known`. -/
theorem Mono.known_of_known {n n' : Node} (hm : Mono n.members n'.members) (x : Name)
    (h' : known n' x = true) : known n x = true := by
  unfold known at h' ⊢
  cases hl' : alookup n'.members x with
  | none => simp [hl'] at h'
  | some m' =>
    obtain ⟨m, hl, _⟩ := hm x m' hl'
    simp [hl]

/-! ### the handlers -/

theorem mono_handleNodeLeave (n : Node) (x : Name) (a : Nat) :
    Mono n.members (handleNodeLeave n x a).1.members := by
  unfold handleNodeLeave
  split
  · exact Mono.refl _
  · next m hsome =>
    split
    · exact mono_ainsert hsome (Nat.le_refl _)
    · exact mono_ainsert hsome (Nat.le_refl _)
    · exact Mono.refl _

theorem mono_handleNodeUpdate (n : Node) (x : Name) :
    Mono n.members (handleNodeUpdate n x).1.members := by
  unfold handleNodeUpdate
  split <;> exact Mono.refl _

theorem mono_handlePrune (n : Node) (x : Name) : Mono n.members (handlePrune n x).1.members := by
  rw [handlePrune_members]
  exact mono_aerase _ _

theorem mono_handleLeaveIntent (n : Node) (x : Name) (lt : Nat) (prune : Bool) (wall : Nat) :
    Mono n.members (handleLeaveIntent n x lt prune wall).1.members := by
  unfold handleLeaveIntent
  dsimp only
  split
  · exact Mono.refl _
  · next m hsome =>
    split
    · exact Mono.refl _
    · next hlt =>
      have hle : m.ltime ≤ lt := by omega
      split
      · exact Mono.refl _
      · split
        · split
          · exact Mono.trans (mono_ainsert hsome hle) (mono_handlePrune _ _)
          · exact mono_ainsert hsome hle
        · split
          · exact Mono.trans (mono_ainsert hsome hle) (mono_handlePrune _ _)
          · exact mono_ainsert hsome hle
        · split
          · exact Mono.trans (mono_ainsert hsome hle) (mono_handlePrune _ _)
          · exact mono_ainsert hsome hle

theorem mono_handleJoinIntent (n : Node) (x : Name) (lt : Nat) (wall : Nat) :
    Mono n.members (handleJoinIntent n x lt wall).1.members := by
  unfold handleJoinIntent
  dsimp only
  split
  · exact Mono.refl _
  · next m hsome =>
    split
    · exact Mono.refl _
    · next hlt =>
      have hle : m.ltime ≤ lt := by omega
      exact mono_ainsert hsome hle

theorem mono_broadcastJoin (n : Node) (t : Nat) (wall : Nat) :
    Mono n.members (broadcastJoin n t wall).1.members := by
  unfold broadcastJoin
  exact mono_handleJoinIntent { n with clock := witness n.clock t } n.name t wall

theorem mono_runPending (n : Node) (wall : Nat) : Mono n.members (runPending n wall).1.members := by
  unfold runPending
  split
  · exact Mono.refl _
  · next t rest _ => exact mono_broadcastJoin { n with pending := rest } t wall

theorem mono_mergeLefts (status : List (Name × Nat)) (wall : Nat) (xs : List Name) :
    ∀ n : Node, Mono n.members (mergeLefts n status wall xs).1.members := by
  induction xs with
  | nil => intro n; exact Mono.refl _
  | cons x xs ih =>
    intro n
    unfold mergeLefts
    exact Mono.trans (mono_handleLeaveIntent n x _ false wall) (ih _)

theorem mono_mergeJoins (left : List Name) (wall : Nat) (st : List (Name × Nat)) :
    ∀ n : Node, Mono n.members (mergeJoins n left wall st).members := by
  induction st with
  | nil => intro n; exact Mono.refl _
  | cons p rest ih =>
    intro n
    obtain ⟨x, t⟩ := p
    unfold mergeJoins
    split
    · exact ih n
    · exact Mono.trans (mono_handleJoinIntent n x t wall) (ih _)

theorem mono_merge (n : Node) (lt : Nat) (status : List (Name × Nat)) (left : List Name) (wall : Nat) :
    Mono n.members (merge n lt status left wall).1.members := by
  unfold merge
  dsimp only
  refine Mono.trans (Mono.trans ?_ (mono_mergeLefts status wall left _)) (mono_mergeJoins left wall status _)
  split <;> exact Mono.refl _

theorem mono_forceLeave (n : Node) (x : Name) (prune : Bool) (wall : Nat) :
    Mono n.members (forceLeave n x prune wall).1.members := by
  unfold forceLeave
  exact mono_handleLeaveIntent { n with clock := (n.clock + 1) % two64 } x n.clock prune wall

theorem mono_leaveBegin (n : Node) (wall : Nat) : Mono n.members (leaveBegin n wall).1.members := by
  unfold leaveBegin
  split
  · exact Mono.refl _
  · exact mono_handleLeaveIntent { n with life := .leaving, clock := (n.clock + 1) % two64 } n.name n.clock false wall

theorem mono_leaveEnd (n : Node) : Mono n.members (leaveEnd n).members := by
  unfold leaveEnd
  split <;> exact Mono.refl _

theorem mono_reap (n : Node) (now : Nat) (ov : Name → Nat → Nat) : Mono n.members (reap n now ov).1.members := by
  rw [reap_members_eq]
  exact Mono.trans (mono_eraseAll _ _) (mono_eraseAll _ _)

/-- Every operation other than memberlist's join notification. -/
theorem mono_step (n : Node) (op : Op) (hop : ∀ z, op ≠ .nodeJoin z) : Mono n.members (step n op).1.members := by
  cases op with
  | nodeJoin x => exact absurd rfl (hop x)
  | nodeLeave x a => exact mono_handleNodeLeave n x a
  | nodeUpdate x => exact mono_handleNodeUpdate n x
  | joinMsg x lt w => exact mono_handleJoinIntent n x lt w
  | leaveMsg x lt p w => exact mono_handleLeaveIntent n x lt p w
  | merge lt st lf w => exact mono_merge n lt st lf w
  | forceLeave x p w => exact mono_forceLeave n x p w
  | ownJoin w => exact mono_broadcastJoin n n.clock w
  | leaveBegin w => exact mono_leaveBegin n w
  | leaveEnd => exact mono_leaveEnd n
  | shutdown => exact Mono.refl _
  | reap now ov => exact mono_reap n now ov
  | runPending w => exact mono_runPending n w

/-! ### memberlist's join notification -/

/-- A member that is already known keeps its status time. -/
theorem mono_handleNodeJoin_known (n : Node) (x : Name) (hk : known n x = true) :
    Mono n.members (handleNodeJoin n x).1.members := by
  unfold known at hk
  unfold handleNodeJoin
  split
  · next hnone => simp [hnone] at hk
  · next m hsome =>
    dsimp only
    split
    · exact mono_ainsert hsome (Nat.le_refl _)
    · exact mono_ainsert hsome (Nat.le_refl _)

/-- Other members are not touched. -/
theorem alookup_handleNodeJoin_ne (n : Node) (x y : Name) (hy : y ≠ x) :
    alookup (handleNodeJoin n x).1.members y = alookup n.members y := by
  unfold handleNodeJoin
  split
  · exact alookup_ainsert_ne _ _ _ _ hy
  · dsimp only
    split
    · exact alookup_ainsert_ne _ _ _ _ hy
    · exact alookup_ainsert_ne _ _ _ _ hy

/-- A new member starts with the buffered intent's time (0 if there is none). -/
theorem ltimeOf_handleNodeJoin_new (n : Node) (x : Name) (hk : known n x = false) :
    ltimeOf (handleNodeJoin n x).1 x = some (((intentOf n x).map (·.ltime)).getD 0) := by
  unfold known at hk
  unfold handleNodeJoin
  split
  · next hnone =>
    unfold ltimeOf intentOf
    dsimp only
    rw [alookup_ainsert_self]
    cases hi : alookup n.intents x with
    | none => simp
    | some i =>
      by_cases hl : i.isLeave <;> simp [hl]
  · next m hsome => simp [hsome] at hk

theorem ltime_mono_handleNodeJoin (n : Node) (x y : Name) (t t' : Nat)
    (h : ltimeOf n y = some t) (h' : ltimeOf (handleNodeJoin n x).1 y = some t') : t ≤ t' := by
  by_cases hy : y = x
  · subst hy
    have hk : known n y = true := by
      unfold ltimeOf at h
      unfold known
      cases hl : alookup n.members y <;> simp [hl] at h ⊢
    exact (mono_handleNodeJoin_known n y hk).ltime_le y t t' h h'
  · unfold ltimeOf at h h'
    rw [alookup_handleNodeJoin_ne n x y hy, h] at h'
    cases h'
    exact Nat.le_refl _

/-! ### E1, E2 -/

/-- E1: whatever the operation, a member that is still known afterwards has a status time at
least as large. -/
theorem ltime_mono_step (n : Node) (op : Op) (x : Name) (t t' : Nat)
    (h : ltimeOf n x = some t) (h' : ltimeOf (step n op).1 x = some t') : t ≤ t' := by
  by_cases hop : ∀ z, op ≠ .nodeJoin z
  · exact (mono_step n op hop).ltime_le x t t' h h'
  · cases op with
    | nodeJoin z => exact ltime_mono_handleNodeJoin n z x t t' h h'
    | _ => exact absurd (fun z => by intro e; cases e) hop

/-- No operation other than memberlist's join notification makes a member known. -/
theorem known_of_known_step (n : Node) (op : Op) (x : Name) (hop : op ≠ .nodeJoin x)
    (h' : known (step n op).1 x = true) : known n x = true := by
  by_cases hop' : ∀ z, op ≠ .nodeJoin z
  · exact (mono_step n op hop').known_of_known x h'
  · cases op with
    | nodeJoin z =>
      have hz : x ≠ z := by intro e; subst e; exact hop rfl
      unfold known at h' ⊢
      show (alookup n.members x).isSome = true
      rw [← alookup_handleNodeJoin_ne n z x hz]
      exact h'
    | _ => exact absurd (fun z => by intro e; cases e) hop'

/-- E2: a member becomes known only by memberlist's join notification, and starts with the
buffered intent's time (0 if none). -/
theorem becomes_known_step (n : Node) (op : Op) (x : Name)
    (h : known n x = false) (h' : known (step n op).1 x = true) :
    op = .nodeJoin x ∧ ltimeOf (step n op).1 x = some (((intentOf n x).map (·.ltime)).getD 0) := by
  by_cases hop : op = .nodeJoin x
  · subst hop
    exact ⟨rfl, ltimeOf_handleNodeJoin_new n x h⟩
  · have := known_of_known_step n op x hop h'
    rw [h] at this
    cases this

end SerfProofs.NodeSteps
