/-
The pieces of a life (the writes of each append, each compaction, the final flush) with
their windows of acceptable recovered states, and the induction over event histories:
`PiecesSafe` for the pieces of `life`.
-/
import SerfProofs.Lemmas.SnapshotCrashSafe
namespace SerfProofs.Snapshot
open SerfModel SerfModel.Snapshot

attribute [local irreducible] lastSeenOf

/-- a stretch of file-system operations and the in-memory states a crash inside it may recover -/
structure Piece where
  ops : List FsOp
  win : List RecState

def opsOf (ps : List Piece) : List FsOp := ps.flatMap (·.ops)

theorem opsOf_nil : opsOf [] = [] := rfl
theorem opsOf_cons (p : Piece) (ps : List Piece) : opsOf (p :: ps) = p.ops ++ opsOf ps := by simp [opsOf]
theorem opsOf_append (a b : List Piece) : opsOf (a ++ b) = opsOf a ++ opsOf b := by simp [opsOf]

/-- every crash point (operation index, byte cut of a write) of every piece recovers a state of
that piece's window; `fs` is the directory before the first piece -/
def PiecesSafe (rj : Bool) : FS → List Piece → Prop
  | _, [] => True
  | fs, p :: ps =>
    (∀ k cut, Rec rj p.win (recoverFile (FS.crashAt fs p.ops k cut))) ∧ PiecesSafe rj (fs.applyAll p.ops) ps

theorem PiecesSafe_append (rj : Bool) (a b : List Piece) : ∀ fs : FS,
    PiecesSafe rj fs (a ++ b) ↔ PiecesSafe rj fs a ∧ PiecesSafe rj (fs.applyAll (opsOf a)) b := by
  induction a with
  | nil => intro fs; simp [PiecesSafe, opsOf, FS.applyAll]
  | cons p ps ih =>
    intro fs
    simp only [List.cons_append, PiecesSafe, ih, opsOf_cons, applyAll_append, and_assoc]

/-! ### one append -/

theorem appendLine_of_gt (ord : Order) (s : Snap) (l : Bytes) (h : (appendBytes s l).1.offset > maxSize (appendBytes s l).1) :
    appendLine ord s l = ((compact ord (appendBytes s l).1).1, (appendBytes s l).2 ++ (compact ord (appendBytes s l).1).2) := by
  unfold appendLine; simp only [h, ↓reduceIte]

theorem appendLine_of_le (ord : Order) (s : Snap) (l : Bytes) (h : ¬ (appendBytes s l).1.offset > maxSize (appendBytes s l).1) :
    appendLine ord s l = appendBytes s l := by
  unfold appendLine; simp only [h, ↓reduceIte]

/-- the pieces of `appendLine ord s1 l`, where `s1` already carries the in-memory change;
`win` is the window before. Returns the pieces and the window afterwards: after a compaction,
or when nothing stays buffered, only the new state. -/
def appendPieces (ord : Order) (s1 : Snap) (l : Bytes) (win : List RecState) : List Piece × List RecState :=
  if (appendBytes s1 l).1.offset > maxSize (appendBytes s1 l).1 then
    ([⟨(appendBytes s1 l).2, win ++ [s1.mem]⟩, ⟨(compact ord (appendBytes s1 l).1).2, win ++ [s1.mem]⟩], [s1.mem])
  else ([⟨(appendBytes s1 l).2, win ++ [s1.mem]⟩], if (appendBytes s1 l).1.buf = [] then [s1.mem] else win ++ [s1.mem])

theorem appendBytes_inv (s : Snap) (fs : FS) (d : Bytes) (ln : Line)
    (hd : fs.main = some d) (hnl : endsNL (d ++ s.buf) = true) (hwf : WFRec s.mem) (hln : WFLine ln)
    (hA : MapEq (applyLine s.rejoin (replay s.rejoin (d ++ s.buf)) ln).alive s.mem.alive)
    (hC : Judged s → ClocksEq (applyLine s.rejoin (replay s.rejoin (d ++ s.buf)) ln) s.mem) :
    Inv (appendBytes s (printLine ln)).1 (fs.applyAll (appendBytes s (printLine ln)).2) ∧
      SameMem s (appendBytes s (printLine ln)).1 := by
  obtain ⟨d', hd', hcat, hsame⟩ := appendBytes_spec s (printLine ln) fs d hd
  refine ⟨⟨d', hd', ?_⟩, hsame⟩
  unfold Judged
  rw [hcat, hsame.1, hsame.2.1, hsame.2.2]
  unfold InvCore
  rw [replay_append_line _ _ _ hnl hln]
  exact ⟨endsNL_append _ _ hnl (endsNL_printLine ln), hwf, hA, hC⟩

/-- the result of a step with its pieces: the pieces' operations are the model's, every crash
point is safe, the crash invariant holds afterwards with the new window -/
structure StepOK (rj : Bool) (fs : FS) (pieces : List Piece) (ops : List FsOp) (s' : Snap) (win' : List RecState) : Prop where
  ops_eq : opsOf pieces = ops
  safe : PiecesSafe rj fs pieces
  ci : CI s' (fs.applyAll ops) win'
  rejoin : s'.rejoin = rj

theorem StepOK.nil {rj : Bool} {fs : FS} {s : Snap} {win : List RecState} (h : CI s fs win) (hr : s.rejoin = rj) :
    StepOK rj fs [] [] s win := ⟨rfl, trivial, h, hr⟩

theorem StepOK.append {rj : Bool} {fs : FS} {p1 p2 : List Piece} {o1 o2 : List FsOp} {s1 s2 : Snap} {w1 w2 : List RecState}
    (h1 : StepOK rj fs p1 o1 s1 w1) (h2 : StepOK rj (fs.applyAll o1) p2 o2 s2 w2) :
    StepOK rj fs (p1 ++ p2) (o1 ++ o2) s2 w2 := by
  refine ⟨by rw [opsOf_append, h1.ops_eq, h2.ops_eq], ?_, by rw [applyAll_append]; exact h2.ci, h2.rejoin⟩
  rw [PiecesSafe_append, h1.ops_eq]
  exact ⟨h1.safe, h2.safe⟩

/-- **One append**: change the in-memory state (to `s1`, described by its projections), then
append the line that records the change — with or without the compaction it triggers. -/
theorem append_step (ord : Order) (hord : PermOrder ord) (s s1 : Snap) (fs : FS) (win : List RecState) (ln : Line)
    (a : AMap) (c e q : Nat)
    (hci : CI s fs win) (hp : Proj s s1 a c e q false)
    (h1 : (akeys a).Nodup) (h2 : ∀ p ∈ a, WFName p.1 ∧ WFAddr p.2) (h3 : c < U64) (h4 : e < U64) (h5 : q < U64)
    (hln : WFLine ln)
    (hA : ∀ r : RecState, MapEq r.alive s.alive → MapEq (applyLine s.rejoin r ln).alive a)
    (hC : ∀ r : RecState, (false = false ∨ s.rejoin = true) →
      ((s.leaving = false ∨ s.rejoin = true) → ClocksAre r s.lastClock s.lastEventClock s.lastQueryClock) →
      ClocksAre (applyLine s.rejoin r ln) c e q) :
    StepOK s.rejoin fs (appendPieces ord s1 (printLine ln) win).1 (appendLine ord s1 (printLine ln)).2
        (appendLine ord s1 (printLine ln)).1 (appendPieces ord s1 (printLine ln) win).2 ∧
      (appendLine ord s1 (printLine ln)).1.alive = a := by
  have hfacts := update_append_inv ord hord s s1 fs ln a c e q false hci.1 hp h1 h2 h3 h4 h5 hln hA hC
  obtain ⟨d, hd, hnl, _, hA0, hC0⟩ := hci.1
  have hwf : WFRec s1.mem := WFRec_mk _ a c e q hp.mem h1 h2 h3 h4 h5
  have hb := appendBytes_inv s1 fs d ln hd (by rw [hp.buf]; exact hnl) hwf hln
    (by
      rw [hp.buf, hp.rejoin, hp.mem]
      exact hA _ hA0)
    (by
      intro hj
      rw [hp.buf, hp.rejoin, hp.mem]
      have hj' : false = false ∨ s.rejoin = true := Or.inl rfl
      exact hC _ hj' hC0)
  have hpiece := appendBytes_piece s s1 fs win ln hci hp.buf hp.rejoin hln hb.1 hb.2 hp.leaving
  refine ⟨?_, hfacts.2.2.2⟩
  by_cases hcmp : (appendBytes s1 (printLine ln)).1.offset > maxSize (appendBytes s1 (printLine ln)).1
  · -- with the compaction
    have hcp := compact_piece ord hord _ _ _ hpiece.2
    have hrj1 : (appendBytes s1 (printLine ln)).1.rejoin = s.rejoin := hb.2.2.1.trans hp.rejoin
    have hmem1 : (appendBytes s1 (printLine ln)).1.mem = s1.mem := hb.2.1
    rw [hrj1, hmem1] at hcp
    rw [appendLine_of_gt ord s1 _ hcmp]
    unfold appendPieces
    simp only [hcmp, ↓reduceIte]
    refine ⟨by simp [opsOf], ⟨hpiece.1, hcp.1, trivial⟩, by rw [applyAll_append]; exact hcp.2, ?_⟩
    have : (compact ord (appendBytes s1 (printLine ln)).1).1.rejoin = (appendBytes s1 (printLine ln)).1.rejoin := rfl
    rw [this, hrj1]
  · rw [appendLine_of_le ord s1 _ hcmp]
    unfold appendPieces
    simp only [hcmp, ↓reduceIte]
    refine ⟨by simp [opsOf], ⟨hpiece.1, trivial⟩, ?_, hb.2.2.1.trans hp.rejoin⟩
    by_cases hbuf : (appendBytes s1 (printLine ln)).1.buf = []
    · simp only [hbuf, ↓reduceIte]
      have := CI_shrink _ _ _ hpiece.2 hbuf
      rw [hb.2.1] at this
      exact this
    · simp only [hbuf, ↓reduceIte]
      exact hpiece.2

/-! ### the pieces of the model's steps -/

def updateClockPieces (ord : Order) (s : Snap) (clk : Nat) (win : List RecState) : List Piece × List RecState :=
  if lastSeenOf clk > s.lastClock then
    appendPieces ord (setClock s (lastSeenOf clk)) (printLine (.clock (lastSeenOf clk))) win
  else ([], win)

def joinPieces (ord : Order) : Snap → List (Name × Addr) → List RecState → List Piece × List RecState
  | _, [], win => ([], win)
  | s, (n, a) :: ms, win =>
    let p := appendPieces ord (setAlive s (ainsert s.alive n a)) (printLine (.alive n a)) win
    let q := joinPieces ord (appendLine ord (setAlive s (ainsert s.alive n a)) (printLine (.alive n a))).1 ms p.2
    (p.1 ++ q.1, q.2)

def gonePieces (ord : Order) : Snap → List Name → List RecState → List Piece × List RecState
  | _, [], win => ([], win)
  | s, n :: ns, win =>
    let p := appendPieces ord (setAlive s (aerase s.alive n)) (printLine (.notAlive n)) win
    let q := gonePieces ord (appendLine ord (setAlive s (aerase s.alive n)) (printLine (.notAlive n))).1 ns p.2
    (p.1 ++ q.1, q.2)

/-- first the pieces `p`, then those that `q` produces from `p`'s final window -/
def seqPieces (p : List Piece × List RecState) (q : List RecState → List Piece × List RecState) : List Piece × List RecState :=
  (p.1 ++ (q p.2).1, (q p.2).2)

theorem seqPieces_fst (p : List Piece × List RecState) (q : List RecState → List Piece × List RecState) :
    (seqPieces p q).1 = p.1 ++ (q p.2).1 := rfl
theorem seqPieces_snd (p : List Piece × List RecState) (q : List RecState → List Piece × List RecState) :
    (seqPieces p q).2 = (q p.2).2 := rfl

/-- the pieces of one event (a snapshotter that is not leaving; `leave` itself is outside C11) -/
def stepPieces (ord : Order) (s : Snap) (win : List RecState) : Ev → List Piece × List RecState
  | .join ms clk => seqPieces (joinPieces ord s ms win) (updateClockPieces ord (joinMembers ord s ms).1 clk)
  | .gone ns clk => seqPieces (gonePieces ord s ns win) (updateClockPieces ord (goneMembers ord s ns).1 clk)
  | .memberOther clk => updateClockPieces ord s clk win
  | .user lt =>
    if lt ≤ s.lastEventClock then ([], win)
    else appendPieces ord (setEventClock s lt) (printLine (.eventClock lt)) win
  | .query lt =>
    if lt ≤ s.lastQueryClock then ([], win)
    else appendPieces ord (setQueryClock s lt) (printLine (.queryClock lt)) win
  | .clockTick clk => updateClockPieces ord s clk win
  | .leave => ([⟨(step ord s .leave).2, win⟩], win)
  | .timePasses => ([], win)
  | .forceCompact => ([⟨(compact ord s).2, win⟩], [s.mem])

def runPieces (ord : Order) : Snap → List Ev → List RecState → List Piece × List RecState
  | _, [], win => ([], win)
  | s, e :: es, win =>
    let p := stepPieces ord s win e
    let q := runPieces ord (step ord s e).1 es p.2
    (p.1 ++ q.1, q.2)

def shutdownPieces (ord : Order) (s : Snap) (clk : Nat) (win : List RecState) : List Piece :=
  (updateClockPieces ord s clk win).1 ++
    [⟨flushOps .main (updateClock ord s clk).1.buf ++ [.sync .main, .close .main], (updateClockPieces ord s clk win).2⟩]

/-- all pieces of a life on a fresh directory: the first open, the events, the shutdown -/
def lifePieces (ord : Order) (rj : Bool) (mc : Nat) (evs : List Ev) (clk : Nat) : List Piece :=
  ⟨(Snap.init rj mc).2, [(Snap.init rj mc).1.mem]⟩ ::
    ((runPieces ord (Snap.init rj mc).1 evs [(Snap.init rj mc).1.mem]).1 ++
      shutdownPieces ord (run ord (Snap.init rj mc).1 evs).1 clk (runPieces ord (Snap.init rj mc).1 evs [(Snap.init rj mc).1.mem]).2)

/-! ### the induction -/

theorem clock_append_step (ord : Order) (hord : PermOrder ord) (s : Snap) (fs : FS) (win : List RecState) (x : Nat)
    (hci : CI s fs win) (hlt : x < U64) :
    StepOK s.rejoin fs (appendPieces ord (setClock s x) (printLine (.clock x)) win).1
        (appendLine ord (setClock s x) (printLine (.clock x))).2
        (appendLine ord (setClock s x) (printLine (.clock x))).1
        (appendPieces ord (setClock s x) (printLine (.clock x)) win).2 := by
  obtain ⟨w1, w2, w3, w4, w5⟩ := WFRec_parts s (Inv_wf hci.1)
  have hp := setClock_proj s x
  rw [hci.2.1] at hp
  exact (append_step ord hord s (setClock s x) fs win (.clock x) s.alive x s.lastEventClock s.lastQueryClock hci hp
    w1 w2 hlt w4 w5 hlt
    (fun r hr => by exact hr)
    (fun r hj hc => by
      have := hc (Or.inl hci.2.1)
      exact ⟨rfl, this.2.1, this.2.2⟩)).1

theorem updateClock_step (ord : Order) (hord : PermOrder ord) (s : Snap) (fs : FS) (win : List RecState) (clk : Nat)
    (hci : CI s fs win) :
    StepOK s.rejoin fs (updateClockPieces ord s clk win).1 (updateClock ord s clk).2 (updateClock ord s clk).1
      (updateClockPieces ord s clk win).2 := by
  by_cases hcond : lastSeenOf clk > s.lastClock
  · rw [updateClock_pos ord s clk hcond]
    unfold updateClockPieces
    rw [if_pos hcond]
    exact clock_append_step ord hord s fs win (lastSeenOf clk) hci (lastSeenOf_lt clk)
  · rw [updateClock_neg ord s clk hcond]
    unfold updateClockPieces
    rw [if_neg hcond]
    exact StepOK.nil hci rfl

theorem join_step (ord : Order) (hord : PermOrder ord) (ms : List (Name × Addr)) :
    ∀ (s : Snap) (fs : FS) (win : List RecState), CI s fs win → (∀ p ∈ ms, WFName p.1 ∧ WFAddr p.2) →
      StepOK s.rejoin fs (joinPieces ord s ms win).1 (joinMembers ord s ms).2 (joinMembers ord s ms).1 (joinPieces ord s ms win).2 := by
  induction ms with
  | nil => intro s fs win h _; exact StepOK.nil h rfl
  | cons p ms ih =>
    intro s fs win hci hw
    obtain ⟨n, a⟩ := p
    have hpw := hw (n, a) List.mem_cons_self
    obtain ⟨w1, w2, w3, w4, w5⟩ := WFRec_parts s (Inv_wf hci.1)
    have hp := setAlive_proj s (ainsert s.alive n a)
    rw [hci.2.1] at hp
    have h1 := (append_step ord hord s (setAlive s (ainsert s.alive n a)) fs win (.alive n a)
      (ainsert s.alive n a) s.lastClock s.lastEventClock s.lastQueryClock hci hp
      (akeys_ainsert_nodup _ _ _ w1)
      (fun q hq => by
        rcases mem_ainsert hq with rfl | hq
        · exact hpw
        · exact w2 q hq) w3 w4 w5 hpw
      (fun r hr => by exact MapEq.ainsert hr n a)
      (fun r hj hc => by exact hc (Or.inl hci.2.1))).1
    have h2 := ih _ _ _ h1.ci (fun q hq => hw q (List.mem_cons_of_mem _ hq))
    rw [h1.rejoin] at h2
    rw [joinMembers_cons]
    simp only [joinPieces]
    exact StepOK.append h1 h2

theorem gone_step (ord : Order) (hord : PermOrder ord) (ns : List Name) :
    ∀ (s : Snap) (fs : FS) (win : List RecState), CI s fs win → (∀ n ∈ ns, WFName n) →
      StepOK s.rejoin fs (gonePieces ord s ns win).1 (goneMembers ord s ns).2 (goneMembers ord s ns).1 (gonePieces ord s ns win).2 := by
  induction ns with
  | nil => intro s fs win h _; exact StepOK.nil h rfl
  | cons n ns ih =>
    intro s fs win hci hw
    have hpw := hw n List.mem_cons_self
    obtain ⟨w1, w2, w3, w4, w5⟩ := WFRec_parts s (Inv_wf hci.1)
    have hp := setAlive_proj s (aerase s.alive n)
    rw [hci.2.1] at hp
    have h1 := (append_step ord hord s (setAlive s (aerase s.alive n)) fs win (.notAlive n)
      (aerase s.alive n) s.lastClock s.lastEventClock s.lastQueryClock hci hp
      (akeys_aerase_nodup _ _ w1) (fun q hq => w2 q (mem_aerase hq)) w3 w4 w5 hpw
      (fun r hr => by exact MapEq.aerase hr n)
      (fun r hj hc => by exact hc (Or.inl hci.2.1))).1
    have h2 := ih _ _ _ h1.ci (fun q hq => hw q (List.mem_cons_of_mem _ hq))
    rw [h1.rejoin] at h2
    rw [goneMembers_cons]
    simp only [gonePieces]
    exact StepOK.append h1 h2

theorem CI_of_same {s s' : Snap} {fs : FS} {win : List RecState} (h : CI s fs win)
    (e1 : s'.mem = s.mem) (e2 : s'.rejoin = s.rejoin) (e3 : s'.leaving = s.leaving) (e4 : s'.buf = s.buf) : CI s' fs win := by
  unfold CI Inv Judged at h ⊢
  rw [e1, e2, e3, e4]
  exact h

theorem single_piece {rj : Bool} {fs : FS} {ops : List FsOp} {win win' : List RecState} {s' : Snap}
    (hsafe : ∀ k cut, Rec rj win (recoverFile (FS.crashAt fs ops k cut)))
    (hci : CI s' (fs.applyAll ops) win') (hr : s'.rejoin = rj) :
    StepOK rj fs [⟨ops, win⟩] ops s' win' :=
  ⟨by simp [opsOf], ⟨hsafe, trivial⟩, hci, hr⟩

theorem step_step (ord : Order) (hord : PermOrder ord) (s : Snap) (fs : FS) (win : List RecState) (ev : Ev)
    (hev : WFEv ev) (hne : ev ≠ .leave) (hci : CI s fs win) :
    StepOK s.rejoin fs (stepPieces ord s win ev).1 (step ord s ev).2 (step ord s ev).1 (stepPieces ord s win ev).2 := by
  have hl := hci.2.1
  have hnl : ¬ s.leaving = true := by rw [hl]; simp
  obtain ⟨w1, w2, w3, w4, w5⟩ := WFRec_parts s (Inv_wf hci.1)
  cases ev with
  | join ms clk =>
    obtain ⟨e1, e2⟩ := step_join_neg ord s ms clk hnl
    have h1 := join_step ord hord ms s fs win hci hev
    have h2 := updateClock_step ord hord _ _ _ clk h1.ci
    rw [h1.rejoin] at h2
    simp only [stepPieces]
    rw [e1, e2, seqPieces_fst, seqPieces_snd]
    exact StepOK.append h1 h2
  | gone ns clk =>
    obtain ⟨e1, e2⟩ := step_gone_neg ord s ns clk hnl
    have h1 := gone_step ord hord ns s fs win hci hev
    have h2 := updateClock_step ord hord _ _ _ clk h1.ci
    rw [h1.rejoin] at h2
    simp only [stepPieces]
    rw [e1, e2, seqPieces_fst, seqPieces_snd]
    exact StepOK.append h1 h2
  | memberOther clk =>
    rw [step_memberOther, if_neg hnl]
    simp only [stepPieces]
    exact updateClock_step ord hord s fs win clk hci
  | user lt =>
    rw [step_user, if_neg hnl]
    simp only [stepPieces]
    by_cases hle : lt ≤ s.lastEventClock
    · rw [if_pos hle, if_pos hle]
      exact StepOK.nil hci rfl
    · rw [if_neg hle, if_neg hle]
      have hp := setEventClock_proj s lt
      rw [hl] at hp
      exact (append_step ord hord s (setEventClock s lt) fs win (.eventClock lt) s.alive s.lastClock lt s.lastQueryClock hci hp
        w1 w2 w3 hev w5 hev
        (fun r hr => by exact hr)
        (fun r hj hc => by have := hc (Or.inl hl); exact ⟨this.1, rfl, this.2.2⟩)).1
  | query lt =>
    rw [step_query, if_neg hnl]
    simp only [stepPieces]
    by_cases hle : lt ≤ s.lastQueryClock
    · rw [if_pos hle, if_pos hle]
      exact StepOK.nil hci rfl
    · rw [if_neg hle, if_neg hle]
      have hp := setQueryClock_proj s lt
      rw [hl] at hp
      exact (append_step ord hord s (setQueryClock s lt) fs win (.queryClock lt) s.alive s.lastClock s.lastEventClock lt hci hp
        w1 w2 w3 w4 hev hev
        (fun r hr => by exact hr)
        (fun r hj hc => by have := hc (Or.inl hl); exact ⟨this.1, this.2.1, rfl⟩)).1
  | clockTick clk =>
    rw [step_clockTick]
    simp only [stepPieces]
    exact updateClock_step ord hord s fs win clk hci
  | leave => exact absurd rfl hne
  | timePasses =>
    obtain ⟨e1, e2, e3, e4, e5⟩ := step_timePasses_fst_mem ord s
    simp only [stepPieces]
    rw [e1]
    exact ⟨rfl, trivial, CI_of_same hci e2 e3 e4 e5, e3⟩
  | forceCompact =>
    rw [step_forceCompact]
    simp only [stepPieces]
    have := compact_piece ord hord s fs win hci
    exact single_piece this.1 this.2 rfl

theorem run_step (ord : Order) (hord : PermOrder ord) (evs : List Ev) :
    ∀ (s : Snap) (fs : FS) (win : List RecState), (∀ e ∈ evs, WFEv e) → Ev.leave ∉ evs → CI s fs win →
      StepOK s.rejoin fs (runPieces ord s evs win).1 (run ord s evs).2 (run ord s evs).1 (runPieces ord s evs win).2 := by
  induction evs with
  | nil => intro s fs win _ _ h; rw [run_nil]; exact StepOK.nil h rfl
  | cons e es ih =>
    intro s fs win hw hn hci
    simp only [List.mem_cons, not_or] at hn
    have h1 := step_step ord hord s fs win e (hw e List.mem_cons_self) (fun x => hn.1 x.symm) hci
    have h2 := ih _ _ _ (fun x hx => hw x (List.mem_cons_of_mem _ hx)) hn.2 h1.ci
    rw [h1.rejoin] at h2
    rw [run_cons]
    simp only [runPieces]
    exact StepOK.append h1 h2

theorem shutdown_step_aux (rj : Bool) (fs : FS) (q : List Piece × List RecState) (r : Snap × List FsOp)
    (h1 : StepOK rj fs q.1 r.2 r.1 q.2) :
    opsOf (q.1 ++ [⟨flushOps .main r.1.buf ++ [.sync .main, .close .main], q.2⟩]) =
        r.2 ++ (flushOps .main r.1.buf ++ [.sync .main, .close .main]) ∧
      PiecesSafe rj fs (q.1 ++ [⟨flushOps .main r.1.buf ++ [.sync .main, .close .main], q.2⟩]) := by
  have hf := flush_piece _ _ _ h1.ci [.sync .main, .close .main]
    (by intro o ho; simp at ho; rcases ho with rfl | rfl <;> exact ⟨rfl, rfl⟩) (fun g => rfl)
  rw [h1.rejoin] at hf
  rw [opsOf_append, PiecesSafe_append, h1.ops_eq]
  exact ⟨by simp [opsOf], h1.safe, hf.1, trivial⟩

theorem shutdown_step (ord : Order) (hord : PermOrder ord) (s : Snap) (fs : FS) (win : List RecState) (clk : Nat)
    (hci : CI s fs win) :
    opsOf (shutdownPieces ord s clk win) = (shutdown ord s clk).2 ∧ PiecesSafe s.rejoin fs (shutdownPieces ord s clk win) := by
  have h1 := updateClock_step ord hord s fs win clk hci
  have := shutdown_step_aux s.rejoin fs (updateClockPieces ord s clk win) (updateClock ord s clk) h1
  rw [shutdown_snd]
  exact this

theorem init_piece_safe (rj : Bool) (mc : Nat) :
    ∀ k cut, Rec rj [(Snap.init rj mc).1.mem] (recoverFile (FS.crashAt {} (Snap.init rj mc).2 k cut)) := by
  intro k cut
  have h0 : (Snap.init rj mc).2 = [.openAppend .main] := rfl
  have hfile : recoverFile (FS.crashAt {} [.openAppend .main] k cut) = [] := by
    cases k with
    | zero => simp [FS.crashAt, FS.applyAll, recoverFile]
    | succ k => simp [FS.crashAt, FS.applyAll, FS.apply, FS.get, FS.set, recoverFile]
  rw [h0, hfile]
  exact ⟨(Snap.init rj mc).1.mem, by simp, ⟨fun _ => rfl, rfl, rfl, rfl⟩⟩

/-- **Whole lives**: the pieces of a life are exactly its operation list, and every crash point
of every piece recovers a state of that piece's window. -/
theorem life_pieces_safe (ord : Order) (hord : PermOrder ord) (rj : Bool) (mc : Nat) (evs : List Ev) (clk : Nat)
    (hwf : ∀ e ∈ evs, WFEv e) (hnl : Ev.leave ∉ evs) :
    opsOf (lifePieces ord rj mc evs clk) = (life ord rj mc {} evs clk).2 ∧
    PiecesSafe rj {} (lifePieces ord rj mc evs clk) := by
  have hr := run_step ord hord evs (Snap.init rj mc).1 _ _ hwf hnl (CI_init rj mc)
  rw [init_rejoin] at hr
  have hs := shutdown_step ord hord _ _ _ clk hr.ci
  rw [hr.rejoin] at hs
  unfold lifePieces
  constructor
  · rw [opsOf_cons, opsOf_append, hr.ops_eq, hs.1, life_fresh_snd, List.append_assoc]
  · refine ⟨init_piece_safe rj mc, ?_⟩
    rw [PiecesSafe_append, hr.ops_eq]
    exact ⟨hr.safe, hs.2⟩

/-! ### reading `PiecesSafe` by position -/

theorem crashAt_of_length_le (fs : FS) (ops : List FsOp) (k cut : Nat) (h : ops.length ≤ k) :
    FS.crashAt fs ops k cut = fs.applyAll ops := by
  unfold FS.crashAt
  rw [List.take_of_length_le h, List.getElem?_eq_none h]

theorem PiecesSafe_get (rj : Bool) (ps : List Piece) : ∀ (fs : FS), PiecesSafe rj fs ps →
    ∀ (i : Nat) (hi : i < ps.length) (k cut : Nat),
      Rec rj ps[i].win (recoverFile (FS.crashAt (fs.applyAll (opsOf (ps.take i))) ps[i].ops k cut)) := by
  induction ps with
  | nil => intro fs _ i hi; simp at hi
  | cons p t ih =>
    intro fs h i hi k cut
    cases i with
    | zero => simpa [opsOf, FS.applyAll] using h.1 k cut
    | succ i =>
      have := ih _ h.2 i (by simpa using hi) k cut
      simpa [opsOf_cons, applyAll_append] using this

/-- every crash point of the flat operation list falls into some piece -/
theorem PiecesSafe_flat (rj : Bool) (ps : List Piece) : ∀ (fs : FS), PiecesSafe rj fs ps → ps ≠ [] →
    ∀ (k cut : Nat), ∃ p ∈ ps, Rec rj p.win (recoverFile (FS.crashAt fs (opsOf ps) k cut)) := by
  induction ps with
  | nil => intro fs _ hne; exact absurd rfl hne
  | cons p t ih =>
    intro fs h _ k cut
    rw [opsOf_cons]
    by_cases hk : k < p.ops.length
    · rw [crashAt_append_lt _ _ _ _ _ hk]
      exact ⟨p, List.mem_cons_self, h.1 k cut⟩
    · rw [crashAt_append_ge _ _ _ _ _ (by omega)]
      by_cases ht : t = []
      · subst ht
        rw [opsOf_nil, crashAt_nil]
        have := h.1 p.ops.length cut
        rw [crashAt_of_length_le _ _ _ _ (Nat.le_refl _)] at this
        exact ⟨p, List.mem_cons_self, this⟩
      · obtain ⟨q, hq, hr⟩ := ih _ h.2 ht (k - p.ops.length) cut
        exact ⟨q, List.mem_cons_of_mem _ hq, hr⟩

end SerfProofs.Snapshot
