/-
An abstract rounding model for the distance estimate (C21): exact rational arithmetic followed by a rounding
function `fl : Rat → Rat` on every finite result.  `Rnd fl` is a `FloatLike` instance, so the SAME model code
(`distSeconds`, `distanceNs`, … of Model/Coord.lean) runs under it.  The only facts assumed about `fl` are the
standard model of floating-point arithmetic
    |fl x - x| ≤ u·|x|            (relative rounding error at most u, for doubles u = 2^-53)
    fl (-x) = -fl x               (rounding is odd: negation is exact)
and fl(10^9) = 10^9 (the constant is representable).

Contents: (1) pure `Rat` lemmas: a rounded sum of five terms is within 32·u·K of the exact sum when every term is
bounded by K (and u ≤ 1/8); truncations of two non-negative values less than 1 apart differ by at most 1.
(2) `Rnd fl` as a `FloatLike` instance satisfying `CommLaws` (so `C21_symm` applies to every rounding model).
(3) the CURRENT shape of DistanceTo, `m + (ha + hb)` then `+ (ja + jb)`: within 1 ns of the exact formula away from
the guard's threshold.  (4) the FORMER shape `((m + ha) + hb + ja) + jb` (before the repair 4a3f085): the two
directions are within 1 ns of each other away from the threshold, and NOT at the threshold (`fl0`).
-/
import SerfModel.Model.ERat
import SerfModel.Model.Coord
import SerfProofs.Lemmas.FloatLaws
namespace SerfModel.Rounding

/-! ### absolute values without a library -/

theorem abs_le_iff (a b : Rat) : a.abs ≤ b ↔ -b ≤ a ∧ a ≤ b := by
  by_cases h : 0 ≤ a
  · rw [Rat.abs_of_nonneg h]; constructor
    · intro hb; constructor <;> grind
    · intro hb; exact hb.2
  · have h' : a ≤ 0 := by grind
    rw [Rat.abs_of_nonpos h']; constructor
    · intro hb; constructor <;> grind
    · intro hb; grind

theorem abs_le_of_bounds {x B : Rat} (h1 : -B ≤ x) (h2 : x ≤ B) : x.abs ≤ B := (abs_le_iff x B).2 ⟨h1, h2⟩

/-- the standard model of rounding -/
structure RoundingLaw (fl : Rat → Rat) (u : Rat) : Prop where
  u_nonneg : 0 ≤ u
  rel : ∀ x, (fl x - x).abs ≤ u * x.abs
  odd : ∀ x, fl (-x) = -fl x

variable {fl : Rat → Rat} {u : Rat}

/-- absolute form of the relative law on a bounded range -/
theorem fl_close (h : RoundingLaw fl u) {x B : Rat} (h1 : -B ≤ x) (h2 : x ≤ B) :
    x - u * B ≤ fl x ∧ fl x ≤ x + u * B := by
  have ha : x.abs ≤ B := abs_le_of_bounds h1 h2
  have hm : u * x.abs ≤ u * B := Rat.mul_le_mul_of_nonneg_left ha h.u_nonneg
  have hr := Rat.le_trans (h.rel x) hm
  have := (abs_le_iff _ _).1 hr
  constructor <;> grind

theorem fl_zero (h : RoundingLaw fl u) : fl 0 = 0 := by
  have := fl_close h (x := 0) (B := 0) (by grind) (by grind)
  grind

/-- rounding keeps the sign when u ≤ 1 -/
theorem fl_nonneg (h : RoundingLaw fl u) (hu : u ≤ 1) {x : Rat} (hx : 0 ≤ x) : 0 ≤ fl x := by
  have hc := fl_close h (x := x) (B := x) (by grind) (by grind)
  have : u * x ≤ 1 * x := Rat.mul_le_mul_of_nonneg_right hu hx
  grind

/-! ### the five-term sum -/

/-- `fl(fl(fl(fl(m+p)+q)+r)+s)`: the adjusted distance as DistanceTo associates it -/
def sum5 (fl : Rat → Rat) (m p q r s : Rat) : Rat := fl (fl (fl (fl (m + p) + q) + r) + s)

/-- `fl(fl(m+p)+q)`: rawDistanceTo -/
def sum3 (fl : Rat → Rat) (m p q : Rat) : Rat := fl (fl (m + p) + q)

theorem sum3_close (h : RoundingLaw fl u) (hu : 8 * u ≤ 1) {K m p q : Rat} (hK : 0 ≤ K)
    (hm : -K ≤ m ∧ m ≤ K) (hp : -K ≤ p ∧ p ≤ K) (hq : -K ≤ q ∧ q ≤ K) :
    (m + p + q) - 2 * (u * (8 * K)) ≤ sum3 fl m p q ∧ sum3 fl m p q ≤ (m + p + q) + 2 * (u * (8 * K)) := by
  have he : u * (8 * K) ≤ K := by
    have := Rat.mul_le_mul_of_nonneg_right hu hK
    grind
  have he0 : 0 ≤ u * (8 * K) := Rat.mul_nonneg h.u_nonneg (by grind)
  have c1 := fl_close h (x := m + p) (B := 8 * K) (by grind) (by grind)
  have c2 := fl_close h (x := fl (m + p) + q) (B := 8 * K) (by grind) (by grind)
  unfold sum3
  constructor <;> grind

theorem sum5_close (h : RoundingLaw fl u) (hu : 8 * u ≤ 1) {K m p q r s : Rat} (hK : 0 ≤ K)
    (hm : -K ≤ m ∧ m ≤ K) (hp : -K ≤ p ∧ p ≤ K) (hq : -K ≤ q ∧ q ≤ K) (hr : -K ≤ r ∧ r ≤ K)
    (hs : -K ≤ s ∧ s ≤ K) :
    (m + p + q + r + s) - 4 * (u * (8 * K)) ≤ sum5 fl m p q r s ∧
      sum5 fl m p q r s ≤ (m + p + q + r + s) + 4 * (u * (8 * K)) := by
  have he : u * (8 * K) ≤ K := by
    have := Rat.mul_le_mul_of_nonneg_right hu hK
    grind
  have he0 : 0 ≤ u * (8 * K) := Rat.mul_nonneg h.u_nonneg (by grind)
  have c1 := fl_close h (x := m + p) (B := 8 * K) (by grind) (by grind)
  have c2 := fl_close h (x := fl (m + p) + q) (B := 8 * K) (by grind) (by grind)
  have c3 := fl_close h (x := fl (fl (m + p) + q) + r) (B := 8 * K) (by grind) (by grind)
  have c4 := fl_close h (x := fl (fl (fl (m + p) + q) + r) + s) (B := 8 * K) (by grind) (by grind)
  unfold sum5
  constructor <;> grind

/-! ### truncation -/

theorem floor_close {x y : Rat} (h1 : x ≤ y) (h2 : y < x + 1) : x.floor ≤ y.floor ∧ y.floor ≤ x.floor + 1 := by
  constructor
  · exact Rat.floor_monotone h1
  · have := Rat.floor_monotone (Rat.le_of_lt h2)
    rwa [Rat.floor_add_one] at this

theorem floor_close_abs {x y : Rat} (h1 : x - y < 1) (h2 : y - x < 1) :
    x.floor - y.floor ≤ 1 ∧ y.floor - x.floor ≤ 1 := by
  rcases Rat.le_total (a := x) (b := y) with h | h
  · have := floor_close h (by grind)
    omega
  · have := floor_close h (by grind)
    omega

theorem trunc_eq_floor {q : Rat} (hq : 0 ≤ q) : q.num.tdiv q.den = q.floor := by
  have hn : 0 ≤ q.num := Rat.num_nonneg.2 hq
  rw [Rat.floor_def, Int.tdiv_eq_ediv_of_nonneg hn]

/-! ### the rounded arithmetic as a `FloatLike` instance -/

/-- values of the rounded arithmetic: extended rationals (the wrapper carries the rounding function in its type) -/
structure Rnd (fl : Rat → Rat) where
  v : ERat
  deriving DecidableEq

/-- round a finite value, keep nan / ±inf -/
def rd (fl : Rat → Rat) : ERat → ERat
  | .fin q => .fin (fl q)
  | x => x

instance instFloatLikeRnd (fl : Rat → Rat) : FloatLike (Rnd fl) where
  add x y := ⟨rd fl (ERat.add x.v y.v)⟩
  sub x y := ⟨rd fl (ERat.sub x.v y.v)⟩
  mul x y := ⟨rd fl (ERat.mul x.v y.v)⟩
  div x y := ⟨rd fl (ERat.div x.v y.v)⟩
  sqrt x := ⟨rd fl (ERat.sqrt x.v)⟩
  abs x := ⟨ERat.abs x.v⟩
  max x y := ⟨ERat.max x.v y.v⟩
  lt x y := ERat.lt x.v y.v
  le x y := ERat.le x.v y.v
  isNaN x := ERat.isNaN x.v
  isInf x := ERat.isInf x.v
  ofInt n := ⟨.fin (fl n)⟩
  toInt64 x := ERat.toInt64 x.v

/-- a finite value of the rounded arithmetic -/
def R (fl : Rat → Rat) (q : Rat) : Rnd fl := ⟨.fin q⟩

open SerfModel.Coord FloatLike

theorem add_R (a b : Rat) : FloatLike.add (R fl a) (R fl b) = R fl (fl (a + b)) := rfl

theorem gt_R (a b : Rat) : FloatLike.gt (R fl a) (R fl b) = decide (b < a) := rfl

theorem zero_R (h : RoundingLaw fl u) : (FloatLike.zero : Rnd fl) = R fl 0 := by
  show (⟨.fin (fl ((0 : Int) : Rat))⟩ : Rnd fl) = ⟨.fin 0⟩
  rw [Rat.intCast_zero, fl_zero h]

theorem mul_R (a b : Rat) : FloatLike.mul (R fl a) (R fl b) = R fl (fl (a * b)) := rfl

/-- `Rnd fl` has a commutative `+` and an exact negation whenever the rounding function is odd. -/
theorem commLaws_of_odd (hodd : ∀ x, fl (-x) = -fl x) : CommLaws (Rnd fl) where
  add_comm x y := by
    obtain ⟨x⟩ := x; obtain ⟨y⟩ := y
    show (⟨rd fl (ERat.add x y)⟩ : Rnd fl) = ⟨rd fl (ERat.add y x)⟩
    have : ERat.add x y = ERat.add y x := by cases x <;> cases y <;> simp [ERat.add, Rat.add_comm]
    rw [this]
  sub_sq_comm x y := by
    obtain ⟨x⟩ := x; obtain ⟨y⟩ := y
    show (⟨rd fl (ERat.mul (rd fl (ERat.sub x y)) (rd fl (ERat.sub x y)))⟩ : Rnd fl) =
      ⟨rd fl (ERat.mul (rd fl (ERat.sub y x)) (rd fl (ERat.sub y x)))⟩
    congr 2
    cases x <;> cases y <;> simp [ERat.sub, ERat.neg, ERat.add, ERat.mul, ERat.esgn, ERat.ofSign, rd]
    rename_i p q
    have e : q + -p = -(p + -q) := by grind
    rw [e, hodd, Rat.neg_mul, Rat.mul_neg, Rat.neg_neg]

/-! ### the former shape of DistanceTo: `((m + ha) + hb + ja) + jb` -/

/-- the seconds value as DistanceTo computed it before the repair 4a3f085 -/
def distROld (fl : Rat → Rat) (m ha hb ja jb : Rat) : Rat :=
  if 0 < sum5 fl m ha hb ja jb then sum5 fl m ha hb ja jb else sum3 fl m ha hb

/-- its nanosecond conversion `int64(fl(x · fl(10^9)))` -/
def nsOf (fl : Rat → Rat) (x : Rat) : Int := ERat.toInt64 (.fin (fl (x * fl 1000000000)))

/-- realistic magnitudes: the Euclidean part and the heights lie in [0, K], the adjustments in [-K, K] -/
structure Magnitudes (K m ha hb ja jb : Rat) : Prop where
  m : 0 ≤ m ∧ m ≤ K
  ha : 0 ≤ ha ∧ ha ≤ K
  hb : 0 ≤ hb ∧ hb ≤ K
  ja : -K ≤ ja ∧ ja ≤ K
  jb : -K ≤ jb ∧ jb ≤ K

/-- the exact adjusted distance stays clear of the guard's threshold 0 by more than the accumulated rounding
error 32·u·K, so both directions take the same branch of `if adjustedDist > 0.0` -/
def Margin (u K m ha hb ja jb : Rat) : Prop :=
  4 * (u * (8 * K)) < m + ha + hb + ja + jb ∨ m + ha + hb + ja + jb < -(4 * (u * (8 * K)))

/-- The two directions of the seconds value: equal up to 64·u·K, both in [0, 9K]. -/
theorem distROld_close (h : RoundingLaw fl u) (hu : 8 * u ≤ 1) {K m ha hb ja jb : Rat} (hK : 0 ≤ K)
    (hmag : Magnitudes K m ha hb ja jb) (hmar : Margin u K m ha hb ja jb) :
    (distROld fl m ha hb ja jb - distROld fl m hb ha jb ja ≤ 8 * (u * (8 * K)) ∧
     distROld fl m hb ha jb ja - distROld fl m ha hb ja jb ≤ 8 * (u * (8 * K))) ∧
    (0 ≤ distROld fl m ha hb ja jb ∧ distROld fl m ha hb ja jb ≤ 9 * K) ∧
    (0 ≤ distROld fl m hb ha jb ja ∧ distROld fl m hb ha jb ja ≤ 9 * K) := by
  obtain ⟨hm, hha, hhb, hja, hjb⟩ := hmag
  have he : u * (8 * K) ≤ K := by
    have := Rat.mul_le_mul_of_nonneg_right hu hK
    grind
  have he0 : 0 ≤ u * (8 * K) := Rat.mul_nonneg h.u_nonneg (by grind)
  have a5 := sum5_close h hu hK (m := m) (p := ha) (q := hb) (r := ja) (s := jb)
    (by grind) (by grind) (by grind) hja hjb
  have b5 := sum5_close h hu hK (m := m) (p := hb) (q := ha) (r := jb) (s := ja)
    (by grind) (by grind) (by grind) hjb hja
  have a3 := sum3_close h hu hK (m := m) (p := ha) (q := hb) (by grind) (by grind) (by grind)
  have b3 := sum3_close h hu hK (m := m) (p := hb) (q := ha) (by grind) (by grind) (by grind)
  have hu1 : u ≤ 1 := by grind
  have a3n : 0 ≤ sum3 fl m ha hb := fl_nonneg h hu1 (Rat.add_nonneg (fl_nonneg h hu1 (Rat.add_nonneg hm.1 hha.1)) hhb.1)
  have b3n : 0 ≤ sum3 fl m hb ha := fl_nonneg h hu1 (Rat.add_nonneg (fl_nonneg h hu1 (Rat.add_nonneg hm.1 hhb.1)) hha.1)
  unfold distROld
  rcases hmar with hpos | hneg
  · have pa : 0 < sum5 fl m ha hb ja jb := by grind
    have pb : 0 < sum5 fl m hb ha jb ja := by grind
    rw [if_pos pa, if_pos pb]
    refine ⟨⟨?_, ?_⟩, ⟨?_, ?_⟩, ⟨?_, ?_⟩⟩ <;> grind
  · have pa : ¬ 0 < sum5 fl m ha hb ja jb := by grind
    have pb : ¬ 0 < sum5 fl m hb ha jb ja := by grind
    rw [if_neg pa, if_neg pb]
    refine ⟨⟨?_, ?_⟩, ⟨?_, ?_⟩, ⟨?_, ?_⟩⟩ <;> grind

/-- the nanosecond value `int64(fl(x · 10^9))` of a non-negative in-range `x` -/
theorem toInt64_fin_nonneg {q : Rat} (h0 : 0 ≤ q) (h1 : q < 9223372036854775807) :
    ERat.toInt64 (.fin q) = q.floor := by
  have hf : q.num.tdiv q.den = q.floor := trunc_eq_floor h0
  have hlo : 0 ≤ q.floor := Rat.le_floor_iff.2 (by simpa using h0)
  have hhi : q.floor < 9223372036854775807 := Rat.floor_lt_iff.2 (by simpa using h1)
  simp only [ERat.toInt64, hf]
  rw [if_neg (by omega)]

/-- **1 ns.** Two non-negative seconds values at most 64·u·K apart, scaled by 10^9, rounded and truncated, differ by
at most 1 when 100·u·K·10^9 ≤ 1. -/
theorem ns_close (h : RoundingLaw fl u) (hu : 8 * u ≤ 1) {K x y : Rat} (hK : 0 ≤ K) (hK8 : K ≤ 100000000)
    (hsmall : 100 * (u * K * 1000000000) ≤ 1)
    (hxy : x - y ≤ 8 * (u * (8 * K)) ∧ y - x ≤ 8 * (u * (8 * K)))
    (hx : 0 ≤ x ∧ x ≤ 9 * K) (hy : 0 ≤ y ∧ y ≤ 9 * K) :
    ERat.toInt64 (.fin (fl (x * 1000000000))) - ERat.toInt64 (.fin (fl (y * 1000000000))) ≤ 1 ∧
    ERat.toInt64 (.fin (fl (y * 1000000000))) - ERat.toInt64 (.fin (fl (x * 1000000000))) ≤ 1 := by
  have hu1 : u ≤ 1 := by grind
  have huK : 0 ≤ u * K := Rat.mul_nonneg h.u_nonneg hK
  have huK2 : u * K ≤ 1 * K := Rat.mul_le_mul_of_nonneg_right hu1 hK
  have cx := fl_close h (x := x * 1000000000) (B := 9 * K * 1000000000) (by grind) (by grind)
  have cy := fl_close h (x := y * 1000000000) (B := 9 * K * 1000000000) (by grind) (by grind)
  have nx : 0 ≤ fl (x * 1000000000) := fl_nonneg h hu1 (by grind)
  have ny : 0 ≤ fl (y * 1000000000) := fl_nonneg h hu1 (by grind)
  have bx : fl (x * 1000000000) < 9223372036854775807 := by grind
  have bY : fl (y * 1000000000) < 9223372036854775807 := by grind
  rw [toInt64_fin_nonneg nx bx, toInt64_fin_nonneg ny bY]
  exact floor_close_abs (by grind) (by grind)


/-! ### the current shape of DistanceTo: `m + (ha + hb)`, then `+ (ja + jb)` -/

/-- the seconds value as DistanceTo computes it now -/
def distRNew (fl : Rat → Rat) (m ha hb ja jb : Rat) : Rat :=
  if 0 < fl (fl (m + fl (ha + hb)) + fl (ja + jb)) then fl (fl (m + fl (ha + hb)) + fl (ja + jb))
  else fl (m + fl (ha + hb))

/-- the documented formula in exact arithmetic, over the computed Euclidean part `m` -/
def exactFormula (m ha hb ja jb : Rat) : Rat :=
  if 0 < m + ha + hb + ja + jb then m + ha + hb + ja + jb else m + ha + hb

/-- The model's `distSeconds` under the rounded arithmetic, when the Euclidean part is the finite value `m` and
heights and adjustments are finite: it is `distRNew`. -/
theorem distSeconds_R (h : RoundingLaw fl u) (a b : Coordinate (Rnd fl)) (m ha hb ja jb : Rat)
    (hm : magnitude (diffv a.vec b.vec) = R fl m)
    (hha : a.height = R fl ha) (hhb : b.height = R fl hb)
    (hja : a.adjustment = R fl ja) (hjb : b.adjustment = R fl jb) :
    distSeconds a b = R fl (distRNew fl m ha hb ja jb) := by
  unfold distRNew
  by_cases hc : 0 < fl (fl (m + fl (ha + hb)) + fl (ja + jb))
  · rw [if_pos hc]
    simp only [distSeconds, rawDistanceTo, hm, hha, hhb, hja, hjb, add_R, zero_R h, gt_R]
    exact if_pos (decide_eq_true hc)
  · rw [if_neg hc]
    simp only [distSeconds, rawDistanceTo, hm, hha, hhb, hja, hjb, add_R, zero_R h, gt_R]
    exact if_neg (by simpa using hc)

/-- The seconds value is within 32·u·K of the exact formula (same branch), and in [0, 9K]. -/
theorem distRNew_close (h : RoundingLaw fl u) (hu : 8 * u ≤ 1) {K m ha hb ja jb : Rat} (hK : 0 ≤ K)
    (hmag : Magnitudes K m ha hb ja jb) (hmar : Margin u K m ha hb ja jb) :
    (distRNew fl m ha hb ja jb - exactFormula m ha hb ja jb ≤ 4 * (u * (8 * K)) ∧
     exactFormula m ha hb ja jb - distRNew fl m ha hb ja jb ≤ 4 * (u * (8 * K))) ∧
    (0 ≤ distRNew fl m ha hb ja jb ∧ distRNew fl m ha hb ja jb ≤ 9 * K) ∧
    (0 ≤ exactFormula m ha hb ja jb ∧ exactFormula m ha hb ja jb ≤ 9 * K) := by
  obtain ⟨hm, hha, hhb, hja, hjb⟩ := hmag
  have he : u * (8 * K) ≤ K := by
    have := Rat.mul_le_mul_of_nonneg_right hu hK
    grind
  have he0 : 0 ≤ u * (8 * K) := Rat.mul_nonneg h.u_nonneg (by grind)
  have c1 := fl_close h (x := ha + hb) (B := 8 * K) (by grind) (by grind)
  have c2 := fl_close h (x := m + fl (ha + hb)) (B := 8 * K) (by grind) (by grind)
  have c3 := fl_close h (x := ja + jb) (B := 8 * K) (by grind) (by grind)
  have c4 := fl_close h (x := fl (m + fl (ha + hb)) + fl (ja + jb)) (B := 8 * K) (by grind) (by grind)
  have hu1 : u ≤ 1 := by grind
  have rn : 0 ≤ fl (m + fl (ha + hb)) :=
    fl_nonneg h hu1 (Rat.add_nonneg hm.1 (fl_nonneg h hu1 (Rat.add_nonneg hha.1 hhb.1)))
  unfold distRNew exactFormula
  rcases hmar with hpos | hneg
  · have pa : 0 < fl (fl (m + fl (ha + hb)) + fl (ja + jb)) := by grind
    have pe : 0 < m + ha + hb + ja + jb := by grind
    rw [if_pos pa, if_pos pe]
    refine ⟨⟨?_, ?_⟩, ⟨?_, ?_⟩, ⟨?_, ?_⟩⟩ <;> grind
  · have pa : ¬ 0 < fl (fl (m + fl (ha + hb)) + fl (ja + jb)) := by grind
    have pe : ¬ 0 < m + ha + hb + ja + jb := by grind
    rw [if_neg pa, if_neg pe]
    refine ⟨⟨?_, ?_⟩, ⟨?_, ?_⟩, ⟨?_, ?_⟩⟩ <;> grind

/-- Without any margin: the seconds value lies in [0, 9K]. -/
theorem distRNew_range (h : RoundingLaw fl u) (hu : 8 * u ≤ 1) {K m ha hb ja jb : Rat} (hK : 0 ≤ K)
    (hmag : Magnitudes K m ha hb ja jb) :
    0 ≤ distRNew fl m ha hb ja jb ∧ distRNew fl m ha hb ja jb ≤ 9 * K := by
  obtain ⟨hm, hha, hhb, hja, hjb⟩ := hmag
  have he : u * (8 * K) ≤ K := by
    have := Rat.mul_le_mul_of_nonneg_right hu hK
    grind
  have he0 : 0 ≤ u * (8 * K) := Rat.mul_nonneg h.u_nonneg (by grind)
  have c1 := fl_close h (x := ha + hb) (B := 8 * K) (by grind) (by grind)
  have c2 := fl_close h (x := m + fl (ha + hb)) (B := 8 * K) (by grind) (by grind)
  have c3 := fl_close h (x := ja + jb) (B := 8 * K) (by grind) (by grind)
  have c4 := fl_close h (x := fl (m + fl (ha + hb)) + fl (ja + jb)) (B := 8 * K) (by grind) (by grind)
  have hu1 : u ≤ 1 := by grind
  have rn : 0 ≤ fl (m + fl (ha + hb)) :=
    fl_nonneg h hu1 (Rat.add_nonneg hm.1 (fl_nonneg h hu1 (Rat.add_nonneg hha.1 hhb.1)))
  unfold distRNew
  by_cases pa : 0 < fl (fl (m + fl (ha + hb)) + fl (ja + jb))
  · rw [if_pos pa]; constructor <;> grind
  · rw [if_neg pa]; constructor <;> grind

/-- the nanosecond value of a seconds value in [0, 9K], K ≤ 10^8: non-negative, no int64 overflow -/
theorem ns_nonneg (h : RoundingLaw fl u) (hu : 8 * u ≤ 1) {K x : Rat} (hK : 0 ≤ K) (hK8 : K ≤ 100000000)
    (hx : 0 ≤ x ∧ x ≤ 9 * K) : 0 ≤ ERat.toInt64 (.fin (fl (x * 1000000000))) := by
  have hu1 : u ≤ 1 := by grind
  have huK : 0 ≤ u * K := Rat.mul_nonneg h.u_nonneg hK
  have huK2 : u * K ≤ 1 * K := Rat.mul_le_mul_of_nonneg_right hu1 hK
  have cx := fl_close h (x := x * 1000000000) (B := 9 * K * 1000000000) (by grind) (by grind)
  have nx : 0 ≤ fl (x * 1000000000) := fl_nonneg h hu1 (by grind)
  have bx : fl (x * 1000000000) < 9223372036854775807 := by grind
  rw [toInt64_fin_nonneg nx bx]
  exact Rat.le_floor_iff.2 (by simpa using nx)

/-- **1 ns accuracy.** A non-negative seconds value within 32·u·K of an exact value: scaled by 10^9, rounded and
truncated it is within 1 of the truncated exact nanoseconds, when 100·u·K·10^9 ≤ 1. -/
theorem ns_accurate (h : RoundingLaw fl u) (hu : 8 * u ≤ 1) {K x y : Rat} (hK : 0 ≤ K) (hK8 : K ≤ 100000000)
    (hsmall : 100 * (u * K * 1000000000) ≤ 1)
    (hxy : x - y ≤ 4 * (u * (8 * K)) ∧ y - x ≤ 4 * (u * (8 * K)))
    (hx : 0 ≤ x ∧ x ≤ 9 * K) (hy : 0 ≤ y ∧ y ≤ 9 * K) :
    ERat.toInt64 (.fin (fl (x * 1000000000))) - (y * 1000000000).floor ≤ 1 ∧
    (y * 1000000000).floor - ERat.toInt64 (.fin (fl (x * 1000000000))) ≤ 1 := by
  have hu1 : u ≤ 1 := by grind
  have huK : 0 ≤ u * K := Rat.mul_nonneg h.u_nonneg hK
  have huK2 : u * K ≤ 1 * K := Rat.mul_le_mul_of_nonneg_right hu1 hK
  have cx := fl_close h (x := x * 1000000000) (B := 9 * K * 1000000000) (by grind) (by grind)
  have nx : 0 ≤ fl (x * 1000000000) := fl_nonneg h hu1 (by grind)
  have bx : fl (x * 1000000000) < 9223372036854775807 := by grind
  rw [toInt64_fin_nonneg nx bx]
  exact floor_close_abs (by grind) (by grind)

/-! ### a rounding function that separates the two directions of the FORMER shape -/

/-- identity except at ±3/2, which it moves outwards by 10^-20: relative error 6.7·10^-21 -/
def fl0 (x : Rat) : Rat :=
  if x = 3 / 2 then 3 / 2 + 1 / 100000000000000000000
  else if x = -(3 / 2) then -(3 / 2) - 1 / 100000000000000000000 else x

theorem fl0_law : RoundingLaw fl0 (1 / 10000000000000000) where
  u_nonneg := by decide +kernel
  rel x := by
    unfold fl0
    by_cases h1 : x = 3 / 2
    · subst h1; decide +kernel
    · by_cases h2 : x = -(3 / 2)
      · subst h2; decide +kernel
      · rw [if_neg h1, if_neg h2, Rat.sub_self, Rat.abs_zero]
        exact Rat.mul_nonneg (by decide +kernel) Rat.abs_nonneg
  odd x := by
    unfold fl0
    by_cases h1 : x = 3 / 2
    · subst h1; decide +kernel
    · by_cases h2 : x = -(3 / 2)
      · subst h2; decide +kernel
      · have h3 : ¬ -x = 3 / 2 := fun e => h2 (by grind)
        have h4 : ¬ -x = -(3 / 2) := fun e => h1 (by grind)
        rw [if_neg h1, if_neg h2, if_neg h3, if_neg h4]

end SerfModel.Rounding
