import SerfProofs.Lemmas.PipelineLast
/-!
Progress of the pipeline: from every state reachable without loss there is a loss-free
continuation that drains it (handlers send what is left, every stage — upstream first — takes
everything in its queue, then its quiescent timer fires).  Together with
`Inv` (PipelineLast) this makes the hypothesis "drained" of `C16_last_matches` attainable
from everywhere.
-/
namespace SerfProofs.Pipeline
open SerfModel SerfModel.MemberCoalesce SerfModel.UserCoalesce SerfModel.CoalesceLoop SerfModel.Pipeline
open SerfProofs.MemberCoalesce SerfProofs.CoalesceLoop

/-- A running stage whose timers are consistent with what it holds: a member coalescer that
holds an event has its quiescent timer armed (so the event will come out). -/
def Ready : Stage → Prop
  | .memberCo s => s.done = false ∧ (s.c.latest ≠ [] → s.quiescent = true)
  | .userCo s => s.done = false
  | _ => True

def AllReady (l : List (Stage × List PEv)) : Prop := ∀ sq ∈ l, Ready sq.1

theorem ready_step (st : Stage) (h : Ready st) (i : In PEv) (hi : isShutdown i = false) : Ready (st.step i).1 := by
  cases st with
  | tee => cases i <;> simp [Stage.step, Ready]
  | filter =>
    cases i with
    | ev e =>
      cases e with
      | member x => simp [Stage.step, Ready]
      | user u => simp [Stage.step, Ready]
      | query b id => cases b <;> simp [Stage.step, Ready]
    | quantum => simp [Stage.step, Ready]
    | quiescent => simp [Stage.step, Ready]
    | shutdown => simp [Stage.step, Ready]
  | userCo s =>
    simp only [Ready] at h
    simp only [Stage.step, Ready]
    rw [step_done]
    simp [h, hi]
  | memberCo s =>
    simp only [Ready] at h
    obtain ⟨hd, harm⟩ := h
    simp only [Stage.step, Ready]
    refine ⟨by rw [step_done]; simp [hd, hi], ?_⟩
    cases i with
    | ev e =>
      cases e with
      | member x => rw [step_handled _ _ hd _ rfl]; intro _; rfl
      | user u => rw [step_unhandled _ _ hd _ rfl]; exact harm
      | query b id => rw [step_unhandled _ _ hd _ rfl]; exact harm
    | quantum =>
      simp only [CoalesceLoop.step]
      split
      · exact harm
      · intro hne; exact absurd (by simp [flushNow, memberCoP, flush_latest]) hne
    | quiescent =>
      simp only [CoalesceLoop.step]
      split
      · exact harm
      · intro hne; exact absurd (by simp [flushNow, memberCoP, flush_latest]) hne
    | shutdown => simp [isShutdown] at hi

theorem ready_act (st : Stage) (q : List PEv) (h : Ready st) (a : Act) (ha : lossless a = true) :
    Ready (act st q a).1 := by
  cases a with
  | take =>
    cases q with
    | nil => simpa [act] using h
    | cons e q' => simp only [act]; exact ready_step st h (.ev e) rfl
  | drop => simp [lossless] at ha
  | quantum => simp only [act]; exact ready_step st h .quantum rfl
  | quiescent => simp only [act]; exact ready_step st h .quiescent rfl
  | shutdown => simp [lossless] at ha

theorem stepAt_ready (l : List (Stage × List PEv)) : ∀ (k : Nat) (a : Act), AllReady l → lossless a = true →
    AllReady (stepAt l k a).1 := by
  induction l with
  | nil => intro k a h _; simpa [stepAt] using h
  | cons sq rest ih =>
    intro k a h ha
    obtain ⟨st, q⟩ := sq
    have hst : Ready st := h (st, q) List.mem_cons_self
    have hrest : AllReady rest := fun x hx => h x (List.mem_cons_of_mem _ hx)
    cases k with
    | zero =>
      intro x hx
      simp only [stepAt] at hx
      rcases List.mem_cons.mp hx with rfl | hx
      · exact ready_act st q hst a ha
      · exact hrest x hx
    | succ k =>
      intro x hx
      simp only [stepAt] at hx
      rcases List.mem_cons.mp hx with rfl | hx
      · exact hst
      · exact ih k a hrest ha x hx

theorem pushLast_ready (l : List (Stage × List PEv)) (e : PEv) (h : AllReady l) : AllReady (pushLast l e) := by
  induction l with
  | nil => simpa [pushLast] using h
  | cons sq rest ih =>
    obtain ⟨st, q⟩ := sq
    cases rest with
    | nil =>
      intro x hx
      simp only [pushLast, List.mem_singleton] at hx
      subst hx
      exact h (st, q) List.mem_cons_self
    | cons sq2 rest2 =>
      intro x hx
      simp only [pushLast, List.mem_cons] at hx
      rcases hx with rfl | hx
      · exact h _ List.mem_cons_self
      · exact ih (fun y hy => h y (List.mem_cons_of_mem _ hy)) x (by simpa [pushLast] using hx)

theorem step_ready (s : Pipe) (h : AllReady s.stages) (x : Step) (hx : x.isLoss = false) : AllReady (s.step x).stages := by
  cases x with
  | emit =>
    simp only [Pipe.step]
    cases ht : s.todo with
    | nil => simpa using h
    | cons e t =>
      simp only
      by_cases hem : s.stages.isEmpty
      · simpa [hem] using h
      · simp only [hem, Bool.false_eq_true, ↓reduceIte]; exact pushLast_ready _ _ h
  | «at» k a =>
    have ha : lossless a = true := by cases a <;> simp_all [Step.isLoss, lossless]
    exact stepAt_ready s.stages k a h ha

theorem run_ready (sched : List Step) : ∀ (s : Pipe), AllReady s.stages → sched.all (fun x => !x.isLoss) = true →
    AllReady (sched.foldl Pipe.step s).stages := by
  induction sched with
  | nil => intro s h _; exact h
  | cons x xs ih =>
    intro s h hl
    simp only [List.all_cons, Bool.and_eq_true, Bool.not_eq_eq_eq_not, Bool.not_true] at hl
    exact ih (s.step x) (step_ready s h x hl.1) (by simpa using hl.2)

theorem stagesOf_ready (cfg : Cfg) : AllReady (stagesOf cfg) := by
  intro sq hsq
  simp only [stagesOf, List.mem_append] at hsq
  rcases hsq with ((h | h) | h) | h
  · split at h
    · simp only [List.mem_singleton] at h; subst h; simp [Ready, CoalesceLoop.init, memberCoP]
    · simp at h
  · split at h
    · simp only [List.mem_singleton] at h; subst h; simp [Ready, CoalesceLoop.init]
    · simp at h
  · simp only [List.mem_singleton] at h; subst h; trivial
  · split at h
    · simp only [List.mem_singleton] at h; subst h; trivial
    · simp at h

/-! ### Draining one stage -/

/-- a stage performs a list of actions; what it sent downstream is accumulated -/
def runActs (st : Stage) (q : List PEv) : List Act → Stage × List PEv × List PEv
  | [] => (st, q, [])
  | a :: as =>
    ((runActs (act st q a).1 (act st q a).2.1 as).1, (runActs (act st q a).1 (act st q a).2.1 as).2.1,
      (act st q a).2.2 ++ (runActs (act st q a).1 (act st q a).2.1 as).2.2)

theorem runActs_append (as bs : List Act) : ∀ (st : Stage) (q : List PEv),
    runActs st q (as ++ bs) =
      ((runActs (runActs st q as).1 (runActs st q as).2.1 bs).1,
       (runActs (runActs st q as).1 (runActs st q as).2.1 bs).2.1,
       (runActs st q as).2.2 ++ (runActs (runActs st q as).1 (runActs st q as).2.1 bs).2.2) := by
  induction as with
  | nil => intro st q; simp [runActs]
  | cons a as ih => intro st q; simp [runActs, ih, List.append_assoc]

theorem takes_empty (q : List PEv) : ∀ (st : Stage), Ready st →
    (runActs st q (List.replicate q.length Act.take)).2.1 = [] ∧
    Ready (runActs st q (List.replicate q.length Act.take)).1 := by
  induction q with
  | nil => intro st h; exact ⟨rfl, h⟩
  | cons e q' ih =>
    intro st h
    simp only [List.length_cons, List.replicate_succ, runActs, act]
    exact ih _ (ready_step st h (.ev e) rfl)

theorem quiescent_idle (st : Stage) (h : Ready st) :
    (act st [] .quiescent).2.1 = [] ∧ stageIdle ((act st [] .quiescent).1, []) = true := by
  refine ⟨rfl, ?_⟩
  cases st with
  | tee => simp [act, Stage.step, stageIdle]
  | filter => simp [act, Stage.step, stageIdle]
  | userCo s => simp [act, Stage.step, stageIdle]
  | memberCo s =>
    obtain ⟨hd, harm⟩ := h
    simp only [act, Stage.step, stageIdle, List.isEmpty_nil, Bool.true_and, CoalesceLoop.step]
    split
    · rename_i hc
      simp only [hd, Bool.false_or, Bool.not_eq_eq_eq_not, Bool.not_true] at hc
      by_cases hl : s.c.latest = []
      · simp [hl]
      · have := harm hl
        rw [this] at hc
        simp at hc
    · simp [flushNow, memberCoP, flush_latest]

def drainActs (q : List PEv) : List Act := List.replicate q.length Act.take ++ [Act.quiescent]

theorem drainActs_lossless (q : List PEv) : (drainActs q).all lossless = true := by
  simp [drainActs, lossless]

theorem drainActs_ok (st : Stage) (q : List PEv) (h : Ready st) :
    (runActs st q (drainActs q)).2.1 = [] ∧
    stageIdle ((runActs st q (drainActs q)).1, []) = true ∧ Ready (runActs st q (drainActs q)).1 := by
  obtain ⟨h1, h2⟩ := takes_empty q st h
  simp only [drainActs, runActs_append, runActs, h1]
  obtain ⟨e1, e2⟩ := quiescent_idle _ h2
  exact ⟨e1, e2, ready_act _ [] h2 .quiescent rfl⟩

/-! ### Draining the list of stages, upstream first -/

def runS (l : List (Stage × List PEv)) : List (Nat × Act) → List (Stage × List PEv) × List PEv
  | [] => (l, [])
  | ka :: rest =>
    ((runS (stepAt l ka.1 ka.2).1 rest).1, (stepAt l ka.1 ka.2).2 ++ (runS (stepAt l ka.1 ka.2).1 rest).2)

theorem runS_append (as bs : List (Nat × Act)) : ∀ (l : List (Stage × List PEv)),
    runS l (as ++ bs) = ((runS (runS l as).1 bs).1, (runS l as).2 ++ (runS (runS l as).1 bs).2) := by
  induction as with
  | nil => intro l; simp [runS]
  | cons a as ih => intro l; simp [runS, ih, List.append_assoc]

def lift (ka : Nat × Act) : Nat × Act := (ka.1 + 1, ka.2)

theorem runS_lift (sched : List (Nat × Act)) : ∀ (st : Stage) (q : List PEv) (rest : List (Stage × List PEv)),
    runS ((st, q) :: rest) (sched.map lift) = ((st, q ++ (runS rest sched).2) :: (runS rest sched).1, []) := by
  induction sched with
  | nil => intro st q rest; simp [runS]
  | cons ka sched ih =>
    intro st q rest
    simp only [List.map_cons, runS, lift, stepAt, List.nil_append]
    rw [ih]
    simp [List.append_assoc]

theorem runS_head (acts : List Act) : ∀ (st : Stage) (q : List PEv) (rest : List (Stage × List PEv)),
    runS ((st, q) :: rest) (acts.map (fun a => (0, a))) =
      (((runActs st q acts).1, (runActs st q acts).2.1) :: rest, (runActs st q acts).2.2) := by
  induction acts with
  | nil => intro st q rest; simp [runS, runActs]
  | cons a acts ih =>
    intro st q rest
    simp only [List.map_cons, runS, stepAt, runActs]
    rw [ih]

/-- the draining schedule: first everything upstream (the tail of the list), then this stage -/
def drainSched : List (Stage × List PEv) → List (Nat × Act)
  | [] => []
  | (_, q) :: rest =>
    (drainSched rest).map lift ++ (drainActs (q ++ (runS rest (drainSched rest)).2)).map (fun a => (0, a))

theorem drainSched_lossless (l : List (Stage × List PEv)) : (drainSched l).all (fun ka => lossless ka.2) = true := by
  induction l with
  | nil => rfl
  | cons sq rest ih =>
    obtain ⟨st, q⟩ := sq
    simp only [drainSched, List.all_append, List.all_map, Bool.and_eq_true]
    refine ⟨?_, ?_⟩
    · simpa [Function.comp, lift] using ih
    · have := drainActs_lossless (q ++ (runS rest (drainSched rest)).2)
      simpa [Function.comp] using this

theorem drainSched_ok (l : List (Stage × List PEv)) (h : AllReady l) :
    (runS l (drainSched l)).1.all stageIdle = true ∧ AllReady (runS l (drainSched l)).1 := by
  induction l with
  | nil => exact ⟨rfl, h⟩
  | cons sq rest ih =>
    obtain ⟨st, q⟩ := sq
    have hst : Ready st := h (st, q) List.mem_cons_self
    have hrest : AllReady rest := fun x hx => h x (List.mem_cons_of_mem _ hx)
    obtain ⟨i1, i2⟩ := ih hrest
    simp only [drainSched, runS_append, runS_lift, runS_head]
    obtain ⟨d1, d2, d3⟩ := drainActs_ok st (q ++ (runS rest (drainSched rest)).2) hst
    refine ⟨?_, ?_⟩
    · simp only [List.all_cons, Bool.and_eq_true]
      rw [d1]
      exact ⟨d2, i1⟩
    · intro x hx
      rcases List.mem_cons.mp hx with rfl | hx
      · exact d3
      · exact i2 x hx

/-! ### The pipe -/

def toSteps (sched : List (Nat × Act)) : List Step := sched.map (fun ka => Step.at ka.1 ka.2)

theorem run_toSteps (sched : List (Nat × Act)) : ∀ (s : Pipe),
    (toSteps sched).foldl Pipe.step s =
      { todo := s.todo, stages := (runS s.stages sched).1, recv := s.recv ++ (runS s.stages sched).2 } := by
  induction sched with
  | nil => intro s; simp [toSteps, runS]
  | cons ka sched ih =>
    intro s
    simp only [toSteps, List.map_cons, List.foldl_cons] at ih ⊢
    rw [ih]
    simp [Pipe.step, runS, List.append_assoc]

theorem toSteps_lossless (sched : List (Nat × Act)) (h : sched.all (fun ka => lossless ka.2) = true) :
    (toSteps sched).all (fun x => !x.isLoss) = true := by
  simp only [toSteps, List.all_map, List.all_eq_true] at h ⊢
  intro ka hka
  have := h ka hka
  obtain ⟨k, a⟩ := ka
  cases a <;> simp_all [Step.isLoss, lossless, Function.comp]

theorem emits_empty (n : Nat) : ∀ (s : Pipe), s.todo.length = n → AllReady s.stages →
    ((List.replicate n Step.emit).foldl Pipe.step s).todo = [] ∧
    AllReady ((List.replicate n Step.emit).foldl Pipe.step s).stages := by
  induction n with
  | zero =>
    intro s hn h
    exact ⟨List.length_eq_zero_iff.mp hn, h⟩
  | succ n ih =>
    intro s hn h
    simp only [List.replicate_succ, List.foldl_cons]
    apply ih
    · cases ht : s.todo with
      | nil => simp [ht] at hn
      | cons e t =>
        simp only [Pipe.step, ht]
        rw [ht] at hn
        by_cases hem : s.stages.isEmpty <;> simp [hem] <;> simpa using hn
    · exact step_ready s h .emit rfl

/-- the loss-free continuation that drains a pipe -/
def drainSteps (s : Pipe) : List Step :=
  List.replicate s.todo.length Step.emit ++
    toSteps (drainSched ((List.replicate s.todo.length Step.emit).foldl Pipe.step s).stages)

theorem drainSteps_lossless (s : Pipe) : (drainSteps s).all (fun x => !x.isLoss) = true := by
  simp only [drainSteps, List.all_append, Bool.and_eq_true]
  refine ⟨by simp [Step.isLoss], toSteps_lossless _ (drainSched_lossless _)⟩

theorem drainSteps_drained (s : Pipe) (h : AllReady s.stages) :
    ((drainSteps s).foldl Pipe.step s).drained = true := by
  obtain ⟨e1, e2⟩ := emits_empty s.todo.length s rfl h
  simp only [drainSteps, List.foldl_append, run_toSteps, Pipe.drained, Bool.and_eq_true, List.isEmpty_iff]
  exact ⟨e1, (drainSched_ok _ e2).1⟩

/-! ### A history split into quanta -/

theorem emits_n (n : Nat) : ∀ (s : Pipe), n ≤ s.todo.length → AllReady s.stages →
    ((List.replicate n Step.emit).foldl Pipe.step s).todo.length = s.todo.length - n ∧
    AllReady ((List.replicate n Step.emit).foldl Pipe.step s).stages := by
  induction n with
  | zero => intro s _ h; exact ⟨by simp, h⟩
  | succ n ih =>
    intro s hn h
    simp only [List.replicate_succ, List.foldl_cons]
    have hstep : (s.step .emit).todo.length = s.todo.length - 1 := by
      cases ht : s.todo with
      | nil => simp [ht] at hn
      | cons e t =>
        simp only [Pipe.step, ht]
        by_cases hem : s.stages.isEmpty <;> simp [hem]
    obtain ⟨e1, e2⟩ := ih (s.step .emit) (by omega) (step_ready s h .emit rfl)
    exact ⟨by omega, e2⟩

/-- one quantum: the handlers send the next `n` events, then the pipeline is drained -/
def quantumSteps (s : Pipe) (n : Nat) : List Step :=
  List.replicate n Step.emit ++ toSteps (drainSched ((List.replicate n Step.emit).foldl Pipe.step s).stages)

/-- the schedule of a history cut into quanta of the given sizes -/
def quantaSched (s : Pipe) : List Nat → List Step
  | [] => []
  | n :: ns => quantumSteps s n ++ quantaSched ((quantumSteps s n).foldl Pipe.step s) ns

theorem quantumSteps_lossless (s : Pipe) (n : Nat) : (quantumSteps s n).all (fun x => !x.isLoss) = true := by
  simp only [quantumSteps, List.all_append, Bool.and_eq_true]
  exact ⟨by simp [Step.isLoss], toSteps_lossless _ (drainSched_lossless _)⟩

theorem quantaSched_lossless (ns : List Nat) : ∀ (s : Pipe), (quantaSched s ns).all (fun x => !x.isLoss) = true := by
  induction ns with
  | nil => intro s; rfl
  | cons n ns ih =>
    intro s
    simp only [quantaSched, List.all_append, Bool.and_eq_true]
    exact ⟨quantumSteps_lossless s n, ih _⟩

theorem quantumSteps_state (s : Pipe) (n : Nat) (hn : n ≤ s.todo.length) (h : AllReady s.stages) :
    ((quantumSteps s n).foldl Pipe.step s).todo.length = s.todo.length - n ∧
    ((quantumSteps s n).foldl Pipe.step s).stages.all stageIdle = true ∧
    AllReady ((quantumSteps s n).foldl Pipe.step s).stages := by
  obtain ⟨e1, e2⟩ := emits_n n s hn h
  simp only [quantumSteps, List.foldl_append, run_toSteps]
  obtain ⟨d1, d2⟩ := drainSched_ok _ e2
  exact ⟨e1, d1, d2⟩

theorem quantaSched_drained (ns : List Nat) : ∀ (s : Pipe), AllReady s.stages → s.stages.all stageIdle = true →
    ns.sum = s.todo.length → ((quantaSched s ns).foldl Pipe.step s).drained = true := by
  induction ns with
  | nil =>
    intro s _ hidle hsum
    simp only [List.sum_nil] at hsum
    simp only [quantaSched, List.foldl_nil, Pipe.drained, Bool.and_eq_true, List.isEmpty_iff]
    exact ⟨List.length_eq_zero_iff.mp hsum.symm, hidle⟩
  | cons n ns ih =>
    intro s h _ hsum
    simp only [List.sum_cons] at hsum
    obtain ⟨e1, e2, e3⟩ := quantumSteps_state s n (by omega) h
    simp only [quantaSched, List.foldl_append]
    exact ih _ e3 e2 (by omega)

end SerfProofs.Pipeline
