/-
`LawfulFloatLike F`: the short explicit list of IEEE-754 facts the C20/C21 theorems use.
Every law is true of binary64 with round-to-nearest (NaN is unordered and propagates, `math.Max` returns NaN
for a NaN operand, rounding is monotone so it preserves `0 ≤ ·`, `· ≤ 1` and `x ≤ x + y`), and every law is
PROVED for the exact instance `ERat` (Lemmas/ERatLaws.lean), so theorems assuming the class are not vacuous.
Lean's `Float` is opaque: for it the laws are assumptions (trusted base), sampled by the correspondence check.

`NN x`  : x is NaN or 0 ≤ x.       `U x` : x is NaN or 0 ≤ x ≤ 1.
-/
import SerfModel.Model.FloatLike
namespace SerfModel
open FloatLike

variable {F : Type} [FloatLike F]

/-- NaN or non-negative -/
def NN (x : F) : Prop := isNaN x = true ∨ le (zero : F) x = true
/-- NaN or in the unit interval -/
def U (x : F) : Prop := isNaN x = true ∨ (le (zero : F) x = true ∧ le x (one : F) = true)

/-- The two facts behind the exact symmetry of the distance estimate (C21_symm).  Both hold for IEEE-754 doubles,
for exact rationals (`ERat`) and for every rounding model `Rnd fl` with an odd rounding function
(Lemmas/Rounding.lean: `commLaws_of_odd`). -/
class CommLaws (F : Type) [FloatLike F] : Prop where
  /-- IEEE-754 addition is commutative (the correctly rounded value of the exact sum does not depend on the order of
  the operands) -/
  add_comm : ∀ x y : F, add x y = add y x
  /-- negation is exact, so a - b and b - a have the same square.  (For float64 this holds up to the payload bits
  of a NaN result, which nothing in the model observes: every NaN prints as `nan` and converts to -2^63.) -/
  sub_sq_comm : ∀ a b : F, mul (sub a b) (sub a b) = mul (sub b a) (sub b a)

class LawfulFloatLike (F : Type) [FloatLike F] : Prop extends CommLaws F where
  /-- 0.0 is neither NaN nor infinite -/
  zero_finite : finite (zero : F) = true
  /-- NaN is unordered -/
  le_not_nan : ∀ a b : F, le a b = true → isNaN a = false ∧ isNaN b = false
  lt_not_nan : ∀ a b : F, lt a b = true → isNaN a = false ∧ isNaN b = false
  /-- on non-NaN values `≤` is reflexive and total against `<` -/
  le_refl : ∀ a : F, isNaN a = false → le a a = true
  le_of_not_lt : ∀ a b : F, isNaN a = false → isNaN b = false → lt b a = false → le a b = true
  le_of_lt : ∀ a b : F, lt a b = true → le a b = true
  le_trans : ∀ a b c : F, le a b = true → le b c = true → le a c = true
  lt_of_lt_of_le : ∀ a b c : F, lt a b = true → le b c = true → lt a c = true
  lt_of_le_of_lt : ∀ a b c : F, le a b = true → lt b c = true → lt a c = true
  /-- Go `math.Max`: NaN if an operand is NaN (unless the other is +Inf), otherwise an upper bound of the second operand -/
  max_ge_right : ∀ x y : F, isNaN y = false → isNaN (FloatLike.max x y) = false → le y (FloatLike.max x y) = true
  /-- 0 < 1.0e-6 -/
  thr_pos : lt (zero : F) (zeroThreshold : F) = true
  /-- NaN propagates through a division by NaN -/
  div_nan_right : ∀ x t : F, isNaN t = true → isNaN (div x t) = true
  /-- sign rules, with NaN propagation (monotone rounding keeps 0 ≤ ·) -/
  nn_mul : ∀ a b : F, NN a → NN b → NN (mul a b)
  nn_add : ∀ a b : F, NN a → NN b → NN (add a b)
  nn_div : ∀ a b : F, NN a → NN b → NN (div a b)
  nn_abs : ∀ a : F, NN (abs a)
  nn_sqrt : ∀ a : F, NN (sqrt a)
  /-- unit interval (monotone rounding; 0 and 1 are representable) -/
  unit_mul : ∀ a b : F, U a → U b → U (mul a b)
  one_sub_unit : ∀ t : F, U t → NN (sub (one : F) t)
  unit_div : ∀ x t : F, le (zero : F) x = true → le x t = true → lt (zero : F) t = true → U (div x t)
  /-- x ≤ fl(x + y) for 0 ≤ x, 0 ≤ y (or the sum is NaN: +Inf + NaN cannot occur here, Inf - Inf can not either,
  the disjunct only keeps the law uniform) -/
  add_ge_left : ∀ x y : F, le (zero : F) x = true → le (zero : F) y = true →
      isNaN (add x y) = true ∨ le x (add x y) = true
  /-- `int64(x)` of a NaN or a non-negative value is non-negative, or it is the out-of-range indicator -2^63
  (amd64 CVTTSD2SQ) -/
  toInt64_nn : ∀ x : F, NN x → 0 ≤ toInt64 x ∨ toInt64 x = -9223372036854775808

end SerfModel
