/-
No panic under a single I/O fault (model `SerfModel.SnapshotFault`), unless the
operation that failed is compact()'s remove / rename / reopen of the snapshot file.
Invariant: the fault is consumed at most once (`K`), and as long as the failed
operation is not one of those three the snapshotter has not panicked and holds a
bufio writer (`J`).
-/
import SerfModel.Model.SnapshotFault
namespace SerfProofs.SnapshotFault
open SerfModel SerfModel.Snapshot SerfModel.SnapshotFault

attribute [local irreducible] lastSeenOf

/-- the fault is consumed at most once -/
def K (st : FSnap) : Prop := st.failed = none ∨ ∃ k, st.fault = some k ∧ k < st.nops

/-- unless the failed operation is one of the bad three: no panic and a writer -/
def J (st : FSnap) : Prop := badFault st.failed = false → st.panicked = false ∧ st.writer = true

def I (st : FSnap) : Prop := K st ∧ J st

/-- `st'` differs from `st` by operations that do not touch the handles: writer and
panic flag unchanged, and the failed operation is unchanged or newly set to a harmless one -/
def Quiet (st st' : FSnap) : Prop :=
  st'.writer = st.writer ∧ st'.panicked = st.panicked ∧ K st' ∧
    (st'.failed = st.failed ∨ (st.failed = none ∧ badFault st'.failed = false))

theorem Quiet.refl {st : FSnap} (h : K st) : Quiet st st := ⟨rfl, rfl, h, Or.inl rfl⟩

theorem Quiet.trans {a b c : FSnap} (h1 : Quiet a b) (h2 : Quiet b c) : Quiet a c := by
  refine ⟨h2.1.trans h1.1, h2.2.1.trans h1.2.1, h2.2.2.1, ?_⟩
  rcases h1.2.2.2 with e1 | ⟨e1, b1⟩
  · rcases h2.2.2.2 with e2 | ⟨e2, b2⟩
    · exact Or.inl (e2.trans e1)
    · exact Or.inr ⟨e1 ▸ e2, b2⟩
  · rcases h2.2.2.2 with e2 | ⟨e2, b2⟩
    · exact Or.inr ⟨e1, e2 ▸ b1⟩
    · exact Or.inr ⟨e1, b2⟩

theorem J_of_quiet {st st' : FSnap} (hq : Quiet st st') (hj : J st) : J st' := by
  intro hb
  rcases hq.2.2.2 with e | ⟨e, _⟩
  · have := hj (e ▸ hb)
    exact ⟨hq.2.1.trans this.1, hq.1.trans this.2⟩
  · have := hj (by rw [e]; rfl)
    exact ⟨hq.2.1.trans this.1, hq.1.trans this.2⟩

theorem I_of_quiet {st st' : FSnap} (hq : Quiet st st') (h : I st) : I st' := ⟨hq.2.2.1, J_of_quiet hq h.2⟩

/-- what one operation does -/
theorem doOp_cases (st : FSnap) (op : FsOp) (hk : K st) :
    (doOp st op).1.writer = st.writer ∧ (doOp st op).1.panicked = st.panicked ∧
    (doOp st op).1.sticky = st.sticky ∧ (doOp st op).1.fh = st.fh ∧ (doOp st op).1.s = st.s ∧
    (doOp st op).1.attempted = st.attempted ∧ K (doOp st op).1 ∧
    (((doOp st op).2 = true ∧ (doOp st op).1.failed = st.failed) ∨
     ((doOp st op).2 = false ∧ st.failed = none ∧ (doOp st op).1.failed = some op)) := by
  unfold doOp
  by_cases hf : st.fault = some st.nops
  · rw [if_pos hf]
    have hnone : st.failed = none := by
      rcases hk with h | ⟨k, hk1, hk2⟩
      · exact h
      · rw [hf] at hk1; cases hk1; omega
    refine ⟨rfl, rfl, rfl, rfl, rfl, rfl, Or.inr ⟨st.nops, hf, by simp⟩, Or.inr ⟨rfl, hnone, rfl⟩⟩
  · rw [if_neg hf]
    refine ⟨rfl, rfl, rfl, rfl, rfl, rfl, ?_, Or.inl ⟨rfl, rfl⟩⟩
    rcases hk with h | ⟨k, hk1, hk2⟩
    · exact Or.inl h
    · exact Or.inr ⟨k, hk1, by simp; omega⟩

theorem doOp_quiet (st : FSnap) (op : FsOp) (hk : K st) (hop : badFault (some op) = false) :
    Quiet st (doOp st op).1 := by
  obtain ⟨h1, h2, _, _, _, _, h7, h8⟩ := doOp_cases st op hk
  refine ⟨h1, h2, h7, ?_⟩
  rcases h8 with ⟨_, e⟩ | ⟨_, e1, e2⟩
  · exact Or.inl e
  · exact Or.inr ⟨e1, by rw [e2]; exact hop⟩

theorem doWrites_quiet (p : Path) (ws : List Bytes) : ∀ st : FSnap, K st → Quiet st (doWrites st p ws).1 := by
  induction ws with
  | nil => intro st hk; exact Quiet.refl hk
  | cons w ws ih =>
    intro st hk
    have h1 := doOp_quiet st (.write p w) hk rfl
    simp only [doWrites]
    split
    · exact h1.trans (ih _ h1.2.2.1)
    · exact h1

/-- a record update that leaves the five relevant fields alone -/
theorem Quiet.of_fields {st st' : FSnap} (hk : K st) (h1 : st'.writer = st.writer) (h2 : st'.panicked = st.panicked)
    (h3 : st'.failed = st.failed) (h4 : st'.fault = st.fault) (h5 : st'.nops = st.nops) : Quiet st st' := by
  refine ⟨h1, h2, ?_, Or.inl h3⟩
  unfold K at hk ⊢
  rw [h3, h4, h5]; exact hk

theorem fAppendBytes_inv (st : FSnap) (l : Bytes) (h : I st) : I (fAppendBytes st l).1 := by
  unfold fAppendBytes
  by_cases hw : st.writer = true
  · simp only [hw, Bool.not_true, Bool.false_eq_true, ↓reduceIte]
    split
    · exact h
    · have q1 := doWrites_quiet .main (bufWrite st.s.buf l).2 st h.1
      generalize doWrites st .main (bufWrite st.s.buf l).2 = r at q1 ⊢
      split
      · exact I_of_quiet (q1.trans (Quiet.of_fields q1.2.2.1 rfl rfl rfl rfl rfl)) h
      · split
        · split
          · exact I_of_quiet (q1.trans (Quiet.of_fields q1.2.2.1 rfl rfl rfl rfl rfl)) h
          · have hk2 : K ({ r.1 with s := { ({ r.1 with s := { r.1.s with buf := (bufWrite st.s.buf l).1 } } : FSnap).s with flushDue := false } } : FSnap) :=
              (Quiet.of_fields q1.2.2.1 rfl rfl rfl rfl rfl).2.2.1
            have q0 : Quiet st ({ r.1 with s := { ({ r.1 with s := { r.1.s with buf := (bufWrite st.s.buf l).1 } } : FSnap).s with flushDue := false } } : FSnap) :=
              q1.trans (Quiet.of_fields q1.2.2.1 rfl rfl rfl rfl rfl)
            have q2 := doOp_quiet _ (.write .main (bufWrite st.s.buf l).1) hk2 rfl
            generalize doOp _ (FsOp.write Path.main _) = r2 at q2 ⊢
            split
            · exact I_of_quiet ((q0.trans q2).trans (Quiet.of_fields q2.2.2.1 rfl rfl rfl rfl rfl)) h
            · exact I_of_quiet ((q0.trans q2).trans (Quiet.of_fields q2.2.2.1 rfl rfl rfl rfl rfl)) h
        · exact I_of_quiet (q1.trans (Quiet.of_fields q1.2.2.1 rfl rfl rfl rfl rfl)) h
  · have hw' : st.writer = false := by cases hh : st.writer <;> simp_all
    simp only [hw', Bool.not_false, ↓reduceIte]
    refine ⟨h.1, ?_⟩
    intro hb
    have := (h.2 hb).2
    rw [hw'] at this; cases this

theorem fCompactFront_quiet (st : FSnap) (lines : List Bytes) (hk : K st) : Quiet st (fCompactFront st lines).1 := by
  unfold fCompactFront
  have q1 := doOp_quiet st (.openTrunc .tmp) hk rfl
  generalize doOp st (.openTrunc .tmp) = r1 at q1 ⊢
  simp only
  split
  · exact q1
  · have q2 := doWrites_quiet .tmp (bufWriteAll [] lines).2 r1.1 q1.2.2.1
    generalize doWrites r1.1 .tmp (bufWriteAll [] lines).2 = r2 at q2 ⊢
    split
    · exact (q1.trans q2).trans (doOp_quiet _ _ q2.2.2.1 rfl)
    · have q3 : Quiet r2.1 (if (bufWriteAll [] lines).1 = [] then (r2.1, true) else doOp r2.1 (.write .tmp (bufWriteAll [] lines).1)).1 := by
        split
        · exact Quiet.refl q2.2.2.1
        · exact doOp_quiet _ _ q2.2.2.1 rfl
      generalize (if (bufWriteAll [] lines).1 = [] then (r2.1, true) else doOp r2.1 (.write .tmp (bufWriteAll [] lines).1)) = r3 at q3 ⊢
      split
      · exact (q1.trans q2).trans q3
      · have q4 := doOp_quiet r3.1 (.sync .tmp) q3.2.2.1 rfl
        generalize doOp r3.1 (.sync .tmp) = r4 at q4 ⊢
        split
        · exact (((q1.trans q2).trans q3).trans q4).trans (doOp_quiet _ _ q4.2.2.1 rfl)
        · exact (((q1.trans q2).trans q3).trans q4).trans (doOp_quiet _ _ q4.2.2.1 rfl)

/-- after a failing bad operation the invariant holds vacuously -/
theorem I_of_bad {st : FSnap} (hk : K st) (hb : badFault st.failed = true) : I st :=
  ⟨hk, fun h => by rw [hb] at h; cases h⟩

theorem fCompactSwap_inv (st : FSnap) (total : Nat) (h : I st) : I (fCompactSwap st total).1 := by
  unfold fCompactSwap
  by_cases hw : st.writer = true
  · simp only [hw, Bool.not_true, Bool.false_eq_true, ↓reduceIte]
    -- old writer flushed (result ignored), handles dropped
    have q6 : Quiet st (if (st.sticky || decide (st.s.buf = [])) = true then st else (doOp st (.write .main st.s.buf)).1) := by
      split
      · exact Quiet.refl h.1
      · exact doOp_quiet _ _ h.1 rfl
    generalize (if (st.sticky || decide (st.s.buf = [])) = true then st else (doOp st (.write .main st.s.buf)).1) = r6 at q6 ⊢
    -- from here on the writer is nil; track K and the failed operation by hand
    have k6 : K ({ r6 with writer := false, sticky := false } : FSnap) := q6.2.2.1
    have hclose : ∀ x : FSnap, K x → K (if x.fh = true then (doOp x (.close .main)).1 else x) ∧
        ((if x.fh = true then (doOp x (.close .main)).1 else x).failed = x.failed ∨
          (x.failed = none ∧ badFault (if x.fh = true then (doOp x (.close .main)).1 else x).failed = false)) ∧
        (if x.fh = true then (doOp x (.close .main)).1 else x).panicked = x.panicked := by
      intro x hx
      split
      · have := doOp_quiet x (.close .main) hx rfl
        exact ⟨this.2.2.1, this.2.2.2, this.2.1⟩
      · exact ⟨hx, Or.inl rfl, rfl⟩
    obtain ⟨k7, f7, p7⟩ := hclose _ k6
    generalize (if ({ r6 with writer := false, sticky := false } : FSnap).fh = true then
        (doOp ({ r6 with writer := false, sticky := false } : FSnap) (.close .main)).1
        else ({ r6 with writer := false, sticky := false } : FSnap)) = r7 at k7 f7 p7 ⊢
    have k7' : K ({ r7 with fh := false } : FSnap) := k7
    -- the three bad operations
    obtain ⟨_, p8, _, _, _, _, k8, c8⟩ := doOp_cases ({ r7 with fh := false } : FSnap) (.remove .main) k7'
    generalize doOp ({ r7 with fh := false } : FSnap) (.remove .main) = r8 at p8 k8 c8 ⊢
    rcases c8 with ⟨ok8, e8⟩ | ⟨no8, _, e8⟩
    · simp only [ok8, Bool.not_true, Bool.false_eq_true, ↓reduceIte]
      obtain ⟨_, p9, _, _, _, _, k9, c9⟩ := doOp_cases r8.1 (.rename .tmp .main) k8
      generalize doOp r8.1 (.rename .tmp .main) = r9 at p9 k9 c9 ⊢
      rcases c9 with ⟨ok9, e9⟩ | ⟨no9, _, e9⟩
      · simp only [ok9, Bool.not_true, Bool.false_eq_true, ↓reduceIte]
        obtain ⟨_, p10, _, _, _, _, k10, c10⟩ := doOp_cases r9.1 (.openAppend .main) k9
        generalize doOp r9.1 (.openAppend .main) = r10 at p10 k10 c10 ⊢
        rcases c10 with ⟨ok10, e10⟩ | ⟨no10, _, e10⟩
        · simp only [ok10, Bool.not_true, Bool.false_eq_true, ↓reduceIte]
          -- success: new handles
          refine ⟨k10, ?_⟩
          intro hb
          have hfailed : r10.1.failed = r7.failed := e10.trans (e9.trans e8)
          have hpan : r10.1.panicked = st.panicked := by
            rw [p10, p9, p8]; exact p7.trans q6.2.1
          have hbst : badFault st.failed = false := by
            have hb' : badFault r7.failed = false := hfailed ▸ hb
            rcases f7 with e | ⟨e, _⟩
            · have e' : r7.failed = r6.failed := e
              rcases q6.2.2.2 with e2 | ⟨e2, _⟩
              · rw [← e2, ← e']; exact hb'
              · rw [e2]; rfl
            · have e' : r6.failed = none := e
              rcases q6.2.2.2 with e2 | ⟨e2, _⟩
              · rw [← e2, e']; rfl
              · rw [e2]; rfl
          exact ⟨hpan.trans (h.2 hbst).1, rfl⟩
        · simp only [no10, Bool.not_false, ↓reduceIte]
          exact I_of_bad k10 (by rw [e10]; rfl)
      · simp only [no9, Bool.not_false, ↓reduceIte]
        exact I_of_bad k9 (by rw [e9]; rfl)
    · simp only [no8, Bool.not_false, ↓reduceIte]
      exact I_of_bad k8 (by rw [e8]; rfl)
  · have hw' : st.writer = false := by cases hh : st.writer <;> simp_all
    simp only [hw', Bool.not_false, ↓reduceIte]
    refine ⟨h.1, ?_⟩
    intro hb
    have := (h.2 hb).2
    rw [hw'] at this; cases this

theorem fCompact_inv (st : FSnap) (h : I st) : I (fCompact st).1 := by
  unfold fCompact
  have q := fCompactFront_quiet st (compactLines Order.id st.s) h.1
  simp only
  generalize fCompactFront st (compactLines Order.id st.s) = r at q ⊢
  split
  · exact I_of_quiet q h
  · exact fCompactSwap_inv _ _ (I_of_quiet q h)

theorem fAppendLine_inv (st : FSnap) (l : Bytes) (h : I st) : I (fAppendLine st l).1 := by
  unfold fAppendLine
  have h1 := fAppendBytes_inv st l h
  generalize fAppendBytes st l = r at h1 ⊢
  simp only
  split
  · split
    · exact fCompact_inv _ h1
    · exact h1
  · exact h1

theorem I_congr {st st' : FSnap} (h : I st) (h1 : st'.writer = st.writer) (h2 : st'.panicked = st.panicked)
    (h3 : st'.failed = st.failed) (h4 : st'.fault = st.fault) (h5 : st'.nops = st.nops) : I st' :=
  I_of_quiet (Quiet.of_fields h.1 h1 h2 h3 h4 h5) h

theorem fTryAppend_inv (st : FSnap) (l : Bytes) (h : I st) : I (fTryAppend st l) := by
  unfold fTryAppend
  have h1 := fAppendLine_inv st l h
  generalize fAppendLine st l = r at h1 ⊢
  simp only
  split
  · exact h1
  · exact h1
  · split
    · exact h1
    · exact fCompact_inv _ (I_congr h1 rfl rfl rfl rfl rfl)

theorem fUpdateClock_inv (st : FSnap) (clk : Nat) (h : I st) : I (fUpdateClock st clk) := by
  unfold fUpdateClock
  simp only
  split
  · exact fTryAppend_inv _ _ (I_congr h rfl rfl rfl rfl rfl)
  · exact h

theorem fJoin_inv (ms : List (Name × Addr)) : ∀ st : FSnap, I st → I (fJoin st ms) := by
  induction ms with
  | nil => intro st h; exact h
  | cons p ms ih =>
    intro st h
    obtain ⟨n, a⟩ := p
    simp only [fJoin]
    split
    · exact h
    · exact ih _ (fTryAppend_inv _ _ (I_congr h rfl rfl rfl rfl rfl))

theorem fGone_inv (ns : List Name) : ∀ st : FSnap, I st → I (fGone st ns) := by
  induction ns with
  | nil => intro st h; exact h
  | cons n ns ih =>
    intro st h
    simp only [fGone]
    split
    · exact h
    · exact ih _ (fTryAppend_inv _ _ (I_congr h rfl rfl rfl rfl rfl))

theorem fFlush_inv (st : FSnap) (h : I st) : I (fFlush st) := by
  unfold fFlush
  split
  · exact h
  · split
    · rename_i hw
      refine ⟨h.1, ?_⟩
      intro hb
      have := (h.2 hb).2
      simp [this] at hw
    · split
      · exact h
      · have q := doOp_quiet st (.write .main st.s.buf) h.1 rfl
        generalize doOp st (.write .main st.s.buf) = r at q ⊢
        simp only
        split
        · exact I_of_quiet (q.trans (Quiet.of_fields q.2.2.1 rfl rfl rfl rfl rfl)) h
        · exact I_of_quiet (q.trans (Quiet.of_fields q.2.2.1 rfl rfl rfl rfl rfl)) h

theorem doOp_inv (st : FSnap) (op : FsOp) (h : I st) (hop : badFault (some op) = false) : I (doOp st op).1 :=
  I_of_quiet (doOp_quiet st op h.1 hop) h

theorem fStep_inv (st : FSnap) (e : FEv) (h : I st) : I (fStep st e) := by
  cases e with
  | recoveryTimePasses => exact I_congr h rfl rfl rfl rfl rfl
  | ev e =>
    simp only [fStep]
    split
    · exact h
    · cases e with
      | join ms clk =>
        simp only
        split
        · exact h
        · split
          · exact fJoin_inv ms st h
          · exact fUpdateClock_inv _ _ (fJoin_inv ms st h)
      | gone ns clk =>
        simp only
        split
        · exact h
        · split
          · exact fGone_inv ns st h
          · exact fUpdateClock_inv _ _ (fGone_inv ns st h)
      | memberOther clk =>
        simp only
        split
        · exact h
        · exact fUpdateClock_inv _ _ h
      | user lt =>
        simp only
        split
        · exact h
        · split
          · exact h
          · exact fTryAppend_inv _ _ (I_congr h rfl rfl rfl rfl rfl)
      | query lt =>
        simp only
        split
        · exact h
        · split
          · exact h
          · exact fTryAppend_inv _ _ (I_congr h rfl rfl rfl rfl rfl)
      | clockTick clk => exact fUpdateClock_inv _ _ h
      | leave =>
        simp only
        have h1 := fFlush_inv _ (fTryAppend_inv (leaveState st) (printLine .leave) (I_congr h rfl rfl rfl rfl rfl))
        generalize fFlush (fTryAppend (leaveState st) (printLine .leave)) = r at h1 ⊢
        split
        · exact h1
        · split
          · exact doOp_inv _ _ h1 rfl
          · exact h1
      | timePasses => exact I_congr h rfl rfl rfl rfl rfl
      | forceCompact => exact fCompact_inv st h

theorem fRun_inv (evs : List FEv) : ∀ st : FSnap, I st → I (fRun st evs) := by
  induction evs with
  | nil => intro st h; exact h
  | cons e es ih => intro st h; exact ih _ (fStep_inv st e h)

theorem fShutdown_inv (st : FSnap) (clk : Nat) (h : I st) : I (fShutdown st clk) := by
  unfold fShutdown
  split
  · exact h
  · have h1 := fFlush_inv _ (fUpdateClock_inv st clk h)
    simp only
    generalize fFlush (fUpdateClock st clk) = r at h1 ⊢
    split
    · exact h1
    · have h2 : I (if r.fh = true then (doOp r (.sync .main)).1 else r) := by
        split
        · exact doOp_inv _ _ h1 rfl
        · exact h1
      generalize (if r.fh = true then (doOp r (.sync .main)).1 else r) = r2 at h2 ⊢
      split
      · exact doOp_inv _ _ h2 rfl
      · exact h2

theorem fInit_inv (rj : Bool) (mc : Nat) (fault : Option Nat) : I (fInit rj mc fault) :=
  ⟨Or.inl rfl, fun _ => ⟨rfl, rfl⟩⟩

end SerfProofs.SnapshotFault
