/-
No panic under a single I/O fault (model `SerfModel.SnapshotFault`, the code since
e2c64f9: compact() never sets its handles to nil).  Invariant `P`: the snapshotter holds
a bufio writer and has not panicked.  No operation is excluded any more.
-/
import SerfModel.Model.SnapshotFault
namespace SerfProofs.SnapshotFault
open SerfModel SerfModel.Snapshot SerfModel.SnapshotFault

attribute [local irreducible] lastSeenOf

/-- the code keeps its handles (current shape), a writer is installed, no panic so far -/
def P (st : FSnap) : Prop := st.nilOnSwap = false ∧ st.writer = true ∧ st.panicked = false

theorem P_of_fields {st st' : FSnap} (h : P st) (h1 : st'.nilOnSwap = st.nilOnSwap) (h2 : st'.writer = st.writer)
    (h3 : st'.panicked = st.panicked) : P st' := ⟨h1.trans h.1, h2.trans h.2.1, h3.trans h.2.2⟩

theorem doOpW_fields (st : FSnap) (op : FsOp) (w : Bool) :
    (doOpW st op w).1.nilOnSwap = st.nilOnSwap ∧ (doOpW st op w).1.writer = st.writer ∧
      (doOpW st op w).1.panicked = st.panicked := by
  unfold doOpW
  split
  · exact ⟨rfl, rfl, rfl⟩
  · split <;> exact ⟨rfl, rfl, rfl⟩

theorem doOpW_P (st : FSnap) (op : FsOp) (w : Bool) (h : P st) : P (doOpW st op w).1 :=
  P_of_fields h (doOpW_fields st op w).1 (doOpW_fields st op w).2.1 (doOpW_fields st op w).2.2

theorem doOp_P (st : FSnap) (op : FsOp) (h : P st) : P (doOp st op).1 := doOpW_P st op true h

theorem doWrites_P (p : Path) (w : Bool) (ws : List Bytes) : ∀ st : FSnap, P st → P (doWrites st p w ws).1 := by
  induction ws with
  | nil => intro st h; exact h
  | cons x xs ih =>
    intro st h
    simp only [doWrites]
    split
    · exact ih _ (doOpW_P st _ w h)
    · exact doOpW_P st _ w h

theorem fFlushDue_P (st2 : FSnap) (n : Nat) (h : P st2) : P (fFlushDue st2 n).1 := by
  unfold fFlushDue
  split
  · exact P_of_fields h rfl rfl rfl
  · have q2 := doOpW_P st2 (.write .main st2.s.buf) (!st2.fhClosed) h
    generalize doOpW st2 (.write .main st2.s.buf) (!st2.fhClosed) = r2 at q2 ⊢
    simp only
    split
    · exact P_of_fields q2 rfl rfl rfl
    · exact P_of_fields q2 rfl rfl rfl

theorem fAfterWrite_P (st1 : FSnap) (n : Nat) (h : P st1) : P (fAfterWrite st1 n).1 := by
  unfold fAfterWrite
  split
  · exact fFlushDue_P _ _ (P_of_fields h rfl rfl rfl)
  · exact P_of_fields h rfl rfl rfl

theorem fAppendBytes_P (st : FSnap) (l : Bytes) (h : P st) : P (fAppendBytes st l).1 := by
  unfold fAppendBytes
  simp only [h.2.1, Bool.not_true, Bool.false_eq_true, ↓reduceIte]
  split
  · exact h
  · have q1 := doWrites_P .main (!st.fhClosed) (bufWrite st.s.buf l).2 st h
    generalize doWrites st .main (!st.fhClosed) (bufWrite st.s.buf l).2 = r at q1 ⊢
    split
    · exact P_of_fields q1 rfl rfl rfl
    · exact fAfterWrite_P _ _ (P_of_fields q1 rfl rfl rfl)

theorem fCompactFront_P (st : FSnap) (lines : List Bytes) (h : P st) : P (fCompactFront st lines).1 := by
  unfold fCompactFront
  have q1 := doOp_P st (.openTrunc .tmp) h
  generalize doOp st (.openTrunc .tmp) = r1 at q1 ⊢
  simp only
  split
  · exact q1
  · have q2 := doWrites_P .tmp true (bufWriteAll [] lines).2 r1.1 q1
    generalize doWrites r1.1 .tmp true (bufWriteAll [] lines).2 = r2 at q2 ⊢
    split
    · exact doOp_P _ _ q2
    · have q3 : P (if (bufWriteAll [] lines).1 = [] then (r2.1, true) else doOp r2.1 (.write .tmp (bufWriteAll [] lines).1)).1 := by
        split
        · exact q2
        · exact doOp_P _ _ q2
      generalize (if (bufWriteAll [] lines).1 = [] then (r2.1, true) else doOp r2.1 (.write .tmp (bufWriteAll [] lines).1)) = r3 at q3 ⊢
      split
      · exact q3
      · have q4 := doOp_P r3.1 (.sync .tmp) q3
        generalize doOp r3.1 (.sync .tmp) = r4 at q4 ⊢
        split
        · exact doOp_P _ _ q4
        · exact doOp_P _ _ q4

theorem fOldFlush_P (st : FSnap) (h : P st) : P (fOldFlush st) := by
  unfold fOldFlush
  split
  · exact h
  · have q := doOpW_P st (.write .main st.s.buf) (!st.fhClosed) h
    generalize doOpW st (.write .main st.s.buf) (!st.fhClosed) = r at q ⊢
    simp only
    split
    · exact P_of_fields q rfl rfl rfl
    · exact P_of_fields q rfl rfl rfl

theorem fOldClose_P (st : FSnap) (h : P st) : P (fOldClose false st) := by
  unfold fOldClose
  simp only [Bool.false_eq_true, ↓reduceIte]
  refine P_of_fields (st := if st.fh = true then (doOp st (.close .main)).1 else st) ?_ rfl rfl rfl
  split
  · exact doOp_P _ _ h
  · exact h

theorem fSwapTail_P (r7 : FSnap) (total : Nat) (q7 : P r7) : P (fSwapTail r7 total).1 := by
  unfold fSwapTail
  have q8 := doOpW_P r7 (.remove .main) (r7.mainExists || !r7.removeMissingFails) q7
  generalize doOpW r7 (.remove .main) (r7.mainExists || !r7.removeMissingFails) = r8 at q8 ⊢
  simp only
  split
  · exact q8
  · have q8' : P ({ r8.1 with mainExists := false } : FSnap) := P_of_fields q8 rfl rfl rfl
    have q9 := doOp_P _ (.rename .tmp .main) q8'
    generalize doOp ({ r8.1 with mainExists := false } : FSnap) (.rename .tmp .main) = r9 at q9 ⊢
    split
    · exact q9
    · have q9' : P ({ r9.1 with mainExists := true } : FSnap) := P_of_fields q9 rfl rfl rfl
      have q10 := doOp_P _ (.openAppend .main) q9'
      generalize doOp ({ r9.1 with mainExists := true } : FSnap) (.openAppend .main) = r10 at q10 ⊢
      split
      · exact q10
      · exact ⟨q10.1, rfl, q10.2.2⟩

theorem fCompactSwap_P (st : FSnap) (total : Nat) (h : P st) : P (fCompactSwap st total).1 := by
  unfold fCompactSwap
  simp only [h.2.1, h.1, Bool.not_true, Bool.false_eq_true, ↓reduceIte]
  exact fSwapTail_P _ _ (fOldClose_P _ (fOldFlush_P st h))

theorem fCompact_P (st : FSnap) (h : P st) : P (fCompact st).1 := by
  unfold fCompact
  have q := fCompactFront_P st (compactLines Order.id st.s) h
  simp only
  generalize fCompactFront st (compactLines Order.id st.s) = r at q ⊢
  split
  · exact q
  · exact fCompactSwap_P _ _ q

theorem fAppendLine_P (st : FSnap) (l : Bytes) (h : P st) : P (fAppendLine st l).1 := by
  unfold fAppendLine
  have h1 := fAppendBytes_P st l h
  generalize fAppendBytes st l = r at h1 ⊢
  simp only
  split
  · split
    · exact fCompact_P _ h1
    · exact h1
  · exact h1

theorem fTryAppend_P (st : FSnap) (l : Bytes) (h : P st) : P (fTryAppend st l) := by
  unfold fTryAppend
  have h1 := fAppendLine_P st l h
  generalize fAppendLine st l = r at h1 ⊢
  simp only
  split
  · exact h1
  · exact h1
  · split
    · exact h1
    · exact fCompact_P _ (P_of_fields h1 rfl rfl rfl)

theorem fUpdateClock_P (st : FSnap) (clk : Nat) (h : P st) : P (fUpdateClock st clk) := by
  unfold fUpdateClock
  simp only
  split
  · exact fTryAppend_P _ _ (P_of_fields h rfl rfl rfl)
  · exact h

theorem fJoin_P (ms : List (Name × Addr)) : ∀ st : FSnap, P st → P (fJoin st ms) := by
  induction ms with
  | nil => intro st h; exact h
  | cons p ms ih =>
    intro st h
    obtain ⟨n, a⟩ := p
    simp only [fJoin]
    split
    · exact h
    · exact ih _ (fTryAppend_P _ _ (P_of_fields h rfl rfl rfl))

theorem fGone_P (ns : List Name) : ∀ st : FSnap, P st → P (fGone st ns) := by
  induction ns with
  | nil => intro st h; exact h
  | cons n ns ih =>
    intro st h
    simp only [fGone]
    split
    · exact h
    · exact ih _ (fTryAppend_P _ _ (P_of_fields h rfl rfl rfl))

theorem fFlush_P (st : FSnap) (h : P st) : P (fFlush st) := by
  unfold fFlush
  split
  · exact h
  · split
    · rename_i hw; simp [h.2.1] at hw
    · split
      · exact h
      · have q := doOpW_P st (.write .main st.s.buf) (!st.fhClosed) h
        generalize doOpW st (.write .main st.s.buf) (!st.fhClosed) = r at q ⊢
        simp only
        split
        · exact P_of_fields q rfl rfl rfl
        · exact P_of_fields q rfl rfl rfl

theorem fStep_P (st : FSnap) (e : FEv) (h : P st) : P (fStep st e) := by
  cases e with
  | recoveryTimePasses => exact P_of_fields h rfl rfl rfl
  | ev e =>
    simp only [fStep]
    split
    · exact h
    · cases e with
      | join ms clk =>
        simp only
        split
        · exact h
        · split
          · exact fJoin_P ms st h
          · exact fUpdateClock_P _ _ (fJoin_P ms st h)
      | gone ns clk =>
        simp only
        split
        · exact h
        · split
          · exact fGone_P ns st h
          · exact fUpdateClock_P _ _ (fGone_P ns st h)
      | memberOther clk =>
        simp only
        split
        · exact h
        · exact fUpdateClock_P _ _ h
      | user lt =>
        simp only
        split
        · exact h
        · split
          · exact h
          · exact fTryAppend_P _ _ (P_of_fields h rfl rfl rfl)
      | query lt =>
        simp only
        split
        · exact h
        · split
          · exact h
          · exact fTryAppend_P _ _ (P_of_fields h rfl rfl rfl)
      | clockTick clk => exact fUpdateClock_P _ _ h
      | leave =>
        simp only
        have h1 := fFlush_P _ (fTryAppend_P (leaveState st) (printLine .leave) (P_of_fields h rfl rfl rfl))
        generalize fFlush (fTryAppend (leaveState st) (printLine .leave)) = r at h1 ⊢
        split
        · exact h1
        · split
          · exact doOp_P _ _ h1
          · exact h1
      | timePasses => exact P_of_fields h rfl rfl rfl
      | forceCompact => exact fCompact_P st h

theorem fRun_P (evs : List FEv) : ∀ st : FSnap, P st → P (fRun st evs) := by
  induction evs with
  | nil => intro st h; exact h
  | cons e es ih => intro st h; exact ih _ (fStep_P st e h)

theorem fShutdown_P (st : FSnap) (clk : Nat) (h : P st) : P (fShutdown st clk) := by
  unfold fShutdown
  split
  · exact h
  · have h1 := fFlush_P _ (fUpdateClock_P st clk h)
    simp only
    generalize fFlush (fUpdateClock st clk) = r at h1 ⊢
    split
    · exact h1
    · have h2 : P (if r.fh = true then (doOp r (.sync .main)).1 else r) := by
        split
        · exact doOp_P _ _ h1
        · exact h1
      generalize (if r.fh = true then (doOp r (.sync .main)).1 else r) = r2 at h2 ⊢
      split
      · exact doOp_P _ _ h2
      · exact h2

theorem fInit_P (rj : Bool) (mc : Nat) (fault : Option Nat) : P (fInit rj mc fault) := ⟨rfl, rfl, rfl⟩

/-! ### once the fault has been consumed every compaction succeeds -/

/-- the single fault lies in the past (or there is none) -/
def Consumed (st : FSnap) : Prop := st.fault = none ∨ ∃ k, st.fault = some k ∧ k < st.nops

/-- current code shape, writer installed, no panic, fault consumed -/
def Q (st : FSnap) : Prop := P st ∧ st.removeMissingFails = false ∧ Consumed st

theorem doOpW_Q (st : FSnap) (op : FsOp) (w : Bool) (h : Q st) :
    Q (doOpW st op w).1 ∧ (w = true → (doOpW st op w).2 = true) := by
  have hne : ¬ st.fault = some st.nops := by
    rcases h.2.2 with e | ⟨k, e, hk⟩
    · rw [e]; simp
    · rw [e]; intro hh; cases hh; omega
  unfold doOpW
  rw [if_neg hne]
  have hcons : ∀ st' : FSnap, st'.fault = st.fault → st'.nops = st.nops + 1 → Consumed st' := by
    intro st' e1 e2
    rcases h.2.2 with e | ⟨k, e, hk⟩
    · exact Or.inl (e1.trans e)
    · exact Or.inr ⟨k, e1.trans e, by rw [e2]; omega⟩
  cases w
  · simp only [Bool.false_eq_true, ↓reduceIte]
    exact ⟨⟨P_of_fields h.1 rfl rfl rfl, h.2.1, hcons _ rfl rfl⟩, fun hh => by cases hh⟩
  · simp only [↓reduceIte]
    exact ⟨⟨P_of_fields h.1 rfl rfl rfl, h.2.1, hcons _ rfl rfl⟩, fun _ => trivial⟩

theorem Q_of_fields {st st' : FSnap} (h : Q st) (h1 : st'.nilOnSwap = st.nilOnSwap) (h2 : st'.writer = st.writer)
    (h3 : st'.panicked = st.panicked) (h4 : st'.removeMissingFails = st.removeMissingFails)
    (h5 : st'.fault = st.fault) (h6 : st'.nops = st.nops) : Q st' := by
  refine ⟨P_of_fields h.1 h1 h2 h3, h4.trans h.2.1, ?_⟩
  unfold Consumed
  rw [h5, h6]; exact h.2.2

theorem doWrites_Q (p : Path) (ws : List Bytes) : ∀ st : FSnap, Q st →
    Q (doWrites st p true ws).1 ∧ (doWrites st p true ws).2 = true := by
  induction ws with
  | nil => intro st h; exact ⟨h, rfl⟩
  | cons x xs ih =>
    intro st h
    have h1 := doOpW_Q st (.write p x) true h
    simp only [doWrites, h1.2 rfl, ↓reduceIte]
    exact ih _ h1.1

theorem fCompactFront_Q (st : FSnap) (lines : List Bytes) (h : Q st) :
    Q (fCompactFront st lines).1 ∧ (fCompactFront st lines).2 = true := by
  unfold fCompactFront doOp
  have q1 := doOpW_Q st (.openTrunc .tmp) true h
  generalize doOpW st (.openTrunc .tmp) true = r1 at q1 ⊢
  simp only [q1.2 rfl, Bool.not_true, Bool.false_eq_true, ↓reduceIte]
  have q2 := doWrites_Q .tmp (bufWriteAll [] lines).2 r1.1 q1.1
  generalize doWrites r1.1 .tmp true (bufWriteAll [] lines).2 = r2 at q2 ⊢
  simp only [q2.2, Bool.not_true, Bool.false_eq_true, ↓reduceIte]
  have q3 : Q (if (bufWriteAll [] lines).1 = [] then (r2.1, true) else doOpW r2.1 (.write .tmp (bufWriteAll [] lines).1) true).1 ∧
      (if (bufWriteAll [] lines).1 = [] then (r2.1, true) else doOpW r2.1 (.write .tmp (bufWriteAll [] lines).1) true).2 = true := by
    split
    · exact ⟨q2.1, rfl⟩
    · have := doOpW_Q r2.1 (.write .tmp (bufWriteAll [] lines).1) true q2.1
      exact ⟨this.1, this.2 rfl⟩
  generalize (if (bufWriteAll [] lines).1 = [] then (r2.1, true) else doOpW r2.1 (.write .tmp (bufWriteAll [] lines).1) true) = r3 at q3 ⊢
  simp only [q3.2, Bool.not_true, Bool.false_eq_true, ↓reduceIte]
  have q4 := doOpW_Q r3.1 (.sync .tmp) true q3.1
  generalize doOpW r3.1 (.sync .tmp) true = r4 at q4 ⊢
  simp only [q4.2 rfl, Bool.not_true, Bool.false_eq_true, ↓reduceIte]
  exact ⟨(doOpW_Q r4.1 (.close .tmp) true q4.1).1, trivial⟩

theorem fOldFlush_Q (st : FSnap) (h : Q st) : Q (fOldFlush st) := by
  unfold fOldFlush
  split
  · exact h
  · have q := (doOpW_Q st (.write .main st.s.buf) (!st.fhClosed) h).1
    generalize doOpW st (.write .main st.s.buf) (!st.fhClosed) = r at q ⊢
    simp only
    split
    · exact Q_of_fields q rfl rfl rfl rfl rfl rfl
    · exact Q_of_fields q rfl rfl rfl rfl rfl rfl

theorem fOldClose_Q (st : FSnap) (h : Q st) : Q (fOldClose false st) := by
  unfold fOldClose doOp
  simp only [Bool.false_eq_true, ↓reduceIte]
  refine Q_of_fields (st := if st.fh = true then (doOpW st (.close .main) true).1 else st) ?_ rfl rfl rfl rfl rfl rfl
  split
  · exact (doOpW_Q _ _ _ h).1
  · exact h

theorem fSwapTail_Q (r7 : FSnap) (total : Nat) (q7 : Q r7) : Q (fSwapTail r7 total).1 ∧ (fSwapTail r7 total).2 = .ok := by
  unfold fSwapTail doOp
  have hw : (r7.mainExists || !r7.removeMissingFails) = true := by rw [q7.2.1]; simp
  rw [hw]
  have q8 := doOpW_Q r7 (.remove .main) true q7
  generalize doOpW r7 (.remove .main) true = r8 at q8 ⊢
  simp only [q8.2 rfl, Bool.not_true, Bool.false_eq_true, ↓reduceIte]
  have q8' : Q ({ r8.1 with mainExists := false } : FSnap) := Q_of_fields q8.1 rfl rfl rfl rfl rfl rfl
  have q9 := doOpW_Q _ (.rename .tmp .main) true q8'
  generalize doOpW ({ r8.1 with mainExists := false } : FSnap) (.rename .tmp .main) true = r9 at q9 ⊢
  simp only [q9.2 rfl, Bool.not_true, Bool.false_eq_true, ↓reduceIte]
  have q9' : Q ({ r9.1 with mainExists := true } : FSnap) := Q_of_fields q9.1 rfl rfl rfl rfl rfl rfl
  have q10 := doOpW_Q _ (.openAppend .main) true q9'
  generalize doOpW ({ r9.1 with mainExists := true } : FSnap) (.openAppend .main) true = r10 at q10 ⊢
  simp only [q10.2 rfl, Bool.not_true, Bool.false_eq_true, ↓reduceIte]
  refine ⟨⟨⟨q10.1.1.1, rfl, q10.1.1.2.2⟩, q10.1.2.1, ?_⟩, trivial⟩
  exact q10.1.2.2

/-- **Once the single fault lies in the past, every compaction succeeds** (it installs fresh
handles on a snapshot file that holds the complete in-memory state): in particular the
recovery compaction that `tryAppend` starts right after a failed append. -/
theorem fCompact_ok_of_consumed (st : FSnap) (h : Q st) : Q (fCompact st).1 ∧ (fCompact st).2 = .ok := by
  unfold fCompact
  have q := fCompactFront_Q st (compactLines Order.id st.s) h
  simp only
  generalize fCompactFront st (compactLines Order.id st.s) = r at q ⊢
  simp only [q.2, Bool.not_true, Bool.false_eq_true, ↓reduceIte]
  unfold fCompactSwap
  simp only [q.1.1.2.1, q.1.1.1, Bool.not_true, Bool.false_eq_true, ↓reduceIte]
  exact fSwapTail_Q _ _ (fOldClose_Q _ (fOldFlush_Q _ q.1))

end SerfProofs.SnapshotFault
