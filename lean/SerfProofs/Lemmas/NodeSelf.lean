/-
Frame lemmas of the node model (`SerfModel.Node`) about the running local node: which handlers
touch `name`, `life`, `pending` and the member record of a given name; the invariant
"the node is running and lists itself as alive" (`SelfInv`) and its preservation by every input
that is not the start of a leave.  Used by C03.
Core Lean only.
-/
import SerfProofs.Lemmas.NodeBook
namespace SerfProofs.NodeSelf
open SerfModel SerfModel.Node SerfProofs.NodeBook

/-! ### the Lamport clock -/

/-- Witnessing a time below the wrap point leaves the clock strictly above it. -/
theorem lt_witness (c v : Nat) (h : v < two64 - 1) : v < witness c v := by
  unfold witness
  split
  · assumption
  · simp only [two64] at *; omega

theorem succ_mod_two64 (c : Nat) (h : c < two64 - 1) : (c + 1) % two64 = c + 1 := by
  simp only [two64] at *; omega

/-! ### `handlePrune` -/

theorem handlePrune_name (n : Node) (x : Name) : (handlePrune n x).1.name = n.name := by
  unfold handlePrune; dsimp only; split <;> rfl

theorem handlePrune_life (n : Node) (x : Name) : (handlePrune n x).1.life = n.life := by
  unfold handlePrune; dsimp only; split <;> rfl

theorem handlePrune_pending (n : Node) (x : Name) : (handlePrune n x).1.pending = n.pending := by
  unfold handlePrune; dsimp only; split <;> rfl

/-! ### `handleLeaveIntent` -/

theorem hli_name (n : Node) (x : Name) (lt : Nat) (p : Bool) (w : Nat) :
    (handleLeaveIntent n x lt p w).1.name = n.name := by
  unfold handleLeaveIntent; dsimp only
  split
  · rfl
  · split
    · rfl
    · split
      · rfl
      · split <;> split <;> simp [handlePrune_name]

theorem hli_life (n : Node) (x : Name) (lt : Nat) (p : Bool) (w : Nat) :
    (handleLeaveIntent n x lt p w).1.life = n.life := by
  unfold handleLeaveIntent; dsimp only
  split
  · rfl
  · split
    · rfl
    · split
      · rfl
      · split <;> split <;> simp [handlePrune_life]

/-- A leave claim never cancels a spawned refutation; it may spawn one more. -/
theorem hli_pending (n : Node) (x : Name) (lt : Nat) (p : Bool) (w : Nat) :
    ∃ extra, (handleLeaveIntent n x lt p w).1.pending = n.pending ++ extra := by
  unfold handleLeaveIntent; dsimp only
  split
  · exact ⟨[], by simp⟩
  · split
    · exact ⟨[], by simp⟩
    · split
      · exact ⟨[_], rfl⟩
      · split <;> split <;> exact ⟨[], by simp [handlePrune_pending]⟩

/-- A leave claim about `x` leaves every other record alone. -/
theorem hli_lookup_ne (n : Node) (x : Name) (lt : Nat) (p : Bool) (w : Nat) (y : Name) (hy : y ≠ x) :
    alookup (handleLeaveIntent n x lt p w).1.members y = alookup n.members y := by
  unfold handleLeaveIntent; dsimp only
  split
  · rfl
  · split
    · rfl
    · split
      · rfl
      · split <;> split <;>
          simp [handlePrune_members, alookup_aerase_ne _ _ _ hy, alookup_ainsert_ne _ _ _ _ hy]

/-- A leave claim about the running local node never changes the member map. -/
theorem hli_self_members (n : Node) (lt : Nat) (p : Bool) (w : Nat) (hl : n.life = .alive) :
    (handleLeaveIntent n n.name lt p w).1.members = n.members := by
  unfold handleLeaveIntent; dsimp only
  split
  · rfl
  · split
    · rfl
    · split
      · rfl
      · next hne => exact absurd ⟨rfl, hl⟩ hne

/-- What a newer leave claim about the running local node does, exactly. -/
theorem hli_self_newer (n : Node) (lt w t0 : Nat) (p : Bool) (hl : n.life = .alive)
    (h0 : ltimeOf n n.name = some t0) (hnew : t0 < lt) :
    handleLeaveIntent n n.name lt p w =
      ({ n with clock := witness n.clock lt, pending := n.pending ++ [witness n.clock lt] }, {}) := by
  unfold ltimeOf at h0
  cases hm : alookup n.members n.name with
  | none => simp [hm] at h0
  | some m =>
    simp [hm] at h0
    have hlt : ¬ lt ≤ m.ltime := by omega
    unfold handleLeaveIntent; dsimp only
    split
    · next hnone => rw [hm] at hnone; cases hnone
    · next m' hsome =>
      rw [hm] at hsome; cases hsome
      rw [if_neg hlt, if_pos ⟨rfl, hl⟩]

/-! ### `handleJoinIntent` -/

theorem hji_name (n : Node) (x : Name) (lt w : Nat) : (handleJoinIntent n x lt w).1.name = n.name := by
  unfold handleJoinIntent; dsimp only
  split
  · rfl
  · split <;> rfl

theorem hji_life (n : Node) (x : Name) (lt w : Nat) : (handleJoinIntent n x lt w).1.life = n.life := by
  unfold handleJoinIntent; dsimp only
  split
  · rfl
  · split <;> rfl

theorem hji_pending (n : Node) (x : Name) (lt w : Nat) :
    (handleJoinIntent n x lt w).1.pending = n.pending := by
  unfold handleJoinIntent; dsimp only
  split
  · rfl
  · split <;> rfl

theorem hji_lookup_ne (n : Node) (x : Name) (lt w : Nat) (y : Name) (hy : y ≠ x) :
    alookup (handleJoinIntent n x lt w).1.members y = alookup n.members y := by
  unfold handleJoinIntent; dsimp only
  split
  · rfl
  · split
    · rfl
    · simp [alookup_ainsert_ne _ _ _ _ hy]

/-- A join claim never makes an alive member anything else. -/
theorem hji_alive (n : Node) (x : Name) (lt w : Nat) (y : Name) (h : statusOf n y = some .alive) :
    statusOf (handleJoinIntent n x lt w).1 y = some .alive := by
  by_cases hy : y = x
  · subst hy
    unfold handleJoinIntent; dsimp only
    split
    · exact h
    · next m hsome =>
      have hs : statusOf n y = some m.status := statusOf_of_lookup hsome
      rw [h] at hs
      have hst : m.status = .alive := (Option.some.inj hs).symm
      split
      · exact h
      · rw [statusOf_ainsert rfl]; simp [hst]
  · unfold statusOf
    rw [hji_lookup_ne _ _ _ _ _ hy]
    exact h

/-! ### the merge loops -/

theorem mergeLefts_name (status : List (Name × Nat)) (wall : Nat) (xs : List Name) :
    ∀ n : Node, (mergeLefts n status wall xs).1.name = n.name := by
  induction xs with
  | nil => intro n; rfl
  | cons x xs ih => intro n; unfold mergeLefts; dsimp only; rw [ih, hli_name]

theorem mergeLefts_life (status : List (Name × Nat)) (wall : Nat) (xs : List Name) :
    ∀ n : Node, (mergeLefts n status wall xs).1.life = n.life := by
  induction xs with
  | nil => intro n; rfl
  | cons x xs ih => intro n; unfold mergeLefts; dsimp only; rw [ih, hli_life]

theorem mergeLefts_pending (status : List (Name × Nat)) (wall : Nat) (xs : List Name) :
    ∀ n : Node, ∃ extra, (mergeLefts n status wall xs).1.pending = n.pending ++ extra := by
  induction xs with
  | nil => intro n; exact ⟨[], by simp [mergeLefts]⟩
  | cons x xs ih =>
    intro n
    unfold mergeLefts; dsimp only
    obtain ⟨e1, h1⟩ := hli_pending n x ((((alookup status x).getD 0) + 1) % two64) false wall
    obtain ⟨e2, h2⟩ := ih (handleLeaveIntent n x ((((alookup status x).getD 0) + 1) % two64) false wall).1
    exact ⟨e1 ++ e2, by rw [h2, h1, List.append_assoc]⟩

/-- The first merge loop never changes the record of the running local node. -/
theorem mergeLefts_self_lookup (status : List (Name × Nat)) (wall : Nat) (xs : List Name) :
    ∀ n : Node, n.life = .alive →
      alookup (mergeLefts n status wall xs).1.members n.name = alookup n.members n.name := by
  induction xs with
  | nil => intro n _; rfl
  | cons x xs ih =>
    intro n hl
    unfold mergeLefts; dsimp only
    have hn := hli_name n x ((((alookup status x).getD 0) + 1) % two64) false wall
    have hlf := hli_life n x ((((alookup status x).getD 0) + 1) % two64) false wall
    have := ih (handleLeaveIntent n x ((((alookup status x).getD 0) + 1) % two64) false wall).1 (by rw [hlf]; exact hl)
    rw [hn] at this
    rw [this]
    by_cases hx : n.name = x
    · subst hx; rw [hli_self_members _ _ _ _ hl]
    · exact hli_lookup_ne _ _ _ _ _ _ hx

theorem mergeJoins_name (left : List Name) (wall : Nat) (st : List (Name × Nat)) :
    ∀ n : Node, (mergeJoins n left wall st).name = n.name := by
  induction st with
  | nil => intro n; rfl
  | cons p rest ih =>
    intro n
    obtain ⟨x, t⟩ := p
    unfold mergeJoins
    split
    · exact ih _
    · rw [ih, hji_name]

theorem mergeJoins_life (left : List Name) (wall : Nat) (st : List (Name × Nat)) :
    ∀ n : Node, (mergeJoins n left wall st).life = n.life := by
  induction st with
  | nil => intro n; rfl
  | cons p rest ih =>
    intro n
    obtain ⟨x, t⟩ := p
    unfold mergeJoins
    split
    · exact ih _
    · rw [ih, hji_life]

theorem mergeJoins_pending (left : List Name) (wall : Nat) (st : List (Name × Nat)) :
    ∀ n : Node, (mergeJoins n left wall st).pending = n.pending := by
  induction st with
  | nil => intro n; rfl
  | cons p rest ih =>
    intro n
    obtain ⟨x, t⟩ := p
    unfold mergeJoins
    split
    · exact ih _
    · rw [ih, hji_pending]

theorem mergeJoins_alive (left : List Name) (wall : Nat) (st : List (Name × Nat)) (y : Name) :
    ∀ n : Node, statusOf n y = some .alive → statusOf (mergeJoins n left wall st) y = some .alive := by
  induction st with
  | nil => intro n h; exact h
  | cons p rest ih =>
    intro n h
    obtain ⟨x, t⟩ := p
    unfold mergeJoins
    split
    · exact ih _ h
    · exact ih _ (hji_alive _ _ _ _ _ h)

/-- The second merge loop skips the names listed as left. -/
theorem mergeJoins_lookup_of_mem_left (left : List Name) (wall : Nat) (st : List (Name × Nat)) (y : Name)
    (hy : y ∈ left) : ∀ n : Node, alookup (mergeJoins n left wall st).members y = alookup n.members y := by
  induction st with
  | nil => intro n; rfl
  | cons p rest ih =>
    intro n
    obtain ⟨x, t⟩ := p
    unfold mergeJoins
    split
    · exact ih _
    · next hx =>
      rw [ih]
      apply hji_lookup_ne
      intro e; subst e; exact hx hy

/-- The node `MergeRemoteState` runs its two loops on: the remote clock (minus one) is witnessed. -/
def mergeStart (n : Node) (lt : Nat) : Node :=
  if 0 < lt then { n with clock := witness n.clock (lt - 1) } else n

theorem merge_eq (n : Node) (lt : Nat) (status : List (Name × Nat)) (left : List Name) (wall : Nat) :
    merge n lt status left wall =
      (mergeJoins (mergeLefts (mergeStart n lt) status wall left).1 left wall status,
       { events := (mergeLefts (mergeStart n lt) status wall left).2 }) := rfl

theorem mergeStart_name (n : Node) (lt : Nat) : (mergeStart n lt).name = n.name := by
  unfold mergeStart; split <;> rfl

theorem mergeStart_life (n : Node) (lt : Nat) : (mergeStart n lt).life = n.life := by
  unfold mergeStart; split <;> rfl

theorem mergeStart_members (n : Node) (lt : Nat) : (mergeStart n lt).members = n.members := by
  unfold mergeStart; split <;> rfl

theorem mergeStart_pending (n : Node) (lt : Nat) : (mergeStart n lt).pending = n.pending := by
  unfold mergeStart; split <;> rfl

/-- The Lamport time `MergeRemoteState` puts on its leave claim about a member the remote side
lists as left: `StatusLTimes[name] + 1` (uint64). -/
def mergeClaim (status : List (Name × Nat)) (x : Name) : Nat := (((alookup status x).getD 0) + 1) % two64

/-- If the first merge loop meets the running local node with a newer claim time, a refuting join
with a later time is spawned and is still pending when the loop ends. -/
theorem mergeLefts_refutes (status : List (Name × Nat)) (wall t0 : Nat) (xs : List Name) :
    ∀ n : Node, n.life = .alive → n.name ∈ xs → ltimeOf n n.name = some t0 →
      t0 < mergeClaim status n.name → mergeClaim status n.name < two64 - 1 →
      ∃ t ∈ (mergeLefts n status wall xs).1.pending, mergeClaim status n.name < t := by
  induction xs with
  | nil => intro n _ hm; simp at hm
  | cons x xs ih =>
    intro n hl hm h0 hnew hmax
    by_cases hx : x = n.name
    · subst hx
      unfold mergeLefts; dsimp only
      obtain ⟨e, he⟩ := mergeLefts_pending status wall xs
        (handleLeaveIntent n n.name (mergeClaim status n.name) false wall).1
      unfold mergeClaim at he hnew hmax ⊢
      rw [he, hli_self_newer n _ wall t0 false hl h0 hnew]
      exact ⟨witness n.clock ((((alookup status n.name).getD 0) + 1) % two64), by simp, lt_witness _ _ hmax⟩
    · have hm' : n.name ∈ xs := by
        rcases List.mem_cons.mp hm with e | e
        · exact absurd e.symm hx
        · exact e
      have hne : n.name ≠ x := fun e => hx e.symm
      unfold mergeLefts; dsimp only
      have hn := hli_name n x ((((alookup status x).getD 0) + 1) % two64) false wall
      have hlf := hli_life n x ((((alookup status x).getD 0) + 1) % two64) false wall
      have hlk := hli_lookup_ne n x ((((alookup status x).getD 0) + 1) % two64) false wall n.name hne
      have := ih (handleLeaveIntent n x ((((alookup status x).getD 0) + 1) % two64) false wall).1
        (by rw [hlf]; exact hl) (by rw [hn]; exact hm')
        (by rw [hn]; unfold ltimeOf; rw [hlk]; exact h0) (by rw [hn]; exact hnew) (by rw [hn]; exact hmax)
      rw [hn] at this
      exact this

/-! ### the invariant "running and listing itself as alive" -/

structure SelfInv (me : Name) (n : Node) : Prop where
  name : n.name = me
  life : n.life = .alive
  status : statusOf n me = some .alive

theorem self_handleNodeJoin (self : Name) (n : Node) (x : Name) (h : SelfInv self n) :
    SelfInv self (handleNodeJoin n x).1 := by
  unfold handleNodeJoin
  split
  · next hnone =>
    refine ⟨h.name, h.life, ?_⟩
    rw [statusOf_ainsert rfl]
    by_cases hx : self = x
    · subst hx
      have := h.status
      rw [statusOf_of_lookup_none hnone] at this
      cases this
    · simp [hx, h.status]
  · next m hsome =>
    dsimp only
    split
    · refine ⟨h.name, h.life, ?_⟩
      rw [statusOf_ainsert rfl]
      by_cases hx : self = x <;> simp [hx, h.status]
    · refine ⟨h.name, h.life, ?_⟩
      rw [statusOf_ainsert rfl]
      by_cases hx : self = x <;> simp [hx, h.status]

theorem self_handleNodeLeave (self : Name) (n : Node) (x : Name) (a : Nat) (h : SelfInv self n)
    (hx : x ≠ self) : SelfInv self (handleNodeLeave n x a).1 := by
  have hx' : self ≠ x := fun e => hx e.symm
  unfold handleNodeLeave
  split
  · exact h
  · split
    · refine ⟨h.name, h.life, ?_⟩
      rw [statusOf_ainsert rfl]; simp [hx', h.status]
    · refine ⟨h.name, h.life, ?_⟩
      rw [statusOf_ainsert rfl]; simp [hx', h.status]
    · exact h

theorem self_handleNodeUpdate (self : Name) (n : Node) (x : Name) (h : SelfInv self n) :
    SelfInv self (handleNodeUpdate n x).1 := by
  unfold handleNodeUpdate
  split <;> exact h

theorem self_handleLeaveIntent (self : Name) (n : Node) (x : Name) (lt : Nat) (p : Bool) (w : Nat)
    (h : SelfInv self n) : SelfInv self (handleLeaveIntent n x lt p w).1 := by
  refine ⟨by rw [hli_name]; exact h.name, by rw [hli_life]; exact h.life, ?_⟩
  by_cases hx : self = x
  · subst hx
    have hm := hli_self_members n lt p w h.life
    rw [h.name] at hm
    rw [statusOf_congr hm]; exact h.status
  · unfold statusOf
    rw [hli_lookup_ne _ _ _ _ _ _ hx]
    exact h.status

theorem self_handleJoinIntent (self : Name) (n : Node) (x : Name) (lt w : Nat) (h : SelfInv self n) :
    SelfInv self (handleJoinIntent n x lt w).1 :=
  ⟨by rw [hji_name]; exact h.name, by rw [hji_life]; exact h.life, hji_alive _ _ _ _ _ h.status⟩

theorem SelfInv.congr {self : Name} {n n' : Node} (h : SelfInv self n) (hn : n'.name = n.name)
    (hl : n'.life = n.life) (hm : n'.members = n.members) : SelfInv self n' :=
  ⟨by rw [hn]; exact h.name, by rw [hl]; exact h.life, by rw [statusOf_congr hm]; exact h.status⟩

theorem self_broadcastJoin (self : Name) (n : Node) (t w : Nat) (h : SelfInv self n) :
    SelfInv self (broadcastJoin n t w).1 := by
  unfold broadcastJoin
  exact self_handleJoinIntent _ _ _ _ _ (h.congr rfl rfl rfl)

theorem self_runPending (self : Name) (n : Node) (w : Nat) (h : SelfInv self n) :
    SelfInv self (runPending n w).1 := by
  unfold runPending
  split
  · exact h
  · exact self_broadcastJoin _ _ _ _ (h.congr rfl rfl rfl)

theorem self_mergeLefts (self : Name) (status : List (Name × Nat)) (wall : Nat) (xs : List Name) :
    ∀ n : Node, SelfInv self n → SelfInv self (mergeLefts n status wall xs).1 := by
  induction xs with
  | nil => intro n h; exact h
  | cons x xs ih =>
    intro n h
    unfold mergeLefts
    exact ih _ (self_handleLeaveIntent _ _ _ _ _ _ h)

theorem self_mergeJoins (self : Name) (left : List Name) (wall : Nat) (st : List (Name × Nat)) (n : Node)
    (h : SelfInv self n) : SelfInv self (mergeJoins n left wall st) :=
  ⟨by rw [mergeJoins_name]; exact h.name, by rw [mergeJoins_life]; exact h.life,
   mergeJoins_alive _ _ _ _ _ h.status⟩

theorem self_merge (self : Name) (n : Node) (lt : Nat) (status : List (Name × Nat)) (left : List Name)
    (wall : Nat) (h : SelfInv self n) : SelfInv self (merge n lt status left wall).1 := by
  unfold merge
  dsimp only
  apply self_mergeJoins
  apply self_mergeLefts
  split
  · exact h.congr rfl rfl rfl
  · exact h

theorem self_forceLeave (self : Name) (n : Node) (x : Name) (p : Bool) (w : Nat) (h : SelfInv self n) :
    SelfInv self (forceLeave n x p w).1 := by
  unfold forceLeave
  exact self_handleLeaveIntent _ _ _ _ _ _ (h.congr rfl rfl rfl)

theorem self_leaveEnd (self : Name) (n : Node) (h : SelfInv self n) : SelfInv self (leaveEnd n) := by
  unfold leaveEnd
  rw [if_neg (by rw [h.life]; simp)]
  exact h

/-- The reaper cannot remove an alive member: under the bookkeeping invariant it is on neither list. -/
theorem self_reap (self : Name) (n : Node) (now : Nat) (ov : Name → Nat → Nat) (hb : BookInv n)
    (h : SelfInv self n) : SelfInv self (reap n now ov).1 := by
  refine ⟨h.name, h.life, ?_⟩
  have h2 : self ∉ reapedLeft n now ov := by
    intro hm
    have := ((mem_reapedLeft hb now ov self).mp hm).1
    rw [h.status] at this; cases this
  have h1 : self ∉ reapedFailed n now ov := by
    intro hm
    have := ((mem_reapedFailed hb now ov self).mp hm).1
    rw [h.status] at this; cases this
  unfold statusOf
  rw [reap_members_eq, alookup_eraseAll, alookup_eraseAll, if_neg h2, if_neg h1]
  exact h.status

/-- The operations by which the member begins leaving: `Leave()`, `Shutdown()`, and memberlist
reporting the local node dead. -/
def departs (self : Name) : Op → Bool
  | .leaveBegin _ => true
  | .shutdown => true
  | .nodeLeave x _ => x == self
  | _ => false

theorem self_step (self : Name) (n : Node) (op : Op) (hb : BookInv n) (h : SelfInv self n)
    (hd : departs self op = false) : SelfInv self (step n op).1 := by
  cases op with
  | nodeJoin x => exact self_handleNodeJoin self n x h
  | nodeLeave x a =>
    refine self_handleNodeLeave self n x a h ?_
    intro e; subst e; simp [departs] at hd
  | nodeUpdate x => exact self_handleNodeUpdate self n x h
  | joinMsg x lt w => exact self_handleJoinIntent self n x lt w h
  | leaveMsg x lt p w => exact self_handleLeaveIntent self n x lt p w h
  | merge lt st lf w => exact self_merge self n lt st lf w h
  | forceLeave x p w => exact self_forceLeave self n x p w h
  | ownJoin w => exact self_broadcastJoin self n n.clock w h
  | leaveBegin w => simp [departs] at hd
  | leaveEnd => exact self_leaveEnd self n h
  | shutdown => simp [departs] at hd
  | reap now ov => exact self_reap self n now ov hb h
  | runPending w => exact self_runPending self n w h

theorem self_run (self : Name) (ops : List Op) :
    ∀ n : Node, BookInv n → SelfInv self n → (∀ op ∈ ops, departs self op = false) →
      SelfInv self (run n ops) := by
  induction ops with
  | nil => intro n _ h _; exact h
  | cons op ops ih =>
    intro n hb h hd
    exact ih _ (inv_step n op hb) (self_step self n op hb h (hd op (by simp)))
      (fun o ho => hd o (by simp [ho]))

/-! ### spawned refutations are never cancelled -/

theorem pending_step (n : Node) (op : Op) (h : ∀ w, op ≠ .runPending w) :
    ∃ extra, (step n op).1.pending = n.pending ++ extra := by
  cases op with
  | nodeJoin x =>
    refine ⟨[], ?_⟩
    show (handleNodeJoin n x).1.pending = _
    unfold handleNodeJoin
    split
    · simp
    · dsimp only; split <;> simp
  | nodeLeave x a =>
    refine ⟨[], ?_⟩
    show (handleNodeLeave n x a).1.pending = _
    unfold handleNodeLeave
    split
    · simp
    · split <;> simp
  | nodeUpdate x =>
    refine ⟨[], ?_⟩
    show (handleNodeUpdate n x).1.pending = _
    unfold handleNodeUpdate
    split <;> simp
  | joinMsg x lt w => exact ⟨[], by show (handleJoinIntent n x lt w).1.pending = _; simp [hji_pending]⟩
  | leaveMsg x lt p w => exact hli_pending n x lt p w
  | merge lt st lf w =>
    show ∃ extra, (merge n lt st lf w).1.pending = _
    unfold merge
    dsimp only
    rw [mergeJoins_pending]
    split
    · exact mergeLefts_pending st w lf _
    · exact mergeLefts_pending st w lf _
  | forceLeave x p w =>
    show ∃ extra, (forceLeave n x p w).1.pending = _
    unfold forceLeave
    exact hli_pending _ x _ p w
  | ownJoin w =>
    refine ⟨[], ?_⟩
    show (broadcastJoin n n.clock w).1.pending = _
    unfold broadcastJoin
    simp [hji_pending]
  | leaveBegin w =>
    show ∃ extra, (leaveBegin n w).1.pending = _
    unfold leaveBegin
    split
    · exact ⟨[], by simp⟩
    · exact hli_pending _ _ _ _ _
  | leaveEnd =>
    refine ⟨[], ?_⟩
    show (leaveEnd n).pending = _
    unfold leaveEnd
    split <;> simp
  | shutdown => exact ⟨[], by simp [step]⟩
  | reap now ov => exact ⟨[], by simp [step, reap]⟩
  | runPending w => exact absurd rfl (h w)

theorem runPending_cons (n : Node) (t : Nat) (rest : List Nat) (wall : Nat) (hp : n.pending = t :: rest) :
    (runPending n wall).2.queued = [Msg.join n.name t] ∧ (runPending n wall).1.pending = rest := by
  unfold runPending
  rw [hp]
  dsimp only
  unfold broadcastJoin
  exact ⟨rfl, by rw [hji_pending]⟩

end SerfProofs.NodeSelf
