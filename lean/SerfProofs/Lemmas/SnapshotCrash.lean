/-
Crash points of the snapshotter model (process-crash semantics): torn writes recover
a prefix of the lines, and along every prefix of every life's operation list the
snapshot file exists — except in the window of `compact` between `remove(path)` and
`rename(path.compact, path)`, where `path.compact` holds the compacted state.
-/
import SerfProofs.Lemmas.SnapshotRuns
namespace SerfProofs.Snapshot
open SerfModel SerfModel.Snapshot

attribute [local irreducible] lastSeenOf

/-! ### torn writes -/

theorem splitLines_noNL (p : Bytes) (h : '\n' ∉ p) : splitLines p = [] := by
  induction p with
  | nil => rfl
  | cons c cs ih =>
    simp only [List.mem_cons, not_or] at h
    have hc : ¬ c = '\n' := fun e => h.1 e.symm
    rw [splitLines_cons]
    simp [hc, ih h.2]

/-- an unterminated tail is ignored by replay -/
theorem replay_torn_tail (rj : Bool) (x p : Bytes) (hx : endsNL x = true) (hp : '\n' ∉ p) :
    replay rj (x ++ p) = replay rj x := by
  rw [replay_append rj x p hx, splitLines_noNL p hp]; rfl

theorem take_lt_noNL (b : Bytes) (hb : '\n' ∉ b) (c : Nat) (hc : c < (b ++ ['\n']).length) :
    '\n' ∉ (b ++ ['\n']).take c := by
  have hlen : c ≤ b.length := by simp at hc; omega
  rw [List.take_append_of_le_length hlen]
  intro hm
  exact hb (List.mem_of_mem_take hm)

/-- **A write cut at any byte recovers a prefix of the appended lines.** -/
theorem replay_cut_prefix (rj : Bool) (ls : List Line) (hls : ∀ l ∈ ls, WFLine l) :
    ∀ (x : Bytes) (c : Nat), endsNL x = true →
      ∃ j, j ≤ ls.length ∧
        replay rj (x ++ (ls.flatMap printLine).take c) = (ls.take j).foldl (applyLine rj) (replay rj x) := by
  induction ls with
  | nil => intro x c hx; exact ⟨0, Nat.le_refl _, by simp⟩
  | cons l t ih =>
    intro x c hx
    have hl := hls l List.mem_cons_self
    by_cases hc : c < (printLine l).length
    · refine ⟨0, Nat.zero_le _, ?_⟩
      have : ((l :: t).flatMap printLine).take c = (printLine l).take c := by
        simp only [List.flatMap_cons]
        exact List.take_append_of_le_length (Nat.le_of_lt hc)
      rw [this]
      simp only [List.take_zero, List.foldl_nil]
      exact replay_torn_tail rj x _ hx (take_lt_noNL _ (printBody_noNL l hl) c hc)
    · have hge : (printLine l).length ≤ c := Nat.le_of_not_lt hc
      have : ((l :: t).flatMap printLine).take c = printLine l ++ (t.flatMap printLine).take (c - (printLine l).length) := by
        simp only [List.flatMap_cons]
        rw [List.take_append, List.take_of_length_le hge]
      rw [this, ← List.append_assoc]
      have hx' : endsNL (x ++ printLine l) = true := endsNL_append _ _ hx (endsNL_printLine l)
      obtain ⟨j, hj, he⟩ := ih (fun m hm => hls m (List.mem_cons_of_mem _ hm)) (x ++ printLine l) (c - (printLine l).length) hx'
      refine ⟨j + 1, by simp; omega, ?_⟩
      rw [he, replay_append_line rj x l hx hl]
      simp

/-! ### the snapshot file along every prefix of the operation list -/

/-- the snapshot file exists, or we are in the window where `path.compact` holds the state -/
def CrashOK (fs : FS) : Prop := fs.main.isSome = true ∨ (fs.main = none ∧ fs.tmp.isSome = true)

/-- starting from a directory where the snapshot file exists, every prefix of `ops` leaves
a `CrashOK` directory and the whole list one where the snapshot file exists again -/
def Safe (ops : List FsOp) : Prop :=
  ∀ fs : FS, fs.main.isSome = true →
    (∀ k, CrashOK (fs.applyAll (ops.take k))) ∧ (fs.applyAll ops).main.isSome = true

theorem Safe.nil : Safe [] := fun fs h => ⟨fun k => by simp [FS.applyAll, CrashOK, h], h⟩

theorem Safe.append {a b : List FsOp} (ha : Safe a) (hb : Safe b) : Safe (a ++ b) := by
  intro fs h
  obtain ⟨ha1, ha2⟩ := ha fs h
  obtain ⟨hb1, hb2⟩ := hb _ ha2
  refine ⟨fun k => ?_, by rw [applyAll_append]; exact hb2⟩
  rw [List.take_append]
  by_cases hk : k ≤ a.length
  · have : k - a.length = 0 := by omega
    rw [this, List.take_zero, List.append_nil]
    exact ha1 k
  · rw [List.take_of_length_le (by omega), applyAll_append]
    exact hb1 _

/-- operations that keep the snapshot file in place (anything but remove/rename of it) -/
def keepsMain : FsOp → Bool
  | .remove .main => false
  | .rename _ _ => false
  | _ => true

theorem apply_keepsMain (fs : FS) (o : FsOp) (ho : keepsMain o = true) (h : fs.main.isSome = true) :
    (fs.apply o).main.isSome = true := by
  cases o with
  | openAppend p => cases p <;> simp [FS.apply, FS.get, FS.set] <;> split <;> simp_all [FS.set]
  | openTrunc p => cases p <;> simp [FS.apply, FS.set, h]
  | write p d => cases p <;> simp [FS.apply, FS.get, FS.set] <;> split <;> simp_all [FS.set]
  | flush p => simpa [FS.apply] using h
  | sync p => simpa [FS.apply] using h
  | close p => simpa [FS.apply] using h
  | remove p => cases p <;> simp_all [keepsMain, FS.apply, FS.set]
  | rename a b => simp [keepsMain] at ho
  | truncate p n => cases p <;> simp [FS.apply, FS.get, FS.set] <;> split <;> simp_all [FS.set]

theorem Safe.of_keepsMain (ops : List FsOp) (h : ∀ o ∈ ops, keepsMain o = true) : Safe ops := by
  induction ops with
  | nil => exact Safe.nil
  | cons o t ih =>
    have h1 : Safe [o] := by
      intro fs hfs
      have := apply_keepsMain fs o (h o List.mem_cons_self) hfs
      refine ⟨fun k => ?_, this⟩
      cases k with
      | zero => simp [FS.applyAll, CrashOK, hfs]
      | succ k => simp [FS.applyAll, CrashOK, this]
    exact Safe.append (a := [o]) h1 (ih (fun x hx => h x (List.mem_cons_of_mem _ hx)))

theorem keepsMain_writes (p : Path) (ws : List Bytes) : ∀ o ∈ ws.map (FsOp.write p), keepsMain o = true := by
  intro o ho
  obtain ⟨w, _, rfl⟩ := List.mem_map.mp ho
  rfl

theorem keepsMain_flushOps (p : Path) (b : Bytes) : ∀ o ∈ flushOps p b, keepsMain o = true := by
  intro o ho
  unfold flushOps at ho
  split at ho <;> simp at ho <;> rcases ho with rfl | rfl <;> rfl

theorem safe_appendBytes (s : Snap) (l : Bytes) : Safe (appendBytes s l).2 := by
  unfold appendBytes
  simp only
  split
  · exact Safe.append (Safe.of_keepsMain _ (keepsMain_writes _ _)) (Safe.of_keepsMain _ (keepsMain_flushOps _ _))
  · exact Safe.of_keepsMain _ (keepsMain_writes _ _)

/-- the tail of `compact`: close, remove, rename, reopen — the window -/
theorem safe_swap_of_tmp (fs : FS) (h : fs.main.isSome = true) (ht : fs.tmp.isSome = true) :
    (∀ k, CrashOK (fs.applyAll (([.close .main, .remove .main, .rename .tmp .main, .openAppend .main] : List FsOp).take k))) ∧
      (fs.applyAll [.close .main, .remove .main, .rename .tmp .main, .openAppend .main]).main.isSome = true := by
  obtain ⟨m, hm⟩ := Option.isSome_iff_exists.mp h
  obtain ⟨t, htt⟩ := Option.isSome_iff_exists.mp ht
  constructor
  · intro k
    match k with
    | 0 => simp [FS.applyAll, CrashOK, h]
    | 1 => simp [FS.applyAll, FS.apply, CrashOK, h]
    | 2 => simp [FS.applyAll, FS.apply, FS.set, CrashOK, ht]
    | 3 => simp [FS.applyAll, FS.apply, FS.set, FS.get, CrashOK, htt]
    | n + 4 => simp [FS.applyAll, FS.apply, FS.set, FS.get, CrashOK, htt]
  · simp [FS.applyAll, FS.apply, FS.set, FS.get, htt]

theorem compact_ops_eq (ord : Order) (s : Snap) :
    (compact ord s).2 =
      ([.openTrunc .tmp] ++ (bufWriteAll [] (compactLines ord s)).2.map (.write .tmp) ++
        flushOps .tmp (bufWriteAll [] (compactLines ord s)).1 ++ [.sync .tmp, .close .tmp] ++ flushOps .main s.buf) ++
      [.close .main, .remove .main, .rename .tmp .main, .openAppend .main] := by
  simp [compact, List.append_assoc]

theorem tmp_after_front (fs : FS) (front : List FsOp) (h : ∀ o ∈ front, keepsMain o = true)
    (hkeep : ∀ o ∈ front, (match o with | .remove .tmp => false | _ => true) = true)
    (ht : fs.tmp.isSome = true) : (fs.applyAll front).tmp.isSome = true := by
  induction front generalizing fs with
  | nil => exact ht
  | cons o t ih =>
    rw [applyAll_cons]
    apply ih (fs.apply o) (fun x hx => h x (List.mem_cons_of_mem _ hx)) (fun x hx => hkeep x (List.mem_cons_of_mem _ hx))
    have ho := h o List.mem_cons_self
    have hk := hkeep o List.mem_cons_self
    cases o with
    | openAppend p => cases p <;> simp [FS.apply, FS.get, FS.set] <;> split <;> simp_all [FS.set]
    | openTrunc p => cases p <;> simp [FS.apply, FS.set, ht]
    | write p d => cases p <;> simp [FS.apply, FS.get, FS.set] <;> split <;> simp_all [FS.set]
    | flush p => simpa [FS.apply] using ht
    | sync p => simpa [FS.apply] using ht
    | close p => simpa [FS.apply] using ht
    | remove p => cases p <;> simp_all [keepsMain, FS.apply, FS.set]
    | rename a b => simp [keepsMain] at ho
    | truncate p n => cases p <;> simp [FS.apply, FS.get, FS.set] <;> split <;> simp_all [FS.set]

theorem safe_compact (ord : Order) (s : Snap) : Safe (compact ord s).2 := by
  intro fs h
  rw [compact_ops_eq]
  -- the front part keeps the snapshot file and creates path.compact
  have hfrontK : ∀ o ∈ ([FsOp.openTrunc .tmp] ++ (bufWriteAll [] (compactLines ord s)).2.map (.write .tmp) ++
        flushOps .tmp (bufWriteAll [] (compactLines ord s)).1 ++ [.sync .tmp, .close .tmp] ++ flushOps .main s.buf),
        keepsMain o = true ∧ (match o with | .remove .tmp => false | _ => true) = true := by
    intro o ho
    simp only [List.mem_append, List.mem_cons, List.not_mem_nil, or_false, List.mem_map] at ho
    rcases ho with (((rfl | ⟨w, _, rfl⟩) | ho) | rfl | rfl) | ho
    · exact ⟨rfl, rfl⟩
    · exact ⟨rfl, rfl⟩
    · unfold flushOps at ho; split at ho <;> simp at ho <;> rcases ho with rfl | rfl <;> exact ⟨rfl, rfl⟩
    · exact ⟨rfl, rfl⟩
    · exact ⟨rfl, rfl⟩
    · unfold flushOps at ho; split at ho <;> simp at ho <;> rcases ho with rfl | rfl <;> exact ⟨rfl, rfl⟩
  generalize hF : ([FsOp.openTrunc .tmp] ++ (bufWriteAll [] (compactLines ord s)).2.map (.write .tmp) ++
        flushOps .tmp (bufWriteAll [] (compactLines ord s)).1 ++ [.sync .tmp, .close .tmp] ++ flushOps .main s.buf) = front at hfrontK ⊢
  have hsafeF : Safe front := Safe.of_keepsMain front (fun o ho => (hfrontK o ho).1)
  obtain ⟨hF1, hF2⟩ := hsafeF fs h
  -- after the front part path.compact exists
  have htmp : (fs.applyAll front).tmp.isSome = true := by
    subst hF
    rw [List.append_assoc, List.append_assoc, List.append_assoc, applyAll_append]
    have h1 : (fs.applyAll [FsOp.openTrunc .tmp]).tmp.isSome = true := by simp [FS.applyAll, FS.apply, FS.set]
    apply tmp_after_front _ _ _ _ h1
    · intro o ho; exact (hfrontK o (by simp only [List.append_assoc]; exact List.mem_append_right _ ho)).1
    · intro o ho; exact (hfrontK o (by simp only [List.append_assoc]; exact List.mem_append_right _ ho)).2
  obtain ⟨hS1, hS2⟩ := safe_swap_of_tmp _ hF2 htmp
  refine ⟨fun k => ?_, by rw [applyAll_append]; exact hS2⟩
  rw [List.take_append]
  by_cases hk : k ≤ front.length
  · have : k - front.length = 0 := by omega
    rw [this, List.take_zero, List.append_nil]
    exact hF1 k
  · rw [List.take_of_length_le (by omega), applyAll_append]
    exact hS1 _

theorem safe_appendLine (ord : Order) (s : Snap) (l : Bytes) : Safe (appendLine ord s l).2 := by
  unfold appendLine
  simp only
  split
  · exact Safe.append (safe_appendBytes s l) (safe_compact ord _)
  · exact safe_appendBytes s l

theorem safe_updateClock (ord : Order) (s : Snap) (clk : Nat) : Safe (updateClock ord s clk).2 := by
  by_cases hcond : lastSeenOf clk > s.lastClock
  · simp only [updateClock, hcond, ↓reduceIte]; exact safe_appendLine ord _ _
  · simp only [updateClock, hcond, ↓reduceIte]; exact Safe.nil

theorem safe_joinMembers (ord : Order) (ms : List (Name × Addr)) : ∀ s, Safe (joinMembers ord s ms).2 := by
  induction ms with
  | nil => intro s; exact Safe.nil
  | cons p ms ih => intro s; obtain ⟨n, a⟩ := p; simp only [joinMembers]; exact Safe.append (safe_appendLine ord _ _) (ih _)

theorem safe_goneMembers (ord : Order) (ns : List Name) : ∀ s, Safe (goneMembers ord s ns).2 := by
  induction ns with
  | nil => intro s; exact Safe.nil
  | cons n ns ih => intro s; simp only [goneMembers]; exact Safe.append (safe_appendLine ord _ _) (ih _)

theorem safe_step (ord : Order) (s : Snap) (ev : Ev) : Safe (step ord s ev).2 := by
  cases ev with
  | join ms clk =>
    simp only [step]; split
    · exact Safe.nil
    · exact Safe.append (safe_joinMembers ord ms s) (safe_updateClock ord _ clk)
  | gone ns clk =>
    simp only [step]; split
    · exact Safe.nil
    · exact Safe.append (safe_goneMembers ord ns s) (safe_updateClock ord _ clk)
  | memberOther clk =>
    simp only [step]; split
    · exact Safe.nil
    · exact safe_updateClock ord s clk
  | user lt =>
    simp only [step]; split
    · exact Safe.nil
    · split
      · exact Safe.nil
      · exact safe_appendLine ord _ _
  | query lt =>
    simp only [step]; split
    · exact Safe.nil
    · split
      · exact Safe.nil
      · exact safe_appendLine ord _ _
  | clockTick clk => exact safe_updateClock ord s clk
  | leave =>
    simp only [step]
    exact Safe.append (Safe.append (safe_appendLine ord _ _) (Safe.of_keepsMain _ (keepsMain_flushOps _ _)))
      (Safe.of_keepsMain _ (by intro o ho; simp at ho; subst ho; rfl))
  | timePasses => exact Safe.nil
  | forceCompact => exact safe_compact ord s

theorem safe_run (ord : Order) (evs : List Ev) : ∀ s, Safe (run ord s evs).2 := by
  induction evs with
  | nil => intro s; exact Safe.nil
  | cons e es ih => intro s; rw [run_cons]; exact Safe.append (safe_step ord s e) (ih _)

theorem safe_shutdown (ord : Order) (s : Snap) (clk : Nat) : Safe (shutdown ord s clk).2 := by
  rw [shutdown_snd]
  exact Safe.append (safe_updateClock ord s clk)
    (Safe.append (Safe.of_keepsMain _ (keepsMain_flushOps _ _))
      (Safe.of_keepsMain _ (by intro o ho; simp at ho; rcases ho with rfl | rfl <;> rfl)))

end SerfProofs.Snapshot

namespace SerfProofs.Snapshot
open SerfModel SerfModel.Snapshot

/-! ### what is on disk at every crash point of a compaction -/

/-- operations on `path.compact` only -/
def tmpOnly : FsOp → Bool
  | .openTrunc .tmp => true
  | .write .tmp _ => true
  | .flush .tmp => true
  | .sync .tmp => true
  | .close .tmp => true
  | _ => false

theorem apply_tmpOnly_main (fs : FS) (o : FsOp) (h : tmpOnly o = true) : (fs.apply o).main = fs.main := by
  cases o with
  | openTrunc p => cases p <;> simp_all [tmpOnly, FS.apply, FS.set]
  | write p d => cases p <;> simp_all [tmpOnly, FS.apply, FS.get, FS.set] <;> split <;> simp_all [FS.set]
  | flush p => rfl
  | sync p => rfl
  | close p => rfl
  | openAppend p => simp [tmpOnly] at h
  | remove p => simp [tmpOnly] at h
  | rename a b => simp [tmpOnly] at h
  | truncate p n => simp [tmpOnly] at h

theorem applyAll_tmpOnly_main (ops : List FsOp) (h : ∀ o ∈ ops, tmpOnly o = true) : ∀ fs : FS,
    (fs.applyAll ops).main = fs.main := by
  induction ops with
  | nil => intro fs; rfl
  | cons o t ih =>
    intro fs
    rw [applyAll_cons, ih (fun x hx => h x (List.mem_cons_of_mem _ hx)), apply_tmpOnly_main fs o (h o List.mem_cons_self)]

/-- the temp-file phase of `compact` -/
def compactTmpOps (ord : Order) (s : Snap) : List FsOp :=
  [.openTrunc .tmp] ++ (bufWriteAll [] (compactLines ord s)).2.map (.write .tmp) ++
    flushOps .tmp (bufWriteAll [] (compactLines ord s)).1 ++ [.sync .tmp, .close .tmp]

theorem compactTmpOps_tmpOnly (ord : Order) (s : Snap) : ∀ o ∈ compactTmpOps ord s, tmpOnly o = true := by
  intro o ho
  simp only [compactTmpOps, List.mem_append, List.mem_cons, List.not_mem_nil, or_false, List.mem_map] at ho
  rcases ho with ((rfl | ⟨w, _, rfl⟩) | ho) | rfl | rfl
  · rfl
  · rfl
  · unfold flushOps at ho; split at ho <;> simp at ho <;> rcases ho with rfl | rfl <;> rfl
  · rfl
  · rfl

theorem compactTmpOps_result (ord : Order) (s : Snap) (fs : FS) :
    (fs.applyAll (compactTmpOps ord s)).tmp = some (compactLines ord s).flatten ∧
    (fs.applyAll (compactTmpOps ord s)).main = fs.main := by
  refine ⟨?_, applyAll_tmpOnly_main _ (compactTmpOps_tmpOnly ord s) fs⟩
  have hc := bufWriteAll_concat (compactLines ord s) []
  simp only [compactTmpOps]
  rw [applyAll_append, applyAll_append, applyAll_append]
  have h1 : fs.applyAll [.openTrunc .tmp] = { fs with tmp := some [] } := by simp [FS.applyAll, FS.apply, FS.set]
  rw [h1, applyAll_writes_tmp _ _ [] rfl, applyAll_flush_tmp _ ([] ++ (bufWriteAll [] (compactLines ord s)).2.flatten) _ rfl]
  simp only [List.nil_append] at hc ⊢
  rw [hc]
  rfl

theorem compact_ops_eq' (ord : Order) (s : Snap) :
    (compact ord s).2 = compactTmpOps ord s ++
      (flushOps .main s.buf ++ [.close .main, .remove .main, .rename .tmp .main, .openAppend .main]) := by
  simp [compact, compactTmpOps, List.append_assoc]

/-- what a restart reads (with the recovery rename): the snapshot file, or `path.compact` when it is missing -/
def recoverFile (fs : FS) : Bytes := (if fs.main.isNone then fs.tmp else fs.main).getD []

/-- **Every crash point of a compaction**: the restart reads the old file (with or without
the flushed buffer) or the complete compacted file — also in the remove..rename window. -/
theorem compact_crash_points (ord : Order) (s : Snap) (fs : FS) (d : Bytes) (hd : fs.main = some d) (k : Nat) :
    recoverFile (fs.applyAll ((compact ord s).2.take k)) = d ∨
    recoverFile (fs.applyAll ((compact ord s).2.take k)) = d ++ s.buf ∨
    recoverFile (fs.applyAll ((compact ord s).2.take k)) = (compactLines ord s).flatten := by
  rw [compact_ops_eq', List.take_append]
  by_cases hk : k ≤ (compactTmpOps ord s).length
  · have : k - (compactTmpOps ord s).length = 0 := by omega
    rw [this, List.take_zero, List.append_nil]
    left
    have hm : (fs.applyAll ((compactTmpOps ord s).take k)).main = fs.main :=
      applyAll_tmpOnly_main _ (fun o ho => compactTmpOps_tmpOnly ord s o (List.mem_of_mem_take ho)) fs
    simp [recoverFile, hm, hd]
  · rw [List.take_of_length_le (by omega), applyAll_append]
    obtain ⟨ht, hm⟩ := compactTmpOps_result ord s fs
    generalize fs.applyAll (compactTmpOps ord s) = g at ht hm ⊢
    rw [hd] at hm
    generalize k - (compactTmpOps ord s).length = j
    have hg : g = { main := some d, tmp := some (compactLines ord s).flatten } := by cases g; simp_all
    subst hg
    unfold flushOps
    by_cases hb : s.buf = []
    · simp only [hb, ↓reduceIte, List.append_nil]
      match j with
      | 0 => left; simp [recoverFile, FS.applyAll]
      | 1 => left; simp [recoverFile, FS.applyAll, FS.apply]
      | 2 => left; simp [recoverFile, FS.applyAll, FS.apply]
      | 3 => right; right; simp [recoverFile, FS.applyAll, FS.apply, FS.set]
      | 4 => right; right; simp [recoverFile, FS.applyAll, FS.apply, FS.set, FS.get]
      | n + 5 => right; right; simp [recoverFile, FS.applyAll, FS.apply, FS.set, FS.get]
    · simp only [hb, ↓reduceIte]
      match j with
      | 0 => left; simp [recoverFile, FS.applyAll]
      | 1 => left; simp [recoverFile, FS.applyAll, FS.apply]
      | 2 => right; left; simp [recoverFile, FS.applyAll, FS.apply, FS.get, FS.set]
      | 3 => right; left; simp [recoverFile, FS.applyAll, FS.apply, FS.get, FS.set]
      | 4 => right; right; simp [recoverFile, FS.applyAll, FS.apply, FS.set, FS.get]
      | 5 => right; right; simp [recoverFile, FS.applyAll, FS.apply, FS.set, FS.get]
      | n + 6 => right; right; simp [recoverFile, FS.applyAll, FS.apply, FS.set, FS.get]

theorem recover_eq_recoverFile (rj : Bool) (fs : FS) : recover rj fs = replay rj (recoverFile fs) := rfl

/-! ### a torn tail is cut off at the next start -/

theorem completeLen_noNL (p : Bytes) (h : '\n' ∉ p) : completeLen p = 0 := by
  induction p with
  | nil => rfl
  | cons c cs ih =>
    simp only [List.mem_cons, not_or] at h
    have hc : ¬ c = '\n' := fun e => h.1 e.symm
    simp [completeLen, ih h.2, hc]

theorem completeLen_append_noNL (x p : Bytes) (h : '\n' ∉ p) : completeLen (x ++ p) = completeLen x := by
  induction x with
  | nil => simpa [completeLen] using completeLen_noNL p h
  | cons c cs ih => simp [completeLen, ih]

theorem completeLen_endsNL (x : Bytes) (h : endsNL x = true) : completeLen x = x.length := by
  induction x with
  | nil => rfl
  | cons c cs ih =>
    by_cases hcs : cs = []
    · subst hcs
      simp only [endsNL, ↓reduceIte, decide_eq_true_eq] at h
      simp [completeLen, h]
    · simp only [endsNL, hcs, ↓reduceIte] at h
      have := ih h
      have hpos : cs.length > 0 := List.length_pos_iff.mpr hcs
      simp [completeLen, this, hpos]

/-- **Start-up on a file with a torn tail**: the unterminated fragment is cut off, so the
file the next life appends to ends with a newline. -/
theorem openOn_truncates (rj : Bool) (mc : Nat) (x p : Bytes) (hx : endsNL x = true) (hp : '\n' ∉ p) (hne : p ≠ [])
    (fs : FS) (hfs : fs.main = some (x ++ p)) :
    (fs.applyAll (Snap.openOn rj mc fs).2).main = some x ∧ (Snap.openOn rj mc fs).1.offset = x.length := by
  have hv : completeLen (x ++ p) = x.length := by rw [completeLen_append_noNL x p hp, completeLen_endsNL x hx]
  have hlt : x.length < (x ++ p).length := by
    have : p.length > 0 := List.length_pos_iff.mpr hne
    simp; omega
  unfold Snap.openOn
  simp only [hfs, Option.isNone_some, Bool.and_false, Bool.false_and, Bool.false_eq_true, ↓reduceIte, Option.getD_some, hv, hlt,
    decide_true, Bool.and_true, List.nil_append]
  constructor
  · simp [FS.applyAll, FS.apply, FS.get, FS.set, hfs]
  · trivial

end SerfProofs.Snapshot
