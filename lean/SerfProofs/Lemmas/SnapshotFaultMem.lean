/-
The in-memory state of the fault model does not depend on I/O: every I/O function keeps
the memory, and the memory stays well formed along every faulty run (whatever fails).
-/
import SerfProofs.Lemmas.SnapshotResume
namespace SerfProofs.SnapshotFault
open SerfModel SerfModel.Snapshot SerfModel.SnapshotFault SerfProofs.Snapshot

attribute [local irreducible] lastSeenOf

/-- `b` has the memory, the leave flag, the rejoin flag and the code shape of `a` -/
def KeepM (a b : FSnap) : Prop :=
  b.s.mem = a.s.mem ∧ b.s.leaving = a.s.leaving ∧ b.s.rejoin = a.s.rejoin ∧ b.removeMissingFails = a.removeMissingFails

theorem KeepM.refl (a : FSnap) : KeepM a a := ⟨rfl, rfl, rfl, rfl⟩
theorem KeepM.trans {a b c : FSnap} (h1 : KeepM a b) (h2 : KeepM b c) : KeepM a c :=
  ⟨h2.1.trans h1.1, h2.2.1.trans h1.2.1, h2.2.2.1.trans h1.2.2.1, h2.2.2.2.trans h1.2.2.2⟩
theorem KeepM.of {a b c : FSnap} (h : KeepM a b) (e1 : c.s.mem = b.s.mem) (e2 : c.s.leaving = b.s.leaving)
    (e3 : c.s.rejoin = b.s.rejoin) (e4 : c.removeMissingFails = b.removeMissingFails) : KeepM a c :=
  h.trans ⟨e1, e2, e3, e4⟩

theorem doOpW_keep (st : FSnap) (op : FsOp) (w : Bool) : KeepM st (doOpW st op w).1 := by
  unfold doOpW
  split
  · exact ⟨rfl, rfl, rfl, rfl⟩
  · split <;> exact ⟨rfl, rfl, rfl, rfl⟩

theorem doOp_keep (st : FSnap) (op : FsOp) : KeepM st (doOp st op).1 := doOpW_keep st op true

theorem doWrites_keep (p : Path) (w : Bool) (ws : List Bytes) : ∀ st : FSnap, KeepM st (doWrites st p w ws).1 := by
  induction ws with
  | nil => intro st; exact KeepM.refl st
  | cons x xs ih =>
    intro st
    simp only [doWrites]
    split
    · exact (doOpW_keep st _ w).trans (ih _)
    · exact doOpW_keep st _ w

theorem fFlushDue_keep (st2 : FSnap) (n : Nat) : KeepM st2 (fFlushDue st2 n).1 := by
  unfold fFlushDue
  split
  · exact ⟨rfl, rfl, rfl, rfl⟩
  · have q := doOpW_keep st2 (.write .main st2.s.buf) (!st2.fhClosed)
    generalize doOpW st2 (.write .main st2.s.buf) (!st2.fhClosed) = r2 at q ⊢
    simp only
    split
    · exact q.of rfl rfl rfl rfl
    · exact q.of rfl rfl rfl rfl

theorem fAfterWrite_keep (st1 : FSnap) (n : Nat) : KeepM st1 (fAfterWrite st1 n).1 := by
  unfold fAfterWrite
  split
  · exact (KeepM.of (KeepM.refl st1) rfl rfl rfl rfl).trans (fFlushDue_keep _ n)
  · exact ⟨rfl, rfl, rfl, rfl⟩

theorem fAppendBytes_keep (st : FSnap) (l : Bytes) : KeepM st (fAppendBytes st l).1 := by
  unfold fAppendBytes
  simp only
  split
  · exact ⟨rfl, rfl, rfl, rfl⟩
  · split
    · exact KeepM.refl st
    · have q1 := doWrites_keep .main (!st.fhClosed) (bufWrite st.s.buf l).2 st
      generalize doWrites st .main (!st.fhClosed) (bufWrite st.s.buf l).2 = r at q1 ⊢
      split
      · exact q1.of rfl rfl rfl rfl
      · exact (q1.of rfl rfl rfl rfl).trans (fAfterWrite_keep _ _)

theorem fCompactFront_keep (st : FSnap) (lines : List Bytes) : KeepM st (fCompactFront st lines).1 := by
  unfold fCompactFront
  have q1 := doOp_keep st (.openTrunc .tmp)
  generalize doOp st (.openTrunc .tmp) = r1 at q1 ⊢
  simp only
  split
  · exact q1
  · have q2 := doWrites_keep .tmp true (bufWriteAll [] lines).2 r1.1
    generalize doWrites r1.1 .tmp true (bufWriteAll [] lines).2 = r2 at q2 ⊢
    split
    · exact (q1.trans q2).trans (doOp_keep _ _)
    · have q3 : KeepM r2.1 (if (bufWriteAll [] lines).1 = [] then (r2.1, true) else doOp r2.1 (.write .tmp (bufWriteAll [] lines).1)).1 := by
        split
        · exact KeepM.refl _
        · exact doOp_keep _ _
      generalize (if (bufWriteAll [] lines).1 = [] then (r2.1, true) else doOp r2.1 (.write .tmp (bufWriteAll [] lines).1)) = r3 at q3 ⊢
      split
      · exact (q1.trans q2).trans q3
      · have q4 := doOp_keep r3.1 (.sync .tmp)
        generalize doOp r3.1 (.sync .tmp) = r4 at q4 ⊢
        split
        · exact (((q1.trans q2).trans q3).trans q4).trans (doOp_keep _ _)
        · exact (((q1.trans q2).trans q3).trans q4).trans (doOp_keep _ _)

theorem fOldFlush_keep (st : FSnap) : KeepM st (fOldFlush st) := by
  unfold fOldFlush
  split
  · exact KeepM.refl st
  · have q := doOpW_keep st (.write .main st.s.buf) (!st.fhClosed)
    generalize doOpW st (.write .main st.s.buf) (!st.fhClosed) = r at q ⊢
    simp only
    split
    · exact q.of rfl rfl rfl rfl
    · exact q.of rfl rfl rfl rfl

theorem fOldClose_keep (nil : Bool) (st : FSnap) : KeepM st (fOldClose nil st) := by
  unfold fOldClose
  have q : KeepM st (if st.fh = true then (doOp st (.close .main)).1 else st) := by
    split
    · exact doOp_keep _ _
    · exact KeepM.refl st
  generalize (if st.fh = true then (doOp st (.close .main)).1 else st) = r7 at q ⊢
  simp only
  split
  · exact q.of rfl rfl rfl rfl
  · exact q.of rfl rfl rfl rfl

theorem fSwapTail_keep (r7 : FSnap) (total : Nat) : KeepM r7 (fSwapTail r7 total).1 := by
  unfold fSwapTail
  have q8 := doOpW_keep r7 (.remove .main) (r7.mainExists || !r7.removeMissingFails)
  generalize doOpW r7 (.remove .main) (r7.mainExists || !r7.removeMissingFails) = r8 at q8 ⊢
  simp only
  split
  · exact q8
  · have q9 := doOp_keep ({ r8.1 with mainExists := false } : FSnap) (.rename .tmp .main)
    generalize doOp ({ r8.1 with mainExists := false } : FSnap) (.rename .tmp .main) = r9 at q9 ⊢
    split
    · exact (q8.of rfl rfl rfl rfl).trans q9
    · have q10 := doOp_keep ({ r9.1 with mainExists := true } : FSnap) (.openAppend .main)
      generalize doOp ({ r9.1 with mainExists := true } : FSnap) (.openAppend .main) = r10 at q10 ⊢
      split
      · exact (((q8.of rfl rfl rfl rfl).trans q9).of rfl rfl rfl rfl).trans q10
      · exact ((((q8.of rfl rfl rfl rfl).trans q9).of rfl rfl rfl rfl).trans q10).of rfl rfl rfl rfl

theorem fCompactSwap_keep (st : FSnap) (total : Nat) : KeepM st (fCompactSwap st total).1 := by
  unfold fCompactSwap
  split
  · exact ⟨rfl, rfl, rfl, rfl⟩
  · exact ((fOldFlush_keep st).trans (fOldClose_keep _ _)).trans (fSwapTail_keep _ _)

theorem fCompact_keep (st : FSnap) : KeepM st (fCompact st).1 := by
  unfold fCompact
  have q := fCompactFront_keep st (compactLines Order.id st.s)
  simp only
  generalize fCompactFront st (compactLines Order.id st.s) = r at q ⊢
  split
  · exact q
  · exact q.trans (fCompactSwap_keep _ _)

theorem fAppendLine_keep (st : FSnap) (l : Bytes) : KeepM st (fAppendLine st l).1 := by
  unfold fAppendLine
  have h1 := fAppendBytes_keep st l
  generalize fAppendBytes st l = r at h1 ⊢
  simp only
  split
  · split
    · exact h1.trans (fCompact_keep _)
    · exact h1
  · exact h1

theorem fTryAppend_keep (st : FSnap) (l : Bytes) : KeepM st (fTryAppend st l) := by
  unfold fTryAppend
  have h1 := fAppendLine_keep st l
  generalize fAppendLine st l = r at h1 ⊢
  simp only
  split
  · exact h1
  · exact h1
  · split
    · exact h1
    · exact (h1.of rfl rfl rfl rfl).trans (fCompact_keep _)

theorem fFlush_keep (st : FSnap) : KeepM st (fFlush st) := by
  unfold fFlush
  split
  · exact KeepM.refl st
  · split
    · exact ⟨rfl, rfl, rfl, rfl⟩
    · split
      · exact KeepM.refl st
      · have q := doOpW_keep st (.write .main st.s.buf) (!st.fhClosed)
        generalize doOpW st (.write .main st.s.buf) (!st.fhClosed) = r at q ⊢
        simp only
        split
        · exact q.of rfl rfl rfl rfl
        · exact q.of rfl rfl rfl rfl

/-! ### the memory along a faulty run -/

/-- current code shape, well-formed memory, no leave in progress, the configured rejoin flag -/
def Mem (rj : Bool) (st : FSnap) : Prop :=
  st.removeMissingFails = false ∧ WFRec st.s.mem ∧ st.s.leaving = false ∧ st.s.rejoin = rj

theorem Mem.of_keep {rj : Bool} {a b : FSnap} (h : Mem rj a) (k : KeepM a b) : Mem rj b :=
  ⟨k.2.2.2.trans h.1, by rw [k.1]; exact h.2.1, k.2.1.trans h.2.2.1, k.2.2.1.trans h.2.2.2⟩

theorem clock_mem (rj : Bool) (st : FSnap) (x : Nat) (h : Mem rj st) (hx : x < U64) :
    Mem rj (fTryAppend { st with s := { st.s with lastClock := x } } (printLine (.clock x))) := by
  obtain ⟨w1, w2, w3, w4, w5⟩ := WFRec_parts st.s h.2.1
  have h1 : Mem rj ({ st with s := { st.s with lastClock := x } } : FSnap) :=
    ⟨h.1, WFRec_mk _ st.s.alive x st.s.lastEventClock st.s.lastQueryClock rfl w1 w2 hx w4 w5, h.2.2.1, h.2.2.2⟩
  exact h1.of_keep (fTryAppend_keep _ _)

theorem fUpdateClock_mem (rj : Bool) (st : FSnap) (clk : Nat) (h : Mem rj st) : Mem rj (fUpdateClock st clk) := by
  by_cases hcond : lastSeenOf clk > st.s.lastClock
  · rw [fUpdateClock_pos st clk hcond]
    exact clock_mem rj st (lastSeenOf clk) h (lastSeenOf_lt clk)
  · rw [fUpdateClock_neg st clk hcond]
    exact h

theorem alive_mem (rj : Bool) (st : FSnap) (a' : AMap) (l : Bytes) (h : Mem rj st)
    (h1 : (akeys a').Nodup) (h2 : ∀ p ∈ a', WFName p.1 ∧ WFAddr p.2) :
    Mem rj (fTryAppend { st with s := { st.s with alive := a' } } l) := by
  obtain ⟨_, _, w3, w4, w5⟩ := WFRec_parts st.s h.2.1
  have hm : Mem rj ({ st with s := { st.s with alive := a' } } : FSnap) :=
    ⟨h.1, WFRec_mk _ a' st.s.lastClock st.s.lastEventClock st.s.lastQueryClock rfl h1 h2 w3 w4 w5, h.2.2.1, h.2.2.2⟩
  exact hm.of_keep (fTryAppend_keep _ _)

theorem fJoin_mem (rj : Bool) (ms : List (Name × Addr)) : ∀ st : FSnap, Mem rj st → (∀ p ∈ ms, WFName p.1 ∧ WFAddr p.2) →
    Mem rj (fJoin st ms) := by
  induction ms with
  | nil => intro st h _; exact h
  | cons p ms ih =>
    intro st h hw
    obtain ⟨n, a⟩ := p
    by_cases hp : st.panicked = false
    · rw [fJoin_cons st n a ms hp]
      obtain ⟨w1, w2, _, _, _⟩ := WFRec_parts st.s h.2.1
      have hpw := hw (n, a) List.mem_cons_self
      exact ih _ (alive_mem rj st _ _ h (akeys_ainsert_nodup _ _ _ w1)
        (fun q hq => by
          rcases mem_ainsert hq with rfl | hq
          · exact hpw
          · exact w2 q hq)) (fun q hq => hw q (List.mem_cons_of_mem _ hq))
    · have hp' : st.panicked = true := by cases hh : st.panicked <;> simp_all
      simp only [fJoin, hp', ↓reduceIte]
      exact h

theorem fGone_mem (rj : Bool) (ns : List Name) : ∀ st : FSnap, Mem rj st → Mem rj (fGone st ns) := by
  induction ns with
  | nil => intro st h; exact h
  | cons n ns ih =>
    intro st h
    by_cases hp : st.panicked = false
    · rw [fGone_cons st n ns hp]
      obtain ⟨w1, w2, _, _, _⟩ := WFRec_parts st.s h.2.1
      exact ih _ (alive_mem rj st _ _ h (akeys_aerase_nodup _ _ w1) (fun q hq => w2 q (mem_aerase hq)))
    · have hp' : st.panicked = true := by cases hh : st.panicked <;> simp_all
      simp only [fGone, hp', ↓reduceIte]
      exact h

theorem evclock_mem (rj : Bool) (st : FSnap) (x : Nat) (h : Mem rj st) (hx : x < U64) :
    Mem rj (fTryAppend { st with s := { st.s with lastEventClock := x } } (printLine (.eventClock x))) := by
  obtain ⟨w1, w2, w3, w4, w5⟩ := WFRec_parts st.s h.2.1
  have h1 : Mem rj ({ st with s := { st.s with lastEventClock := x } } : FSnap) :=
    ⟨h.1, WFRec_mk _ st.s.alive st.s.lastClock x st.s.lastQueryClock rfl w1 w2 w3 hx w5, h.2.2.1, h.2.2.2⟩
  exact h1.of_keep (fTryAppend_keep _ _)

theorem qclock_mem (rj : Bool) (st : FSnap) (x : Nat) (h : Mem rj st) (hx : x < U64) :
    Mem rj (fTryAppend { st with s := { st.s with lastQueryClock := x } } (printLine (.queryClock x))) := by
  obtain ⟨w1, w2, w3, w4, w5⟩ := WFRec_parts st.s h.2.1
  have h1 : Mem rj ({ st with s := { st.s with lastQueryClock := x } } : FSnap) :=
    ⟨h.1, WFRec_mk _ st.s.alive st.s.lastClock st.s.lastEventClock x rfl w1 w2 w3 w4 hx, h.2.2.1, h.2.2.2⟩
  exact h1.of_keep (fTryAppend_keep _ _)

theorem fStep_mem (rj : Bool) (st : FSnap) (ev : Ev) (hev : WFEv ev) (hne : ev ≠ .leave) (h : Mem rj st) :
    Mem rj (fStep st (.ev ev)) := by
  by_cases hp : st.panicked = false
  · rw [fStep_ev st ev hp]
    cases ev with
    | join ms clk =>
      simp only []
      split
      · exact h
      · split
        · exact fJoin_mem rj ms st h hev
        · exact fUpdateClock_mem rj _ clk (fJoin_mem rj ms st h hev)
    | gone ns clk =>
      simp only []
      split
      · exact h
      · split
        · exact fGone_mem rj ns st h
        · exact fUpdateClock_mem rj _ clk (fGone_mem rj ns st h)
    | memberOther clk =>
      simp only []
      split
      · exact h
      · exact fUpdateClock_mem rj st clk h
    | user lt =>
      simp only []
      split
      · exact h
      · split
        · exact h
        · exact evclock_mem rj st lt h hev
    | query lt =>
      simp only []
      split
      · exact h
      · split
        · exact h
        · exact qclock_mem rj st lt h hev
    | clockTick clk => simp only []; exact fUpdateClock_mem rj st clk h
    | leave => exact absurd rfl hne
    | timePasses => simp only []; exact ⟨h.1, h.2.1, h.2.2.1, h.2.2.2⟩
    | forceCompact => simp only []; exact h.of_keep (fCompact_keep st)
  · have hp' : st.panicked = true := by cases hh : st.panicked <;> simp_all
    simp only [fStep, hp', ↓reduceIte]
    exact h

/-- the events of a faulty run: well formed, no leave; or the recovery interval elapsing -/
def WFFEv : FEv → Prop
  | .ev e => WFEv e ∧ e ≠ .leave
  | .recoveryTimePasses => True

theorem fRun_mem (rj : Bool) (fevs : List FEv) : ∀ st : FSnap, Mem rj st → (∀ fe ∈ fevs, WFFEv fe) → Mem rj (fRun st fevs) := by
  induction fevs with
  | nil => intro st h _; exact h
  | cons fe es ih =>
    intro st h hw
    have hfe := hw fe List.mem_cons_self
    simp only [fRun]
    apply ih _ _ (fun x hx => hw x (List.mem_cons_of_mem _ hx))
    cases fe with
    | ev e => exact fStep_mem rj st e hfe.1 hfe.2 h
    | recoveryTimePasses => exact ⟨h.1, h.2.1, h.2.2.1, h.2.2.2⟩

theorem fInit_mem (rj : Bool) (mc : Nat) (fault : Option Nat) : Mem rj (fInit rj mc fault) :=
  ⟨rfl, WFRec_mk _ [] 0 0 0 rfl (by simp [akeys]) (by simp) (by decide) (by decide) (by decide), rfl, rfl⟩

end SerfProofs.SnapshotFault
