/-
Helper lemmas for C35: the selection loop of `kRandomMembers` preserves
"at most k, distinct names, all listed and passing the filter".
-/
import SerfModel.Model.Relay
namespace SerfProofs.Relay
open SerfModel SerfModel.Relay

/-- Loop invariant of `kRandomMembers`. -/
def Inv (k : Nat) (ms : List Member) (filt : Member → Bool) (acc : List Member) : Prop :=
  acc.length ≤ k ∧ (acc.map (·.name)).Nodup ∧ ∀ m ∈ acc, m ∈ ms ∧ filt m = false

theorem inv_nil (k ms filt) : Inv k ms filt [] := by
  simp [Inv]

theorem getElem?_mem {α} (l : List α) (i : Nat) (a : α) (h : l[i]? = some a) : a ∈ l := by
  exact List.mem_of_getElem? h

theorem inv_snoc {k ms filt acc} {m : Member} (h : Inv k ms filt acc) (hlen : acc.length < k)
    (hm : m ∈ ms) (hf : filt m = false) (hnew : acc.any (fun x => x.name == m.name) = false) :
    Inv k ms filt (acc ++ [m]) := by
  obtain ⟨h1, h2, h3⟩ := h
  refine ⟨by simp; omega, ?_, ?_⟩
  · rw [List.map_append, List.nodup_append]
    refine ⟨h2, by simp, ?_⟩
    intro a ha b hb
    simp only [List.map_cons, List.map_nil, List.mem_singleton] at hb
    subst hb
    obtain ⟨x, hx, rfl⟩ := List.mem_map.mp ha
    intro heq
    have : acc.any (fun y => y.name == m.name) = true := by
      rw [List.any_eq_true]
      exact ⟨x, hx, by simp [heq]⟩
    rw [hnew] at this
    exact Bool.noConfusion this
  · intro x hx
    rcases List.mem_append.mp hx with hx | hx
    · exact h3 x hx
    · simp only [List.mem_singleton] at hx
      subst hx
      exact ⟨hm, hf⟩

theorem selectLoop_inv (k : Nat) (ms : List Member) (filt : Member → Bool) :
    ∀ (fuel : Nat) (picks : List Nat) (acc : List Member),
      Inv k ms filt acc → Inv k ms filt (selectLoop k ms filt fuel picks acc) := by
  intro fuel
  induction fuel with
  | zero => intro picks acc h; simpa [selectLoop] using h
  | succ f ih =>
    intro picks acc h
    unfold selectLoop
    by_cases hlen : acc.length < k
    · simp only [hlen, if_true]
      cases picks with
      | nil => exact h
      | cons p ps =>
        simp only
        cases hg : ms[p % ms.length]? with
        | none => exact h
        | some m =>
          simp only
          by_cases hf : filt m = true
          · simp only [hf, if_true]; exact ih ps acc h
          · have hf' : filt m = false := by simpa using hf
            simp only [hf', Bool.false_eq_true, if_false]
            by_cases hd : acc.any (fun x => x.name == m.name) = true
            · simp only [hd, if_true]; exact ih ps acc h
            · have hd' : acc.any (fun x => x.name == m.name) = false := by simpa using hd
              simp only [hd', Bool.false_eq_true, if_false]
              exact ih ps _ (inv_snoc h hlen (getElem?_mem _ _ _ hg) hf' hd')
    · simp only [hlen, if_false]; exact h

end SerfProofs.Relay
