import SerfModel.Model.LogWriters
import SerfProofs.Lemmas.Assoc
namespace SerfProofs.LogWriter
open SerfModel SerfModel.LogWriters

/-- The ring read from its oldest slot. -/
def ring (w : LW) : List String := w.logs.drop w.index ++ w.logs.take w.index

theorem set_last_eq {α} (l : List α) (i : Nat) (a : α) (h : i + 1 = l.length) : l.set i a = l.take i ++ [a] := by
  apply List.ext_getElem?
  intro j
  by_cases hj : j = i
  · subst hj
    rw [List.getElem?_set_self (by omega)]
    rw [List.getElem?_append_right (by simp; omega)]
    have : j - (List.take j l).length = 0 := by simp; omega
    rw [this]; rfl
  · rw [List.getElem?_set_ne (fun e => hj e.symm)]
    by_cases hlt : j < i
    · rw [List.getElem?_append_left (by simp; omega)]
      rw [List.getElem?_take_of_lt hlt]
    · have : l.length ≤ j := by omega
      rw [List.getElem?_eq_none this]
      rw [List.getElem?_eq_none (by simp; omega)]

theorem ring_write (w : LW) (l : String) (hc : 0 < w.logs.length) (hi : w.index < w.logs.length) :
    ring (w.write l) = (ring w).drop 1 ++ [l] ∧ (w.write l).logs.length = w.logs.length ∧
    (w.write l).index = (w.index + 1) % w.logs.length ∧
    (w.write l).full = (w.full || ((w.index + 1) % w.logs.length == 0)) := by
  have hne : w.logs.length ≠ 0 := by omega
  simp only [LW.write, hne, ↓reduceIte, List.length_set, ring, and_true]
  have hdrop1 : (w.logs.drop w.index ++ w.logs.take w.index).drop 1 = w.logs.drop (w.index + 1) ++ w.logs.take w.index := by
    rw [List.drop_append_of_le_length (by simp; omega), List.drop_drop]
  rw [hdrop1]
  by_cases hlast : w.index + 1 = w.logs.length
  · rw [hlast, Nat.mod_self]
    simp only [List.drop_zero, List.take_zero, List.append_nil, List.drop_length, List.nil_append]
    exact set_last_eq _ _ _ hlast
  · have hlt : w.index + 1 < w.logs.length := by omega
    rw [Nat.mod_eq_of_lt hlt]
    rw [List.drop_set_of_lt (by omega)]
    rw [List.append_assoc]
    congr 1
    rw [List.take_set]
    have : (w.logs.take (w.index + 1)) = w.logs.take w.index ++ [w.logs[w.index]] := by
      rw [List.take_succ_eq_append_getElem]
    rw [this]
    rw [List.set_append_right _ _ (by simp; omega)]
    have : w.index - (List.take w.index w.logs).length = 0 := by simp; omega
    rw [this]; rfl

def writes (w : LW) (ls : List String) : LW := ls.foldl LW.write w

/-- The ring holds the last `cap` entries of (`cap` empty slots followed by the history). -/
def RingInv (cap : Nat) (w : LW) (h : List String) : Prop :=
  w.logs.length = cap ∧ w.index = h.length % cap ∧ ring w = (List.replicate cap "" ++ h).drop h.length ∧
  w.full = decide (cap ≤ h.length)

theorem RingInv.new (cap : Nat) (hc : 0 < cap) : RingInv cap (LW.new cap) [] := by
  refine ⟨by simp [LW.new], by simp [LW.new], ?_, ?_⟩
  · simp [ring, LW.new]
  · simp [LW.new]; omega

theorem drop_succ_snoc {α} (X : List α) (k : Nat) (l : α) (hk : k + 1 ≤ X.length) :
    (X ++ [l]).drop (k + 1) = (X.drop k).drop 1 ++ [l] := by
  rw [List.drop_drop, List.drop_append_of_le_length (by omega)]

theorem ringInv_write {cap : Nat} (hc : 0 < cap) {w : LW} {h : List String} (hi : RingInv cap w h) (l : String) :
    RingInv cap (w.write l) (h ++ [l]) := by
  obtain ⟨h1, h2, h3, h4⟩ := hi
  have hidx : w.index < w.logs.length := by rw [h1, h2]; exact Nat.mod_lt _ hc
  obtain ⟨r1, r2, r3, r4⟩ := ring_write w l (by omega) hidx
  refine ⟨r2.trans h1, ?_, ?_, ?_⟩
  · rw [r3, h1, h2, Nat.mod_add_mod, List.length_append, List.length_singleton]
  · rw [r1, h3]
    have e : List.replicate cap "" ++ (h ++ [l]) = (List.replicate cap "" ++ h) ++ [l] := by simp
    rw [e, List.length_append, List.length_singleton]
    exact (drop_succ_snoc _ _ _ (by simp; omega)).symm
  · rw [r4, h4, h1, h2, Nat.mod_add_mod, List.length_append, List.length_singleton]
    by_cases hk : cap ≤ h.length
    · have : cap ≤ h.length + 1 := by omega
      simp [hk, this]
    · have hlt : h.length < cap := by omega
      by_cases he : h.length + 1 = cap
      · simp [hk, he]
      · have : (h.length + 1) % cap = h.length + 1 := Nat.mod_eq_of_lt (by omega)
        have h2' : ¬ cap ≤ h.length + 1 := by omega
        simp [hk, this, h2']

theorem ringInv_writes {cap : Nat} (hc : 0 < cap) (ls : List String) : ∀ {w : LW} {h : List String},
    RingInv cap w h → RingInv cap (writes w ls) (h ++ ls) := by
  induction ls with
  | nil => intro w h hi; simpa [writes] using hi
  | cons l ls ih =>
    intro w h hi
    have := ih (ringInv_write hc hi l)
    simpa [writes] using this

/-- What a newly registered handler receives first. -/
def backlog (w : LW) : List String :=
  (if w.full then w.logs.drop w.index else []) ++ w.logs.take w.index

theorem backlog_eq {cap : Nat} (hc : 0 < cap) {w : LW} {h : List String} (hi : RingInv cap w h) :
    backlog w = h.drop (h.length - cap) := by
  obtain ⟨h1, h2, h3, h4⟩ := hi
  have hidx : w.index < w.logs.length := by rw [h1, h2]; exact Nat.mod_lt _ hc
  unfold backlog
  rw [h4]
  by_cases hk : cap ≤ h.length
  · have hdrop : (List.replicate cap "" ++ h).drop h.length = h.drop (h.length - cap) := by
      rw [List.drop_append]
      simp
      omega
    simp only [hk, decide_true, ↓reduceIte]
    have : w.logs.drop w.index ++ w.logs.take w.index = ring w := rfl
    rw [this, h3, hdrop]
  · have hlt : h.length < cap := by omega
    have hdrop : (List.replicate cap "" ++ h).drop h.length = List.replicate (cap - h.length) "" ++ h := by
      rw [List.drop_append_of_le_length (by simp; omega)]
      simp
    simp only [hk, decide_false, Bool.false_eq_true, ↓reduceIte, List.nil_append]
    have hidx' : w.index = h.length := by rw [h2]; exact Nat.mod_eq_of_lt hlt
    have hr : w.logs.drop w.index ++ w.logs.take w.index = List.replicate (cap - h.length) "" ++ h := by
      have : w.logs.drop w.index ++ w.logs.take w.index = ring w := rfl
      rw [this, h3, hdrop]
    have hlen : (w.logs.drop w.index).length = (List.replicate (cap - h.length) "").length := by
      simp; omega
    have := (List.append_inj hr hlen).2
    rw [this]
    have : h.length - cap = 0 := by omega
    rw [this]; rfl

theorem alookup_map_append (hs : List (Nat × List String)) (l : String) (k : Nat) :
    alookup (hs.map fun p => (p.1, p.2 ++ [l])) k = (alookup hs k).map (· ++ [l]) := by
  induction hs with
  | nil => rfl
  | cons p hs ih =>
    simp only [List.map_cons, alookup, List.find?_cons]
    by_cases hp : p.1 == k
    · simp [hp]
    · simp only [hp]
      simpa [alookup] using ih

theorem handlers_writes (ls : List String) : ∀ (w : LW) (k : Nat), 0 < w.logs.length →
    alookup (writes w ls).handlers k = (alookup w.handlers k).map (· ++ ls) ∧ (writes w ls).logs.length = w.logs.length := by
  induction ls with
  | nil => intro w k _; simp [writes]
  | cons l ls ih =>
    intro w k hc
    have hne : w.logs.length ≠ 0 := by omega
    have hlen : (w.write l).logs.length = w.logs.length := by simp [LW.write, hne]
    obtain ⟨a, b⟩ := ih (w.write l) k (by omega)
    have hw : writes w (l :: ls) = writes (w.write l) ls := rfl
    rw [hw, a, b, hlen]
    refine ⟨?_, rfl⟩
    have : (w.write l).handlers = w.handlers.map fun p => (p.1, p.2 ++ [l]) := by simp [LW.write, hne]
    rw [this, alookup_map_append]
    cases alookup w.handlers k <;> simp

end SerfProofs.LogWriter
