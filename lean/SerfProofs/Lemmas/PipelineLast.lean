import SerfProofs.Lemmas.Pipeline
namespace SerfProofs.Pipeline
open SerfModel SerfModel.MemberCoalesce SerfModel.UserCoalesce SerfModel.CoalesceLoop SerfModel.Pipeline
open SerfProofs.MemberCoalesce SerfProofs.CoalesceLoop

/-- kind of the last event of a per-member sequence -/
def lastK (l : List MEv) : Option Kind := l.getLast?.map (·.kind)

theorem lastK_append_cons (A : List MEv) (x : MEv) (B : List MEv) : lastK (A ++ x :: B) = lastK (x :: B) := by
  unfold lastK
  rw [List.getLast?_append]
  cases h : (x :: B).getLast? with
  | none => simp at h
  | some y => simp

theorem lastK_drop_mid (A H : List MEv) (x : MEv) (B : List MEv) :
    lastK (A ++ (H ++ x :: B)) = lastK (x :: B) := by
  rw [← List.append_assoc, lastK_append_cons]

theorem lastK_append_ne (A B : List MEv) (h : B ≠ []) : lastK (A ++ B) = lastK B := by
  cases B with
  | nil => exact absurd rfl h
  | cons x B => exact lastK_append_cons A x B

theorem lastK_singleton (x : MEv) : lastK [x] = some x.kind := rfl

def lossless : Act → Bool
  | .drop => false
  | .shutdown => false
  | _ => true

/-- Stages that forward every member event untouched (all but the member coalescer), still running. -/
def Pass : Stage → Prop
  | .tee => True
  | .filter => True
  | .userCo s => s.done = false
  | .memberCo _ => False

def AllPass (l : List (Stage × List PEv)) : Prop := ∀ sq ∈ l, Pass sq.1

theorem pass_held (st : Stage) (h : Pass st) (m : String) : held m st = [] := by
  cases st <;> simp_all [Pass, held]

theorem pass_ok (st : Stage) (h : Pass st) : StageOK st := by
  cases st <;> simp_all [Pass, StageOK]

theorem pass_step (st : Stage) (hp : Pass st) (i : In PEv) (hi : isShutdown i = false) (m : String) :
    about m (st.step i).2 = about m (evOf i) ∧ Pass (st.step i).1 := by
  cases st with
  | tee => cases i <;> simp [Stage.step, evOf, Pass, about_nil]
  | filter =>
    cases i with
    | ev e =>
      cases e with
      | member x => simp [Stage.step, evOf, Pass]
      | user u => simp [Stage.step, evOf, Pass]
      | query b id => cases b <;> simp [Stage.step, evOf, Pass, about_query, about_nil]
    | quantum => simp [Stage.step, evOf, Pass, about_nil]
    | quiescent => simp [Stage.step, evOf, Pass, about_nil]
    | shutdown => simp [isShutdown] at hi
  | userCo s =>
    simp only [Pass] at hp
    simp only [Stage.step, Pass]
    cases i with
    | ev e =>
      by_cases hh : userCoP.handle e
      · rw [step_handled _ _ hp _ hh]
        refine ⟨?_, hp⟩
        cases e with
        | user u => simp [evOf, about_user, about_nil]
        | member x => simp [userCoP] at hh
        | query b id => simp [userCoP] at hh
      · have hh' : userCoP.handle e = false := by simpa using hh
        rw [step_unhandled _ _ hp _ hh']
        exact ⟨rfl, hp⟩
    | quantum =>
      simp only [CoalesceLoop.step, flushNow, evOf, about_nil]
      split
      · exact ⟨rfl, hp⟩
      · simp [userCoP, about_map_user]
    | quiescent =>
      simp only [CoalesceLoop.step, flushNow, evOf, about_nil]
      split
      · exact ⟨rfl, hp⟩
      · simp [userCoP, about_map_user]
    | shutdown => simp [isShutdown] at hi
  | memberCo s => exact absurd hp (by simp [Pass])

theorem pass_act (st : Stage) (q : List PEv) (hp : Pass st) (a : Act) (ha : lossless a = true) (m : String) :
    about m (act st q a).2.2 ++ about m (act st q a).2.1 = about m q ∧ Pass (act st q a).1 := by
  cases a with
  | take =>
    cases q with
    | nil => simp [act, about_nil, hp]
    | cons e q' =>
      obtain ⟨h1, h2⟩ := pass_step st hp (.ev e) rfl m
      simp only [act]
      refine ⟨?_, h2⟩
      rw [h1, about_cons m e q']
      rfl
  | drop => simp [lossless] at ha
  | quantum =>
    obtain ⟨h1, h2⟩ := pass_step st hp .quantum rfl m
    simp only [act]
    exact ⟨by rw [h1]; simp [evOf, about_nil], h2⟩
  | quiescent =>
    obtain ⟨h1, h2⟩ := pass_step st hp .quiescent rfl m
    simp only [act]
    exact ⟨by rw [h1]; simp [evOf, about_nil], h2⟩
  | shutdown => simp [lossless] at ha

theorem flatS_pass (l : List (Stage × List PEv)) (h : AllPass l) (m : String) :
    flatS m l = l.flatMap (fun sq => about m sq.2) := by
  induction l with
  | nil => rfl
  | cons sq rest ih =>
    have h1 : Pass sq.1 := h sq List.mem_cons_self
    have h2 : AllPass rest := fun x hx => h x (List.mem_cons_of_mem _ hx)
    simp [flatS, seg, pass_held sq.1 h1, ih h2]

theorem stepAt_pass (l : List (Stage × List PEv)) : ∀ (k : Nat) (a : Act) (m : String), AllPass l →
    lossless a = true →
    about m (stepAt l k a).2 ++ flatS m (stepAt l k a).1 = flatS m l ∧ AllPass (stepAt l k a).1 := by
  induction l with
  | nil => intro k a m _ _; simp [stepAt, flatS, about_nil, AllPass]
  | cons sq rest ih =>
    intro k a m hp ha
    obtain ⟨st, q⟩ := sq
    have hst : Pass st := hp (st, q) List.mem_cons_self
    have hrest : AllPass rest := fun x hx => hp x (List.mem_cons_of_mem _ hx)
    cases k with
    | zero =>
      obtain ⟨h1, h2⟩ := pass_act st q hst a ha m
      simp only [stepAt, flatS, seg]
      refine ⟨?_, ?_⟩
      · rw [pass_held _ h2, pass_held _ hst, List.nil_append, List.nil_append, ← List.append_assoc, h1]
      · intro x hx
        rcases List.mem_cons.mp hx with rfl | hx
        · exact h2
        · exact hrest x hx
    | succ k =>
      obtain ⟨h1, h2⟩ := ih k a m hrest ha
      simp only [stepAt, flatS, seg, about_nil, List.nil_append, about_append, List.append_assoc]
      refine ⟨by rw [h1], ?_⟩
      intro x hx
      rcases List.mem_cons.mp hx with rfl | hx
      · exact hst
      · exact h2 x hx

theorem pushLast_pass (l : List (Stage × List PEv)) (e : PEv) (h : AllPass l) : AllPass (pushLast l e) := by
  induction l with
  | nil => simpa [pushLast] using h
  | cons sq rest ih =>
    obtain ⟨st, q⟩ := sq
    cases rest with
    | nil =>
      intro x hx
      simp only [pushLast, List.mem_singleton] at hx
      subst hx
      exact h (st, q) List.mem_cons_self
    | cons sq2 rest2 =>
      intro x hx
      simp only [pushLast, List.mem_cons] at hx
      rcases hx with rfl | hx
      · exact h _ List.mem_cons_self
      · exact ih (fun y hy => h y (List.mem_cons_of_mem _ hy)) x (by simpa [pushLast] using hx)

/-- the member coalescer at the head of the stage list, running -/
structure HeadMC (m : String) (stages : List (Stage × List PEv)) (R : List MEv) : Prop where
  ex : ∃ mc q rest, stages = (Stage.memberCo mc, q) :: rest ∧ AllPass rest ∧ mc.done = false ∧
    LatestOK mc.c.latest ∧ alookup mc.c.lastEvents m = lastK R

/-- One lossless action of the running member coalescer: the last kind of
"delivered ++ held ++ queued ++ upstream" is unchanged, and `lastEvents[m]` keeps describing
the last event delivered about `m`. -/
theorem memberCo_act (m : String) (mc : CoalesceLoop.St memberCoP) (q : List PEv) (a : Act)
    (ha : lossless a = true) (hd : mc.done = false) (hok : LatestOK mc.c.latest)
    (R T : List MEv) (hI : alookup mc.c.lastEvents m = lastK R) :
    ∃ mc', (act (.memberCo mc) q a).1 = .memberCo mc' ∧ mc'.done = false ∧ LatestOK mc'.c.latest ∧
      alookup mc'.c.lastEvents m = lastK (R ++ about m (act (.memberCo mc) q a).2.2) ∧
      lastK ((R ++ about m (act (.memberCo mc) q a).2.2) ++
          (seg m ((act (.memberCo mc) q a).1, (act (.memberCo mc) q a).2.1) ++ T)) =
        lastK (R ++ (seg m (.memberCo mc, q) ++ T)) := by
  have hflush : ∃ mc', (flushNow memberCoP mc false).1 = mc' ∧ mc'.done = false ∧ LatestOK mc'.c.latest ∧
      alookup mc'.c.lastEvents m = lastK (R ++ about m (flushNow memberCoP mc false).2) ∧
      lastK ((R ++ about m (flushNow memberCoP mc false).2) ++ (seg m (.memberCo mc', q) ++ T)) =
        lastK (R ++ (seg m (.memberCo mc, q) ++ T)) := by
    refine ⟨_, rfl, rfl, ?_, ?_, ?_⟩
    · simp only [flushNow, memberCoP, flush_latest]; exact LatestOK.nil
    · simp only [flushNow, memberCoP]
      rw [flush_about mc.c hok m]
      simp only [MemberCoalesce.flush]
      rw [flushLoop_last _ _ _ hok m]
      cases hl : alookup mc.c.latest m with
      | none => simp [hI]
      | some e =>
        by_cases hs : suppressed mc.c.lastEvents e
        · simp [hs, hI]
        · simp only [hs, Bool.false_eq_true, ↓reduceIte, Option.toList_some, List.filter_cons, Bool.not_false,
            List.filter_nil]
          rw [lastK_append_cons]; rfl
    · simp only [flushNow, memberCoP, seg, held, flush_latest, alookup_nil, Option.toList_none, List.nil_append]
      rw [flush_about mc.c hok m]
      cases hl : alookup mc.c.latest m with
      | none => simp
      | some e =>
        have hname : e.name = m := by
          have := hok.2 _ (mem_of_alookup hl)
          simpa using this.symm
        by_cases hs : suppressed mc.c.lastEvents e
        · simp only [hs, Option.toList_some, List.filter_cons, Bool.not_true, Bool.false_eq_true, ↓reduceIte,
            List.filter_nil, List.append_nil, List.singleton_append]
          simp only [List.cons_append]
          by_cases hne : about m q ++ T = []
          · rw [hne, List.append_nil, lastK_append_cons, lastK_singleton, ← hI]
            simp only [suppressed, Bool.and_eq_true, beq_iff_eq, hname] at hs
            exact hs.1
          · rw [lastK_append_ne _ _ hne, lastK_append_cons]
            exact (lastK_append_ne [e] _ hne).symm
        · simp [hs]
  cases a with
  | drop => simp [lossless] at ha
  | shutdown => simp [lossless] at ha
  | take =>
    cases q with
    | nil => exact ⟨mc, rfl, hd, hok, by simp [act, about_nil, hI], by simp [act, about_nil]⟩
    | cons e q' =>
      simp only [act, Stage.step]
      cases e with
      | member x =>
        rw [step_handled _ _ hd _ rfl]
        refine ⟨_, rfl, hd, hok.insert x, by simp [about_nil, memberCoP, MemberCoalesce.coalesce, hI], ?_⟩
        simp only [about_nil, List.append_nil, seg, held, memberCoP, MemberCoalesce.coalesce, alookup_ainsert]
        rw [about_cons m _ q', about_member]
        by_cases hx : m == x.name
        · have hx' : x.name == m := by rw [beq_iff_eq] at hx ⊢; exact hx.symm
          simp only [hx, ↓reduceIte, Option.toList_some, hx', List.append_assoc, List.singleton_append,
            List.cons_append]
          rw [lastK_append_cons]
          exact (lastK_drop_mid R _ x _).symm
        · have hx' : ¬ (x.name == m) := by rw [beq_iff_eq] at hx ⊢; exact fun e' => hx e'.symm
          simp [hx, hx']
      | user u =>
        rw [step_unhandled _ _ hd _ rfl]
        exact ⟨mc, rfl, hd, hok, by simp [about_user, hI], by simp [about_user, seg, about_cons m (.user u) q']⟩
      | query b id =>
        rw [step_unhandled _ _ hd _ rfl]
        exact ⟨mc, rfl, hd, hok, by simp [about_query, hI], by simp [about_query, seg, about_cons m (.query b id) q']⟩
  | quantum =>
    simp only [act, Stage.step, CoalesceLoop.step]
    split
    · exact ⟨mc, rfl, hd, hok, by simp [about_nil, hI], by simp [about_nil]⟩
    · obtain ⟨mc', h1, h2, h3, h4, h5⟩ := hflush
      exact ⟨mc', by rw [h1], h2, h3, h4, by rw [h1]; exact h5⟩
  | quiescent =>
    simp only [act, Stage.step, CoalesceLoop.step]
    split
    · exact ⟨mc, rfl, hd, hok, by simp [about_nil, hI], by simp [about_nil]⟩
    · obtain ⟨mc', h1, h2, h3, h4, h5⟩ := hflush
      exact ⟨mc', by rw [h1], h2, h3, h4, by rw [h1]; exact h5⟩

end SerfProofs.Pipeline

namespace SerfProofs.Pipeline
open SerfModel SerfModel.MemberCoalesce SerfModel.UserCoalesce SerfModel.CoalesceLoop SerfModel.Pipeline
open SerfProofs.MemberCoalesce SerfProofs.CoalesceLoop

/-- Invariant of loss-free runs, per member `m` (`E` = the events emitted about `m`). -/
def Inv (m : String) (E : List MEv) (s : Pipe) : Prop :=
  lastK (flat m s) = lastK E ∧
  (AllPass s.stages ∨
    ∃ mc q rest, s.stages = (Stage.memberCo mc, q) :: rest ∧ AllPass rest ∧ mc.done = false ∧
      LatestOK mc.c.latest ∧ alookup mc.c.lastEvents m = lastK (about m s.recv))

theorem emit_flat (s : Pipe) (m : String) : flat m (s.step .emit) = flat m s := by
  simp only [Pipe.step]
  cases ht : s.todo with
  | nil => simp
  | cons e t =>
    simp only
    by_cases hem : s.stages.isEmpty
    · have : s.stages = [] := by simpa using hem
      simp only [this, List.isEmpty_nil, ↓reduceIte, flat, ht, flatS, List.nil_append, about_append]
      rw [about_cons m e t, List.append_assoc]
    · have hne : s.stages ≠ [] := by simpa using hem
      simp only [hem, Bool.false_eq_true, ↓reduceIte, flat, ht]
      rw [pushLast_flat _ hne, about_cons m e t, List.append_assoc]

theorem inv_step (m : String) (E : List MEv) (s : Pipe) (h : Inv m E s) (x : Step) (hx : x.isLoss = false) :
    Inv m E (s.step x) := by
  obtain ⟨hlast, hshape⟩ := h
  cases x with
  | emit =>
    refine ⟨by rw [emit_flat]; exact hlast, ?_⟩
    simp only [Pipe.step]
    cases ht : s.todo with
    | nil => simpa using hshape
    | cons e t =>
      simp only
      rcases hshape with hp | ⟨mc, q, rest, hs, hp, hd, hok, hI⟩
      · left
        by_cases hem : s.stages.isEmpty
        · simpa [hem] using hp
        · simp only [hem, Bool.false_eq_true, ↓reduceIte]
          exact pushLast_pass _ _ hp
      · right
        simp only [hs, List.isEmpty_cons, Bool.false_eq_true, ↓reduceIte]
        cases rest with
        | nil => exact ⟨mc, q ++ [e], [], rfl, hp, hd, hok, hI⟩
        | cons sq2 rest2 => exact ⟨mc, q, pushLast (sq2 :: rest2) e, rfl, pushLast_pass _ _ hp, hd, hok, hI⟩
  | «at» k a =>
    have ha : lossless a = true := by
      cases a <;> simp_all [Step.isLoss, lossless]
    rcases hshape with hp | ⟨mc, q, rest, hs, hp, hd, hok, hI⟩
    · obtain ⟨h1, h2⟩ := stepAt_pass s.stages k a m hp ha
      refine ⟨?_, Or.inl h2⟩
      rw [← hlast]
      simp only [Pipe.step, flat, about_append]
      rw [List.append_assoc, ← List.append_assoc (about m (stepAt s.stages k a).2), h1]
    · cases k with
      | zero =>
        obtain ⟨mc', e1, e2, e3, e4, e5⟩ :=
          memberCo_act m mc q a ha hd hok (about m s.recv) (flatS m rest ++ about m s.todo) hI
        refine ⟨?_, Or.inr ⟨mc', (act (.memberCo mc) q a).2.1, rest, ?_, hp, e2, e3, ?_⟩⟩
        · rw [← hlast]
          simp only [Pipe.step, flat, hs, stepAt, flatS, about_append]
          simp only [List.append_assoc] at e5 ⊢
          exact e5
        · simp only [Pipe.step, hs, stepAt, e1]
        · simp only [Pipe.step, hs, stepAt, about_append]
          exact e4
      | succ k =>
        obtain ⟨h1, h2⟩ := stepAt_pass rest k a m hp ha
        refine ⟨?_, Or.inr ⟨mc, q ++ (stepAt rest k a).2, (stepAt rest k a).1, ?_, h2, hd, hok, ?_⟩⟩
        · rw [← hlast]
          simp only [Pipe.step, flat, hs, stepAt, flatS, seg, about_append, List.append_nil, about_nil,
            List.append_assoc]
          rw [← List.append_assoc (about m (stepAt rest k a).2), h1]
        · simp only [Pipe.step, hs, stepAt]
        · simp only [Pipe.step, hs, stepAt, List.append_nil]
          exact hI

theorem inv_run (m : String) (E : List MEv) (sched : List Step) : ∀ (s : Pipe), Inv m E s →
    sched.all (fun x => !x.isLoss) = true → Inv m E (sched.foldl Pipe.step s) := by
  induction sched with
  | nil => intro s h _; exact h
  | cons x xs ih =>
    intro s h hl
    simp only [List.all_cons, Bool.and_eq_true, Bool.not_eq_eq_eq_not, Bool.not_true] at hl
    exact ih (s.step x) (inv_step m E s h x hl.1) (by simpa using hl.2)

theorem passTail (a b : Bool) :
    AllPass ((if b then [(Stage.userCo (CoalesceLoop.init userCoP), ([] : List PEv))] else []) ++
      [(Stage.filter, [])] ++ (if a then [(Stage.tee, [])] else [])) := by
  intro sq hsq
  simp only [List.mem_append] at hsq
  rcases hsq with (h | h) | h
  · split at h
    · simp only [List.mem_singleton] at h; subst h; simp [Pass, CoalesceLoop.init]
    · simp at h
  · simp only [List.mem_singleton] at h; subst h; simp [Pass]
  · split at h
    · simp only [List.mem_singleton] at h; subst h; simp [Pass]
    · simp at h

theorem inv_init (cfg : Cfg) (emitted : List PEv) (m : String) : Inv m (about m emitted) (initPipe cfg emitted) := by
  refine ⟨?_, ?_⟩
  · have hs : flatS m (stagesOf cfg) = [] := by
      cases cfg with
      | mk a b c => cases a <;> cases b <;> cases c <;> rfl
    simp [flat, initPipe, hs, about_nil]
  · cases cfg with
    | mk a b c =>
      cases c with
      | false =>
        left
        have := passTail a b
        simpa [initPipe, stagesOf] using this
      | true =>
        right
        refine ⟨CoalesceLoop.init memberCoP, [], _, ?_, passTail a b, rfl, LatestOK.nil, rfl⟩
        simp [initPipe, stagesOf]

/-- Drained: the whole in-flight part is empty. -/
theorem drained_flat (s : Pipe) (h : s.drained = true) (m : String) : flat m s = about m s.recv := by
  simp only [Pipe.drained, Bool.and_eq_true, List.isEmpty_iff, List.all_eq_true] at h
  obtain ⟨ht, hst⟩ := h
  have : flatS m s.stages = [] := by
    generalize s.stages = l at hst
    induction l with
    | nil => rfl
    | cons sq rest ih =>
      have h1 := hst sq List.mem_cons_self
      have h2 := ih (fun x hx => hst x (List.mem_cons_of_mem _ hx))
      obtain ⟨st, q⟩ := sq
      simp only [flatS, h2, List.append_nil, seg]
      cases st with
      | tee => simp only [stageIdle, List.isEmpty_iff] at h1; simp [held, h1, about_nil]
      | filter => simp only [stageIdle, List.isEmpty_iff] at h1; simp [held, h1, about_nil]
      | userCo u => simp only [stageIdle, List.isEmpty_iff] at h1; simp [held, h1, about_nil]
      | memberCo mc =>
        simp only [stageIdle, Bool.and_eq_true, List.isEmpty_iff] at h1
        simp [held, h1.1, h1.2, about_nil]
  simp [flat, this, ht, about_nil]

end SerfProofs.Pipeline
