/-
Helper lemmas about the Vivaldi client model (Model/Coord.lean): what each step of `update` preserves.
Structural facts (vector lengths, which fields a step touches) need no arithmetic laws; the height and error
bounds use `LawfulFloatLike`.
-/
import SerfModel.Model.Coord
import SerfProofs.Lemmas.FloatLaws
namespace SerfModel.Coord
open SerfModel FloatLike

variable {F : Type} [FloatLike F]

/-! ### structure: lengths and untouched fields -/

theorem draws_length (n : Nat) (r : List F) : (draws n r).1.length = n := by
  induction n generalizing r with
  | zero => simp [draws]
  | succ n ih => cases r <;> simp [draws, ih]

theorem firstAxis_length (n : Nat) : (firstAxis n : List F).length = n := by
  cases n <;> simp [firstAxis]

theorem unitVectorAt_length (rnd v1 v2 : List F) (h : v1.length = v2.length) :
    (unitVectorAt rnd v1 v2).1.1.length = v1.length := by
  unfold unitVectorAt
  simp only []
  split
  · simp [mulv, diffv, h]
  · split
    · simp [mulv, diffv, draws_length, h]
    · simp [firstAxis_length, diffv, h]

theorem applyForce_vec_length (cfg : Config F) (rnd : List F) (c : Coordinate F) (f : F) (o : Coordinate F)
    (h : c.vec.length = o.vec.length) : (applyForce cfg rnd c f o).1.vec.length = c.vec.length := by
  simp [applyForce, addv, mulv, unitVectorAt_length rnd c.vec o.vec h]

theorem applyForce_error (cfg : Config F) (rnd : List F) (c : Coordinate F) (f : F) (o : Coordinate F) :
    (applyForce cfg rnd c f o).1.error = c.error := rfl

theorem applyForce_adjustment (cfg : Config F) (rnd : List F) (c : Coordinate F) (f : F) (o : Coordinate F) :
    (applyForce cfg rnd c f o).1.adjustment = c.adjustment := rfl

theorem newCoordinate_length (cfg : Config F) : (newCoordinate cfg).vec.length = cfg.dim := by
  simp [newCoordinate]

/-- `HN hmin h`: the height is NaN or at least the minimum — what `ApplyForce` maintains. -/
def HN (hmin h : F) : Prop := isNaN h = true ∨ le hmin h = true

theorem applyForce_height [LawfulFloatLike F] (cfg : Config F) (rnd : List F) (c : Coordinate F) (f : F)
    (o : Coordinate F) (hm : isNaN cfg.heightMin = false) (h : HN cfg.heightMin c.height) :
    HN cfg.heightMin (applyForce cfg rnd c f o).1.height := by
  simp only [applyForce]
  split
  · cases hn : isNaN (FloatLike.max (add (div (mul (add c.height o.height) f)
        (unitVectorAt rnd c.vec o.vec).1.2) c.height) cfg.heightMin)
    · exact Or.inr (LawfulFloatLike.max_ge_right _ _ hm hn)
    · exact Or.inl hn
  · exact h

/-! ### the steps of Update -/

theorem latencyFilter_coord (cfg : Config F) (cl : Client F) (node : String) (rtt : F) :
    (latencyFilter cfg cl node rtt).1.coord = cl.coord := rfl

theorem updateVivaldi_vec_length (cfg : Config F) (rnd : List F) (cl : Client F) (o : Coordinate F) (rtt : F)
    (h : cl.coord.vec.length = o.vec.length) :
    (updateVivaldi cfg rnd cl o rtt).1.coord.vec.length = cl.coord.vec.length := by
  simp only [updateVivaldi]
  exact applyForce_vec_length cfg rnd _ _ o h

theorem updateVivaldi_height [LawfulFloatLike F] (cfg : Config F) (rnd : List F) (cl : Client F) (o : Coordinate F)
    (rtt : F) (hm : isNaN cfg.heightMin = false) (h : HN cfg.heightMin cl.coord.height) :
    HN cfg.heightMin (updateVivaldi cfg rnd cl o rtt).1.coord.height := by
  simp only [updateVivaldi]
  exact applyForce_height cfg rnd _ _ o hm h

theorem updateVivaldi_error (cfg : Config F) (rnd : List F) (cl : Client F) (o : Coordinate F) (rtt : F) :
    (updateVivaldi cfg rnd cl o rtt).1.coord.error =
      vivaldiError cfg cl.coord.error o.error (durSeconds (distanceNs cl.coord o))
        (if lt rtt zeroThreshold then zeroThreshold else rtt) := rfl

theorem updateAdjustment_vec (cfg : Config F) (cl : Client F) (o : Coordinate F) (rtt : F) :
    (updateAdjustment cfg cl o rtt).coord.vec = cl.coord.vec := by
  unfold updateAdjustment; split <;> rfl

theorem updateAdjustment_height (cfg : Config F) (cl : Client F) (o : Coordinate F) (rtt : F) :
    (updateAdjustment cfg cl o rtt).coord.height = cl.coord.height := by
  unfold updateAdjustment; split <;> rfl

theorem updateAdjustment_error (cfg : Config F) (cl : Client F) (o : Coordinate F) (rtt : F) :
    (updateAdjustment cfg cl o rtt).coord.error = cl.coord.error := by
  unfold updateAdjustment; split <;> rfl

theorem updateGravity_vec_length (cfg : Config F) (rnd : List F) (cl : Client F)
    (h : cl.coord.vec.length = cfg.dim) :
    (updateGravity cfg rnd cl).1.coord.vec.length = cl.coord.vec.length := by
  simp only [updateGravity]
  exact applyForce_vec_length cfg rnd _ _ _ (by simp [newCoordinate_length, h])

theorem updateGravity_height [LawfulFloatLike F] (cfg : Config F) (rnd : List F) (cl : Client F)
    (hm : isNaN cfg.heightMin = false) (h : HN cfg.heightMin cl.coord.height) :
    HN cfg.heightMin (updateGravity cfg rnd cl).1.coord.height := by
  simp only [updateGravity]
  exact applyForce_height cfg rnd _ _ _ hm h

theorem updateGravity_error (cfg : Config F) (rnd : List F) (cl : Client F) :
    (updateGravity cfg rnd cl).1.coord.error = cl.coord.error := rfl

/-- The coordinate of the client after the three arithmetic steps of an accepted update, before the final
validity check (client.go:225-228). -/
def stepped (cfg : Config F) (cl : Client F) (node : String) (o : Coordinate F) (rttNs : Int) (rnd : List F)
    (rtt : F) : Client F :=
  let cl1 := (latencyFilter cfg cl node (rttSeconds rttNs)).1
  let v := updateVivaldi cfg rnd cl1 o rtt
  (updateGravity cfg v.2 (updateAdjustment cfg v.1 o rtt)).1

/-- The shape of `update`: rejected and unchanged; or a panic that left the coordinate alone; or accepted, and
then the new coordinate is either the stepped one, which is valid, or a fresh one. -/
theorem update_cases (cfg : Config F) (cl : Client F) (node : String) (o : Coordinate F) (rttNs : Int)
    (rnd : List F) :
    (∃ r, rejection cl o rttNs = some r ∧ update cfg cl node o rttNs rnd = (cl, .rejected r)) ∨
    (rejection cl o rttNs = none ∧ (update cfg cl node o rttNs rnd).2 = .panic ∧
        (update cfg cl node o rttNs rnd).1.coord = cl.coord ∧
        (latencyFilter cfg cl node (rttSeconds rttNs)).2 = none) ∨
    (rejection cl o rttNs = none ∧ (update cfg cl node o rttNs rnd).2 = .ok ∧
      ∃ rtt, (latencyFilter cfg cl node (rttSeconds rttNs)).2 = some rtt ∧
        (((update cfg cl node o rttNs rnd).1.coord = (stepped cfg cl node o rttNs rnd rtt).coord ∧
            isValid (stepped cfg cl node o rttNs rnd rtt).coord = true) ∨
         ((update cfg cl node o rttNs rnd).1.coord = newCoordinate cfg ∧
            isValid (stepped cfg cl node o rttNs rnd rtt).coord = false))) := by
  unfold update
  cases hr : rejection cl o rttNs with
  | some r => exact Or.inl ⟨r, rfl, rfl⟩
  | none =>
    refine Or.inr ?_
    cases hl : (latencyFilter cfg cl node (rttSeconds rttNs)).2 with
    | none => exact Or.inl ⟨rfl, rfl, rfl, rfl⟩
    | some rtt =>
      refine Or.inr ⟨rfl, ?_, rtt, rfl, ?_⟩
      · simp only []; split <;> rfl
      · simp only []
        cases hv : isValid (stepped cfg cl node o rttNs rnd rtt).coord
        · right; simp [stepped] at hv; simp [hv, stepped]
        · left; simp [stepped] at hv; simp [hv, stepped]

theorem rejection_none_compat {cl : Client F} {o : Coordinate F} {rttNs : Int} (h : rejection cl o rttNs = none) :
    cl.coord.vec.length = o.vec.length ∧ isValid o = true ∧ 0 ≤ rttNs ∧ rttNs ≤ 10000000000 := by
  unfold rejection checkCoordinate isCompatibleWith at h
  by_cases h1 : cl.coord.vec.length = o.vec.length
  · by_cases h2 : isValid o = true
    · simp [h1, h2] at h
      exact ⟨h1, h2, by omega, by omega⟩
    · simp [h1, h2] at h
  · simp [h1] at h

theorem stepped_vec_length (cfg : Config F) (cl : Client F) (node : String) (o : Coordinate F) (rttNs : Int)
    (rnd : List F) (rtt : F) (hc : cl.coord.vec.length = o.vec.length) (hd : cl.coord.vec.length = cfg.dim) :
    (stepped cfg cl node o rttNs rnd rtt).coord.vec.length = cfg.dim := by
  simp only [stepped]
  have h1 := updateVivaldi_vec_length cfg rnd (latencyFilter cfg cl node (rttSeconds rttNs)).1 o rtt
    (by simpa [latencyFilter_coord] using hc)
  rw [latencyFilter_coord] at h1
  have h2 : (updateAdjustment cfg (updateVivaldi cfg rnd (latencyFilter cfg cl node (rttSeconds rttNs)).1 o rtt).1 o rtt).coord.vec.length = cfg.dim := by
    rw [updateAdjustment_vec, h1, hd]
  rw [updateGravity_vec_length _ _ _ h2, h2]

theorem stepped_height [LawfulFloatLike F] (cfg : Config F) (cl : Client F) (node : String) (o : Coordinate F)
    (rttNs : Int) (rnd : List F) (rtt : F) (hm : isNaN cfg.heightMin = false)
    (h : HN cfg.heightMin cl.coord.height) :
    HN cfg.heightMin (stepped cfg cl node o rttNs rnd rtt).coord.height := by
  simp only [stepped]
  apply updateGravity_height _ _ _ hm
  rw [updateAdjustment_height]
  apply updateVivaldi_height _ _ _ _ _ hm
  simpa [latencyFilter_coord] using h

theorem stepped_error (cfg : Config F) (cl : Client F) (node : String) (o : Coordinate F)
    (rttNs : Int) (rnd : List F) (rtt : F) :
    (stepped cfg cl node o rttNs rnd rtt).coord.error =
      vivaldiError cfg cl.coord.error o.error (durSeconds (distanceNs cl.coord o))
        (if lt rtt zeroThreshold then zeroThreshold else rtt) := by
  simp only [stepped]
  rw [updateGravity_error, updateAdjustment_error, updateVivaldi_error]
  rfl

/-! ### validity of a fresh coordinate -/

theorem finite_not_nan {x : F} (h : finite x = true) : isNaN x = false := by
  simp [finite] at h; exact h.2

theorem isValid_newCoordinate [LawfulFloatLike F] (cfg : Config F)
    (he : finite cfg.errorMax = true) (hh : finite cfg.heightMin = true) : isValid (newCoordinate cfg) = true := by
  have hz : finite (zero : F) = true := LawfulFloatLike.zero_finite
  simp [isValid, newCoordinate, he, hh, hz]

theorem isValid_height {c : Coordinate F} (h : isValid c = true) : isNaN c.height = false := by
  simp [isValid] at h; exact finite_not_nan h.2.2

theorem isValid_error {c : Coordinate F} (h : isValid c = true) : isNaN c.error = false := by
  simp [isValid] at h; exact finite_not_nan h.2.1.1

/-! ### the error estimate stays in [0, ErrorMax] (uses the arithmetic laws) -/

section error
variable [LawfulFloatLike F]
open LawfulFloatLike

theorem U_NN {x : F} (h : U x) : NN x := h.elim Or.inl (fun h => Or.inr h.1)

theorem NN_of_le {x : F} (h : le (zero : F) x = true) : NN x := Or.inr h

theorem NN_thr : NN (zeroThreshold : F) := Or.inr (le_of_lt _ _ thr_pos)

/-- the confidence weight `e / max(e + eo, 1e-6)` is in [0,1] or NaN -/
theorem weight_unit (e eo : F) (he : le (zero : F) e = true) (ho : le (zero : F) eo = true) :
    U (div e (if lt (add e eo) zeroThreshold then zeroThreshold else add e eo)) := by
  cases hn : isNaN (add e eo) with
  | true =>
    have : lt (add e eo) (zeroThreshold : F) = false := by
      cases hl : lt (add e eo) (zeroThreshold : F) with
      | false => rfl
      | true => have := (lt_not_nan _ _ hl).1; simp [hn] at this
    simp only [this]
    exact Or.inl (div_nan_right _ _ hn)
  | false =>
    have hle : le e (add e eo) = true := by
      rcases add_ge_left e eo he ho with h | h
      · simp [hn] at h
      · exact h
    cases hl : lt (add e eo) (zeroThreshold : F) with
    | true =>
      simp only [if_true]
      exact unit_div e _ he (le_of_lt _ _ (lt_of_le_of_lt _ _ _ hle hl)) thr_pos
    | false =>
      simp only [Bool.false_eq_true, if_false]
      have hthr : le (zeroThreshold : F) (add e eo) = true :=
        le_of_not_lt _ _ (lt_not_nan _ _ (thr_pos (F := F))).2 hn hl
      exact unit_div e _ he hle (lt_of_lt_of_le _ _ _ thr_pos hthr)

theorem clamp_bounds (pre emax : F) (hm0 : le (zero : F) emax = true) (hpre : NN pre) :
    isNaN (if gt pre emax then emax else pre) = true ∨
      (le (zero : F) (if gt pre emax then emax else pre) = true ∧
        le (if gt pre emax then emax else pre) emax = true) := by
  have hmn : isNaN emax = false := (le_not_nan _ _ hm0).2
  cases hgt : gt pre emax with
  | true => simp only [if_true]; exact Or.inr ⟨hm0, le_refl _ hmn⟩
  | false =>
    simp only [Bool.false_eq_true, if_false]
    rcases hpre with h | h
    · exact Or.inl h
    · exact Or.inr ⟨h, le_of_not_lt _ _ (le_not_nan _ _ h).2 hmn hgt⟩

theorem vivaldiError_bounds (cfg : Config F) (e eo dist rtt : F)
    (hce0 : le (zero : F) cfg.ce = true) (hce1 : le cfg.ce (one : F) = true)
    (hm0 : le (zero : F) cfg.errorMax = true)
    (he : le (zero : F) e = true) (ho : le (zero : F) eo = true) (hrtt : NN rtt) :
    isNaN (vivaldiError cfg e eo dist rtt) = true ∨
      (le (zero : F) (vivaldiError cfg e eo dist rtt) = true ∧
        le (vivaldiError cfg e eo dist rtt) cfg.errorMax = true) := by
  have hw := weight_unit e eo he ho
  have hcw : U (mul cfg.ce (div e (if lt (add e eo) zeroThreshold then zeroThreshold else add e eo))) :=
    unit_mul _ _ (Or.inr ⟨hce0, hce1⟩) hw
  have hwrong : NN (div (abs (sub dist rtt)) rtt) := nn_div _ _ (nn_abs _) hrtt
  have hpre : NN (add (mul (mul cfg.ce (div e (if lt (add e eo) zeroThreshold then zeroThreshold else add e eo)))
        (div (abs (sub dist rtt)) rtt))
      (mul e (sub one (mul cfg.ce (div e (if lt (add e eo) zeroThreshold then zeroThreshold else add e eo)))))) :=
    nn_add _ _ (nn_mul _ _ (U_NN hcw) hwrong) (nn_mul _ _ (NN_of_le he) (one_sub_unit _ hcw))
  exact clamp_bounds _ _ hm0 hpre

end error

end SerfModel.Coord
