/-
The executable matcher of `SerfModel.Regex` (`ends`) is sound and complete for the
standard declarative semantics of regular expressions with anchors (`Matches`,
an inductive relation: `Matches r w i j` = `r` matches `w[i..j)`; star is the
reflexive-transitive closure of the body).  In particular the iteration bound of
the star (`|w|+1` rounds of the closure) loses nothing.
-/
import SerfModel.Model.Regex
namespace SerfProofs.Regex
open SerfModel SerfModel.Regex

inductive Matches : Regex → List Char → Nat → Nat → Prop
  | empty (w i) : Matches .empty w i i
  | char (w i c) : w[i]? = some c → Matches (.char c) w i (i + 1)
  | any (w i c) : w[i]? = some c → c ≠ '\n' → Matches .any w i (i + 1)
  | cls (w i c neg rs) : w[i]? = some c → (inRanges rs c != neg) = true → Matches (.cls neg rs) w i (i + 1)
  | cat (r s w i j k) : Matches r w i j → Matches s w j k → Matches (.cat r s) w i k
  | altL (r s w i j) : Matches r w i j → Matches (.alt r s) w i j
  | altR (r s w i j) : Matches s w i j → Matches (.alt r s) w i j
  | starNil (r w i) : Matches (.star r) w i i
  | starStep (r w i j k) : Matches r w i j → Matches (.star r) w j k → Matches (.star r) w i k
  | plus (r w i j k) : Matches r w i j → Matches (.star r) w j k → Matches (.plus r) w i k
  | optNil (r w i) : Matches (.opt r) w i i
  | optSome (r w i j) : Matches r w i j → Matches (.opt r) w i j
  | group (r w i j) : Matches r w i j → Matches (.group r) w i j
  | bot (w) : Matches .bot w 0 0
  | eot (w) : Matches .eot w w.length w.length

/-! ### membership in the list operations of the matcher -/

theorem mem_union (x : Nat) (a b : List Nat) : x ∈ union a b ↔ x ∈ a ∨ x ∈ b := by
  simp only [union, List.mem_append, List.mem_filter]
  constructor
  · rintro (h | ⟨h, _⟩)
    · exact Or.inl h
    · exact Or.inr h
  · rintro (h | h)
    · exact Or.inl h
    · by_cases hx : x ∈ a
      · exact Or.inl hx
      · exact Or.inr ⟨h, by simpa using hx⟩

theorem subset_closure (f : Nat → List Nat) : ∀ n S x, x ∈ S → x ∈ closure f n S := by
  intro n
  induction n with
  | zero => intro S x h; exact h
  | succ n ih => intro S x h; exact ih _ x ((mem_union x S _).2 (Or.inl h))

/-! ### a match never moves backwards and never leaves the word -/

theorem Matches.le {r w i j} (h : Matches r w i j) : i ≤ j := by
  induction h with
  | cat _ _ _ _ _ _ _ _ ih1 ih2 => exact Nat.le_trans ih1 ih2
  | starStep _ _ _ _ _ _ _ ih1 ih2 => exact Nat.le_trans ih1 ih2
  | plus _ _ _ _ _ _ _ ih1 ih2 => exact Nat.le_trans ih1 ih2
  | altL _ _ _ _ _ _ ih => exact ih
  | altR _ _ _ _ _ _ ih => exact ih
  | optSome _ _ _ _ _ ih => exact ih
  | group _ _ _ _ _ ih => exact ih
  | _ => omega

theorem lt_length_of_getElem? {w : List Char} {i : Nat} {c : Char} (h : w[i]? = some c) : i < w.length := by
  rcases Nat.lt_or_ge i w.length with h1 | h1
  · exact h1
  · rw [List.getElem?_eq_none h1] at h; cases h

theorem Matches.bound {r w i j} (h : Matches r w i j) (hi : i ≤ w.length) : j ≤ w.length := by
  induction h with
  | char _ _ _ hc => have := lt_length_of_getElem? hc; omega
  | any _ _ _ hc _ => have := lt_length_of_getElem? hc; omega
  | cls _ _ _ _ _ hc _ => have := lt_length_of_getElem? hc; omega
  | cat _ _ _ _ _ _ _ _ ih1 ih2 => exact ih2 (ih1 hi)
  | starStep _ _ _ _ _ _ _ ih1 ih2 => exact ih2 (ih1 hi)
  | plus _ _ _ _ _ _ _ ih1 ih2 => exact ih2 (ih1 hi)
  | altL _ _ _ _ _ _ ih => exact ih hi
  | altR _ _ _ _ _ _ ih => exact ih hi
  | optSome _ _ _ _ _ ih => exact ih hi
  | group _ _ _ _ _ ih => exact ih hi
  | _ => omega

/-! ### star: appending a step, soundness and completeness of the bounded closure -/

theorem star_snoc_aux : ∀ {s w i j}, Matches s w i j → ∀ r, s = .star r → ∀ k, Matches r w j k →
    Matches (.star r) w i k := by
  intro s w i j h
  induction h with
  | starNil r' w i =>
    intro r hs k h2
    injection hs with hs; subst hs
    exact .starStep _ _ _ _ _ h2 (.starNil _ _ _)
  | starStep r' w i j' k' hm _ _ ih2 =>
    intro r hs k h2
    injection hs with hs; subst hs
    exact .starStep _ _ _ _ _ hm (ih2 _ rfl k h2)
  | _ => intro r hs; cases hs

theorem star_snoc {r w i j k} (h1 : Matches (.star r) w i j) (h2 : Matches r w j k) : Matches (.star r) w i k :=
  star_snoc_aux h1 r rfl k h2

/-- everything the closure produces satisfies an invariant that holds of the seeds and is
preserved by one step of the body -/
theorem closure_inv (r : Regex) (w : List Char) (Q : Nat → Prop)
    (hf : ∀ a b, b ∈ ends r w a → Matches r w a b)
    (hstep : ∀ a b, Q a → Matches r w a b → Q b) :
    ∀ n S, (∀ s ∈ S, Q s) → ∀ x ∈ closure (fun j => ends r w j) n S, Q x := by
  intro n
  induction n with
  | zero => intro S hS x hx; exact hS x hx
  | succ n ih =>
    intro S hS x hx
    apply ih (union S (S.flatMap fun j => ends r w j)) _ x hx
    intro s hs
    rcases (mem_union s _ _).1 hs with h | h
    · exact hS s h
    · obtain ⟨a, ha, hb⟩ := List.mem_flatMap.1 h
      exact hstep a s (hS a ha) (hf a s hb)

theorem closure_complete_aux (r : Regex) :
    ∀ {s w i k}, Matches s w i k → s = .star r →
      (∀ i j, Matches r w i j → i ≤ w.length → j ∈ ends r w i) → i ≤ w.length →
      ∀ n S, i ∈ S → w.length - i < n → k ∈ closure (fun j => ends r w j) n S := by
  intro s w i k h
  induction h with
  | starNil r' w' i =>
    intro _ _ _ n S hiS _
    exact subset_closure _ n S i hiS
  | starStep r' w' i j k hm hst _ ih2 =>
    intro hs hc hi n S hiS hn
    injection hs with hs; subst hs
    by_cases hji : j = i
    · subst hji; exact ih2 rfl hc hi n S hiS hn
    · have hle := hm.le
      have hjb := hm.bound hi
      cases n with
      | zero => omega
      | succ n' =>
        show k ∈ closure _ n' (union S (S.flatMap fun j => ends r' w' j))
        apply ih2 rfl hc hjb n'
        · exact (mem_union j _ _).2 (Or.inr (List.mem_flatMap.2 ⟨i, hiS, hc i j hm hi⟩))
        · omega
  | _ => intro hs; cases hs

theorem closure_complete (r : Regex) (w : List Char)
    (hc : ∀ i j, Matches r w i j → i ≤ w.length → j ∈ ends r w i)
    {i k : Nat} (h : Matches (.star r) w i k) (hi : i ≤ w.length) (n : Nat) (S : List Nat)
    (hiS : i ∈ S) (hn : w.length - i < n) : k ∈ closure (fun j => ends r w j) n S :=
  closure_complete_aux r h rfl hc hi n S hiS hn

/-! ### the matcher is sound and complete -/

theorem ends_sound : ∀ (r : Regex) (w : List Char) (i j : Nat), j ∈ ends r w i → Matches r w i j := by
  intro r
  induction r with
  | empty => intro w i j h; simp [ends] at h; subst h; exact .empty _ _
  | char c =>
    intro w i j h
    simp only [ends] at h
    split at h
    · rename_i hc; simp at h; subst h; exact .char _ _ _ hc
    · simp at h
  | any =>
    intro w i j h
    simp only [ends] at h
    split at h
    · rename_i c hc
      split at h
      · simp at h
      · rename_i hn; simp at h; subst h; exact .any _ _ c hc hn
    · simp at h
  | cls neg rs =>
    intro w i j h
    simp only [ends] at h
    split at h
    · rename_i c hc
      split at h
      · rename_i hr; simp at h; subst h; exact .cls _ _ c _ _ hc hr
      · simp at h
    · simp at h
  | cat r s ihr ihs =>
    intro w i j h
    simp only [ends] at h
    obtain ⟨m, hm, hj⟩ := List.mem_flatMap.1 h
    exact .cat _ _ _ _ _ _ (ihr w i m hm) (ihs w m j hj)
  | alt r s ihr ihs =>
    intro w i j h
    simp only [ends] at h
    rcases (mem_union j _ _).1 h with h | h
    · exact .altL _ _ _ _ _ (ihr w i j h)
    · exact .altR _ _ _ _ _ (ihs w i j h)
  | star r ih =>
    intro w i j h
    simp only [ends] at h
    exact closure_inv r w (fun x => Matches (.star r) w i x) (ih w) (fun a b ha hab => star_snoc ha hab)
      _ [i] (by intro s hs; simp at hs; subst hs; exact .starNil _ _ _) j h
  | plus r ih =>
    intro w i j h
    simp only [ends] at h
    refine closure_inv r w (fun x => Matches (.plus r) w i x) (ih w) ?_ _ (ends r w i) ?_ j h
    · intro a b ha hab
      cases ha with
      | plus _ _ _ m _ h1 h2 => exact .plus _ _ _ m _ h1 (star_snoc h2 hab)
    · intro s hs; exact .plus _ _ _ s _ (ih w i s hs) (.starNil _ _ _)
  | opt r ih =>
    intro w i j h
    simp only [ends] at h
    rcases (mem_union j _ _).1 h with h | h
    · simp at h; subst h; exact .optNil _ _ _
    · exact .optSome _ _ _ _ (ih w i j h)
  | group r ih => intro w i j h; simp only [ends] at h; exact .group _ _ _ _ (ih w i j h)
  | bot =>
    intro w i j h
    simp only [ends] at h
    split at h
    · rename_i h0; simp at h; subst h; subst h0; exact .bot _
    · simp at h
  | eot =>
    intro w i j h
    simp only [ends] at h
    split at h
    · rename_i h0; simp at h; subst h; subst h0; exact .eot _
    · simp at h

theorem ends_complete : ∀ (r : Regex) (w : List Char) (i j : Nat), Matches r w i j → i ≤ w.length → j ∈ ends r w i := by
  intro r
  induction r with
  | empty => intro w i j h _; cases h; simp [ends]
  | char c => intro w i j h _; cases h with | char _ _ _ hc => simp [ends, hc]
  | any => intro w i j h _; cases h with | any _ _ c hc hn => simp [ends, hc, hn]
  | cls neg rs => intro w i j h _; cases h with | cls _ _ c _ _ hc hr => simp [ends, hc, hr]
  | cat r s ihr ihs =>
    intro w i j h hi
    cases h with
    | cat _ _ _ _ m _ h1 h2 =>
      simp only [ends]
      exact List.mem_flatMap.2 ⟨m, ihr w i m h1 hi, ihs w m j h2 (h1.bound hi)⟩
  | alt r s ihr ihs =>
    intro w i j h hi
    simp only [ends]
    cases h with
    | altL _ _ _ _ _ h1 => exact (mem_union j _ _).2 (Or.inl (ihr w i j h1 hi))
    | altR _ _ _ _ _ h1 => exact (mem_union j _ _).2 (Or.inr (ihs w i j h1 hi))
  | star r ih =>
    intro w i j h hi
    simp only [ends]
    exact closure_complete r w (ih w) h hi _ [i] (by simp) (by omega)
  | plus r ih =>
    intro w i j h hi
    simp only [ends]
    cases h with
    | plus _ _ _ m _ h1 h2 =>
      exact closure_complete r w (ih w) h2 (h1.bound hi) _ _ (ih w i m h1 hi) (by omega)
  | opt r ih =>
    intro w i j h hi
    simp only [ends]
    cases h with
    | optNil => exact (mem_union _ _ _).2 (Or.inl (by simp))
    | optSome _ _ _ _ h1 => exact (mem_union j _ _).2 (Or.inr (ih w i j h1 hi))
  | group r ih => intro w i j h hi; cases h with | group _ _ _ _ h1 => simp only [ends]; exact ih w i j h1 hi
  | bot => intro w i j h _; cases h; simp [ends]
  | eot => intro w i j h _; cases h; simp [ends]

/-- the executable matcher computes exactly the declarative semantics -/
theorem mem_ends_iff (r : Regex) (w : List Char) (i j : Nat) (hi : i ≤ w.length) :
    j ∈ ends r w i ↔ Matches r w i j :=
  ⟨ends_sound r w i j, fun h => ends_complete r w i j h hi⟩

end SerfProofs.Regex
