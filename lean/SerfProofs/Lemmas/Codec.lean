/-
Laws of the typed codec layer: every field decoder inverts its encoder, every
message kind's `ofMP` inverts `toMP` on valid values, and `toMP` of a valid value
is a well-formed msgpack value (so the byte-level round trip applies).
-/
import SerfModel.Model.Codec
import SerfProofs.Lemmas.Msgpack
namespace SerfProofs.Codec
open SerfModel.Msgpack SerfModel.Codec SerfProofs.Msgpack

@[simp] theorem R.bind_ok {α β} (a : α) (f : α → R β) : (R.ok a).bind f = f a := rfl
@[simp] theorem R.map_ok {α β} (a : α) (f : α → β) : (R.ok a).map f = .ok (f a) := rfl

theorem getUint_uint (bits n : Nat) (h : n < 2 ^ bits) : getUint bits (.uint n) = .ok n := by simp [getUint, h]
@[simp] theorem getStr_raw (bs : Bytes) : getStr (.raw bs) = .ok bs := rfl
@[simp] theorem getBool_bool (b : Bool) : getBool (.bool b) = .ok b := rfl
@[simp] theorem getBytes_put (o : Option Bytes) : getBytes (putBytes o) = .ok o := by cases o <;> rfl
@[simp] theorem getKey_raw (bs : Bytes) : getKey (.raw bs) = .ok bs := rfl
@[simp] theorem getFieldKey_cons (b : UInt8) (bs : Bytes) : getFieldKey (.raw (b :: bs)) = .ok (b :: bs) := rfl

theorem getInt64_put (i : Int) (h1 : -9223372036854775808 ≤ i) (h2 : i < 9223372036854775808) :
    getInt64 (putInt i) = .ok i := by
  unfold putInt
  split
  · simp [getInt64]; omega
  · simp [getInt64]

theorem wf_putInt (i : Int) (h1 : -9223372036854775808 ≤ i) (h2 : i < 9223372036854775808) :
    wf (putInt i) = true := by
  unfold putInt
  split
  · simp [wf]; omega
  · simp [wf]; omega

theorem wf_putBytes (o : Option Bytes) (h : optBytesValid o = true) : wf (putBytes o) = true := by
  cases o with
  | none => simp [putBytes, wf]
  | some b =>
    simp only [optBytesValid, optLen] at h
    have := of_decide_eq_true h
    simp only [putBytes, wf]
    exact decide_eq_true (by omega)

theorem mapMR_map {α} (f : α → MP) (g : MP → R α) (xs : List α) (h : ∀ x ∈ xs, g (f x) = .ok x) :
    mapMR g (xs.map f) = .ok xs := by
  induction xs with
  | nil => rfl
  | cons x xs ih =>
    simp only [List.map, mapMR]
    rw [h x (by simp), R.bind_ok, ih (fun y hy => h y (by simp [hy])), R.bind_ok]

theorem getSlice_put {α} (f : α → MP) (g : MP → R α) (o : Option (List α))
    (h : ∀ xs, o = some xs → ∀ x ∈ xs, g (f x) = .ok x) : getSlice g (putSlice f o) = .ok o := by
  cases o with
  | none => rfl
  | some xs => simp [putSlice, getSlice, mapMR_map f g xs (h xs rfl)]

theorem wfList_map {α} (f : α → MP) (xs : List α) (h : ∀ x ∈ xs, wf (f x) = true) : wfList (xs.map f) = true := by
  induction xs with
  | nil => rfl
  | cons x xs ih =>
    simp only [List.map, wfList, Bool.and_eq_true]
    exact ⟨h x (by simp), ih (fun y hy => h y (by simp [hy]))⟩

theorem wf_putSlice {α} (f : α → MP) (o : Option (List α))
    (h : ∀ xs, o = some xs → xs.length < 4294967296 ∧ ∀ x ∈ xs, wf (f x) = true) : wf (putSlice f o) = true := by
  cases o with
  | none => rfl
  | some xs =>
    have := h xs rfl
    simp [putSlice, wf, this.1, wfList_map f xs this.2]

theorem minsert_fresh {β} (m : List (Bytes × β)) (k : Bytes) (v : β) (h : m.any (·.1 == k) = false) :
    minsert m k v = m ++ [(k, v)] := by
  simp [minsert, h]

theorem foldPairs_strmap {β} (f : β → MP) (val : MP → R β) (kvs acc : List (Bytes × β))
    (hv : ∀ p ∈ kvs, val (f p.2) = .ok p.2) (hn : keysNodup kvs = true)
    (hd : ∀ p ∈ kvs, acc.any (·.1 == p.1) = false) :
    foldPairsR getKey (fun m k v => (val v).map (minsert m k)) acc (kvs.map fun p => (MP.raw p.1, f p.2))
      = .ok (acc ++ kvs) := by
  induction kvs generalizing acc with
  | nil => simp [foldPairsR]
  | cons p r ih =>
    simp only [List.map, foldPairsR, getKey_raw, R.bind_ok]
    rw [hv p (by simp), R.map_ok, R.bind_ok, minsert_fresh _ _ _ (hd p (by simp))]
    simp only [keysNodup, Bool.and_eq_true, Bool.not_eq_true'] at hn
    rw [ih _ (fun q hq => hv q (by simp [hq])) hn.2]
    · simp
    · intro q hq
      have h1 := hd q (by simp [hq])
      have h2 := hn.1
      simp only [List.any_append, List.any_cons, List.any_nil, Bool.or_false, Bool.or_eq_false_iff]
      refine ⟨h1, ?_⟩
      simp only [List.any_eq_false] at h2
      have := h2 q hq
      simp only [beq_iff_eq] at this
      simp only [beq_eq_false_iff_ne, ne_eq]
      exact fun e => this e.symm

theorem getStrMap_put {β} (f : β → MP) (val : MP → R β) (o : Option (List (Bytes × β)))
    (h : ∀ kvs, o = some kvs → keysNodup kvs = true ∧ ∀ p ∈ kvs, val (f p.2) = .ok p.2) :
    getStrMap val (putStrMap f o) = .ok o := by
  cases o with
  | none => rfl
  | some kvs =>
    have := h kvs rfl
    simp [putStrMap, getStrMap, foldPairs_strmap f val kvs [] this.2 this.1 (by simp)]

theorem wfPairs_strmap {β} (f : β → MP) (kvs : List (Bytes × β))
    (h : ∀ p ∈ kvs, p.1.length < 4294967296 ∧ wf (f p.2) = true) :
    wfPairs (kvs.map fun p => (MP.raw p.1, f p.2)) = true := by
  induction kvs with
  | nil => rfl
  | cons p r ih =>
    have := h p (by simp)
    simp [wfPairs, wf, this.1, this.2, ih (fun q hq => h q (by simp [hq]))]

theorem wf_putStrMap {β} (f : β → MP) (o : Option (List (Bytes × β)))
    (h : ∀ kvs, o = some kvs → kvs.length < 4294967296 ∧ ∀ p ∈ kvs, p.1.length < 4294967296 ∧ wf (f p.2) = true) :
    wf (putStrMap f o) = true := by
  cases o with
  | none => rfl
  | some kvs =>
    have := h kvs rfl
    simp [putStrMap, wf, this.1, wfPairs_strmap f kvs this.2]


/-! ### per-kind laws -/

attribute [local simp] kAddr kCC kDestAddr kDestName kEventLTime kEvents kExpr kFilters kFlags kFrom kID kIP kLTime
  kLeftMembers kName kNode kPayload kPort kPrune kQueryLTime kRelayFactor kSourceNode kStatusLTimes kTag kTimeout kZone

theorem lt_of_dec {p : Prop} [Decidable p] (h : decide p = true) : p := of_decide_eq_true h

theorem Join.rt (m : Join) (h : m.valid = true) : Join.ofMP m.toMP = .ok m := by
  simp [Join.valid] at h
  simp [Join.ofMP, Join.toMP, getStruct, foldPairsR, Join.set, kLTime, kNode, getUint_uint 64 _ h.1]

theorem Join.wf (m : Join) (h : m.valid = true) : wf m.toMP = true := by
  simp [Join.valid] at h
  simp [Join.toMP, SerfModel.Msgpack.wf, wfPairs, kLTime, kNode, h]

theorem Leave.rt (m : Leave) (h : m.valid = true) : Leave.ofMP m.toMP = .ok m := by
  simp [Leave.valid] at h
  simp [Leave.ofMP, Leave.toMP, getStruct, foldPairsR, Leave.set, kLTime, kNode, kPrune, getUint_uint 64 _ h.1]

theorem Leave.wf (m : Leave) (h : m.valid = true) : wf m.toMP = true := by
  simp [Leave.valid] at h
  simp [Leave.toMP, SerfModel.Msgpack.wf, wfPairs, kLTime, kNode, kPrune, h]

theorem UserEv.rt (m : UserEv) (h : m.valid = true) : UserEv.ofMP m.toMP = .ok m := by
  simp [UserEv.valid] at h
  simp [UserEv.ofMP, UserEv.toMP, getStruct, foldPairsR, UserEv.set, kCC, kLTime, kName, kPayload,
    getUint_uint 64 _ h.1.1]

theorem UserEv.wf (m : UserEv) (h : m.valid = true) : wf m.toMP = true := by
  simp [UserEv.valid] at h
  have hp := wf_putBytes m.payload (by simp [optBytesValid, h.2])
  simp [UserEv.toMP, SerfModel.Msgpack.wf, wfPairs, h, hp]

theorem QueryResp.rt (m : QueryResp) (h : m.valid = true) : QueryResp.ofMP m.toMP = .ok m := by
  simp [QueryResp.valid] at h
  simp [QueryResp.ofMP, QueryResp.toMP, getStruct, foldPairsR, QueryResp.set, kFlags, kFrom, kID, kLTime, kPayload,
    getUint_uint 64 _ h.1.1.1.1, getUint_uint 32 _ h.1.1.1.2, getUint_uint 32 _ h.1.2]

theorem QueryResp.wf (m : QueryResp) (h : m.valid = true) : wf m.toMP = true := by
  simp [QueryResp.valid] at h
  have hp := wf_putBytes m.payload h.2
  simp [QueryResp.toMP, SerfModel.Msgpack.wf, wfPairs, h, hp]
  omega

theorem FilterTag.rt (m : FilterTag) : FilterTag.ofMP m.toMP = .ok m := by
  simp [FilterTag.ofMP, FilterTag.toMP, getStruct, foldPairsR, FilterTag.set, kExpr, kTag]

theorem FilterTag.wf (m : FilterTag) (h : m.valid = true) : wf m.toMP = true := by
  simp [FilterTag.valid] at h
  simp [FilterTag.toMP, SerfModel.Msgpack.wf, wfPairs, h]

theorem FilterNode.rt (m : FilterNode) : FilterNode.ofMP (FilterNode.toMP m) = .ok m :=
  getSlice_put _ _ _ (fun _ _ _ _ => rfl)

theorem FilterNode.wf (m : FilterNode) (h : FilterNode.valid m = true) : wf (FilterNode.toMP m) = true := by
  apply wf_putSlice
  intro xs e
  subst e
  simp [FilterNode.valid] at h
  refine ⟨h.1, fun x hx => ?_⟩
  simp [SerfModel.Msgpack.wf, h.2 x hx]

theorem Query.rt (m : Query) (h : m.valid = true) : Query.ofMP m.toMP = .ok m := by
  simp [Query.valid] at h
  obtain ⟨⟨⟨⟨⟨⟨⟨⟨⟨⟨h1, h2⟩, h3⟩, h4⟩, h5⟩, h6⟩, h7⟩, h8⟩, h9⟩, h10⟩, h11⟩ := h
  have hf : getSlice getBytes (putSlice putBytes m.filters) = .ok m.filters :=
    getSlice_put _ _ _ (fun _ _ _ _ => getBytes_put _)
  simp [Query.ofMP, Query.toMP, getStruct, foldPairsR, Query.set, hf,
    getUint_uint 64 _ h1, getUint_uint 32 _ h2, getUint_uint 16 _ h4, getUint_uint 32 _ h7, getUint_uint 8 _ h8,
    getInt64_put _ h9.1 h9.2]

theorem Query.wf (m : Query) (h : m.valid = true) : wf m.toMP = true := by
  simp [Query.valid] at h
  obtain ⟨⟨⟨⟨⟨⟨⟨⟨⟨⟨h1, h2⟩, h3⟩, h4⟩, h5⟩, h6⟩, h7⟩, h8⟩, h9⟩, h10⟩, h11⟩ := h
  have ha := wf_putBytes m.addr h3
  have hp := wf_putBytes m.payload h11
  have ht := wf_putInt _ h9.1 h9.2
  have hf : SerfModel.Msgpack.wf (putSlice putBytes m.filters) = true := by
    apply wf_putSlice
    intro xs e
    rw [e] at h6
    simp at h6
    exact ⟨h6.1, fun x hx => wf_putBytes x (h6.2 x hx)⟩
  simp [Query.toMP, SerfModel.Msgpack.wf, wfPairs, ha, hp, ht, hf, h5, h10]
  omega

theorem RelayHdr.rt (m : RelayHdr) (h : m.valid = true) : RelayHdr.ofMP m.toMP = .ok m := by
  simp [RelayHdr.valid] at h
  simp [RelayHdr.ofMP, RelayHdr.toMP, getStruct, foldPairsR, RelayHdr.set, UDPAddr.set,
    getInt64_put _ h.1.1.2.1 h.1.1.2.2]

theorem RelayHdr.wf (m : RelayHdr) (h : m.valid = true) : wf m.toMP = true := by
  simp [RelayHdr.valid] at h
  have ha := wf_putBytes m.ip h.1.1.1
  have ht := wf_putInt _ h.1.1.2.1 h.1.1.2.2
  simp [RelayHdr.toMP, SerfModel.Msgpack.wf, wfPairs, ha, ht, h]

theorem UEvent.rt (m : UEvent) : UEvent.ofMP m.toMP = .ok m := by
  simp [UEvent.ofMP, UEvent.toMP, getStruct, foldPairsR, UEvent.set]

theorem UEvent.wf (m : UEvent) (h : m.valid = true) : wf m.toMP = true := by
  simp [UEvent.valid] at h
  have hp := wf_putBytes m.payload h.2
  simp [UEvent.toMP, SerfModel.Msgpack.wf, wfPairs, hp, h]

theorem UEvents.rt (m : UEvents) (h : m.valid = true) : UEvents.ofMP m.toMP = .ok m := by
  simp [UEvents.valid] at h
  have he : getSlice UEvent.ofMP (putSlice UEvent.toMP m.events) = .ok m.events :=
    getSlice_put _ _ _ (fun _ _ _ _ => UEvent.rt _)
  simp [UEvents.ofMP, UEvents.toMP, getStruct, foldPairsR, UEvents.set, he, getUint_uint 64 _ h.1]

theorem UEvents.wf (m : UEvents) (h : m.valid = true) : wf m.toMP = true := by
  simp [UEvents.valid] at h
  have he : SerfModel.Msgpack.wf (putSlice UEvent.toMP m.events) = true := by
    apply wf_putSlice
    intro xs e
    have h2 := h.2
    rw [e] at h2
    simp at h2
    exact ⟨h2.1, fun x hx => UEvent.wf x (h2.2 x hx)⟩
  simp [UEvents.toMP, SerfModel.Msgpack.wf, wfPairs, he, h.1]

theorem getPtr_put (o : Option UEvents) (h : ∀ e, o = some e → e.valid = true) :
    getPtr {} UEvents.set (putPtrUEvents o) = .ok o := by
  cases o with
  | none => rfl
  | some e =>
    have := UEvents.rt e (h e rfl)
    simp only [UEvents.ofMP, UEvents.toMP] at this
    simp only [putPtrUEvents, getPtr, UEvents.toMP]
    rw [this]; rfl

theorem PushPull.rt (m : PushPull) (h : m.valid = true) : PushPull.ofMP m.toMP = .ok m := by
  simp [PushPull.valid] at h
  obtain ⟨⟨⟨⟨⟨h1, h2⟩, h3⟩, h4⟩, h5⟩, h6⟩ := h
  have hl : getSlice getStr (putSlice MP.raw m.leftMembers) = .ok m.leftMembers :=
    getSlice_put _ _ _ (fun _ _ _ _ => rfl)
  have he : getSlice (getPtr {} UEvents.set) (putSlice putPtrUEvents m.events) = .ok m.events := by
    apply getSlice_put
    intro xs e x hx
    rw [e] at h6
    simp at h6
    apply getPtr_put
    intro ev hev
    have := h6.2 x hx
    rw [hev] at this
    exact this
  have hs : getStrMap (getUint 64) (putStrMap MP.uint m.statusLTimes) = .ok m.statusLTimes := by
    apply getStrMap_put
    intro kvs e
    rw [e] at h4
    simp at h4
    exact ⟨h4.1.2, fun p hp => getUint_uint 64 _ (h4.2 _ _ hp).2⟩
  simp [PushPull.ofMP, PushPull.toMP, getStruct, foldPairsR, PushPull.set, hl, he, hs,
    getUint_uint 64 _ h1, getUint_uint 64 _ h2, getUint_uint 64 _ h3]

theorem PushPull.wf (m : PushPull) (h : m.valid = true) : wf m.toMP = true := by
  simp [PushPull.valid] at h
  obtain ⟨⟨⟨⟨⟨h1, h2⟩, h3⟩, h4⟩, h5⟩, h6⟩ := h
  have hl : SerfModel.Msgpack.wf (putSlice MP.raw m.leftMembers) = true := by
    apply wf_putSlice
    intro xs e
    rw [e] at h5
    simp at h5
    exact ⟨h5.1, fun x hx => by simp [SerfModel.Msgpack.wf, h5.2 x hx]⟩
  have he : SerfModel.Msgpack.wf (putSlice putPtrUEvents m.events) = true := by
    apply wf_putSlice
    intro xs e
    rw [e] at h6
    simp at h6
    refine ⟨h6.1, fun x hx => ?_⟩
    cases x with
    | none => rfl
    | some ev =>
      have := h6.2 _ hx
      exact UEvents.wf ev this
  have hs : SerfModel.Msgpack.wf (putStrMap MP.uint m.statusLTimes) = true := by
    apply wf_putStrMap
    intro kvs e
    rw [e] at h4
    simp at h4
    exact ⟨h4.1.1, fun p hp => ⟨(h4.2 _ _ hp).1, by simp [SerfModel.Msgpack.wf, (h4.2 _ _ hp).2]⟩⟩
  simp [PushPull.toMP, SerfModel.Msgpack.wf, wfPairs, hl, he, hs, h1, h2, h3]


/-! ### tags -/

theorem foldTags_put (t acc : Tags) (hn : keysNodup t = true) (hd : ∀ p ∈ t, acc.any (·.1 == p.1) = false) :
    foldTags acc (t.map fun p => (MP.raw p.1, MP.raw p.2)) = (acc ++ t, true) := by
  induction t generalizing acc with
  | nil => simp [foldTags]
  | cons p r ih =>
    simp only [List.map, foldTags, getKey_raw, getStr_raw]
    rw [minsert_fresh _ _ _ (hd p (by simp))]
    simp only [keysNodup, Bool.and_eq_true, Bool.not_eq_true'] at hn
    rw [ih _ hn.2]
    · simp
    · intro q hq
      have h1 := hd q (by simp [hq])
      have h2 := hn.1
      simp only [List.any_append, List.any_cons, List.any_nil, Bool.or_false, Bool.or_eq_false_iff]
      refine ⟨h1, ?_⟩
      simp only [List.any_eq_false] at h2
      have := h2 q hq
      simp only [beq_iff_eq] at this
      simp only [beq_eq_false_iff_ne, ne_eq]
      exact fun e => this e.symm

theorem wf_tags (t : Tags) (h : tagsValid t = true) : wf (putStrMap MP.raw (some t)) = true := by
  simp [tagsValid] at h
  apply wf_putStrMap
  intro kvs e
  cases e
  exact ⟨h.1.1, fun p hp => ⟨(h.2 _ _ hp).1, by simp [SerfModel.Msgpack.wf, (h.2 _ _ hp).2]⟩⟩

theorem tags_v3 (proto : Nat) (hp : 3 ≤ proto) (t : Tags) (h : tagsValid t = true) :
    decodeTags (encodeTags proto (some t)) = (t, true) := by
  have hw := wf_tags t h
  have hd := decode_encode _ hw []
  simp only [List.append_nil] at hd
  simp only [encodeTags, show ¬ proto < 3 by omega, if_false, decodeTags, hd]
  simp only [putStrMap]
  simp [tagsValid] at h
  simpa using foldTags_put t [] h.1.2 (by simp)

theorem tags_v3_nil (proto : Nat) (hp : 3 ≤ proto) : decodeTags (encodeTags proto none) = ([], true) := by
  simp only [encodeTags, show ¬ proto < 3 by omega, if_false]
  decide

theorem tags_v2 (proto : Nat) (hp : proto < 3) (tags : Option Tags)
    (hr : (tagLookup (tags.getD []) kRole).head? ≠ some 255) :
    decodeTags (encodeTags proto tags) = ([(kRole, tagLookup (tags.getD []) kRole)], true) := by
  simp only [encodeTags, hp, if_true]
  generalize tagLookup (tags.getD []) kRole = role at hr ⊢
  cases role with
  | nil => rfl
  | cons b r =>
    simp at hr
    unfold decodeTags
    split
    · rename_i e; simp at e; exact absurd e.1 hr
    · rfl

theorem encodePairs_length_perm (l l' : List (MP × MP)) (h : List.Perm l l') :
    (encodePairs l).length = (encodePairs l').length := by
  induction h with
  | nil => rfl
  | cons x _ ih => obtain ⟨k, v⟩ := x; simp [encodePairs, ih]
  | swap x y l => obtain ⟨k, v⟩ := x; obtain ⟨k', v'⟩ := y; simp [encodePairs]; omega
  | trans _ _ ih1 ih2 => exact ih1.trans ih2

theorem encodeTags_length_perm (proto : Nat) (hp : 3 ≤ proto) (t t' : Tags) (h : List.Perm t t') :
    (encodeTags proto (some t)).length = (encodeTags proto (some t')).length := by
  simp only [encodeTags, show ¬ proto < 3 by omega, if_false, putStrMap, encode, List.length_cons, List.length_append]
  rw [encodePairs_length_perm _ _ (h.map _)]
  simp [h.length_eq]

end SerfProofs.Codec
