/-
Helper lemmas for C24: the connection invariant of the IPC gate model and the
output scan `gateOK`.
-/
import SerfModel.Model.IpcGate
namespace SerfProofs.IpcGate
open SerfModel SerfModel.IpcGate

theorem gateOK_append (k : Bool) (a b : List Out) (hs au : Bool) :
    gateOK k hs au (a ++ b) =
      (gateOK k hs au a && gateOK k (hs || a.any Out.isHandshakeOk) (au || a.any Out.isAuthOk) b) := by
  induction a generalizing hs au with
  | nil => simp [gateOK]
  | cons o a ih =>
    simp only [List.cons_append, gateOK, ih, List.any_cons, Bool.or_assoc, Bool.and_assoc]

/-- Connection invariant: the state flags are backed by outputs already emitted
(`hs`, `au`), and a handler waiting for its body has passed both gates. -/
def Inv (key : String) (s : St) (hs au : Bool) : Prop :=
  (s.version ≠ 0 → hs = true) ∧ (s.didAuth = true → au = true) ∧
  (s.mode = .body → s.hdr.cmd = "handshake" ∨
      (s.version ≠ 0 ∧ (key = "" ∨ s.didAuth = true ∨ s.hdr.cmd = "auth")))

theorem inv_init (key : String) : Inv key {} false false := by
  simp [Inv]

theorem onHeader_inv (key : String) (s : St) (h : Hdr) (hs au : Bool)
    (hm : s.mode = .header) (hi : Inv key s hs au) :
    gateOK (key != "") hs au (onHeader key s h).2 = true ∧
    Inv key (onHeader key s h).1 (hs || (onHeader key s h).2.any Out.isHandshakeOk)
      (au || (onHeader key s h).2.any Out.isAuthOk) := by
  obtain ⟨h1, h2, _⟩ := hi
  unfold onHeader
  simp only []
  split
  · -- handshake required
    simp [gateOK, Out.isEffect, Out.isGuarded, Out.isHandshakeOk, Out.isAuthOk, Inv, hm]
    exact ⟨h1, h2⟩
  · rename_i hg1
    split
    · simp [gateOK, Out.isEffect, Out.isGuarded, Out.isHandshakeOk, Out.isAuthOk, Inv, hm]
      exact ⟨h1, h2⟩
    · rename_i hg2
      have hv : h.cmd = "handshake" ∨ s.version ≠ 0 := by
        simp at hg1
        by_cases hc : h.cmd = "handshake"
        · exact Or.inl hc
        · exact Or.inr (hg1 hc)
      have ha : key = "" ∨ s.didAuth = true ∨ h.cmd = "auth" ∨ h.cmd = "handshake" := by
        simp at hg2
        by_cases hk : key = ""
        · exact Or.inl hk
        · by_cases hd : s.didAuth = true
          · exact Or.inr (Or.inl hd)
          · by_cases hc : h.cmd = "auth"
            · exact Or.inr (Or.inr (Or.inl hc))
            · simp at hd
              exact Or.inr (Or.inr (Or.inr (hg2 hk hd hc)))
      split
      · rename_i hc
        simp [gateOK, Inv]
        refine ⟨h1, h2, ?_⟩
        simp at hc
        rcases hc with hc | hc
        · exact Or.inl hc
        · rcases hv with hv | hv
          · exact Or.inl hv
          · exact Or.inr ⟨hv, Or.inr (Or.inr hc)⟩
      · rename_i hc
        simp at hc
        have hv' : s.version ≠ 0 := by
          rcases hv with hv | hv
          · exact absurd hv hc.1
          · exact hv
        have ha' : key = "" ∨ s.didAuth = true := by
          rcases ha with ha | ha | ha | ha
          · exact Or.inl ha
          · exact Or.inr ha
          · exact absurd ha hc.2
          · exact absurd ha hc.1
        have hhs := h1 hv'
        split
        · simp [gateOK, Out.isEffect, Out.isGuarded, Out.isHandshakeOk, Out.isAuthOk, Inv, hm]
          exact ⟨h1, h2⟩
        · simp [gateOK, Inv]
          refine ⟨h1, h2, Or.inr ⟨hv', ?_⟩⟩
          rcases ha' with ha' | ha'
          · exact Or.inl ha'
          · exact Or.inr (Or.inl ha')
        · simp [gateOK, Out.isEffect, Out.isGuarded, Out.isHandshakeOk, Out.isAuthOk, Inv, hm, hhs]
          refine ⟨?_, h2⟩
          rcases ha' with ha' | ha'
          · simp [ha']
          · simp [h2 ha']

theorem onBody_inv {Obj : Type} (cd : Codec Obj) (key : String) (s : St) (o : Obj) (hs au : Bool)
    (hm : s.mode = .body) (hi : Inv key s hs au) :
    gateOK (key != "") hs au (onBody cd key s o).2 = true ∧
    Inv key (onBody cd key s o).1 (hs || (onBody cd key s o).2.any Out.isHandshakeOk)
      (au || (onBody cd key s o).2.any Out.isAuthOk) := by
  obtain ⟨h1, h2, h3⟩ := hi
  have h3 := h3 hm
  unfold onBody
  simp only []
  split
  · -- handshake
    split
    · simp [gateOK, Inv]
      exact ⟨h1, h2, fun _ => h3⟩
    · split
      · simp [gateOK, Out.isEffect, Out.isGuarded, Out.isHandshakeOk, Out.isAuthOk, Inv]
        exact ⟨h1, h2⟩
      · split
        · simp [gateOK, Out.isEffect, Out.isGuarded, Out.isHandshakeOk, Out.isAuthOk, Inv]
          exact ⟨h1, h2⟩
        · simp [gateOK, Out.isEffect, Out.isGuarded, Out.isHandshakeOk, Out.isAuthOk, Inv]
          exact h2
  · rename_i hnh
    simp at hnh
    have hv : s.version ≠ 0 := by
      rcases h3 with h3 | h3
      · exact absurd h3 hnh
      · exact h3.1
    have hhs := h1 hv
    split
    · -- auth
      split
      · simp [gateOK, Inv]
        exact ⟨h1, h2, fun _ => h3⟩
      · split
        · simp [gateOK, Out.isEffect, Out.isGuarded, Out.isHandshakeOk, Out.isAuthOk, Inv, hhs]
        · simp [gateOK, Out.isEffect, Out.isGuarded, Out.isHandshakeOk, Out.isAuthOk, Inv, hhs]
          exact h2
    · rename_i hna
      simp at hna
      have ha : key = "" ∨ s.didAuth = true := by
        rcases h3 with h3 | ⟨_, h3 | h3 | h3⟩
        · exact absurd h3 hnh
        · exact Or.inl h3
        · exact Or.inr h3
        · exact absurd h3 hna
      split
      · simp [gateOK, Inv]
        exact ⟨h1, h2, fun _ => Or.inr ⟨hv, by rcases ha with ha | ha; exact Or.inl ha; exact Or.inr (Or.inl ha)⟩⟩
      · simp [gateOK, Out.isEffect, Out.isGuarded, Out.isHandshakeOk, Out.isAuthOk, Inv, hhs]
        refine ⟨?_, h2⟩
        rcases ha with ha | ha
        · simp [ha]
        · simp [h2 ha]

theorem step_inv {Obj : Type} (cd : Codec Obj) (key : String) (s : St) (o : Obj) (hs au : Bool)
    (hi : Inv key s hs au) :
    gateOK (key != "") hs au (step cd key s o).2 = true ∧
    Inv key (step cd key s o).1 (hs || (step cd key s o).2.any Out.isHandshakeOk)
      (au || (step cd key s o).2.any Out.isAuthOk) := by
  unfold step
  split
  · simpa [gateOK] using hi
  · cases hm : s.mode with
    | header =>
      simp only []
      split
      · obtain ⟨h1, h2, _⟩ := hi
        simp [gateOK, Inv, hm]
        exact ⟨h1, h2⟩
      · exact onHeader_inv key s _ hs au hm hi
    | body => exact onBody_inv cd key s o hs au hm hi

theorem runFrom_gate {Obj : Type} (cd : Codec Obj) (key : String) (objs : List Obj) (s : St) (hs au : Bool)
    (hi : Inv key s hs au) : gateOK (key != "") hs au (runFrom cd key s objs).2 = true := by
  induction objs generalizing s hs au with
  | nil => simp [runFrom, gateOK]
  | cons o rest ih =>
    obtain ⟨hg, hi'⟩ := step_inv cd key s o hs au hi
    simp only [runFrom, gateOK_append, hg, Bool.true_and]
    exact ih _ _ _ hi'

/-- Reading the scan: an element that needs the handshake / the key is preceded by it. -/
theorem gateOK_split (k : Bool) (pre post : List Out) (o : Out) (hs au : Bool)
    (h : gateOK k hs au (pre ++ o :: post) = true) :
    (o.isEffect = true → hs = true ∨ ∃ x ∈ pre, x.isHandshakeOk = true) ∧
    (o.isGuarded = true → k = true → au = true ∨ ∃ x ∈ pre, x.isAuthOk = true) := by
  rw [gateOK_append] at h
  simp only [gateOK, Bool.and_eq_true, Bool.or_eq_true, Bool.not_eq_true', List.any_eq_true] at h
  obtain ⟨_, ⟨⟨he, hg⟩, _⟩⟩ := h
  constructor
  · intro ho
    rcases he with he | he
    · rw [ho] at he; cases he
    · exact he
  · intro ho hk
    rcases hg with (hg | hg) | hg
    · rw [ho] at hg; cases hg
    · rw [hk] at hg; cases hg
    · exact hg

end SerfProofs.IpcGate
