/-
Gossip re-queueing of join / leave intents in the node model (`SerfModel.Node`), for C04.

`NotifyMsg` re-queues a received join / leave message iff the handler returned true, which is
`(step n op).2.rebroadcast` for `op = .joinMsg … / .leaveMsg …`; `rebroadcasts n ops` lists the
re-queued messages of a run.  This file bounds how often one message `m` can occur in that list
while the node keeps what it recorded about `m.node` (`Retained`), by a potential `rank n m`:
  0  if the node already holds a time ≥ `m.ltime` for `m.node` (`covered`),
  2  if not and `m` is a prune leave about a known member,
  1  otherwise.
A delivery of `m` that is re-queued lowers the potential by at least one, one that is not leaves
members and intents as they were (`Outcome`, `outcome_deliver`); every other input inside the
retention window does not raise it (`other_rank`), because no handler lowers the Lamport time of
a member record and only memberlist's NotifyJoin creates a record (`step_members`, all 13 inputs,
including merge and the reaper).
Core Lean only.
-/
import SerfProofs.Lemmas.NodeBook
namespace SerfProofs.NodeGossip
open SerfModel SerfModel.Node SerfProofs.NodeBook

/-- the node has already recorded a time ≥ the message's: delivering it again is a no-op -/
def covered (n : Node) (m : Msg) : Bool :=
  match alookup n.members m.node with
  | some mem => decide (m.ltime ≤ mem.ltime)
  | none => match alookup n.intents m.node with
    | some i => decide (m.ltime ≤ i.ltime)
    | none => false

/-- `op` keeps the retention window of member `x` open: it does not erase the member and does not
drop or lower its buffered intent -/
def Keeps (n : Node) (op : Op) (x : Name) : Prop :=
  (known n x = true → known (step n op).1 x = true) ∧
  (∀ i, known n x = false → intentOf n x = some i →
     known (step n op).1 x = true ∨ ∃ i', intentOf (step n op).1 x = some i' ∧ i.ltime ≤ i'.ltime)

/-- the retention window of `m` stays open along the run; deliveries of `m` itself always count as
inside the window (strong reading) -/
def Retained : Node → List Op → Msg → Prop
  | _, [], _ => True
  | n, op :: ops, m => (op.msg? = some m ∨ Keeps n op m.node) ∧ Retained (step n op).1 ops m

/-- memberlist does not announce the member anew during the run -/
def NoRejoin (ops : List Op) (x : Name) : Prop := ∀ op ∈ ops, op ≠ .nodeJoin x

/-- potential: how many more times `m` can be re-queued -/
def rank (n : Node) (m : Msg) : Nat :=
  if covered n m then 0 else if m.isPrune && known n m.node then 2 else 1

/-! ### member times never go down, and only `nodeJoin` creates a record -/

/-- `x` gets no new record and the Lamport time of its record does not go down -/
def MM (x : Name) (ms ms' : List (Name × Member)) : Prop :=
  ∀ mem', alookup ms' x = some mem' → ∃ mem, alookup ms x = some mem ∧ mem.ltime ≤ mem'.ltime

theorem MM.refl (x : Name) (ms : List (Name × Member)) : MM x ms ms :=
  fun mem' h => ⟨mem', h, Nat.le_refl _⟩

theorem MM.trans {x : Name} {a b c : List (Name × Member)} (h1 : MM x a b) (h2 : MM x b c) : MM x a c := by
  intro mem' h
  obtain ⟨m1, hm1, hle1⟩ := h2 mem' h
  obtain ⟨m0, hm0, hle0⟩ := h1 m1 hm1
  exact ⟨m0, hm0, Nat.le_trans hle0 hle1⟩

theorem MM_ainsert (x y : Name) (ms : List (Name × Member)) (mem v : Member)
    (hy : alookup ms y = some mem) (hle : mem.ltime ≤ v.ltime) : MM x ms (ainsert ms y v) := by
  intro mem' h
  by_cases e : x = y
  · subst e
    rw [alookup_ainsert_self] at h
    cases h
    exact ⟨mem, hy, hle⟩
  · rw [alookup_ainsert_ne _ _ _ _ e] at h
    exact ⟨mem', h, Nat.le_refl _⟩

theorem MM_aerase (x y : Name) (ms : List (Name × Member)) : MM x ms (aerase ms y) := by
  intro mem' h
  by_cases e : x = y
  · subst e
    rw [alookup_aerase_self] at h
    cases h
  · rw [alookup_aerase_ne _ _ _ e] at h
    exact ⟨mem', h, Nat.le_refl _⟩

theorem MM_eraseAll (x : Name) (ms : List (Name × Member)) (xs : List Name) : MM x ms (eraseAll ms xs) := by
  intro mem' h
  rw [alookup_eraseAll] at h
  by_cases e : x ∈ xs
  · simp [e] at h
  · simp only [e, if_false] at h
    exact ⟨mem', h, Nat.le_refl _⟩

theorem MM_handlePrune (x y : Name) (n : Node) : MM x n.members (handlePrune n y).1.members := by
  rw [handlePrune_members]
  exact MM_aerase _ _ _

theorem MM_handleJoinIntent (x : Name) (n : Node) (y : Name) (lt w : Nat) :
    MM x n.members (handleJoinIntent n y lt w).1.members := by
  unfold handleJoinIntent
  dsimp only
  split
  · exact MM.refl _ _
  · next mem hsome =>
    split
    · exact MM.refl _ _
    · exact MM_ainsert x y _ mem _ hsome (by dsimp only; omega)

theorem MM_handleLeaveIntent (x : Name) (n : Node) (y : Name) (lt : Nat) (p : Bool) (w : Nat) :
    MM x n.members (handleLeaveIntent n y lt p w).1.members := by
  unfold handleLeaveIntent
  dsimp only
  split
  · exact MM.refl _ _
  · next mem hsome =>
    split
    · exact MM.refl _ _
    · next hlt =>
      split
      · exact MM.refl _ _
      · split
        · split
          · exact MM.trans (MM_ainsert x y _ mem _ hsome (by dsimp only; omega)) (MM_handlePrune _ _ _)
          · exact MM_ainsert x y _ mem _ hsome (by dsimp only; omega)
        · split
          · exact MM.trans (MM_ainsert x y _ mem _ hsome (by dsimp only; omega)) (MM_handlePrune _ _ _)
          · exact MM_ainsert x y _ mem _ hsome (by dsimp only; omega)
        · split
          · exact MM.trans (MM_ainsert x y _ mem _ hsome (by dsimp only; omega)) (MM_handlePrune _ _ _)
          · exact MM_ainsert x y _ mem _ hsome (by dsimp only; omega)

theorem MM_mergeLefts (x : Name) (status : List (Name × Nat)) (wall : Nat) (xs : List Name) :
    ∀ n : Node, MM x n.members (mergeLefts n status wall xs).1.members := by
  induction xs with
  | nil => intro n; exact MM.refl _ _
  | cons y xs ih =>
    intro n
    unfold mergeLefts
    exact MM.trans (MM_handleLeaveIntent x n y _ false wall) (ih _)

theorem MM_mergeJoins (x : Name) (left : List Name) (wall : Nat) (st : List (Name × Nat)) :
    ∀ n : Node, MM x n.members (mergeJoins n left wall st).members := by
  induction st with
  | nil => intro n; exact MM.refl _ _
  | cons p rest ih =>
    intro n
    obtain ⟨y, t⟩ := p
    unfold mergeJoins
    split
    · exact ih _
    · exact MM.trans (MM_handleJoinIntent x n y t wall) (ih _)

theorem MM_merge (x : Name) (n : Node) (lt : Nat) (status : List (Name × Nat)) (left : List Name) (wall : Nat) :
    MM x n.members (merge n lt status left wall).1.members := by
  unfold merge
  dsimp only
  refine MM.trans ?_ (MM_mergeJoins x left wall status _)
  refine MM.trans ?_ (MM_mergeLefts x status wall left _)
  split
  · exact MM.refl _ _
  · exact MM.refl _ _

theorem MM_broadcastJoin (x : Name) (n : Node) (t w : Nat) : MM x n.members (broadcastJoin n t w).1.members := by
  unfold broadcastJoin
  exact MM_handleJoinIntent x { n with clock := witness n.clock t } n.name t w

theorem MM_reap (x : Name) (n : Node) (now : Nat) (ov : Name → Nat → Nat) : MM x n.members (reap n now ov).1.members := by
  rw [reap_members_eq]
  exact MM.trans (MM_eraseAll _ _ _) (MM_eraseAll _ _ _)

/-- every input other than memberlist's announcement of a member it does not know keeps the
member's record time from going down and creates no record; that announcement creates the record
with the time of the buffered intent -/
theorem step_members (n : Node) (op : Op) (x : Name) :
    MM x n.members (step n op).1.members ∨
    (op = .nodeJoin x ∧ alookup n.members x = none ∧
      ∃ mem', alookup (step n op).1.members x = some mem' ∧
        ∀ i, alookup n.intents x = some i → mem'.ltime = i.ltime) := by
  cases op with
  | nodeJoin y =>
    show MM x n.members (handleNodeJoin n y).1.members ∨ _
    by_cases e : y = x
    · subst e
      cases hl : alookup n.members y with
      | none =>
        right
        refine ⟨rfl, rfl, ?_⟩
        show ∃ mem', alookup (handleNodeJoin n y).1.members y = some mem' ∧ _
        unfold handleNodeJoin
        simp only [hl]
        refine ⟨_, alookup_ainsert_self _ _ _, ?_⟩
        intro i hi
        simp only [hi]
        split <;> rfl
      | some mem =>
        left
        unfold handleNodeJoin
        simp only [hl]
        split
        · exact MM_ainsert y y _ mem _ hl (Nat.le_refl _)
        · exact MM_ainsert y y _ mem _ hl (Nat.le_refl _)
    · left
      have hne : x ≠ y := fun h => e h.symm
      unfold handleNodeJoin
      split
      · intro mem' h
        dsimp only at h
        rw [alookup_ainsert_ne _ _ _ _ hne] at h
        exact ⟨mem', h, Nat.le_refl _⟩
      · next mem hsome =>
        dsimp only
        split
        · exact MM_ainsert x y _ mem _ hsome (Nat.le_refl _)
        · exact MM_ainsert x y _ mem _ hsome (Nat.le_refl _)
  | nodeLeave y a =>
    left
    show MM x n.members (handleNodeLeave n y a).1.members
    unfold handleNodeLeave
    split
    · exact MM.refl _ _
    · next mem hsome =>
      split
      · exact MM_ainsert x y _ mem _ hsome (Nat.le_refl _)
      · exact MM_ainsert x y _ mem _ hsome (Nat.le_refl _)
      · exact MM.refl _ _
  | nodeUpdate y =>
    left
    show MM x n.members (handleNodeUpdate n y).1.members
    unfold handleNodeUpdate
    split <;> exact MM.refl _ _
  | joinMsg y lt w => exact Or.inl (MM_handleJoinIntent x n y lt w)
  | leaveMsg y lt p w => exact Or.inl (MM_handleLeaveIntent x n y lt p w)
  | merge lt st lf w => exact Or.inl (MM_merge x n lt st lf w)
  | forceLeave y p w =>
    left
    show MM x n.members (forceLeave n y p w).1.members
    unfold forceLeave
    exact MM_handleLeaveIntent x { n with clock := (n.clock + 1) % two64 } y n.clock p w
  | ownJoin w => exact Or.inl (MM_broadcastJoin x n n.clock w)
  | leaveBegin w =>
    left
    show MM x n.members (leaveBegin n w).1.members
    unfold leaveBegin
    split
    · exact MM.refl _ _
    · exact MM_handleLeaveIntent x { n with life := .leaving, clock := (n.clock + 1) % two64 } n.name n.clock false w
  | leaveEnd =>
    left
    show MM x n.members (leaveEnd n).members
    unfold leaveEnd
    split <;> exact MM.refl _ _
  | shutdown => exact Or.inl (MM.refl _ _)
  | reap now ov => exact Or.inl (MM_reap x n now ov)
  | runPending w =>
    left
    show MM x n.members (runPending n w).1.members
    unfold runPending
    split
    · exact MM.refl _ _
    · next t rest _ => exact MM_broadcastJoin x { n with pending := rest } t w

/-! ### `covered` and `rank` read only the member record and the buffered intent -/

theorem covered_of_member {n : Node} {m : Msg} {mem : Member} (h : alookup n.members m.node = some mem) :
    covered n m = decide (m.ltime ≤ mem.ltime) := by
  simp [covered, h]

theorem covered_of_intent {n : Node} {m : Msg} {i : Intent} (h : alookup n.members m.node = none)
    (hi : alookup n.intents m.node = some i) : covered n m = decide (m.ltime ≤ i.ltime) := by
  simp [covered, h, hi]

theorem covered_of_none {n : Node} {m : Msg} (h : alookup n.members m.node = none)
    (hi : alookup n.intents m.node = none) : covered n m = false := by
  simp [covered, h, hi]

theorem covered_congr {n n' : Node} (hm : n'.members = n.members) (hi : n'.intents = n.intents) (m : Msg) :
    covered n' m = covered n m := by
  simp [covered, hm, hi]

theorem known_congr {n n' : Node} (hm : n'.members = n.members) (x : Name) : known n' x = known n x := by
  simp [known, hm]

theorem rank_congr {n n' : Node} (hm : n'.members = n.members) (hi : n'.intents = n.intents) (m : Msg) :
    rank n' m = rank n m := by
  simp [rank, covered_congr hm hi, known_congr hm]

theorem known_of_lookup {n : Node} {x : Name} {mem : Member} (h : alookup n.members x = some mem) :
    known n x = true := by simp [known, h]

theorem known_of_lookup_none {n : Node} {x : Name} (h : alookup n.members x = none) :
    known n x = false := by simp [known, h]

theorem rank_le_two (n : Node) (m : Msg) : rank n m ≤ 2 := by
  unfold rank; split <;> (try split) <;> omega

theorem rank_of_covered {n : Node} {m : Msg} (h : covered n m = true) : rank n m = 0 := by
  simp [rank, h]

theorem rank_pos_of_not_covered {n : Node} {m : Msg} (h : covered n m = false) : 1 ≤ rank n m := by
  unfold rank; rw [h]; simp only [Bool.false_eq_true, if_false]; split <;> omega

theorem rank_le_one_of_unknown {n : Node} {m : Msg} (h : known n m.node = false) : rank n m ≤ 1 := by
  unfold rank; split
  · omega
  · simp [h]

theorem rank_le_one_of_not_prune {n : Node} {m : Msg} (h : m.isPrune = false) : rank n m ≤ 1 := by
  unfold rank; split
  · omega
  · simp [h]

theorem rank_eq_two {n : Node} {m : Msg} (hc : covered n m = false) (hp : m.isPrune = true)
    (hk : known n m.node = true) : rank n m = 2 := by
  simp [rank, hc, hp, hk]

/-! ### a delivery of `m` itself -/

/-- What a delivery of `m` does: nothing (up to clock and pending refutations), or it is re-queued
and `m` becomes covered, or it is a re-queued prune about a known member, which is erased. -/
def Outcome (n n' : Node) (m : Msg) (reb : Bool) : Prop :=
  (reb = false ∧ n'.members = n.members ∧ n'.intents = n.intents) ∨
  (reb = true ∧ covered n m = false ∧ covered n' m = true) ∨
  (reb = true ∧ covered n m = false ∧ m.isPrune = true ∧ known n m.node = true ∧ known n' m.node = false)

theorem Outcome.rank_drop {n n' : Node} {m : Msg} {reb : Bool} (h : Outcome n n' m reb) :
    (if reb then 1 else 0) + rank n' m ≤ rank n m := by
  rcases h with ⟨hr, hm, hi⟩ | ⟨hr, hc, hc'⟩ | ⟨hr, hc, hp, hk, hk'⟩
  · subst hr; rw [rank_congr hm hi]; simp
  · subst hr; rw [rank_of_covered hc']; have := rank_pos_of_not_covered hc; simpa using this
  · subst hr
    have h1 := rank_eq_two hc hp hk
    have h2 : rank n' m ≤ 1 := rank_le_one_of_unknown hk'
    simp only [if_true]; omega

theorem Outcome.covered_silent {n n' : Node} {m : Msg} {reb : Bool} (h : Outcome n n' m reb)
    (hc : covered n m = true) : reb = false := by
  rcases h with ⟨hr, _, _⟩ | ⟨_, hc', _⟩ | ⟨_, hc', _⟩
  · exact hr
  · rw [hc] at hc'; cases hc'
  · rw [hc] at hc'; cases hc'

/-- `upsertIntent`: either nothing changes, or the entry is set to the new time and the old one (if any) was older. -/
theorem upsertIntent_cases (ints : List (Name × Intent)) (x : Name) (b : Bool) (lt w : Nat) :
    ((upsertIntent ints x b lt w).2 = false ∧ (upsertIntent ints x b lt w).1 = ints) ∨
    ((upsertIntent ints x b lt w).2 = true ∧
      alookup (upsertIntent ints x b lt w).1 x = some ⟨b, lt, w⟩ ∧
      ∀ i, alookup ints x = some i → i.ltime < lt) := by
  unfold upsertIntent
  split
  · next i hi =>
    split
    · next hlt =>
      right
      refine ⟨rfl, alookup_ainsert_self _ _ _, ?_⟩
      intro i' hi'; rw [hi] at hi'; cases hi'; exact hlt
    · left; exact ⟨rfl, rfl⟩
  · next hnone =>
    right
    refine ⟨rfl, alookup_ainsert_self _ _ _, ?_⟩
    intro i' hi'; rw [hnone] at hi'; cases hi'

/-- buffering an intent for an unknown member -/
theorem outcome_upsert (n n' : Node) (m : Msg) (b : Bool) (w : Nat)
    (hnone : alookup n.members m.node = none) (hm : n'.members = n.members)
    (hi : n'.intents = (upsertIntent n.intents m.node b m.ltime w).1) :
    Outcome n n' m (upsertIntent n.intents m.node b m.ltime w).2 := by
  rcases upsertIntent_cases n.intents m.node b m.ltime w with ⟨h2, h1⟩ | ⟨h2, hl, hold⟩
  · left; exact ⟨h2, hm, by rw [hi, h1]⟩
  · right; left
    refine ⟨h2, ?_, ?_⟩
    · cases hio : alookup n.intents m.node with
      | none => exact covered_of_none hnone hio
      | some i =>
        rw [covered_of_intent hnone hio]
        have := hold i hio
        simp; omega
    · have hnone' : alookup n'.members m.node = none := by rw [hm]; exact hnone
      have hl' : alookup n'.intents m.node = some ⟨b, m.ltime, w⟩ := by rw [hi]; exact hl
      rw [covered_of_intent hnone' hl']
      simp

theorem outcome_joinIntent (n : Node) (x : Name) (lt w : Nat) :
    Outcome n (handleJoinIntent n x lt w).1 (.join x lt) (handleJoinIntent n x lt w).2.rebroadcast := by
  unfold handleJoinIntent
  dsimp only
  split
  · next hnone =>
    exact outcome_upsert n _ (.join x lt) false w hnone rfl rfl
  · next mem hsome =>
    split
    · left; exact ⟨rfl, rfl, rfl⟩
    · next hlt =>
      right; left
      refine ⟨rfl, ?_, ?_⟩
      · rw [covered_of_member (m := .join x lt) hsome]; exact decide_eq_false hlt
      · rw [covered_of_member (m := .join x lt) (alookup_ainsert_self _ _ _)]; simp [Msg.ltime]

theorem outcome_leaveIntent (n : Node) (x : Name) (lt : Nat) (p : Bool) (w : Nat) :
    Outcome n (handleLeaveIntent n x lt p w).1 (.leave x lt p) (handleLeaveIntent n x lt p w).2.rebroadcast := by
  have hprune : ∀ (n1 : Node) (mem : Member), alookup n.members x = some mem → ¬ lt ≤ mem.ltime →
      Outcome n (handlePrune n1 x).1 (.leave x lt true) true := by
    intro n1 mem hsome hlt
    right; right
    refine ⟨rfl, ?_, rfl, known_of_lookup hsome, ?_⟩
    · rw [covered_of_member (m := .leave x lt true) hsome]; exact decide_eq_false hlt
    · apply known_of_lookup_none
      rw [handlePrune_members]; exact alookup_aerase_self _ _
  have hset : ∀ (n1 : Node) (mem v : Member), alookup n.members x = some mem → ¬ lt ≤ mem.ltime →
      n1.members = ainsert n.members x v → v.ltime = lt → Outcome n n1 (.leave x lt p) true := by
    intro n1 mem v hsome hlt hm hv
    right; left
    refine ⟨rfl, ?_, ?_⟩
    · rw [covered_of_member (m := .leave x lt p) hsome]; exact decide_eq_false hlt
    · have : alookup n1.members (Msg.leave x lt p).node = some v := by rw [hm]; exact alookup_ainsert_self _ _ _
      rw [covered_of_member this]; simp [Msg.ltime, hv]
  unfold handleLeaveIntent
  dsimp only
  split
  · next hnone =>
    exact outcome_upsert n _ (.leave x lt p) true w hnone rfl rfl
  · next mem hsome =>
    split
    · left; exact ⟨rfl, rfl, rfl⟩
    · next hlt =>
      split
      · left; exact ⟨rfl, rfl, rfl⟩
      · split
        · split
          · next hp => subst hp; exact hprune _ mem hsome hlt
          · exact hset _ mem _ hsome hlt rfl rfl
        · split
          · next hp => subst hp; exact hprune _ mem hsome hlt
          · exact hset _ mem _ hsome hlt rfl rfl
        · split
          · next hp => subst hp; exact hprune _ mem hsome hlt
          · exact hset _ mem _ hsome hlt rfl rfl

theorem outcome_deliver (n : Node) (op : Op) (m : Msg) (hm : op.msg? = some m) :
    Outcome n (step n op).1 m (step n op).2.rebroadcast := by
  cases op with
  | joinMsg x lt w =>
    simp only [Op.msg?, Option.some.injEq] at hm
    subst hm; exact outcome_joinIntent n x lt w
  | leaveMsg x lt p w =>
    simp only [Op.msg?, Option.some.injEq] at hm
    subst hm; exact outcome_leaveIntent n x lt p w
  | _ => simp [Op.msg?] at hm

theorem deliver_rank (n : Node) (op : Op) (m : Msg) (hm : op.msg? = some m) :
    (if (step n op).2.rebroadcast then 1 else 0) + rank (step n op).1 m ≤ rank n m :=
  (outcome_deliver n op m hm).rank_drop

/-! ### any other input, inside the retention window -/

theorem other_rank (n : Node) (op : Op) (m : Msg) (hk : Keeps n op m.node)
    (hj : m.isPrune = true → op ≠ .nodeJoin m.node) : rank (step n op).1 m ≤ rank n m := by
  cases hl : alookup n.members m.node with
  | some mem =>
    have hkn' := hk.1 (known_of_lookup hl)
    cases hl' : alookup (step n op).1.members m.node with
    | none => rw [known_of_lookup_none hl'] at hkn'; cases hkn'
    | some mem' =>
      rcases step_members n op m.node with hmm | ⟨_, hnone, _⟩
      · obtain ⟨mem0, h0, hle⟩ := hmm mem' hl'
        rw [hl] at h0; cases h0
        cases hc : covered n m with
        | true =>
          have hc' : covered (step n op).1 m = true := by
            rw [covered_of_member hl] at hc
            rw [covered_of_member hl']
            have := of_decide_eq_true hc
            exact decide_eq_true (Nat.le_trans this hle)
          rw [rank_of_covered hc']; exact Nat.zero_le _
        | false =>
          cases hp : m.isPrune with
          | true => rw [rank_eq_two hc hp (known_of_lookup hl)]; exact rank_le_two _ _
          | false => exact Nat.le_trans (rank_le_one_of_not_prune hp) (rank_pos_of_not_covered hc)
      · rw [hl] at hnone; cases hnone
  | none =>
    cases hc : covered n m with
    | false =>
      refine Nat.le_trans ?_ (rank_pos_of_not_covered hc)
      cases hl' : alookup (step n op).1.members m.node with
      | none => exact rank_le_one_of_unknown (known_of_lookup_none hl')
      | some mem' =>
        rcases step_members n op m.node with hmm | ⟨hop, _, _⟩
        · obtain ⟨mem0, h0, _⟩ := hmm mem' hl'
          rw [hl] at h0; cases h0
        · cases hp : m.isPrune with
          | true => exact absurd hop (hj hp)
          | false => exact rank_le_one_of_not_prune hp
    | true =>
      -- covered through the buffered intent
      cases hio : alookup n.intents m.node with
      | none => rw [covered_of_none hl hio] at hc; cases hc
      | some i =>
        rw [covered_of_intent hl hio] at hc
        have hti : m.ltime ≤ i.ltime := of_decide_eq_true hc
        have hc' : covered (step n op).1 m = true := by
          cases hl' : alookup (step n op).1.members m.node with
          | some mem' =>
            rcases step_members n op m.node with hmm | ⟨_, _, mem1, h1, hint⟩
            · obtain ⟨mem0, h0, _⟩ := hmm mem' hl'
              rw [hl] at h0; cases h0
            · rw [hl'] at h1; cases h1
              rw [covered_of_member hl', hint i hio]
              exact decide_eq_true hti
          | none =>
            rcases hk.2 i (known_of_lookup_none hl) hio with hkn | ⟨i', hi', hle⟩
            · rw [known_of_lookup_none hl'] at hkn; cases hkn
            · rw [covered_of_intent hl' hi']
              exact decide_eq_true (Nat.le_trans hti hle)
        rw [rank_of_covered hc']; exact Nat.zero_le _

/-! ### the count of re-queues is bounded by the potential -/

theorem rebroadcasts_cons (n : Node) (op : Op) (ops : List Op) :
    rebroadcasts n (op :: ops) =
      match op.msg? with
      | some m => if (step n op).2.rebroadcast then m :: rebroadcasts (step n op).1 ops
                  else rebroadcasts (step n op).1 ops
      | none => rebroadcasts (step n op).1 ops := rfl

theorem count_cons_deliver (n : Node) (op : Op) (ops : List Op) (m : Msg) (hm : op.msg? = some m) :
    (rebroadcasts n (op :: ops)).count m =
      (if (step n op).2.rebroadcast then 1 else 0) + (rebroadcasts (step n op).1 ops).count m := by
  rw [rebroadcasts_cons, hm]
  dsimp only
  cases (step n op).2.rebroadcast with
  | true => simp; omega
  | false => simp

theorem count_cons_other (n : Node) (op : Op) (ops : List Op) (m : Msg) (hm : op.msg? ≠ some m) :
    (rebroadcasts n (op :: ops)).count m = (rebroadcasts (step n op).1 ops).count m := by
  rw [rebroadcasts_cons]
  cases ho : op.msg? with
  | none => rfl
  | some m' =>
    dsimp only
    have hne : m' ≠ m := by intro e; apply hm; rw [ho, e]
    cases (step n op).2.rebroadcast with
    | true => simp [hne]
    | false => simp

theorem NoRejoin.tail {op : Op} {ops : List Op} {x : Name} (h : NoRejoin (op :: ops) x) : NoRejoin ops x :=
  fun o ho => h o (List.mem_cons_of_mem _ ho)

theorem count_le_rank (m : Msg) (ops : List Op) : ∀ n : Node, Retained n ops m →
    (m.isPrune = true → NoRejoin ops m.node) → (rebroadcasts n ops).count m ≤ rank n m := by
  induction ops with
  | nil => intro n _ _; simp [rebroadcasts]
  | cons op ops ih =>
    intro n hr hj
    obtain ⟨hhead, htail⟩ := hr
    have ih' := ih (step n op).1 htail (fun hp => (hj hp).tail)
    by_cases hm : op.msg? = some m
    · rw [count_cons_deliver n op ops m hm]
      have := deliver_rank n op m hm
      omega
    · rw [count_cons_other n op ops m hm]
      have hk : Keeps n op m.node := hhead.resolve_left hm
      have := other_rank n op m hk (fun hp => hj hp op (List.mem_cons_self ..))
      omega

theorem count_le_one (n : Node) (ops : List Op) (m : Msg) (hr : Retained n ops m)
    (hp : m.isPrune = false) : (rebroadcasts n ops).count m ≤ 1 :=
  Nat.le_trans (count_le_rank m ops n hr (fun h => by rw [hp] at h; cases h)) (rank_le_one_of_not_prune hp)

theorem count_le_two (n : Node) (ops : List Op) (m : Msg) (hr : Retained n ops m)
    (hj : NoRejoin ops m.node) : (rebroadcasts n ops).count m ≤ 2 :=
  Nat.le_trans (count_le_rank m ops n hr (fun _ => hj)) (rank_le_two n m)

/-! ### state-sync merges are silent -/

theorem merge_silent (n : Node) (lt : Nat) (st : List (Name × Nat)) (lf : List Name) (w : Nat) :
    (step n (.merge lt st lf w)).2.rebroadcast = false ∧ (step n (.merge lt st lf w)).2.queued = [] :=
  ⟨rfl, rfl⟩

theorem merges_never_requeue (ops : List Op) : ∀ n : Node,
    (∀ op ∈ ops, ∃ lt st lf w, op = .merge lt st lf w) → rebroadcasts n ops = [] := by
  induction ops with
  | nil => intro n _; rfl
  | cons op ops ih =>
    intro n h
    obtain ⟨lt, st, lf, w, rfl⟩ := h op (List.mem_cons_self ..)
    rw [rebroadcasts_cons]
    exact ih _ (fun o ho => h o (List.mem_cons_of_mem _ ho))

end SerfProofs.NodeGossip
