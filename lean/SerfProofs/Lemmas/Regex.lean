/-
Lemmas for C26: what the anchoring template does in the span semantics.
-/
import SerfModel.Model.Regex
namespace SerfProofs.Regex
open SerfModel SerfModel.Regex

theorem flatMap_eot_isEmpty (n : Nat) (l : List Nat) :
    (l.flatMap fun k => if k = n then [k] else []).isEmpty = !(l.contains n) := by
  induction l with
  | nil => rfl
  | cons x xs ih =>
    simp only [List.flatMap_cons, List.contains_cons]
    by_cases hx : x = n
    · subst hx; simp
    · have : (n == x) = false := by simpa using (fun e => hx (Eq.symm e))
      simp only [hx, if_false, List.nil_append, ih, this, Bool.false_or]

theorem ends_wrap_zero (r : Regex) (w : List Char) :
    ends (wrap r) w 0 = (ends r w 0).flatMap fun k => if k = w.length then [k] else [] := by
  simp [wrap, ends]

theorem ends_wrap_succ (r : Regex) (w : List Char) (i : Nat) : ends (wrap r) w (i + 1) = [] := by
  simp [wrap, ends]

theorem any_range_succ_only_zero (f : Nat → Bool) (n : Nat) (h : ∀ i, f (i + 1) = false) :
    (List.range (n + 1)).any f = f 0 := by
  induction n with
  | zero => simp [List.range_succ]
  | succ n ih =>
    rw [List.range_succ, List.any_append, ih]
    simp [h]

end SerfProofs.Regex
