/-
Lemmas about the msgpack model: big-endian fields, headers, and the round trip
`decodeF fuel (encode v ++ rest) = some (v, rest)` by mutual structural recursion
over the nested value type.
-/
import SerfModel.Model.Msgpack
namespace SerfProofs.Msgpack
open SerfModel.Msgpack

theorem beBytes_length (k n : Nat) : (beBytes k n).length = k := by
  induction k generalizing n with
  | zero => simp [beBytes]
  | succ k ih => simp [beBytes, ih]

theorem beNat_append_single (xs : Bytes) (b : UInt8) : beNat (xs ++ [b]) = beNat xs * 256 + b.toNat := by
  simp [beNat, List.foldl_append]

theorem toNat_ofNat_lt (n : Nat) (h : n < 256) : (UInt8.ofNat n).toNat = n := by
  simp [UInt8.toNat_ofNat']
  omega

theorem beNat_beBytes (k n : Nat) (h : n < 256 ^ k) : beNat (beBytes k n) = n := by
  induction k generalizing n with
  | zero => simp at h; subst h; simp [beBytes, beNat]
  | succ k ih =>
    have h1 : n / 256 < 256 ^ k := by
      rw [Nat.pow_succ] at h
      exact Nat.div_lt_of_lt_mul (by rw [Nat.mul_comm]; exact h)
    rw [beBytes, beNat_append_single, ih _ h1, toNat_ofNat_lt _ (Nat.mod_lt _ (by decide))]
    omega

theorem takeN_append (xs rest : Bytes) (k : Nat) (h : xs.length = k) : takeN k (xs ++ rest) = some (xs, rest) := by
  subst h
  simp [takeN]

theorem readLen_be (k n : Nat) (rest : Bytes) (h : n < 256 ^ k) :
    readLen k (beBytes k n ++ rest) = some (n, rest) := by
  simp [readLen, takeN_append _ _ _ (beBytes_length k n), beNat_beBytes k n h]

theorem withLen_be (k n : Nat) (rest : Bytes) (f) (h : n < 256 ^ k) :
    withLen k (beBytes k n ++ rest) f = f n rest := by
  simp [withLen, readLen_be k n rest h]

theorem mkRaw_append (bs rest : Bytes) : mkRaw bs.length (bs ++ rest) = some (.raw bs, rest) := by
  simp [mkRaw, takeN_append _ _ _ rfl]


theorem decodeF_posfix (f : Nat) (b : UInt8) (rest : Bytes) (h : b.toNat < 128) :
    decodeF (f + 1) (b :: rest) = some (.uint b.toNat, rest) := by
  simp [decodeF, h]

theorem decodeF_fixmap (f : Nat) (b : UInt8) (rest : Bytes) (h1 : 128 ≤ b.toNat) (h2 : b.toNat < 144) :
    decodeF (f + 1) (b :: rest) = mkMap (decodeF f) (b.toNat - 128) rest := by
  simp [decodeF, h2, show ¬ b.toNat < 128 by omega]

theorem decodeF_fixarr (f : Nat) (b : UInt8) (rest : Bytes) (h1 : 144 ≤ b.toNat) (h2 : b.toNat < 160) :
    decodeF (f + 1) (b :: rest) = mkArr (decodeF f) (b.toNat - 144) rest := by
  simp [decodeF, h2, show ¬ b.toNat < 128 by omega, show ¬ b.toNat < 144 by omega]

theorem decodeF_fixraw (f : Nat) (b : UInt8) (rest : Bytes) (h1 : 160 ≤ b.toNat) (h2 : b.toNat < 192) :
    decodeF (f + 1) (b :: rest) = mkRaw (b.toNat - 160) rest := by
  simp [decodeF, h2, show ¬ b.toNat < 128 by omega, show ¬ b.toNat < 144 by omega, show ¬ b.toNat < 160 by omega]

theorem decodeF_negfix (f : Nat) (b : UInt8) (rest : Bytes) (h1 : 224 ≤ b.toNat) :
    decodeF (f + 1) (b :: rest) = some (.int ((b.toNat : Int) - 256), rest) := by
  simp [decodeF, h1, show ¬ b.toNat < 128 by omega, show ¬ b.toNat < 144 by omega, show ¬ b.toNat < 160 by omega,
    show ¬ b.toNat < 192 by omega]

theorem dec_uint (f n : Nat) (rest : Bytes) (h : n < 18446744073709551616) :
    decodeF (f + 1) (encUint n ++ rest) = some (.uint n, rest) := by
  unfold encUint
  split
  · have := toNat_ofNat_lt n (by omega)
    simp [decodeF_posfix f _ rest (by omega : (UInt8.ofNat n).toNat < 128), this]
  split
  · simp [decodeF, withLen_be 1 n rest _ (by omega)]
  split
  · simp [decodeF, withLen_be 2 n rest _ (by omega)]
  split
  · simp [decodeF, withLen_be 4 n rest _ (by omega)]
  · simp [decodeF, withLen_be 8 n rest _ (by omega)]

theorem dec_int (f : Nat) (i : Int) (rest : Bytes) (h : wf (.int i) = true) :
    decodeF (f + 1) (encInt i ++ rest) = some (.int i, rest) := by
  simp [wf] at h
  unfold encInt
  split
  · split
    · have h1 : i.toNat < 256 ^ 2 := by omega
      simp [decodeF, withLen_be 2 _ rest _ h1, signedOf]
      omega
    split
    · have h1 : i.toNat < 256 ^ 4 := by omega
      simp [decodeF, withLen_be 4 _ rest _ h1, signedOf]
      omega
    · have h1 : i.toNat < 256 ^ 8 := by omega
      simp [decodeF, withLen_be 8 _ rest _ h1, signedOf]
      omega
  split
  · omega
  split
  · have := toNat_ofNat_lt (i + 256).toNat (by omega)
    rw [List.singleton_append, decodeF_negfix f _ rest (by omega), this]
    congr 2; congr 1; omega
  split
  · have h1 : (i + 256).toNat < 256 ^ 1 := by omega
    simp [decodeF, withLen_be 1 _ rest _ h1, signedOf]
    omega
  split
  · have h1 : (i + 65536).toNat < 256 ^ 2 := by omega
    simp [decodeF, withLen_be 2 _ rest _ h1, signedOf]
    omega
  split
  · have h1 : (i + 4294967296).toNat < 256 ^ 4 := by omega
    simp [decodeF, withLen_be 4 _ rest _ h1, signedOf]
    omega
  · have h1 : (i + 18446744073709551616).toNat < 256 ^ 8 := by omega
    simp [decodeF, withLen_be 8 _ rest _ h1, signedOf]
    omega

theorem dec_raw (f : Nat) (bs rest : Bytes) (h : bs.length < 4294967296) :
    decodeF (f + 1) (rawHdr bs.length ++ (bs ++ rest)) = some (.raw bs, rest) := by
  unfold rawHdr
  split
  · have := toNat_ofNat_lt (160 + bs.length) (by omega)
    rw [List.singleton_append, decodeF_fixraw f _ _ (by omega) (by omega), this]
    simp [mkRaw_append]
  split
  · simp [decodeF, withLen_be 2 _ _ _ (by omega : bs.length < 256 ^ 2), mkRaw_append]
  · simp [decodeF, withLen_be 4 _ _ _ (by omega : bs.length < 256 ^ 4), mkRaw_append]

theorem dec_arrHdr (f l : Nat) (tail : Bytes) (h : l < 4294967296) :
    decodeF (f + 1) (arrHdr l ++ tail) = mkArr (decodeF f) l tail := by
  unfold arrHdr
  split
  · have := toNat_ofNat_lt (144 + l) (by omega)
    rw [List.singleton_append, decodeF_fixarr f _ _ (by omega) (by omega), this]
    simp
  split
  · simp [decodeF, withLen_be 2 _ _ _ (by omega : l < 256 ^ 2)]
  · simp [decodeF, withLen_be 4 _ _ _ (by omega : l < 256 ^ 4)]

theorem dec_mapHdr (f l : Nat) (tail : Bytes) (h : l < 4294967296) :
    decodeF (f + 1) (mapHdr l ++ tail) = mkMap (decodeF f) l tail := by
  unfold mapHdr
  split
  · have := toNat_ofNat_lt (128 + l) (by omega)
    rw [List.singleton_append, decodeF_fixmap f _ _ (by omega) (by omega), this]
    simp
  split
  · simp [decodeF, withLen_be 2 _ _ _ (by omega : l < 256 ^ 2)]
  · simp [decodeF, withLen_be 4 _ _ _ (by omega : l < 256 ^ 4)]


mutual
theorem rt : (v : MP) → wf v = true → ∀ (f : Nat) (rest : Bytes), depth v ≤ f →
    decodeF f (encode v ++ rest) = some (v, rest)
  | .nil, _, f, rest, hd => by
    obtain ⟨f, rfl⟩ : ∃ g, f = g + 1 := ⟨f - 1, by simp [depth] at hd; omega⟩
    simp [encode, decodeF]
  | .bool b, _, f, rest, hd => by
    obtain ⟨f, rfl⟩ : ∃ g, f = g + 1 := ⟨f - 1, by simp [depth] at hd; omega⟩
    cases b <;> simp [encode, decodeF]
  | .uint n, h, f, rest, hd => by
    obtain ⟨f, rfl⟩ : ∃ g, f = g + 1 := ⟨f - 1, by simp [depth] at hd; omega⟩
    simp [wf] at h
    simp [encode, dec_uint f n rest h]
  | .int i, h, f, rest, hd => by
    obtain ⟨f, rfl⟩ : ∃ g, f = g + 1 := ⟨f - 1, by simp [depth] at hd; omega⟩
    simp [encode, dec_int f i rest h]
  | .f32 n, h, f, rest, hd => by
    obtain ⟨f, rfl⟩ : ∃ g, f = g + 1 := ⟨f - 1, by simp [depth] at hd; omega⟩
    simp [wf] at h
    simp [encode, decodeF, withLen_be 4 n rest _ (by omega)]
  | .f64 n, h, f, rest, hd => by
    obtain ⟨f, rfl⟩ : ∃ g, f = g + 1 := ⟨f - 1, by simp [depth] at hd; omega⟩
    simp [wf] at h
    simp [encode, decodeF, withLen_be 8 n rest _ (by omega)]
  | .raw bs, h, f, rest, hd => by
    obtain ⟨f, rfl⟩ : ∃ g, f = g + 1 := ⟨f - 1, by simp [depth] at hd; omega⟩
    simp [wf] at h
    simp only [encode, List.append_assoc]
    exact dec_raw f bs rest h
  | .arr xs, h, f, rest, hd => by
    obtain ⟨f, rfl⟩ : ∃ g, f = g + 1 := ⟨f - 1, by simp [depth] at hd; omega⟩
    simp [wf] at h
    simp only [encode, List.append_assoc]
    rw [dec_arrHdr f _ _ h.1, mkArr, rtList xs h.2 f rest (by simp [depth] at hd; omega)]
  | .map kvs, h, f, rest, hd => by
    obtain ⟨f, rfl⟩ : ∃ g, f = g + 1 := ⟨f - 1, by simp [depth] at hd; omega⟩
    simp [wf] at h
    simp only [encode, List.append_assoc]
    rw [dec_mapHdr f _ _ h.1, mkMap, rtPairs kvs h.2 f rest (by simp [depth] at hd; omega)]
theorem rtList : (xs : List MP) → wfList xs = true → ∀ (f : Nat) (rest : Bytes), depthList xs ≤ f →
    decList (decodeF f) xs.length (encodeList xs ++ rest) = some (xs, rest)
  | [], _, f, rest, _ => by simp [decList, encodeList]
  | x :: xs, h, f, rest, hd => by
    simp [wfList] at h
    simp [depthList] at hd
    simp only [encodeList, List.append_assoc, List.length_cons, decList]
    rw [rt x h.1 f _ (by omega)]
    simp only []
    rw [rtList xs h.2 f rest (by omega)]
theorem rtPairs : (kvs : List (MP × MP)) → wfPairs kvs = true → ∀ (f : Nat) (rest : Bytes), depthPairs kvs ≤ f →
    decPairs (decodeF f) kvs.length (encodePairs kvs ++ rest) = some (kvs, rest)
  | [], _, f, rest, _ => by simp [decPairs, encodePairs]
  | (k, v) :: kvs, h, f, rest, hd => by
    simp [wfPairs] at h
    simp [depthPairs] at hd
    simp only [encodePairs, List.append_assoc, List.length_cons, decPairs]
    rw [rt k h.1 f _ (by omega)]
    simp only []
    rw [rt v h.2.1 f _ (by omega)]
    simp only []
    rw [rtPairs kvs h.2.2 f rest (by omega)]
end

theorem encUint_len_pos (n : Nat) : 1 ≤ (encUint n).length := by
  unfold encUint; repeat' split
  all_goals simp
theorem encInt_len_pos (n : Int) : 1 ≤ (encInt n).length := by
  unfold encInt; repeat' split
  all_goals simp
theorem rawHdr_len_pos (n : Nat) : 1 ≤ (rawHdr n).length := by
  unfold rawHdr; repeat' split
  all_goals simp
theorem arrHdr_len_pos (n : Nat) : 1 ≤ (arrHdr n).length := by
  unfold arrHdr; repeat' split
  all_goals simp
theorem mapHdr_len_pos (n : Nat) : 1 ≤ (mapHdr n).length := by
  unfold mapHdr; repeat' split
  all_goals simp

mutual
theorem depth_le_length : (v : MP) → depth v ≤ (encode v).length
  | .nil => by simp [depth, encode]
  | .bool b => by simp [depth, encode]
  | .uint n => by simp [depth, encode]; exact encUint_len_pos n
  | .int n => by simp [depth, encode]; exact encInt_len_pos n
  | .f32 n => by simp [depth, encode]
  | .f64 n => by simp [depth, encode]
  | .raw bs => by have := rawHdr_len_pos bs.length; simp [depth, encode]; omega
  | .arr xs => by
    have := depthList_le_length xs
    have := arrHdr_len_pos xs.length
    simp [depth, encode]; omega
  | .map xs => by
    have := depthPairs_le_length xs
    have := mapHdr_len_pos xs.length
    simp [depth, encode]; omega
theorem depthList_le_length : (xs : List MP) → depthList xs ≤ (encodeList xs).length
  | [] => by simp [depthList]
  | x :: xs => by
    have := depth_le_length x
    have := depthList_le_length xs
    simp [depthList, encodeList]; omega
theorem depthPairs_le_length : (xs : List (MP × MP)) → depthPairs xs ≤ (encodePairs xs).length
  | [] => by simp [depthPairs]
  | (k, v) :: xs => by
    have := depth_le_length k
    have := depth_le_length v
    have := depthPairs_le_length xs
    simp [depthPairs, encodePairs]; omega
end

theorem decode_encode (v : MP) (h : wf v = true) (rest : Bytes) : decode (encode v ++ rest) = some (v, rest) := by
  unfold decode
  apply rt v h
  have := depth_le_length v
  simp; omega

end SerfProofs.Msgpack
