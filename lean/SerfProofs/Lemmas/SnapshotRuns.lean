/-
Whole histories: `run`, a leave in the middle, `shutdown`, and what a restart recovers.
-/
import SerfProofs.Lemmas.SnapshotSteps
namespace SerfProofs.Snapshot
open SerfModel SerfModel.Snapshot

attribute [local irreducible] lastSeenOf

theorem run_nil (ord : Order) (s : Snap) : run ord s [] = (s, []) := rfl
theorem run_cons (ord : Order) (s : Snap) (e : Ev) (es : List Ev) :
    run ord s (e :: es) = ((run ord (step ord s e).1 es).1, (step ord s e).2 ++ (run ord (step ord s e).1 es).2) := rfl

theorem run_append (ord : Order) (a b : List Ev) : ∀ s : Snap,
    run ord s (a ++ b) = ((run ord (run ord s a).1 b).1, (run ord s a).2 ++ (run ord (run ord s a).1 b).2) := by
  induction a with
  | nil => intro s; rw [run_nil]; rfl
  | cons e es ih =>
    intro s
    rw [List.cons_append, run_cons, run_cons, ih]
    simp only [List.append_assoc]

/-- the invariant along a run, with what happens to the flags and the alive map -/
theorem run_inv (ord : Order) (hord : PermOrder ord) (evs : List Ev) :
    ∀ (s : Snap) (fs : FS), (∀ e ∈ evs, WFEv e) → Inv s fs →
      Inv (run ord s evs).1 (fs.applyAll (run ord s evs).2) ∧ (run ord s evs).1.rejoin = s.rejoin ∧
      (Ev.leave ∉ evs → (run ord s evs).1.leaving = s.leaving) ∧
      (s.leaving = true → (run ord s evs).1.leaving = true ∧
        ((run ord s evs).1.alive = s.alive ∨ ((run ord s evs).1.alive = [] ∧ s.rejoin = false))) := by
  induction evs with
  | nil => intro s fs _ h; rw [run_nil]; exact ⟨h, rfl, fun _ => rfl, fun hl => ⟨hl, Or.inl rfl⟩⟩
  | cons e es ih =>
    intro s fs hw h
    have h1 := step_inv ord hord s fs e (hw e List.mem_cons_self) h
    have h2 := ih _ _ (fun x hx => hw x (List.mem_cons_of_mem _ hx)) h1.1
    rw [← applyAll_append] at h2
    rw [run_cons]
    refine ⟨h2.1, h2.2.1.trans h1.2.1, ?_, ?_⟩
    · intro hn
      simp only [List.mem_cons, not_or] at hn
      exact (h2.2.2.1 hn.2).trans (h1.2.2.1 (fun x => hn.1 x.symm))
    · intro hl
      have a1 := h1.2.2.2.1 hl
      have a2 := h2.2.2.2 a1.1
      refine ⟨a2.1, ?_⟩
      rcases a2.2 with e2 | e2
      · rcases a1.2 with e1 | e1
        · exact Or.inl (e2.trans e1)
        · exact Or.inr ⟨e2.trans e1.1, e1.2⟩
      · exact Or.inr ⟨e2.1, e2.2.symm ▸ (h1.2.1 ▸ rfl)⟩

theorem recover_of_main (rj : Bool) (fs : FS) (d : Bytes) (h : fs.main = some d) : recover rj fs = replay rj d := by
  unfold recover; rw [h]; rfl

/-- what a restart recovers from a flushed state satisfying the invariant -/
theorem recover_of_inv (s : Snap) (fs : FS) (hinv : Inv s fs) (hbuf : s.buf = []) :
    MapEq (recover s.rejoin fs).alive s.alive ∧ (akeys s.alive).Nodup ∧
    (Judged s → (recover s.rejoin fs).clock = s.lastClock ∧ (recover s.rejoin fs).eventClock = s.lastEventClock ∧
      (recover s.rejoin fs).queryClock = s.lastQueryClock) := by
  obtain ⟨d, hd, hnl, hwf, hA, hC⟩ := hinv
  rw [hbuf, List.append_nil] at hA hC
  rw [recover_of_main s.rejoin fs d hd]
  exact ⟨hA, hwf.1, hC⟩

/-- what a restart recovers after a shutdown, in terms of the final in-memory state -/
theorem recover_after_shutdown (ord : Order) (hord : PermOrder ord) (s : Snap) (fs : FS) (clk : Nat) (h : Inv s fs) :
    MapEq (recover s.rejoin (fs.applyAll (shutdown ord s clk).2)).alive (shutdown ord s clk).1.alive ∧
    (akeys (shutdown ord s clk).1.alive).Nodup ∧
    (s.leaving = false ∨ s.rejoin = true →
      (recover s.rejoin (fs.applyAll (shutdown ord s clk).2)).clock = (shutdown ord s clk).1.lastClock ∧
      (recover s.rejoin (fs.applyAll (shutdown ord s clk).2)).eventClock = (shutdown ord s clk).1.lastEventClock ∧
      (recover s.rejoin (fs.applyAll (shutdown ord s clk).2)).queryClock = (shutdown ord s clk).1.lastQueryClock) := by
  have hs := shutdown_inv ord hord s fs clk h
  have key := recover_of_inv _ _ hs.1 hs.2.1
  unfold Judged at key
  rw [hs.2.2.rejoin, hs.2.2.leaving] at key
  exact key

/-- a life without a leave: run, shutdown, restart -/
theorem restore_generic (ord : Order) (hord : PermOrder ord) (s0 : Snap) (fs0 : FS) (h0 : Inv s0 fs0)
    (hl : s0.leaving = false) (evs : List Ev) (clk : Nat) (hwf : ∀ e ∈ evs, WFEv e) (hnl : Ev.leave ∉ evs) :
    MapEq (recover s0.rejoin ((fs0.applyAll (run ord s0 evs).2).applyAll (shutdown ord (run ord s0 evs).1 clk).2)).alive
        (shutdown ord (run ord s0 evs).1 clk).1.alive ∧
    (akeys (shutdown ord (run ord s0 evs).1 clk).1.alive).Nodup ∧
    (recover s0.rejoin ((fs0.applyAll (run ord s0 evs).2).applyAll (shutdown ord (run ord s0 evs).1 clk).2)).clock =
        (shutdown ord (run ord s0 evs).1 clk).1.lastClock ∧
    (recover s0.rejoin ((fs0.applyAll (run ord s0 evs).2).applyAll (shutdown ord (run ord s0 evs).1 clk).2)).eventClock =
        (shutdown ord (run ord s0 evs).1 clk).1.lastEventClock ∧
    (recover s0.rejoin ((fs0.applyAll (run ord s0 evs).2).applyAll (shutdown ord (run ord s0 evs).1 clk).2)).queryClock =
        (shutdown ord (run ord s0 evs).1 clk).1.lastQueryClock := by
  have hr := run_inv ord hord evs s0 fs0 hwf h0
  have hsd := recover_after_shutdown ord hord (run ord s0 evs).1 _ clk hr.1
  rw [hr.2.1] at hsd
  have hlv : (run ord s0 evs).1.leaving = false := (hr.2.2.1 hnl).trans hl
  exact ⟨hsd.1, hsd.2.1, hsd.2.2 (Or.inl hlv)⟩

/-- a life with a leave in the middle: what the final alive map is and that the restart recovers it -/
theorem leave_generic (ord : Order) (hord : PermOrder ord) (s0 : Snap) (fs0 : FS) (h0 : Inv s0 fs0)
    (pre post : List Ev) (clk : Nat) (hwf : ∀ e ∈ pre ++ (Ev.leave :: post), WFEv e) :
    MapEq (recover s0.rejoin ((fs0.applyAll (run ord s0 (pre ++ (Ev.leave :: post))).2).applyAll
            (shutdown ord (run ord s0 (pre ++ (Ev.leave :: post))).1 clk).2)).alive
          (if s0.rejoin then (run ord s0 pre).1.alive else []) := by
  have hr := run_inv ord hord _ s0 fs0 hwf h0
  have hsd := recover_after_shutdown ord hord _ _ clk hr.1
  rw [hr.2.1] at hsd
  have hk := (shutdown_inv ord hord _ _ clk hr.1).2.2
  -- the alive map at the end
  have hfinal : (run ord s0 (pre ++ (Ev.leave :: post))).1.alive = if s0.rejoin then (run ord s0 pre).1.alive else [] := by
    have hpre := run_inv ord hord pre s0 fs0 (fun e he => hwf e (List.mem_append_left _ he)) h0
    have hst := step_inv ord hord _ _ Ev.leave trivial hpre.1
    have hpost := run_inv ord hord post _ _
      (fun e he => hwf e (List.mem_append_right _ (List.mem_cons_of_mem _ he))) hst.1
    have e1 : (run ord s0 (pre ++ (Ev.leave :: post))).1 =
        (run ord (step ord (run ord s0 pre).1 Ev.leave).1 post).1 := by
      rw [run_append, run_cons]
    rw [e1]
    have hlv := hst.2.2.2.2 rfl
    have hp := hpost.2.2.2 hlv.1
    rw [hst.2.1, hpre.2.1] at hp
    rw [hpre.2.1] at hlv
    rcases hp.2 with e | e
    · rw [e]; exact hlv.2
    · rw [e.1, e.2]; rfl
  rw [hk.alive, hfinal] at hsd
  exact hsd.1

theorem life_fresh_fst (ord : Order) (rj : Bool) (mc : Nat) (evs : List Ev) (clk : Nat) :
    (life ord rj mc {} evs clk).1 = (shutdown ord (run ord (Snap.init rj mc).1 evs).1 clk).1 := rfl

theorem life_fresh_snd (ord : Order) (rj : Bool) (mc : Nat) (evs : List Ev) (clk : Nat) :
    (life ord rj mc {} evs clk).2 =
      (Snap.init rj mc).2 ++ (run ord (Snap.init rj mc).1 evs).2 ++ (shutdown ord (run ord (Snap.init rj mc).1 evs).1 clk).2 := rfl

theorem life_fresh_fs (ord : Order) (rj : Bool) (mc : Nat) (evs : List Ev) (clk : Nat) :
    FS.applyAll {} (life ord rj mc {} evs clk).2 =
      (((({} : FS).applyAll (Snap.init rj mc).2).applyAll (run ord (Snap.init rj mc).1 evs).2).applyAll
        (shutdown ord (run ord (Snap.init rj mc).1 evs).1 clk).2) := by
  rw [life_fresh_snd, applyAll_append, applyAll_append]

theorem init_rejoin (rj : Bool) (mc : Nat) : (Snap.init rj mc).1.rejoin = rj := rfl
theorem init_leaving (rj : Bool) (mc : Nat) : (Snap.init rj mc).1.leaving = false := rfl

end SerfProofs.Snapshot
